(* C10: the PIN kept on disk always opens the device.
   1. PIN policy (pin_is_valid, generate_pin)
   2. object-level change protocol (Model/Pin.v + Bringup.pin_change_block)
   3. history level (Model/PinHistory.v): what holds, and what is refuted.
   (Section 3 precedes section 2 in this file; they are independent.) *)
From PowHsm Require Import Model.Bringup Model.PinHistory Proofs.TraceLogic Proofs.C09.
From Coq Require Import ZifyBool ZifyNat ZifyN Lia.

(* ====================================================================== *)
(* 1. PIN policy                                                           *)
(* ====================================================================== *)

Definition alnum (c : N) : Prop := (48 <= c <= 57) \/ (65 <= c <= 90) \/ (97 <= c <= 122).
Definition alpha (c : N) : Prop := (65 <= c <= 90) \/ (97 <= c <= 122).

Definition alnumb (c : N) : bool :=
  ((48 <=? c) && (c <=? 57)) || ((65 <=? c) && (c <=? 90)) || ((97 <=? c) && (c <=? 122)).
Definition alphab (c : N) : bool :=
  ((65 <=? c) && (c <=? 90)) || ((97 <=? c) && (c <=? 122)).

Lemma alnumb_spec c : alnumb c = true <-> alnum c.
Proof. unfold alnumb, alnum. lia. Qed.
Lemma alphab_spec c : alphab c = true <-> alpha c.
Proof. unfold alphab, alpha. lia. Qed.

(* closed checks against the generated tables *)
Lemma pin_length_is : PIN_LENGTH = 8.
Proof. reflexivity. Qed.

Definition all_bytes : list N := map N.of_nat (seq 0 256).

Lemma in_all_bytes c : c < 256 -> In c all_bytes.
Proof.
  intro H. unfold all_bytes. rewrite <- (N2Nat.id c). apply in_map. apply in_seq. lia.
Qed.

Lemma Forall_lt_of_forallb (l : list N) :
  forallb (fun x => x <? 256) l = true -> Forall (fun x => x < 256) l.
Proof.
  intro H. apply Forall_forall. intros x Hx.
  rewrite forallb_forall in H. specialize (H x Hx). lia.
Qed.

Lemma possible_chars_lt : Forall (fun x => x < 256) PIN_POSSIBLE_CHARS.
Proof. apply Forall_lt_of_forallb. vm_compute. reflexivity. Qed.

Lemma alpha_chars_lt : Forall (fun x => x < 256) PIN_ALPHA_CHARS.
Proof. apply Forall_lt_of_forallb. vm_compute. reflexivity. Qed.

Lemma mem_N_In x l : mem_N x l = true <-> In x l.
Proof.
  induction l as [|y l IH]; cbn [mem_N In]; [split; [discriminate|tauto]|].
  rewrite orb_true_iff, IH, N.eqb_eq. split; (intros [H|H]; [left; congruence|right; exact H]).
Qed.

Lemma mem_N_lt x l : Forall (fun y => y < 256) l -> mem_N x l = true -> x < 256.
Proof.
  intros Hl Hm. apply mem_N_In in Hm. rewrite Forall_forall in Hl. exact (Hl x Hm).
Qed.

Lemma possible_table :
  forallb (fun c => Bool.eqb (mem_N c PIN_POSSIBLE_CHARS) (alnumb c)) all_bytes = true.
Proof. vm_compute. reflexivity. Qed.

Lemma alpha_table :
  forallb (fun c => Bool.eqb (mem_N c PIN_ALPHA_CHARS) (alphab c)) all_bytes = true.
Proof. vm_compute. reflexivity. Qed.

Lemma mem_possible c : mem_N c PIN_POSSIBLE_CHARS = alnumb c.
Proof.
  destruct (N.ltb_spec c 256) as [H|H].
  - pose proof possible_table as T. rewrite forallb_forall in T.
    specialize (T c (in_all_bytes c H)). apply eqb_prop in T. exact T.
  - destruct (mem_N c PIN_POSSIBLE_CHARS) eqn:E.
    + apply (mem_N_lt _ _ possible_chars_lt) in E. lia.
    + unfold alnumb. lia.
Qed.

Lemma mem_alpha c : mem_N c PIN_ALPHA_CHARS = alphab c.
Proof.
  destruct (N.ltb_spec c 256) as [H|H].
  - pose proof alpha_table as T. rewrite forallb_forall in T.
    specialize (T c (in_all_bytes c H)). apply eqb_prop in T. exact T.
  - destruct (mem_N c PIN_ALPHA_CHARS) eqn:E.
    + apply (mem_N_lt _ _ alpha_chars_lt) in E. lia.
    + unfold alphab. lia.
Qed.

Lemma forallb_Forall {A} (f : A -> bool) (P : A -> Prop) l :
  (forall x, f x = true <-> P x) -> (forallb f l = true <-> Forall P l).
Proof.
  intro H. rewrite forallb_forall, Forall_forall.
  split; intros G x Hx; apply H; auto.
Qed.

Lemma existsb_Exists {A} (f : A -> bool) (P : A -> Prop) l :
  (forall x, f x = true <-> P x) -> (existsb f l = true <-> Exists P l).
Proof.
  intro H. rewrite existsb_exists, Exists_exists.
  split; intros [x [Hx G]]; exists x; (split; [exact Hx|apply H; exact G]).
Qed.

(* the device policy: 8 alphanumeric characters, at least one letter *)
Theorem pin_is_valid_spec p :
  pin_is_valid p false = true <-> length p = 8%nat /\ Forall alnum p /\ Exists alpha p.
Proof.
  unfold pin_is_valid. cbn [orb]. rewrite !andb_true_iff.
  rewrite (forallb_Forall _ alnum) by (intro x; rewrite mem_possible; apply alnumb_spec).
  rewrite (existsb_Exists _ alpha) by (intro x; rewrite mem_alpha; apply alphab_spec).
  rewrite pin_length_is. unfold nlen. rewrite N.eqb_eq.
  split; intros [H1 [H2 H3]]; repeat split; auto; lia.
Qed.

(* any_pin = True: only the alphabet is checked *)
Theorem pin_is_valid_any_spec p : pin_is_valid p true = true <-> Forall alnum p.
Proof.
  unfold pin_is_valid. cbn [orb]. rewrite andb_true_r.
  apply forallb_Forall. intro x. rewrite mem_possible. apply alnumb_spec.
Qed.

Theorem generated_pin_policy l p r : gen_pin_from l = Some (p, r) -> pin_is_valid p false = true.
Proof.
  induction l as [|q l IH]; cbn [gen_pin_from]; [discriminate|].
  destruct (pin_is_valid q false) eqn:E; [|exact IH].
  intro H. inversion H; subst. exact E.
Qed.

(* the generator returns the first valid candidate and consumes the stream up to it *)
Theorem gen_pin_from_first l p r :
  gen_pin_from l = Some (p, r) ->
  exists skipped, l = skipped ++ p :: r /\ Forall (fun q => pin_is_valid q false = false) skipped.
Proof.
  revert p r. induction l as [|q l IH]; intros p r; cbn [gen_pin_from]; [discriminate|].
  destruct (pin_is_valid q false) eqn:E.
  - intro H. inversion H; subst. exists []. split; [reflexivity|constructor].
  - intro H. destruct (IH p r H) as [sk [-> Hs]]. exists (q :: sk). split; [reflexivity|].
    constructor; assumption.
Qed.

Theorem generate_pin_policy w p w' : generate_pin w = (Ok p, w') -> pin_is_valid p false = true.
Proof.
  unfold generate_pin. destruct (gen_pin_from (rand_pins w)) as [[q r]|] eqn:E; [|discriminate].
  intro H. inversion H; subst. eapply generated_pin_policy; exact E.
Qed.

Example ex_valid_pin : pin_is_valid [90; 122; 57; 90; 122; 57; 90; 122] false = true.
Proof. vm_compute. reflexivity. Qed.
Example ex_digits_only_invalid : pin_is_valid [49; 50; 51; 52; 53; 54; 55; 56] false = false.
Proof. vm_compute. reflexivity. Qed.
Example ex_short_invalid : pin_is_valid [49; 97] false = false.
Proof. vm_compute. reflexivity. Qed.
Example ex_gen_skips_invalid :
  gen_pin_from [[49; 50; 51; 52; 53; 54; 55; 56]; [49; 97]; [49; 50; 51; 52; 53; 54; 55; 97]; [1]]
  = Some ([49; 50; 51; 52; 53; 54; 55; 97], [[1]]).
Proof. vm_compute. reflexivity. Qed.

(* a valid PIN has no white space, so the strip done when the file is read back is harmless *)
Lemma alnum_not_space c : alnum c -> is_pyspace c = false.
Proof. unfold alnum, is_pyspace. lia. Qed.

Lemma lstrip_nospace b : Forall (fun c => is_pyspace c = false) b -> lstrip b = b.
Proof. intro H. destruct H as [|c r Hc _]; cbn [lstrip]; [reflexivity|]. rewrite Hc. reflexivity. Qed.

Lemma py_strip_nospace b : Forall (fun c => is_pyspace c = false) b -> py_strip b = b.
Proof.
  intro H. unfold py_strip. rewrite (lstrip_nospace b H).
  rewrite (lstrip_nospace (rev b)) by (apply Forall_rev; exact H).
  apply rev_involutive.
Qed.

Theorem py_strip_valid p : pin_is_valid p false = true -> py_strip p = p.
Proof.
  intro H. apply pin_is_valid_spec in H. destruct H as [_ [H _]].
  apply py_strip_nospace. eapply Forall_impl; [|exact H]. exact alnum_not_space.
Qed.

(* ====================================================================== *)
(* 3. History level (Model/PinHistory.v)                                   *)
(* ====================================================================== *)

Lemma bytes_eqb_eq a b : bytes_eqb a b = true <-> a = b.
Proof.
  split; [apply list_eqb_N_eq|]. intros <-. unfold bytes_eqb.
  induction a as [|x a IH]; cbn [list_eqb]; [reflexivity|]. rewrite N.eqb_refl, IH. reflexivity.
Qed.

Theorem recoverableb_spec s : recoverableb s = true <-> recoverable s.
Proof.
  unfold recoverableb, recoverable. rewrite orb_true_iff. split.
  - intros [H|H].
    + destruct (g_file s) as [f|]; [|discriminate]. left. exists f. split; [reflexivity|].
      apply bytes_eqb_eq; exact H.
    + destruct (g_default s) as [d|]; [|discriminate]. right. apply bytes_eqb_eq in H. congruence.
  - intros [[f [Hf Hs]]|H].
    + left. rewrite Hf. apply bytes_eqb_eq; exact Hs.
    + right. rewrite H. apply bytes_eqb_eq; reflexivity.
Qed.

Lemma not_recoverable_of_b s : recoverableb s = false -> ~ recoverable s.
Proof. intros H R. apply recoverableb_spec in R. congruence. Qed.

(* the run starts a PIN change: PIN loaded, valid, opens the device, change needed *)
Definition change_attempted (s : gstate) (r : run) : Prop :=
  exists cur, loaded_pin s = Some cur /\ pin_is_valid cur false = true
              /\ bytes_eqb cur (g_dev s) = true
              /\ (r_force r || match g_file s with Some _ => false | None => true end) = true.

(* run_once, case by case *)
Lemma run_once_not_attempted s r :
  ~ change_attempted s r ->
  fst (run_once s r) = s /\ snd (run_once s r) <> RStopped /\ snd (run_once s r) <> RCrashed.
Proof.
  intro H. unfold run_once.
  destruct (loaded_pin s) as [cur|] eqn:El; [|cbn; repeat split; discriminate].
  destruct (pin_is_valid cur false) eqn:Ev; cbn [negb]; [|cbn; repeat split; discriminate].
  destruct (bytes_eqb cur (g_dev s)) eqn:Eu; cbn [negb]; [|cbn; repeat split; discriminate].
  destruct (r_force r || match g_file s with Some _ => false | None => true end) eqn:En;
    cbn [negb]; [|cbn; repeat split; discriminate].
  exfalso. apply H. exists cur. auto.
Qed.

Lemma run_once_attempted s r :
  change_attempted s r ->
  run_once s r =
    match r_send r with
    | SRefuse | SError => (s, RStopped)
    | SAckLost => (mkG (g_file s) (r_newpin r) (g_default s), RStopped)
    | SAck =>
        match r_commit r with
        | COk => (mkG (Some (r_newpin r)) (r_newpin r) (g_default s), RStopped)
        | COpenFail => (mkG (g_file s) (r_newpin r) (g_default s), RStopped)
        | CWriteFail => (mkG (Some []) (r_newpin r) (g_default s), RStopped)
        | CCrashBeforeCommit => (mkG (g_file s) (r_newpin r) (g_default s), RCrashed)
        | CCrashAfterTruncate => (mkG (Some []) (r_newpin r) (g_default s), RCrashed)
        end
    end.
Proof.
  intros [cur [El [Ev [Eu En]]]]. unfold run_once. rewrite El, Ev, Eu, En. reflexivity.
Qed.

Lemma change_attempted_dec s r : change_attempted s r \/ ~ change_attempted s r.
Proof.
  unfold change_attempted.
  destruct (loaded_pin s) as [cur|]; [|right; intros [c [H _]]; discriminate].
  destruct (pin_is_valid cur false) eqn:Ev;
    [|right; intros [c [H [H1 _]]]; inversion H; subst; congruence].
  destruct (bytes_eqb cur (g_dev s)) eqn:Eu;
    [|right; intros [c [H [_ [H1 _]]]]; inversion H; subst; congruence].
  destruct (r_force r || match g_file s with Some _ => false | None => true end) eqn:En;
    [|right; intros [c [H [_ [_ H1]]]]; congruence].
  left. exists cur. auto.
Qed.

(* 3a *)
Theorem file_changes_only_after_ack s r :
  let s' := fst (run_once s r) in
  g_file s' <> g_file s ->
  r_send r = SAck
  /\ change_attempted s r
  /\ (r_commit r = COk -> g_file s' = Some (r_newpin r) /\ g_dev s' = r_newpin r)
  /\ (r_commit r <> COk -> g_file s' = Some []).
Proof.
  cbv zeta. intro H.
  destruct (change_attempted_dec s r) as [Ha|Hn];
    [|destruct (run_once_not_attempted s r Hn) as [E _]; rewrite E in H; congruence].
  revert H. rewrite (run_once_attempted s r Ha).
  destruct (r_send r); cbn [fst g_file g_dev]; try congruence.
  destruct (r_commit r); cbn [fst g_file g_dev]; intro H; try congruence;
    (split; [reflexivity|split; [exact Ha|split; [intro; try discriminate; auto|intro; try congruence]]]).
Qed.

(* 3b *)
Theorem failed_change_touches_nothing s r :
  r_send r = SRefuse \/ r_send r = SError -> fst (run_once s r) = s.
Proof.
  intro H.
  destruct (change_attempted_dec s r) as [Ha|Hn];
    [|exact (proj1 (run_once_not_attempted s r Hn))].
  rewrite (run_once_attempted s r Ha). destruct H as [-> | ->]; reflexivity.
Qed.

(* 3c *)
Theorem device_changes_only_to_new_pin s r :
  let s' := fst (run_once s r) in g_dev s' = g_dev s \/ g_dev s' = r_newpin r.
Proof.
  cbv zeta.
  destruct (change_attempted_dec s r) as [Ha|Hn];
    [|left; rewrite (proj1 (run_once_not_attempted s r Hn)); reflexivity].
  rewrite (run_once_attempted s r Ha).
  destruct (r_send r); [destruct (r_commit r)| | |]; cbn [fst g_dev]; auto.
Qed.

(* the default never changes; the device PIN changes only when the device took the new PIN *)
Theorem default_never_changes s r : g_default (fst (run_once s r)) = g_default s.
Proof.
  destruct (change_attempted_dec s r) as [Ha|Hn];
    [|rewrite (proj1 (run_once_not_attempted s r Hn)); reflexivity].
  rewrite (run_once_attempted s r Ha).
  destruct (r_send r); [destruct (r_commit r)| | |]; reflexivity.
Qed.

Theorem device_changes_only_when_stored s r :
  g_dev (fst (run_once s r)) <> g_dev s -> r_send r = SAck \/ r_send r = SAckLost.
Proof.
  destruct (change_attempted_dec s r) as [Ha|Hn];
    [|rewrite (proj1 (run_once_not_attempted s r Hn)); congruence].
  rewrite (run_once_attempted s r Ha).
  destruct (r_send r); cbn [fst g_dev]; auto; congruence.
Qed.

(* 3d *)
Lemma recoverable_step s r :
  fault_free r = true -> pin_is_valid (r_newpin r) false = true ->
  recoverable s -> recoverable (fst (run_once s r)).
Proof.
  intros Hf Hv Hr.
  destruct (change_attempted_dec s r) as [Ha|Hn];
    [|rewrite (proj1 (run_once_not_attempted s r Hn)); exact Hr].
  rewrite (run_once_attempted s r Ha). unfold fault_free in Hf.
  destruct (r_send r); [destruct (r_commit r)| | |]; try discriminate; cbn [fst]; try exact Hr.
  left. exists (r_newpin r). cbn [g_file g_dev]. split; [reflexivity|]. apply py_strip_valid; exact Hv.
Qed.

Theorem recoverable_partial h : forall s,
  Forall (fun r => fault_free r = true /\ pin_is_valid (r_newpin r) false = true) h ->
  recoverable s -> recoverable (run_history s h).
Proof.
  unfold run_history. induction h as [|r h IH]; intros s Hh Hr; cbn [fold_left]; [exact Hr|].
  inversion Hh as [|? ? [Hf Hv] Hh']; subst.
  apply IH; [exact Hh'|]. apply recoverable_step; assumption.
Qed.

(* 3e: each fault kind breaks recoverability *)
Definition pin_default : bytes := [49; 50; 51; 52; 53; 54; 55; 97].      (* "1234567a" *)
Definition pin_fresh : bytes := [90; 122; 57; 90; 122; 57; 90; 122].      (* "Zz9Zz9Zz" *)
Definition s_first_use : gstate := mkG None pin_default (Some pin_default).
(* second change: file holds the PIN in use, the default is the (now stale) factory PIN *)
Definition pin_second : bytes := [113; 81; 55; 113; 81; 55; 113; 81].     (* "qQ7qQ7qQ" *)
Definition s_in_service : gstate := mkG (Some pin_fresh) pin_fresh (Some pin_default).

Ltac refute s r :=
  exists s, r; split; [apply recoverableb_spec; vm_compute; reflexivity|];
  split; [vm_compute; reflexivity|apply not_recoverable_of_b; vm_compute; reflexivity].

(* K1: the process dies between the device's acknowledgement and commit_change *)
Theorem recoverable_refuted_crash_before_commit :
  exists s r, recoverable s /\ pin_is_valid (r_newpin r) false = true
              /\ ~ recoverable (fst (run_once s r)).
Proof. refute s_first_use (mkRun false pin_fresh SAck CCrashBeforeCommit). Qed.

(* K2: the file was truncated by open() and the write failed / the process died *)
Theorem recoverable_refuted_write_fail :
  exists s r, recoverable s /\ pin_is_valid (r_newpin r) false = true
              /\ ~ recoverable (fst (run_once s r)).
Proof. refute s_first_use (mkRun false pin_fresh SAck CWriteFail). Qed.

Theorem recoverable_refuted_crash_after_truncate :
  exists s r, recoverable s /\ pin_is_valid (r_newpin r) false = true
              /\ ~ recoverable (fst (run_once s r)).
Proof. refute s_first_use (mkRun false pin_fresh SAck CCrashAfterTruncate). Qed.

(* K3: open(path, "wb") fails: abort_change keeps the old PIN, the device has the new one *)
Theorem recoverable_refuted_open_fail :
  exists s r, recoverable s /\ pin_is_valid (r_newpin r) false = true
              /\ ~ recoverable (fst (run_once s r)).
Proof. refute s_first_use (mkRun false pin_fresh SAck COpenFail). Qed.

(* K4: the device stored the new PIN, the acknowledgement was lost *)
Theorem recoverable_refuted_ack_lost :
  exists s r, recoverable s /\ pin_is_valid (r_newpin r) false = true
              /\ ~ recoverable (fst (run_once s r)).
Proof. refute s_first_use (mkRun false pin_fresh SAckLost COk). Qed.

(* the same four, as named statements with the fault fixed in the statement *)
Definition breaks (snd_o : send_outcome) (com_o : commit_outcome) : Prop :=
  exists s force p, recoverable s /\ pin_is_valid p false = true
                    /\ ~ recoverable (fst (run_once s (mkRun force p snd_o com_o))).

Ltac refute_k s f p :=
  exists s, f, p; split; [apply recoverableb_spec; vm_compute; reflexivity|];
  split; [vm_compute; reflexivity|apply not_recoverable_of_b; vm_compute; reflexivity].

Theorem K1_crash_before_commit : breaks SAck CCrashBeforeCommit.
Proof. refute_k s_first_use false pin_fresh. Qed.
Theorem K2_write_fail : breaks SAck CWriteFail.
Proof. refute_k s_first_use false pin_fresh. Qed.
Theorem K2_crash_after_truncate : breaks SAck CCrashAfterTruncate.
Proof. refute_k s_first_use false pin_fresh. Qed.
Theorem K3_open_fail : breaks SAck COpenFail.
Proof. refute_k s_first_use false pin_fresh. Qed.
Theorem K4_ack_lost : forall c, breaks SAckLost c.
Proof. intro c. refute_k s_first_use false pin_fresh. Qed.

(* also on a forced change of a PIN already in service (file present) *)
Theorem K1_in_service : breaks SAck CCrashBeforeCommit.
Proof. refute_k s_in_service true pin_second. Qed.
Theorem K2_in_service : breaks SAck CWriteFail.
Proof. refute_k s_in_service true pin_second. Qed.
Theorem K3_in_service : breaks SAck COpenFail.
Proof. refute_k s_in_service true pin_second. Qed.
Theorem K4_in_service : forall c, breaks SAckLost c.
Proof. intro c. refute_k s_in_service true pin_second. Qed.

(* hence the unrestricted statement of C10 is false in the model *)
Theorem recoverable_invariant_refuted :
  ~ (forall s h, Forall (fun r => pin_is_valid (r_newpin r) false = true) h ->
                 recoverable s -> recoverable (run_history s h)).
Proof.
  intro H.
  specialize (H s_first_use [mkRun false pin_fresh SAck CWriteFail]).
  assert (R : recoverable (run_history s_first_use [mkRun false pin_fresh SAck CWriteFail])).
  { apply H; [repeat constructor|apply recoverableb_spec; vm_compute; reflexivity]. }
  apply recoverableb_spec in R. vm_compute in R. discriminate.
Qed.

(* 3f *)
Theorem after_change_attempt_stops s r :
  change_attempted s r ->
  snd (run_once s r) = RStopped \/ snd (run_once s r) = RCrashed.
Proof.
  intro Ha. rewrite (run_once_attempted s r Ha).
  destruct (r_send r); [destruct (r_commit r)| | |]; cbn [snd]; auto.
Qed.

Theorem served_means_no_attempt s r :
  snd (run_once s r) = RServed -> ~ change_attempted s r /\ fst (run_once s r) = s.
Proof.
  intro H. destruct (change_attempted_dec s r) as [Ha|Hn].
  - destruct (after_change_attempt_stops s r Ha) as [E|E]; rewrite E in H; discriminate.
  - split; [exact Hn|exact (proj1 (run_once_not_attempted s r Hn))].
Qed.

(* 3g: the damage is permanent *)
Theorem pin_error_is_stuck s f :
  g_file s = Some f -> pin_is_valid (py_strip f) false = false ->
  forall r, run_once s r = (s, RPinError).
Proof. intros Hf Hv r. unfold run_once, loaded_pin. rewrite Hf, Hv. reflexivity. Qed.

Lemma run_history_fix s h : (forall r, fst (run_once s r) = s) -> run_history s h = s.
Proof.
  intro H. unfold run_history. induction h as [|r h IH]; cbn [fold_left]; [reflexivity|].
  rewrite H. exact IH.
Qed.

Theorem unrecoverable_is_stuck s :
  g_file s = Some [] ->
  forall h r, run_history s h = s /\ run_once (run_history s h) r = (s, RPinError).
Proof.
  intros Hf h r.
  assert (E : forall r, run_once s r = (s, RPinError)).
  { apply (pin_error_is_stuck s []); [exact Hf|vm_compute; reflexivity]. }
  assert (Eh : run_history s h = s) by (apply run_history_fix; intro r0; rewrite E; reflexivity).
  rewrite Eh. auto.
Qed.

(* and a truncated file with a default that no longer opens the device is never recoverable again *)
Theorem unrecoverable_forever s :
  g_file s = Some [] -> recoverableb s = false ->
  forall h, ~ recoverable (run_history s h).
Proof.
  intros Hf Hr h. rewrite (proj1 (unrecoverable_is_stuck s Hf h (mkRun false [] SAck COk))).
  apply not_recoverable_of_b; exact Hr.
Qed.

(* the other stuck state (K1, K3, K4): the loaded PIN is valid but no longer opens the device *)
Theorem unlock_failed_is_stuck s cur :
  loaded_pin s = Some cur -> pin_is_valid cur false = true -> bytes_eqb cur (g_dev s) = false ->
  forall h r, run_history s h = s /\ run_once (run_history s h) r = (s, RUnlockFailed).
Proof.
  intros Hl Hv Hu h r.
  assert (E : forall r, run_once s r = (s, RUnlockFailed)).
  { intro r0. unfold run_once. rewrite Hl, Hv, Hu. reflexivity. }
  assert (Eh : run_history s h = s) by (apply run_history_fix; intro r0; rewrite E; reflexivity).
  rewrite Eh. auto.
Qed.

(* examples: the fault-free first use, and the K2 fault followed by restarts *)
Example ex_first_use_ok :
  run_once s_first_use (mkRun false pin_fresh SAck COk)
  = (mkG (Some pin_fresh) pin_fresh (Some pin_default), RStopped)
  /\ snd (run_once (mkG (Some pin_fresh) pin_fresh (Some pin_default))
                   (mkRun false pin_second SAck COk)) = RServed.
Proof. vm_compute. auto. Qed.

Example ex_refused_then_ok :
  run_history s_first_use [mkRun false pin_fresh SRefuse COk; mkRun false pin_second SError COk;
                           mkRun false pin_fresh SAck COk]
  = mkG (Some pin_fresh) pin_fresh (Some pin_default).
Proof. vm_compute. reflexivity. Qed.

Example ex_write_fail_then_stuck :
  let s1 := fst (run_once s_first_use (mkRun false pin_fresh SAck CWriteFail)) in
  s1 = mkG (Some []) pin_fresh (Some pin_default)
  /\ recoverableb s1 = false
  /\ run_once s1 (mkRun true pin_second SAck COk) = (s1, RPinError).
Proof. vm_compute. auto. Qed.

Example ex_ack_lost_then_stuck :
  let s1 := fst (run_once s_first_use (mkRun false pin_fresh SAckLost COk)) in
  s1 = mkG None pin_fresh (Some pin_default)
  /\ recoverableb s1 = false
  /\ run_once s1 (mkRun true pin_second SAck COk) = (s1, RUnlockFailed).
Proof. vm_compute. auto. Qed.

Example ex_file_with_newline_loads :
  snd (run_once (mkG (Some (pin_fresh ++ [10])) pin_fresh None) (mkRun false pin_second SAck COk))
  = RServed.
Proof. vm_compute. reflexivity. Qed.

(* ====================================================================== *)
(* 2. Object-level change protocol (Model/Pin.v + Bringup.pin_change_block) *)
(* ====================================================================== *)

(* --- actions that only talk to the device: PIN object, file system, RNG untouched --- *)
Definition is_apdu (e : event) : Prop := match e with Apdu _ _ => True | _ => False end.

Definition fspec {A} (m : M A) : Prop :=
  spec m (fun w _ n w' => pin w' = pin w /\ fs_ok w' = fs_ok w /\ rand_pins w' = rand_pins w
                          /\ Forall is_apdu n).

Lemma fspec_ret {A} (a : A) : fspec (ret a).
Proof. eapply spec_conseq; [apply spec_ret|]. intros ? ? ? ? [_ [-> ->]]. auto. Qed.

Lemma fspec_raise {A} e : fspec (@raise A e).
Proof. eapply spec_conseq; [apply spec_raise|]. intros ? ? ? ? [_ [-> ->]]. auto. Qed.

Lemma fspec_of_opt {A} (o : option A) e : fspec (of_opt o e).
Proof. destruct o; [apply fspec_ret|apply fspec_raise]. Qed.

Lemma fspec_send c d : fspec (send_command c d).
Proof.
  intro w. unfold send_command.
  destruct (script w) as [|r rest]; cbn [fst snd].
  - exists [Apdu (CLA :: c :: d) TimeoutR]. split; [reflexivity|]. repeat split. repeat constructor.
  - exists [Apdu (CLA :: c :: d) r]. split; [reflexivity|]. repeat split. repeat constructor.
Qed.

Lemma fspec_bind {A B} (m : M A) (f : A -> M B) : fspec m -> (forall a, fspec (f a)) -> fspec (bind m f).
Proof.
  intros Hm Hf.
  eapply spec_conseq;
    [apply (spec_bind m f _
              (fun _ w _ n w' => pin w' = pin w /\ fs_ok w' = fs_ok w
                                 /\ rand_pins w' = rand_pins w /\ Forall is_apdu n) Hm Hf)|].
  cbn beta.
  intros w r n w' [[a [n1 [n2 [wm [[H1 [H2 [H3 H4]]] [[G1 [G2 [G3 G4]]] ->]]]]]] | [e [_ H1]]];
    [|exact H1].
  repeat split; try congruence. apply Forall_app; auto.
Qed.

Lemma fspec_try {A} (m : M A) h : fspec m -> (forall e k, h e = Some k -> fspec k) -> fspec (try_catch m h).
Proof.
  intros Hm Hh.
  eapply spec_conseq;
    [apply (spec_try_catch m h _
              (fun _ w _ n w' => pin w' = pin w /\ fs_ok w' = fs_ok w
                                 /\ rand_pins w' = rand_pins w /\ Forall is_apdu n) Hm Hh)|].
  cbn beta.
  intros w r n w' [[a [_ H]] | [[e [_ [_ H]]] |
                   [e [k [n1 [n2 [wm [_ [[H1 [H2 [H3 H4]]] [[G1 [G2 [G3 G4]]] ->]]]]]]]]]]; auto.
  repeat split; try congruence. apply Forall_app; auto.
Qed.

Lemma fspec_send_pin_bytes p : forall i, fspec (send_pin_bytes i p).
Proof.
  induction p as [|b p IH]; intro i; cbn [send_pin_bytes]; [apply fspec_ret|].
  apply fspec_bind; [apply fspec_send|intro; apply IH].
Qed.

Lemma fspec_new_pin k p : fspec (new_pin k p).
Proof.
  assert (L : fspec (try_catch
           (send_pin p true ;;; send_command CMD_CHANGE_PIN [] ;;; ret true)
           (fun e => match e with
                     | ErrorResult sw => if sw =? ERR_UI_INVALID_PIN then Some (ret false) else None
                     | _ => None
                     end))).
  { apply fspec_try.
    - apply fspec_bind; [apply fspec_send_pin_bytes|intro].
      apply fspec_bind; [apply fspec_send|intro; apply fspec_ret].
    - intros e k' H. destruct e; try discriminate.
      destruct (sw =? ERR_UI_INVALID_PIN); [|discriminate]. inversion H; subst. apply fspec_ret. }
  unfold new_pin. destruct k; [exact L| |exact L].
  apply fspec_bind; [apply fspec_send|intro].
  apply fspec_bind; [apply fspec_of_opt|intro; apply fspec_ret].
Qed.

Lemma new_pin_frame k p w res w2 :
  new_pin k p w = (res, w2) ->
  pin w2 = pin w /\ fs_ok w2 = fs_ok w /\ rand_pins w2 = rand_pins w
  /\ exists n, news w w2 n /\ Forall is_apdu n.
Proof.
  intro E. destruct (fspec_new_pin k p w) as [n [Hn [H1 [H2 [H3 H4]]]]].
  rewrite E in *. cbn [snd] in *. repeat split; auto. exists n. auto.
Qed.

(* --- every model exception is a Python Exception: the `except Exception` always aborts --- *)
Lemma is_exception_all e : is_exception e = true.
Proof. destruct e; vm_compute; reflexivity. Qed.

(* --- the change block, evaluated --- *)
Definition change_body (k : dongle_kind) : M unit :=
  pin_start_change ;;;
  np <- pin_get_new_pin ;;
  ok <- match np with
        | Some p => new_pin k p
        | None => raise (Py TypeError)
        end ;;
  (if ok then ret tt else raise (Py OtherExc)) ;;;
  pin_commit_change.

(* the world after the block: body, then abort_change if it raised *)
Definition change_final (k : dongle_kind) (w : world) : world :=
  match change_body k w with
  | (Ok _, w') => w'
  | (Exn _, w') => snd (pin_abort_change w')
  end.

Lemma pin_change_block_eq k w :
  pin_change_block k w = (Exn ProtocolInterrupt, change_final k w).
Proof.
  unfold pin_change_block, finally_raise, try_catch, change_final.
  change (pin_start_change ;;; np <- pin_get_new_pin ;; _) with (change_body k).
  destruct (change_body k w) as [[u|e] w']; [reflexivity|].
  rewrite (is_exception_all e). destruct (pin_abort_change w'); reflexivity.
Qed.

(* 2d *)
Theorem change_attempt_stops k w : fst (pin_change_block k w) = Exn ProtocolInterrupt.
Proof. apply pin_change_block_interrupts. Qed.

(* next outcome of a PIN-file commit *)
Definition fs_next (w : world) : bool := match fs_ok w with [] => true | b :: _ => b end.

(* start_change, case by case *)
Lemma start_change_cases w :
  (pin w = None /\ pin_start_change w = (Exn (Py AttributeError), w))
  \/ (exists po, pin w = Some po /\ (pin_changing po || negb (pin_needs_change po)) = true
                 /\ pin_start_change w = (Ok tt, w))
  \/ (exists po p r, pin w = Some po /\ pin_changing po = false /\ pin_needs_change po = true
                     /\ gen_pin_from (rand_pins w) = Some (p, r)
                     /\ pin_start_change w =
                        (Ok tt, set_pin (set_rand_pins w r)
                                        (Some (mkPin (pin_cur po) true true (Some p)))))
  \/ (exists po, pin w = Some po /\ pin_changing po = false /\ pin_needs_change po = true
                 /\ gen_pin_from (rand_pins w) = None
                 /\ pin_start_change w = (Exn (Py OtherExc), set_rand_pins w [])).
Proof.
  unfold pin_start_change, with_pin.
  destruct (pin w) as [po|] eqn:Ep; [|left; auto].
  destruct (pin_changing po || negb (pin_needs_change po)) eqn:Ec.
  - right; left. exists po. auto.
  - apply orb_false_iff in Ec. destruct Ec as [Ec En]. apply negb_false_iff in En.
    unfold bind, generate_pin.
    destruct (gen_pin_from (rand_pins w)) as [[p r]|] eqn:Eg.
    + right; right; left. exists po, p, r. rewrite En. auto.
    + right; right; right. exists po. auto.
Qed.

(* when start_change leaves a change in progress that it started itself, the new PIN is the
   generated one and satisfies the policy *)
Theorem start_change_stores_valid_pin w w1 po po1 p :
  pin w = Some po -> pin_changing po = false ->
  pin_start_change w = (Ok tt, w1) -> pin w1 = Some po1 ->
  pin_changing po1 = true -> pin_new po1 = Some p ->
  pin_is_valid p false = true
  /\ (exists r, gen_pin_from (rand_pins w) = Some (p, r))
  /\ pin_cur po1 = pin_cur po /\ pin_needs_change po = true
  /\ trace w1 = trace w /\ fs_ok w1 = fs_ok w.
Proof.
  intros Hp Hc Hs Hp1 Hc1 Hn1.
  destruct (start_change_cases w) as [[E _]|[[po' [E [Hor E2]]]|[[po' [p' [r [E [_ [Hn [Eg E2]]]]]]]|
                                      [po' [_ [_ [_ [_ E2]]]]]]]].
  - congruence.
  - rewrite E2 in Hs. inversion Hs; subst w1. congruence.
  - rewrite E2 in Hs. inversion Hs; subst w1. cbn in Hp1. inversion Hp1; subst po1.
    cbn in Hn1. inversion Hn1; subst p'. assert (po' = po) by congruence; subst po'.
    split; [eapply generated_pin_policy; exact Eg|]. split; [eauto|]. cbn. auto.
  - rewrite E2 in Hs. discriminate.
Qed.

(* a change is in progress after start_change: object po1 holds the new PIN p *)
Definition started (w w1 : world) (po1 : pin_obj) (p : bytes) : Prop :=
  pin_start_change w = (Ok tt, w1) /\ pin w1 = Some po1
  /\ pin_changing po1 = true /\ pin_new po1 = Some p.

Lemma started_frame w w1 po1 p :
  started w w1 po1 p ->
  trace w1 = trace w /\ fs_ok w1 = fs_ok w
  /\ exists po, pin w = Some po /\ pin_cur po1 = pin_cur po
                /\ pin_needs_change po1 = pin_needs_change po.
Proof.
  intros [Hs [Hp [Hc Hn]]].
  destruct (start_change_cases w) as [[_ E2]|[[po' [E [Hor E2]]]|[[po' [p' [r [E [_ [Hnc [Eg E2]]]]]]]|
                                      [po' [_ [_ [_ [_ E2]]]]]]]];
    rewrite E2 in Hs; try discriminate; inversion Hs; subst w1.
  - repeat split. exists po1. assert (po' = po1) by congruence. subst. auto.
  - cbn in Hp. inversion Hp; subst po1. repeat split. exists po'. cbn. auto.
Qed.

(* the world after a started change, as a function of what new_pin and the file system did *)
Definition aborted (po1 : pin_obj) : pin_obj :=
  mkPin (pin_cur po1) (pin_needs_change po1) false None.

Definition after_change (po1 : pin_obj) (p : bytes) (res : result bool) (w2 : world) : world :=
  match res with
  | Ok true =>
      let w3 := push (PinFileWrite p (fs_next w2)) (set_fs_ok w2 (tl (fs_ok w2))) in
      if fs_next w2 then set_pin w3 (Some (mkPin p false false None))
      else set_pin w3 (Some (aborted po1))
  | _ => set_pin w2 (Some (aborted po1))
  end.

Lemma abort_run w po1 :
  pin w = Some po1 -> pin_changing po1 = true ->
  snd (pin_abort_change w) = set_pin w (Some (aborted po1)).
Proof.
  intros Hp Hc. unfold pin_abort_change, with_pin. rewrite Hp, Hc. reflexivity.
Qed.

Lemma change_final_started k w w1 po1 p res w2 :
  started w w1 po1 p -> new_pin k p w1 = (res, w2) ->
  change_final k w = after_change po1 p res w2.
Proof.
  intros [Hs [Hp [Hc Hn]]] Enp.
  destruct (new_pin_frame k p w1 res w2 Enp) as [Hp2 _]. rewrite Hp in Hp2.
  unfold change_final, change_body.
  rewrite (bind_ok _ _ w tt w1 Hs).
  assert (Eg : pin_get_new_pin w1 = (Ok (Some p), w1)).
  { unfold pin_get_new_pin, with_pin. rewrite Hp, Hc, Hn. reflexivity. }
  rewrite (bind_ok _ _ w1 (Some p) w1 Eg).
  unfold bind at 1. rewrite Enp.
  destruct res as [[|]|e].
  - (* acknowledged *)
    unfold bind, ret. unfold pin_commit_change, with_pin. rewrite Hp2, Hc, Hn. cbn [negb].
    unfold after_change, fs_next.
    destruct (match fs_ok w2 with [] => true | b :: _ => b end) eqn:Ef; [reflexivity|].
    unfold pin_abort_change, with_pin, push, set_trace, set_fs_ok, set_pin, put_pin, modify.
    cbn [pin]. rewrite Hp2, Hc. reflexivity.
  - (* refused *)
    unfold bind, raise. unfold after_change. apply abort_run; assumption.
  - unfold after_change. apply abort_run; assumption.
Qed.

(* nothing started: no event, file system and current PIN untouched *)
Definition quiet (w w' : world) : Prop :=
  trace w' = trace w /\ fs_ok w' = fs_ok w
  /\ (pin w = None -> pin w' = None)
  /\ (forall po, pin w = Some po ->
        exists po', pin w' = Some po' /\ pin_cur po' = pin_cur po
                    /\ pin_needs_change po' = pin_needs_change po
                    /\ pin_changing po' = false).

Lemma bind_exn {A B} (m : M A) (f : A -> M B) w e w1 :
  m w = (Exn e, w1) -> bind m f w = (Exn e, w1).
Proof. unfold bind. intros ->. reflexivity. Qed.

Lemma change_body_no_new_pin k w w1 :
  pin_start_change w = (Ok tt, w1) -> pin_get_new_pin w1 = (Ok None, w1) ->
  change_body k w = (Exn (Py TypeError), w1).
Proof.
  intros Hs Hg. unfold change_body.
  rewrite (bind_ok _ _ w tt w1 Hs). rewrite (bind_ok _ _ w1 None w1 Hg). reflexivity.
Qed.

Lemma change_block_cases k w :
  (exists w1 po1 p res w2,
      started w w1 po1 p /\ new_pin k p w1 = (res, w2)
      /\ change_final k w = after_change po1 p res w2)
  \/ ((forall w1 po1 p, ~ started w w1 po1 p) /\ quiet w (change_final k w)).
Proof.
  destruct (start_change_cases w) as [[Ep E2]|[[po [Ep [Hor E2]]]|[[po [p [r [Ep [Hc [Hnc [Eg E2]]]]]]]|
                                      [po [Ep [Hc [Hnc [Eg E2]]]]]]]].
  - (* no PIN object *)
    right. split; [intros w1 po1 p [Hs _]; congruence|].
    unfold change_final, change_body. rewrite (bind_exn _ _ w _ w E2).
    unfold pin_abort_change, with_pin. rewrite Ep. cbn [snd].
    repeat split; auto. intros po Hpo. congruence.
  - (* start_change is a no-op *)
    destruct (pin_changing po) eqn:Hc.
    + destruct (pin_new po) as [p|] eqn:Hn.
      * left. destruct (new_pin k p w) as [res w2] eqn:Enp.
        assert (St : started w w po p) by (unfold started; auto).
        exists w, po, p, res, w2. split; [exact St|]. split; [exact Enp|].
        eapply change_final_started; eauto.
      * right. split.
        { intros w1 po1 p [Hs [Hp [_ Hn1]]]. rewrite E2 in Hs. inversion Hs; subst w1. congruence. }
        unfold change_final. rewrite (change_body_no_new_pin k w w E2).
        2:{ unfold pin_get_new_pin, with_pin. rewrite Ep, Hc, Hn. reflexivity. }
        rewrite (abort_run w po Ep Hc).
        repeat split; try reflexivity; [cbn; congruence|].
        intros po0 Hpo0. assert (po0 = po) by congruence. subst po0.
        exists (aborted po). cbn. auto.
    + right. split.
      { intros w1 po1 p [Hs [Hp [Hc1 _]]]. rewrite E2 in Hs. inversion Hs; subst w1. congruence. }
      unfold change_final. rewrite (change_body_no_new_pin k w w E2).
      2:{ unfold pin_get_new_pin, with_pin. rewrite Ep, Hc. reflexivity. }
      unfold pin_abort_change, with_pin. rewrite Ep, Hc. cbn [negb ret snd].
      repeat split; auto. intros po0 Hpo0. exists po. assert (po0 = po) by congruence. subst. auto.
  - (* a new PIN is generated *)
    left.
    set (w1 := set_pin (set_rand_pins w r) (Some (mkPin (pin_cur po) true true (Some p)))) in *.
    destruct (new_pin k p w1) as [res w2] eqn:Enp.
    assert (St : started w w1 (mkPin (pin_cur po) true true (Some p)) p)
      by (unfold started; repeat split; auto).
    exists w1, (mkPin (pin_cur po) true true (Some p)), p, res, w2.
    split; [exact St|]. split; [exact Enp|]. eapply change_final_started; eauto.
  - (* the generator is exhausted *)
    right. split; [intros w1 po1 p [Hs _]; congruence|].
    unfold change_final, change_body. rewrite (bind_exn _ _ w _ _ E2).
    unfold pin_abort_change, with_pin. cbn [pin set_rand_pins]. rewrite Ep, Hc. cbn [negb ret snd].
    repeat split; try reflexivity; [cbn; congruence|].
    intros po0 Hpo0. exists po. assert (po0 = po) by congruence. subst. cbn. auto.
Qed.

(* the events of a started change: the APDUs of new_pin, then at most one PIN-file write *)
Definition write_event (p : bytes) (res : result bool) (w2 : world) : list event :=
  match res with Ok true => [PinFileWrite p (fs_next w2)] | _ => [] end.

Lemma after_change_events k w w1 po1 p res w2 :
  started w w1 po1 p -> new_pin k p w1 = (res, w2) ->
  exists n, Forall is_apdu n
            /\ new_events w (after_change po1 p res w2) = n ++ write_event p res w2.
Proof.
  intros St Enp. destruct (started_frame _ _ _ _ St) as [Ht _].
  destruct (new_pin_frame k p w1 res w2 Enp) as [_ [_ [_ [n [Hn Ha]]]]].
  exists n. split; [exact Ha|]. apply news_new_events.
  unfold news in *. rewrite Ht in Hn. unfold after_change, write_event.
  destruct res as [[|]|e].
  - assert (E : forall x, trace (set_pin (push (PinFileWrite p (fs_next w2))
                                               (set_fs_ok w2 (tl (fs_ok w2)))) x)
                          = PinFileWrite p (fs_next w2) :: trace w2) by reflexivity.
    destruct (fs_next w2) eqn:Ef; rewrite E, Hn, rev_app_distr; reflexivity.
  - cbn [set_pin trace]. rewrite app_nil_r. exact Hn.
  - cbn [set_pin trace]. rewrite app_nil_r. exact Hn.
Qed.

Lemma quiet_events w w' : quiet w w' -> new_events w w' = [].
Proof. intros [Ht _]. apply news_new_events. unfold news. rewrite Ht. reflexivity. Qed.

Lemma In_apdus_not_write n b ok : Forall is_apdu n -> ~ In (PinFileWrite b ok) n.
Proof. intros Ha Hi. rewrite Forall_forall in Ha. exact (Ha _ Hi). Qed.

(* 2a: the PIN file is written only after the device acknowledged the new PIN, with that PIN *)
Theorem commit_only_after_ack k w b ok :
  In (PinFileWrite b ok) (new_events w (snd (pin_change_block k w))) ->
  exists w1 po1 w2 n,
    started w w1 po1 b /\ new_pin k b w1 = (Ok true, w2) /\ ok = fs_next w2
    /\ Forall is_apdu n
    /\ new_events w (snd (pin_change_block k w)) = n ++ [PinFileWrite b ok].
Proof.
  rewrite pin_change_block_eq. cbn [snd].
  destruct (change_block_cases k w) as [[w1 [po1 [p [res [w2 [St [Enp Ef]]]]]]]|[_ Hq]].
  - rewrite Ef. destruct (after_change_events k w w1 po1 p res w2 St Enp) as [n [Ha En]].
    rewrite En. intro Hi. apply in_app_or in Hi. destruct Hi as [Hi|Hi];
      [exfalso; eapply In_apdus_not_write; eauto|].
    unfold write_event in *. destruct res as [[|]|e]; try contradiction.
    destruct Hi as [Hi|[]]. inversion Hi; subst b ok.
    exists w1, po1, w2, n. auto.
  - rewrite (quiet_events _ _ Hq). intros [].
Qed.

(* ... and, when no change was pending before, that PIN is the generated one and is valid *)
Corollary commit_only_generated_pin k w po b ok :
  pin w = Some po -> pin_changing po = false ->
  In (PinFileWrite b ok) (new_events w (snd (pin_change_block k w))) ->
  pin_is_valid b false = true /\ exists r, gen_pin_from (rand_pins w) = Some (b, r).
Proof.
  intros Hp Hc Hi.
  destruct (commit_only_after_ack k w b ok Hi) as [w1 [po1 [w2 [n [[Hs [Hp1 [Hc1 Hn1]]] _]]]]].
  destruct (start_change_stores_valid_pin w w1 po po1 b Hp Hc Hs Hp1 Hc1 Hn1) as [Hv [Hg _]].
  auto.
Qed.

(* 2b: refused / failed / write failure: the change is aborted, the PIN in use is kept *)
Theorem failed_change_keeps_pin k w w1 po1 p res w2 :
  started w w1 po1 p -> new_pin k p w1 = (res, w2) ->
  res <> Ok true \/ fs_next w2 = false ->
  let w' := snd (pin_change_block k w) in
  exists po po',
    pin w = Some po /\ pin w' = Some po'
    /\ pin_cur po' = pin_cur po /\ pin_needs_change po' = pin_needs_change po
    /\ pin_changing po' = false /\ pin_new po' = None
    /\ forall b, ~ In (PinFileWrite b true) (new_events w w').
Proof.
  intros St Enp Hf. cbv zeta. rewrite pin_change_block_eq. cbn [snd].
  rewrite (change_final_started k w w1 po1 p res w2 St Enp).
  destruct (started_frame _ _ _ _ St) as [_ [_ [po [Hp [Hcur Hnc]]]]].
  destruct (after_change_events k w w1 po1 p res w2 St Enp) as [n [Ha En]].
  exists po, (aborted po1). split; [exact Hp|].
  assert (Epin : pin (after_change po1 p res w2) = Some (aborted po1)).
  { unfold after_change. destruct res as [[|]|e]; try reflexivity.
    destruct Hf as [Hf|Hf]; [congruence|]. rewrite Hf. reflexivity. }
  split; [exact Epin|]. cbn [aborted pin_cur pin_needs_change pin_changing pin_new].
  repeat split; auto.
  intros b Hi. rewrite En in Hi. apply in_app_or in Hi. destruct Hi as [Hi|Hi];
    [eapply In_apdus_not_write; eauto|].
  unfold write_event in Hi. destruct res as [[|]|e]; try contradiction.
  destruct Hf as [Hf|Hf]; [congruence|]. rewrite Hf in Hi. destruct Hi as [Hi|[]]. discriminate.
Qed.

(* 2c: acknowledged and written: the new PIN is the PIN in use, no further change needed *)
Theorem successful_change_commits k w w1 po1 p w2 :
  started w w1 po1 p -> new_pin k p w1 = (Ok true, w2) -> fs_next w2 = true ->
  let w' := snd (pin_change_block k w) in
  pin w' = Some (mkPin p false false None)
  /\ exists n, Forall is_apdu n /\ new_events w w' = n ++ [PinFileWrite p true].
Proof.
  intros St Enp Hf. cbv zeta. rewrite pin_change_block_eq. cbn [snd].
  rewrite (change_final_started k w w1 po1 p _ w2 St Enp).
  destruct (after_change_events k w w1 po1 p _ w2 St Enp) as [n [Ha En]].
  split.
  - unfold after_change. rewrite Hf. reflexivity.
  - exists n. split; [exact Ha|]. rewrite En. unfold write_event. rewrite Hf. reflexivity.
Qed.

(* for every world: the PIN in use changes only through a successful file write of that PIN,
   and no change is left pending *)
Theorem pin_in_use_follows_file k w po :
  pin w = Some po ->
  let w' := snd (pin_change_block k w) in
  exists po', pin w' = Some po' /\ pin_changing po' = false
    /\ (pin_cur po' = pin_cur po
        \/ (In (PinFileWrite (pin_cur po') true) (new_events w w')
            /\ pin_needs_change po' = false)).
Proof.
  intro Hp. cbv zeta. rewrite pin_change_block_eq. cbn [snd].
  destruct (change_block_cases k w) as [[w1 [po1 [p [res [w2 [St [Enp Ef]]]]]]]|[_ Hq]].
  - rewrite Ef. destruct (started_frame _ _ _ _ St) as [_ [_ [po0 [Hp0 [Hcur _]]]]].
    assert (po0 = po) by congruence. subst po0.
    destruct (after_change_events k w w1 po1 p res w2 St Enp) as [n [Ha En]].
    rewrite En. unfold after_change, write_event.
    destruct res as [[|]|e];
      [|exists (aborted po1); cbn [set_pin pin aborted pin_cur pin_changing]; auto..].
    destruct (fs_next w2).
    + exists (mkPin p false false None). cbn [set_pin pin pin_cur pin_changing pin_needs_change].
      split; [reflexivity|]. split; [reflexivity|]. right. split; [|reflexivity].
      apply in_or_app. right. left. reflexivity.
    + exists (aborted po1). cbn [set_pin pin aborted pin_cur pin_changing]. auto.
  - destruct Hq as [_ [_ [_ Hq]]]. destruct (Hq po Hp) as [po' [H1 [H2 [H3 H4]]]].
    exists po'. auto.
Qed.

(* the file system is consulted at most once, and only after an acknowledgement *)
Theorem file_untouched_unless_ack k w :
  (forall w1 po1 p w2, started w w1 po1 p -> new_pin k p w1 <> (Ok true, w2)) ->
  fs_ok (snd (pin_change_block k w)) = fs_ok w.
Proof.
  intro H. rewrite pin_change_block_eq. cbn [snd].
  destruct (change_block_cases k w) as [[w1 [po1 [p [res [w2 [St [Enp Ef]]]]]]]|[_ Hq]].
  - rewrite Ef. destruct (started_frame _ _ _ _ St) as [_ [Hfs _]].
    destruct (new_pin_frame k p w1 res w2 Enp) as [_ [Hfs2 _]].
    unfold after_change. destruct res as [[|]|e]; cbn [set_pin fs_ok]; try congruence.
    exfalso. exact (H w1 po1 p w2 St Enp).
  - destruct Hq as [_ [Hq _]]. exact Hq.
Qed.

(* --- examples (Ledger and SGX PIN commands) --- *)
Definition ex_w (sc : list resp) (fs : list bool) : world :=
  mkWorld sc [] true [] false (Some (mkPin pin_default true false None))
          [[49; 50; 51; 52; 53; 54; 55; 56]; pin_fresh] fs.

Definition ex_ledger_ack : list resp := repeat (Data [CLA]) 10.
Definition is_write (e : event) : bool := match e with PinFileWrite _ _ => true | _ => false end.

Example ex_ledger_change_ok :
  let w' := snd (pin_change_block KLedger (ex_w ex_ledger_ack [])) in
  pin w' = Some (mkPin pin_fresh false false None)
  /\ filter is_write (new_events (ex_w ex_ledger_ack []) w') = [PinFileWrite pin_fresh true]
  /\ length (new_events (ex_w ex_ledger_ack []) w') = 11%nat.
Proof. vm_compute. auto. Qed.

Example ex_ledger_refused :
  let sc := repeat (Data [CLA]) 9 ++ [Status ERR_UI_INVALID_PIN] in
  let w' := snd (pin_change_block KLedger (ex_w sc [])) in
  pin w' = Some (mkPin pin_default true false None)
  /\ filter is_write (new_events (ex_w sc []) w') = [].
Proof. vm_compute. auto. Qed.

Example ex_ledger_link_dies :
  let sc := repeat (Data [CLA]) 4 in
  let w' := snd (pin_change_block KLedger (ex_w sc [])) in
  pin w' = Some (mkPin pin_default true false None)
  /\ filter is_write (new_events (ex_w sc []) w') = [].
Proof. vm_compute. auto. Qed.

Example ex_ledger_write_fails :
  let w' := snd (pin_change_block KLedger (ex_w ex_ledger_ack [false])) in
  pin w' = Some (mkPin pin_default true false None)
  /\ filter is_write (new_events (ex_w ex_ledger_ack [false]) w') = [PinFileWrite pin_fresh false].
Proof. vm_compute. auto. Qed.

Example ex_sgx_change_ok :
  let sc := [Data [CLA; SGXCMD_SGX_CHANGE_PASSWORD; 1]] in
  let w' := snd (pin_change_block KSgx (ex_w sc [])) in
  pin w' = Some (mkPin pin_fresh false false None)
  /\ filter is_write (new_events (ex_w sc []) w') = [PinFileWrite pin_fresh true].
Proof. vm_compute. auto. Qed.

Example ex_sgx_refused :
  let sc := [Data [CLA; SGXCMD_SGX_CHANGE_PASSWORD; 0]] in
  let w' := snd (pin_change_block KSgx (ex_w sc [])) in
  pin w' = Some (mkPin pin_default true false None)
  /\ filter is_write (new_events (ex_w sc []) w') = [].
Proof. vm_compute. auto. Qed.

(* the hypotheses of 2b / 2c are met by these worlds *)
Example ex_started :
  exists w1 po1, started (ex_w ex_ledger_ack []) w1 po1 pin_fresh
                 /\ fst (new_pin KLedger pin_fresh w1) = Ok true
                 /\ fs_next (snd (new_pin KLedger pin_fresh w1)) = true.
Proof.
  eexists. eexists. split; [unfold started; split; [vm_compute; reflexivity|]|].
  - cbn. auto.
  - vm_compute. auto.
Qed.

(* a freshly loaded PIN object is valid and has no change pending, so
   commit_only_generated_pin applies to the first change block of every manager lifetime *)
Theorem pin_load_idle file default force po :
  pin_load file default force = Some po ->
  pin_changing po = false /\ pin_new po = None /\ pin_is_valid (pin_cur po) false = true
  /\ pin_needs_change po = (force || match file with Some _ => false | None => true end).
Proof.
  unfold pin_load.
  destruct (match file with Some f => Some f | None => default end) as [c|]; [|discriminate].
  destruct (pin_is_valid c false) eqn:E; [|discriminate].
  intro H. inversion H; subst. cbn. auto.
Qed.
