(* C08: the verify_attestation commands vouch only for the operator's keys and a well-formed
   message; what they print is what sits at the documented offsets of the signed messages. *)
From PowHsm Require Import Model.Verify Model.Sha256 Proofs.BytesLemmas Proofs.C05.
From Coq Require Import ZifyBool ZifyNat ZifyN Lia Permutation Sorted.
Open Scope N_scope.

(* ==================================================================================== *)
(* 0. small list / boolean kit                                                            *)
(* ==================================================================================== *)

Lemma skipn_skipn' {A} (a b : nat) (l : list A) : skipn a (skipn b l) = skipn (b + a) l.
Proof.
  revert l. induction b as [|b IH]; intro l; [reflexivity|].
  destruct l as [|x l]; [rewrite !skipn_nil; reflexivity|]. cbn [skipn plus]. apply IH.
Qed.

Lemma starts_with_spec p m : starts_with p m = true <-> exists r, m = p ++ r.
Proof.
  unfold starts_with. rewrite bytes_eqb_eq. split.
  - intro H. exists (skipn (length p) m). rewrite <- H at 1. symmetry. apply firstn_skipn.
  - intros [r ->]. apply firstn_app_exact.
Qed.

Lemma is_digit_spec c : is_digit c = true <-> 48 <= c <= 57.
Proof. unfold is_digit. lia. Qed.

Lemma mem_2345 a : mem_N a [50; 51; 52; 53] = true <-> 50 <= a <= 53.
Proof. cbn [mem_N]. lia. Qed.

(* ==================================================================================== *)
(* 1. message layout                                                                      *)
(* ==================================================================================== *)

(* the documented layout, as closed checks on the generated tables *)
Example layout_platform :
  field_of LAYOUT_PowHsmAttestationMessage (s "platform") = (0, 3). Proof. reflexivity. Qed.
Example layout_ud_value :
  field_of LAYOUT_PowHsmAttestationMessage (s "ud_value") = (3, 32). Proof. reflexivity. Qed.
Example layout_public_keys_hash :
  field_of LAYOUT_PowHsmAttestationMessage (s "public_keys_hash") = (35, 32). Proof. reflexivity. Qed.
Example layout_best_block :
  field_of LAYOUT_PowHsmAttestationMessage (s "best_block") = (67, 32). Proof. reflexivity. Qed.
Example layout_last_signed_tx :
  field_of LAYOUT_PowHsmAttestationMessage (s "last_signed_tx") = (99, 8). Proof. reflexivity. Qed.
Example layout_timestamp :
  field_of LAYOUT_PowHsmAttestationMessage (s "timestamp") = (107, 8). Proof. reflexivity. Qed.
Example powhsm_message_length :
  POWHSM_HEADER_LEN + SIZEOF_PowHsmAttestationMessage = 127 /\ powhsm_header_len = 12%nat.
Proof. split; reflexivity. Qed.
Example layout_report_body :
  field_of LAYOUT_SgxQuote (s "report_body") = (48, 384). Proof. reflexivity. Qed.
Example layout_mrenclave :
  field_of LAYOUT_SgxReportBody (s "mrenclave") = (64, 32). Proof. reflexivity. Qed.
Example layout_mrsigner :
  field_of LAYOUT_SgxReportBody (s "mrsigner") = (128, 32). Proof. reflexivity. Qed.
Example ui_message_offsets :
  ui_header_len = 10%nat
  /\ (ui_header_len + N.to_nat VL_UD_VALUE_LENGTH = 42)%nat
  /\ (42 + N.to_nat VL_PUBKEY_COMPRESSED_LENGTH = 75)%nat
  /\ (75 + N.to_nat VL_SIGNER_HASH_LENGTH = 107)%nat
  /\ (107 + N.to_nat VL_SIGNER_ITERATION_LENGTH = 109)%nat
  /\ (legacy_header_len + N.to_nat VL_PUBLIC_KEYS_HASH_LENGTH = 46)%nat.
Proof. repeat split. Qed.

(* --- header matchers --- *)

Theorem is_powhsm_header_spec m :
  is_powhsm_header m = true <->
  exists b c r, m = s "POWHSM:" ++ 53 :: b :: c :: 58 :: 58 :: r /\ b <> 10 /\ 48 <= c <= 57.
Proof.
  unfold is_powhsm_header. rewrite andb_true_iff, starts_with_spec.
  change (s "POWHSM:") with [80; 79; 87; 72; 83; 77; 58]. split.
  - intros [[r ->] H]. change (skipn 7 ([80; 79; 87; 72; 83; 77; 58] ++ r)) with r in H.
    destruct r as [|a [|b [|c [|d [|e r]]]]]; try discriminate.
    rewrite !andb_true_iff, is_digit_spec, negb_true_iff in H.
    destruct H as [[[[Ha Hb] Hc] Hd] He].
    apply N.eqb_eq in Ha, Hd, He. apply N.eqb_neq in Hb. subst. exists b, c, r. auto.
  - intros (b & c & r & -> & Hb & Hc). split; [eexists; reflexivity|].
    change (skipn 7 ([80; 79; 87; 72; 83; 77; 58] ++ 53 :: b :: c :: 58 :: 58 :: r))
      with (53 :: b :: c :: 58 :: 58 :: r). cbv beta iota.
    rewrite !andb_true_iff, is_digit_spec, negb_true_iff, N.eqb_neq. repeat split; auto; lia.
Qed.

Theorem is_ui_header_spec m :
  is_ui_header m = true <->
  exists a b c r, m = s "HSM:UI:" ++ a :: b :: c :: r /\ 50 <= a <= 53 /\ b <> 10 /\ 48 <= c <= 57.
Proof.
  unfold is_ui_header. rewrite andb_true_iff, starts_with_spec.
  change (s "HSM:UI:") with [72; 83; 77; 58; 85; 73; 58]. split.
  - intros [[r ->] H]. change (skipn 7 ([72; 83; 77; 58; 85; 73; 58] ++ r)) with r in H.
    destruct r as [|a [|b [|c r]]]; try discriminate.
    rewrite !andb_true_iff, is_digit_spec, negb_true_iff, mem_2345 in H.
    destruct H as [[Ha Hb] Hc]. apply N.eqb_neq in Hb. exists a, b, c, r. auto.
  - intros (a & b & c & r & -> & Ha & Hb & Hc). split; [eexists; reflexivity|].
    change (skipn 7 ([72; 83; 77; 58; 85; 73; 58] ++ a :: b :: c :: r)) with (a :: b :: c :: r).
    cbv beta iota.
    rewrite !andb_true_iff, is_digit_spec, negb_true_iff, N.eqb_neq, mem_2345. auto.
Qed.

Theorem is_legacy_signer_header_spec m :
  is_legacy_signer_header m = true <->
  exists a b c r, m = s "HSM:SIGNER:" ++ a :: b :: c :: r /\ 50 <= a <= 53 /\ b <> 10 /\ 48 <= c <= 57.
Proof.
  unfold is_legacy_signer_header. rewrite andb_true_iff, starts_with_spec.
  change (s "HSM:SIGNER:") with [72; 83; 77; 58; 83; 73; 71; 78; 69; 82; 58]. split.
  - intros [[r ->] H].
    change (skipn 11 ([72; 83; 77; 58; 83; 73; 71; 78; 69; 82; 58] ++ r)) with r in H.
    destruct r as [|a [|b [|c r]]]; try discriminate.
    rewrite !andb_true_iff, is_digit_spec, negb_true_iff, mem_2345 in H.
    destruct H as [[Ha Hb] Hc]. apply N.eqb_neq in Hb. exists a, b, c, r. auto.
  - intros (a & b & c & r & -> & Ha & Hb & Hc). split; [eexists; reflexivity|].
    change (skipn 11 ([72; 83; 77; 58; 83; 73; 71; 78; 69; 82; 58] ++ a :: b :: c :: r))
      with (a :: b :: c :: r). cbv beta iota.
    rewrite !andb_true_iff, is_digit_spec, negb_true_iff, N.eqb_neq, mem_2345. auto.
Qed.

(* the two signer formats cannot be confused *)
Lemma legacy_not_powhsm m : is_legacy_signer_header m = true -> is_powhsm_header m = false.
Proof.
  rewrite is_legacy_signer_header_spec. intros (a & b & c & r & -> & _).
  destruct (is_powhsm_header _) eqn:E; [|reflexivity].
  apply is_powhsm_header_spec in E. destruct E as (b' & c' & r' & E & _). discriminate E.
Qed.

(* --- the powHSM message --- *)

Definition powhsm_of (m : bytes) : powhsm_msg :=
  {| pm_version := firstn 3 (skipn 7 m);
     pm_platform := firstn 3 (skipn 12 m);
     pm_ud_value := firstn 32 (skipn 15 m);
     pm_keys_hash := firstn 32 (skipn 47 m);
     pm_best_block := firstn 32 (skipn 79 m);
     pm_last_signed_tx := firstn 8 (skipn 111 m);
     pm_timestamp := from_bytes_be (firstn 8 (skipn 119 m)) |}.

Lemma pm_field_at m name off sz :
  field_of LAYOUT_PowHsmAttestationMessage name = (off, sz) ->
  pm_field (skipn powhsm_header_len m) name
  = firstn (N.to_nat sz) (skipn (powhsm_header_len + N.to_nat off) m).
Proof. intro H. unfold pm_field. rewrite H. unfold sub. cbn [fst snd]. rewrite skipn_skipn'. reflexivity. Qed.

Lemma parse_powhsm_unfold m :
  parse_powhsm m =
  if is_powhsm_header m && (length m =? 127)%nat && forallb (fun c => c <? 128) (firstn 3 (skipn 12 m))
  then Some (powhsm_of m) else None.
Proof.
  unfold parse_powhsm.
  rewrite (pm_field_at m _ _ _ layout_platform), (pm_field_at m _ _ _ layout_ud_value),
    (pm_field_at m _ _ _ layout_public_keys_hash), (pm_field_at m _ _ _ layout_best_block),
    (pm_field_at m _ _ _ layout_last_signed_tx), (pm_field_at m _ _ _ layout_timestamp).
  change (POWHSM_HEADER_LEN + SIZEOF_PowHsmAttestationMessage) with 127.
  replace (nlen m =? 127) with (length m =? 127)%nat by (unfold nlen; lia).
  destruct (is_powhsm_header m); [|reflexivity].
  destruct (length m =? 127)%nat; [|reflexivity].
  cbn [negb andb].
  change (powhsm_header_len + N.to_nat 0)%nat with 12%nat.
  change (N.to_nat 3) with 3%nat.
  destruct (forallb _ _); reflexivity.
Qed.

Theorem parse_powhsm_iff m pm :
  parse_powhsm m = Some pm <->
  is_powhsm_header m = true /\ length m = 127%nat
  /\ Forall (fun c => c < 128) (firstn 3 (skipn 12 m))
  /\ pm = powhsm_of m.
Proof.
  rewrite parse_powhsm_unfold.
  destruct (is_powhsm_header m); [|cbn [andb]; split; [discriminate|intros [? _]; discriminate]].
  destruct (Nat.eqb_spec (length m) 127);
    [|cbn [andb]; split; [discriminate|intros (_ & ? & _); contradiction]].
  cbn [andb]. destruct (forallb _ _) eqn:F.
  - rewrite forallb_forall in F. split.
    + intro H. inversion H. repeat split; auto. apply Forall_forall. intros x Hx.
      apply F in Hx. lia.
    + intros (_ & _ & _ & ->). reflexivity.
  - split; [discriminate|]. intros (_ & _ & H & _). exfalso.
    rewrite Forall_forall in H.
    assert (forallb (fun c => c <? 128) (firstn 3 (skipn 12 m)) = true); [|congruence].
    apply forallb_forall. intros x Hx. apply H in Hx. lia.
Qed.

(* exactly the documented length: any other length is rejected *)
Theorem parse_powhsm_length m : length m <> 127%nat -> parse_powhsm m = None.
Proof.
  intro H. destruct (parse_powhsm m) eqn:E; [|reflexivity].
  apply parse_powhsm_iff in E. tauto.
Qed.

Theorem parse_powhsm_header m : is_powhsm_header m = false -> parse_powhsm m = None.
Proof.
  intro H. destruct (parse_powhsm m) eqn:E; [|reflexivity].
  apply parse_powhsm_iff in E. destruct E as [E _]. congruence.
Qed.

(* ==================================================================================== *)
(* 2. Ledger: accepted exactly when ...                                                   *)
(* ==================================================================================== *)

Section WithHash.
Variable hash : bytes -> bytes.

(* the hash of the operator's public keys: uncompressed, in path order *)
Definition keys_hash_of (ks : list opkey) : bytes :=
  hash (concat (map k_uncompressed (sorted_keys ks))).

Lemma pubkeys_hash_some ks kh :
  pubkeys_hash hash ks = Some kh <-> ks <> [] /\ kh = keys_hash_of ks.
Proof.
  unfold pubkeys_hash, keys_hash_of. destruct ks as [|k ks].
  - split; [discriminate|intros [H _]; congruence].
  - split; [intro H; inversion H; split; [discriminate|reflexivity]|intros [_ ->]; reflexivity].
Qed.

Lemma pubkeys_hash_none ks : pubkeys_hash hash ks = None <-> ks = [].
Proof. unfold pubkeys_hash. destruct ks; split; try reflexivity; discriminate. Qed.

(* what is printed about the UI message: slices at the documented offsets *)
Definition ui_report_of (um uih : bytes) : ui_report :=
  {| ur_ud_value := slice um 10 42;
     ur_public_key := slice um 42 75;
     ur_signer_hash := slice um 75 107;
     ur_signer_iteration := from_bytes_be (slice um 107 109);
     ur_ui_hash := uih;
     ur_ui_version := firstn 3 (skipn 7 um) |}.

(* verify_ledger with the offsets computed from the generated constants *)
Lemma verify_ledger_unfold ks ui signer :
  verify_ledger hash ks ui signer =
  match pubkeys_hash hash ks, find_key VL_UI_DERIVATION_PATH ks with
  | Some kh, Some uik =>
      match ui with
      | Some (TValid um (Some uih)) =>
          if negb (is_ui_header um) then None else
          if negb (bytes_eqb (slice um 42 75) (k_compressed uik)) then None else
          match signer with
          | Some (TValid sm (Some sh)) =>
              if is_legacy_signer_header sm then
                if negb (match skipn 46 sm with [] => true | _ => false end) then None else
                if bytes_eqb (skipn 14 sm) kh
                then Some (ui_report_of um uih, mkSr kh sh (firstn 3 (skipn 11 sm)) None) else None
              else if is_powhsm_header sm then
                match parse_powhsm sm with
                | Some pm => if bytes_eqb (pm_keys_hash pm) kh
                             then Some (ui_report_of um uih, mkSr kh sh (pm_version pm) (Some pm))
                             else None
                | None => None
                end
              else None
          | _ => None
          end
      | _ => None
      end
  | _, _ => None
  end.
Proof. reflexivity. Qed.

(* the signer message vouches for the key hash [kh]; [sr] is what gets printed *)
Definition signer_ok (kh sm sh : bytes) (sr : signer_report) : Prop :=
  (is_legacy_signer_header sm = true /\ skipn 46 sm = [] /\ skipn 14 sm = kh
   /\ sr = mkSr kh sh (firstn 3 (skipn 11 sm)) None)
  \/
  (is_legacy_signer_header sm = false
   /\ exists pm, parse_powhsm sm = Some pm /\ pm_keys_hash pm = kh
                 /\ sr = mkSr kh sh (pm_version pm) (Some pm)).

Definition ledger_ok (ks : list opkey) (ui signer : option tres)
           (ur : ui_report) (sr : signer_report) : Prop :=
  exists uik um uih sm sh,
    ks <> []
    /\ find_key VL_UI_DERIVATION_PATH ks = Some uik
    /\ ui = Some (TValid um (Some uih))
    /\ is_ui_header um = true
    /\ slice um 42 75 = k_compressed uik
    /\ signer = Some (TValid sm (Some sh))
    /\ ur = ui_report_of um uih
    /\ signer_ok (keys_hash_of ks) sm sh sr.

Lemma signer_branch_iff kh sm sh (ur0 ur : ui_report) sr :
  (if is_legacy_signer_header sm then
     if negb (match skipn 46 sm with [] => true | _ => false end) then None else
     if bytes_eqb (skipn 14 sm) kh
     then Some (ur0, mkSr kh sh (firstn 3 (skipn 11 sm)) None) else None
   else if is_powhsm_header sm then
     match parse_powhsm sm with
     | Some pm => if bytes_eqb (pm_keys_hash pm) kh
                  then Some (ur0, mkSr kh sh (pm_version pm) (Some pm))
                  else None
     | None => None
     end
   else None) = Some (ur, sr)
  <-> ur = ur0 /\ signer_ok kh sm sh sr.
Proof.
  unfold signer_ok. destruct (is_legacy_signer_header sm) eqn:L.
  - destruct (skipn 46 sm) as [|x t] eqn:S46; cbn [negb].
    + destruct (bytes_eqb (skipn 14 sm) kh) eqn:E.
      * apply bytes_eqb_eq in E. split.
        -- intro H. inversion H. split; [reflexivity|]. left. auto.
        -- intros [-> [(_ & _ & _ & ->)|(H & _)]]; [reflexivity|discriminate].
      * split; [discriminate|]. intros [_ [(_ & _ & H & _)|(H & _)]]; [|discriminate].
        apply bytes_eqb_eq in H. congruence.
    + split; [discriminate|]. intros [_ [(_ & H & _)|(H & _)]]; discriminate.
  - destruct (is_powhsm_header sm) eqn:P.
    + destruct (parse_powhsm sm) as [pm|] eqn:PP.
      * destruct (bytes_eqb (pm_keys_hash pm) kh) eqn:E.
        -- apply bytes_eqb_eq in E. split.
           ++ intro H. inversion H. split; [reflexivity|]. right. split; [reflexivity|].
              exists pm. auto.
           ++ intros [-> [(H & _)|(_ & pm' & Hp & _ & ->)]]; [discriminate|].
              inversion Hp. reflexivity.
        -- split; [discriminate|]. intros [_ [(H & _)|(_ & pm' & Hp & Hk & _)]]; [discriminate|].
           inversion Hp; subst pm'. apply bytes_eqb_eq in Hk. congruence.
      * split; [discriminate|]. intros [_ [(H & _)|(_ & pm' & Hp & _)]]; discriminate.
    + split; [discriminate|]. intros [_ [(H & _)|(_ & pm' & Hp & _)]]; [discriminate|].
      apply parse_powhsm_iff in Hp. destruct Hp as [Hp _]. congruence.
Qed.

Theorem ledger_ok_iff ks ui signer ur sr :
  verify_ledger hash ks ui signer = Some (ur, sr) <-> ledger_ok ks ui signer ur sr.
Proof.
  rewrite verify_ledger_unfold. unfold ledger_ok.
  destruct (pubkeys_hash hash ks) as [kh|] eqn:PH.
  2:{ apply pubkeys_hash_none in PH. split; [discriminate|].
      intros (? & ? & ? & ? & ? & H & _). contradiction. }
  apply pubkeys_hash_some in PH. destruct PH as [Hne ->].
  destruct (find_key VL_UI_DERIVATION_PATH ks) as [uik|] eqn:FK.
  2:{ split; [discriminate|]. intros (? & ? & ? & ? & ? & _ & H & _). discriminate. }
  destruct ui as [[um [uih|]|]|].
  2-4: (split; [discriminate|]; intros (? & ? & ? & ? & ? & _ & _ & H & _); discriminate).
  destruct (is_ui_header um) eqn:UH; cbn [negb].
  2:{ split; [discriminate|]. intros (? & ? & ? & ? & ? & _ & _ & H & H' & _).
      inversion H; subst. congruence. }
  destruct (bytes_eqb (slice um 42 75) (k_compressed uik)) eqn:PK; cbn [negb].
  2:{ split; [discriminate|]. intros (? & ? & ? & ? & ? & _ & H0 & H & _ & H' & _).
      inversion H; inversion H0; subst. apply bytes_eqb_eq in H'. congruence. }
  apply bytes_eqb_eq in PK.
  destruct signer as [[sm [sh|]|]|].
  2-4: (split; [discriminate|]; intros (? & ? & ? & ? & ? & _ & _ & _ & _ & _ & H & _); discriminate).
  rewrite signer_branch_iff. split.
  - intros [-> H]. exists uik, um, uih, sm, sh. repeat split; auto.
  - intros (uik' & um' & uih' & sm' & sh' & _ & _ & H1 & _ & _ & H2 & -> & H3).
    inversion H1; inversion H2; subst. auto.
Qed.

(* every other situation ends in an error *)
Theorem ledger_else_error ks ui signer :
  verify_ledger hash ks ui signer = None <-> forall ur sr, ~ ledger_ok ks ui signer ur sr.
Proof.
  split.
  - intros H ur sr Hok. apply ledger_ok_iff in Hok. congruence.
  - intro H. destruct (verify_ledger hash ks ui signer) as [[ur sr]|] eqn:E; [|reflexivity].
    apply ledger_ok_iff in E. exfalso. eapply H, E.
Qed.

Ltac ledger_none :=
  match goal with
  | |- ?v = None => let E := fresh "E" in
      destruct v as [[? ?]|] eqn:E; [exfalso; apply ledger_ok_iff in E|reflexivity];
      destruct E as (uik' & um' & uih' & sm' & sh' & Hne' & Hfk' & Hui' & Huh' & Hpk' & Hsg' & Hur' & Hso')
  end.

Corollary ledger_no_keys ui signer : verify_ledger hash [] ui signer = None.
Proof. ledger_none. congruence. Qed.

Corollary ledger_ui_path_absent ks ui signer :
  find_key VL_UI_DERIVATION_PATH ks = None -> verify_ledger hash ks ui signer = None.
Proof. intro H. ledger_none. congruence. Qed.

Corollary ledger_ui_missing ks signer : verify_ledger hash ks None signer = None.
Proof. ledger_none. discriminate. Qed.

Corollary ledger_ui_invalid ks signer : verify_ledger hash ks (Some TInvalid) signer = None.
Proof. ledger_none. discriminate. Qed.

Corollary ledger_ui_tweak_missing ks um signer :
  verify_ledger hash ks (Some (TValid um None)) signer = None.
Proof. ledger_none. discriminate. Qed.

Corollary ledger_ui_foreign_header ks um t signer :
  is_ui_header um = false -> verify_ledger hash ks (Some (TValid um t)) signer = None.
Proof. intro H. ledger_none. inversion Hui'; subst. congruence. Qed.

Corollary ledger_key_mismatch ks uik um t signer :
  find_key VL_UI_DERIVATION_PATH ks = Some uik -> slice um 42 75 <> k_compressed uik ->
  verify_ledger hash ks (Some (TValid um t)) signer = None.
Proof. intros H1 H2. ledger_none. inversion Hui'; subst. congruence. Qed.

Corollary ledger_signer_missing ks ui : verify_ledger hash ks ui None = None.
Proof. ledger_none. discriminate. Qed.

Corollary ledger_signer_invalid ks ui : verify_ledger hash ks ui (Some TInvalid) = None.
Proof. ledger_none. discriminate. Qed.

Corollary ledger_signer_tweak_missing ks ui sm :
  verify_ledger hash ks ui (Some (TValid sm None)) = None.
Proof. ledger_none. discriminate. Qed.

Corollary ledger_signer_foreign_header ks ui sm t :
  is_legacy_signer_header sm = false -> is_powhsm_header sm = false ->
  verify_ledger hash ks ui (Some (TValid sm t)) = None.
Proof.
  intros H1 H2. ledger_none. inversion Hsg'; subst.
  destruct Hso' as [(H & _)|(_ & pm & H & _)]; [congruence|].
  rewrite (parse_powhsm_header _ H2) in H. discriminate.
Qed.

(* current format: any length but 127 is an error (truncated or extended messages) *)
Corollary ledger_signer_wrong_length ks ui sm t :
  is_legacy_signer_header sm = false -> length sm <> 127%nat ->
  verify_ledger hash ks ui (Some (TValid sm t)) = None.
Proof.
  intros H1 H2. ledger_none. inversion Hsg'; subst.
  destruct Hso' as [(H & _)|(_ & pm & H & _)]; [congruence|].
  rewrite (parse_powhsm_length _ H2) in H. discriminate.
Qed.

(* legacy format: header (14) followed by exactly the hash; at most 46 bytes in all *)
Corollary ledger_legacy_too_long ks ui sm t :
  is_legacy_signer_header sm = true -> (length sm > 46)%nat ->
  verify_ledger hash ks ui (Some (TValid sm t)) = None.
Proof.
  intros H1 H2. ledger_none. inversion Hsg'; subst.
  destruct Hso' as [(_ & H & _)|(H & _)]; [|congruence].
  apply (f_equal (@length N)) in H. rewrite skipn_length in H. cbn [length] in H. lia.
Qed.

Corollary ledger_hash_mismatch_legacy ks ui sm t :
  is_legacy_signer_header sm = true -> skipn 14 sm <> keys_hash_of ks ->
  verify_ledger hash ks ui (Some (TValid sm t)) = None.
Proof.
  intros H1 H2. ledger_none. inversion Hsg'; subst.
  destruct Hso' as [(_ & _ & H & _)|(H & _)]; congruence.
Qed.

Corollary ledger_hash_mismatch ks ui sm t :
  is_legacy_signer_header sm = false -> firstn 32 (skipn 47 sm) <> keys_hash_of ks ->
  verify_ledger hash ks ui (Some (TValid sm t)) = None.
Proof.
  intros H1 H2. ledger_none. inversion Hsg'; subst.
  destruct Hso' as [(H & _)|(_ & pm & H & Hk & _)]; [congruence|].
  apply parse_powhsm_iff in H. destruct H as (_ & _ & _ & ->). exact (H2 Hk).
Qed.

(* ==================================================================================== *)
(* 3. Ledger: what is printed                                                             *)
(* ==================================================================================== *)

Theorem printed_are_slices ks um uih sm sh ur sr :
  verify_ledger hash ks (Some (TValid um (Some uih))) (Some (TValid sm (Some sh))) = Some (ur, sr) ->
  ur_ud_value ur = slice um 10 42
  /\ ur_public_key ur = slice um 42 75
  /\ ur_signer_hash ur = slice um 75 107
  /\ ur_signer_iteration ur = from_bytes_be (slice um 107 109)
  /\ ur_ui_hash ur = uih
  /\ ur_ui_version ur = firstn 3 (skipn 7 um)
  /\ sr_signer_hash sr = sh
  /\ sr_keys_hash sr = keys_hash_of ks
  /\ (if is_legacy_signer_header sm
      then sr_powhsm sr = None /\ sr_version sr = firstn 3 (skipn 11 sm)
           /\ sr_keys_hash sr = skipn 14 sm
      else sr_version sr = firstn 3 (skipn 7 sm)
           /\ sr_keys_hash sr = firstn 32 (skipn 47 sm)
           /\ exists pm, sr_powhsm sr = Some pm
              /\ pm_platform pm = firstn 3 (skipn 12 sm)
              /\ pm_ud_value pm = firstn 32 (skipn 15 sm)
              /\ pm_keys_hash pm = firstn 32 (skipn 47 sm)
              /\ pm_best_block pm = firstn 32 (skipn 79 sm)
              /\ pm_last_signed_tx pm = firstn 8 (skipn 111 sm)
              /\ pm_timestamp pm = from_bytes_be (firstn 8 (skipn 119 sm))).
Proof.
  intro H. apply ledger_ok_iff in H.
  destruct H as (uik & um' & uih' & sm' & sh' & _ & _ & H1 & _ & _ & H2 & -> & Hs).
  inversion H1; inversion H2; subst um' uih' sm' sh'. cbn [ui_report_of ur_ud_value ur_public_key
    ur_signer_hash ur_signer_iteration ur_ui_hash ur_ui_version].
  do 6 (split; [reflexivity|]).
  destruct Hs as [(L & _ & Hk & ->)|(L & pm & Hp & Hk & ->)]; rewrite L;
    cbn [sr_signer_hash sr_keys_hash sr_powhsm sr_version]; (do 2 (split; [reflexivity|])).
  - auto.
  - apply parse_powhsm_iff in Hp. destruct Hp as (_ & _ & _ & ->).
    cbn [powhsm_of pm_version pm_keys_hash] in *. repeat split; auto.
    eexists; split; [reflexivity|]. cbn. repeat split.
Qed.

(* ==================================================================================== *)
(* 4. SGX                                                                                 *)
(* ==================================================================================== *)

(* MRENCLAVE / MRSIGNER sit at 48 + 64 and 48 + 128 of the quote *)
Lemma report_body_field (q : bytes) off sz :
  (off + sz <= 384)%nat ->
  firstn sz (skipn off (firstn 384 (skipn 48 q))) = firstn sz (skipn (48 + off) q).
Proof.
  intro H. rewrite skipn_firstn_comm, firstn_firstn, skipn_skipn'.
  replace (Nat.min sz (384 - off)) with sz by lia. reflexivity.
Qed.

Lemma verify_sgx_unfold rsv ks quote :
  verify_sgx hash rsv ks quote =
  if negb rsv then None else
  match pubkeys_hash hash ks, quote with
  | Some kh, Some (custom, q) =>
      match parse_powhsm custom with
      | Some pm =>
          if negb (bytes_eqb (pm_keys_hash pm) kh) then None else
          Some (mkSg kh (firstn 32 (skipn 112 q)) (firstn 32 (skipn 176 q)) pm)
      | None => None
      end
  | _, _ => None
  end.
Proof.
  unfold verify_sgx. rewrite layout_report_body, layout_mrenclave, layout_mrsigner.
  unfold sub. cbn [fst snd].
  change (N.to_nat 384) with 384%nat. change (N.to_nat 48) with 48%nat.
  change (N.to_nat 32) with 32%nat. change (N.to_nat 64) with 64%nat.
  change (N.to_nat 128) with 128%nat.
  destruct (negb rsv); [reflexivity|].
  destruct (pubkeys_hash hash ks); [|reflexivity].
  destruct quote as [[custom q]|]; [|reflexivity].
  rewrite !report_body_field by lia. reflexivity.
Qed.

Definition sgx_ok (rsv : bool) (ks : list opkey) (quote : option (bytes * bytes))
           (r : sgx_report) : Prop :=
  exists custom q pm,
    rsv = true /\ ks <> [] /\ quote = Some (custom, q)
    /\ parse_powhsm custom = Some pm
    /\ pm_keys_hash pm = keys_hash_of ks
    /\ r = mkSg (keys_hash_of ks) (firstn 32 (skipn 112 q)) (firstn 32 (skipn 176 q)) pm.

Theorem sgx_ok_iff rsv ks quote r :
  verify_sgx hash rsv ks quote = Some r <-> sgx_ok rsv ks quote r.
Proof.
  rewrite verify_sgx_unfold. unfold sgx_ok.
  destruct rsv; cbn [negb].
  2:{ split; [discriminate|]. intros (? & ? & ? & H & _). discriminate. }
  destruct (pubkeys_hash hash ks) as [kh|] eqn:PH.
  2:{ apply pubkeys_hash_none in PH. split; [discriminate|].
      intros (? & ? & ? & _ & H & _). contradiction. }
  apply pubkeys_hash_some in PH. destruct PH as [Hne ->].
  destruct quote as [[custom q]|].
  2:{ split; [discriminate|]. intros (? & ? & ? & _ & _ & H & _). discriminate. }
  destruct (parse_powhsm custom) as [pm|] eqn:PP.
  2:{ split; [discriminate|]. intros (? & ? & ? & _ & _ & H & H' & _).
      inversion H; subst. congruence. }
  destruct (bytes_eqb (pm_keys_hash pm) (keys_hash_of ks)) eqn:E; cbn [negb].
  - apply bytes_eqb_eq in E. split.
    + intro H. inversion H. exists custom, q, pm. repeat split; auto.
    + intros (c' & q' & pm' & _ & _ & H & H' & _ & ->). inversion H; subst. 
      rewrite PP in H'. inversion H'. reflexivity.
  - split; [discriminate|]. intros (c' & q' & pm' & _ & _ & H & H' & Hk & _).
    inversion H; subst. rewrite PP in H'. inversion H'; subst.
    apply bytes_eqb_eq in Hk. congruence.
Qed.

Theorem sgx_else_error rsv ks quote :
  verify_sgx hash rsv ks quote = None <-> forall r, ~ sgx_ok rsv ks quote r.
Proof.
  split.
  - intros H r Hok. apply sgx_ok_iff in Hok. congruence.
  - intro H. destruct (verify_sgx hash rsv ks quote) as [r|] eqn:E; [|reflexivity].
    apply sgx_ok_iff in E. exfalso. eapply H, E.
Qed.

Ltac sgx_none :=
  match goal with
  | |- ?v = None => let E := fresh "E" in
      destruct v as [?|] eqn:E; [exfalso; apply sgx_ok_iff in E|reflexivity];
      destruct E as (custom' & q' & pm' & Hrs' & Hne' & Hq' & Hpp' & Hk' & Hr')
  end.

Corollary sgx_root_not_self_valid ks quote : verify_sgx hash false ks quote = None.
Proof. sgx_none. discriminate. Qed.

Corollary sgx_no_keys rsv quote : verify_sgx hash rsv [] quote = None.
Proof. sgx_none. congruence. Qed.

Corollary sgx_quote_missing rsv ks : verify_sgx hash rsv ks None = None.
Proof. sgx_none. discriminate. Qed.

Corollary sgx_foreign_header rsv ks custom q :
  is_powhsm_header custom = false -> verify_sgx hash rsv ks (Some (custom, q)) = None.
Proof. intro H. sgx_none. inversion Hq'; subst. rewrite (parse_powhsm_header _ H) in Hpp'. discriminate. Qed.

Corollary sgx_wrong_length rsv ks custom q :
  length custom <> 127%nat -> verify_sgx hash rsv ks (Some (custom, q)) = None.
Proof. intro H. sgx_none. inversion Hq'; subst. rewrite (parse_powhsm_length _ H) in Hpp'. discriminate. Qed.

Corollary sgx_hash_mismatch rsv ks custom q :
  firstn 32 (skipn 47 custom) <> keys_hash_of ks -> verify_sgx hash rsv ks (Some (custom, q)) = None.
Proof.
  intro H. sgx_none. inversion Hq'; subst.
  apply parse_powhsm_iff in Hpp'. destruct Hpp' as (_ & _ & _ & ->). exact (H Hk').
Qed.

Theorem sgx_printed_are_slices rsv ks custom q r :
  verify_sgx hash rsv ks (Some (custom, q)) = Some r ->
  sg_keys_hash r = keys_hash_of ks
  /\ sg_keys_hash r = firstn 32 (skipn 47 custom)
  /\ sg_mrenclave r = firstn 32 (skipn 112 q)
  /\ sg_mrsigner r = firstn 32 (skipn 176 q)
  /\ sg_powhsm r = powhsm_of custom.
Proof.
  intro H. apply sgx_ok_iff in H.
  destruct H as (c' & q' & pm & _ & _ & H & Hp & Hk & ->). inversion H; subst c' q'.
  apply parse_powhsm_iff in Hp. destruct Hp as (_ & _ & _ & ->).
  cbn [sg_keys_hash sg_mrenclave sg_mrsigner sg_powhsm]. cbn [powhsm_of pm_keys_hash] in Hk.
  repeat split; auto.
Qed.

End WithHash.

(* ==================================================================================== *)
(* 5. "in path order": the hash does not depend on the order of the public-keys file      *)
(* ==================================================================================== *)

Definition keyed (k : opkey) : bytes * opkey := (k_path k, k).

Lemma sorted_keys_pairs ks : sorted_keys ks = map snd (sort_pairs (map keyed ks)).
Proof. reflexivity. Qed.

(* a list sorted under a total antisymmetric order and without repeated keys is the only
   sorted permutation of itself *)
Lemma sorted_perm_unique {A} (l1 : list (bytes * A)) : forall l2,
  Permutation l1 l2 -> NoDup (map fst l1) ->
  keys_sorted (map fst l1) -> keys_sorted (map fst l2) -> l1 = l2.
Proof.
  unfold keys_sorted. induction l1 as [|a l1 IH]; intros l2 HP ND S1 S2.
  - apply Permutation_nil in HP. congruence.
  - destruct l2 as [|b l2]; [apply Permutation_sym, Permutation_nil in HP; discriminate|].
    cbn [map] in *. inversion S1 as [|? ? S1' F1]; inversion S2 as [|? ? S2' F2]; subst.
    inversion ND as [|? ? Hnin ND']; subst.
    rewrite Forall_forall in F1, F2.
    assert (Hab : a = b).
    { assert (Ha : In a (b :: l2)) by (eapply Permutation_in; [exact HP|left; reflexivity]).
      assert (Hb : In b (a :: l1)) by (eapply Permutation_in; [apply Permutation_sym, HP|left; reflexivity]).
      destruct Ha as [Ha|Ha]; [congruence|]. destruct Hb as [Hb|Hb]; [congruence|].
      exfalso. apply Hnin.
      assert (fst a = fst b).
      { apply bytes_leb_antisym; [apply F1|apply F2]; apply in_map; assumption. }
      rewrite H. apply in_map, Hb. }
    subst b. f_equal. apply Permutation_cons_inv in HP. apply IH; auto.
Qed.

Lemma map_fst_keyed ks : map fst (map keyed ks) = map k_path ks.
Proof. rewrite map_map. reflexivity. Qed.

Theorem sorted_keys_order_independent ks ks' :
  Permutation ks' ks -> NoDup (map k_path ks) -> sorted_keys ks' = sorted_keys ks.
Proof.
  intros HP ND. rewrite !sorted_keys_pairs. f_equal.
  apply sorted_perm_unique.
  - eapply perm_trans; [apply sort_pairs_perm|].
    eapply perm_trans; [apply Permutation_map, HP|]. apply Permutation_sym, sort_pairs_perm.
  - eapply Permutation_NoDup; [|exact ND]. rewrite <- map_fst_keyed.
    apply Permutation_map, Permutation_sym.
    eapply perm_trans; [apply sort_pairs_perm|]. apply Permutation_map, HP.
  - apply sort_pairs_sorted.
  - apply sort_pairs_sorted.
Qed.

Theorem pubkeys_hash_order_independent hash ks ks' :
  Permutation ks' ks -> NoDup (map k_path ks) ->
  pubkeys_hash hash ks' = pubkeys_hash hash ks.
Proof.
  intros HP ND. unfold pubkeys_hash.
  rewrite (sorted_keys_order_independent ks ks' HP ND).
  destruct ks' as [|k' ks']; [apply Permutation_nil in HP; subst; reflexivity|].
  destruct ks as [|k ks]; [apply Permutation_sym, Permutation_nil in HP; discriminate|reflexivity].
Qed.

(* every pair the sort works on still carries its own path as key *)
Lemma sort_pairs_keyed ks : map fst (sort_pairs (map keyed ks)) = map k_path (sorted_keys ks).
Proof.
  rewrite sorted_keys_pairs, map_map.
  apply map_ext_in. intros [p k] Hin. cbn [fst snd].
  apply (Permutation_in _ (sort_pairs_perm _)) in Hin. apply in_map_iff in Hin.
  destruct Hin as (k0 & E & _). inversion E. reflexivity.
Qed.

(* the keys that get hashed are the operator's, each once, paths ascending *)
Theorem sorted_keys_sorted ks : keys_sorted (map k_path (sorted_keys ks)).
Proof. rewrite <- sort_pairs_keyed. apply sort_pairs_sorted. Qed.

Theorem sorted_keys_perm ks : Permutation (sorted_keys ks) ks.
Proof.
  rewrite sorted_keys_pairs.
  replace ks with (map snd (map keyed ks)) at 2 by (rewrite map_map; apply map_id).
  apply Permutation_map, sort_pairs_perm.
Qed.

(* hence the whole verification is insensitive to the order of the public-keys file *)
Lemma find_key_in p ks k : find_key p ks = Some k -> In k ks /\ k_path k = p.
Proof.
  induction ks as [|k0 ks IH]; cbn [find_key]; [discriminate|].
  destruct (str_eqb (k_path k0) p) eqn:E.
  - intro H; inversion H; subst. split; [left; reflexivity|]. apply bytes_eqb_eq, E.
  - intro H. destruct (IH H). split; [right|]; assumption.
Qed.

Lemma find_key_perm p ks ks' :
  Permutation ks' ks -> NoDup (map k_path ks) -> find_key p ks' = find_key p ks.
Proof.
  intros HP ND.
  assert (ND' : NoDup (map k_path ks')).
  { eapply Permutation_NoDup; [|exact ND]. apply Permutation_map, Permutation_sym, HP. }
  assert (Hin : forall l k, NoDup (map k_path l) -> In k l -> find_key (k_path k) l = Some k).
  { induction l as [|k0 l IH]; intros k N I; [destruct I|]. cbn [find_key].
    cbn [map] in N. inversion N as [|? ? Hnin N']; subst.
    destruct (str_eqb (k_path k0) (k_path k)) eqn:E.
    - apply bytes_eqb_eq in E. destruct I as [->|I]; [reflexivity|].
      exfalso. apply Hnin. rewrite E. apply in_map, I.
    - destruct I as [->|I]; [|apply IH; assumption].
      assert (str_eqb (k_path k) (k_path k) = true) by (apply bytes_eqb_eq; reflexivity). congruence. }
  destruct (find_key p ks) as [k|] eqn:E.
  - apply find_key_in in E. destruct E as [I <-]. apply Hin; [exact ND'|].
    eapply Permutation_in; [apply Permutation_sym, HP|exact I].
  - destruct (find_key p ks') as [k|] eqn:E'; [|reflexivity].
    apply find_key_in in E'. destruct E' as [I <-].
    rewrite (Hin ks k ND) in E; [discriminate|]. eapply Permutation_in; [exact HP|exact I].
Qed.

Theorem verify_ledger_order_independent hash ks ks' ui signer :
  Permutation ks' ks -> NoDup (map k_path ks) ->
  verify_ledger hash ks' ui signer = verify_ledger hash ks ui signer.
Proof.
  intros HP ND. unfold verify_ledger.
  rewrite (pubkeys_hash_order_independent hash ks ks' HP ND), (find_key_perm _ ks ks' HP ND).
  reflexivity.
Qed.

Theorem verify_sgx_order_independent hash rsv ks ks' quote :
  Permutation ks' ks -> NoDup (map k_path ks) ->
  verify_sgx hash rsv ks' quote = verify_sgx hash rsv ks quote.
Proof.
  intros HP ND. unfold verify_sgx.
  rewrite (pubkeys_hash_order_independent hash ks ks' HP ND). reflexivity.
Qed.

(* ==================================================================================== *)
(* 6. non-vacuity: a genuine-looking triple is accepted, variants are rejected            *)
(* ==================================================================================== *)

Module Examples.

Definition key (p : string) (x : N) : opkey :=
  mkKey (s p) (4 :: repeat x 64) (2 :: repeat x 32).

Definition k_btc := key "m/44'/0'/0'/0/0" 17.
Definition k_rsk := key "m/44'/137'/0'/0/0" 34.
Definition k_mst := key "m/44'/137'/1'/0/0" 51.
Definition ex_keys := [k_rsk; k_btc; k_mst].          (* file order is not path order *)
Definition ex_kh := keys_hash_of sha256 ex_keys.

Definition ex_um : bytes :=
  s "HSM:UI:5.0" ++ repeat 170 32 ++ k_compressed k_btc ++ repeat 187 32 ++ [0; 3].
Definition ex_uih := repeat 204 32.
Definition ex_sh := repeat 221 32.
Definition ex_sm : bytes :=
  s "POWHSM:5.0::" ++ s "led" ++ repeat 170 32 ++ ex_kh ++ repeat 238 32 ++ repeat 1 8
    ++ [0; 0; 0; 0; 1; 2; 3; 4].
Definition ex_legacy : bytes := s "HSM:SIGNER:4.0" ++ ex_kh.
Definition ex_quote : bytes := repeat 0 112 ++ repeat 7 32 ++ repeat 0 32 ++ repeat 9 32 ++ repeat 0 224.

Example path_order :
  map k_path (sorted_keys ex_keys) = map k_path [k_btc; k_rsk; k_mst].
Proof. vm_compute. reflexivity. Qed.

Example ledger_genuine_accepted :
  verify_ledger sha256 ex_keys (Some (TValid ex_um (Some ex_uih))) (Some (TValid ex_sm (Some ex_sh)))
  = Some (ui_report_of ex_um ex_uih, mkSr ex_kh ex_sh (s "5.0") (Some (powhsm_of ex_sm)))
  /\ pm_timestamp (powhsm_of ex_sm) = 16909060 /\ pm_platform (powhsm_of ex_sm) = s "led"
  /\ ur_signer_iteration (ui_report_of ex_um ex_uih) = 3.
Proof. vm_compute. repeat split. Qed.

Example ledger_other_file_order_accepted :
  verify_ledger sha256 [k_mst; k_rsk; k_btc] (Some (TValid ex_um (Some ex_uih)))
                (Some (TValid ex_sm (Some ex_sh)))
  = verify_ledger sha256 ex_keys (Some (TValid ex_um (Some ex_uih))) (Some (TValid ex_sm (Some ex_sh))).
Proof. vm_compute. reflexivity. Qed.

Example ledger_legacy_accepted :
  verify_ledger sha256 ex_keys (Some (TValid ex_um (Some ex_uih))) (Some (TValid ex_legacy (Some ex_sh)))
  = Some (ui_report_of ex_um ex_uih, mkSr ex_kh ex_sh (s "4.0") None).
Proof. vm_compute. reflexivity. Qed.

Example ledger_extra_key_rejected :
  verify_ledger sha256 (key "m/44'/1'/0'/0/0" 68 :: ex_keys) (Some (TValid ex_um (Some ex_uih)))
                (Some (TValid ex_sm (Some ex_sh))) = None.
Proof. vm_compute. reflexivity. Qed.

Example ledger_missing_key_rejected :
  verify_ledger sha256 [k_btc; k_rsk] (Some (TValid ex_um (Some ex_uih)))
                (Some (TValid ex_sm (Some ex_sh))) = None.
Proof. vm_compute. reflexivity. Qed.

Example ledger_other_btc_key_rejected :
  verify_ledger sha256 [k_rsk; key "m/44'/0'/0'/0/0" 18; k_mst] (Some (TValid ex_um (Some ex_uih)))
                (Some (TValid ex_sm (Some ex_sh))) = None.
Proof. vm_compute. reflexivity. Qed.

(* path names are not hashed, only the order they induce: a renaming that keeps the order is
   accepted, one that changes it is rejected *)
Example ledger_renamed_path_same_order_accepted :
  verify_ledger sha256 [k_rsk; k_btc; mkKey (s "m/44'/137'/2'/0/0") (k_uncompressed k_mst) (k_compressed k_mst)]
                (Some (TValid ex_um (Some ex_uih))) (Some (TValid ex_sm (Some ex_sh)))
  = verify_ledger sha256 ex_keys (Some (TValid ex_um (Some ex_uih))) (Some (TValid ex_sm (Some ex_sh))).
Proof. vm_compute. reflexivity. Qed.

Example ledger_renamed_path_other_order_rejected :
  verify_ledger sha256 [k_rsk; k_btc; mkKey (s "m/44'/1'/1'/0/0") (k_uncompressed k_mst) (k_compressed k_mst)]
                (Some (TValid ex_um (Some ex_uih))) (Some (TValid ex_sm (Some ex_sh))) = None.
Proof. vm_compute. reflexivity. Qed.

Example ledger_extended_rejected :
  verify_ledger sha256 ex_keys (Some (TValid ex_um (Some ex_uih))) (Some (TValid (ex_sm ++ [0]) (Some ex_sh)))
  = None
  /\ verify_ledger sha256 ex_keys (Some (TValid ex_um (Some ex_uih)))
                   (Some (TValid (removelast ex_sm) (Some ex_sh))) = None
  /\ verify_ledger sha256 ex_keys (Some (TValid ex_um (Some ex_uih)))
                   (Some (TValid (ex_legacy ++ [0]) (Some ex_sh))) = None
  /\ verify_ledger sha256 ex_keys (Some (TValid ex_um (Some ex_uih)))
                   (Some (TValid (removelast ex_legacy) (Some ex_sh))) = None.
Proof. vm_compute. repeat split. Qed.

Example sgx_genuine_accepted :
  verify_sgx sha256 true ex_keys (Some (ex_sm, ex_quote))
  = Some (mkSg ex_kh (repeat 7 32) (repeat 9 32) (powhsm_of ex_sm)).
Proof. vm_compute. reflexivity. Qed.

Example sgx_extra_key_rejected :
  verify_sgx sha256 true (key "m/44'/1'/0'/0/0" 68 :: ex_keys) (Some (ex_sm, ex_quote)) = None
  /\ verify_sgx sha256 false ex_keys (Some (ex_sm, ex_quote)) = None
  /\ verify_sgx sha256 true ex_keys (Some (ex_sm ++ [0], ex_quote)) = None.
Proof. vm_compute. repeat split. Qed.

(* the length of the UI message is not checked: trailing bytes are ignored, and a message cut
   after the public key is still accepted (shorter signer hash / iteration 0 get printed) *)
Example ledger_ui_length_unchecked :
  (exists r, verify_ledger sha256 ex_keys (Some (TValid (ex_um ++ [1; 2; 3]) (Some ex_uih)))
                           (Some (TValid ex_sm (Some ex_sh))) = Some r)
  /\ (exists sr, verify_ledger sha256 ex_keys (Some (TValid (firstn 80 ex_um) (Some ex_uih)))
                           (Some (TValid ex_sm (Some ex_sh)))
        = Some (mkUi (repeat 170 32) (k_compressed k_btc) (repeat 187 5) 0 ex_uih (s "5.0"), sr)).
Proof. split; vm_compute; eexists; reflexivity. Qed.

End Examples.

(* Print Assumptions ledger_ok_iff.  Print Assumptions pubkeys_hash_order_independent. *)
