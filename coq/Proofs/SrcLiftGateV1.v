(* The legacy (version 1) request path as translated from the source: property theorems of the model carried over
   (see SrcLiftGate.v / SrcLiftGate2.v for version 5). *)
From PowHsm Require Import Gen.Src Gen.SrcM Model.Dongle Model.LedgerProtocol.
From PowHsm Require Import Proofs.ValLemmas Proofs.SrcEquivBase Proofs.SrcEquivLedger Proofs.SrcEquivDongleM
  Proofs.SrcEquivProtoM Proofs.SrcEquivGateV1M.
From PowHsm Require Proofs.C02 Proofs.C03 Proofs.C11 Proofs.TraceLogic.

Section WithEnv.
Variable keccak : bytes -> bytes.
Variable kind : dongle_kind.
Variable init : pm pv.
Variable cm : string -> pv -> list pv -> pr pv.

Definition env_ok_v1 : Prop := init_ok kind init /\ path_oracle_ok_v1 cm.

Lemma src_is_model_v1 self request w :
  env_ok_v1 ->
  srcm_HSM1ProtocolLedger____internal_handle_request cm init self (of_json request) w =
  mres of_json (handle_request keccak kind V1 request w).
Proof. intros [Hi Hp]. apply srcm_handle_request_v1_ok; assumption. Qed.

(* C02, legacy mode: a rejected request is answered with its code and the world is untouched *)
Theorem src_rejected_no_exchange_v1 : forall self request code w,
  env_ok_v1 ->
  gate_request V1 request = GReject code ->
  srcm_HSM1ProtocolLedger____internal_handle_request cm init self (of_json request) w =
  (XOk (of_json (JObj [(KEY_ERRORCODE, JInt code)])), w).
Proof.
  intros self request code w Henv Hg. rewrite (src_is_model_v1 self request w Henv).
  rewrite (C02.rejected_no_exchange keccak kind V1 request code w Hg). reflexivity.
Qed.

(* C03, legacy mode: the translated request path raises exactly when the accepted command's operation raises *)
Theorem src_raises_only_from_operation_v1 : forall self request w e w',
  env_ok_v1 ->
  srcm_HSM1ProtocolLedger____internal_handle_request cm init self (of_json request) w = (XRaise e, w') ->
  exists cmd req opname op, gate_request V1 request = GAccept cmd req /\
    assoc_str cmd (C03.dispatch_table V1) = Some opname /\
    run_operation keccak kind V1 opname req = Some op /\ op w = (Exn e, w').
Proof.
  intros self request w e w' Henv H. rewrite (src_is_model_v1 self request w Henv) in H.
  unfold mres in H. destruct (handle_request keccak kind V1 request w) as [[j|e1] w1] eqn:E; cbn [fst snd] in H;
    [discriminate H|].
  inversion H; subst.
  exact (C03.handle_request_raises_only_from_operation keccak kind V1 request w e w' E).
Qed.

(* C11, legacy mode: a link fault at any exchange of an accepted command is answered with the legacy device-error
   code, is the last event of the request, and raises the reconnection flag iff it was a write / read error *)
Theorem src_link_fault_reply_v1 : forall self request cmd req opname op P rcn w n b f,
  env_ok_v1 ->
  gate_request V1 request = GAccept cmd req ->
  assoc_str cmd DISPATCH_V1 = Some opname ->
  run_operation keccak kind V1 opname req = Some op ->
  C11.is_handler keccak kind V1 P rcn op -> comm_issue w = false ->
  TraceLogic.news w (snd (op w)) n -> In (Apdu b f) n -> P b f = true ->
  srcm_HSM1ProtocolLedger____internal_handle_request cm init self (of_json request) w =
    (XOk (of_json (C11.error_reply (C11.DEVICE V1))), snd (op w)) /\
  comm_issue (snd (op w)) = C11.is_comm_fault f /\
  (exists pre, n = pre ++ [Apdu b f] /\ C11.clean P pre).
Proof.
  intros self request cmd req opname op P rcn w n b f Henv Hg Hd Hr Hh Hci Hn Hin HP.
  destruct (C11.any_fault_is_last keccak kind V1 P rcn op w n b f Hh Hci Hn Hin HP) as [Hlast [Hres Hfl]].
  split; [|split; assumption].
  rewrite (src_is_model_v1 self request w Henv).
  destruct (op w) as [r w'] eqn:Eop. cbn [fst snd] in *. subst r.
  destruct (C11.handle_request_error keccak kind V1 request cmd req opname op w (C11.DEVICE V1) w' Hg Hd Hr Eop
              (C11.DEVICE_negative V1)) as [H _].
  rewrite H. reflexivity.
Qed.

End WithEnv.
