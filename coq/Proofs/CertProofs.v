(* C16 / C06: attestation certificates: termination, well-formedness, round trip, chain logic. *)
From PowHsm Require Import Model.Cert.
From Coq Require Import ZifyBool ZifyNat ZifyN Lia.
Open Scope nat_scope.

(* ---------- str_eqb ---------- *)

Lemma cstr_eqb_eq (a b : str) : str_eqb a b = true <-> a = b.
Proof.
  unfold str_eqb. revert b. induction a as [|x a IH]; intros [|y b]; cbn [list_eqb]; split;
    intro H; try reflexivity; try discriminate.
  - apply andb_true_iff in H. destruct H as [H1 H2]. apply N.eqb_eq in H1. apply IH in H2.
    subst. reflexivity.
  - inversion H; subst. rewrite N.eqb_refl. cbn [andb]. apply IH. reflexivity.
Qed.

Lemma cstr_eqb_refl (a : str) : str_eqb a a = true.
Proof. apply cstr_eqb_eq. reflexivity. Qed.

Lemma cstr_eqb_sym (a b : str) : str_eqb a b = str_eqb b a.
Proof.
  destruct (str_eqb a b) eqn:E.
  - apply cstr_eqb_eq in E. subst. symmetry. apply cstr_eqb_refl.
  - destruct (str_eqb b a) eqn:E'; [|reflexivity].
    apply cstr_eqb_eq in E'. subst. rewrite cstr_eqb_refl in E. discriminate.
Qed.

(* ---------- key_eqb is a partial equivalence (not reflexive on JFloat None / arrays / objects) ---------- *)

Lemma key_eqb_sym (a b : json) : key_eqb a b = key_eqb b a.
Proof.
  destruct a as [| x | x | [x|] | x | x | x], b as [| y | y | [y|] | y | y | y];
    cbn [key_eqb num_of]; try reflexivity; try apply Z.eqb_sym; apply cstr_eqb_sym.
Qed.

Lemma key_eqb_trans (a b c : json) :
  key_eqb a b = true -> key_eqb b c = true -> key_eqb a c = true.
Proof.
  destruct a as [| x | x | [x|] | x | x | x], b as [| y | y | [y|] | y | y | y];
    cbn [key_eqb num_of]; try discriminate;
    destruct c as [| z | z | [z|] | z | z | z]; cbn [key_eqb num_of]; try discriminate;
    try reflexivity; intros H1 H2;
    try (apply Z.eqb_eq in H1; apply Z.eqb_eq in H2; apply Z.eqb_eq; congruence).
  apply cstr_eqb_eq in H1. apply cstr_eqb_eq in H2. apply cstr_eqb_eq. congruence.
Qed.

Lemma key_eqb_refl_l (a b : json) : key_eqb a b = true -> key_eqb a a = true.
Proof. intro H. apply key_eqb_trans with b; [exact H|]. rewrite key_eqb_sym. exact H. Qed.

Lemma key_eqb_refl_r (a b : json) : key_eqb a b = true -> key_eqb b b = true.
Proof. intro H. rewrite key_eqb_sym in H. apply key_eqb_refl_l in H. exact H. Qed.

(* the only hashable value that is not equal to itself *)
Lemma key_eqb_refl_iff (a : json) :
  key_eqb a a = true <-> hashable a = true /\ a <> JFloat None.
Proof.
  destruct a as [| x | x | [x|] | x | x | x]; cbn [key_eqb num_of hashable]; split;
    first [ intros [H1 H2]; first [ discriminate H1 | exfalso; apply H2; reflexivity
                                  | reflexivity | apply Z.eqb_refl | apply cstr_eqb_refl ]
          | intro H; first [ discriminate H | split; [reflexivity|discriminate] ] ].
Qed.

Lemma key_eqb_cong_l (a b c : json) : key_eqb a b = true -> key_eqb a c = key_eqb b c.
Proof.
  intro H. destruct (key_eqb b c) eqn:E.
  - apply key_eqb_trans with b; assumption.
  - destruct (key_eqb a c) eqn:E'; [|reflexivity].
    rewrite <- E. symmetry. apply key_eqb_trans with a; [|exact E'].
    rewrite key_eqb_sym. exact H.
Qed.

(* ---------- the table is a map on keys ---------- *)

Lemma tbl_get_cong (a b : json) (t : etable) :
  key_eqb a b = true -> tbl_get a t = tbl_get b t.
Proof.
  intro H. induction t as [|[k e] r IH]; [reflexivity|].
  cbn [tbl_get]. rewrite (key_eqb_cong_l a b k H). rewrite IH. reflexivity.
Qed.

Lemma tbl_get_set_same (k k0 : json) e0 t :
  key_eqb k k0 = true -> tbl_get k (tbl_set k0 e0 t) = Some e0.
Proof.
  intro H. induction t as [|[k' e'] r IH].
  - cbn [tbl_set tbl_get]. rewrite H. reflexivity.
  - cbn [tbl_set]. destruct (key_eqb k0 k') eqn:E; cbn [tbl_get].
    + rewrite (key_eqb_cong_l k k0 k' H), E. reflexivity.
    + rewrite (key_eqb_cong_l k k0 k' H), E. exact IH.
Qed.

Lemma tbl_get_set_other (k k0 : json) e0 t :
  key_eqb k k0 = false -> tbl_get k (tbl_set k0 e0 t) = tbl_get k t.
Proof.
  intro H. induction t as [|[k' e'] r IH].
  - cbn [tbl_set tbl_get]. rewrite H. reflexivity.
  - cbn [tbl_set]. destruct (key_eqb k0 k') eqn:E; cbn [tbl_get].
    + destruct (key_eqb k k') eqn:E'; [|reflexivity].
      exfalso. rewrite key_eqb_sym in E. pose proof (key_eqb_trans _ _ _ E' E). congruence.
    + rewrite IH. reflexivity.
Qed.

Lemma tbl_set_length_le k e t : length t <= length (tbl_set k e t) <= S (length t).
Proof.
  induction t as [|[k' e'] r IH]; cbn [tbl_set length]; [lia|].
  destruct (key_eqb k k'); cbn [length]; lia.
Qed.

(* keys pairwise different for key_eqb *)
Fixpoint keys_unique (t : etable) : Prop :=
  match t with
  | [] => True
  | (k, _) :: r => (forall k' e', In (k', e') r -> key_eqb k k' = false) /\ keys_unique r
  end.

Lemma tbl_set_in k e t k' e' :
  In (k', e') (tbl_set k e t) ->
  In (k', e') t \/ (e' = e /\ (k' = k \/ exists e0, In (k', e0) t)).
Proof.
  induction t as [|[k1 e1] r IH]; cbn [tbl_set].
  - intros [H|[]]. inversion H; subst. right. split; [reflexivity|left; reflexivity].
  - destruct (key_eqb k k1) eqn:E.
    + intros [H|H].
      * inversion H; subst. right. split; [reflexivity|]. right. exists e1. left. reflexivity.
      * left. right. exact H.
    + intros [H|H].
      * left. left. exact H.
      * apply IH in H. destruct H as [H|[H1 [H2|[e0 H2]]]].
        -- left. right. exact H.
        -- right. split; [exact H1|left; exact H2].
        -- right. split; [exact H1|]. right. exists e0. right. exact H2.
Qed.

Lemma tbl_set_key_in k e t k' e' :
  In (k', e') (tbl_set k e t) -> (k' = k /\ tbl_get k t = None) \/ exists e0, In (k', e0) t.
Proof.
  induction t as [|[k1 e1] r IH]; cbn [tbl_set tbl_get].
  - intros [H|[]]. inversion H; subst. left. split; reflexivity.
  - destruct (key_eqb k k1) eqn:E.
    + intros [H|H].
      * inversion H; subst. right. exists e1. left. reflexivity.
      * right. exists e'. right. exact H.
    + intros [H|H].
      * right. exists e'. left. exact H.
      * apply IH in H. destruct H as [H|[e0 H]]; [left; exact H|].
        right. exists e0. right. exact H.
Qed.

Lemma tbl_get_none_keys k t :
  tbl_get k t = None -> forall k' e', In (k', e') t -> key_eqb k k' = false.
Proof.
  induction t as [|[k1 e1] r IH]; cbn [tbl_get]; [intros _ ? ? []|].
  destruct (key_eqb k k1) eqn:E; [discriminate|].
  intros H k' e' [H'|H']; [inversion H'; subst; exact E|]. eapply IH; eassumption.
Qed.

Lemma keys_unique_set k e t : keys_unique t -> keys_unique (tbl_set k e t).
Proof.
  induction t as [|[k1 e1] r IH]; cbn [tbl_set keys_unique].
  - intros _. split; [intros ? ? []|exact I].
  - intros [H1 H2]. destruct (key_eqb k k1) eqn:E; cbn [keys_unique].
    + split; assumption.
    + split; [|apply IH; exact H2].
      intros k' e' Hin. apply tbl_set_key_in in Hin. destruct Hin as [[-> _]|[e0 Hin]].
      * rewrite key_eqb_sym. exact E.
      * eapply H1. exact Hin.
Qed.

(* with unique keys, membership is lookup *)
Lemma keys_unique_get k e t :
  keys_unique t -> In (k, e) t -> key_eqb k k = true -> tbl_get k t = Some e.
Proof.
  induction t as [|[k1 e1] r IH]; cbn [keys_unique tbl_get]; [intros _ []|].
  intros [H1 H2] [H|H] Hr.
  - inversion H; subst. rewrite Hr. reflexivity.
  - rewrite key_eqb_sym, (H1 _ _ H). apply IH; assumption.
Qed.

Lemma tbl_set_fresh k e t :
  (forall k' e', In (k', e') t -> key_eqb k k' = false) -> tbl_set k e t = t ++ [(k, e)].
Proof.
  induction t as [|[k1 e1] r IH]; cbn [tbl_set app]; [reflexivity|].
  intro H. rewrite (H k1 e1 (or_introl eq_refl)). rewrite IH; [reflexivity|].
  intros k' e' Hin. eapply H. right. exact Hin.
Qed.

(* every stored element sits under (a key equal to) its own name *)
Definition tbl_named (t : etable) : Prop :=
  forall k e, tbl_get k t = Some e -> key_eqb k (ce_name e) = true.

Lemma tbl_named_set e t : tbl_named t -> tbl_named (tbl_set (ce_name e) e t).
Proof.
  intros H k e' Hg. destruct (key_eqb k (ce_name e)) eqn:E.
  - rewrite tbl_get_set_same in Hg by exact E. inversion Hg; subst. exact E.
  - rewrite tbl_get_set_other in Hg by exact E. apply H. exact Hg.
Qed.

Lemma tbl_named_self t k e :
  tbl_named t -> tbl_get k t = Some e -> tbl_get (ce_name e) t = Some e.
Proof.
  intros H Hg. rewrite <- Hg. symmetry. apply tbl_get_cong. apply H. exact Hg.
Qed.

Lemma tbl_named_refl t k e :
  tbl_named t -> tbl_get k t = Some e -> key_eqb (ce_name e) (ce_name e) = true.
Proof. intros H Hg. eapply key_eqb_refl_r. apply H. exact Hg. Qed.

(* ---------- build_table ---------- *)

Lemma build_table_inv factory items : forall t t',
  build_table factory items t = LOk t' ->
  (keys_unique t -> keys_unique t') /\ (tbl_named t -> tbl_named t') /\
  Forall (fun it => exists e, factory it = LOk e /\ hashable (ce_name e) = true) items.
Proof.
  induction items as [|it r IH]; intros t t'; cbn [build_table].
  - intro H. inversion H; subst. repeat split; auto.
  - destruct (factory it) as [e|] eqn:Ef; [|discriminate].
    destruct (hashable (ce_name e)) eqn:Eh; [|discriminate].
    intro H. apply IH in H. destruct H as (H1 & H2 & H3). repeat split.
    + intro Hu. apply H1. apply keys_unique_set. exact Hu.
    + intro Hn. apply H2. apply tbl_named_set. exact Hn.
    + constructor; [|exact H3]. exists e. split; [exact Ef|exact Eh].
Qed.

Lemma build_table_error factory items it : forall t,
  In it items -> factory it = LError -> build_table factory items t = LError.
Proof.
  induction items as [|it' r IH]; intros t; [intros []|].
  intros [->|Hin] Hf; cbn [build_table].
  - rewrite Hf. reflexivity.
  - destruct (factory it') as [e|]; [|reflexivity].
    destruct (hashable (ce_name e)); [|reflexivity]. apply IH; assumption.
Qed.

Lemma build_table_unhashable factory items it e : forall t,
  In it items -> factory it = LOk e -> hashable (ce_name e) = false ->
  build_table factory items t = LError.
Proof.
  induction items as [|it' r IH]; intros t; [intros []|].
  intros [->|Hin] Hf Hh; cbn [build_table].
  - rewrite Hf, Hh. reflexivity.
  - destruct (factory it') as [e'|]; [|reflexivity].
    destruct (hashable (ce_name e')); [|reflexivity]. eapply IH; eassumption.
Qed.

(* ---------- pigeonhole: pairwise different names that are all keys of t ---------- *)

Fixpoint distinct (v : list json) : Prop :=
  match v with
  | [] => True
  | n :: r => existsb (key_eqb n) r = false /\ distinct r
  end.

Lemma existsb_key_app n a b :
  existsb (key_eqb n) (a ++ b) = existsb (key_eqb n) a || existsb (key_eqb n) b.
Proof. apply existsb_app. Qed.

Lemma distinct_snoc v n : distinct (v ++ [n]) <-> distinct v /\ existsb (key_eqb n) v = false.
Proof.
  induction v as [|x v IH]; cbn [app distinct existsb].
  - tauto.
  - rewrite IH, existsb_key_app. cbn [existsb]. rewrite (key_eqb_sym n x).
    destruct (key_eqb x n), (existsb (key_eqb x) v), (existsb (key_eqb n) v);
      cbn [orb]; intuition congruence.
Qed.

Lemma distinct_app a b :
  distinct (a ++ b) <->
  distinct a /\ distinct b /\ (forall n, In n b -> existsb (key_eqb n) a = false).
Proof.
  revert a. induction b as [|x b IH] using rev_ind; intro a.
  - rewrite app_nil_r. cbn [distinct]. split; [intro H; repeat split; [exact H|intros ? []]|tauto].
  - rewrite app_assoc, !distinct_snoc, IH, existsb_key_app. split.
    + intros [(H1 & H2 & H3) H4]. apply orb_false_iff in H4. destruct H4 as [H4 H5].
      repeat split; try assumption.
      intros n Hin. apply in_app_or in Hin. destruct Hin as [Hin|[<-|[]]]; auto.
    + intros (H1 & [H2 H3] & H4). repeat split; try assumption.
      * intros n Hin. apply H4. apply in_or_app. left. exact Hin.
      * rewrite H3, (H4 x); [reflexivity|]. apply in_or_app. right. left. reflexivity.
Qed.

Lemma existsb_key_false n v : existsb (key_eqb n) v = false <-> forall m, In m v -> key_eqb n m = false.
Proof.
  induction v as [|x v IH]; cbn [existsb In]; [split; [intros _ ? []|reflexivity]|].
  rewrite orb_false_iff, IH. split.
  - intros [H1 H2] m [<-|Hin]; auto.
  - intro H. split; [apply H; left; reflexivity|intros m Hin; apply H; right; exact Hin].
Qed.

Lemma distinct_filter_length (k : json) v :
  distinct v -> length v <= S (length (filter (fun n => negb (key_eqb n k)) v)).
Proof.
  induction v as [|n v IH]; cbn [distinct filter length]; [lia|].
  intros [H1 H2]. destruct (key_eqb n k) eqn:E; cbn [negb length].
  - assert (Hf : filter (fun n0 => negb (key_eqb n0 k)) v = v).
    { rewrite existsb_key_false in H1. clear IH H2. induction v as [|m v IHv]; [reflexivity|].
      cbn [filter]. assert (Hm : key_eqb m k = false).
      { destruct (key_eqb m k) eqn:E'; [|reflexivity].
        rewrite <- (H1 m (or_introl eq_refl)). symmetry.
        apply key_eqb_trans with k; [exact E|rewrite key_eqb_sym; exact E']. }
      rewrite Hm. cbn [negb]. f_equal. apply IHv. intros m' Hin. apply H1. right. exact Hin. }
    rewrite Hf. lia.
  - specialize (IH H2). lia.
Qed.

Lemma distinct_filter (f : json -> bool) v : distinct v -> distinct (filter f v).
Proof.
  induction v as [|n v IH]; cbn [distinct filter]; [tauto|].
  intros [H1 H2]. destruct (f n); cbn [distinct]; [|auto]. split; [|auto].
  rewrite existsb_key_false in *. intros m Hin. apply filter_In in Hin. apply H1. tauto.
Qed.

Lemma pigeonhole (t : etable) : forall v,
  distinct v -> (forall n, In n v -> tbl_get n t <> None) -> length v <= length t.
Proof.
  induction t as [|[k e] r IH]; intros v Hd Hin.
  - destruct v as [|n v]; [cbn; lia|]. exfalso. apply (Hin n (or_introl eq_refl)). reflexivity.
  - pose proof (distinct_filter_length k v Hd) as Hl.
    specialize (IH (filter (fun n => negb (key_eqb n k)) v) (distinct_filter _ _ Hd)).
    cbn [length]. enough (length (filter (fun n => negb (key_eqb n k)) v) <= length r) by lia.
    apply IH. intros n Hn. apply filter_In in Hn. destruct Hn as [Hn1 Hn2].
    specialize (Hin n Hn1). cbn [tbl_get] in Hin.
    destruct (key_eqb n k); [discriminate|exact Hin].
Qed.

(* ---------- A1: the fuel of the cycle check is never what stops it ---------- *)

(* the names visited so far: pairwise different, all of them keys of the table *)
Definition visited_ok (t : etable) (v : list json) : Prop :=
  distinct v /\ forall n, In n v -> tbl_get n t <> None.

Lemma visited_ok_length t v : visited_ok t v -> length v <= length t.
Proof. intros [H1 H2]. apply pigeonhole; assumption. Qed.

Lemma path_check_fuel_gen root t (Hn : tbl_named t) : forall f k v cur,
  visited_ok t v -> tbl_get (ce_name cur) t = Some cur -> S (length t) <= f + length v ->
  path_check f root t v cur = path_check (f + k) root t v cur.
Proof.
  induction f as [|f IH]; intros k v cur Hv Hc Hf.
  - apply visited_ok_length in Hv. lia.
  - cbn [Nat.add path_check].
    destruct (existsb (key_eqb (ce_name cur)) v) eqn:Ee; [reflexivity|].
    destruct (py_eq_str (ce_signed_by cur) root); [reflexivity|].
    destruct (negb (hashable (ce_signed_by cur))); [reflexivity|].
    destruct (tbl_get (ce_signed_by cur) t) as [nxt|] eqn:Eg; [|reflexivity].
    apply IH.
    + destruct Hv as [Hd Hi]. split; [apply distinct_snoc; split; assumption|].
      intros n Hin. apply in_app_or in Hin. destruct Hin as [Hin|[<-|[]]]; [auto|].
      rewrite Hc. discriminate.
    + eapply tbl_named_self; eassumption.
    + rewrite app_length. cbn [length]. lia.
Qed.

Theorem path_check_fuel root t cur k :
  tbl_named t -> tbl_get (ce_name cur) t = Some cur ->
  path_check (S (length t)) root t [] cur = path_check (S (length t) + k) root t [] cur.
Proof.
  intros Hn Hc. apply path_check_fuel_gen; try assumption.
  - split; [exact I|intros ? []].
  - cbn [length]. lia.
Qed.

(* as used by check_targets: the element is whatever the table holds for the target *)
Corollary path_check_fuel_target root t tg e k :
  tbl_named t -> tbl_get tg t = Some e ->
  path_check (S (length t)) root t [] e = path_check (S (length t) + k) root t [] e.
Proof. intros Hn Hg. apply path_check_fuel; [exact Hn|]. eapply tbl_named_self; eassumption. Qed.

(* the fuel-exhausted branch `O => Some false` is never the source of an answer either way:
   with enough fuel the answer is independent of fuel altogether *)
Corollary path_check_fuel_any root t cur f1 f2 :
  tbl_named t -> tbl_get (ce_name cur) t = Some cur ->
  S (length t) <= f1 -> S (length t) <= f2 ->
  path_check f1 root t [] cur = path_check f2 root t [] cur.
Proof.
  intros Hn Hc H1 H2.
  replace f1 with (S (length t) + (f1 - S (length t))) by lia.
  replace f2 with (S (length t) + (f2 - S (length t))) by lia.
  rewrite <- !path_check_fuel by assumption. reflexivity.
Qed.

(* ---------- A2: an accepted target has a finite, cycle-free path to the root ---------- *)

(* p = [x0; x1; ...; xn]: each x_i is certified by x_{i+1} as found in the table, x_n by the root *)
Fixpoint linked (root : str) (t : etable) (p : list celem) : Prop :=
  match p with
  | [] => False
  | x :: r =>
      match r with
      | [] => py_eq_str (ce_signed_by x) root = true
      | y :: _ => py_eq_str (ce_signed_by x) root = false /\
                  tbl_get (ce_signed_by x) t = Some y /\ linked root t r
      end
  end.

Definition names (p : list celem) : list json := map ce_name p.

Lemma linked_chain_up root t p : forall f,
  linked root t p -> length p <= f -> chain_up f root t (hd (mkElem JNull JNull KV1 None [] [] [] []) p) = Some p.
Proof.
  induction p as [|x r IH]; intros f; [intros []|].
  destruct f as [|f]; [intros _ Hl; cbn [length] in Hl; lia|].
  cbn [linked hd chain_up length]. destruct r as [|y r'].
  - intros -> _. reflexivity.
  - intros (H1 & H2 & H3) Hl. rewrite H1, H2.
    specialize (IH f H3). cbn [hd length] in IH. rewrite IH by (cbn [length] in Hl; lia).
    reflexivity.
Qed.

Lemma chain_up_linked root t : forall f cur p,
  chain_up f root t cur = Some p ->
  linked root t p /\ length p <= f /\ exists r, p = cur :: r.
Proof.
  induction f as [|f IH]; intros cur p; cbn [chain_up]; [discriminate|].
  destruct (py_eq_str (ce_signed_by cur) root) eqn:Er.
  - intro H. inversion H; subst. cbn [linked length]. repeat split; [exact Er|lia|].
    exists []. reflexivity.
  - destruct (tbl_get (ce_signed_by cur) t) as [nxt|] eqn:Eg; [|discriminate].
    destruct (chain_up f root t nxt) as [l|] eqn:Ec; [|discriminate].
    intro H. inversion H; subst. apply IH in Ec. destruct Ec as (H1 & H2 & r & ->).
    cbn [linked length] in H2 |- *. repeat split; try assumption; [lia|]. exists (nxt :: r). reflexivity.
Qed.

(* chain_up does not depend on fuel once it succeeds *)
Lemma chain_up_fuel root t f f' cur p :
  chain_up f root t cur = Some p -> length p <= f' -> chain_up f' root t cur = Some p.
Proof.
  intros H Hl. apply chain_up_linked in H. destruct H as (H1 & _ & r & ->).
  apply (linked_chain_up root t (cur :: r) f' H1 Hl).
Qed.

Lemma linked_last root t p : linked root t p ->
  exists pre lst, p = pre ++ [lst] /\ py_eq_str (ce_signed_by lst) root = true.
Proof.
  induction p as [|x r IH]; [intros []|]. cbn [linked]. destruct r as [|y r'].
  - intro H. exists [], x. split; [reflexivity|exact H].
  - intros (_ & _ & H). apply IH in H. destruct H as (pre & lst & -> & H).
    exists (x :: pre), lst. split; [reflexivity|exact H].
Qed.

(* all elements of a linked path except possibly the first are table entries *)
Lemma linked_tail_in root t (Hn : tbl_named t) x r :
  linked root t (x :: r) -> forall y, In y r -> tbl_get (ce_name y) t = Some y.
Proof.
  revert x. induction r as [|y r IH]; intros x; [intros _ ? []|].
  cbn [linked]. intros (_ & H2 & H3) z [<-|Hin].
  - eapply tbl_named_self; eassumption.
  - eapply IH; eassumption.
Qed.

Lemma path_check_chain root t : forall f v cur,
  distinct v -> path_check f root t v cur = Some true ->
  exists p, chain_up f root t cur = Some p /\ distinct (v ++ names p).
Proof.
  induction f as [|f IH]; intros v cur Hd; cbn [path_check chain_up]; [discriminate|].
  destruct (existsb (key_eqb (ce_name cur)) v) eqn:Ee; [discriminate|].
  destruct (py_eq_str (ce_signed_by cur) root) eqn:Er.
  - intros _. exists [cur]. split; [reflexivity|]. cbn [names map].
    apply distinct_snoc. split; assumption.
  - destruct (negb (hashable (ce_signed_by cur))); [discriminate|].
    destruct (tbl_get (ce_signed_by cur) t) as [nxt|] eqn:Eg; [|discriminate].
    intro H. apply IH in H; [|apply distinct_snoc; split; assumption].
    destruct H as (p & Hc & Hp). rewrite Hc. exists (cur :: p). split; [reflexivity|].
    cbn [names map]. rewrite <- app_assoc in Hp. exact Hp.
Qed.

(* the properties of an accepted path, collected *)
Record good_path (root : str) (t : etable) (e : celem) (p : list celem) : Prop := {
  gp_head : exists r, p = e :: r;                       (* starts at the target's element *)
  gp_linked : linked root t p;                          (* follows signed_by, ends under the root *)
  gp_last : exists pre lst, p = pre ++ [lst] /\ py_eq_str (ce_signed_by lst) root = true;
  gp_distinct : distinct (names p)                      (* cycle-free *)
}.

Theorem accepted_has_path root t fuel e :
  path_check fuel root t [] e = Some true ->
  exists p, chain_up fuel root t e = Some p /\ good_path root t e p /\ length p <= fuel.
Proof.
  intro H. apply path_check_chain in H; [|exact I]. destruct H as (p & Hc & Hd).
  exists p. split; [exact Hc|]. apply chain_up_linked in Hc. destruct Hc as (H1 & H2 & H3).
  split; [|exact H2]. constructor; try assumption. apply linked_last with t. exact H1.
Qed.

(* the path is no longer than the table (pigeonhole), whatever the fuel *)
Theorem accepted_path_length root t fuel e p :
  tbl_named t -> tbl_get (ce_name e) t = Some e ->
  path_check fuel root t [] e = Some true -> chain_up fuel root t e = Some p ->
  length p <= length t.
Proof.
  intros Hn He H Hc. apply accepted_has_path in H. destruct H as (p' & Hc' & Hg & _).
  rewrite Hc in Hc'. inversion Hc'; subst p'. destruct Hg as [[r ->] Hl _ Hd].
  unfold names in Hd. rewrite <- (map_length ce_name). apply pigeonhole; [exact Hd|].
  intros n Hin. apply in_map_iff in Hin. destruct Hin as (y & <- & [<-|Hin]).
  - rewrite He. discriminate.
  - rewrite (linked_tail_in root t Hn e r Hl y Hin). discriminate.
Qed.

(* ---------- parse_cert: what an accepted certificate satisfies ---------- *)

Definition elements_list (m : obj) : option (list json) :=
  match jget (s "elements") m with
  | Some (JArr items) => Some items
  | Some (JObj []) | Some (JStr []) => Some []
  | _ => None
  end.

Section Codecs.
Variable b64_norm : str -> option str.

Definition factory_of (version : Z) : json -> load_result celem :=
  if (version =? 2)%Z then elem_v2 b64_norm else elem_v1.

Lemma parse_cert_inv version m c :
  parse_cert b64_norm version m = LOk c ->
  exists targets items t,
    jget (s "targets") m = Some (JArr targets) /\ elements_list m = Some items /\
    build_table (factory_of version) items [] = LOk t /\
    check_targets (root_name version) t targets = true /\
    c = mkCert version targets t.
Proof.
  unfold parse_cert, elements_list, factory_of.
  destruct (jget (s "targets") m) as [[| | | | |targets|]|]; try discriminate;
    try (destruct (jget (s "elements") m) as [[| | | | [|]|?|[|]]|]; discriminate).
  assert (G : forall items,
    match build_table (if (version =? 2)%Z then elem_v2 b64_norm else elem_v1) items [] with
    | LOk t => if check_targets (root_name version) t targets
               then LOk (mkCert version targets t) else LError
    | LError => LError end = LOk c ->
    exists targets0 items0 t, Some (JArr targets) = Some (JArr targets0) /\
      Some items = Some items0 /\
      build_table (if (version =? 2)%Z then elem_v2 b64_norm else elem_v1) items0 [] = LOk t /\
      check_targets (root_name version) t targets0 = true /\ c = mkCert version targets0 t).
  { intros items H.
    destruct (build_table _ items []) as [t|] eqn:Eb; [|discriminate].
    destruct (check_targets (root_name version) t targets) eqn:Ec; [|discriminate].
    inversion H; subst. exists targets, items, t. repeat split; assumption. }
  destruct (jget (s "elements") m) as [[| | | | [|]|?|[|]]|]; try discriminate; apply G.
Qed.

Lemma parse_cert_intro version m targets items t :
  jget (s "targets") m = Some (JArr targets) -> elements_list m = Some items ->
  build_table (factory_of version) items [] = LOk t ->
  check_targets (root_name version) t targets = true ->
  parse_cert b64_norm version m = LOk (mkCert version targets t).
Proof.
  unfold parse_cert, elements_list, factory_of. intros -> He Hb Hc.
  destruct (jget (s "elements") m) as [[| | | | [|]|?|[|]]|]; try discriminate;
    inversion He; subst; rewrite Hb, Hc; reflexivity.
Qed.

Lemma check_targets_inv root t targets :
  check_targets root t targets = true ->
  forall tg, In tg targets ->
    hashable tg = true /\
    exists e, tbl_get tg t = Some e /\ path_check (S (length t)) root t [] e = Some true.
Proof.
  induction targets as [|tg0 r IH]; cbn [check_targets]; [intros _ ? []|].
  intro H. apply andb_true_iff in H. destruct H as [Hh H].
  destruct (tbl_get tg0 t) as [e|] eqn:Eg; [|discriminate].
  destruct (path_check (S (length t)) root t [] e) as [[|]|] eqn:Ep; try discriminate.
  intros tg [<-|Hin]; [|apply IH; assumption].
  split; [exact Hh|]. exists e. split; [exact Eg|exact Ep].
Qed.

Lemma check_targets_intro root t targets :
  (forall tg, In tg targets -> hashable tg = true /\
     exists e, tbl_get tg t = Some e /\ path_check (S (length t)) root t [] e = Some true) ->
  check_targets root t targets = true.
Proof.
  induction targets as [|tg0 r IH]; cbn [check_targets]; [reflexivity|].
  intro H. destruct (H tg0 (or_introl eq_refl)) as (Hh & e & Hg & Hp).
  rewrite Hh, Hg, Hp. cbn [andb]. apply IH. intros tg Hin. apply H. right. exact Hin.
Qed.

(* the certificate invariant established by loading *)
Record cert_ok (c : cert) : Prop := {
  ok_unique : keys_unique (c_elems c);
  ok_named : tbl_named (c_elems c);
  ok_targets : forall tg, In tg (c_targets c) ->
     hashable tg = true /\
     exists e p, tbl_get tg (c_elems c) = Some e /\
       chain_up (S (length (c_elems c))) (root_name (c_version c)) (c_elems c) e = Some p /\
       good_path (root_name (c_version c)) (c_elems c) e p /\
       length p <= length (c_elems c)
}.

Theorem parse_cert_ok version m c : parse_cert b64_norm version m = LOk c -> cert_ok c.
Proof.
  intro H. apply parse_cert_inv in H.
  destruct H as (targets & items & t & _ & _ & Hb & Hc & ->).
  apply build_table_inv in Hb. destruct Hb as (Hu & Hn & _).
  specialize (Hu I). assert (Hn' : tbl_named t) by (apply Hn; intros k e; discriminate).
  constructor; cbn [c_elems c_targets c_version]; try assumption.
  intros tg Hin. destruct (check_targets_inv _ _ _ Hc tg Hin) as (Hh & e & Hg & Hp).
  split; [exact Hh|]. destruct (accepted_has_path _ _ _ _ Hp) as (p & Hcu & Hgp & _).
  exists e, p. split; [exact Hg|]. split; [exact Hcu|]. split; [exact Hgp|].
  eapply accepted_path_length; try eassumption. eapply tbl_named_self; eassumption.
Qed.

Lemma load_cert_inv doc c :
  load_cert b64_norm doc = LOk c ->
  exists m v ver, doc = JObj m /\ jget (s "version") m = Some v /\ hashable v = true /\
    ((py_eq_int v 1 = true /\ ver = 1%Z) \/
     (py_eq_int v 1 = false /\ py_eq_int v 2 = true /\ ver = 2%Z)) /\
    parse_cert b64_norm ver m = LOk c.
Proof.
  unfold load_cert. destruct doc as [| | | | | |m]; try discriminate.
  destruct (jget (s "version") m) as [v|] eqn:Ev; [|discriminate].
  destruct (hashable v) eqn:Eh; cbn [negb]; [|discriminate].
  destruct (py_eq_int v 1) eqn:E1.
  - intro H. exists m, v, 1%Z. split; [reflexivity|]. split; [exact Ev|].
    split; [exact Eh|]. split; [|exact H]. left. split; [exact E1|reflexivity].
  - destruct (py_eq_int v 2) eqn:E2; [|discriminate].
    intro H. exists m, v, 2%Z. split; [reflexivity|]. split; [exact Ev|].
    split; [exact Eh|]. split; [|exact H]. right. split; [exact E1|split; [exact E2|reflexivity]].
Qed.

Theorem load_cert_ok doc c : load_cert b64_norm doc = LOk c -> cert_ok c.
Proof.
  intro H. apply load_cert_inv in H. destruct H as (m & v & ver & _ & _ & _ & _ & H).
  eapply parse_cert_ok. exact H.
Qed.

(* ---------- A3: validation yields a verdict for every target, whatever the signatures ---------- *)

Section Link.
Variable link_ok : celem -> certifier -> bool.

Lemma validate_down_some cf x r : exists v, validate_down link_ok cf (x :: r) = Some v.
Proof.
  revert cf x. induction r as [|y r IH]; intros cf x; cbn [validate_down].
  - destruct (negb (link_ok x cf)); eexists; reflexivity.
  - destruct (negb (link_ok x cf)); [eexists; reflexivity|]. apply IH.
Qed.

Theorem validate_total_ok c tg :
  cert_ok c -> In tg (c_targets c) -> exists v, validate_target link_ok c tg = Some v.
Proof.
  intros Hok Hin. destruct (ok_targets c Hok tg Hin) as (_ & e & p & Hg & Hc & Hgp & _).
  unfold validate_target. rewrite Hg, Hc. destruct Hgp as [_ _ (pre & lst & -> & _) _].
  rewrite rev_app_distr. cbn [rev app]. apply validate_down_some.
Qed.

Theorem validate_total version m c tg :
  parse_cert b64_norm version m = LOk c -> In tg (c_targets c) ->
  exists v, validate_target link_ok c tg = Some v.
Proof. intros H. apply validate_total_ok. eapply parse_cert_ok. exact H. Qed.

Theorem validate_total_load doc c tg :
  load_cert b64_norm doc = LOk c -> In tg (c_targets c) ->
  exists v, validate_target link_ok c tg = Some v.
Proof. intros H. apply validate_total_ok. eapply load_cert_ok. exact H. Qed.

Corollary validate_all_total doc c :
  load_cert b64_norm doc = LOk c ->
  Forall (fun r => exists v, snd r = Some v) (validate_all link_ok c).
Proof.
  intro H. unfold validate_all. apply Forall_forall. intros [tg r] Hin.
  apply in_map_iff in Hin. destruct Hin as (tg' & Heq & Hin). inversion Heq; subst.
  cbn [snd]. eapply validate_total_load; eassumption.
Qed.

End Link.
End Codecs.

(* ---------- A4: everything else is an error ---------- *)

Section Rejects.
Variable b64_norm : str -> option str.

Lemma load_rejects_non_object doc : is_jobj doc = false -> load_cert b64_norm doc = LError.
Proof. destruct doc; cbn [is_jobj]; try discriminate; reflexivity. Qed.

Lemma load_rejects_no_version m :
  jget (s "version") m = None -> load_cert b64_norm (JObj m) = LError.
Proof. intro H. unfold load_cert. rewrite H. reflexivity. Qed.

Lemma load_rejects_version m v :
  jget (s "version") m = Some v -> py_eq_int v 1 = false -> py_eq_int v 2 = false ->
  load_cert b64_norm (JObj m) = LError.
Proof.
  intros H H1 H2. unfold load_cert. rewrite H, H1, H2.
  destruct (negb (hashable v)); reflexivity.
Qed.

(* Python: 1 == 1.0 == True, 2 == 2.0 *)
Lemma load_cert_version_dispatch m v :
  jget (s "version") m = Some v ->
  (v = JInt 1 \/ v = JFloat (Some 1%Z) \/ v = JBool true ->
     load_cert b64_norm (JObj m) = parse_cert b64_norm 1 m) /\
  (v = JInt 2 \/ v = JFloat (Some 2%Z) ->
     load_cert b64_norm (JObj m) = parse_cert b64_norm 2 m).
Proof.
  intro H. unfold load_cert. rewrite H. split.
  - intros [->|[->| ->]]; reflexivity.
  - intros [->| ->]; reflexivity.
Qed.

Lemma load_cert_dispatch_iff m v :
  jget (s "version") m = Some v ->
  load_cert b64_norm (JObj m) =
    match num_of v with
    | Some 1%Z => parse_cert b64_norm 1 m
    | Some 2%Z => parse_cert b64_norm 2 m
    | _ => LError
    end.
Proof.
  intro H. unfold load_cert. rewrite H.
  destruct v as [| [|] | z | [z|] | x | x | x]; cbn [hashable negb py_eq_int num_of]; try reflexivity.
  - destruct (z =? 1)%Z eqn:E1.
    + apply Z.eqb_eq in E1. subst. reflexivity.
    + destruct (z =? 2)%Z eqn:E2.
      * apply Z.eqb_eq in E2. subst. reflexivity.
      * destruct z as [|p|p]; try reflexivity.
        destruct p as [p|[p|p|]|]; try reflexivity; discriminate.
  - destruct (z =? 1)%Z eqn:E1.
    + apply Z.eqb_eq in E1. subst. reflexivity.
    + destruct (z =? 2)%Z eqn:E2.
      * apply Z.eqb_eq in E2. subst. reflexivity.
      * destruct z as [|p|p]; try reflexivity.
        destruct p as [p|[p|p|]|]; try reflexivity; discriminate.
Qed.

Lemma parse_rejects_targets version m :
  (forall l, jget (s "targets") m <> Some (JArr l)) -> parse_cert b64_norm version m = LError.
Proof.
  intro H. unfold parse_cert.
  destruct (jget (s "targets") m) as [[| | | | |l|]|]; try reflexivity.
  exfalso. apply (H l). reflexivity.
Qed.

Lemma parse_rejects_elements version m :
  elements_list m = None -> parse_cert b64_norm version m = LError.
Proof.
  unfold parse_cert, elements_list. intro H.
  destruct (jget (s "targets") m) as [[| | | | |l|]|];
    destruct (jget (s "elements") m) as [[| | | | [|]|?|[|]]|]; try reflexivity; discriminate.
Qed.

Lemma parse_cert_unfold version m targets items :
  jget (s "targets") m = Some (JArr targets) -> elements_list m = Some items ->
  parse_cert b64_norm version m =
    match build_table (factory_of b64_norm version) items [] with
    | LError => LError
    | LOk t => if check_targets (root_name version) t targets
               then LOk (mkCert version targets t) else LError
    end.
Proof.
  unfold parse_cert, elements_list, factory_of. intros -> He.
  destruct (jget (s "elements") m) as [[| | | | [|]|?|[|]]|]; try discriminate;
    inversion He; subst; reflexivity.
Qed.

Lemma parse_rejects_element version m targets items it :
  jget (s "targets") m = Some (JArr targets) -> elements_list m = Some items ->
  In it items -> factory_of b64_norm version it = LError ->
  parse_cert b64_norm version m = LError.
Proof.
  intros Ht He Hin Hf. rewrite (parse_cert_unfold _ _ _ _ Ht He).
  rewrite (build_table_error _ _ it [] Hin Hf). reflexivity.
Qed.

Lemma parse_rejects_unhashable_name version m targets items it e :
  jget (s "targets") m = Some (JArr targets) -> elements_list m = Some items ->
  In it items -> factory_of b64_norm version it = LOk e -> hashable (ce_name e) = false ->
  parse_cert b64_norm version m = LError.
Proof.
  intros Ht He Hin Hf Hh. rewrite (parse_cert_unfold _ _ _ _ Ht He).
  rewrite (build_table_unhashable _ _ it e [] Hin Hf Hh). reflexivity.
Qed.

Lemma check_targets_false root t targets tg :
  In tg targets ->
  (hashable tg = false \/ tbl_get tg t = None \/
   exists e, tbl_get tg t = Some e /\ path_check (S (length t)) root t [] e <> Some true) ->
  check_targets root t targets = false.
Proof.
  intros Hin H. destruct (check_targets root t targets) eqn:E; [|reflexivity]. exfalso.
  destruct (check_targets_inv _ _ _ E tg Hin) as (Hh & e & Hg & Hp).
  destruct H as [H|[H|(e' & H1 & H2)]]; try congruence.
Qed.

(* a target that is not an element, or an element without a path to the root *)
Lemma parse_rejects_target version m targets items t tg :
  jget (s "targets") m = Some (JArr targets) -> elements_list m = Some items ->
  build_table (factory_of b64_norm version) items [] = LOk t ->
  In tg targets ->
  (hashable tg = false \/ tbl_get tg t = None \/
   exists e, tbl_get tg t = Some e /\
             path_check (S (length t)) (root_name version) t [] e <> Some true) ->
  parse_cert b64_norm version m = LError.
Proof.
  intros Ht He Hb Hin H. rewrite (parse_cert_unfold _ _ _ _ Ht He), Hb.
  rewrite (check_targets_false _ _ _ tg Hin H). reflexivity.
Qed.

(* when the walk does not reach the root: some element on the way is signed by a name
   that is not in the table (dangling), is unhashable, or was already visited (cycle) *)
Inductive no_path (root : str) (t : etable) : list json -> celem -> Prop :=
| NP_cycle v cur : existsb (key_eqb (ce_name cur)) v = true -> no_path root t v cur
| NP_unhashable v cur : py_eq_str (ce_signed_by cur) root = false ->
    hashable (ce_signed_by cur) = false -> no_path root t v cur
| NP_dangling v cur : py_eq_str (ce_signed_by cur) root = false ->
    tbl_get (ce_signed_by cur) t = None -> no_path root t v cur
| NP_step v cur nxt : py_eq_str (ce_signed_by cur) root = false ->
    tbl_get (ce_signed_by cur) t = Some nxt -> no_path root t (v ++ [ce_name cur]) nxt ->
    no_path root t v cur.

Lemma path_check_not_true root t (Hn : tbl_named t) : forall f v cur,
  visited_ok t v -> tbl_get (ce_name cur) t = Some cur -> S (length t) <= f + length v ->
  path_check f root t v cur <> Some true -> no_path root t v cur.
Proof.
  induction f as [|f IH]; intros v cur Hv Hc Hf.
  - apply visited_ok_length in Hv. lia.
  - cbn [path_check].
    destruct (existsb (key_eqb (ce_name cur)) v) eqn:Ee; [intros _; apply NP_cycle; exact Ee|].
    destruct (py_eq_str (ce_signed_by cur) root) eqn:Er; [intro H; exfalso; apply H; reflexivity|].
    destruct (hashable (ce_signed_by cur)) eqn:Eh; cbn [negb];
      [|intros _; apply NP_unhashable; assumption].
    destruct (tbl_get (ce_signed_by cur) t) as [nxt|] eqn:Eg;
      [|intros _; apply NP_dangling; assumption].
    intro H. eapply NP_step; try eassumption. apply IH; try assumption.
    + destruct Hv as [Hd Hi]. split; [apply distinct_snoc; split; assumption|].
      intros n Hin. apply in_app_or in Hin. destruct Hin as [Hin|[<-|[]]]; [auto|].
      rewrite Hc. discriminate.
    + eapply tbl_named_self; eassumption.
    + rewrite app_length. cbn [length]. lia.
Qed.

Lemma no_path_check root t : forall f v cur,
  no_path root t v cur -> path_check f root t v cur <> Some true.
Proof.
  intros f v cur H. revert f. induction H; intros [|f]; cbn [path_check]; try discriminate.
  - rewrite H. discriminate.
  - rewrite H, H0. destruct (existsb _ v); discriminate.
  - rewrite H, H0. destruct (existsb _ v); [discriminate|].
    destruct (negb _); discriminate.
  - rewrite H, H0. destruct (existsb _ v); [discriminate|].
    destruct (negb _); [discriminate|]. apply IHno_path.
Qed.

(* load_cert = LOk exactly in the documented case *)
Theorem parse_cert_ok_iff version m :
  (exists c, parse_cert b64_norm version m = LOk c) <->
  exists targets items t,
    jget (s "targets") m = Some (JArr targets) /\ elements_list m = Some items /\
    build_table (factory_of b64_norm version) items [] = LOk t /\
    forall tg, In tg targets -> hashable tg = true /\
      exists e, tbl_get tg t = Some e /\ ~ no_path (root_name version) t [] e.
Proof.
  split.
  - intros [c H]. apply parse_cert_inv in H.
    destruct H as (targets & items & t & Ht & He & Hb & Hc & ->).
    exists targets, items, t. repeat split; try assumption.
    + apply (check_targets_inv _ _ _ Hc tg H).
    + destruct (check_targets_inv _ _ _ Hc tg H) as (_ & e & Hg & Hp).
      exists e. split; [exact Hg|]. intro Hnp. apply (no_path_check _ _ _ _ _ Hnp Hp).
  - intros (targets & items & t & Ht & He & Hb & H).
    exists (mkCert version targets t). apply parse_cert_intro with items; try assumption.
    apply check_targets_intro. intros tg Hin. destruct (H tg Hin) as (Hh & e & Hg & Hnp).
    split; [exact Hh|]. exists e. split; [exact Hg|].
    destruct (build_table_inv _ _ _ _ Hb) as (_ & Hn & _).
    assert (Hn' : tbl_named t) by (apply Hn; intros k e'; discriminate).
    destruct (path_check (S (length t)) (root_name version) t [] e) as [[|]|] eqn:Ep;
      [reflexivity| |]; exfalso; apply Hnp;
      apply (path_check_not_true _ _ Hn' (S (length t))); try (rewrite Ep; discriminate);
      try (split; [exact I|intros ? []]); try (eapply tbl_named_self; eassumption);
      cbn [length]; lia.
Qed.

End Rejects.

(* ---------- B: chain logic (C06), for every signature oracle ---------- *)

Section Chain.
Variable link_ok : celem -> certifier -> bool.

(* every element verifies against its predecessor, the first against cf *)
Fixpoint links_hold (cf : certifier) (p : list celem) : Prop :=
  match p with
  | [] => True
  | x :: r => link_ok x cf = true /\ links_hold (ByElem x) r
  end.

(* the certifier of whatever comes after p *)
Fixpoint cf_after (cf : certifier) (p : list celem) : certifier :=
  match p with [] => cf | x :: r => cf_after (ByElem x) r end.

Lemma links_hold_app cf a b :
  links_hold cf (a ++ b) <-> links_hold cf a /\ links_hold (cf_after cf a) b.
Proof.
  revert cf. induction a as [|x a IH]; intro cf; cbn [app links_hold cf_after]; [tauto|].
  rewrite IH. tauto.
Qed.

(* B6 *)
Theorem valid_iff_all_links cf path e :
  validate_down link_ok cf path = Some (Valid e) <->
  (exists pre, path = pre ++ [e]) /\ links_hold cf path.
Proof.
  revert cf. induction path as [|x r IH]; intro cf; cbn [validate_down links_hold].
  - split; [discriminate|]. intros [[pre H] _]. destruct pre; discriminate.
  - destruct (link_ok x cf) eqn:El; cbn [negb].
    + destruct r as [|y r'].
      * split.
        -- intro H. inversion H; subst. split; [exists []; reflexivity|split; [reflexivity|exact I]].
        -- intros [[pre H] _]. destruct pre as [|z [|? ?]]; inversion H; subst; reflexivity.
      * rewrite IH. split.
        -- intros [[pre ->] H]. split; [exists (x :: pre); reflexivity|split; [reflexivity|exact H]].
        -- intros [[pre H] [_ H']]. split; [|exact H']. destruct pre as [|z pre]; [discriminate|].
           inversion H. exists pre. assumption.
    + split; [discriminate|]. intros [_ [H _]]. discriminate.
Qed.

(* B7 *)
Theorem first_failure_reported cf path n :
  validate_down link_ok cf path = Some (Invalid n) <->
  exists pre x post, path = pre ++ x :: post /\ links_hold cf pre /\
                     link_ok x (cf_after cf pre) = false /\ n = ce_name x.
Proof.
  revert cf. induction path as [|x r IH]; intro cf; cbn [validate_down].
  - split; [discriminate|]. intros (pre & y & post & H & _). destruct pre; discriminate.
  - destruct (link_ok x cf) eqn:El; cbn [negb].
    + assert (G : validate_down link_ok (ByElem x) r = Some (Invalid n) <->
                  exists pre x0 post, x :: r = pre ++ x0 :: post /\ links_hold cf pre /\
                     link_ok x0 (cf_after cf pre) = false /\ n = ce_name x0).
      { rewrite IH. split.
        - intros (pre & y & post & -> & H1 & H2 & H3). exists (x :: pre), y, post.
          cbn [app links_hold cf_after]. repeat split; assumption.
        - intros (pre & y & post & H & H1 & H2 & H3). destruct pre as [|z pre].
          + inversion H; subst. cbn [cf_after] in H2. congruence.
          + inversion H; subst. cbn [links_hold cf_after] in H1, H2.
            exists pre, y, post. repeat split; tauto. }
      destruct r as [|y r']; [|exact G].
      split; [discriminate|]. intro H. apply G in H. cbn [validate_down] in H. discriminate.
    + split.
      * intro H. inversion H; subst. exists [], x, r. cbn [app links_hold cf_after].
        repeat split; assumption.
      * intros (pre & y & post & H & H1 & H2 & H3). destruct pre as [|z pre].
        -- inversion H; subst. reflexivity.
        -- inversion H; subst. cbn [links_hold] in H1. destruct H1 as [H1 _]. congruence.
Qed.

(* the verdict is a function of the path: exactly one of the two cases *)
Corollary verdict_dichotomy cf x r :
  (links_hold cf (x :: r) /\ validate_down link_ok cf (x :: r) = Some (Valid (last r x))) \/
  (exists n, validate_down link_ok cf (x :: r) = Some (Invalid n)).
Proof.
  destruct (validate_down_some link_ok cf x r) as [[e|n] H].
  - left. pose proof H as H'. apply valid_iff_all_links in H'. destruct H' as [[pre Hp] Hl].
    split; [exact Hl|]. rewrite H. do 2 f_equal.
    assert (Hlast : last (x :: r) x = e) by (rewrite Hp; apply last_last).
    destruct r as [|y r']; [cbn in Hlast |- *; congruence|]. symmetry. exact Hlast.
  - right. exists n. exact H.
Qed.

(* the path validate_target walks, root side first *)
Definition target_path (c : cert) (tg : json) : option (list celem) :=
  match tbl_get tg (c_elems c) with
  | None => None
  | Some e =>
      match chain_up (S (length (c_elems c))) (root_name (c_version c)) (c_elems c) e with
      | None => None
      | Some up => Some (rev up)
      end
  end.

Lemma validate_target_path c tg :
  validate_target link_ok c tg =
  match target_path c tg with Some p => validate_down link_ok ByRoot p | None => None end.
Proof.
  unfold validate_target, target_path. destruct (tbl_get tg (c_elems c)); [|reflexivity].
  destruct (chain_up _ _ _ _); reflexivity.
Qed.

Lemma target_path_last c tg p :
  target_path c tg = Some p -> exists e pre, tbl_get tg (c_elems c) = Some e /\ p = pre ++ [e].
Proof.
  unfold target_path. destruct (tbl_get tg (c_elems c)) as [e|]; [|discriminate].
  destruct (chain_up _ _ _ _) as [up|] eqn:Ec; [|discriminate].
  intro H. inversion H; subst. apply chain_up_linked in Ec. destruct Ec as (_ & _ & r & ->).
  exists e, (rev r). split; reflexivity.
Qed.

(* B8: a Valid verdict carries the target's own element, hence the target's own signed message *)
Theorem valid_value_is_target_message c tg e :
  validate_target link_ok c tg = Some (Valid e) -> tbl_get tg (c_elems c) = Some e.
Proof.
  rewrite validate_target_path. destruct (target_path c tg) as [p|] eqn:Ep; [|discriminate].
  intro H. apply valid_iff_all_links in H. destruct H as [[pre ->] _].
  apply target_path_last in Ep. destruct Ep as (e' & pre' & Hg & Hp).
  apply app_inj_tail in Hp. destruct Hp as [_ <-]. exact Hg.
Qed.

(* B6/B7/B8 for the whole certificate *)
Theorem target_valid_iff c tg e :
  validate_target link_ok c tg = Some (Valid e) <->
  exists p, target_path c tg = Some p /\ tbl_get tg (c_elems c) = Some e /\
            links_hold ByRoot p.
Proof.
  split.
  - intro H. pose proof (valid_value_is_target_message _ _ _ H) as Hg.
    rewrite validate_target_path in H. destruct (target_path c tg) as [p|]; [|discriminate].
    exists p. split; [reflexivity|]. split; [exact Hg|]. apply valid_iff_all_links in H. tauto.
  - intros (p & Hp & Hg & Hl). rewrite validate_target_path, Hp.
    apply valid_iff_all_links. split; [|exact Hl].
    apply target_path_last in Hp. destruct Hp as (e' & pre & Hg' & ->).
    rewrite Hg in Hg'. inversion Hg'; subst. exists pre. reflexivity.
Qed.

Theorem target_invalid_iff c tg n :
  validate_target link_ok c tg = Some (Invalid n) <->
  exists p pre x post, target_path c tg = Some p /\ p = pre ++ x :: post /\
    links_hold ByRoot pre /\ link_ok x (cf_after ByRoot pre) = false /\ n = ce_name x.
Proof.
  rewrite validate_target_path. split.
  - destruct (target_path c tg) as [p|]; [|discriminate]. intro H.
    apply first_failure_reported in H. destruct H as (pre & x & post & H).
    exists p, pre, x, post. split; [reflexivity|exact H].
  - intros (p & pre & x & post & -> & H). apply first_failure_reported.
    exists pre, x, post. exact H.
Qed.

(* B9: the verdict for a target depends only on the elements on its own path *)
Lemma linked_agree root t1 t2 p :
  tbl_named t1 -> linked root t1 p ->
  (forall x, In x p -> tbl_get (ce_name x) t2 = tbl_get (ce_name x) t1) ->
  linked root t2 p.
Proof.
  intros Hn. induction p as [|x r IH]; [intros []|].
  cbn [linked]. destruct r as [|y r']; [intros H _; exact H|].
  intros (H1 & H2 & H3) Ha. split; [exact H1|]. split.
  - pose proof (Hn _ _ H2) as Hk. rewrite (tbl_get_cong _ _ t2 Hk).
    rewrite Ha by (right; left; reflexivity). rewrite <- (tbl_get_cong _ _ t1 Hk). exact H2.
  - apply IH; [exact H3|]. intros z Hz. apply Ha. right. exact Hz.
Qed.

Theorem targets_independent c1 c2 tg p :
  cert_ok c1 -> In tg (c_targets c1) ->
  root_name (c_version c2) = root_name (c_version c1) ->
  target_path c1 tg = Some p ->
  (forall x, In x p -> tbl_get (ce_name x) (c_elems c2) = tbl_get (ce_name x) (c_elems c1)) ->
  target_path c2 tg = Some p /\
  validate_target link_ok c2 tg = validate_target link_ok c1 tg.
Proof.
  intros Hok Hin Hr Hp Ha.
  assert (G : target_path c2 tg = Some p);
    [|split; [exact G|rewrite !validate_target_path, G, Hp; reflexivity]].
  destruct (ok_targets _ Hok tg Hin) as (_ & e & up & Hg & Hc & [[r ->] Hl _ Hd] & Hlen).
  unfold target_path in Hp. rewrite Hg, Hc in Hp. inversion Hp; subst p. clear Hp.
  assert (Ha' : forall x, In x (e :: r) ->
            tbl_get (ce_name x) (c_elems c2) = tbl_get (ce_name x) (c_elems c1)).
  { intros x Hx. apply Ha. apply in_rev in Hx. exact Hx. }
  pose proof (ok_named _ Hok) as Hn.
  assert (Hself : forall x, In x (e :: r) -> tbl_get (ce_name x) (c_elems c1) = Some x).
  { intros x [<-|Hx]; [eapply tbl_named_self; eassumption|].
    eapply linked_tail_in; eassumption. }
  unfold target_path.
  assert (Hg2 : tbl_get tg (c_elems c2) = Some e).
  { pose proof (Hn _ _ Hg) as Hk. rewrite (tbl_get_cong _ _ _ Hk).
    rewrite Ha' by (left; reflexivity). apply Hself. left. reflexivity. }
  rewrite Hg2, Hr.
  assert (Hl2 : linked (root_name (c_version c1)) (c_elems c2) (e :: r))
    by (eapply linked_agree; eassumption).
  pose proof (linked_chain_up _ _ (e :: r) (S (length (c_elems c2))) Hl2) as Hcu.
  cbn [hd] in Hcu. rewrite Hcu; [reflexivity|].
  enough (length (e :: r) <= length (c_elems c2)) by lia.
  rewrite <- (map_length ce_name). apply pigeonhole; [exact Hd|].
  intros n Hn'. apply in_map_iff in Hn'. destruct Hn' as (x & <- & Hx).
  rewrite Ha' by exact Hx. rewrite Hself by exact Hx. discriminate.
Qed.

End Chain.

(* ---------- A5: save and load again (version 1) ---------- *)

Section RoundTrip.
Variable b64_norm : str -> option str.

(* what elem_v1 produces *)
Record v1_elem (e : celem) : Prop := {
  v1_kind : ce_kind e = KV1;
  v1_name : exists x, ce_name e = JStr x /\ str_in x CERT_V1_VALID_NAMES = true;
  v1_tweak : match ce_tweak e with Some t => is_nonempty_hex_string t = true | None => True end;
  v1_msg : is_nonempty_hex_string (ce_message e) = true;
  v1_sig : is_nonempty_hex_string (ce_signature e) = true;
  v1_x1 : ce_extra1 e = [];
  v1_x2 : ce_extra2 e = []
}.

Lemma nonempty_hex_json_some j x :
  nonempty_hex_json j = Some x -> j = Some (JStr x) /\ is_nonempty_hex_string x = true.
Proof.
  unfold nonempty_hex_json. destruct j as [[| | | |y| |]|]; try discriminate.
  destruct (is_nonempty_hex_string y) eqn:E; [|discriminate].
  intro H. inversion H; subst. split; [reflexivity|exact E].
Qed.

Lemma elem_v1_inv it e : elem_v1 it = LOk e -> v1_elem e.
Proof.
  unfold elem_v1. destruct it as [| | | | | |m]; try discriminate.
  destruct (jget (s "name") m) as [nm|]; [|discriminate].
  destruct (json_in_strs nm CERT_V1_VALID_NAMES) eqn:En; cbn [negb]; [|discriminate].
  destruct (jget (s "signed_by") m) as [sb|]; [|discriminate].
  set (tw := match jget (s "tweak") m with
             | None => Some None
             | Some t => match nonempty_hex_json (Some t) with
                         | Some x => Some (Some x) | None => None end
             end).
  assert (Htw : forall tweak, tw = Some tweak ->
            match tweak with Some t => is_nonempty_hex_string t = true | None => True end).
  { subst tw. intros tweak. destruct (jget (s "tweak") m) as [t|].
    - destruct (nonempty_hex_json (Some t)) as [x|] eqn:Ex; [|discriminate].
      intro H. inversion H; subst. apply nonempty_hex_json_some in Ex. tauto.
    - intro H. inversion H; subst. exact I. }
  destruct tw as [tweak|]; [|discriminate]. specialize (Htw tweak eq_refl).
  destruct (nonempty_hex_json (jget (s "message") m)) as [msg|] eqn:Em; [|discriminate].
  destruct (nonempty_hex_json (jget (s "signature") m)) as [sg|] eqn:Es; [|discriminate].
  intro H. inversion H; subst. apply nonempty_hex_json_some in Em, Es.
  constructor; cbn [ce_kind ce_name ce_tweak ce_message ce_signature ce_extra1 ce_extra2];
    try tauto; try reflexivity.
  destruct nm as [| | | |x| |]; try discriminate. exists x. split; [reflexivity|exact En].
Qed.

Lemma elem_v1_roundtrip e :
  v1_elem e -> exists j, elem_to_json e = Some j /\ elem_v1 j = LOk e.
Proof.
  intros [Hk (x & Hn & Hx) Ht Hm Hs H1 H2].
  destruct e as [nm sb kd tw msg sg x1 x2].
  cbn [ce_kind ce_name ce_tweak ce_message ce_signature ce_extra1 ce_extra2] in *. subst.
  unfold elem_to_json. cbn [ce_kind ce_name ce_tweak ce_message ce_signature ce_signed_by].
  eexists. split; [reflexivity|].
  destruct tw as [t|]; cbn [app]; unfold elem_v1;
    cbn -[str_in is_nonempty_hex_string CERT_V1_VALID_NAMES];
    rewrite Hx; cbn [negb]; rewrite ?Ht, Hm, Hs; reflexivity.
Qed.

(* version-1 tables: keyed by the very name, every element as elem_v1 makes them *)
Definition tbl_v1 (t : etable) : Prop :=
  Forall (fun kv => fst kv = ce_name (snd kv) /\ v1_elem (snd kv)) t.

Lemma tbl_v1_set e t : v1_elem e -> tbl_v1 t -> tbl_v1 (tbl_set (ce_name e) e t).
Proof.
  intros He. induction t as [|[k e'] r IH]; cbn [tbl_set]; intro H.
  - constructor; [|constructor]. split; [reflexivity|exact He].
  - apply Forall_cons_iff in H. destruct H as [[Hk Hv] Hr]. cbn [fst snd] in Hk, Hv.
    destruct (key_eqb (ce_name e) k) eqn:E.
    + constructor; [|exact Hr]. split; [|exact He]. cbn [fst snd].
      destruct (v1_name _ He) as (x & Hx & _). destruct (v1_name _ Hv) as (y & Hy & _).
      rewrite Hk, Hx, Hy in E. cbn [key_eqb] in E. apply cstr_eqb_eq in E. congruence.
    + constructor; [split; assumption|]. apply IH. exact Hr.
Qed.

Lemma build_table_v1 items : forall t t',
  build_table elem_v1 items t = LOk t' -> tbl_v1 t -> tbl_v1 t'.
Proof.
  induction items as [|it r IH]; intros t t'; cbn [build_table].
  - intro H. inversion H; subst. auto.
  - destruct (elem_v1 it) as [e|] eqn:Ef; [|discriminate].
    destruct (hashable (ce_name e)); [|discriminate].
    intros H Ht. eapply IH; [exact H|]. apply tbl_v1_set; [|exact Ht].
    eapply elem_v1_inv. exact Ef.
Qed.

Lemma keys_unique_app_l a b : keys_unique (a ++ b) ->
  forall k1 e1 k2 e2, In (k1, e1) a -> In (k2, e2) b -> key_eqb k1 k2 = false.
Proof.
  induction a as [|[k e] a IH]; cbn [app keys_unique]; [intros _ ? ? ? ? []|].
  intros [H1 H2] k1 e1 k2 e2 [Hin|Hin] Hb.
  - inversion Hin; subst. eapply H1. apply in_or_app. right. exact Hb.
  - eapply IH; eassumption.
Qed.

Lemma rebuild_v1 : forall t2 t1 js,
  keys_unique (t1 ++ t2) -> tbl_v1 t2 ->
  all_some (map (fun kv => elem_to_json (snd kv)) t2) = Some js ->
  build_table elem_v1 js t1 = LOk (t1 ++ t2).
Proof.
  induction t2 as [|[k e] r IH]; intros t1 js Hu Hv; cbn [map all_some snd].
  - intro H. inversion H; subst. rewrite app_nil_r. reflexivity.
  - apply Forall_cons_iff in Hv. destruct Hv as [[Hk He] Hr]. cbn [fst snd] in Hk, He. subst k.
    destruct (elem_v1_roundtrip e He) as (j & Hj & Hl). rewrite Hj.
    destruct (all_some (map (fun kv => elem_to_json (snd kv)) r)) as [js'|] eqn:Ea;
      [|discriminate].
    intro H. inversion H; subst. cbn [build_table]. rewrite Hl.
    destruct (v1_name _ He) as (x & Hx & _). rewrite Hx at 1. cbn [hashable].
    rewrite tbl_set_fresh.
    + rewrite (IH (t1 ++ [(ce_name e, e)]) js'); try assumption; try reflexivity.
      * rewrite <- app_assoc. reflexivity.
      * rewrite <- app_assoc. exact Hu.
    + intros k' e' Hin. rewrite key_eqb_sym.
      eapply (keys_unique_app_l _ _ Hu); [exact Hin|left; reflexivity].
Qed.

Lemma all_some_v1 t : tbl_v1 t ->
  exists js, all_some (map (fun kv => elem_to_json (snd kv)) t) = Some js.
Proof.
  induction t as [|[k e] r IH]; intro H; cbn [map all_some snd]; [eexists; reflexivity|].
  apply Forall_cons_iff in H. destruct H as [[_ He] Hr]. cbn [snd] in He.
  destruct (elem_v1_roundtrip e He) as (j & Hj & _). rewrite Hj.
  destruct (IH Hr) as [js Hjs]. rewrite Hjs. eexists; reflexivity.
Qed.

(* saving a loaded version-1 certificate always succeeds, and loading the saved document
   gives back the very same certificate: same targets, same table, hence the same verdicts
   and values for every signature oracle *)
Theorem v1_roundtrip m c :
  parse_cert b64_norm 1 m = LOk c ->
  exists j, cert_to_json c = Some j /\ load_cert b64_norm j = LOk c.
Proof.
  intro H. apply parse_cert_inv in H.
  destruct H as (targets & items & t & _ & _ & Hb & Hc & ->).
  change (factory_of b64_norm 1) with elem_v1 in Hb.
  pose proof (build_table_v1 _ _ _ Hb (Forall_nil _)) as Hv.
  destruct (build_table_inv _ _ _ _ Hb) as (Hu & _ & _). specialize (Hu I).
  destruct (all_some_v1 t Hv) as [js Hjs].
  unfold cert_to_json. cbn [c_elems c_version c_targets]. rewrite Hjs.
  eexists. split; [reflexivity|].
  pose proof (rebuild_v1 t [] js Hu Hv Hjs) as Hr. cbn [app] in Hr.
  unfold load_cert.
  change (jget (s "version") _) with (Some (JInt 1)). cbn [hashable negb py_eq_int Z.eqb Pos.eqb].
  apply parse_cert_intro with js; try assumption. reflexivity. reflexivity.
Qed.

Corollary v1_roundtrip_verdicts link m c :
  parse_cert b64_norm 1 m = LOk c ->
  exists j c', cert_to_json c = Some j /\ load_cert b64_norm j = LOk c' /\
    c_targets c' = c_targets c /\ validate_all link c' = validate_all link c.
Proof.
  intro H. destruct (v1_roundtrip m c H) as (j & H1 & H2). exists j, c. repeat split; assumption.
Qed.

End RoundTrip.

(* ---------- saving never fails (since fix 68123f6 to_dict writes back what was loaded) ---------- *)

Lemma all_some_none_iff {A} (l : list (option A)) : all_some l = None <-> In None l.
Proof.
  induction l as [|[a|] r IH]; cbn [all_some In].
  - split; [discriminate|intros []].
  - destruct (all_some r); split; try discriminate.
    + intros [H|H]; [discriminate|]. apply IH in H. discriminate.
    + intros _. right. apply IH. reflexivity.
    + reflexivity.
  - split; [intros _; left; reflexivity|reflexivity].
Qed.

Lemma elem_to_json_total e : exists j, elem_to_json e = Some j.
Proof. unfold elem_to_json. destruct (ce_kind e); eexists; reflexivity. Qed.

(* to_dict succeeds for every certificate, version 1 or 2, loaded or built in memory *)
Theorem cert_to_json_total c : exists j, cert_to_json c = Some j.
Proof.
  unfold cert_to_json.
  destruct (all_some (map (fun kv => elem_to_json (snd kv)) (c_elems c))) as [js|] eqn:E.
  - eexists; reflexivity.
  - exfalso. apply all_some_none_iff in E. apply in_map_iff in E.
    destruct E as ([k e] & He & _). destruct (elem_to_json_total e) as [j Hj]. cbn [snd] in He.
    congruence.
Qed.

(* the former characterisation of failing saves (short attestation-key message, undecodable
   key): there is no such case any more *)
Corollary cert_to_json_v2_none_iff c : cert_to_json c = None <-> False.
Proof.
  split; [|intros []]. intro H. destruct (cert_to_json_total c) as [j Hj]. congruence.
Qed.

(* ---------- examples ---------- *)

Module Examples.

Definition no_b64 (x : str) : option str := Some x.

Definition el (name signer msg : string) : json :=
  JObj [(s "name", JStr (s name)); (s "message", JStr (s msg));
        (s "signature", JStr (s "3044")); (s "signed_by", JStr (s signer))].

Definition doc (els : list json) (targets : list string) : json :=
  JObj [(s "version", JInt 1); (s "targets", JArr (map (fun x => JStr (s x)) targets));
        (s "elements", JArr els)].

(* device <- attestation <- {ui, signer} *)
Definition chain4 : json :=
  doc [el "attestation" "device" "aa01"; el "ui" "attestation" "bb02";
       el "device" "root" "cc03"; el "signer" "attestation" "dd04"] ["ui"; "signer"].

(* a signature oracle: everything verifies except elements named in `bad` *)
Definition link_except (bad : list string) (e : celem) (cf : certifier) : bool :=
  negb (existsb (fun b => key_eqb (ce_name e) (JStr (s b))) bad).

Definition summary (v : option verdict) : option (bool * json * str) :=
  match v with
  | Some (Valid e) => Some (true, ce_name e, ce_message e)
  | Some (Invalid n) => Some (false, n, [])
  | None => None
  end.

Definition run (bad : list string) (d : json) : option (list (json * option (bool * json * str))) :=
  match load_cert no_b64 d with
  | LOk c => Some (map (fun r => (fst r, summary (snd r))) (validate_all (link_except bad) c))
  | LError => None
  end.

Example chain4_all_valid :
  run [] chain4 = Some [(JStr (s "ui"), Some (true, JStr (s "ui"), s "bb02"));
                        (JStr (s "signer"), Some (true, JStr (s "signer"), s "dd04"))].
Proof. vm_compute. reflexivity. Qed.

(* the first failing element from the root is the one named, for both targets *)
Example chain4_attestation_bad :
  run ["attestation"; "ui"] chain4 =
    Some [(JStr (s "ui"), Some (false, JStr (s "attestation"), []));
          (JStr (s "signer"), Some (false, JStr (s "attestation"), []))].
Proof. vm_compute. reflexivity. Qed.

(* targets are independent: a bad ui does not affect signer *)
Example chain4_ui_bad :
  run ["ui"] chain4 =
    Some [(JStr (s "ui"), Some (false, JStr (s "ui"), []));
          (JStr (s "signer"), Some (true, JStr (s "signer"), s "dd04"))].
Proof. vm_compute. reflexivity. Qed.

Example chain4_path :
  match load_cert no_b64 chain4 with
  | LOk c => option_map (map ce_name) (target_path c (JStr (s "ui")))
  | LError => None
  end = Some [JStr (s "device"); JStr (s "attestation"); JStr (s "ui")].
Proof. vm_compute. reflexivity. Qed.

Example self_signed_rejected :
  load_cert no_b64 (doc [el "device" "device" "aa"] ["device"]) = LError.
Proof. vm_compute. reflexivity. Qed.

Example mutual_signing_rejected :
  load_cert no_b64 (doc [el "device" "attestation" "aa"; el "attestation" "device" "bb"]
                        ["device"]) = LError.
Proof. vm_compute. reflexivity. Qed.

Example dangling_signer_rejected :
  load_cert no_b64 (doc [el "device" "root" "aa"; el "ui" "attestation" "bb"] ["ui"]) = LError.
Proof. vm_compute. reflexivity. Qed.

Example missing_target_rejected :
  load_cert no_b64 (doc [el "device" "root" "aa"] ["ui"]) = LError.
Proof. vm_compute. reflexivity. Qed.

(* a cycle that no target reaches is not an error (only targets are walked) *)
Example unreachable_cycle_accepted :
  run [] (doc [el "device" "root" "aa"; el "ui" "signer" "bb"; el "signer" "ui" "cc"] ["device"])
  = Some [(JStr (s "device"), Some (true, JStr (s "device"), s "aa"))].
Proof. vm_compute. reflexivity. Qed.

(* duplicate names: the last element wins, at the first one's position *)
Example duplicate_last_wins :
  run [] (doc [el "device" "ui" "aa"; el "ui" "root" "bb"; el "device" "root" "cc"] ["device"])
  = Some [(JStr (s "device"), Some (true, JStr (s "device"), s "cc"))].
Proof. vm_compute. reflexivity. Qed.

Example version_forms :
  let d v := JObj [(s "version", v); (s "targets", JArr []); (s "elements", JArr [])] in
  load_cert no_b64 (d (JFloat (Some 1%Z))) = LOk (mkCert 1 [] []) /\
  load_cert no_b64 (d (JBool true)) = LOk (mkCert 1 [] []) /\
  load_cert no_b64 (d (JFloat (Some 2%Z))) = LOk (mkCert 2 [] []) /\
  load_cert no_b64 (d (JInt 3)) = LError /\ load_cert no_b64 (d (JStr (s "1"))) = LError /\
  load_cert no_b64 (d (JFloat None)) = LError /\ load_cert no_b64 (d (JBool false)) = LError.
Proof. vm_compute. repeat split; reflexivity. Qed.

Example chain4_roundtrip :
  match load_cert no_b64 chain4 with
  | LOk c => match cert_to_json c with
             | Some j => match load_cert no_b64 j with
                         | LOk c' => Some (list_eqb json_eqb (c_targets c) (c_targets c') &&
                                           Nat.eqb (length (c_elems c)) (length (c_elems c')))
                         | LError => None end
             | None => None end
  | LError => None
  end = Some true.
Proof. vm_compute. reflexivity. Qed.

(* the facts about the generated tables that the statements above rely on *)
Example tables_facts :
  CERT_V1_ROOT = s "root" /\ CERT_V2_ROOT = s "sgx_root" /\
  CERT_V1_VALID_NAMES = [s "device"; s "attestation"; s "ui"; s "signer"] /\
  CERT_V2_TYPES = [s "sgx_quote"; s "sgx_attestation_key"; s "x509_pem"].
Proof. vm_compute. repeat split; reflexivity. Qed.

End Examples.

(* ---------- A5, version 2: save and load again ---------- *)

Open Scope N_scope.

Lemma c_hexval_lt c h : hexval c = Some h -> h < 16.
Proof.
  unfold hexval.
  destruct ((48 <=? c) && (c <=? 57)) eqn:E1; [intro H; inversion H; lia|].
  destruct ((97 <=? c) && (c <=? 102)) eqn:E2; [intro H; inversion H; lia|].
  destruct ((65 <=? c) && (c <=? 70)) eqn:E3; [intro H; inversion H; lia|discriminate].
Qed.

Lemma c_fromhex_aux_wf x : forall pend b,
  fromhex_aux x pend = Some b -> (forall h, pend = Some h -> h < 16) -> wf_bytes b.
Proof.
  induction x as [|c r IH]; intros pend b; cbn [fromhex_aux].
  - destruct pend; [discriminate|]. intro H. inversion H. intros _. constructor.
  - destruct pend as [h|].
    + destruct (hexval c) as [l|] eqn:El; [|discriminate].
      destruct (fromhex_aux r None) as [bs|] eqn:Eb; [|discriminate].
      intro H. inversion H; subst. intro Hh. specialize (Hh h eq_refl).
      apply c_hexval_lt in El. constructor; [lia|]. eapply IH; [exact Eb|discriminate].
    + destruct (is_pyspace c).
      * intros H _. eapply IH; [exact H|discriminate].
      * destruct (hexval c) as [h|] eqn:Eh; [|discriminate].
        intros H _. eapply IH; [exact H|]. intros h' Hh'. inversion Hh'; subst.
        eapply c_hexval_lt. exact Eh.
Qed.

Lemma c_fromhex_wf x b : fromhex x = Some b -> wf_bytes b.
Proof. intro H. eapply c_fromhex_aux_wf; [exact H|discriminate]. Qed.

Lemma c_hexdigit_facts n :
  n < 16 -> hexval (hexdigit n) = Some n /\ is_pyspace (hexdigit n) = false.
Proof.
  intros H. destruct n as [|p]; [split; reflexivity|].
  do 4 (try destruct p as [p|p|]); try (split; reflexivity); lia.
Qed.

Lemma c_fromhex_hex b : wf_bytes b -> fromhex (hex b) = Some b.
Proof.
  unfold fromhex. induction 1 as [|x r Hx Hr IH]; [reflexivity|].
  cbn [hex fromhex_aux].
  destruct (c_hexdigit_facts (x / 16)) as [V1 S1]; [lia|].
  destruct (c_hexdigit_facts (x mod 16)) as [V2 _]; [lia|].
  rewrite S1, V1, V2, IH. f_equal. f_equal. lia.
Qed.

Open Scope nat_scope.

(* the canonical (lowercase, no blanks) form of a non-empty hex string *)
Definition canonical (x : str) : Prop :=
  exists x0, is_nonempty_hex_string x0 = true /\ x = canon_hex x0.

Lemma canonical_fix x :
  canonical x -> is_nonempty_hex_string x = true /\ canon_hex x = x /\
                 exists b, fromhex x = Some b /\ x = hex b.
Proof.
  intros (x0 & H0 & ->). unfold is_nonempty_hex_string, canon_hex in *.
  destruct (fromhex x0) as [b|] eqn:Eb; [|discriminate].
  pose proof (c_fromhex_hex b (c_fromhex_wf _ _ Eb)) as Hh. rewrite Hh.
  split; [exact H0|]. split; [reflexivity|]. exists b. split; reflexivity.
Qed.

Section RoundTrip2.
Variable b64_norm : str -> option str.

(* what elem_v2 produces *)
Definition v2_elem (e : celem) : Prop :=
  ce_tweak e = None /\
  match ce_kind e with
  | KV1 => False
  | KQuote => canonical (ce_message e) /\ canonical (ce_signature e) /\
              canonical (ce_extra1 e) /\ ce_extra2 e = []
  | KAttKey => canonical (ce_message e) /\ canonical (ce_signature e) /\
               canonical (ce_extra1 e) /\ (canonical (ce_extra2 e) \/ ce_extra2 e = [])
  | KX509 => (exists x, b64_norm x = Some (ce_message e)) /\ ce_signature e = [] /\
             ce_extra1 e = [] /\ ce_extra2 e = []
  end.

Lemma nonempty_hex_json_canon j x :
  nonempty_hex_json j = Some x -> canonical (canon_hex x).
Proof. intro H. apply nonempty_hex_json_some in H. exists x. split; [tauto|reflexivity]. Qed.

(* auth_data: canonical hex, or empty *)
Lemma hex_or_empty_json_canon j x :
  hex_or_empty_json j = Some x -> canonical (canon_hex x) \/ canon_hex x = [].
Proof.
  unfold hex_or_empty_json. destruct j as [[| | | |y| |]|]; try discriminate.
  destruct y as [|c y]; [intro H; inversion H; right; reflexivity|].
  destruct (is_nonempty_hex_string (c :: y)) eqn:E; [|discriminate].
  intro H. inversion H; subst. left. exists (c :: y). split; [exact E|reflexivity].
Qed.

Lemma hex_or_empty_json_fix x :
  canonical x \/ x = [] -> hex_or_empty_json (Some (JStr x)) = Some x /\ canon_hex x = x.
Proof.
  intros [H| ->]; [|split; reflexivity].
  apply canonical_fix in H. destruct H as (H1 & H2 & _). split; [|exact H2].
  unfold hex_or_empty_json. destruct x; [reflexivity|]. rewrite H1. reflexivity.
Qed.

Lemma elem_v2_inv it e : elem_v2 b64_norm it = LOk e -> v2_elem e.
Proof.
  unfold elem_v2. destruct it as [| | | | | |m]; try discriminate.
  destruct (jget (s "type") m) as [[| | | |ty| |]|]; try discriminate.
  destruct (negb (str_in ty CERT_V2_TYPES)); [discriminate|].
  destruct (jget (s "name") m) as [nm|]; [|discriminate].
  destruct (jget (s "signed_by") m) as [sb|]; [|discriminate].
  destruct (str_eqb ty (s "sgx_quote")).
  { destruct (nonempty_hex_json (jget (s "message") m)) as [msg|] eqn:E1; [|discriminate].
    destruct (nonempty_hex_json (jget (s "custom_data") m)) as [cd|] eqn:E2; [|discriminate].
    destruct (nonempty_hex_json (jget (s "signature") m)) as [sg|] eqn:E3; [|discriminate].
    intro H. inversion H; subst. split; [reflexivity|].
    cbn [ce_kind ce_message ce_signature ce_extra1 ce_extra2].
    repeat split; try (eapply nonempty_hex_json_canon; eassumption). }
  destruct (str_eqb ty (s "sgx_attestation_key")).
  { destruct (nonempty_hex_json (jget (s "message") m)) as [msg|] eqn:E1; [|discriminate].
    destruct (nonempty_hex_json (jget (s "key") m)) as [k|] eqn:E2; [|discriminate].
    destruct (hex_or_empty_json (jget (s "auth_data") m)) as [ad|] eqn:E3; [|discriminate].
    destruct (nonempty_hex_json (jget (s "signature") m)) as [sg|] eqn:E4; [|discriminate].
    intro H. inversion H; subst. split; [reflexivity|].
    cbn [ce_kind ce_message ce_signature ce_extra1 ce_extra2].
    split; [eapply nonempty_hex_json_canon; eassumption|].
    split; [eapply nonempty_hex_json_canon; eassumption|].
    split; [eapply nonempty_hex_json_canon; eassumption|].
    eapply hex_or_empty_json_canon; eassumption. }
  destruct (jget (s "message") m) as [[| | | |msg| |]|]; try discriminate.
  destruct (b64_norm msg) as [cm|] eqn:Eb; [|discriminate].
  intro H. inversion H; subst. split; [reflexivity|].
  cbn [ce_kind ce_message ce_signature ce_extra1 ce_extra2].
  repeat split. exists msg. exact Eb.
Qed.

(* the part of the round trip that rests on the base64 codec: the text of an X.509 element,
   which is already an output of b64encode(b64decode(.)), is a fixed point of it.  (Hex fields
   need nothing: they are stored canonical and written back as stored.) *)
Definition v2_stable (e : celem) : Prop :=
  match ce_kind e with
  | KX509 => b64_norm (ce_message e) = Some (ce_message e)
  | _ => True
  end.

Lemma types_closed :
  str_in (s "sgx_quote") CERT_V2_TYPES = true /\
  str_in (s "sgx_attestation_key") CERT_V2_TYPES = true /\
  str_in (s "x509_pem") CERT_V2_TYPES = true.
Proof. vm_compute. repeat split; reflexivity. Qed.

Lemma elem_v2_roundtrip e :
  v2_elem e -> v2_stable e ->
  exists j, elem_to_json e = Some j /\ elem_v2 b64_norm j = LOk e.
Proof.
  destruct types_closed as (T1 & T2 & T3).
  intros [Ht Hv] Hs. destruct e as [nm sb kd tw msg sg x1 x2].
  unfold v2_stable in Hs.
  cbn [ce_kind ce_name ce_tweak ce_message ce_signature ce_extra1 ce_extra2] in *. subst tw.
  unfold elem_to_json. cbn [ce_kind ce_name ce_message ce_signature ce_signed_by ce_extra1 ce_extra2].
  destruct kd; [destruct Hv| | |].
  - destruct Hv as (H1 & H2 & H3 & ->).
    apply canonical_fix in H1, H2, H3.
    destruct H1 as (H1 & H1' & _), H2 as (H2 & H2' & _), H3 as (H3 & H3' & _).
    eexists. split; [reflexivity|]. unfold elem_v2.
    cbn -[str_in is_nonempty_hex_string canon_hex CERT_V2_TYPES].
    change (str_in _ CERT_V2_TYPES) with (str_in (s "sgx_quote") CERT_V2_TYPES).
    rewrite T1. cbn [negb]. rewrite H1, H2, H3, H1', H2', H3'. reflexivity.
  - destruct Hv as (H1 & H2 & H3 & H4).
    apply canonical_fix in H1, H2, H3. apply hex_or_empty_json_fix in H4.
    destruct H1 as (H1 & H1' & _), H2 as (H2 & H2' & _), H3 as (H3 & H3' & _),
             H4 as (H4 & H4').
    eexists. split; [reflexivity|]. unfold elem_v2.
    cbn -[str_in is_nonempty_hex_string canon_hex CERT_V2_TYPES hex_or_empty_json].
    change (str_in _ CERT_V2_TYPES) with (str_in (s "sgx_attestation_key") CERT_V2_TYPES).
    rewrite T2. cbn [negb]. rewrite H1, H2, H3, H4, H1', H2', H3', H4'. reflexivity.
  - destruct Hv as (_ & -> & -> & ->).
    eexists. split; [reflexivity|]. unfold elem_v2.
    cbn -[str_in is_nonempty_hex_string canon_hex CERT_V2_TYPES].
    change (str_in _ CERT_V2_TYPES) with (str_in (s "x509_pem") CERT_V2_TYPES).
    rewrite T3. cbn [negb]. rewrite Hs. reflexivity.
Qed.


(* a key is the element's name up to dict-key equality (1 / 1.0 / True) *)
Definition keyed (k n : json) : Prop := k = n \/ key_eqb k n = true.

Lemma keyed_l k n x : keyed k n -> key_eqb k x = key_eqb n x.
Proof. intros [->|H]; [reflexivity|]. apply key_eqb_cong_l. exact H. Qed.

Lemma keyed_r k n x : keyed k n -> key_eqb x k = key_eqb x n.
Proof. intro H. rewrite (key_eqb_sym x k), (key_eqb_sym x n). apply keyed_l. exact H. Qed.

Definition tbl_v2 (t : etable) : Prop :=
  Forall (fun kv => keyed (fst kv) (ce_name (snd kv)) /\ hashable (ce_name (snd kv)) = true /\
                    v2_elem (snd kv)) t.

Lemma tbl_v2_set e t :
  v2_elem e -> hashable (ce_name e) = true -> tbl_v2 t -> tbl_v2 (tbl_set (ce_name e) e t).
Proof.
  intros He Hh. induction t as [|[k e'] r IH]; cbn [tbl_set]; intro H.
  - constructor; [|constructor]. split; [left; reflexivity|split; assumption].
  - apply Forall_cons_iff in H. destruct H as [Hk Hr].
    destruct (key_eqb (ce_name e) k) eqn:E.
    + constructor; [|exact Hr]. cbn [fst snd]. split; [|split; assumption].
      right. rewrite key_eqb_sym. exact E.
    + constructor; [exact Hk|]. apply IH. exact Hr.
Qed.

Lemma build_table_v2 items : forall t t',
  build_table (elem_v2 b64_norm) items t = LOk t' -> tbl_v2 t -> tbl_v2 t'.
Proof.
  induction items as [|it r IH]; intros t t'; cbn [build_table].
  - intro H. inversion H; subst. auto.
  - destruct (elem_v2 b64_norm it) as [e|] eqn:Ef; [|discriminate].
    destruct (hashable (ce_name e)) eqn:Eh; [|discriminate].
    intros H Ht. eapply IH; [exact H|]. apply tbl_v2_set; try assumption.
    eapply elem_v2_inv. exact Ef.
Qed.

(* the table as rebuilt from its own values: every key replaced by the element's name *)
Definition renamed (t : etable) : etable := map (fun kv => (ce_name (snd kv), snd kv)) t.

Lemma renamed_get t : tbl_v2 t -> forall k, tbl_get k (renamed t) = tbl_get k t.
Proof.
  induction t as [|[k' e] r IH]; intros H k; [reflexivity|].
  apply Forall_cons_iff in H. destruct H as [(Hk & _) Hr]. cbn [fst snd] in Hk.
  cbn [renamed map tbl_get snd]. rewrite (keyed_r _ _ k Hk). fold (renamed r).
  rewrite IH by exact Hr. reflexivity.
Qed.

Lemma renamed_unique t : tbl_v2 t -> keys_unique t -> keys_unique (renamed t).
Proof.
  induction t as [|[k e] r IH]; intros H Hu; [exact I|].
  apply Forall_cons_iff in H. destruct H as [(Hk & _) Hr]. cbn [fst snd] in Hk.
  destruct Hu as [Hu1 Hu2]. cbn [renamed map keys_unique snd]. fold (renamed r).
  split; [|apply IH; assumption].
  intros k' e' Hin. unfold renamed in Hin. apply in_map_iff in Hin.
  destruct Hin as ([k0 e0] & Heq & Hin). cbn [snd] in Heq. inversion Heq; subst k' e'.
  rewrite <- (keyed_l _ _ _ Hk).
  rewrite Forall_forall in Hr. destruct (Hr _ Hin) as (Hk0 & _). cbn [fst snd] in Hk0.
  rewrite <- (keyed_r _ _ _ Hk0). eapply Hu1. exact Hin.
Qed.

Lemma rebuild_v2 : forall t2 t1 js,
  keys_unique (t1 ++ renamed t2) -> tbl_v2 t2 ->
  (forall k e, In (k, e) t2 -> v2_stable e) ->
  all_some (map (fun kv => elem_to_json (snd kv)) t2) = Some js ->
  build_table (elem_v2 b64_norm) js t1 = LOk (t1 ++ renamed t2).
Proof.
  induction t2 as [|[k e] r IH]; intros t1 js Hu Hv Hs; cbn [map all_some snd].
  - intro H. inversion H; subst. cbn [renamed map]. rewrite app_nil_r. reflexivity.
  - apply Forall_cons_iff in Hv. destruct Hv as [(Hk & Hh & He) Hr]. cbn [fst snd] in Hk, Hh, He.
    destruct (elem_v2_roundtrip e He (Hs k e (or_introl eq_refl))) as (j & Hj & Hl). rewrite Hj.
    destruct (all_some (map (fun kv => elem_to_json (snd kv)) r)) as [js'|] eqn:Ea;
      [|discriminate].
    intro H. inversion H; subst. cbn [build_table]. rewrite Hl, Hh.
    cbn [renamed map snd] in Hu |- *. fold (renamed r) in Hu |- *.
    rewrite tbl_set_fresh.
    + rewrite (IH (t1 ++ [(ce_name e, e)]) js'); try assumption; try reflexivity.
      * rewrite <- app_assoc. reflexivity.
      * rewrite <- app_assoc. exact Hu.
      * intros k0 e0 Hin. eapply Hs. right. exact Hin.
    + intros k' e' Hin. rewrite key_eqb_sym.
      eapply (keys_unique_app_l _ _ Hu); [exact Hin|left; reflexivity].
Qed.

End RoundTrip2.

(* ---------- tables with the same lookups give the same walks ---------- *)

Definition tbl_equiv (t t' : etable) : Prop :=
  length t = length t' /\ forall k, tbl_get k t = tbl_get k t'.

Lemma path_check_equiv root t t' : (forall k, tbl_get k t = tbl_get k t') ->
  forall f v cur, path_check f root t v cur = path_check f root t' v cur.
Proof.
  intro H. induction f as [|f IH]; intros v cur; cbn [path_check]; [reflexivity|].
  rewrite H. destruct (tbl_get (ce_signed_by cur) t'); [|reflexivity].
  rewrite IH. reflexivity.
Qed.

Lemma chain_up_equiv root t t' : (forall k, tbl_get k t = tbl_get k t') ->
  forall f cur, chain_up f root t cur = chain_up f root t' cur.
Proof.
  intro H. induction f as [|f IH]; intros cur; cbn [chain_up]; [reflexivity|].
  rewrite H. destruct (tbl_get (ce_signed_by cur) t'); [|reflexivity].
  rewrite IH. reflexivity.
Qed.

Lemma check_targets_equiv root t t' targets :
  tbl_equiv t t' -> check_targets root t targets = check_targets root t' targets.
Proof.
  intros [Hl H]. induction targets as [|tg r IH]; cbn [check_targets]; [reflexivity|].
  rewrite H, Hl, IH. destruct (tbl_get tg t') as [e|]; [|reflexivity].
  rewrite (path_check_equiv root t t' H). reflexivity.
Qed.

Lemma validate_target_equiv link v targets targets' t t' tg :
  tbl_equiv t t' ->
  validate_target link (mkCert v targets t) tg = validate_target link (mkCert v targets' t') tg.
Proof.
  intros [Hl H]. unfold validate_target. cbn [c_elems c_version].
  rewrite H, Hl. destruct (tbl_get tg t') as [e|]; [|reflexivity].
  rewrite (chain_up_equiv _ t t' H). reflexivity.
Qed.

Section RoundTrip2Thm.
Variable b64_norm : str -> option str.

(* a loaded version-2 certificate whose elements are already in the codecs' canonical form
   saves, and the saved document loads to a certificate with the same targets, the same
   elements under the same names, and the same verdicts for every signature oracle *)
Theorem v2_roundtrip m c :
  parse_cert b64_norm 2 m = LOk c ->
  (forall k e, In (k, e) (c_elems c) -> v2_stable b64_norm e) ->
  exists j, cert_to_json c = Some j /\
    load_cert b64_norm j = LOk (mkCert 2 (c_targets c) (renamed (c_elems c))) /\
    tbl_equiv (c_elems c) (renamed (c_elems c)) /\
    forall link, validate_all link (mkCert 2 (c_targets c) (renamed (c_elems c)))
                 = validate_all link c.
Proof.
  intros H Hs. apply parse_cert_inv in H.
  destruct H as (targets & items & t & _ & _ & Hb & Hc & ->).
  change (factory_of b64_norm 2) with (elem_v2 b64_norm) in Hb.
  cbn [c_elems c_targets] in *.
  pose proof (build_table_v2 b64_norm _ _ _ Hb (Forall_nil _)) as Hv.
  destruct (build_table_inv _ _ _ _ Hb) as (Hu & _ & _). specialize (Hu I).
  assert (Heq : tbl_equiv t (renamed t)).
  { split; [unfold renamed; rewrite map_length; reflexivity|].
    intro k. symmetry. apply (renamed_get b64_norm). exact Hv. }
  unfold cert_to_json. cbn [c_elems c_version c_targets].
  destruct (all_some (map (fun kv => elem_to_json (snd kv)) t)) as [js|] eqn:Ejs.
  - eexists. split; [reflexivity|].
    pose proof (rebuild_v2 b64_norm t [] js (renamed_unique b64_norm t Hv Hu) Hv Hs Ejs)
      as Hr. cbn [app] in Hr.
    split; [|split; [exact Heq|]].
    + unfold load_cert.
      change (jget (s "version") _) with (Some (JInt 2)).
      cbn [hashable negb py_eq_int Z.eqb Pos.eqb].
      apply parse_cert_intro with js; try assumption; try reflexivity.
      rewrite <- (check_targets_equiv _ t (renamed t) targets Heq). exact Hc.
    + intro link. unfold validate_all. cbn [c_targets]. apply map_ext. intro tg.
      f_equal. symmetry. apply validate_target_equiv. exact Heq.
  - exfalso. apply all_some_none_iff in Ejs. apply in_map_iff in Ejs.
    destruct Ejs as ([k e] & He & Hin). cbn [snd] in He.
    unfold tbl_v2 in Hv. rewrite Forall_forall in Hv. destruct (Hv _ Hin) as (_ & _ & Hve). cbn [snd] in Hve.
    destruct (elem_v2_roundtrip b64_norm e Hve (Hs k e Hin)) as (j & Hj & _). congruence.
Qed.

(* the same under the one assumption about the base64 codec: b64encode(b64decode(.)) is
   idempotent.  No condition on the certificate is left. *)
Definition b64_idempotent : Prop := forall x y, b64_norm x = Some y -> b64_norm y = Some y.

Lemma loaded_v2_stable m c :
  b64_idempotent -> parse_cert b64_norm 2 m = LOk c ->
  forall k e, In (k, e) (c_elems c) -> v2_stable b64_norm e.
Proof.
  intros Hi H k e Hin. apply parse_cert_inv in H.
  destruct H as (targets & items & t & _ & _ & Hb & _ & ->).
  change (factory_of b64_norm 2) with (elem_v2 b64_norm) in Hb.
  pose proof (build_table_v2 b64_norm _ _ _ Hb (Forall_nil _)) as Hv.
  unfold tbl_v2 in Hv. rewrite Forall_forall in Hv. destruct (Hv _ Hin) as (_ & _ & [_ He]).
  cbn [snd] in He. unfold v2_stable. destruct (ce_kind e); try exact I.
  destruct He as ((x & Hx) & _). eapply Hi. exact Hx.
Qed.

Theorem v2_roundtrip_codec m c :
  b64_idempotent -> parse_cert b64_norm 2 m = LOk c ->
  exists j, cert_to_json c = Some j /\
    load_cert b64_norm j = LOk (mkCert 2 (c_targets c) (renamed (c_elems c))) /\
    tbl_equiv (c_elems c) (renamed (c_elems c)) /\
    forall link, validate_all link (mkCert 2 (c_targets c) (renamed (c_elems c)))
                 = validate_all link c.
Proof. intros Hi H. apply (v2_roundtrip m c H). eapply loaded_v2_stable; eassumption. Qed.

(* every loaded certificate, version 1 or 2: it saves, and the saved document loads to a
   certificate with the same version, targets, lookups and verdicts (for version 1: the very
   same certificate; for version 2 the table keys are replaced by the element names, which
   only matters for names like 1 / 1.0 / true that are equal as dict keys) *)
Theorem load_save_load doc c :
  b64_idempotent -> load_cert b64_norm doc = LOk c ->
  exists j c', cert_to_json c = Some j /\ load_cert b64_norm j = LOk c' /\
    c_version c' = c_version c /\ c_targets c' = c_targets c /\
    tbl_equiv (c_elems c) (c_elems c') /\
    forall link, validate_all link c' = validate_all link c.
Proof.
  intros Hi H. apply load_cert_inv in H.
  destruct H as (m & v & ver & _ & _ & _ & [[_ ->]|(_ & _ & ->)] & H).
  - destruct (v1_roundtrip b64_norm m c H) as (j & Hj & Hl). exists j, c.
    repeat split; try assumption; reflexivity.
  - destruct (v2_roundtrip_codec m c Hi H) as (j & Hj & Hl & He & Hv).
    exists j, (mkCert 2 (c_targets c) (renamed (c_elems c))).
    apply parse_cert_inv in H. destruct H as (? & ? & ? & _ & _ & _ & _ & ->).
    repeat split; try assumption; apply He.
Qed.

End RoundTrip2Thm.

(* ---------- limits of the model, as checked facts ---------- *)

Module Caveats.
Import Examples.

(* non-integral floats are all represented by JFloat None, which the dict-key equality treats
   as different from everything including itself; so such a name is a dead table entry ... *)
Lemma key_eqb_float_none k : key_eqb (JFloat None) k = false.
Proof. destruct k as [| | |[|]| | |]; reflexivity. Qed.

Lemma tbl_get_float_none t : tbl_get (JFloat None) t = None.
Proof.
  induction t as [|[k e] r IH]; [reflexivity|]. cbn [tbl_get].
  rewrite key_eqb_float_none. exact IH.
Qed.

(* ... and a version-2 document whose only element is named 1.5, signed by the root, with
   target 1.5, is rejected by the model (Python's dict finds 1.5 under 1.5) *)
Definition x509 (name signer : json) : json :=
  JObj [(s "name", name); (s "type", JStr (s "x509_pem")); (s "message", JStr (s "QUJD"));
        (s "signed_by", signer)].

Definition doc2 (els targets : list json) : json :=
  JObj [(s "version", JInt 2); (s "targets", JArr targets); (s "elements", JArr els)].

Example float_name_refuted :
  exists d, d = doc2 [x509 (JFloat None) (JStr (s "sgx_root"))] [JFloat None] /\
            load_cert no_b64 d = LError /\
            load_cert no_b64 (doc2 [x509 (JFloat (Some 3%Z)) (JStr (s "sgx_root"))] [JInt 3])
            <> LError.
Proof. eexists. split; [reflexivity|]. split; vm_compute; [reflexivity|discriminate]. Qed.

(* two elements named 1.5 are both kept (a Python dict would keep one) *)
Example float_name_duplicates :
  match load_cert no_b64 (doc2 [x509 (JFloat None) (JStr (s "sgx_root"));
                                x509 (JFloat None) (JStr (s "sgx_root"))] []) with
  | LOk c => length (c_elems c) = 2
  | LError => False
  end.
Proof. vm_compute. reflexivity. Qed.

(* version 2: the key of an entry need not be the stored element's name (1 == True), so the
   reloaded table is `renamed`, not identical *)
Example v2_key_differs_from_name :
  match load_cert no_b64 (doc2 [x509 (JInt 1) (JStr (s "sgx_root"));
                                x509 (JBool true) (JStr (s "sgx_root"))] [JFloat (Some 1%Z)]) with
  | LOk c => map fst (c_elems c) = [JInt 1] /\ map (fun kv => ce_name (snd kv)) (c_elems c) = [JBool true]
  | LError => False
  end.
Proof. vm_compute. split; reflexivity. Qed.

(* version 2, attestation key: since fix 68123f6 saving writes the message back as loaded
   (before it, only the first 384 bytes were kept and this reload differed) *)
Definition hex385 : str := List.concat (repeat (s "ab") 385).

Definition attkey : json :=
  JObj [(s "name", JStr (s "k")); (s "type", JStr (s "sgx_attestation_key"));
        (s "message", JStr hex385); (s "key", JStr (s "04")); (s "auth_data", JStr (s "aa"));
        (s "signature", JStr (s "bb")); (s "signed_by", JStr (s "sgx_root"))].

Example v2_attkey_message_kept :
  match load_cert no_b64 (doc2 [attkey] [JStr (s "k")]) with
  | LOk c =>
      match cert_to_json c with
      | Some j => match load_cert no_b64 j with
                  | LOk c' => map (fun kv => length (ce_message (snd kv))) (c_elems c) = [770] /\
                              map (fun kv => length (ce_message (snd kv))) (c_elems c') = [770]
                  | LError => False end
      | None => False end
  | LError => False
  end.
Proof. vm_compute. split; reflexivity. Qed.

End Caveats.
