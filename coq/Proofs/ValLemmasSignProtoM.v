(* Helper lemmas for Proofs/SrcEquivSignProtoM.v (the handler _sign of ledger/protocol.py against
   Model/LedgerProtocol.v's op_sign_v5): the request after the key id has been replaced by the path object,
   the second-stage validators on it, the result translation, the common tail of the handler, the except
   ladder, sign_authorized in legacy mode with arbitrary witness arguments, and well-formedness of the bytes
   unsign_tx produces. *)
From PowHsm Require Import Gen.SrcM Model.LedgerProtocol.
From PowHsm Require Import Proofs.C02.
From PowHsm Require Proofs.C17.
From PowHsm Require Import Proofs.ValLemmas Proofs.SrcEquivBase Proofs.SrcEquivProto Proofs.SrcEquivLedger.
From PowHsm Require Import Proofs.SrcEquivDongleM Proofs.SrcEquivProtoM Proofs.SrcEquivSignM.
From PowHsm Require Import Proofs.ValLemmasAdmin Proofs.ValLemmasSign Proofs.ValLemmasProtoM.
From Coq Require Import Lia.

(* SIDE CONDITION of the handler theorem: "message" is absent or a JSON object.  (For a string / list message
   Python's `"hash" in request["message"]` is a substring / membership test and for a number a TypeError, which
   Model/LedgerProtocol.v's op_sign_v5 does not model: it treats every non-object message as "not a hash
   request".)  The gate (validate_sign_v5 >= 0) implies it. *)
Definition message_absent_or_object (req : obj) : Prop :=
  match jget (s "message") req with None | Some (JObj _) => True | Some _ => False end.

Definition sign_is_hash (req : obj) : bool :=
  match jget (s "message") req with Some (JObj m) => jhas (s "hash") m | _ => false end.

(* ---------- the request with its key id replaced ---------- *)

Lemma vassoc_set_other (k k' : str) (v : pv) (l : list (str * pv)) :
  str_eqb k k' = false -> vassoc k (vassoc_set k' v l) = vassoc k l.
Proof.
  intros Hk. induction l as [|[k0 v0] r IH]; cbn [vassoc_set vassoc].
  - rewrite Hk. reflexivity.
  - destruct (str_eqb k' k0) eqn:E0; cbn [vassoc].
    + apply str_eqb_eq in E0. subst k0. rewrite Hk. reflexivity.
    + rewrite IH. reflexivity.
Qed.

Lemma vassoc_request_other (k : str) (req : obj) (els : list N) :
  str_eqb k (s "keyId") = false ->
  vassoc k (vassoc_set (s "keyId") (path_obj els) (map (fun p => (fst p, of_json (snd p))) req)) =
  option_map of_json (jget k req).
Proof. intros Hk. rewrite (vassoc_set_other _ _ _ _ Hk). apply vassoc_of_json. Qed.

Lemma getitem_request_other (k : str) (req : obj) (els : list N) :
  str_eqb k (s "keyId") = false ->
  py_getitem (request_with_path req els) (VStr k) =
  match jget k req with Some j => Val.POk (of_json j) | None => Val.PRaise KeyError end.
Proof.
  intros Hk. unfold request_with_path. cbn [py_getitem]. rewrite (vassoc_request_other _ _ _ Hk).
  destruct (jget k req); reflexivity.
Qed.

Lemma getitem_request_key (req : obj) (els : list N) :
  py_getitem (request_with_path req els) (VStr (s "keyId")) = Val.POk (path_obj els).
Proof. unfold request_with_path. cbn [py_getitem]. rewrite vassoc_set_same. reflexivity. Qed.

Lemma in_request_other (k : str) (req : obj) (els : list N) :
  str_eqb k (s "keyId") = false ->
  py_in (VStr k) (request_with_path req els) = Val.POk (jhas k req).
Proof.
  intros Hk. unfold request_with_path, jhas. cbn [py_in]. rewrite (vassoc_request_other _ _ _ Hk).
  destruct (jget k req); reflexivity.
Qed.

(* ---------- the second-stage validators only read "message" / "auth" ---------- *)

Lemma validate_message_dict (self what : pv) (kv1 kv2 : list (str * pv)) :
  vassoc (s "message") kv1 = vassoc (s "message") kv2 ->
  src_HSM2Protocol___validate_message self (VDict kv1) what =
  src_HSM2Protocol___validate_message self (VDict kv2) what.
Proof.
  intros H. unfold src_HSM2Protocol___validate_message.
  unfold py_not_in at 1 2. cbn [py_in].
  change (py_getitem (VDict kv1) (VStr (s "message")))
    with (match vassoc (s "message") kv1 with Some v => Val.POk v | None => Val.PRaise KeyError end).
  change (py_getitem (VDict kv2) (VStr (s "message")))
    with (match vassoc (s "message") kv2 with Some v => Val.POk v | None => Val.PRaise KeyError end).
  rewrite H. reflexivity.
Qed.

Lemma validate_auth_dict (self mand : pv) (kv1 kv2 : list (str * pv)) :
  vassoc (s "auth") kv1 = vassoc (s "auth") kv2 ->
  src_HSM2Protocol___validate_auth self (VDict kv1) mand =
  src_HSM2Protocol___validate_auth self (VDict kv2) mand.
Proof.
  intros H. unfold src_HSM2Protocol___validate_auth.
  unfold py_not_in at 1 5. cbn [py_in].
  change (py_getitem (VDict kv1) (VStr (s "auth")))
    with (match vassoc (s "auth") kv1 with Some v => Val.POk v | None => Val.PRaise KeyError end).
  change (py_getitem (VDict kv2) (VStr (s "auth")))
    with (match vassoc (s "auth") kv2 with Some v => Val.POk v | None => Val.PRaise KeyError end).
  rewrite H. reflexivity.
Qed.

Lemma src_validate_message_request (self : pv) (req : obj) (els : list N) (w : msg_kind) :
  src_HSM2Protocol___validate_message self (request_with_path req els) (what_val w) =
  Val.POk (VInt (validate_message (codes_of V5) req w)).
Proof.
  rewrite <- src_validate_message_v5 with (self := self).
  unfold request_with_path, of_obj. cbn [of_json].
  apply validate_message_dict. apply vassoc_set_other. reflexivity.
Qed.

Lemma src_validate_auth_request (self : pv) (req : obj) (els : list N) (mandatory : bool) :
  src_HSM2Protocol___validate_auth self (request_with_path req els) (VBool mandatory) =
  Val.POk (VInt (validate_auth (codes_of V5) req mandatory)).
Proof.
  rewrite <- src_validate_auth_v5 with (self := self).
  unfold request_with_path, of_obj. cbn [of_json].
  apply validate_auth_dict. apply vassoc_set_other. reflexivity.
Qed.

(* ---------- the result translation ---------- *)

Lemma translate_sign_error_ok (self : pv) (c : Z) (w : world) :
  srcm_HSM2ProtocolLedger___translate_sign_error self (VInt c) w =
  (XOk (VInt (lookup_Z c TR_SIGN_V5 TR_SIGN_V5_DEFAULT)), w).
Proof.
  unfold srcm_HSM2ProtocolLedger___translate_sign_error.
  rewrite pbind_POk. unfold MV.py_get_default, py_get_default.
  cbn [String.eqb Ascii.eqb Bool.eqb vint map snd assoc_get].
  unfold lookup_Z, TR_SIGN_V5, TR_SIGN_V5_DEFAULT. cbn [assoc_Z].
  destruct (Z.eqb_spec c (-1)) as [->|H1]; [reflexivity|].
  destruct (Z.eqb_spec c (-2)) as [->|H2]; [reflexivity|].
  destruct (Z.eqb_spec c (-3)) as [->|H3]; [reflexivity|].
  destruct (Z.eqb_spec c (-4)) as [->|H4]; [reflexivity|].
  destruct (Z.eqb_spec c (-5)) as [->|H5]; [reflexivity|].
  destruct (Z.eqb_spec c (-10)) as [->|H10]; [reflexivity|].
  reflexivity.
Qed.

(* ---------- the common tail of the handler: (translated code,) or (0, {"signature": {...}}) ---------- *)

Import MV.
Open Scope string_scope.
Open Scope list_scope.

Lemma sign_tail_ok (self : pv) (r : sign_result) (w : world) :
  (pif (py_not (py_getitem (sign_res r) (VInt (0)%Z)))
    (pbind (pbind (py_getitem (sign_res r) (VInt (1)%Z)) (fun t20_ => srcm_HSM2ProtocolLedger___translate_sign_error self t20_)) (fun t19_ => POk (VList [t19_])))
    (pbind (py_getitem (sign_res r) (VInt (1)%Z)) (fun v_signature =>
  pbind (pbind (pbind (lift (src_HSM2DongleSignature__r v_signature)) (fun t23_ => pbind (lift (src_HSM2DongleSignature__s v_signature)) (fun t24_ => POk (VDict [((s "r"), t23_); ((s "s"), t24_)])))) (fun t22_ => POk (VDict [((s "signature"), t22_)]))) (fun t21_ => POk (VList [(VInt (0)%Z); t21_]))))) w =
  (XOk (rtuple_pv (finish_sign V5 r)), w).
Proof.
  destruct r as [[rb sb]|c]; unfold sign_res.
  - reflexivity.
  - rewrite mv_getitem_pair0, py_not_POk, pif_POk. cbn [py_truth negb].
    rewrite mv_getitem_pair1, pbind_POk.
    unfold pbind, mbind. rewrite translate_sign_error_ok. reflexivity.
Qed.

(* ---------- the except ladder of both try blocks of _sign ---------- *)

Definition sign_handler (v_self : pv) : exn -> pm pv :=
  fun e_ => if existsb (xpat_matches e_) [XCls EXC_HSM2DongleTimeoutError] then (pbind (POk (VList [(VInt (-905)%Z)])) (fun rv_ => POk (VList [VInt 2%Z; rv_])))
      else if existsb (xpat_matches e_) [XCls EXC_HSM2DongleCommError] then (pbind (POk (VBool true)) (fun t5_ => pbind (m_set_comm_issue t5_) (fun _ =>
  pbind (POk (VList [(VInt (-905)%Z)])) (fun rv_ => POk (VList [VInt 2%Z; rv_])))))
      else if existsb (xpat_matches e_) [XCls EXC_HSM2DongleError] then (pbind (srcm_HSM2ProtocolLedger___error v_self (VStr (s ""))) (fun _ => PStuck))
      else PRaiseX e_.

Lemma sign_handler_ladder (self : pv) (k : pv -> pm pv) (lad : ladder) (e : exn) (w : world) :
  lad = LADDER_V5_sign_unauth \/ lad = LADDER_V5_sign_auth ->
  (forall rv w', k (VList [VInt 2%Z; rv]) w' = (XOk rv, w')) ->
  mbind (sign_handler self e) k w =
  mres rtuple_pv (match apply_ladder lad e with Some c => c w | None => (Exn e, w) end).
Proof.
  intros Hl Hk.
  assert (Hlad : lad = LADDER_V5_sign_unauth) by (destruct Hl as [->| ->]; reflexivity).
  subst lad. clear Hl.
  destruct e; unfold mbind; cbn; rewrite ?Hk; reflexivity.
Qed.

(* ---------- sign_authorized in legacy mode: the witness script / outpoint value arguments are not looked at.
   Same proof as Proofs/SrcEquivSignM.v's srcm_sign_authorized_ok (legacy case), for arbitrary values in the
   two positions. ---------- *)

Ltac snorm :=
  repeat (progress (rewrite ?pbind_POk, ?pbind_PRaise, ?mv_py_add_bytes, ?mv_py_add_int, ?lift_POk, ?lift_PRaise,
                            ?mv_py_len_bytes, ?pif_POk, ?py_not_POk, ?vbool_lift_POk, ?vbool_POk,
                            ?mv_getitem_pair0, ?mv_getitem_pair1; cbv beta)).
Ltac sstrip_binds :=
  repeat match goal with |- MV.pbind (MV.POk _) _ _ = _ => rewrite pbind_POk; cbv beta end.
Ltac sset_k :=
  match goal with |- MV.ptry_k _ _ _ _ ?k _ = _ => let K := fresh "K" in set (K := k) end.
Ltac stry_ok :=
  match goal with |- MV.ptry_k ?m _ _ _ _ ?w = _ => rewrite (ptry_k_ok m _ _ _ _ w w _ eq_refl) end.
Ltac stry_raise e :=
  match goal with |- MV.ptry_k ?m _ _ _ _ ?w = _ => rewrite (ptry_k_raise m _ _ _ _ w w e eq_refl) end.
Ltac shandler_only_er tbl :=
  let e := fresh "e" in let w' := fresh "w'" in
  intros e w'; destruct e; try (intros _; left; reflexivity);
  split; [reflexivity|]; apply tbl.

Section WithOracles.
Variable cm : string -> pv -> list pv -> pr pv.

Ltac ssign_tail Hrc Hproof proof :=
  eapply try_step with (tbl := fun sw => lookup_err sw SIGN_AUTH_STEP2_ERRS SIGN_AUTH_STEP2_DEFAULT);
  [ eapply (chunk_body _ _ _ _ _ _ 2 4); [reflexivity|lia|reflexivity]
  | let e := fresh "e" in let w' := fresh "w'" in let p := fresh "p" in let Hno := fresh "Hno" in
    intros e w'; destruct e as [?| | | | | | | |p]; try (intros _; right; reflexivity);
    [ split; [reflexivity|]; apply (handler_tbl [27272; 27271; 27277; 27278; 27287; 27288]%N (-2) (-10))
    | destruct p; try (intros _; right; reflexivity); intros Hno; exfalso; apply Hno; reflexivity ]
  | reflexivity
  | reflexivity
  | ];
  let v := fresh "v" in let a := fresh "a" in let w2 := fresh "w2" in let HE := fresh "HE" in
  let HL2 := fresh "HL2" in let q2 := fresh "q2" in let r2 := fresh "r2" in
  intros v a w2 HE HL2; destruct a as [q2|?]; [|subst v; reflexivity];
  destruct HE as [r2 ->];
  match goal with K := _ |- _ => subst K end; cbv beta iota;
  (* step 3 *)
  sset_k; snorm; rewrite (mv_py_fromhex _ _ Hrc); snorm;
  eapply try_step with (tbl := fun sw => lookup_err sw SIGN_AUTH_STEP3_ERRS SIGN_AUTH_STEP3_DEFAULT);
  [ eapply (chunk_body _ _ _ _ _ _ 4 8); [reflexivity|lia|reflexivity]
  | shandler_only_er (handler_tbl [27273; 27274; 27275; 27276; 27271]%N (-3) (-10))
  | reflexivity
  | reflexivity
  | ];
  let v := fresh "v" in let a := fresh "a" in let w3 := fresh "w3" in let HE := fresh "HE" in
  let HL3 := fresh "HL3" in let q3 := fresh "q3" in let r3 := fresh "r3" in
  intros v a w3 HE HL3; destruct a as [q3|?]; [|subst v; reflexivity];
  destruct HE as [r3 ->];
  match goal with K := _ |- _ => subst K end; cbv beta iota;
  sstrip_binds;
  (* merkle proof *)
  erewrite merkle_try_k;
  [ | exact Hproof
    | let nb := fresh "nb" in let acc := fresh "acc" in let x := fresh "x" in let b := fresh "b" in
      let Hx := fresh "Hx" in let E := fresh "E" in
      intros nb acc x b Hx; cbv beta iota; rewrite (mv_py_fromhex _ _ Hx); snorm;
      change (VInt 255) with (VInt (Z.of_N 255)); unfold MV.py_cmp; rewrite py_cmp_int, Zltb_N; snorm;
      cbn [py_truth]; destruct (255 <? nlen b)%N eqn:E; [reflexivity|];
      fold (vN (nlen b)); rewrite mv_py_bytes_single by (apply N.ltb_ge in E; lia); snorm;
      rewrite <- app_assoc; reflexivity
    | intros; reflexivity ];
  let mp := fresh "mp" in
  destruct (merkle_proof_bytes proof) as [mp|]; [|reflexivity];
  (* step 4 *)
  match goal with |- _ = mres sign_res (?m ?w) => rewrite <- (bind_ret_r m w) end;
  sset_k; snorm;
  eapply try_step with (tbl := fun sw => lookup_err sw SIGN_AUTH_STEP4_ERRS SIGN_AUTH_STEP4_DEFAULT);
  [ eapply (chunk_body4 _ _ _ _ _ _ 8 129); [reflexivity|lia|reflexivity]
  | shandler_only_er (handler_tbl [27271; 27273; 27282; 27283; 27284; 27285; 27286]%N (-4) (-10))
  | reflexivity
  | reflexivity
  | ];
  let v := fresh "v" in let a := fresh "a" in let w4 := fresh "w4" in let HE := fresh "HE" in
  let r4 := fresh "r4" in let rb := fresh "rb" in let sb := fresh "sb" in
  intros v a w4 HE _; destruct HE as [[r4 [-> ->]]|[-> ->]]; [|reflexivity];
  match goal with K := _ |- _ => subst K end; cbv beta iota; unfold chunk_res; cbn [fst snd]; snorm;
  unfold MV.py_slice; rewrite py_slice_bytes_from by lia; snorm;
  rewrite src_der_parse_ok; unfold parse_sig, slice_from;
  change (Z.to_nat 3) with OFF_DATAn;
  destruct (der_parse (skipn OFF_DATAn r4)) as [[rb sb]|];
  [ snorm; stry_ok; reflexivity
  | snorm; stry_raise (Py ValueError); reflexivity ].

Theorem srcm_sign_authorized_legacy_ok :
  forall (fuel : nat) (self key_id : pv) (path_bin : bytes)
         (receipt_hex tx_hex : str) (proof_hex : list str)
         (receipt tx : bytes) (proof : list bytes) (input : Z) (wsv ovv : pv) (w : world),
  oracles_ok cm key_id path_bin ->
  fromhex receipt_hex = Some receipt -> fromhex tx_hex = Some tx ->
  all_some (map fromhex proof_hex) = Some proof ->
  (S (length (script w)) <= fuel)%nat ->
  srcm_HSM2Dongle__sign_authorized fuel cm self key_id (VStr receipt_hex) (VList (map VStr proof_hex))
      (VStr tx_hex) (VInt input) (mode_obj false) wsv ovv w =
  mres sign_res (sign_authorized path_bin receipt proof tx input (mode_str false) [] 0 w).
Proof.
  intros fuel self key_id path_bin receipt_hex tx_hex proof_hex receipt tx proof input wsv ovv w
         [Hbin Hvar] Hrc Htx Hproof Hfuel.
  unfold srcm_HSM2Dongle__sign_authorized, sign_authorized.
  rewrite Hbin, lift_POk, pbind_POk. cbv beta.
  rewrite mv_to_bytes_le_4.
  destruct (to_bytes_le 4 input) as [inb|] eqn:Einb; [clear Einb|reflexivity].
  snorm. change (MV.py_bytes (VList [VInt 1])) with (MV.POk (VBytes [1%N])). snorm. sset_k.
  rewrite (bind_eq (of_opt (Some inb) OverflowError) _ w w inb eq_refl).
  (* step 1: path and input index *)
  eapply try_step with (tbl := fun sw => lookup_err sw SIGN_AUTH_STEP1_ERRS SIGN_AUTH_STEP1_DEFAULT).
  - apply step1_body. reflexivity.
  - shandler_only_er (handler_tbl [27271; 27280; 27281]%N (-1) (-10)).
  - reflexivity.
  - reflexivity.
  - intros v a w1 HE HL1. destruct a as [q|c]; [|subst v; reflexivity].
    destruct HE as [r ->]. subst K. cbv beta iota.
    (* step 2: the payload *)
    sstrip_binds. sset_k.
    snorm. rewrite (mv_py_fromhex _ _ Htx). snorm.
    change (MV.py_getattr (mode_obj false) "netvalue") with (MV.POk (VInt 0)). snorm.
    change (MV.py_to_bytes_le (VInt 0) (VInt 1)) with (MV.POk (VBytes [0%N])). snorm.
    change (MV.py_eq_obj (mode_obj false) _) with (lift (Val.POk false)). snorm. cbn [py_truth].
    change (sighash_netvalue (mode_str false)) with (Some 0%N).
    rewrite (bind_eq (of_opt (Some 0%N) ValueError) _ w1 w1 0%N eq_refl).
    change (0 =? 1)%N with false. unfold extradata, btc_payload.
    change (to_bytes_le 1 (Z.of_N 0)) with (Some [0%N]).
    change (to_bytes_le 2 (Z.of_N (nlen (@nil N)))) with (Some [0%N; 0%N]).
    change (MV.py_to_bytes_le (VInt (Z.of_N (nlen (@nil N)))) (VInt 2)) with (MV.POk (VBytes [0%N; 0%N])).
    snorm. rewrite mv_to_bytes_le_4.
    replace (4 + 1 + 2 + Z.of_N (nlen tx))%Z with (Z.of_N (4 + 1 + 2 + nlen tx)) by lia.
    destruct (to_bytes_le 4 _) as [pl|] eqn:Epl.
    2: { snorm. stry_raise (Py OverflowError). reflexivity. }
    snorm. rewrite <- !app_assoc.
    ssign_tail Hrc Hproof proof.
Qed.

End WithOracles.

(* ---------- the branch test of _sign ---------- *)

Lemma sign_is_hash_cond (req : obj) (els : list N) (w : world) :
  message_absent_or_object req ->
  py_and (vbool (py_in (VStr (s "message")) (request_with_path req els)))
    (pbind (py_getitem (request_with_path req els) (VStr (s "message"))) (fun t1_ => vbool (py_in (VStr (s "hash")) t1_))) w =
  (XOk (VBool (sign_is_hash req)), w).
Proof.
  intros Hm. unfold py_and, vbool, pmap, py_in, pbind, py_getitem.
  rewrite in_request_other, getitem_request_other by reflexivity.
  unfold jhas, message_absent_or_object, sign_is_hash in *.
  destruct (jget (s "message") req) as [[| | | | | |m]|]; try contradiction.
  - change (of_json (JObj m)) with (of_obj m). unfold mbind, lift, mret. cbn [py_truth].
    rewrite py_in_of_obj. reflexivity.
  - reflexivity.
Qed.

(* ---------- what the second-stage validators establish ---------- *)

Lemma v5_message_code : (c_invalid_message (codes_of V5) <? 0)%Z = true.
Proof. reflexivity. Qed.
Lemma v5_auth_code : (c_invalid_auth (codes_of V5) <? 0)%Z = true.
Proof. reflexivity. Qed.

Lemma validated_hash (req : obj) :
  validate_message (codes_of V5) req WHash = 0%Z ->
  exists m h, jget (s "message") req = Some (JObj m) /\ jget (s "hash") m = Some (JStr h).
Proof.
  intros H. apply validate_message_ok_iff in H; [|discriminate].
  destruct H as [m [Hm [[_ [_ [h [b [Hh _]]]]] | [Ht _]]]]; [|discriminate Ht].
  exists m, h. split; assumption.
Qed.

Lemma nonempty_hex_list (l : list json) :
  Forall nonempty_hex_json l ->
  exists (ph : list str) (proof : list bytes), l = map JStr ph /\ all_some (map fromhex ph) = Some proof.
Proof.
  induction 1 as [|j l Hj Hl [ph [proof [-> Hp]]]].
  - exists [], []. split; reflexivity.
  - destruct Hj as [x [b [-> [Hx _]]]]. exists (x :: ph), (b :: proof). split; [reflexivity|].
    cbn [map all_some]. rewrite Hx, Hp. reflexivity.
Qed.

Lemma validated_auth (req : obj) :
  validate_auth (codes_of V5) req true = 0%Z ->
  exists (auth : obj) (rh : str) (receipt : bytes) (ph : list str) (proof : list bytes),
    jget (s "auth") req = Some (JObj auth) /\
    jget (s "receipt") auth = Some (JStr rh) /\ fromhex rh = Some receipt /\
    jget (s "receipt_merkle_proof") auth = Some (JArr (map JStr ph)) /\
    all_some (map fromhex ph) = Some proof.
Proof.
  intros H. apply validate_auth_ok_iff in H; [|discriminate].
  destruct H as [[_ H]|[auth [Ha [[rh [receipt [Hr [Hrh _]]]] [l [Hl [_ Hf]]]]]]]; [discriminate H|].
  destruct (nonempty_hex_list l Hf) as [ph [proof [-> Hp]]].
  exists auth, rh, receipt, ph, proof. repeat split; assumption.
Qed.

Lemma jget_In (k : str) (m : obj) (v : json) : jget k m = Some v -> In k (map fst m).
Proof.
  unfold jget. induction m as [|[k' v'] r IH]; cbn [assoc_str map fst In]; [discriminate|].
  destruct (str_eqb k k') eqn:E.
  - intros _. left. symmetry. apply str_eqb_eq. exact E.
  - intros H. right. apply IH. exact H.
Qed.

(* a three-member message that has "tx", "input" and "sighashComputationMode" has no other member *)
Lemma three_members_only (m : obj) (k : str) (v1 v2 v3 : json) :
  length m = 3%nat ->
  jget (s "tx") m = Some v1 -> jget (s "input") m = Some v2 -> jget (s "sighashComputationMode") m = Some v3 ->
  k <> s "tx" -> k <> s "input" -> k <> s "sighashComputationMode" ->
  jget k m = None.
Proof.
  intros Hlen H1 H2 H3 N1 N2 N3.
  destruct (jget k m) as [v|] eqn:Hk; [|reflexivity]. exfalso.
  assert (Hnd : NoDup [k; s "tx"; s "input"; s "sighashComputationMode"]).
  { constructor.
    - cbn [In]. intros [E|[E|[E|[]]]]; symmetry in E; contradiction.
    - constructor; [cbn [In]; intros [E|[E|[]]]; vm_compute in E; discriminate E|].
      constructor; [cbn [In]; intros [E|[]]; vm_compute in E; discriminate E|].
      constructor; [intros []|constructor]. }
  assert (Hincl : incl [k; s "tx"; s "input"; s "sighashComputationMode"] (map fst m)).
  { intros y [<-|[<-|[<-|[<-|[]]]]]; eapply jget_In; eassumption. }
  pose proof (NoDup_incl_length Hnd Hincl) as Hle. rewrite map_length, Hlen in Hle. cbn [length] in Hle. lia.
Qed.

Lemma validated_tx (req : obj) :
  validate_message (codes_of V5) req WTx = 0%Z ->
  exists (m : obj) (txh : str) (raw : bytes) (input : Z),
    jget (s "message") req = Some (JObj m) /\
    jget (s "tx") m = Some (JStr txh) /\ fromhex txh = Some raw /\
    jget (s "input") m = Some (JInt input) /\
    ((jget (s "sighashComputationMode") m = Some (JStr (s "legacy")) /\
      jget (s "witnessScript") m = None /\ jget (s "outpointValue") m = None) \/
     (jget (s "sighashComputationMode") m = Some (JStr (s "segwit")) /\
      exists (wsh : str) (ws : bytes) (ov : Z),
        jget (s "witnessScript") m = Some (JStr wsh) /\ fromhex wsh = Some ws /\
        jget (s "outpointValue") m = Some (JInt ov))).
Proof.
  intros H. apply validate_message_ok_iff in H; [|discriminate].
  destruct H as [m [Hm [[Hh _] | [_ [Hs | Hs]]]]]; [discriminate Hh| |].
  - destruct Hs as [Hlen [[txh [raw [Htx [Hraw _]]]] [[z [Hin _]] Hmode]]].
    exists m, txh, raw, z. repeat split; try assumption. left. split; [exact Hmode|].
    split; eapply three_members_only; try eassumption; intros E; vm_compute in E; discriminate E.
  - destruct Hs as [Hlen [[txh [raw [Htx [Hraw _]]]] [[z [Hin _]] [Hmode [[wsh [ws [Hws [Hwsb _]]]] [ov [Hov _]]]]]]].
    exists m, txh, raw, z. repeat split; try assumption. right. split; [exact Hmode|].
    exists wsh, ws, ov. repeat split; assumption.
Qed.

(* sequencing under mres, the continuation only at the world the first computation leaves *)
Lemma mres_bind_at {A B} (f : A -> pv) (g : B -> pv) (m : pm pv) (mm : M A) (k : pv -> pm pv) (kk : A -> M B)
                   (w : world) :
  m w = mres f (mm w) ->
  (forall a w', mm w = (Ok a, w') -> k (f a) w' = mres g (kk a w')) ->
  mbind m k w = mres g (bind mm kk w).
Proof.
  intros Hm Hk. unfold mbind, bind. rewrite Hm. unfold mres.
  destruct (mm w) as [[a|e] w'] eqn:E; cbn [fst snd].
  - rewrite (Hk a w' eq_refl). reflexivity.
  - reflexivity.
Qed.

Lemma validate_auth_cases_v5 (req : obj) (b : bool) :
  validate_auth (codes_of V5) req b = 0%Z \/ validate_auth (codes_of V5) req b = c_invalid_auth (codes_of V5).
Proof. apply C02.validate_auth_cases. Qed.

(* ---------- the model's field accessors on validated requests ---------- *)

Lemma bind_ret_l {A B} (a : A) (f : A -> M B) : bind (ret a) f = f a.
Proof. reflexivity. Qed.

Lemma key_path_ok (req : obj) (x : str) (els : list N) :
  jget (s "keyId") req = Some (JStr x) -> bip32_path x = Some els -> key_path req = ret els.
Proof. intros H1 H2. unfold key_path. rewrite H1, H2. reflexivity. Qed.

Lemma jobj_field_ok (o : obj) (k : str) (x : obj) : jget k o = Some (JObj x) -> jobj_field o k = ret x.
Proof. intros H. unfold jobj_field. rewrite H. reflexivity. Qed.

Lemma jstr_field_ok (o : obj) (k : str) (x : str) : jget k o = Some (JStr x) -> jstr_field o k = ret x.
Proof. intros H. unfold jstr_field. rewrite H. reflexivity. Qed.

Lemma hex_field_ok (o : obj) (k : str) (x : str) (b : bytes) :
  jget k o = Some (JStr x) -> fromhex x = Some b -> hex_field o k = ret b.
Proof. intros H1 H2. unfold hex_field. rewrite (jstr_field_ok _ _ _ H1), bind_ret_l, H2. reflexivity. Qed.

Lemma str_list_field_ok (o : obj) (k : str) (ph : list str) (proof : list bytes) :
  jget k o = Some (JArr (map JStr ph)) -> all_some (map fromhex ph) = Some proof ->
  str_list_field o k = ret proof.
Proof.
  intros H1 H2. unfold str_list_field. rewrite H1, map_map.
  change (map (fun x : str => fromhex x) ph) with (map fromhex ph).
  rewrite H2. reflexivity.
Qed.

Lemma auth_sign_model (req m : obj) (x : str) (els : list N) (auth : obj) (rh : str) (receipt : bytes)
      (ph : list str) (proof : list bytes) (utx : bytes) (input : Z) (mode : str) (ws : bytes) (ov : Z) :
  jget (s "keyId") req = Some (JStr x) -> bip32_path x = Some els ->
  jget (s "auth") req = Some (JObj auth) ->
  jget (s "receipt") auth = Some (JStr rh) -> fromhex rh = Some receipt ->
  jget (s "receipt_merkle_proof") auth = Some (JArr (map JStr ph)) ->
  all_some (map fromhex ph) = Some proof ->
  jget (s "input") m = Some (JInt input) ->
  jget (s "sighashComputationMode") m = Some (JStr mode) ->
  match jget (s "witnessScript") m with
  | Some (JStr x) => of_opt (fromhex x) ValueError | _ => ret [] end = ret ws ->
  match jget (s "outpointValue") m with Some (JInt z) => ret z | _ => ret 0%Z end = ret ov ->
  (p <- key_path req ;;
   auth <- jobj_field req (s "auth") ;;
   receipt <- hex_field auth (s "receipt") ;;
   proof <- str_list_field auth (s "receipt_merkle_proof") ;;
   input <- match jget (s "input") m with
            | Some (JInt z) => ret z | _ => raise (Py KeyError) end ;;
   mode <- jstr_field m (s "sighashComputationMode") ;;
   ws <- match jget (s "witnessScript") m with
         | Some (JStr x) => of_opt (fromhex x) ValueError
         | _ => ret [] end ;;
   ov <- match jget (s "outpointValue") m with
         | Some (JInt z) => ret z | _ => ret 0%Z end ;;
   sign_authorized (path_to_binary p) receipt proof utx input mode ws ov) =
  sign_authorized (path_to_binary els) receipt proof utx input mode ws ov.
Proof.
  intros Hkey Hpath Hauth Hrh Hreceipt Hph Hproof Hinput Hmode Hws Hov.
  rewrite (key_path_ok _ _ _ Hkey Hpath), bind_ret_l.
  rewrite (jobj_field_ok _ _ _ Hauth), bind_ret_l.
  rewrite (hex_field_ok _ _ _ _ Hrh Hreceipt), bind_ret_l.
  rewrite (str_list_field_ok _ _ _ _ Hph Hproof), bind_ret_l.
  rewrite Hinput, bind_ret_l.
  rewrite (jstr_field_ok _ _ _ Hmode), bind_ret_l.
  rewrite Hws, bind_ret_l, Hov, bind_ret_l. reflexivity.
Qed.

Lemma py_dict_get_of_obj (k : str) (kv : obj) :
  Val.py_dict_get (of_obj kv) (VStr k) =
  Val.POk (match jget k kv with Some j => of_json j | None => VNone end).
Proof.
  unfold of_obj, jget. cbn [of_json Val.py_dict_get]. rewrite vassoc_of_json.
  destruct (assoc_str k kv); reflexivity.
Qed.

Lemma of_json_strs (ph : list str) : of_json (JArr (map JStr ph)) = VList (map VStr ph).
Proof. cbn [of_json]. rewrite map_map. reflexivity. Qed.

(* ---------- the unsigned transaction is a byte string: its hex text decodes back to it ---------- *)

From PowHsm Require Import Proofs.BytesLemmas Proofs.BtcTxProofs.

Lemma wfb_app (a b : bytes) : wf_bytes a -> wf_bytes b -> wf_bytes (a ++ b).
Proof. unfold wf_bytes. intros Ha Hb. apply Forall_app. split; assumption. Qed.

Lemma wfb_app_inv (a b : bytes) : wf_bytes (a ++ b) -> wf_bytes a /\ wf_bytes b.
Proof. unfold wf_bytes. intros H. apply Forall_app in H. exact H. Qed.

Lemma wfb_firstn (n : nat) (b : bytes) : wf_bytes b -> wf_bytes (firstn n b).
Proof. intros H. rewrite <- (firstn_skipn n b) in H. apply wfb_app_inv in H. apply H. Qed.

Lemma wfb_skipn (n : nat) (b : bytes) : wf_bytes b -> wf_bytes (skipn n b).
Proof. intros H. rewrite <- (firstn_skipn n b) in H. apply wfb_app_inv in H. apply H. Qed.

Lemma read_n_wf (n : nat) (b a r : bytes) :
  wf_bytes b -> read_n n b = Some (a, r) -> wf_bytes a /\ wf_bytes r.
Proof. intros Hb H. apply read_n_inv in H. destruct H as [-> _]. apply wfb_app_inv. exact Hb. Qed.

Lemma read_varint_wf (b : bytes) (n : N) (r : bytes) :
  wf_bytes b -> read_varint b = Some (n, r) -> wf_bytes r.
Proof.
  intros Hb. destruct b as [|x b]; [discriminate|]. unfold read_varint.
  assert (Hb' : wf_bytes b) by (inversion Hb; assumption).
  destruct (x <? 253)%N. { intro H; inversion H; subst; exact Hb'. }
  cbv zeta.
  match goal with |- context [read_n ?k b] => destruct (read_n k b) as [[v r']|] eqn:E end; [|discriminate].
  intro H; inversion H; subst. apply (read_n_wf _ _ _ _ Hb' E).
Qed.

Lemma read_var_bytes_wf (b d r : bytes) :
  wf_bytes b -> read_var_bytes b = Some (d, r) -> wf_bytes d /\ wf_bytes r.
Proof.
  intros Hb. unfold read_var_bytes. destruct (read_varint b) as [[n r0]|] eqn:E; [|discriminate].
  apply (read_varint_wf _ _ _ Hb) in E. destruct (n <=? nlen r0)%N; [|discriminate].
  intro H. apply (read_n_wf _ _ _ _ E H).
Qed.

Definition bwf_txin (i : txin) : Prop :=
  wf_bytes (in_outpoint i) /\ wf_bytes (in_script i) /\ wf_bytes (in_sequence i).
Definition bwf_txout (o : txout) : Prop := wf_bytes (out_value o) /\ wf_bytes (out_script o).

Lemma read_txin_wf (b : bytes) (i : txin) (r : bytes) :
  wf_bytes b -> read_txin b = Some (i, r) -> bwf_txin i /\ wf_bytes r.
Proof.
  intros Hb. unfold read_txin. destruct (read_n 36 b) as [[op r1]|] eqn:E1; [|discriminate].
  destruct (read_var_bytes r1) as [[sc r2]|] eqn:E2; [|discriminate].
  destruct (read_n 4 r2) as [[sq r3]|] eqn:E3; [|discriminate].
  intro H; inversion H; subst; clear H.
  destruct (read_n_wf _ _ _ _ Hb E1) as [H1 Hr1].
  destruct (read_var_bytes_wf _ _ _ Hr1 E2) as [H2 Hr2].
  destruct (read_n_wf _ _ _ _ Hr2 E3) as [H3 Hr3].
  unfold bwf_txin. cbn. auto.
Qed.

Lemma read_txout_wf (b : bytes) (o : txout) (r : bytes) :
  wf_bytes b -> read_txout b = Some (o, r) -> bwf_txout o /\ wf_bytes r.
Proof.
  intros Hb. unfold read_txout. destruct (read_n 8 b) as [[v r1]|] eqn:E1; [|discriminate].
  destruct (read_var_bytes r1) as [[sc r2]|] eqn:E2; [|discriminate].
  intro H; inversion H; subst; clear H.
  destruct (read_n_wf _ _ _ _ Hb E1) as [H1 Hr1].
  destruct (read_var_bytes_wf _ _ _ Hr1 E2) as [H2 Hr2].
  unfold bwf_txout. cbn. auto.
Qed.

Section ReadItemsWf.
  Context {A : Type} (rd : bytes -> option (A * bytes)) (P : A -> Prop).
  Hypothesis rd_wf : forall b x r, wf_bytes b -> rd b = Some (x, r) -> P x /\ wf_bytes r.

  Lemma read_items_wf (fuel : nat) : forall (n : N) (b : bytes) (l : list A) (r : bytes),
    wf_bytes b -> read_items rd fuel n b = Some (l, r) -> Forall P l /\ wf_bytes r.
  Proof.
    induction fuel as [|f IH]; intros n b l r Hb H.
    - destruct (N.eq_dec n 0) as [->|Hn].
      + rewrite read_items_0 in H. inversion H; subst. auto.
      + rewrite read_items_fuel0 in H by assumption. discriminate.
    - destruct (N.eq_dec n 0) as [->|Hn].
      + rewrite read_items_0 in H. inversion H; subst. auto.
      + rewrite read_items_S in H by assumption.
        destruct (rd b) as [[a r0]|] eqn:E; [|discriminate].
        destruct (read_items rd f (n - 1) r0) as [[l0 r1]|] eqn:E0; [|discriminate].
        inversion H; subst; clear H.
        destruct (rd_wf _ _ _ Hb E) as [Ha Hr0].
        destruct (IH _ _ _ _ Hr0 E0) as [Hl0 Hr]. auto.
  Qed.

  Lemma read_vector_wf (b : bytes) (l : list A) (r : bytes) :
    wf_bytes b -> read_vector rd b = Some (l, r) -> Forall P l /\ wf_bytes r.
  Proof.
    intros Hb. unfold read_vector. destruct (read_varint b) as [[n r0]|] eqn:E; [|discriminate].
    apply (read_varint_wf _ _ _ Hb) in E. apply read_items_wf. exact E.
  Qed.
End ReadItemsWf.

Lemma read_witness_stack_wf (b : bytes) (st : list bytes) (r : bytes) :
  wf_bytes b -> read_witness_stack b = Some (st, r) -> Forall wf_bytes st /\ wf_bytes r.
Proof. unfold read_witness_stack. apply read_vector_wf. exact read_var_bytes_wf. Qed.

Lemma read_witnesses_wf (k : nat) : forall (b : bytes) (w : list (list bytes)) (r : bytes),
  wf_bytes b -> read_witnesses k b = Some (w, r) -> Forall (Forall wf_bytes) w /\ wf_bytes r.
Proof.
  induction k as [|k IH]; intros b w r Hb H; cbn [read_witnesses] in H.
  - inversion H; subst. auto.
  - destruct (read_witness_stack b) as [[st r0]|] eqn:E; [|discriminate].
    destruct (read_witnesses k r0) as [[l r1]|] eqn:E0; [|discriminate].
    inversion H; subst; clear H.
    destruct (read_witness_stack_wf _ _ _ Hb E) as [Hst Hr0].
    destruct (IH _ _ _ Hr0 E0) as [Hl Hr]. auto.
Qed.

Definition bwf_tx (t : tx) : Prop :=
  wf_bytes (tx_version t) /\ Forall bwf_txin (tx_vin t) /\ Forall bwf_txout (tx_vout t) /\
  Forall (Forall wf_bytes) (tx_wit t) /\ wf_bytes (tx_locktime t).

Lemma read_body_wf (sw : bool) (ver body : bytes) (t : tx) :
  wf_bytes ver -> wf_bytes body -> read_body sw ver body = Some t -> bwf_tx t.
Proof.
  intros Hver Hbody. unfold read_body.
  destruct (read_vector read_txin body) as [[vin r2]|] eqn:E1; [|discriminate].
  destruct (read_vector read_txout r2) as [[vout r3]|] eqn:E2; [|discriminate].
  destruct (read_vector_wf read_txin bwf_txin read_txin_wf _ _ _ Hbody E1) as [Hvin Hr2].
  destruct (read_vector_wf read_txout bwf_txout read_txout_wf _ _ _ Hr2 E2) as [Hvout Hr3].
  destruct (if sw then read_witnesses (length vin) r3 else Some ([], r3)) as [[wit r4]|] eqn:E3;
    [|discriminate].
  assert (Hw : Forall (Forall wf_bytes) wit /\ wf_bytes r4).
  { destruct sw.
    - apply (read_witnesses_wf _ _ _ _ Hr3 E3).
    - inversion E3; subst. auto. }
  destruct Hw as [Hwit Hr4].
  destruct (read_n 4 r4) as [[lt [|]]|] eqn:E4; try discriminate.
  intro H; inversion H; subst; clear H.
  destruct (read_n_wf _ _ _ _ Hr4 E4) as [Hlt _].
  unfold bwf_tx. cbn. auto.
Qed.

Lemma deserialize_tx_wf (raw : bytes) (t : tx) : wf_bytes raw -> deserialize_tx raw = Some t -> bwf_tx t.
Proof.
  intros Hraw. rewrite deserialize_tx_body.
  destruct (read_n 4 raw) as [[ver r0]|] eqn:E0; [|discriminate].
  destruct (read_n 2 r0) as [[mf r1]|] eqn:E1; [|discriminate].
  destruct (read_n_wf _ _ _ _ Hraw E0) as [Hver Hr0].
  destruct (read_n_wf _ _ _ _ Hr0 E1) as [Hmf Hr1].
  apply read_body_wf; [exact Hver|]. destruct (bytes_eqb mf [0; 1]%N); assumption.
Qed.

(* serialisation *)
Lemma wfb_concat_map {A} (f : A -> bytes) (l : list A) :
  Forall (fun x => wf_bytes (f x)) l -> wf_bytes (concat (map f l)).
Proof.
  induction 1 as [|x l Hx Hl IH]; cbn [map concat]; [constructor|]. apply wfb_app; assumption.
Qed.

Lemma ser_var_bytes_wf (d : bytes) : wf_bytes d -> wf_bytes (ser_var_bytes d).
Proof. intros H. unfold ser_var_bytes. apply wfb_app; [apply varint_wf|exact H]. Qed.

Lemma ser_txin_wf (i : txin) : bwf_txin i -> wf_bytes (ser_txin i).
Proof.
  intros [H1 [H2 H3]]. unfold ser_txin. apply wfb_app; [exact H1|].
  apply wfb_app; [apply ser_var_bytes_wf; exact H2|exact H3].
Qed.

Lemma ser_txout_wf (o : txout) : bwf_txout o -> wf_bytes (ser_txout o).
Proof. intros [H1 H2]. unfold ser_txout. apply wfb_app; [exact H1|apply ser_var_bytes_wf; exact H2]. Qed.

Lemma ser_stack_wf (st : list bytes) : Forall wf_bytes st -> wf_bytes (ser_stack st).
Proof.
  intros H. unfold ser_stack. apply wfb_app; [apply varint_wf|].
  apply wfb_concat_map. eapply Forall_impl; [|exact H]. intros d. apply ser_var_bytes_wf.
Qed.

Lemma serialize_tx_wf (t : tx) : bwf_tx t -> wf_bytes (serialize_tx t).
Proof.
  intros [Hv [Hin [Hout [Hwit Hlt]]]]. unfold serialize_tx. cbv zeta.
  apply wfb_app; [exact Hv|].
  apply wfb_app.
  { destruct (negb (wit_is_null (tx_wit t))); [|constructor].
    constructor; [lia|]. constructor; [lia|constructor]. }
  apply wfb_app; [apply varint_wf|].
  apply wfb_app. { apply wfb_concat_map. eapply Forall_impl; [|exact Hin]. exact ser_txin_wf. }
  apply wfb_app; [apply varint_wf|].
  apply wfb_app. { apply wfb_concat_map. eapply Forall_impl; [|exact Hout]. exact ser_txout_wf. }
  apply wfb_app; [|exact Hlt].
  destruct (negb (wit_is_null (tx_wit t))); [|constructor].
  apply wfb_concat_map. eapply Forall_impl; [|exact Hwit]. exact ser_stack_wf.
Qed.

(* scripts *)
Definition bwf_op (o : sop) : Prop :=
  match o with
  | OpZero => True
  | OpPush d => wf_bytes d
  | OpSmall n => (n <= 16)%N
  | OpOther c => (c < 256)%N
  end.

Lemma push_hdr_wf (c : N) (r : bytes) (n : N) (r' : bytes) :
  wf_bytes r -> push_hdr c r = Some (n, r') -> wf_bytes r'.
Proof.
  intros Hr. unfold push_hdr. destruct (c <? 76)%N. { intro H; inversion H; subst; exact Hr. }
  destruct (c =? 76)%N.
  { destruct r as [|x r0]; [discriminate|]. intro H; inversion H; subst. inversion Hr; assumption. }
  destruct (c =? 77)%N.
  - destruct (read_n 2 r) as [[v q]|] eqn:E; [|discriminate].
    intro H; inversion H; subst. apply (read_n_wf _ _ _ _ Hr E).
  - destruct (read_n 4 r) as [[v q]|] eqn:E; [|discriminate].
    intro H; inversion H; subst. apply (read_n_wf _ _ _ _ Hr E).
Qed.

Lemma script_step_wf (c : N) (r : bytes) (o : sop) (rest : bytes) :
  (c < 256)%N -> wf_bytes r -> script_step c r = Some (o, rest) -> bwf_op o /\ wf_bytes rest.
Proof.
  intros Hc Hr. unfold script_step. destruct (78 <? c)%N.
  { intro H; inversion H; subst. split; [|exact Hr]. unfold opcode_op.
    destruct ((81 <=? c) && (c <=? 96))%N eqn:E; cbn [bwf_op]; [|exact Hc].
    apply andb_true_iff in E. destruct E as [E1 E2]. apply N.leb_le in E1, E2. lia. }
  destruct (push_hdr c r) as [[n r']|] eqn:E; [|discriminate].
  apply (push_hdr_wf _ _ _ _ Hr) in E.
  destruct (nlen r' <? n)%N; [discriminate|].
  intro H; inversion H; subst. split; [|apply wfb_skipn; exact E].
  destruct (c =? 0)%N; cbn [bwf_op]; [exact I|apply wfb_firstn; exact E].
Qed.

Lemma script_ops_wf (f : nat) : forall (b : bytes) (l : list sop),
  wf_bytes b -> script_ops f b = Some l -> Forall bwf_op l.
Proof.
  induction f as [|f IH]; intros b l Hb H.
  - destruct b as [|c r]; [rewrite script_ops_nil in H; inversion H; constructor|].
    rewrite script_ops_O in H. discriminate.
  - destruct b as [|c r]; [rewrite script_ops_nil in H; inversion H; constructor|].
    rewrite script_ops_S in H. inversion Hb as [|c' r' Hc Hr]; subst.
    destruct (script_step c r) as [[o rest]|] eqn:E; [|discriminate].
    destruct (script_ops f rest) as [l0|] eqn:E0; [|discriminate].
    inversion H; subst; clear H.
    destruct (script_step_wf _ _ _ _ Hc Hr E) as [Ho Hrest].
    constructor; [exact Ho|]. apply (IH _ _ Hrest E0).
Qed.

Lemma encode_push_wf (d : bytes) : wf_bytes d -> wf_bytes (encode_push d).
Proof.
  intros Hd. unfold encode_push. cbv zeta.
  destruct (nlen d <? 76)%N eqn:E1. { apply N.ltb_lt in E1. constructor; [lia|exact Hd]. }
  destruct (nlen d <=? 255)%N eqn:E2.
  { apply N.leb_le in E2. constructor; [lia|]. constructor; [lia|exact Hd]. }
  destruct (nlen d <=? 65535)%N.
  - constructor; [lia|]. apply wfb_app; [apply le_bytes_wf|exact Hd].
  - constructor; [lia|]. apply wfb_app; [apply le_bytes_wf|exact Hd].
Qed.

Lemma encode_op_wf (o : sop) : bwf_op o -> wf_bytes (encode_op o).
Proof.
  destruct o as [|d|n|c]; cbn [bwf_op encode_op]; intros H.
  - constructor; [lia|constructor].
  - apply encode_push_wf. exact H.
  - constructor; [lia|constructor].
  - constructor; [exact H|constructor].
Qed.

Lemma wfb_repeat0 (n : nat) : wf_bytes (repeat 0%N n).
Proof. induction n as [|n IH]; cbn [repeat]; constructor; [lia|exact IH]. Qed.

Lemma clear_script_wf (sc sc' : bytes) : wf_bytes sc -> clear_script sc = Some sc' -> wf_bytes sc'.
Proof.
  intros Hsc H. apply clear_script_shape in H. destruct H as [ops [lastop [Hops ->]]].
  apply (script_ops_wf _ _ _ Hsc) in Hops. apply Forall_app in Hops. destruct Hops as [_ Hl].
  inversion Hl; subst. apply wfb_app; [apply wfb_repeat0|apply encode_op_wf; assumption].
Qed.

Lemma unsign_inputs_wf (l : list txin) : forall l',
  Forall bwf_txin l -> unsign_inputs l = Some l' -> Forall bwf_txin l'.
Proof.
  induction l as [|i r IH]; intros l' Hl H; cbn [unsign_inputs] in H.
  - inversion H. constructor.
  - destruct (clear_script (in_script i)) as [sc|] eqn:E; [|discriminate].
    destruct (unsign_inputs r) as [r'|] eqn:E0; [|discriminate].
    inversion H; subst; clear H. inversion Hl as [|i' r0 Hi Hr]; subst.
    destruct Hi as [H1 [H2 H3]].
    constructor; [|apply IH; [exact Hr|reflexivity]].
    unfold bwf_txin. cbn. split; [exact H1|]. split; [|exact H3].
    apply (clear_script_wf _ _ H2 E).
Qed.

Lemma unsign_tx_wf (raw utx : bytes) : wf_bytes raw -> unsign_tx raw = Some utx -> wf_bytes utx.
Proof.
  intros Hraw H. apply unsign_tx_inv in H. destruct H as [t [vin' [Hd [Hu ->]]]].
  destruct (deserialize_tx_wf _ _ Hraw Hd) as [Hv [Hin [Hout [Hwit Hlt]]]].
  apply serialize_tx_wf. unfold unsigned_of, bwf_tx. cbn.
  split; [exact Hv|]. split; [apply (unsign_inputs_wf _ _ Hin Hu)|]. auto.
Qed.

Lemma unsigned_hex_roundtrip (txh : str) (raw utx : bytes) :
  fromhex txh = Some raw -> unsign_tx raw = Some utx -> fromhex (hex utx) = Some utx.
Proof.
  intros Hraw Hu. apply fromhex_hex'. apply (unsign_tx_wf raw); [|exact Hu].
  apply (C17.fromhex_wf txh). exact Hraw.
Qed.

(* ---------- the side condition follows from the first-stage validation of the gate ---------- *)

Lemma gate_message_absent_or_object (req : obj) :
  (validate_sign_v5 (codes_of V5) req <? 0)%Z = false -> message_absent_or_object req.
Proof.
  unfold validate_sign_v5. cbv zeta.
  destruct (validate_key_id (codes_of V5) req <? 0)%Z eqn:Ek; [intros H; rewrite H in Ek; discriminate Ek|].
  destruct (validate_auth (codes_of V5) req false <? 0)%Z eqn:Ea; [intros H; rewrite H in Ea; discriminate Ea|].
  destruct (C02.validate_message_cases (codes_of V5) req WAny) as [E|E]; rewrite E; [|discriminate].
  intros _. apply validate_message_ok_iff in E; [|discriminate].
  destruct E as [m [Hm _]]. unfold message_absent_or_object. rewrite Hm. exact I.
Qed.
