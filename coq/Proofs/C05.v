(* C05: advance / ancestor update hand the device the client's blocks intact. *)
From PowHsm Require Import Model.BlockOps Proofs.BytesLemmas Proofs.TraceLogic Proofs.RlpProofs
     Proofs.Sha256Proofs.
From Coq Require Import ZifyBool ZifyNat ZifyN Lia Permutation Sorted.
Open Scope N_scope.

(* ==================================================================================== *)
(* 1. brothers_sorted: sort_by_key is a stable sort w.r.t. bytes_leb                      *)
(* ==================================================================================== *)

(* bytes_leb is the lexicographic order on byte strings, a proper prefix being smaller *)
Lemma bytes_leb_refl a : bytes_leb a a = true.
Proof.
  induction a as [|x a IH]; [reflexivity|]. cbn [bytes_leb].
  rewrite N.ltb_irrefl. exact IH.
Qed.

Lemma bytes_leb_total a : forall b, bytes_leb a b = true \/ bytes_leb b a = true.
Proof.
  induction a as [|x a IH]; intros [|y b]; cbn [bytes_leb]; auto.
  destruct (N.ltb_spec x y); auto. destruct (N.ltb_spec y x); auto.
Qed.

Lemma bytes_leb_trans a : forall b c,
  bytes_leb a b = true -> bytes_leb b c = true -> bytes_leb a c = true.
Proof.
  induction a as [|x a IH]; intros [|y b] [|z c]; cbn [bytes_leb]; auto; try discriminate.
  destruct (N.ltb_spec x y), (N.ltb_spec y z), (N.ltb_spec x z); auto; try lia;
    destruct (N.ltb_spec y x); try discriminate; try lia;
    destruct (N.ltb_spec z y); try discriminate; try lia;
    destruct (N.ltb_spec z x); try discriminate; try lia.
  intros; eapply IH; eauto.
Qed.

Lemma bytes_leb_antisym a : forall b,
  bytes_leb a b = true -> bytes_leb b a = true -> a = b.
Proof.
  induction a as [|x a IH]; intros [|y b]; cbn [bytes_leb]; auto; try discriminate.
  destruct (N.ltb_spec x y), (N.ltb_spec y x); try discriminate; try lia.
  intros H1 H2. assert (x = y) by lia. subst. f_equal. auto.
Qed.

(* not (a <= b) means b < a, in particular b <= a and a <> b *)
Lemma bytes_leb_false a b : bytes_leb a b = false -> bytes_leb b a = true /\ a <> b.
Proof.
  intro H. split.
  - destruct (bytes_leb_total a b) as [E|E]; [congruence|exact E].
  - intros ->. rewrite bytes_leb_refl in H. discriminate.
Qed.

Definition keys_sorted (ks : list bytes) : Prop :=
  StronglySorted (fun a b => bytes_leb a b = true) ks.

(* the association list the sort works on *)
Definition sort_pairs {A} (l : list (bytes * A)) : list (bytes * A) :=
  fold_left (fun acc kv => insert_by (fst kv) (snd kv) acc) l [].

Lemma sort_by_key_pairs {A} (l : list (bytes * A)) : sort_by_key l = map snd (sort_pairs l).
Proof. reflexivity. Qed.

Lemma sort_pairs_snoc {A} (l : list (bytes * A)) kv :
  sort_pairs (l ++ [kv]) = insert_by (fst kv) (snd kv) (sort_pairs l).
Proof. unfold sort_pairs. rewrite fold_left_app. reflexivity. Qed.

Lemma insert_by_perm {A} k (v : A) l : Permutation (insert_by k v l) ((k, v) :: l).
Proof.
  induction l as [|[k' v'] l IH]; cbn [insert_by]; [apply Permutation_refl|].
  destruct (bytes_leb k' k); [|apply Permutation_refl].
  eapply perm_trans; [apply perm_skip, IH|apply perm_swap].
Qed.

Lemma sort_pairs_perm {A} (l : list (bytes * A)) : Permutation (sort_pairs l) l.
Proof.
  induction l as [|kv l IH] using rev_ind; [apply Permutation_refl|].
  rewrite sort_pairs_snoc. destruct kv as [k v]. cbn [fst snd].
  eapply perm_trans; [apply insert_by_perm|].
  eapply perm_trans; [apply perm_skip, IH|].
  apply Permutation_cons_append.
Qed.

Lemma insert_by_sorted {A} k (v : A) l :
  keys_sorted (map fst l) -> keys_sorted (map fst (insert_by k v l)).
Proof.
  unfold keys_sorted.
  induction l as [|[k' v'] l IH]; cbn [insert_by map fst]; intro H.
  - constructor; constructor.
  - inversion H as [|? ? Hs Hf]; subst.
    destruct (bytes_leb k' k) eqn:E; cbn [map fst].
    + constructor; [apply IH, Hs|].
      rewrite Forall_forall. intros x Hx.
      assert (Hp : Permutation (map fst (insert_by k v l)) (k :: map fst l)).
      { change (k :: map fst l) with (map fst ((k, v) :: l)).
        apply Permutation_map, insert_by_perm. }
      apply (Permutation_in _ Hp) in Hx. destruct Hx as [<-|Hx]; [exact E|].
      rewrite Forall_forall in Hf. apply Hf, Hx.
    + apply bytes_leb_false in E. destruct E as [E _].
      constructor; [exact H|].
      constructor; [exact E|].
      rewrite Forall_forall in *. intros x Hx. eapply bytes_leb_trans; [exact E|apply Hf, Hx].
Qed.

Lemma sort_pairs_sorted {A} (l : list (bytes * A)) : keys_sorted (map fst (sort_pairs l)).
Proof.
  induction l as [|kv l IH] using rev_ind; [constructor|].
  rewrite sort_pairs_snoc. apply insert_by_sorted, IH.
Qed.

(* stability: the elements carrying any given key appear in their input order *)
Definition with_key {A} (k0 : bytes) (l : list (bytes * A)) : list (bytes * A) :=
  filter (fun kv => bytes_eqb (fst kv) k0) l.

Lemma bytes_eqb_eq a : forall b, bytes_eqb a b = true <-> a = b.
Proof.
  unfold bytes_eqb. induction a as [|x a IH]; intros [|y b]; cbn [list_eqb]; split;
    try discriminate; auto; intro H.
  - apply andb_prop in H. destruct H as [H1 H2]. apply N.eqb_eq in H1. apply IH in H2. congruence.
  - inversion H; subst. rewrite N.eqb_refl. cbn. apply IH. reflexivity.
Qed.

Lemma insert_by_with_key {A} k0 k (v : A) l :
  keys_sorted (map fst l) ->
  with_key k0 (insert_by k v l) = with_key k0 l ++ with_key k0 [(k, v)].
Proof.
  unfold keys_sorted.
  induction l as [|[k' v'] l IH]; cbn [insert_by map fst]; intro H; [reflexivity|].
  inversion H as [|? ? Hs Hf]; subst.
  destruct (bytes_leb k' k) eqn:E.
  - unfold with_key in *. cbn [filter fst]. rewrite (IH Hs).
    destruct (bytes_eqb k' k0); reflexivity.
  - apply bytes_leb_false in E. destruct E as [E Hne].
    unfold with_key. cbn [filter fst app].
    destruct (bytes_eqb k k0) eqn:Ek; [|rewrite app_nil_r; reflexivity].
    apply bytes_eqb_eq in Ek. subst k0.
    (* nothing in (k', v') :: l carries the key k: all keys there are > k *)
    assert (Hnone : forall l', Forall (fun x => bytes_leb k' x = true) (map fst l') ->
                    filter (fun kv : bytes * A => bytes_eqb (fst kv) k) l' = []).
    { induction l' as [|[k2 v2] l' IH']; cbn [map fst filter]; intro HF; [reflexivity|].
      inversion HF; subst.
      destruct (bytes_eqb k2 k) eqn:E2; [|auto].
      apply bytes_eqb_eq in E2. subst k2. exfalso. apply Hne.
      apply bytes_leb_antisym; assumption. }
    rewrite (Hnone l Hf).
    destruct (bytes_eqb k' k) eqn:E2; [|reflexivity].
    apply bytes_eqb_eq in E2. congruence.
Qed.

Lemma sort_pairs_stable {A} (l : list (bytes * A)) k0 :
  with_key k0 (sort_pairs l) = with_key k0 l.
Proof.
  induction l as [|kv l IH] using rev_ind; [reflexivity|].
  rewrite sort_pairs_snoc. destruct kv as [k v]. cbn [fst snd].
  rewrite insert_by_with_key by apply sort_pairs_sorted.
  rewrite IH. unfold with_key. rewrite filter_app. reflexivity.
Qed.

Theorem brothers_sorted {A} (kv : list (bytes * A)) :
  Permutation (sort_by_key kv) (map snd kv)
  /\ (exists skv, sort_by_key kv = map snd skv /\ Permutation skv kv
                  /\ keys_sorted (map fst skv)
                  /\ forall k0, with_key k0 skv = with_key k0 kv).
Proof.
  split.
  - rewrite sort_by_key_pairs. apply Permutation_map, sort_pairs_perm.
  - exists (sort_pairs kv). repeat split.
    + apply sort_pairs_perm.
    + apply sort_pairs_sorted.
    + intro; apply sort_pairs_stable.
Qed.

(* ---- lifted to sort_brothers ---- *)
Lemma all_some_Forall2 {A} (l : list (option A)) r :
  all_some l = Some r -> Forall2 (fun o a => o = Some a) l r.
Proof.
  revert r. induction l as [|[a|] l IH]; cbn [all_some]; intros r H; try discriminate.
  - inversion H. constructor.
  - destruct (all_some l) as [r'|]; [|discriminate]. inversion H; subst.
    constructor; auto.
Qed.

Lemma all_some_map {A B} (f : A -> option B) (l : list A) r :
  all_some (map f l) = Some r -> Forall2 (fun a b => f a = Some b) l r.
Proof.
  intro H. apply all_some_Forall2 in H. remember (map f l) as ml eqn:E.
  revert l E. induction H as [|o b ol r Hob H IH]; intros [|a l2]; cbn [map]; intro E;
    try discriminate; constructor.
  - inversion E as [[E1 E2]]. rewrite <- E1. exact Hob.
  - apply IH. inversion E; reflexivity.
Qed.

(* bl' is sorted ascending by block hash *)
Definition sorted_by_hash (keccak : bytes -> bytes) (bl : list (option bytes)) : Prop :=
  exists hs, map (get_block_hash keccak) bl = map Some hs /\ keys_sorted hs.

Theorem sort_brothers_sorted (keccak : bytes -> bytes) bl bl' :
  sort_brothers keccak bl = Some bl' ->
  Permutation bl' bl /\ sorted_by_hash keccak bl'.
Proof.
  unfold sort_brothers.
  destruct (all_some _) as [kv|] eqn:E; [|discriminate].
  intro H; inversion H; subst bl'; clear H.
  apply all_some_map in E.
  assert (Hsnd : map snd kv = bl /\ Forall (fun p => get_block_hash keccak (snd p) = Some (fst p)) kv).
  { induction E as [|b p bl kv Hb E IH]; [split; [reflexivity|constructor]|].
    destruct IH as [IH1 IH2].
    destruct (get_block_hash keccak b) as [h|] eqn:Eh; [|discriminate].
    inversion Hb; subst p. cbn [map snd]. split; [f_equal; exact IH1|].
    constructor; [exact Eh|exact IH2]. }
  destruct Hsnd as [Hsnd Hall]. split.
  - rewrite <- Hsnd. apply brothers_sorted.
  - exists (map fst (sort_pairs kv)). split; [|apply sort_pairs_sorted].
    rewrite sort_by_key_pairs.
    assert (Hall' : Forall (fun p => get_block_hash keccak (snd p) = Some (fst p)) (sort_pairs kv)).
    { rewrite Forall_forall in *. intros x Hx. apply Hall.
      eapply Permutation_in; [apply sort_pairs_perm|exact Hx]. }
    induction Hall' as [|p l Hp _ IH]; [reflexivity|].
    cbn [map]. rewrite Hp, IH. reflexivity.
Qed.

(* equal hashes keep the client's order *)
Theorem sort_brothers_stable (keccak : bytes -> bytes) bl bl' h :
  sort_brothers keccak bl = Some bl' ->
  filter (fun b => match get_block_hash keccak b with Some h' => bytes_eqb h' h | None => false end) bl'
  = filter (fun b => match get_block_hash keccak b with Some h' => bytes_eqb h' h | None => false end) bl.
Proof.
  unfold sort_brothers.
  destruct (all_some _) as [kv|] eqn:E; [|discriminate].
  intro H; inversion H; subst bl'; clear H.
  apply all_some_map in E.
  assert (Hkv : forall l : list (bytes * option bytes),
            Forall (fun p => get_block_hash keccak (snd p) = Some (fst p)) l ->
            filter (fun b => match get_block_hash keccak b with
                             | Some h' => bytes_eqb h' h | None => false end) (map snd l)
            = map snd (with_key h l)).
  { induction l as [|p l IH]; intro HF; [reflexivity|].
    inversion HF; subst. cbn [map filter with_key]. rewrite H1.
    unfold with_key in IH. destruct (bytes_eqb (fst p) h); cbn [map]; rewrite IH; auto. }
  assert (Hsnd : map snd kv = bl /\ Forall (fun p => get_block_hash keccak (snd p) = Some (fst p)) kv).
  { induction E as [|b p bl kv Hb E IH]; [split; [reflexivity|constructor]|].
    destruct IH as [IH1 IH2].
    destruct (get_block_hash keccak b) as [h0|] eqn:Eh; [|discriminate].
    inversion Hb; subst p. cbn [map snd]. split; [f_equal; exact IH1|].
    constructor; [exact Eh|exact IH2]. }
  destruct Hsnd as [Hsnd Hall].
  rewrite sort_by_key_pairs, <- Hsnd.
  rewrite !Hkv; [rewrite sort_pairs_stable; reflexivity|exact Hall|].
  rewrite Forall_forall in *. intros x Hx. apply Hall.
  eapply Permutation_in; [apply sort_pairs_perm|exact Hx].
Qed.

Example ex_sort_by_key :
  sort_by_key [([2; 1], 10); ([1; 9], 11); ([2], 12); ([1; 9], 13); ([], 14)]
  = [14; 11; 13; 12; 10].
Proof. vm_compute. reflexivity. Qed.

(* ==================================================================================== *)
(* A goal-directed program logic over TraceLogic.news: wp m w Q holds when running m in  *)
(* w yields result r and NEW events n (oldest first) with Q r n.                          *)
(* ==================================================================================== *)

Definition wp {A} (m : M A) (w : world) (Q : result A -> list event -> Prop) : Prop :=
  exists n, news w (snd (m w)) n /\ Q (fst (m w)) n.

Lemma wp_conseq {A} (m : M A) w (Q Q' : result A -> list event -> Prop) :
  wp m w Q -> (forall r n, Q r n -> Q' r n) -> wp m w Q'.
Proof. intros [n [Hn H]] HQ. exists n. auto. Qed.

Lemma wp_ret {A} (a : A) w (Q : result A -> list event -> Prop) : Q (Ok a) [] -> wp (ret a) w Q.
Proof. intro H. exists []. split; [apply news_refl|exact H]. Qed.

Lemma wp_raise {A} e w (Q : result A -> list event -> Prop) : Q (Exn e) [] -> wp (raise e) w Q.
Proof. intro H. exists []. split; [apply news_refl|exact H]. Qed.

Lemma wp_bind {A B} (m : M A) (f : A -> M B) w (Q : result B -> list event -> Prop) :
  wp m w (fun r n => match r with
                     | Ok a => forall w1, wp (f a) w1 (fun r' n' => Q r' (n ++ n'))
                     | Exn e => Q (Exn e) n
                     end) ->
  wp (bind m f) w Q.
Proof.
  intros [n [Hn H]]. unfold wp, bind.
  destruct (m w) as [[a|e] w1]; cbn [fst snd] in *.
  - destruct (H w1) as [n' [Hn' H']]. exists (n ++ n'). split; [eapply news_trans; eauto|exact H'].
  - exists n. auto.
Qed.

Lemma wp_on_error {A} (m : M A) h w (Q : result A -> list event -> Prop) :
  wp m w (fun r n => match r with
                     | Exn (ErrorResult sw) => forall w1, wp (h sw) w1 (fun r' n' => Q r' (n ++ n'))
                     | _ => Q r n
                     end) ->
  wp (on_error_result m h) w Q.
Proof.
  intros [n [Hn H]]. unfold wp, on_error_result, try_catch.
  destruct (m w) as [[a|e] w1]; cbn [fst snd] in *.
  - exists n. auto.
  - destruct e; try (exists n; auto; fail).
    destruct (H w1) as [n' [Hn' H']]. exists (n ++ n'). split; [eapply news_trans; eauto|exact H'].
Qed.

Lemma wp_send cmd data w (Q : result bytes -> list event -> Prop) :
  Q (classify (next_answer w)) [Apdu (CLA :: cmd :: data) (next_answer w)] ->
  wp (send_command cmd data) w Q.
Proof.
  intro H. unfold wp, send_command, next_answer in *.
  destruct (script w) as [|r rest]; cbn [fst snd];
    (eexists; split; [|exact H]); unfold news; reflexivity.
Qed.

Lemma wp_idxM {A} (l : list A) i w (Q : result A -> list event -> Prop) :
  match idx l i with Some a => Q (Ok a) [] | None => Q (Exn (Py IndexError)) [] end ->
  wp (idxM l i) w Q.
Proof. unfold idxM, of_opt. destruct (idx l i); [apply wp_ret|apply wp_raise]. Qed.

(* the last new event is an exchange answered with [Data resp] *)
Definition last_answer (n : list event) (resp : bytes) : Prop :=
  exists n0 b, n = n0 ++ [Apdu b (Data resp)].

Lemma last_answer_app n1 n2 resp : last_answer n2 resp -> last_answer (n1 ++ n2) resp.
Proof. intros (n0 & b & ->). exists (n1 ++ n0), b. rewrite app_assoc. reflexivity. Qed.

Lemma last_answer_cons e n resp : last_answer n resp -> last_answer (e :: n) resp.
Proof. apply (last_answer_app [e]). Qed.

Lemma last_answer_single b resp : last_answer [Apdu b (Data resp)] resp.
Proof. exists [], b. reflexivity. Qed.

Lemma last_answer_unique n r1 r2 : last_answer n r1 -> last_answer n r2 -> r1 = r2.
Proof.
  intros (n1 & b1 & ->) (n2 & b2 & E). apply app_inj_tail in E. destruct E as [_ E].
  inversion E. reflexivity.
Qed.

Lemma classify_ok a r : classify a = Ok r -> a = Data r.
Proof.
  destruct a; cbn [classify]; try discriminate; [congruence|].
  destruct (user_defined sw); discriminate.
Qed.

(* ==================================================================================== *)
(* 2. _send_data_in_chunks                                                                *)
(* ==================================================================================== *)

Section Chunks.
Variables (cmd op : N) (nexts : list N) (full : bool).

(* the loop as a pure function of the script: (result, new events oldest first, script left) *)
Fixpoint chunks_pure (sc : list resp) (rem : bytes) (req : N)
  : result (bool * bytes) * list event * list resp :=
  let n := N.to_nat (N.min req (nlen rem)) in
  let ev a := Apdu (CLA :: cmd :: op :: firstn n rem) a in
  match sc with
  | [] => (Exn DongleTimeout, [ev TimeoutR], [])
  | a :: sc' =>
      match classify a with
      | Exn e => (Exn e, [ev a], sc')
      | Ok r =>
          match idx r OFF_OPn with
          | None => (Exn (Py IndexError), [ev a], sc')
          | Some rop =>
              if negb (mem_N rop (op :: nexts)) then (Ok (false, r), [ev a], sc') else
              if full && negb (rop =? op) && (0 <? nlen (skipn n rem)) then (Ok (false, r), [ev a], sc') else
              if negb (rop =? op) then (Ok (true, r), [ev a], sc') else
              match idx r OFF_DATAn with
              | None => (Exn (Py IndexError), [ev a], sc')
              | Some nreq =>
                  match chunks_pure sc' (skipn n rem) nreq with
                  | (res, evs, sc'') => (res, ev a :: evs, sc'')
                  end
              end
          end
      end
  end.

Lemma chunks_loop_pure : forall fuel sc cn opn tr ci p rp fs rem req,
  (length sc < fuel)%nat ->
  chunks_loop fuel cmd op nexts full rem req (mkWorld sc cn opn tr ci p rp fs)
  = match chunks_pure sc rem req with
    | (res, evs, sc') => (res, mkWorld sc' cn opn (rev evs ++ tr) ci p rp fs)
    end.
Proof.
  induction fuel as [|fuel IH]; intros sc cn opn tr ci p rp fs rem req Hf; [lia|].
  cbn [chunks_loop]. unfold bind at 1. unfold send_command.
  unfold push, set_script, set_trace.
  cbn [script trace connects opened comm_issue pin rand_pins fs_ok].
  destruct sc as [|a sc]; [reflexivity|].
  cbn [chunks_pure]. destruct (classify a) as [r|e]; [|reflexivity].
  unfold bind at 1. unfold idxM at 1. unfold of_opt.
  destruct (idx r OFF_OPn) as [rop|]; [|reflexivity].
  cbn [ret].
  destruct (negb (mem_N rop (op :: nexts))); [reflexivity|].
  destruct (full && negb (rop =? op) && (0 <? nlen (skipn (N.to_nat (N.min req (nlen rem))) rem)));
    [reflexivity|].
  destruct (negb (rop =? op)); [reflexivity|].
  unfold bind at 1. unfold idxM at 1. unfold of_opt.
  destruct (idx r OFF_DATAn) as [nreq|]; [|reflexivity].
  cbn [ret]. rewrite IH by (cbn [length] in Hf; lia).
  destruct (chunks_pure sc _ nreq) as [[res evs] sc''].
  cbn [rev]. rewrite <- app_assoc. reflexivity.
Qed.

(* the fuel of send_data_in_chunks is never exhausted *)
Lemma send_data_in_chunks_pure data initial sc cn opn tr ci p rp fs :
  send_data_in_chunks cmd op nexts data full initial (mkWorld sc cn opn tr ci p rp fs)
  = match chunks_pure sc data initial with
    | (res, evs, sc') => (res, mkWorld sc' cn opn (rev evs ++ tr) ci p rp fs)
    end.
Proof. unfold send_data_in_chunks. cbn [script]. apply chunks_loop_pure. lia. Qed.

(* contiguous slices: every APDU is CLA :: cmd :: op :: next k bytes of what is left *)
Inductive chunk_evs : bytes -> list event -> Prop :=
| ce_nil rem : chunk_evs rem []
| ce_cons rem k a evs :
    chunk_evs (skipn k rem) evs ->
    chunk_evs rem (Apdu (CLA :: cmd :: op :: firstn k rem) a :: evs).

Definition apdu_payload (e : event) : bytes :=
  match e with Apdu b _ => skipn 3 b | _ => [] end.

(* ... hence the chunk payloads, concatenated, are a prefix of the data *)
Lemma firstn_skipn_glue {A} (l : list A) : forall k k',
  firstn k l ++ firstn k' (skipn k l) = firstn (Nat.min k (length l) + k') l.
Proof.
  induction l as [|x l IH]; intros [|k] k'; cbn [firstn skipn length Nat.min app Nat.add];
    try reflexivity.
  f_equal. apply IH.
Qed.

Lemma chunk_evs_prefix rem evs :
  chunk_evs rem evs -> exists k, concat (map apdu_payload evs) = firstn k rem.
Proof.
  induction 1 as [rem|rem k a evs H [k' IH]].
  - exists 0%nat. reflexivity.
  - exists (Nat.min k (length rem) + k')%nat. cbn [map concat apdu_payload skipn]. rewrite IH.
    apply firstn_skipn_glue.
Qed.

(* what a chunk transfer guarantees, whatever the device answers *)
Definition chunk_post (rem : bytes) (r : result (bool * bytes)) (n : list event) : Prop :=
  chunk_evs rem n /\
  forall ok resp, r = Ok (ok, resp) ->
    last_answer n resp /\
    (ok = true -> exists rop, idx resp OFF_OPn = Some rop /\ mem_N rop nexts = true /\ rop <> op).

Lemma chunks_pure_post : forall sc rem req,
  chunk_post rem (fst (fst (chunks_pure sc rem req))) (snd (fst (chunks_pure sc rem req))).
Proof.
  induction sc as [|a sc IH]; intros rem req.
  - cbn [chunks_pure fst snd]. split; [repeat constructor|discriminate].
  - cbn [chunks_pure].
    set (n := N.to_nat (N.min req (nlen rem))).
    assert (H1 : forall x, chunk_evs rem [Apdu (CLA :: cmd :: op :: firstn n rem) x])
      by (intro; repeat constructor).
    destruct (classify a) as [r|e] eqn:Ec; cbn [fst snd]; [|split; [apply H1|discriminate]].
    apply classify_ok in Ec. subst a.
    destruct (idx r OFF_OPn) as [rop|] eqn:Er; cbn [fst snd]; [|split; [apply H1|discriminate]].
    destruct (mem_N rop (op :: nexts)) eqn:Em; cbn [negb fst snd].
    2:{ split; [apply H1|]. intros ok resp E; inversion E; subst. split;
        [apply last_answer_single|discriminate]. }
    destruct (full && negb (rop =? op) && (0 <? nlen (skipn n rem))); cbn [fst snd].
    { split; [apply H1|]. intros ok resp E; inversion E; subst. split;
        [apply last_answer_single|discriminate]. }
    destruct (rop =? op) eqn:Eo; cbn [negb fst snd].
    2:{ split; [apply H1|]. intros ok resp E; inversion E; subst. split;
        [apply last_answer_single|]. intros _. exists rop.
        cbn [mem_N] in Em. rewrite Eo in Em. cbn [orb] in Em.
        apply N.eqb_neq in Eo. auto. }
    destruct (idx r OFF_DATAn) as [nreq|]; cbn [fst snd]; [|split; [apply H1|discriminate]].
    specialize (IH (skipn n rem) nreq).
    destruct (chunks_pure sc (skipn n rem) nreq) as [[res evs] sc'']. cbn [fst snd] in *.
    destruct IH as [IH1 IH2]. split; [constructor; exact IH1|].
    intros ok resp E. destruct (IH2 ok resp E) as [L R]. split; [apply last_answer_cons, L|exact R].
Qed.

Lemma wp_send_data_in_chunks data initial w :
  wp (send_data_in_chunks cmd op nexts data full initial) w (chunk_post data).
Proof.
  destruct w as [sc cn opn tr ci p rp fs]. unfold wp.
  rewrite send_data_in_chunks_pure.
  pose proof (chunks_pure_post sc data initial) as H.
  destruct (chunks_pure sc data initial) as [[res evs] sc']. cbn [fst snd] in *.
  exists evs. split; [reflexivity|exact H].
Qed.

End Chunks.

(* ==================================================================================== *)
(* 3. _send_block_header                                                                  *)
(* ==================================================================================== *)

(* n.to_bytes(k, 'big') *)
Definition be (k : nat) (n : N) : bytes := rev (le_bytes k n).

Lemma from_bytes_be_be k n : n < 256 ^ N.of_nat k -> from_bytes_be (be k n) = n.
Proof.
  intro H. pose proof (from_bytes_le_le_bytes k n) as Hr. unfold from_bytes_le in Hr.
  unfold be. rewrite Hr. apply N.mod_small. exact H.
Qed.

Lemma to_bytes_be_N k n :
  to_bytes_be k (Z.of_N n) = if n <? 256 ^ N.of_nat k then Some (be k n) else None.
Proof.
  unfold to_bytes_be, to_bytes_le, be.
  destruct (Z.ltb_spec (Z.of_N n) 0); [lia|]. rewrite N2Z.id.
  destruct (n <? 256 ^ N.of_nat k); reflexivity.
Qed.

Lemma to_bytes_be_nat k n :
  to_bytes_be k (Z.of_nat n) =
  if N.of_nat n <? 256 ^ N.of_nat k then Some (be k (N.of_nat n)) else None.
Proof. rewrite <- to_bytes_be_N. f_equal. lia. Qed.

Section Header.
Variable o : blockop.

(* the metadata of THIS block: big-endian 16-bit merge-mining RLP payload length and, for
   advance, the hash of the compressed coinbase transaction held in the block's last field *)
Definition meta_ok (b payload : bytes) : Prop :=
  exists mm cbh,
    rlp_mm_payload_size (Some b) = Some mm /\ mm < 65536 /\ payload = be 2 mm ++ cbh /\
    if bo_is_advance o
    then exists tx, get_coinbase_txn (Some b) = CbOk tx /\ coinbase_tx_get_hash tx = Some cbh
    else cbh = [].

Variable is_brother : bool.
Let op_meta := if is_brother then bo_op_bro_meta o else bo_op_header_meta o.
Let op_chunk := if is_brother then bo_op_bro_chunk o else bo_op_header_chunk o.
Let nexts := if is_brother then bo_next_brother o else bo_next_block o.

(* the APDUs of one header: its metadata, then contiguous slices of its own bytes *)
Definition hdr_evs (b : bytes) (n : list event) : Prop :=
  exists payload a evs,
    meta_ok b payload /\
    n = Apdu (CLA :: bo_cmd o :: op_meta :: payload) a :: evs /\
    chunk_evs (bo_cmd o) op_chunk b evs.

Definition hdr_done (r : result (bytes + Z)) (n : list event) : Prop :=
  forall resp, r = Ok (inl resp) ->
    last_answer n resp /\
    exists rop, idx resp OFF_OPn = Some rop /\ mem_N rop nexts = true /\ rop <> op_chunk.

Definition hdr_post (raw : option bytes) (r : result (bytes + Z)) (n : list event) : Prop :=
  (n = [] /\ (forall b p, raw = Some b -> ~ meta_ok b p) /\ (forall resp, r <> Ok (inl resp))
   /\ (bo_meta_catches_overflow o = true -> COINBASE_LIST_IS_VALUEERROR = true ->
       r = Ok (inr (bo_compute_meta o))))
  \/ (exists b, raw = Some b /\ hdr_evs b n /\ hdr_done r n).

Lemma wp_header_rest b mmb cbh w :
  meta_ok b (mmb ++ cbh) ->
  wp (a <- on_error_result
                 (r <- send_command (bo_cmd o) (op_meta :: mmb ++ cbh) ;;
                  rop <- idxM r OFF_OPn ;;
                  if negb (rop =? op_chunk) then ret (inr (bo_unexpected o)) else
                  q <- idxM r OFF_DATAn ;; ret (inl q))
                 (fun sw => ret (inr (lookup_err sw (bo_meta_errs o) (bo_meta_default o)))) ;;
          match a with
          | inr c => ret (inr c)
          | inl req =>
              on_error_result
                (cr <- send_data_in_chunks (bo_cmd o) op_chunk nexts b false req ;;
                 if fst cr then ret (inl (snd cr)) else ret (inr (bo_unexpected o)))
                (fun sw => ret (inr (match assoc_N sw (bo_chunk_errors o) with
                                     | Some c => c | None => bo_chunk_default o end)))
          end) w (hdr_post (Some b)).
Proof.
  intro Hm.
  assert (Hfail : forall (r : result (bytes + Z)) a,
             (forall resp, r <> Ok (inl resp)) ->
             hdr_post (Some b) r [Apdu (CLA :: bo_cmd o :: op_meta :: mmb ++ cbh) a]).
  { intros r a Hr. right. exists b. split; [reflexivity|]. split.
    - exists (mmb ++ cbh), a, []. repeat split; [exact Hm|constructor].
    - intros resp E. destruct (Hr resp E). }
  apply wp_bind, wp_on_error, wp_bind, wp_send.
  destruct (classify (next_answer w)) as [r|e].
  2:{ destruct e; try (apply Hfail; discriminate).
      intro w1. apply wp_ret. intro w2. apply wp_ret. apply Hfail. discriminate. }
  intro w1. apply wp_bind, wp_idxM.
  destruct (idx r OFF_OPn) as [rop|]; [|apply Hfail; discriminate].
  intro w2. destruct (negb (rop =? op_chunk)).
  { apply wp_ret. intro w3. apply wp_ret. apply Hfail. discriminate. }
  apply wp_bind, wp_idxM.
  destruct (idx r OFF_DATAn) as [req|]; [|apply Hfail; discriminate].
  intro w3. apply wp_ret. intro w4.
  apply wp_on_error, wp_bind.
  eapply wp_conseq; [apply wp_send_data_in_chunks|].
  intros cr n [Hev Hres]. cbn [app].
  assert (Hevs : hdr_evs b (Apdu (CLA :: bo_cmd o :: op_meta :: mmb ++ cbh) (next_answer w) :: n)).
  { exists (mmb ++ cbh), (next_answer w), n. auto. }
  destruct cr as [[ok resp]|e].
  - intro w5. cbn [fst snd]. destruct (Hres ok resp eq_refl) as [Hl Hok].
    destruct ok; apply wp_ret; rewrite app_nil_r; right; exists b; (split; [reflexivity|]);
      (split; [exact Hevs|]); intros resp' E; inversion E; subst resp'.
    split; [apply last_answer_cons, Hl|apply Hok; reflexivity].
  - assert (Hd : forall r' : result (bytes + Z), (forall resp, r' <> Ok (inl resp)) ->
                 hdr_post (Some b) r'
                   (Apdu (CLA :: bo_cmd o :: op_meta :: mmb ++ cbh) (next_answer w) :: n)).
    { intros r' Hr'. right. exists b. split; [reflexivity|]. split; [exact Hevs|].
      intros resp E. destruct (Hr' resp E). }
    destruct e; try (apply Hd; discriminate).
    intro w5. apply wp_ret. rewrite app_nil_r. apply Hd. discriminate.
Qed.

Lemma wp_send_block_header raw w :
  wp (send_block_header o is_brother raw) w (hdr_post raw).
Proof.
  assert (Hnone : forall (r : result (bytes + Z)),
             (forall b p, raw = Some b -> ~ meta_ok b p) ->
             (forall resp, r <> Ok (inl resp)) ->
             (bo_meta_catches_overflow o = true -> COINBASE_LIST_IS_VALUEERROR = true ->
              r = Ok (inr (bo_compute_meta o))) ->
             hdr_post raw r []).
  { intros r H1 H2 H3. left. auto. }
  unfold send_block_header. fold op_meta op_chunk nexts.
  destruct (rlp_mm_payload_size raw) as [mm|] eqn:Emm.
  2:{ apply wp_ret, Hnone; [|discriminate|reflexivity].
      intros b p -> (mm' & cbh & H1 & _). congruence. }
  rewrite to_bytes_be_N. change (256 ^ N.of_nat 2) with 65536.
  destruct (N.ltb_spec mm 65536) as [Hlt|Hge].
  2:{ assert (Hno : forall b p, raw = Some b -> ~ meta_ok b p).
      { intros b p -> (mm' & cbh & H1 & H2 & _). assert (mm' = mm) by congruence. lia. }
      destruct (bo_meta_catches_overflow o) eqn:Ec; [apply wp_ret|apply wp_raise];
        apply Hnone; auto; try discriminate. }
  destruct raw as [b|].
  2:{ unfold rlp_mm_payload_size, remove_mm_fields in Emm. discriminate. }
  apply wp_bind.
  destruct (bo_is_advance o) eqn:Eadv.
  - destruct (get_coinbase_txn (Some b)) as [tx| |] eqn:Ecb.
    + destruct (coinbase_tx_get_hash tx) as [h|] eqn:Eh; apply wp_ret; intro w1; cbn [app].
      * eapply wp_conseq; [apply wp_header_rest|auto].
        exists mm, h. rewrite Eadv. repeat split; auto. exists tx. auto.
      * apply wp_ret, Hnone; [|discriminate|reflexivity].
        intros b' p E (mm' & cbh & _ & _ & _ & H4). inversion E; subst b'.
        rewrite Eadv in H4. destruct H4 as (tx' & E1 & E2). congruence.
    + apply wp_ret; intro w1. apply wp_ret, Hnone; [|discriminate|reflexivity].
      intros b' p E (mm' & cbh & _ & _ & _ & H4). inversion E; subst b'.
      rewrite Eadv in H4. destruct H4 as (tx' & E1 & E2). congruence.
    + assert (Hno : forall b' p, Some b = Some b' -> ~ meta_ok b' p).
      { intros b' p E (mm' & cbh & _ & _ & _ & H4). inversion E; subst b'.
        rewrite Eadv in H4. destruct H4 as (tx' & E1 & E2). congruence. }
      destruct COINBASE_LIST_IS_VALUEERROR eqn:Ecl.
      * apply wp_ret; intro w1. apply wp_ret, Hnone; [exact Hno|discriminate|reflexivity].
      * apply wp_raise, Hnone; [exact Hno|discriminate|]. intros _ E. discriminate.
  - apply wp_ret; intro w1; cbn [app].
    eapply wp_conseq; [apply wp_header_rest|auto].
    exists mm, []. rewrite Eadv. repeat split; auto.
Qed.

End Header.

(* ==================================================================================== *)
(* 4. _do_block_operation                                                                 *)
(* ==================================================================================== *)

Lemma be_1 n : n < 256 -> be 1 n = [n].
Proof. intro H. unfold be. cbn [le_bytes rev app]. rewrite N.mod_small by exact H. reflexivity. Qed.

Section Blocks.
Variable o : blockop.

(* brothers go out in the order of the list given, each as a complete header exchange;
   the device (or an error) may stop the sequence after any of them *)
Inductive bros_evs : list (option bytes) -> list event -> Prop :=
| bre_stop bl : bros_evs bl []
| bre_cons b bl n1 n2 :
    hdr_evs o true b n1 -> bros_evs bl n2 -> bros_evs (Some b :: bl) (n1 ++ n2).

Lemma wp_send_brothers bl : forall last w,
  wp (send_brothers o bl last) w
     (fun r n => bros_evs bl n /\
                 forall resp, r = Ok (inl resp) -> (n = [] /\ resp = last) \/ last_answer n resp).
Proof.
  induction bl as [|b bl IH]; intros last w; cbn [send_brothers].
  - apply wp_ret. split; [constructor|]. intros resp E. inversion E. auto.
  - apply wp_bind. eapply wp_conseq; [apply wp_send_block_header|].
    intros r n [(-> & _ & Hr & _)|(b' & -> & Hev & Hdone)].
    + destruct r as [[resp|c]|e].
      * destruct (Hr resp eq_refl).
      * intro w1. apply wp_ret. split; [constructor|discriminate].
      * split; [constructor|discriminate].
    + destruct r as [[resp|c]|e].
      * intro w1. eapply wp_conseq; [apply IH|]. intros r' n' [H1 H2].
        split; [constructor; assumption|].
        intros resp' E. right. destruct (H2 resp' E) as [[-> ->]|L].
        -- rewrite app_nil_r. apply (Hdone resp eq_refl).
        -- apply last_answer_app, L.
      * intro w1. apply wp_ret. rewrite app_nil_r. split; [|discriminate].
        rewrite <- (app_nil_r n). constructor; [assumption|constructor].
      * split; [|discriminate]. rewrite <- (app_nil_r n). constructor; [assumption|constructor].
Qed.

(* after the header exchange n1 of block i: nothing, or -- only for advance and only when the
   device's last answer asked for it -- the brother count of THAT block then its brothers *)
Definition asked (n1 : list event) : Prop :=
  bo_is_advance o = true /\
  exists resp, last_answer n1 resp /\ idx resp OFF_OPn = Some (bo_op_bro_list_meta o).

Definition bro_part (bros : list (list (option bytes))) (n1 n2 : list event) : Prop :=
  n2 = [] \/
  (bo_is_advance o = true /\
   exists resp bl a n2',
     last_answer n1 resp /\ idx resp OFF_OPn = Some (bo_op_bro_list_meta o) /\
     idx bros 0 = Some bl /\ (length bl < 256)%nat /\
     n2 = Apdu (CLA :: bo_cmd o :: bo_op_bro_list_meta o :: [N.of_nat (length bl)]) a :: n2' /\
     bros_evs bl n2').

Lemma wp_bro_part bros n1 resp rop w :
  last_answer n1 resp -> idx resp OFF_OPn = Some rop ->
  wp (if bo_is_advance o && (rop =? bo_op_bro_list_meta o) then
        bl <- of_opt (idx bros 0) IndexError ;;
        match to_bytes_be 1 (Z.of_nat (length bl)) with
        | None => match ADV_BROCOUNT_OVERFLOW_RESULT with
                  | Some c => ret (inr c) | None => raise (Py OverflowError) end
        | Some cnt =>
        a <- on_error_result
               (r <- send_command (bo_cmd o) (bo_op_bro_list_meta o :: cnt) ;;
                (if (0 <? length bl)%nat then
                   rop2 <- idxM r OFF_OPn ;;
                   if negb (rop2 =? bo_op_bro_meta o) then ret (inr (bo_unexpected o))
                   else ret (inl r)
                 else ret (inl r)))
               (fun sw => ret (inr (lookup_err sw (bo_brolist_errs o)
                                               (bo_brolist_default o)))) ;;
        match a with
        | inr c => ret (inr c)
        | inl r => send_brothers o bl r
        end
        end
      else ret (inl resp)) w
     (fun (r2 : result (bytes + Z)) n2 =>
        bro_part bros n1 n2 /\
        forall resp2, r2 = Ok (inl resp2) ->
          last_answer (n1 ++ n2) resp2 /\ (asked n1 -> n2 <> [])).
Proof.
  intros Hl Hrop.
  assert (Hskip : ~ asked n1 -> forall w', wp (ret (inl resp)) w'
            (fun (r2 : result (bytes + Z)) n2 =>
               bro_part bros n1 n2 /\
               forall resp2, r2 = Ok (inl resp2) ->
                 last_answer (n1 ++ n2) resp2 /\ (asked n1 -> n2 <> []))).
  { intros Hna w'. apply wp_ret. split; [left; reflexivity|].
    intros resp2 E; inversion E; subst. rewrite app_nil_r. split; [exact Hl|].
    intro Ha. destruct (Hna Ha). }
  destruct (bo_is_advance o) eqn:Eadv.
  2:{ apply Hskip. intros [Ha _]. congruence. }
  destruct (N.eqb_spec rop (bo_op_bro_list_meta o)) as [->|Hne].
  2:{ apply Hskip. intros [_ (resp' & L' & I')].
      rewrite (last_answer_unique _ _ _ L' Hl) in I'. congruence. }
  cbn [andb]. apply wp_bind. unfold of_opt.
  destruct (idx bros 0) as [bl|] eqn:Ebl.
  2:{ apply wp_raise. split; [left; reflexivity|discriminate]. }
  apply wp_ret. intro w1. rewrite to_bytes_be_nat. change (256 ^ N.of_nat 1) with 256.
  destruct (N.ltb_spec (N.of_nat (length bl)) 256) as [Hlt|Hge].
  2:{ destruct ADV_BROCOUNT_OVERFLOW_RESULT; [apply wp_ret|apply wp_raise];
        (split; [left; reflexivity|discriminate]). }
  rewrite be_1 by exact Hlt.
  assert (Hpart : forall a n2', bros_evs bl n2' ->
            bro_part bros n1 (Apdu (CLA :: bo_cmd o :: bo_op_bro_list_meta o
                                    :: [N.of_nat (length bl)]) a :: n2')).
  { intros a n2' Hb. right. split; [exact Eadv|].
    exists resp, bl, a, n2'. repeat split; auto. lia. }
  assert (Hfail : forall (r2 : result (bytes + Z)) a,
            (forall x, r2 <> Ok (inl x)) ->
            bro_part bros n1 [Apdu (CLA :: bo_cmd o :: bo_op_bro_list_meta o
                                    :: [N.of_nat (length bl)]) a] /\
            forall resp2, r2 = Ok (inl resp2) ->
              last_answer (n1 ++ [Apdu (CLA :: bo_cmd o :: bo_op_bro_list_meta o
                                        :: [N.of_nat (length bl)]) a]) resp2 /\
              (asked n1 -> [Apdu (CLA :: bo_cmd o :: bo_op_bro_list_meta o
                                        :: [N.of_nat (length bl)]) a] <> [])).
  { intros r2 a Hr. split; [apply Hpart; constructor|]. intros x E. destruct (Hr x E). }
  assert (Hbros : forall r w', wp (send_brothers o bl r) w'
            (fun (r2 : result (bytes + Z)) n' =>
               bro_part bros n1 (Apdu (CLA :: bo_cmd o :: bo_op_bro_list_meta o
                                       :: [N.of_nat (length bl)]) (Data r) :: n') /\
               forall resp2, r2 = Ok (inl resp2) ->
                 last_answer (n1 ++ Apdu (CLA :: bo_cmd o :: bo_op_bro_list_meta o
                                          :: [N.of_nat (length bl)]) (Data r) :: n') resp2 /\
                 (asked n1 -> Apdu (CLA :: bo_cmd o :: bo_op_bro_list_meta o
                                          :: [N.of_nat (length bl)]) (Data r) :: n' <> []))).
  { intros r w'. eapply wp_conseq; [apply wp_send_brothers|]. intros r2 n' [H1 H2].
    split; [apply Hpart, H1|]. intros resp2 E. split; [|discriminate]. apply last_answer_app.
    destruct (H2 resp2 E) as [[-> ->]|L]; [apply last_answer_single|apply last_answer_cons, L]. }
  cbn [app]. apply wp_bind, wp_on_error, wp_bind, wp_send.
  destruct (classify (next_answer w1)) as [r|e] eqn:Ec.
  2:{ destruct e; try (apply Hfail; discriminate).
      intro w2. apply wp_ret. intro w3. apply wp_ret. apply Hfail. discriminate. }
  apply classify_ok in Ec. rewrite Ec. intro w2.
  destruct (0 <? length bl)%nat.
  - apply wp_bind, wp_idxM. destruct (idx r OFF_OPn) as [rop2|]; [|apply Hfail; discriminate].
    intro w3. destruct (negb (rop2 =? bo_op_bro_meta o)).
    + apply wp_ret. intro w4. apply wp_ret. apply Hfail. discriminate.
    + apply wp_ret. intro w4. cbn [app]. apply Hbros.
  - apply wp_ret. intro w3. cbn [app]. apply Hbros.
Qed.

(* the per-block part of the trace: blocks in the client's order, each as its own header
   exchange (metadata of that block, then that block's bytes), optionally followed by its
   brothers; the operation may stop after any block *)
Inductive blocks_evs : list (option bytes) -> list (list (option bytes)) -> list event -> Prop :=
| bev_stop blocks bros : blocks_evs blocks bros []
| bev_block b rest bros n1 n2 n3 :
    hdr_evs o false b n1 -> bro_part bros n1 n2 -> blocks_evs rest (tl bros) n3 ->
    (asked n1 -> n2 = [] -> n3 = []) ->      (* a request for brothers is never skipped *)
    blocks_evs (Some b :: rest) bros (n1 ++ n2 ++ n3).

(* a (True, c) result: the last consumed answer carried the matching success opcode *)
Definition final_ok (n : list event) (c : Z) : Prop :=
  exists resp rop,
    last_answer n resp /\ idx resp OFF_OPn = Some rop /\
    ((bo_is_advance o = true /\ rop = bo_op_partial o /\ c = bo_ok_partial o) \/
     (rop = bo_op_success o /\ c = bo_ok_total o /\
      ~ (bo_is_advance o = true /\ rop = bo_op_partial o))).

(* on success every block that was started was taken to completion: the trace is a sequence
   of complete groups (header exchange, then the brothers whenever the device asked) *)
Inductive blocks_done : list (option bytes) -> list (list (option bytes)) -> list event -> Prop :=
| bd_last b rest bros n1 n2 :
    hdr_evs o false b n1 -> bro_part bros n1 n2 -> (asked n1 -> n2 <> []) ->
    blocks_done (Some b :: rest) bros (n1 ++ n2)
| bd_block b rest bros n1 n2 n3 :
    hdr_evs o false b n1 -> bro_part bros n1 n2 -> (asked n1 -> n2 <> []) ->
    blocks_done rest (tl bros) n3 ->
    blocks_done (Some b :: rest) bros (n1 ++ n2 ++ n3).

Definition success_post blocks bros (n : list event) (c : Z) : Prop :=
  final_ok n c /\ blocks_done blocks bros n.

Definition loop_post blocks bros (r : result bo_result) (n : list event) : Prop :=
  blocks_evs blocks bros n /\ forall c, r = Ok (true, c) -> success_post blocks bros n c.

Lemma blocks_evs_one b rest bros n1 n2 :
  hdr_evs o false b n1 -> bro_part bros n1 n2 -> blocks_evs (Some b :: rest) bros (n1 ++ n2).
Proof.
  intros H1 H2. rewrite <- (app_nil_r n2). constructor; [assumption|assumption|constructor|auto].
Qed.

Lemma wp_block_loop blocks : forall bros w, wp (block_loop o blocks bros) w (loop_post blocks bros).
Proof.
  induction blocks as [|blk rest IH]; intros bros w; cbn [block_loop].
  - apply wp_raise. split; [constructor|discriminate].
  - apply wp_bind. eapply wp_conseq; [apply wp_send_block_header|].
    intros r n1 [(-> & _ & Hr & _)|(b & -> & Hev & Hdone)].
    + destruct r as [[resp|c]|e].
      * destruct (Hr resp eq_refl).
      * intro w1. apply wp_ret. split; [constructor|discriminate].
      * split; [constructor|discriminate].
    + assert (Hone : blocks_evs (Some b :: rest) bros n1).
      { rewrite <- (app_nil_r n1). apply blocks_evs_one; [assumption|left; reflexivity]. }
      destruct r as [[resp|c]|e].
      2:{ intro w1. apply wp_ret. rewrite app_nil_r. split; [exact Hone|discriminate]. }
      2:{ split; [exact Hone|discriminate]. }
      destruct (Hdone resp eq_refl) as [Hl (rop & Hrop & _)].
      intro w1. apply wp_bind, wp_idxM. rewrite Hrop. intro w2. apply wp_bind.
      eapply wp_conseq; [apply (wp_bro_part bros n1 resp rop w2 Hl Hrop)|].
      intros r2 n2 [Hbp Hl2]. cbn [app].
      assert (Htwo : blocks_evs (Some b :: rest) bros (n1 ++ n2))
        by (apply blocks_evs_one; assumption).
      destruct r2 as [[resp2|c]|e].
      2:{ intro w3. apply wp_ret. rewrite app_nil_r. split; [exact Htwo|discriminate]. }
      2:{ split; [exact Htwo|discriminate]. }
      destruct (Hl2 resp2 eq_refl) as [Hl2' Hasked]. clear Hl2. rename Hl2' into Hl2.
      intro w3. apply wp_bind, wp_idxM.
      destruct (idx resp2 OFF_OPn) as [rop3|] eqn:Erop3.
      2:{ rewrite app_nil_r. split; [exact Htwo|discriminate]. }
      intro w4. cbn [app].
      destruct (bo_is_advance o && (rop3 =? bo_op_partial o)) eqn:Ep.
      { apply wp_ret. rewrite !app_nil_r. split; [exact Htwo|].
        intros c E. inversion E; subst c. split; [|constructor; assumption].
        exists resp2, rop3. repeat split; auto.
        left. apply andb_prop in Ep. destruct Ep as [E1 E2]. apply N.eqb_eq in E2. auto. }
      destruct (N.eqb_spec rop3 (bo_op_success o)) as [Es|Es].
      { apply wp_ret. rewrite !app_nil_r. split; [exact Htwo|].
        intros c E. inversion E; subst c. split; [|constructor; assumption].
        exists resp2, rop3. repeat split; auto.
        right. repeat split; auto. intros [E1 E2]. rewrite E1 in Ep.
        apply N.eqb_eq in E2. rewrite E2 in Ep. discriminate. }
      eapply wp_conseq; [apply IH|]. intros r' n3 [H1 H2]. split.
      * constructor; try assumption. intros Ha E. destruct (Hasked Ha E).
      * intros c E. destruct (H2 c E) as ((resp' & rop' & L & R) & Hd). split.
        -- exists resp', rop'. split; [|exact R]. apply last_answer_app, last_answer_app, L.
        -- constructor; assumption.
Qed.

Definition op_post blocks bros (r : result bo_result) (n : list event) : Prop :=
  (n = [] /\ 2 ^ 32 <= N.of_nat (length blocks) /\ r = Exn (Py OverflowError))
  \/ (N.of_nat (length blocks) < 2 ^ 32 /\
      exists a n',
        n = Apdu (CLA :: bo_cmd o :: bo_op_init o :: be 4 (N.of_nat (length blocks))) a :: n' /\
        blocks_evs blocks bros n' /\
        forall c, r = Ok (true, c) -> success_post blocks bros n' c).

Lemma wp_do_block_operation blocks bros w :
  wp (do_block_operation o blocks bros) w (op_post blocks bros).
Proof.
  unfold do_block_operation. rewrite to_bytes_be_nat.
  change (256 ^ N.of_nat 4) with (2 ^ 32).
  destruct (N.ltb_spec (N.of_nat (length blocks)) (2 ^ 32)) as [Hlt|Hge]; cbn [of_opt].
  2:{ apply wp_bind, wp_raise. left. auto. }
  apply wp_bind, wp_ret. intro w1. cbn [app].
  assert (Hfail : forall (r : result bo_result) a, (forall c, r <> Ok (true, c)) ->
            op_post blocks bros r
              [Apdu (CLA :: bo_cmd o :: bo_op_init o :: be 4 (N.of_nat (length blocks))) a]).
  { intros r a Hr. right. split; [exact Hlt|]. exists a, [].
    split; [reflexivity|]. split; [constructor|]. intros c E. destruct (Hr c E). }
  apply wp_bind, wp_on_error, wp_bind, wp_send.
  destruct (classify (next_answer w1)) as [r|e].
  2:{ destruct e; try (apply Hfail; discriminate).
      intro w2. apply wp_ret. intro w3. apply wp_ret. apply Hfail. discriminate. }
  intro w2. apply wp_bind, wp_idxM.
  destruct (idx r OFF_OPn) as [rop|]; [|apply Hfail; discriminate].
  intro w3. destruct (negb (rop =? bo_op_header_meta o)).
  { apply wp_ret. intro w4. apply wp_ret. apply Hfail. discriminate. }
  apply wp_ret. intro w4. cbn [app].
  eapply wp_conseq; [apply wp_block_loop|]. intros r' n' [H1 H2].
  right. split; [exact Hlt|]. exists (next_answer w1), n'. auto.
Qed.

End Blocks.

(* ==================================================================================== *)
(* The C05 statements                                                                     *)
(* ==================================================================================== *)

Lemma COINBASE_LIST_IS_VALUEERROR_true : COINBASE_LIST_IS_VALUEERROR = true.
Proof. vm_compute. reflexivity. Qed.

Lemma meta_ok_unique o b p1 p2 : meta_ok o b p1 -> meta_ok o b p2 -> p1 = p2.
Proof.
  intros (mm1 & c1 & A1 & _ & -> & D1) (mm2 & c2 & A2 & _ & -> & D2).
  assert (mm1 = mm2) by congruence. subst mm2. f_equal.
  destruct (bo_is_advance o).
  - destruct D1 as (tx1 & E1 & F1), D2 as (tx2 & E2 & F2).
    assert (tx1 = tx2) by congruence. subst. congruence.
  - congruence.
Qed.

(* 3a. each header is preceded by metadata that matches THAT header, and is followed only by
   contiguous slices of its own bytes, whatever the device answers *)
Theorem send_block_header_trace o is_brother b payload w :
  meta_ok o b payload ->
  wp (send_block_header o is_brother (Some b)) w
     (fun r n =>
        exists a evs,
          n = Apdu (CLA :: bo_cmd o
                    :: (if is_brother then bo_op_bro_meta o else bo_op_header_meta o)
                    :: payload) a :: evs /\
          chunk_evs (bo_cmd o) (if is_brother then bo_op_bro_chunk o else bo_op_header_chunk o) b evs /\
          (exists k, concat (map apdu_payload evs) = firstn k b) /\
          hdr_done o is_brother r n).
Proof.
  intro Hm. eapply wp_conseq; [apply wp_send_block_header|].
  intros r n [(_ & Hno & _)|(b' & E & (p & a & evs & Hp & -> & Hc) & Hd)].
  - destruct (Hno b payload eq_refl Hm).
  - inversion E; subst b'. rewrite (meta_ok_unique o b payload p Hm Hp).
    exists a, evs. split; [reflexivity|]. split; [exact Hc|].
    split; [eapply chunk_evs_prefix; eauto|exact Hd].
Qed.

(* 3b. no metadata, nothing sent *)
Theorem send_block_header_no_meta o is_brother raw w :
  (forall b p, raw = Some b -> ~ meta_ok o b p) ->
  bo_meta_catches_overflow o = true ->
  wp (send_block_header o is_brother raw) w
     (fun r n => n = [] /\ r = Ok (inr (bo_compute_meta o))).
Proof.
  intros Hno Hc. eapply wp_conseq; [apply wp_send_block_header|].
  intros r n [(-> & _ & _ & H)|(b' & E & (p & a & evs & Hp & _) & _)].
  - split; [reflexivity|]. apply H; [exact Hc|apply COINBASE_LIST_IS_VALUEERROR_true].
  - destruct (Hno b' p E Hp).
Qed.

(* 4. the whole operation: announced count, then the blocks in the client's order *)
Theorem do_block_operation_trace o blocks bros w :
  N.of_nat (length blocks) < 2 ^ 32 ->
  wp (do_block_operation o blocks bros) w
     (fun r n =>
        exists a n',
          n = Apdu (CLA :: bo_cmd o :: bo_op_init o :: be 4 (N.of_nat (length blocks))) a :: n' /\
          from_bytes_be (be 4 (N.of_nat (length blocks))) = N.of_nat (length blocks) /\
          blocks_evs o blocks bros n' /\
          forall c, r = Ok (true, c) -> final_ok o n' c /\ blocks_done o blocks bros n').
Proof.
  intro Hlt. eapply wp_conseq; [apply wp_do_block_operation|].
  intros r n [(_ & Hge & _)|(_ & a & n' & -> & H1 & H2)]; [lia|].
  exists a, n'. split; [reflexivity|]. split; [apply from_bytes_be_be; exact Hlt|].
  split; [exact H1|exact H2].
Qed.

Lemma skipn_tl {A} i (l : list A) : skipn i (tl l) = skipn (S i) l.
Proof. destruct l; [destruct i; reflexivity|reflexivity]. Qed.

(* blocks_evs unfolded: the trace splits into groups, group i belonging to client block i *)
Theorem blocks_evs_firstn o blocks bros n :
  blocks_evs o blocks bros n ->
  exists groups,
    (length groups <= length blocks)%nat /\ n = concat groups /\
    forall i g, nth_error groups i = Some g ->
      exists b n1 n2,
        nth_error blocks i = Some (Some b) /\ g = n1 ++ n2 /\
        hdr_evs o false b n1 /\ bro_part o (skipn i bros) n1 n2.
Proof.
  induction 1 as [blocks bros|b rest bros n1 n2 n3 H1 H2 H3 (groups & Hlen & -> & Hg) H4].
  - exists []. split; [cbn; lia|]. split; [reflexivity|]. intros [|i] g E; discriminate.
  - exists ((n1 ++ n2) :: groups). split; [cbn [length]; lia|].
    split; [cbn [concat]; rewrite app_assoc; reflexivity|].
    intros [|i] g E; cbn [nth_error] in *.
    + inversion E; subst g. exists b, n1, n2. auto.
    + destruct (Hg i g E) as (b' & m1 & m2 & A & B & C & D).
      exists b', m1, m2. rewrite <- skipn_tl. auto.
Qed.

Theorem blocks_done_firstn o blocks bros n :
  blocks_done o blocks bros n ->
  exists groups,
    (1 <= length groups <= length blocks)%nat /\ n = concat groups /\
    forall i g, nth_error groups i = Some g ->
      exists b n1 n2,
        nth_error blocks i = Some (Some b) /\ g = n1 ++ n2 /\
        hdr_evs o false b n1 /\ bro_part o (skipn i bros) n1 n2 /\
        (asked o n1 -> n2 <> []).
Proof.
  induction 1 as [b rest bros n1 n2 H1 H2 H3
                 |b rest bros n1 n2 n3 H1 H2 H3 H4 (groups & Hlen & -> & Hg)].
  - exists [n1 ++ n2]. split; [cbn; lia|]. split; [cbn [concat]; rewrite app_nil_r; reflexivity|].
    intros [|[|i]] g E; try discriminate. inversion E; subst g.
    exists b, n1, n2. auto.
  - exists ((n1 ++ n2) :: groups). split; [cbn [length]; lia|].
    split; [cbn [concat]; rewrite app_assoc; reflexivity|].
    intros [|i] g E; cbn [nth_error] in *.
    + inversion E; subst g. exists b, n1, n2. auto.
    + destruct (Hg i g E) as (b' & m1 & m2 & A & B & C & D & F).
      exists b', m1, m2. rewrite <- skipn_tl. auto.
Qed.

(* brothers: group j of the brother part belongs to brother j of the (sorted) list *)
Theorem bros_evs_firstn o bl n :
  bros_evs o bl n ->
  exists groups,
    (length groups <= length bl)%nat /\ n = concat groups /\
    forall j g, nth_error groups j = Some g ->
      exists b, nth_error bl j = Some (Some b) /\ hdr_evs o true b g.
Proof.
  induction 1 as [bl|b bl n1 n2 H1 H2 (groups & Hlen & -> & Hg)].
  - exists []. split; [cbn; lia|]. split; [reflexivity|]. intros [|j] g E; discriminate.
  - exists (n1 :: groups). split; [cbn [length]; lia|]. split; [reflexivity|].
    intros [|j] g E; cbn [nth_error] in *.
    + inversion E; subst g. exists b. auto.
    + apply Hg, E.
Qed.

(* 5. the reply is "total" / "partial" only when the device said so *)
Lemma adv_codes_distinct : (RESP_ADV_OK_TOTAL =? RESP_ADV_OK_PARTIAL)%Z = false.
Proof. vm_compute. reflexivity. Qed.

Theorem block_op_result_advance blocks bros w :
  wp (do_block_operation ADVANCE_OP blocks bros) w
     (fun r n => forall c, r = Ok (true, c) ->
        exists resp rop, last_answer n resp /\ idx resp OFF_OPn = Some rop /\
          ((c = RESP_ADV_OK_TOTAL /\ rop = ADV_OP_SUCCESS) \/
           (c = RESP_ADV_OK_PARTIAL /\ rop = ADV_OP_PARTIAL)) /\
          (c = RESP_ADV_OK_TOTAL -> rop = ADV_OP_SUCCESS) /\
          (c = RESP_ADV_OK_PARTIAL -> rop = ADV_OP_PARTIAL)).
Proof.
  eapply wp_conseq; [apply wp_do_block_operation|].
  intros r n [(_ & _ & ->)|(_ & a & n' & -> & _ & H)]; [discriminate|].
  intros c E. destruct (H c E) as ((resp & rop & L & I & D) & _).
  exists resp, rop. split; [apply last_answer_cons, L|]. split; [exact I|].
  pose proof adv_codes_distinct as Hd. apply Z.eqb_neq in Hd.
  change (bo_ok_partial ADVANCE_OP) with RESP_ADV_OK_PARTIAL in D.
  change (bo_ok_total ADVANCE_OP) with RESP_ADV_OK_TOTAL in D.
  change (bo_op_partial ADVANCE_OP) with ADV_OP_PARTIAL in D.
  change (bo_op_success ADVANCE_OP) with ADV_OP_SUCCESS in D.
  destruct D as [(_ & -> & ->)|(-> & -> & _)].
  - repeat split; auto. intro; congruence.
  - repeat split; auto. intro E'. destruct (Hd E').
Qed.

Theorem block_op_result_update blocks bros w :
  wp (do_block_operation UPD_OP blocks bros) w
     (fun r n => forall c, r = Ok (true, c) ->
        c = RESP_UPD_OK_TOTAL /\
        exists resp, last_answer n resp /\ idx resp OFF_OPn = Some UPD_OP_SUCCESS).
Proof.
  eapply wp_conseq; [apply wp_do_block_operation|].
  intros r n [(_ & _ & ->)|(_ & a & n' & -> & _ & H)]; [discriminate|].
  intros c E. destruct (H c E) as ((resp & rop & L & I & D) & _).
  destruct D as [(Hadv & _)|(-> & -> & _)]; [discriminate|].
  split; [reflexivity|]. exists resp. split; [apply last_answer_cons, L|exact I].
Qed.

(* ---- the two entry points ---- *)

(* advance_blockchain: either a brother is not a block (nothing is sent), or the operation
   runs on the client's blocks with each brother list permuted into ascending hash order *)
Theorem advance_blockchain_sorted keccak blocks brothers :
  (all_some (map (sort_brothers keccak) brothers) = None /\
   advance_blockchain keccak blocks brothers
   = match ADV_SORT_VALUEERROR_RESULT with
     | Some c => ret (false, c) | None => raise (Py ValueError) end)
  \/ exists sorted,
       Forall2 (fun bl bl' => Permutation bl' bl /\ sorted_by_hash keccak bl') brothers sorted /\
       advance_blockchain keccak blocks brothers = do_block_operation ADVANCE_OP blocks sorted.
Proof.
  unfold advance_blockchain.
  destruct (all_some (map (sort_brothers keccak) brothers)) as [sorted|] eqn:E; [right|left; auto].
  exists sorted. split; [|reflexivity].
  apply all_some_map in E. induction E; constructor; auto.
  apply sort_brothers_sorted. assumption.
Qed.

(* update_ancestor: either some block is not a header (nothing is sent), or the operation runs
   on the client's blocks with the merge-mining fields removed -- same count, same order,
   same block hash *)
Theorem update_ancestor_blocks blocks :
  (all_some (map (fun b => remove_mm_fields b true) blocks) = None /\
   update_ancestor blocks = ret (false, RESP_UPD_ERROR_REMOVE_MM_FIELDS))
  \/ exists opt,
       Forall2 (fun b b' => remove_mm_fields b true = Some b') blocks opt /\
       length opt = length blocks /\
       update_ancestor blocks = do_block_operation UPD_OP (map Some opt) [] /\
       forall keccak,
         Forall2 (fun b b' => forall raw, b = Some raw -> wf_bytes raw ->
                    get_block_hash keccak (Some b') = get_block_hash keccak b) blocks opt.
Proof.
  unfold update_ancestor.
  destruct (all_some _) as [opt|] eqn:E; [right|left; auto].
  exists opt. apply all_some_map in E.
  split; [exact E|]. split; [clear -E; induction E; cbn [length]; congruence|]. split; [reflexivity|].
  intro keccak. induction E as [|b b' bl opt Hb E IH]; constructor; auto.
  intros raw -> Hwf. apply remove_mm_preserves_hash_bytes; assumption.
Qed.

(* the metadata update_ancestor computes from the stripped block is the metadata of the
   client's block: stripping first does not change the merge-mining payload length *)
Lemma drop_last_drop_last {A} (l : list A) j k :
  drop_last (drop_last l j) k = drop_last l (j + k).
Proof.
  unfold drop_last. rewrite firstn_length, firstn_firstn. f_equal. lia.
Qed.

Lemma item_drop_last_twice blk j k :
  item_drop_last (item_drop_last blk j) k = item_drop_last blk (j + k).
Proof. destruct blk; cbn [item_drop_last]; rewrite drop_last_drop_last; reflexivity. Qed.

Theorem remove_mm_preserves_mm_payload_size b b' :
  wf_bytes b ->
  remove_mm_fields (Some b) true = Some b' ->
  rlp_mm_payload_size (Some b') = rlp_mm_payload_size (Some b).
Proof.
  intros Hwf H. unfold rlp_mm_payload_size.
  destruct (decode b) as [blk|] eqn:Hd.
  2:{ unfold remove_mm_fields in H. rewrite Hd in H. discriminate. }
  assert (Hok : lens_ok blk) by (apply (decode_wf b blk Hwf Hd)).
  rewrite (remove_mm_fields_spec b blk true Hd) in H.
  rewrite (remove_mm_fields_spec b blk false Hd).
  destruct ((17 <=? item_len blk) && (item_len blk <=? 20))%nat eqn:Hr; [|discriminate].
  inversion H; subst b'; clear H.
  pose proof (lens_ok_mm_kept blk true Hok) as Hk.
  rewrite (remove_mm_fields_spec _ _ false (decode_encode_lens _ Hk)).
  assert (Hlen : (17 <= item_len (mm_kept blk true) < 19)%nat).
  { unfold mm_kept. destruct (Nat.leb_spec 19 (item_len blk));
      [rewrite item_len_drop_last|]; lia. }
  assert (Hkept : mm_kept (mm_kept blk true) false = mm_kept blk false).
  { unfold mm_kept at 1.
    destruct (Nat.leb_spec 19 (item_len (mm_kept blk true))); [lia|].
    unfold mm_kept. destruct (Nat.leb_spec 19 (item_len blk));
      [apply item_drop_last_twice|reflexivity]. }
  rewrite Hkept.
  destruct (Nat.leb_spec 17 (item_len (mm_kept blk true))); [|lia].
  destruct (Nat.leb_spec (item_len (mm_kept blk true)) 20); [|lia].
  reflexivity.
Qed.

(* ---- the entry points, end to end ---- *)
Theorem advance_blockchain_trace keccak blocks brothers w :
  wp (advance_blockchain keccak blocks brothers) w
     (fun r n =>
        (n = [] /\ all_some (map (sort_brothers keccak) brothers) = None)
        \/ exists sorted,
             Forall2 (fun bl bl' => Permutation bl' bl /\ sorted_by_hash keccak bl')
                     brothers sorted /\
             op_post ADVANCE_OP blocks sorted r n).
Proof.
  destruct (advance_blockchain_sorted keccak blocks brothers) as [[E ->]|(sorted & F & ->)].
  - destruct ADV_SORT_VALUEERROR_RESULT; [apply wp_ret|apply wp_raise]; left; auto.
  - eapply wp_conseq; [apply wp_do_block_operation|]. intros r n H. right. exists sorted. auto.
Qed.

Theorem update_ancestor_trace blocks w :
  wp (update_ancestor blocks) w
     (fun r n =>
        (n = [] /\ r = Ok (false, RESP_UPD_ERROR_REMOVE_MM_FIELDS) /\
         all_some (map (fun b => remove_mm_fields b true) blocks) = None)
        \/ exists opt,
             Forall2 (fun b b' => remove_mm_fields b true = Some b') blocks opt /\
             length opt = length blocks /\
             op_post UPD_OP (map Some opt) [] r n).
Proof.
  destruct (update_ancestor_blocks blocks) as [[E ->]|(opt & F & L & -> & _)].
  - apply wp_ret. left. auto.
  - eapply wp_conseq; [apply wp_do_block_operation|]. intros r n H. right. exists opt. auto.
Qed.

(* ---- meta_ok in documentation terms: the length is that of the RLP payload of the header
   without its merge-mining fields; the coinbase hash is the double SHA-256 (reversed) of the
   full coinbase transaction whose 64-byte-aligned prefix the last field carries as midstate *)
Lemma get_coinbase_txn_last b l tx :
  decode b = Some (RLst l) -> (19 <= length l <= 20)%nat -> last l (RStr []) = RStr tx ->
  get_coinbase_txn (Some b) = CbOk tx.
Proof.
  intros Hd Hl Hlast. unfold get_coinbase_txn. rewrite Hd. cbn [item_len].
  destruct (Nat.leb_spec 19 (length l)); [|lia].
  destruct (Nat.leb_spec (length l) 20); [|lia].
  cbn [andb negb]. rewrite Hlast. reflexivity.
Qed.

Theorem meta_ok_advance_intro b l p mid40 tail :
  decode b = Some (RLst l) -> (19 <= length l <= 20)%nat ->
  last l (RStr []) = RStr (mid40 ++ tail) ->
  (length p mod 64 = 0)%nat ->
  mid40 = be8 (nlen p) ++ concat (map word_be (sh_h (sha_update sha_init p))) ->
  nlen (p ++ tail) * 8 < 2 ^ 64 ->
  nlen (concat (map encode (drop_last l 3))) < 65536 ->
  meta_ok ADVANCE_OP b
    (be 2 (nlen (concat (map encode (drop_last l 3)))) ++ rev (sha256 (sha256 (p ++ tail)))).
Proof.
  intros Hd Hl Hlast Hp Hmid Hov Hmm.
  exists (nlen (concat (map encode (drop_last l 3)))), (rev (sha256 (sha256 (p ++ tail)))).
  split.
  { rewrite (rlp_mm_payload_size_spec b l Hd) by lia.
    destruct (Nat.leb_spec 19 (length l)); [reflexivity|lia]. }
  split; [exact Hmm|]. split; [reflexivity|].
  change (bo_is_advance ADVANCE_OP) with true. cbv iota.
  exists (mid40 ++ tail). split; [apply (get_coinbase_txn_last b l); assumption|].
  apply (coinbase_tx_get_hash_split _ p mid40 tail); auto.
Qed.

Theorem meta_ok_update_intro b l :
  decode b = Some (RLst l) -> (17 <= length l <= 20)%nat ->
  nlen (concat (map encode (drop_last l (if (19 <=? length l)%nat then 3 else 1)))) < 65536 ->
  meta_ok UPD_OP b
    (be 2 (nlen (concat (map encode (drop_last l (if (19 <=? length l)%nat then 3 else 1)))))).
Proof.
  intros Hd Hl Hmm.
  exists (nlen (concat (map encode (drop_last l (if (19 <=? length l)%nat then 3 else 1))))), [].
  split; [apply (rlp_mm_payload_size_spec b l Hd Hl)|].
  split; [exact Hmm|]. split; [rewrite app_nil_r; reflexivity|reflexivity].
Qed.

(* ==================================================================================== *)
(* Non-vacuity: a concrete run (SHA-256 standing in for the Keccak oracle)                *)
(* ==================================================================================== *)
Definition ex_cbtx : bytes :=
  hx "0000000000000040fc99a2df88f42a7a7bb9d18033cdc6a20256755f9d5b9a5044a9cc315abe84a7" ++ ex_tail.
(* a 19-field header, 125 bytes, whose last field is a compressed coinbase transaction *)
Definition ex_block (k : N) : bytes :=
  encode (RLst (repeat (RStr [k; 2; 3]) 18 ++ [RStr ex_cbtx])).
Definition ex_ans (cmd op : N) (d : bytes) : resp := Data (CLA :: cmd :: op :: d).
Definition ex_cbh : bytes := rev (sha256 (sha256 (ex_p ++ ex_tail))).

Example ex_meta_ok : meta_ok ADVANCE_OP (ex_block 1) (be 2 64 ++ ex_cbh).
Proof.
  exists 64, ex_cbh. split; [vm_compute; reflexivity|]. split; [reflexivity|].
  split; [reflexivity|]. exists ex_cbtx. split; vm_compute; reflexivity.
Qed.

(* two blocks, the first with two brothers handed over in descending hash order; the device
   takes block 1 in chunks of 100, asks for its brothers, then takes block 2 and succeeds *)
Definition ex_script : list resp :=
  [ex_ans 16 3 []; ex_ans 16 4 [100]; ex_ans 16 4 [100]; ex_ans 16 7 [];
   ex_ans 16 8 []; ex_ans 16 9 [200]; ex_ans 16 8 []; ex_ans 16 9 [200]; ex_ans 16 3 [];
   ex_ans 16 4 [255]; ex_ans 16 6 []].

Example ex_brothers_order :
  sort_brothers sha256 [Some (ex_block 11); Some (ex_block 10)]
  = Some [Some (ex_block 10); Some (ex_block 11)].
Proof. vm_compute. reflexivity. Qed.

Example ex_advance :
  let run := advance_blockchain sha256 [Some (ex_block 1); Some (ex_block 2)]
               [[Some (ex_block 11); Some (ex_block 10)]; []] (world0 ex_script []) in
  fst run = Ok (true, RESP_ADV_OK_TOTAL) /\
  map (skipn 2) (apdus (snd run))
  = [ADV_OP_INIT :: [0; 0; 0; 2];
     ADV_OP_HEADER_META :: [0; 64] ++ ex_cbh;
     ADV_OP_HEADER_CHUNK :: firstn 100 (ex_block 1);
     ADV_OP_HEADER_CHUNK :: skipn 100 (ex_block 1);
     ADV_OP_BROTHER_LIST_META :: [2];
     ADV_OP_BROTHER_META :: [0; 64] ++ ex_cbh;
     ADV_OP_BROTHER_CHUNK :: ex_block 10;
     ADV_OP_BROTHER_META :: [0; 64] ++ ex_cbh;
     ADV_OP_BROTHER_CHUNK :: ex_block 11;
     ADV_OP_HEADER_META :: [0; 64] ++ ex_cbh;
     ADV_OP_HEADER_CHUNK :: ex_block 2].
Proof. vm_compute. auto. Qed.

(* partial success after the first block: the second block is never sent *)
Example ex_advance_partial :
  let run := advance_blockchain sha256 [Some (ex_block 1); Some (ex_block 2)] [[]; []]
               (world0 [ex_ans 16 3 []; ex_ans 16 4 [255]; ex_ans 16 5 []; ex_ans 16 6 []] []) in
  fst run = Ok (true, RESP_ADV_OK_PARTIAL) /\
  map (skipn 2) (apdus (snd run))
  = [ADV_OP_INIT :: [0; 0; 0; 2];
     ADV_OP_HEADER_META :: [0; 64] ++ ex_cbh;
     ADV_OP_HEADER_CHUNK :: ex_block 1] /\
  script (snd run) = [ex_ans 16 6 []].
Proof. vm_compute. auto. Qed.

(* update_ancestor sends the block without its three merge-mining fields, no coinbase hash *)
Example ex_update :
  let run := update_ancestor [Some (ex_block 1)]
               (world0 [ex_ans 48 3 []; ex_ans 48 4 [255]; ex_ans 48 5 []] []) in
  fst run = Ok (true, RESP_UPD_OK_TOTAL) /\
  map (skipn 2) (apdus (snd run))
  = [UPD_OP_INIT :: [0; 0; 0; 1];
     UPD_OP_HEADER_META :: [0; 64];
     UPD_OP_HEADER_CHUNK :: encode (RLst (repeat (RStr [1; 2; 3]) 17))].
Proof. vm_compute. auto. Qed.
