(* C09 statements carried over to ledger/version.py as translated from the source text. *)
From PowHsm Require Import Gen.Src Model.Bringup Proofs.SrcEquivVersion Proofs.C09.

Lemma pok_vbool_inj : forall a b : bool, @POk pv (VBool a) = POk (VBool b) <-> a = b.
Proof. intros a b; split; intro H; [inversion H; reflexivity | subst; reflexivity]. Qed.


(* ---------- C09: version compatibility as written in ledger/version.py ---------- *)

Theorem src_supports_true_iff : forall M m p M' m' p' : N,
  src_HSM2FirmwareVersion__supports (ver_obj (M, m, p)) (ver_obj (M', m', p')) = POk (VBool true) <->
  M' = M /\ ((m' < m)%N \/ (m' = m /\ (p' <= p)%N)).
Proof.
  intros. rewrite src_version_supports_ok, pok_vbool_inj. apply supports_spec.
Qed.

