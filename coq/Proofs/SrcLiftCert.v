(* C06 / C07 statements carried over to HSMCertificate.validate_and_get_values as translated from the
   Python source text (Gen/Src.v): what the dictionary returned by the source says about a target is what
   the model's theorems say about validate_target. *)
From PowHsm Require Import Gen.Src Model.Cert.
From PowHsm Require Import Proofs.ValLemmas Proofs.SrcEquivCert Proofs.CertProofs.

(* ---------- association-list facts ---------- *)

Lemma vassoc_set_same (k : str) (v : pv) (l : list (str * pv)) : vassoc k (vassoc_set k v l) = Some v.
Proof.
  induction l as [|[k' v'] r IH]; cbn [vassoc_set vassoc].
  - rewrite str_eqb_refl. reflexivity.
  - destruct (str_eqb k k') eqn:E; cbn [vassoc]; rewrite E; [reflexivity|exact IH].
Qed.

Lemma vassoc_set_other (k k' : str) (v : pv) (l : list (str * pv)) :
  str_eqb k k' = false -> vassoc k (vassoc_set k' v l) = vassoc k l.
Proof.
  intros Hne. induction l as [|[k2 v2] r IH]; cbn [vassoc_set vassoc].
  - rewrite Hne. reflexivity.
  - destruct (str_eqb k' k2) eqn:E; cbn [vassoc].
    + apply str_eqb_eq in E. subst k2. rewrite Hne. reflexivity.
    + destruct (str_eqb k k2); [reflexivity|exact IH].
Qed.

Lemma key_str_inj (a b : json) : is_jstr_b a = true -> is_jstr_b b = true -> key_str a = key_str b -> a = b.
Proof.
  destruct a; try discriminate; destruct b; try discriminate. cbn [key_str]. intros _ _ H. rewrite H. reflexivity.
Qed.

Lemma of_json_vstr (a : str) (j : json) : of_json j = VStr a -> j = JStr a.
Proof. destruct j; cbn [of_json]; intros H; try discriminate H. inversion H. reflexivity. Qed.

Lemma pbind_ok {A B} (m : pr A) (f : A -> pr B) (x : B) : pbind m f = POk x -> exists a, m = POk a /\ f a = POk x.
Proof. destruct m as [a| |]; cbn [pbind]; intros H; try discriminate H. exists a. split; [reflexivity|exact H]. Qed.

Section WithOracles.
Variable link_ok : celem -> certifier -> bool.
Variable value_of : celem -> pr pv.
Variable tweak_of : celem -> pr pv.
Variable root_pv : pv.
Variable call_method : string -> pv -> list pv -> pr pv.

Lemma spec_results_inv : forall (c : cert) (targets : list json) (acc d : list (str * pv)),
  Forall (fun t => is_jstr_b t = true) targets ->
  spec_results link_ok value_of tweak_of c targets acc = POk (VDict d) ->
  (forall k en0, vassoc k acc = Some en0 ->
     (forall tg, In tg targets -> key_str tg = k ->
        exists v, validate_target link_ok c tg = Some v /\ entry_of value_of tweak_of v = POk en0) ->
     vassoc k d = Some en0) /\
  (forall tg, In tg targets ->
     exists v en, validate_target link_ok c tg = Some v /\ entry_of value_of tweak_of v = POk en /\
                  vassoc (key_str tg) d = Some en).
Proof.
  intros c targets. induction targets as [|t r IH]; intros acc d HF Hs.
  - cbn [spec_results] in Hs. inversion Hs; subst d. split.
    + intros k en0 Hk _. exact Hk.
    + intros tg [].
  - inversion HF as [|x l Ht Hr]; subst x l. cbn [spec_results] in Hs.
    destruct (validate_target link_ok c t) as [v|] eqn:Hv; [|discriminate Hs].
    apply pbind_ok in Hs. destruct Hs as (en & Hen & Hs).
    destruct (IH _ _ Hr Hs) as (IA & IB). split.
    + intros k en0 Hk Hall. apply IA.
      * destruct (str_eqb k (key_str t)) eqn:E.
        -- apply str_eqb_eq in E. subst k.
           destruct (Hall t (or_introl eq_refl) eq_refl) as (v' & Hv' & Hen').
           rewrite Hv in Hv'. inversion Hv'; subst v'. rewrite Hen in Hen'. inversion Hen'; subst en0.
           apply vassoc_set_same.
        -- rewrite (vassoc_set_other _ _ _ _ E). exact Hk.
      * intros tg Hin Hkey. apply Hall; [right; exact Hin|exact Hkey].
    + intros tg [Heq|Hin].
      * subst tg. exists v, en. split; [exact Hv|]. split; [exact Hen|].
        apply IA; [apply vassoc_set_same|].
        intros tg Hin Hkey. exists v. split; [|exact Hen].
        rewrite Forall_forall in Hr.
        rewrite (key_str_inj tg t (Hr tg Hin) Ht Hkey). exact Hv.
      * apply IB. exact Hin.
Qed.

(* the entry the result dictionary holds for a target is the entry of the model's verdict for it *)
Lemma spec_results_lookup : forall (c : cert) (targets : list json) (acc d : list (str * pv)),
  Forall (fun t => is_jstr_b t = true) targets ->
  spec_results link_ok value_of tweak_of c targets acc = POk (VDict d) ->
  forall tg, In tg targets ->
  exists v en, validate_target link_ok c tg = Some v /\ entry_of value_of tweak_of v = POk en /\
               vassoc (key_str tg) d = Some en.
Proof.
  intros c targets acc d HF Hs. exact (proj2 (spec_results_inv c targets acc d HF Hs)).
Qed.

(* the two statements over the specification of the walk *)
Lemma spec_valid_iff (c : cert) (d : list (str * pv)) (tg : json) :
  str_named c -> spec_results link_ok value_of tweak_of c (c_targets c) [] = POk (VDict d) ->
  In tg (c_targets c) ->
  ((exists val tw, vassoc (key_str tg) d = Some (VList [VBool true; val; tw])) <->
   (exists (p : list celem) (e : celem),
      target_path c tg = Some p /\ tbl_get tg (c_elems c) = Some e /\ links_hold link_ok ByRoot p)).
Proof.
  intros (_ & Hts) Hs Hin.
  destruct (spec_results_lookup c _ _ _ Hts Hs tg Hin) as (v & en & Hv & Hen & Hd).
  split.
  - intros (val & tw & Hval). rewrite Hd in Hval. inversion Hval; subst en.
    destruct v as [e|n].
    + apply target_valid_iff in Hv. destruct Hv as (p & Hp). exists p, e. exact Hp.
    + cbn [entry_of] in Hen. discriminate Hen.
  - intros (p & e & Hp). assert (Hv' : validate_target link_ok c tg = Some (Valid e)).
    { apply target_valid_iff. exists p. exact Hp. }
    rewrite Hv in Hv'. inversion Hv'; subst v. cbn [entry_of] in Hen.
    apply pbind_ok in Hen. destruct Hen as (val & _ & Hen).
    apply pbind_ok in Hen. destruct Hen as (tw & _ & Hen).
    inversion Hen; subst en. exists val, tw. exact Hd.
Qed.

Lemma spec_invalid_iff (c : cert) (d : list (str * pv)) (tg n : json) :
  str_named c -> spec_results link_ok value_of tweak_of c (c_targets c) [] = POk (VDict d) ->
  In tg (c_targets c) -> is_jstr_b n = true ->
  (vassoc (key_str tg) d = Some (VList [VBool false; of_json n]) <->
   (exists (p pre : list celem) (x : celem) (post : list celem),
      target_path c tg = Some p /\ p = pre ++ x :: post /\
      links_hold link_ok ByRoot pre /\ link_ok x (cf_after ByRoot pre) = false /\ n = ce_name x)).
Proof.
  intros (_ & Hts) Hs Hin Hn.
  destruct (spec_results_lookup c _ _ _ Hts Hs tg Hin) as (v & en & Hv & Hen & Hd).
  split.
  - intros Hval. rewrite Hd in Hval. inversion Hval; subst en.
    destruct v as [e|n'].
    + cbn [entry_of] in Hen.
      apply pbind_ok in Hen. destruct Hen as (val & _ & Hen).
      apply pbind_ok in Hen. destruct Hen as (tw & _ & Hen). discriminate Hen.
    + cbn [entry_of] in Hen. inversion Hen as [Hnn].
      destruct n as [| | | |a| |]; try discriminate Hn. cbn [of_json] in Hnn.
      apply of_json_vstr in Hnn. subst n'. apply target_invalid_iff. exact Hv.
  - intros Hex. apply target_invalid_iff in Hex. rewrite Hv in Hex. inversion Hex; subst v.
    cbn [entry_of] in Hen. inversion Hen; subst en. exact Hd.
Qed.

(* the source reports a target valid - (True, value, tweak) under the target's name - exactly when every link
   on that target's path to the root verifies; version 1 (Ledger) certificates *)
Theorem src_v1_target_reported_valid_iff : forall (c : cert) (fuel : nat) (d : list (str * pv)) (tg : json),
  oracle_ok link_ok value_of tweak_of root_pv call_method -> c_version c = 1%Z -> str_named c ->
  targets_resolve link_ok c -> (S (length (c_elems c)) <= fuel)%nat ->
  src_HSMCertificate__validate_and_get_values fuel call_method (cert_pv c) root_pv = POk (VDict d) ->
  In tg (c_targets c) ->
  ((exists val tw, vassoc (key_str tg) d = Some (VList [VBool true; val; tw])) <->
   (exists (p : list celem) (e : celem),
      target_path c tg = Some p /\ tbl_get tg (c_elems c) = Some e /\ links_hold link_ok ByRoot p)).
Proof.
  intros c fuel d tg Ho Hver Hn Hr Hfuel Hsrc Hin.
  rewrite (src_validate_v1_ok link_ok value_of tweak_of root_pv call_method c fuel Ho Hver Hn Hr Hfuel) in Hsrc.
  exact (spec_valid_iff c d tg Hn Hsrc Hin).
Qed.

(* ... and when it reports it invalid, the name it gives is that of the first element, walking down from the
   root, whose link fails *)
Theorem src_v1_target_reported_invalid_iff : forall (c : cert) (fuel : nat) (d : list (str * pv)) (tg n : json),
  oracle_ok link_ok value_of tweak_of root_pv call_method -> c_version c = 1%Z -> str_named c ->
  targets_resolve link_ok c -> (S (length (c_elems c)) <= fuel)%nat ->
  src_HSMCertificate__validate_and_get_values fuel call_method (cert_pv c) root_pv = POk (VDict d) ->
  In tg (c_targets c) -> is_jstr_b n = true ->
  (vassoc (key_str tg) d = Some (VList [VBool false; of_json n]) <->
   (exists (p pre : list celem) (x : celem) (post : list celem),
      target_path c tg = Some p /\ p = pre ++ x :: post /\
      links_hold link_ok ByRoot pre /\ link_ok x (cf_after ByRoot pre) = false /\ n = ce_name x)).
Proof.
  intros c fuel d tg n Ho Hver Hn Hr Hfuel Hsrc Hin Hjn.
  rewrite (src_validate_v1_ok link_ok value_of tweak_of root_pv call_method c fuel Ho Hver Hn Hr Hfuel) in Hsrc.
  exact (spec_invalid_iff c d tg n Hn Hsrc Hin Hjn).
Qed.

(* the same two statements for version 2 (SGX) certificates *)
Theorem src_v2_target_reported_valid_iff : forall (c : cert) (fuel : nat) (d : list (str * pv)) (tg : json),
  oracle_ok link_ok value_of tweak_of root_pv call_method -> c_version c = 2%Z -> str_named c ->
  targets_resolve link_ok c -> (S (length (c_elems c)) <= fuel)%nat ->
  src_HSMCertificateV2__validate_and_get_values fuel call_method (cert_pv c) root_pv = POk (VDict d) ->
  In tg (c_targets c) ->
  ((exists val tw, vassoc (key_str tg) d = Some (VList [VBool true; val; tw])) <->
   (exists (p : list celem) (e : celem),
      target_path c tg = Some p /\ tbl_get tg (c_elems c) = Some e /\ links_hold link_ok ByRoot p)).
Proof.
  intros c fuel d tg Ho Hver Hn Hr Hfuel Hsrc Hin.
  rewrite (src_validate_v2_ok link_ok value_of tweak_of root_pv call_method c fuel Ho Hver Hn Hr Hfuel) in Hsrc.
  exact (spec_valid_iff c d tg Hn Hsrc Hin).
Qed.

Theorem src_v2_target_reported_invalid_iff : forall (c : cert) (fuel : nat) (d : list (str * pv)) (tg n : json),
  oracle_ok link_ok value_of tweak_of root_pv call_method -> c_version c = 2%Z -> str_named c ->
  targets_resolve link_ok c -> (S (length (c_elems c)) <= fuel)%nat ->
  src_HSMCertificateV2__validate_and_get_values fuel call_method (cert_pv c) root_pv = POk (VDict d) ->
  In tg (c_targets c) -> is_jstr_b n = true ->
  (vassoc (key_str tg) d = Some (VList [VBool false; of_json n]) <->
   (exists (p pre : list celem) (x : celem) (post : list celem),
      target_path c tg = Some p /\ p = pre ++ x :: post /\
      links_hold link_ok ByRoot pre /\ link_ok x (cf_after ByRoot pre) = false /\ n = ce_name x)).
Proof.
  intros c fuel d tg n Ho Hver Hn Hr Hfuel Hsrc Hin Hjn.
  rewrite (src_validate_v2_ok link_ok value_of tweak_of root_pv call_method c fuel Ho Hver Hn Hr Hfuel) in Hsrc.
  exact (spec_invalid_iff c d tg n Hn Hsrc Hin Hjn).
Qed.

End WithOracles.

(* Print Assumptions src_v1_target_reported_valid_iff. ... all four: Closed under the global context *)
