(* Specification lemmas about the value kit (Py/Val.v) on embedded JSON values, used by
   Proofs/SrcEquivProto.v.  Nothing here depends on the shape of the generated text. *)
From PowHsm Require Import Gen.Src Model.CommProtocol.

(* ---------- strings ---------- *)

Lemma str_eqb_eq : forall a b : str, str_eqb a b = true -> a = b.
Proof.
  unfold str_eqb. induction a as [|x a IH]; destruct b as [|y b]; cbn [list_eqb]; intros H;
    try discriminate; [reflexivity|].
  apply andb_prop in H. destruct H as [H1 H2]. apply N.eqb_eq in H1. subst y.
  f_equal. apply IH. exact H2.
Qed.

(* ---------- the type of an embedded JSON value ---------- *)

Definition jty (j : json) : pty :=
  match j with
  | JNull => TNone | JBool _ => TBool | JInt _ => TInt | JFloat _ => TFloat
  | JStr _ => TStr | JArr _ => TList | JObj _ => TDict
  end.

Lemma py_type_of_json : forall j, py_type (of_json j) = jty j.
Proof. destruct j; reflexivity. Qed.

Lemma py_type_of_obj : forall kv, py_type (of_obj kv) = TDict.
Proof. reflexivity. Qed.

Lemma of_json_obj : forall kv, of_json (JObj kv) = of_obj kv.
Proof. reflexivity. Qed.

(* ---------- dictionaries ---------- *)

Lemma vassoc_of_obj : forall k kv,
  vassoc k (map (fun p => (fst p, of_json (snd p))) kv) = option_map of_json (jget k kv).
Proof.
  intros k kv. unfold jget. induction kv as [|[k' v] kv IH]; cbn [map vassoc assoc_str fst snd option_map].
  - reflexivity.
  - destruct (str_eqb k k'); [reflexivity | exact IH].
Qed.

Lemma py_in_obj : forall k kv, py_in (VStr k) (of_obj kv) = POk (jhas k kv).
Proof.
  intros k kv. unfold of_obj. cbn [of_json py_in]. rewrite vassoc_of_obj. unfold jhas.
  destruct (jget k kv); reflexivity.
Qed.

Lemma py_not_in_obj : forall k kv, py_not_in (VStr k) (of_obj kv) = POk (negb (jhas k kv)).
Proof. intros k kv. unfold py_not_in. rewrite py_in_obj. reflexivity. Qed.

Lemma py_getitem_obj : forall k kv,
  py_getitem (of_obj kv) (VStr k) =
  match jget k kv with Some j => POk (of_json j) | None => PRaise KeyError end.
Proof.
  intros k kv. unfold of_obj. cbn [of_json py_getitem]. rewrite vassoc_of_obj.
  destruct (jget k kv); reflexivity.
Qed.

Lemma py_setitem_obj : forall k kv v,
  py_setitem (of_obj kv) (VStr k) v =
  POk (VDict (vassoc_set k v (map (fun p => (fst p, of_json (snd p))) kv))).
Proof. reflexivity. Qed.

Lemma py_len_obj : forall kv, py_len (of_obj kv) = POk (VInt (Z.of_nat (length kv))).
Proof. intros kv. unfold of_obj. cbn [of_json py_len]. rewrite map_length. reflexivity. Qed.

Lemma py_len_arr : forall l, py_len (of_json (JArr l)) = POk (VInt (Z.of_nat (length l))).
Proof. intros l. cbn [of_json py_len]. rewrite map_length. reflexivity. Qed.

(* ---------- equality against literals ---------- *)

Lemma py_eq_json_str : forall j x, py_eq (of_json j) (VStr x) = POk (py_eq_str j x).
Proof. intros j x. destruct j as [| | |[i|]| | |]; reflexivity. Qed.

Lemma py_ne_json_str : forall j x, py_ne (of_json j) (VStr x) = POk (negb (py_eq_str j x)).
Proof. intros j x. unfold py_ne. rewrite py_eq_json_str. reflexivity. Qed.

Lemma py_eq_json_int : forall j n, py_eq (of_json j) (VInt n) = POk (py_eq_int j n).
Proof. intros j n. destruct j as [| | |[i|]| | |]; reflexivity. Qed.

Lemma py_ne_json_int : forall j n, py_ne (of_json j) (VInt n) = POk (negb (py_eq_int j n)).
Proof. intros j n. unfold py_ne. rewrite py_eq_json_int. reflexivity. Qed.

(* ---------- all(... for x in list) ---------- *)

Lemma py_all_in_arr : forall l f, py_all_in (of_json (JArr l)) f = py_all (map of_json l) f.
Proof. reflexivity. Qed.

Lemma py_all_map_forallb : forall (f : pv -> pr pv) (p : json -> bool) (l : list json),
  (forall j, In j l -> f (of_json j) = POk (VBool (p j))) ->
  py_all (map of_json l) f = POk (VBool (forallb p l)).
Proof.
  intros f p l. induction l as [|a l IH]; cbn [map py_all forallb]; intros H.
  - reflexivity.
  - rewrite (H a) by (left; reflexivity). cbn [py_truth].
    destruct (p a); cbn [andb].
    + apply IH. intros j Hj. apply H. right. exact Hj.
    + reflexivity.
Qed.

(* all(g(item) for sub in l for item in sub) once every sub is known to be a list *)
Lemma py_all_nested : forall (g : pv -> pr pv) (q : json -> bool) (l : list json),
  forallb is_jarr l = true ->
  (forall j, g (of_json j) = POk (VBool (q j))) ->
  py_all (map of_json l) (fun sub => py_all_in sub g) =
  POk (VBool (forallb (fun b => match b with JArr l' => forallb q l' | _ => false end) l)).
Proof.
  intros g q l H Hg. apply py_all_map_forallb. intros j Hj.
  rewrite forallb_forall in H. specialize (H j Hj).
  destruct j; try discriminate H.
  rewrite py_all_in_arr. apply py_all_map_forallb. intros j' _. apply Hg.
Qed.

(* type(item) == T for every item *)
Lemma py_all_type : forall (t : pty) (l : list json),
  py_all (map of_json l)
    (fun v_item => pbind (POk (VType (py_type v_item))) (fun t_ => vbool (py_eq t_ (VType t)))) =
  POk (VBool (forallb (fun j => pty_eqb (jty j) t) l)).
Proof.
  intros t l. apply py_all_map_forallb. intros j _.
  cbn [pbind]. rewrite py_type_of_json. reflexivity.
Qed.

Lemma forallb_ext_in : forall {A} (p q : A -> bool) (l : list A),
  (forall x, In x l -> p x = q x) -> forallb p l = forallb q l.
Proof.
  intros A p q l. induction l as [|a l IH]; cbn [forallb]; intros H; [reflexivity|].
  rewrite (H a) by (left; reflexivity). f_equal. apply IH. intros x Hx. apply H. right. exact Hx.
Qed.

Lemma all_strs_jty : forall l, forallb (fun j => pty_eqb (jty j) TStr) l = all_strs l.
Proof. intros l. unfold all_strs. apply forallb_ext_in. intros [] _; reflexivity. Qed.

Lemma all_arrs_jty : forall l, forallb (fun j => pty_eqb (jty j) TList) l = forallb is_jarr l.
Proof. intros l. apply forallb_ext_in. intros [] _; reflexivity. Qed.

(* ---------- integer facts ---------- *)

Lemma Z_of_nat_eqb : forall n k : nat, (Z.of_nat n =? Z.of_nat k)%Z = Nat.eqb n k.
Proof.
  intros n k. destruct (Nat.eqb_spec n k) as [E|E].
  - subst k. apply Z.eqb_refl.
  - apply Z.eqb_neq. lia.
Qed.

Lemma Z_of_nat_eqb_1 : forall n, (Z.of_nat n =? 1)%Z = Nat.eqb n 1.
Proof. intros n. exact (Z_of_nat_eqb n 1). Qed.
Lemma Z_of_nat_eqb_3 : forall n, (Z.of_nat n =? 3)%Z = Nat.eqb n 3.
Proof. intros n. exact (Z_of_nat_eqb n 3). Qed.
Lemma Z_of_nat_eqb_5 : forall n, (Z.of_nat n =? 5)%Z = Nat.eqb n 5.
Proof. intros n. exact (Z_of_nat_eqb n 5). Qed.

Lemma Z_of_nat_len_eqb_0 : forall {A} (l : list A),
  (Z.of_nat (length l) =? 0)%Z = match l with [] => true | _ => false end.
Proof. intros A [|a l]; reflexivity. Qed.

Lemma Z_of_nat_ltb_N : forall (n : nat) (k : N),
  (Z.of_nat n <? Z.of_N k)%Z = (N.of_nat n <? k).
Proof.
  intros n k. destruct (N.ltb_spec (N.of_nat n) k) as [H|H].
  - apply Z.ltb_lt. lia.
  - apply Z.ltb_ge. lia.
Qed.

(* ---------- the three-valued boolean connectives on POk (VBool _) ---------- *)

Lemma pif_bool : forall {A} (b : bool) (t e : pr A), pif (POk (VBool b)) t e = if b then t else e.
Proof. reflexivity. Qed.

Lemma py_and_bool : forall (a : bool) (x : pr pv),
  py_and (POk (VBool a)) x = if a then x else POk (VBool false).
Proof. intros [] x; reflexivity. Qed.

Lemma py_or_bool : forall (a : bool) (x : pr pv),
  py_or (POk (VBool a)) x = if a then POk (VBool true) else x.
Proof. intros [] x; reflexivity. Qed.

Lemma py_not_bool : forall a : bool, py_not (POk (VBool a)) = POk (VBool (negb a)).
Proof. reflexivity. Qed.

Lemma pbind_ret : forall {A} (m : pr A), pbind m (fun x => POk x) = m.
Proof. intros A [a|e|]; reflexivity. Qed.

(* ---------- membership in the generated command tables ---------- *)

Lemma known_v5_in : forall cmd : str,
  py_in (VStr cmd) known_commands_HSM2Protocol = POk (str_in cmd KNOWN_COMMANDS_V5).
Proof.
  intros cmd. unfold known_commands_HSM2Protocol, KNOWN_COMMANDS_V5, str_in.
  cbn [py_in vassoc existsb].
  repeat (match goal with |- context [str_eqb cmd ?x] => destruct (str_eqb cmd x) end;
          cbn [orb]; [reflexivity|]).
  reflexivity.
Qed.

Lemma known_v1_in : forall cmd : str,
  py_in (VStr cmd) known_commands_HSM1Protocol = POk (str_in cmd KNOWN_COMMANDS_V1).
Proof.
  intros cmd. unfold known_commands_HSM1Protocol, KNOWN_COMMANDS_V1, str_in.
  cbn [py_in vassoc existsb].
  repeat (match goal with |- context [str_eqb cmd ?x] => destruct (str_eqb cmd x) end;
          cbn [orb]; [reflexivity|]).
  reflexivity.
Qed.

(* ---------- the simplifier used throughout ---------- *)

Ltac kit :=
  cbn [pbind pmap vbool pif py_and py_or py_not py_truth py_ne py_eq py_cmp vnum is_numeric
       negb andb orb jty pty_eqb existsb pyexc_eqb option_map].

(* normal forms of embedded constructors: scalars are unfolded, objects are kept as [of_obj] *)
Ltac jnorm :=
  repeat match goal with
  | |- context [of_json JNull] => change (of_json JNull) with VNone
  | |- context [of_json (JBool ?b)] => change (of_json (JBool b)) with (VBool b)
  | |- context [of_json (JInt ?z)] => change (of_json (JInt z)) with (VInt z)
  | |- context [of_json (JFloat ?i)] => change (of_json (JFloat i)) with (VFloat i)
  | |- context [of_json (JStr ?x)] => change (of_json (JStr x)) with (VStr x)
  | |- context [of_json (JObj ?kv)] => change (of_json (JObj kv)) with (of_obj kv)
  end.
