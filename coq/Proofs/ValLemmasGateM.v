(* Helper lemmas for Proofs/SrcEquivGateM.v: the state-threading validators (Gen/Src.v, *__st) against the
   model's validators, the request as the validator leaves it, the front part of the monadic gate
   (srcm_..._internal_handle_request) against gate_request, the assembly of the reply against the model's
   (no operation's output has an "errorcode" member), and what an accepting validator says about the shape
   of the request's fields. *)
From PowHsm Require Import Gen.Src Gen.SrcM Model.Dongle Model.LedgerProtocol.
From PowHsm Require Import Proofs.ValLemmas Proofs.SrcEquivBase Proofs.SrcEquivProto Proofs.SrcEquivLedger
  Proofs.SrcEquivDongleM Proofs.SrcEquivProtoM Proofs.ValLemmasProto Proofs.ValLemmasM Proofs.ValLemmasSignProtoM
  Proofs.ValLemmasStateM Proofs.SrcEquivBlockProtoM.

Definition req_after_keyid (req : obj) : pv :=
  match jget (s "keyId") req with
  | Some (JStr x) => match bip32_path x with Some els => request_with_path req els | None => of_obj req end
  | _ => of_obj req
  end.

Lemma src_validate_key_id_st_v5 : forall (self : pv) (req : obj),
  src_HSM2Protocol___validate_key_id__st self (of_obj req) =
  POk (VList [VInt (validate_key_id (codes_of V5) req); req_after_keyid req]).
Proof.
  intros self req. unfold src_HSM2Protocol___validate_key_id__st, validate_key_id, req_after_keyid.
  rewrite py_not_in_obj, !py_getitem_obj; unfold jhas.
  destruct (jget (s "keyId") req) as [j|] eqn:E; [|reflexivity].
  kit; rewrite py_type_of_json;
  destruct j; kit; try reflexivity.
  jnorm; rewrite src_bip32_path_ok.
  destruct (bip32_path x); kit; [rewrite py_setitem_obj; reflexivity | reflexivity].
Qed.

Lemma src_validate_get_pubkey_st_v5 : forall (self : pv) (req : obj),
  src_HSM2Protocol___validate_get_pubkey__st self (of_obj req) =
  POk (VList [VInt (validate_key_id (codes_of V5) req); req_after_keyid req]).
Proof.
  intros self req. unfold src_HSM2Protocol___validate_get_pubkey__st.
  rewrite src_validate_key_id_st_v5. kit.
  destruct (validate_key_id_cases (codes_of V5) req) as [H|H]; rewrite H; reflexivity.
Qed.

Lemma req_after_keyid_ok : forall (req : obj),
  (validate_key_id (codes_of V5) req <? 0)%Z = false ->
  exists x els, jget (s "keyId") req = Some (JStr x) /\ bip32_path x = Some els /\
                req_after_keyid req = request_with_path req els.
Proof.
  intros req. unfold validate_key_id, req_after_keyid.
  destruct (jget (s "keyId") req) as [[]|]; try discriminate.
  destruct (bip32_path x) as [els|] eqn:Ep; try discriminate.
  intros _. exists x, els. repeat split. exact Ep.
Qed.

Lemma src_validate_sign_st_v5 : forall (self : pv) (req : obj),
  src_HSM2Protocol___validate_sign__st self (of_obj req) =
  POk (VList [VInt (validate_sign_v5 (codes_of V5) req); req_after_keyid req]).
Proof.
  intros self req. unfold src_HSM2Protocol___validate_sign__st, validate_sign_v5.
  rewrite src_validate_key_id_st_v5. kit.
  destruct (validate_key_id (codes_of V5) req <? 0)%Z eqn:Ek; kit; [reflexivity|].
  destruct (req_after_keyid_ok req Ek) as (x & els & Hk & Hp & ->).
  change (VStr (s "any")) with (what_val WAny).
  rewrite src_validate_auth_request, src_validate_message_request. kit.
  destruct (validate_auth (codes_of V5) req false <? 0)%Z; [reflexivity|]. kit.
  destruct (validate_message_cases (codes_of V5) req WAny) as [H|H]; rewrite H; reflexivity.
Qed.

Definition st_request (cmd : str) (req : obj) : pv :=
  if str_eqb cmd (s "version") then of_obj req
  else if str_eqb cmd (s "sign") then req_after_keyid req
  else if str_eqb cmd (s "getPubKey") then req_after_keyid req
  else of_obj req.

Lemma dispatch_st_v5 : forall (self : pv) (cmd : str) (req : obj),
  validation_dispatch_st_HSM2Protocol self (VStr cmd) (of_obj req) =
  pbind (validation_dispatch_HSM2Protocol self (VStr cmd) (of_obj req))
        (fun r => POk (VList [r; st_request cmd req])).
Proof.
  intros self cmd req.
  unfold validation_dispatch_st_HSM2Protocol, validation_dispatch_HSM2Protocol, st_request.
  destruct (str_eqb cmd (s "version")); [reflexivity|].
  destruct (str_eqb cmd (s "sign")).
  { rewrite src_validate_sign_st_v5, src_validate_sign_v5. reflexivity. }
  destruct (str_eqb cmd (s "getPubKey")).
  { rewrite src_validate_get_pubkey_st_v5, src_validate_get_pubkey_v5. reflexivity. }
  repeat (match goal with |- (if ?b then _ else _) = _ => destruct b; [reflexivity|] end).
  reflexivity.
Qed.

(* ---------- no operation's output carries an "errorcode" member ---------- *)

Definition noerr (m : M rtuple) : Prop :=
  forall w c o w', m w = (Ok (c, Some o), w') -> jget KEY_ERRORCODE o = None.

Lemma noerr_ret_none (c : Z) : noerr (ret (c, None)).
Proof. intros w c' o w' H. inversion H. Qed.

Lemma noerr_ret_some (c : Z) (o : obj) : jget KEY_ERRORCODE o = None -> noerr (ret (c, Some o)).
Proof. intros Ho w c' o' w' H. inversion H. subst. exact Ho. Qed.

Lemma noerr_raise (e : exn) : noerr (raise e).
Proof. intros w c o w' H. inversion H. Qed.

Lemma noerr_bind {A} (m : M A) (k : A -> M rtuple) : (forall a, noerr (k a)) -> noerr (bind m k).
Proof.
  intros Hk w c o w' H. unfold bind in H. destruct (m w) as [[a|e] w1]; [|inversion H].
  exact (Hk a w1 c o w' H).
Qed.

Lemma noerr_try (body : M rtuple) (h : exn -> option (M rtuple)) :
  noerr body -> (forall e k, h e = Some k -> noerr k) -> noerr (try_catch body h).
Proof.
  intros Hb Hh w c o w' H. unfold try_catch in H.
  destruct (body w) as [[a|e] w1] eqn:Eb.
  - inversion H. subst. exact (Hb w c o w' Eb).
  - destruct (h e) as [k|] eqn:Ek; [|inversion H]. exact (Hh e k Ek w1 c o w' H).
Qed.

Lemma noerr_ladder (lad : ladder) (e : exn) (k : M rtuple) : apply_ladder lad e = Some k -> noerr k.
Proof.
  induction lad as [|[[cs flag] act] rest IH]; cbn [apply_ladder]; [discriminate|].
  destruct (exn_matches e cs); [|exact IH].
  intros H. inversion H. apply noerr_bind. intros _.
  destruct act; [apply noerr_ret_none | apply noerr_raise | apply noerr_ret_none].
Qed.

Ltac noerr_tac :=
  repeat first
   [ apply noerr_ret_none | apply noerr_ret_some; reflexivity | apply noerr_raise
   | apply noerr_bind; intros ?
   | apply noerr_try; [| let H := fresh "H" in intros ? ? H; eapply noerr_ladder; exact H]
   | match goal with
     | |- noerr (if ?b then _ else _) => destruct b
     | |- noerr (match ?x with _ => _ end) => destruct x
     | |- noerr (ret (match ?x with _ => _ end)) => destruct x
     end ].

Lemma noerr_get_pubkey (kind : dongle_kind) req : noerr (op_get_pubkey kind V5 req).
Proof. unfold op_get_pubkey, with_ladder. noerr_tac. Qed.

Lemma noerr_sign (kind : dongle_kind) req : noerr (op_sign_v5 kind req).
Proof. unfold op_sign_v5, with_ladder_sign, finish_sign. cbv zeta. noerr_tac. Qed.

Lemma noerr_blockchain_state (kind : dongle_kind) req : noerr (op_blockchain_state kind req).
Proof. unfold op_blockchain_state, with_ladder. noerr_tac. Qed.

Lemma noerr_reset_advance (kind : dongle_kind) req : noerr (op_reset_advance kind req).
Proof. unfold op_reset_advance, with_ladder. noerr_tac. Qed.

Lemma noerr_advance (keccak : bytes -> bytes) (kind : dongle_kind) req : noerr (op_advance keccak kind req).
Proof. unfold op_advance, with_ladder. noerr_tac. Qed.

Lemma noerr_update_ancestor (kind : dongle_kind) req : noerr (op_update_ancestor kind req).
Proof. unfold op_update_ancestor, with_ladder. noerr_tac. Qed.

Lemma noerr_parameters (kind : dongle_kind) req : noerr (op_parameters kind req).
Proof. unfold op_parameters, with_ladder. noerr_tac. Qed.

Lemma noerr_signer_heartbeat (kind : dongle_kind) req : noerr (op_signer_heartbeat kind req).
Proof. unfold op_signer_heartbeat, with_ladder, hb_reply. noerr_tac. Qed.

Lemma noerr_ui_heartbeat (kind : dongle_kind) req : noerr (op_ui_heartbeat kind req).
Proof. unfold op_ui_heartbeat, with_ladder, hb_reply. cbv zeta. noerr_tac. Qed.


(* ---------- the assembly of the reply ---------- *)

Definition gate_tail_m (op : pm pv) : pm pv :=
  MV.pbind op (fun v_operation_result =>
  MV.pbind (MV.py_getitem v_operation_result (VInt (0)%Z)) (fun v_result =>
  MV.pif (MV.vbool (MV.py_cmp CLt v_result (VInt (0)%Z)))
    (MV.POk (VDict [((s "errorcode"), v_result)]))
    (MV.pbind (MV.py_getitem v_operation_result (VInt (1)%Z)) (fun v_output =>
  MV.pbind (MV.POk v_result) (fun t6_ => MV.pbind (MV.POk (VStr (s "errorcode"))) (fun t7_ => MV.pbind (MV.py_setitem v_output t7_ t6_) (fun v_output =>
  MV.POk v_output))))))).

Definition reply_of (mm : M rtuple) : M json :=
  bind mm (fun r =>
    let '(code, out) := r in
    if (code <? 0)%Z then ret (JObj [(KEY_ERRORCODE, JInt code)]) else
    match out with
    | None => raise (Py IndexError)
    | Some fields =>
        ret (JObj (filter (fun kv => negb (str_eqb (fst kv) KEY_ERRORCODE)) fields
                   ++ [(KEY_ERRORCODE, JInt code)]))
    end).

Lemma filter_absent (k : str) (o : obj) :
  jget k o = None -> filter (fun kv => negb (str_eqb (fst kv) k)) o = o.
Proof.
  unfold jget. induction o as [|[k' v] r IH]; cbn [assoc_str filter fst]; [reflexivity|].
  destruct (str_eqb k k') eqn:E; [discriminate|]. intros H.
  assert (E' : str_eqb k' k = false).
  { destruct (str_eqb k' k) eqn:E2; [|reflexivity]. apply ValLemmas.str_eqb_eq in E2. subst k'.
    rewrite ValLemmas.str_eqb_refl in E. discriminate E. }
  rewrite E'. cbn [negb]. rewrite IH by exact H. reflexivity.
Qed.

Lemma setitem_absent (k : str) (o : obj) (c : Z) :
  jget k o = None ->
  py_setitem (of_obj o) (VStr k) (VInt c) =
  POk (of_json (JObj (filter (fun kv => negb (str_eqb (fst kv) k)) o ++ [(k, JInt c)]))).
Proof.
  intros H. rewrite (filter_absent k o H). rewrite py_setitem_obj.
  rewrite vassoc_set_append.
  - cbn [of_json]. rewrite map_app. reflexivity.
  - rewrite vassoc_of_obj, H. reflexivity.
Qed.

Lemma gate_tail_m_ok (m : pm pv) (mm : M rtuple) (w : world) :
  m w = mres rtuple_pv (mm w) -> noerr mm ->
  gate_tail_m m w = mres of_json (reply_of mm w).
Proof.
  intros Hm Hne. unfold gate_tail_m, reply_of. unfold MV.pbind at 1. unfold mbind at 1, bind at 1.
  rewrite Hm. unfold mres at 1.
  destruct (mm w) as [[[c [o|]]|e] w'] eqn:Em; cbn [fst snd rtuple_pv]; [| |reflexivity].
  - mv_unfold. unfold MV.py_setitem. mnorm. rw_lift.
    change (py_getitem (VList [VInt c; of_obj o]) (VInt 0)) with (@POk pv (VInt c)). cbv beta iota.
    mnorm. rw_lift. rewrite py_cmp_int. cbv beta iota. mnorm.
    destruct (c <? 0)%Z; cbn [py_truth]; [reflexivity|].
    mnorm. rw_lift.
    change (py_getitem (VList [VInt c; of_obj o]) (VInt 1)) with (@POk pv (of_obj o)). cbv beta iota.
    mnorm. rw_lift. change KEY_ERRORCODE with (s "errorcode") in *.
    rewrite (setitem_absent (s "errorcode") o c (Hne w c o w' Em)). reflexivity.
  - mv_unfold. mnorm. rw_lift.
    change (py_getitem (VList [VInt c]) (VInt 0)) with (@POk pv (VInt c)). cbv beta iota.
    mnorm. rw_lift. rewrite py_cmp_int. cbv beta iota. mnorm.
    destruct (c <? 0)%Z; cbn [py_truth]; [reflexivity|].
    mnorm. rw_lift. reflexivity.
Qed.

(* ---------- what an accepting validator says about the request ---------- *)

Lemma all_strs_map (l : list json) : all_strs l = true -> exists xs, l = map JStr xs.
Proof.
  unfold all_strs. induction l as [|j r IH]; cbn [forallb].
  - exists []. reflexivity.
  - intros H. apply andb_prop in H. destruct H as [Hj Hr]. destruct (IH Hr) as [xs ->].
    destruct j; try discriminate Hj. exists (x :: xs). reflexivity.
Qed.

Lemma all_nonempty_hex_strs_map (l : list json) : all_nonempty_hex_strs l = true -> exists xs, l = map JStr xs.
Proof.
  unfold all_nonempty_hex_strs. induction l as [|j r IH]; cbn [forallb].
  - exists []. reflexivity.
  - intros H. apply andb_prop in H. destruct H as [Hj Hr]. destruct (IH Hr) as [xs ->].
    destruct j; try discriminate Hj. exists (x :: xs). reflexivity.
Qed.

Lemma brothers_map (bros : list json) :
  forallb (fun b => match b with JArr l => all_nonempty_hex_strs l | _ => false end) bros = true ->
  exists brothers, bros = map jstrs brothers.
Proof.
  induction bros as [|b r IH]; cbn [forallb].
  - exists []. reflexivity.
  - intros H. apply andb_prop in H. destruct H as [Hb Hr]. destruct (IH Hr) as [bs ->].
    destruct b; try discriminate Hb. destruct (all_nonempty_hex_strs_map l Hb) as [xs ->].
    exists (xs :: bs). reflexivity.
Qed.

Lemma heartbeat_shape (req : obj) (n : N) :
  (validate_heartbeat (codes_of V5) req n <? 0)%Z = false ->
  exists ud, jget (s "udValue") req = Some (JStr ud).
Proof.
  unfold validate_heartbeat. destruct (jget (s "udValue") req) as [[]|]; try discriminate.
  intros _. exists x. reflexivity.
Qed.

Lemma update_ancestor_shape (req : obj) :
  (validate_update_ancestor_block (codes_of V5) req <? 0)%Z = false ->
  exists blocks, jget (s "blocks") req = Some (jstrs blocks).
Proof.
  unfold validate_update_ancestor_block. destruct (jget (s "blocks") req) as [[]|]; try discriminate.
  destruct (nlen l <? MINIMUM_UPDATE_ANCESTOR_BLOCKS)%N; [discriminate|].
  destruct (all_strs l) eqn:Ea; [|discriminate]. intros _.
  destruct (all_strs_map l Ea) as [xs ->]. exists xs. reflexivity.
Qed.

Lemma advance_shape (req : obj) :
  (validate_advance_blockchain (codes_of V5) req <? 0)%Z = false ->
  exists blocks brothers, jget (s "blocks") req = Some (jstrs blocks) /\
                          jget (s "brothers") req = Some (JArr (map jstrs brothers)).
Proof.
  unfold validate_advance_blockchain. destruct (jget (s "blocks") req) as [[]|]; try discriminate.
  destruct l as [|b0 bl]; [discriminate|].
  destruct (all_strs (b0 :: bl)) eqn:Ea; cbn [negb]; [|discriminate].
  destruct (jget (s "brothers") req) as [[]|]; try discriminate.
  destruct (negb (Nat.eqb (length l) (length (b0 :: bl)))); [discriminate|].
  destruct (negb (forallb is_jarr l)); [discriminate|].
  match goal with |- context [if ?t then 0%Z else _] => destruct t eqn:Ef end; [|discriminate].
  intros _. destruct (all_strs_map _ Ea) as [xs Hx]. destruct (brothers_map _ Ef) as [bs ->].
  exists xs, bs. rewrite Hx. split; reflexivity.
Qed.

Lemma sign_key_ok (req : obj) :
  (validate_sign_v5 (codes_of V5) req <? 0)%Z = false -> (validate_key_id (codes_of V5) req <? 0)%Z = false.
Proof.
  unfold validate_sign_v5. cbv zeta.
  destruct (validate_key_id (codes_of V5) req <? 0)%Z eqn:Ek; [|reflexivity].
  intros H. rewrite H in Ek. discriminate Ek.
Qed.

(* ---------- the front part of the gate ---------- *)

Ltac mstep := mv_unfold; mnorm; rw_lift.

Lemma srcm_gate_v5 : forall fuel cm init (self : pv) (request : json) (w : world),
  srcm_HSM2ProtocolLedger____internal_handle_request fuel cm init self (of_json request) w =
  match gate_request V5 request with
  | GReject c => (XOk (reply_code c), w)
  | GCrash e => (XRaise (Py e), w)
  | GAccept cmd req =>
      gate_tail_m (operation_dispatch_HSM2ProtocolLedger fuel cm init self (VStr cmd) (st_request cmd req)) w
  end.
Proof.
  intros fuel cm init self request w.
  unfold srcm_HSM2ProtocolLedger____internal_handle_request, gate_request.
  unfold srcm_HSM2ProtocolLedger__format_error, srcm_HSM2ProtocolLedger___invalid_request,
    srcm_HSM2ProtocolLedger___wrong_version, srcm_HSM2ProtocolLedger___command_unknown.
  unfold KEY_COMMAND, KEY_VERSION, CMDNAME_VERSION_COMMAND.
  change (c_version (codes_of V5)) with 5%Z.
  mstep. rewrite ValLemmasProto.py_type_of_json.
  destruct request; kit; try reflexivity.
  mnorm. cbn [py_truth]. jnorm.
  mstep. rewrite py_not_in_obj. unfold jhas.
  destruct (jget (s "command") kv) as [command|] eqn:Ec; cbn [negb]; mnorm; cbn [py_truth]; [|reflexivity].
  mstep. rewrite py_getitem_obj, Ec. mstep. rewrite py_ne_json_str. mnorm.
  rewrite !py_in_obj, !py_not_in_obj, !py_getitem_obj. unfold jhas.
  destruct (Json.py_eq_str command (s "version")) eqn:Eq; cbn [negb py_truth andb];
    (destruct (jget (s "version") kv) as [ver|] eqn:Ev; cbn [negb andb]; mgo; repeat (rw_lift; mgo); try reflexivity);
    try (rewrite py_ne_json_int; mgo; destruct (Json.py_eq_int ver 5) eqn:Ei; cbn [negb]; mgo; [|reflexivity]).
  all: rewrite ?mbind_lift_POk; unfold MV.py_or; mgo; rewrite ValLemmasProto.py_type_of_json, py_ne_type.
  all: destruct command; cbn [hashable jty pty_eqb negb]; rewrite mbind_lift_POk; mgo; try reflexivity.
  all: jnorm; rw_lift; unfold py_not_in; rewrite known_v5_in; kit; unfold known_commands.
  all: destruct (str_in x KNOWN_COMMANDS_V5) eqn:Ek; cbn [negb]; mgo; [|reflexivity].
  all: rw_lift; rewrite dispatch_st_v5; destruct (dispatch_v5 self x kv Ek) as (vn & v & Hn & Hr & Hd).
  all: rewrite Hn, Hr, Hd; kit; mgo; rw_lift; kit.
  all: destruct (v <? 0)%Z; mgo; [reflexivity|].
  all: reflexivity.
Qed.
