(* Refinement lemma: _Error.is_user_defined_error of ledger/hsm2dongle.py (the status-word range that
   _send_command turns into HSM2DongleErrorResult) as translated from the source text is the model's
   user_defined, whose ranges gen_tables.py tabulates. *)
From PowHsm Require Import Gen.Src Model.Device.
From Coq Require Import Lia ZifyBool.

Lemma src_is_user_defined_ok : forall sw : N,
  src__Error__is_user_defined_error (VInt (Z.of_N sw)) = POk (VBool (user_defined sw)).
Proof.
  intro sw. unfold src__Error__is_user_defined_error, user_defined, USER_DEFINED_RANGES, in_ranges.
  unfold py_cmp, py_eq, vnum, vbool, pmap, py_and, py_or, py_truth.
  destruct (27040 <=? Z.of_N sw)%Z eqn:E1; destruct (Z.of_N sw <=? 27647)%Z eqn:E2;
  destruct (Z.of_N sw =? 27904)%Z eqn:E3;
  destruct (27040 <=? sw) eqn:F1; destruct (sw <=? 27647) eqn:F2;
  destruct (27904 <=? sw) eqn:F3; destruct (sw <=? 27904) eqn:F4;
  cbn; try reflexivity; exfalso; lia.
Qed.

(* a status word outside the 16-bit... no: any integer.  Values that are not ints are not status words. *)
Lemma src_is_user_defined_true_iff : forall sw : N,
  src__Error__is_user_defined_error (VInt (Z.of_N sw)) = POk (VBool true) <->
  (27040 <= sw <= 27647 \/ sw = 27904).
Proof.
  intro sw. rewrite src_is_user_defined_ok. unfold user_defined, USER_DEFINED_RANGES, in_ranges.
  split.
  - intro H. inversion H as [H1]. lia.
  - intro H. f_equal. f_equal. lia.
Qed.
