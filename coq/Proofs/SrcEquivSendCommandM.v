(* The primitive under every translated device-facing function, m_send_command, IS the source's _send_command:
   HSM2Dongle._send_command of ledger/hsm2dongle.py - the APDU framing, the exchange with the transport, and the
   classification of what the transport raises (user-defined status words -> HSM2DongleErrorResult, the time-out
   CommException -> HSM2DongleTimeoutError, "Error while writing" / "read error" -> HSM2DongleCommError, anything
   else -> HSM2DongleError) - as translated from the Python source text (Gen/SrcM.v) over the transport primitive
   m_exchange (Model/ValM.v: the scripted device's answer as data or as the exception object the transport raises)
   runs on every world exactly as m_send_command, i.e. as the model's send_command with its `classify`. *)
From PowHsm Require Import Gen.Src Gen.SrcM Model.Dongle.
From PowHsm Require Import Proofs.ValLemmas Proofs.SrcEquivLedger Proofs.SrcEquivDongleM.
From PowHsm Require Import Proofs.ValLemmasM Proofs.SrcEquivDongle.


Lemma status_not_timeout (z : Z) :
  src_HSM2DongleTimeoutError__is_timeout
    (VObj "CommException" [("sw", VInt z); ("message", VStr (s "Invalid status"))]) = POk (VBool false).
Proof.
  unfold src_HSM2DongleTimeoutError__is_timeout.
  change (py_getattr (VObj "CommException" [("sw", VInt z); ("message", VStr (s "Invalid status"))]) "sw") with (@POk pv (VInt z)).
  change (pbind
             (py_getattr (VObj "CommException" [("sw", VInt z); ("message", VStr (s "Invalid status"))])
                "message") (fun t2_ : pv => vbool (py_eq t2_ (VStr (s "Timeout"))))) with (@POk pv (VBool false)).
  change (obj_class_is (VObj "CommException" [("sw", VInt z); ("message", VStr (s "Invalid status"))]) "CommException") with true.
  cbn [pbind]. rewrite py_eq_int. 
  destruct (z =? 28416)%Z; reflexivity.
Qed.

Lemma status_not_comm (z : Z) :
  src_HSM2DongleCommError__is_comm_error
    (VObj "CommException" [("sw", VInt z); ("message", VStr (s "Invalid status"))]) = POk (VBool false).
Proof. reflexivity. Qed.

Lemma pack_BBs_ok (cmd : N) (data : bytes) : (cmd < 256)%N ->
  MV.py_struct_pack_BBs (VInt 128) (VInt (Z.of_N cmd)) (VBytes data) = mret (VBytes (CLA :: cmd :: data)).
Proof.
  intro H. unfold MV.py_struct_pack_BBs. cbn [vint].
  replace ((0 <=? 128) && (128 <? 256) && (0 <=? Z.of_N cmd) && (Z.of_N cmd <? 256))%Z with true.
  - rewrite N2Z.id. reflexivity.
  - symmetry. rewrite !Bool.andb_true_iff. repeat split; try reflexivity.
    + apply Z.leb_le. lia.
    + apply Z.ltb_lt. lia.
Qed.

Lemma srcm_send_command_run :
  forall (cls : string) (fields : list (string * pv)) (cmd : N) (data : bytes) (timeout : pv) (w : world),
  (cmd < 256)%N ->
  srcm_HSM2Dongle___send_command (VObj cls fields) (VInt (Z.of_N cmd)) (VBytes data) timeout w =
  mres VBytes (send_command cmd data w).
Proof.
  intros cls fields cmd data timeout w H.
  unfold srcm_HSM2Dongle___send_command.
  rewrite (pack_BBs_ok cmd data H).
  unfold MV.py_setattr at 1. unfold Val.py_setattr at 1.
  unfold MV.pbind at 1 2 3 4. unfold MV.POk at 1.
  rewrite mbind_ret, mbind_lift, mbind_ret.
  unfold mbind at 1. unfold MV.m_exchange, send_command, mres.
  destruct (script w) as [|r rest].
  - cbn [MV.exc_obj_of_resp fst snd]. generalize (push (Apdu (CLA :: cmd :: data) TimeoutR) w). intro w'.
    vm_compute. reflexivity.
  - destruct r as [b|sw| | | |]; cbn [MV.exc_obj_of_resp classify fst snd].
    + reflexivity.
    + generalize (push (Apdu (CLA :: cmd :: data) (Status sw)) (set_script w rest)). intro w'.
      mv_unfold. unfold MV.py_setattr, MV.py_getattr, Val.py_setattr.
      change (obj_class_is (VObj "CommException" [("sw", VInt (Z.of_N sw)); ("message", VStr (s "Invalid status"))]) "CommException") with true.
      change (py_getattr (VObj "CommException" [("sw", VInt (Z.of_N sw)); ("message", VStr (s "Invalid status"))]) "sw") with (@POk pv (VInt (Z.of_N sw))).
      rewrite status_not_timeout, status_not_comm.
      repeat first [rewrite mbind_ret | rewrite mbind_lift | rewrite src_is_user_defined_ok
                   | progress cbn [py_truth] | progress cbv beta iota].
      destruct (user_defined sw).
      * unfold MV.m_raise_error_result. cbn [vint].
        destruct (Z.ltb_spec (Z.of_N sw) 0) as [L|L]; [lia|]. rewrite N2Z.id. reflexivity.
      * reflexivity.
    + generalize (push (Apdu (CLA :: cmd :: data) TimeoutR) (set_script w rest)). intro w'. vm_compute. reflexivity.
    + generalize (push (Apdu (CLA :: cmd :: data) WriteErr) (set_script w rest)). intro w'. vm_compute. reflexivity.
    + generalize (push (Apdu (CLA :: cmd :: data) ReadErr) (set_script w rest)). intro w'. vm_compute. reflexivity.
    + generalize (push (Apdu (CLA :: cmd :: data) Raise) (set_script w rest)). intro w'. vm_compute. reflexivity.
Qed.


Theorem srcm_send_command_is_primitive :
  forall (cls : string) (fields : list (string * pv)) (cmd : N) (data : bytes) (timeout : pv) (w : world),
  (cmd < 256)%N ->
  srcm_HSM2Dongle___send_command (VObj cls fields) (VInt (Z.of_N cmd)) (VBytes data) timeout w =
  MV.m_send_command (VInt (Z.of_N cmd)) (VBytes data) w.
Proof.
  intros cls fields cmd data timeout w H.
  rewrite (srcm_send_command_run cls fields cmd data timeout w H), m_send_run.
  unfold mres. destruct (send_command cmd data w) as [[r|e] w']; reflexivity.
Qed.

(* the same against the model directly *)
Theorem srcm_send_command_source_ok :
  forall (cls : string) (fields : list (string * pv)) (cmd : N) (data : bytes) (timeout : pv) (w : world),
  (cmd < 256)%N ->
  srcm_HSM2Dongle___send_command (VObj cls fields) (VInt (Z.of_N cmd)) (VBytes data) timeout w =
  mres VBytes (send_command cmd data w).
Proof. exact srcm_send_command_run. Qed.
