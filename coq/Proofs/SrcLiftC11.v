(* C11 "after a link failure the next request first closes and re-opens the connection and repeats the bring-up
   before any command APDU", carried over to the translated request path: the world the translated
   __internal_handle_request leaves is exactly the world the accepted command's handler leaves, so every statement
   about the handler's trace is a statement about the translated source's trace. *)
From PowHsm Require Import Gen.Src Gen.SrcM Model.Dongle Model.LedgerProtocol.
From PowHsm Require Import Proofs.ValLemmas Proofs.SrcEquivBase Proofs.SrcEquivLedger Proofs.SrcEquivDongleM
  Proofs.SrcEquivProtoM Proofs.SrcEquivSignProtoM Proofs.SrcEquivBlockM Proofs.SrcEquivBlockProtoM Proofs.SrcEquivGateM
  Proofs.SrcLiftGate.
From PowHsm Require Proofs.C11 Proofs.TraceLogic.

Section WithEnv.
Variable keccak : bytes -> bytes.
Variable kind : dongle_kind.
Variable init : pm pv.
Variable cm : string -> pv -> list pv -> pr pv.

(* the translated request path ends in the world the accepted command's handler ends in *)
Theorem src_world_is_handler_world : forall fuel self request cmd req opname op w,
  env_ok keccak kind init cm fuel w ->
  gate_request V5 request = GAccept cmd req ->
  assoc_str cmd DISPATCH_V5 = Some opname ->
  run_operation keccak kind V5 opname req = Some op ->
  snd (srcm_HSM2ProtocolLedger____internal_handle_request fuel cm init self (of_json request) w) = snd (op w).
Proof.
  intros fuel self request cmd req opname op w Henv Hg Hd Hr.
  rewrite (src_is_model keccak kind init cm fuel self request w Henv).
  unfold mres. cbn [snd]. unfold handle_request. rewrite Hg, Hd, Hr. unfold bind.
  destruct (op w) as [[[c out]|e] w1]; cbn [snd]; [|reflexivity].
  destruct (c <? 0)%Z; [reflexivity|]. destruct out; reflexivity.
Qed.

(* repair precedes command, on the translated request path *)
Theorem src_repair_precedes_command : forall fuel self request cmd req opname op P rcn w,
  env_ok keccak kind init cm fuel w ->
  gate_request V5 request = GAccept cmd req ->
  assoc_str cmd DISPATCH_V5 = Some opname ->
  run_operation keccak kind V5 opname req = Some op ->
  C11.shape kind V5 P rcn op -> comm_issue w = true -> C11.connect_ok w ->
  let wf := snd (srcm_HSM2ProtocolLedger____internal_handle_request fuel cm init self (of_json request) w) in
  (exists r, C11.pure_result r /\ op w = (r, w)) \/
  exists more_up n_cmd,
    let n_up := C11.close_events w ++ Connect true
                  :: Apdu [CLA; CMD_IS_ONBOARD] (TraceLogic.next_answer w) :: more_up in
    TraceLogic.news w (snd (ensure_connection kind w)) n_up /\
    TraceLogic.news w wf (n_up ++ n_cmd) /\
    (n_cmd <> [] -> exists u, fst (initialize_device kind (C11.closed_world w)) = Ok u) /\
    (comm_issue (snd (ensure_connection kind w)) = false
     <-> exists u, fst (initialize_device kind (C11.closed_world w)) = Ok u).
Proof.
  intros fuel self request cmd req opname op P rcn w Henv Hg Hd Hr Hs Hci Hok wf.
  unfold wf. rewrite (src_world_is_handler_world fuel self request cmd req opname op w Henv Hg Hd Hr).
  exact (C11.repair_precedes_command kind V5 P rcn op w Hs Hci Hok).
Qed.

End WithEnv.
