(* C11: link failures get a device-error reply and are repaired on the next request. *)
From PowHsm Require Import Model.Server Proofs.TraceLogic.
From Coq Require Import ZifyBool ZifyNat ZifyN Lia.
Open Scope N_scope.

(* ====================================================================================== *)
(* 1. Ladders                                                                             *)
(* ====================================================================================== *)

(* the first ladder entry matching the pending exception: (sets the flag?, action) *)
Fixpoint ladder_action_for (lad : ladder) (e : exn) : option (bool * ladder_action) :=
  match lad with
  | [] => None
  | (cs, flag, act) :: rest =>
      if exn_matches e cs then Some (flag, act) else ladder_action_for rest e
  end.

Definition ladder_cont (fa : bool * ladder_action) : M rtuple :=
  (if fst fa then modify (fun w => set_comm_issue w true) else ret tt) ;;;
  match snd fa with
  | LadCode c => ret (c, None)
  | LadError => raise ProtocolError
  | LadPass => ret (0%Z, None)
  end.

Lemma apply_ladder_for lad e :
  apply_ladder lad e = option_map ladder_cont (ladder_action_for lad e).
Proof.
  induction lad as [|[[cs flag] act] rest IH]; [reflexivity|].
  cbn [apply_ladder ladder_action_for]. destruct (exn_matches e cs); [reflexivity|exact IH].
Qed.

Lemma with_ladder_ok lad body w a wb :
  body w = (Ok a, wb) -> with_ladder lad body w = (Ok a, wb).
Proof. intro H. unfold with_ladder, try_catch. rewrite H. reflexivity. Qed.

Lemma with_ladder_uncaught lad body w e wb :
  body w = (Exn e, wb) -> ladder_action_for lad e = None ->
  with_ladder lad body w = (Exn e, wb).
Proof.
  intros H Hl. unfold with_ladder, try_catch. rewrite H, apply_ladder_for, Hl. reflexivity.
Qed.

(* the generic ladder lemma of the task *)
Lemma with_ladder_code lad body w e wb flag c :
  body w = (Exn e, wb) -> ladder_action_for lad e = Some (flag, LadCode c) ->
  with_ladder lad body w = (Ok (c, None), if flag then set_comm_issue wb true else wb).
Proof.
  intros H Hl. unfold with_ladder, try_catch. rewrite H, apply_ladder_for, Hl.
  destruct flag; reflexivity.
Qed.

Corollary with_ladder_code_flag lad body w e wb flag c :
  body w = (Exn e, wb) -> ladder_action_for lad e = Some (flag, LadCode c) ->
  fst (with_ladder lad body w) = Ok (c, None) /\
  comm_issue (snd (with_ladder lad body w)) = (if flag then true else comm_issue wb).
Proof.
  intros H Hl. rewrite (with_ladder_code _ _ _ _ _ _ _ H Hl). destruct flag; split; reflexivity.
Qed.

(* what the ladder does to the world, whatever the body did: only the flag can change *)
Definition ladder_flag (lad : ladder) {A} (r : result A) : bool :=
  match r with
  | Exn e => match ladder_action_for lad e with Some (true, _) => true | _ => false end
  | Ok _ => false
  end.

Lemma with_ladder_world lad body w :
  let r := fst (body w) in let wb := snd (body w) in
  let w' := snd (with_ladder lad body w) in
  script w' = script wb /\ connects w' = connects wb /\ opened w' = opened wb /\
  trace w' = trace wb /\ pin w' = pin wb /\
  comm_issue w' = ladder_flag lad r || comm_issue wb.
Proof.
  unfold with_ladder, try_catch, ladder_flag. destruct (body w) as [[a|e] wb]; cbn [fst snd].
  - repeat split; reflexivity.
  - rewrite apply_ladder_for. destruct (ladder_action_for lad e) as [[[|] act]|]; cbn [option_map].
    + unfold ladder_cont, bind, modify; cbn [fst snd]. destruct act; repeat split; reflexivity.
    + unfold ladder_cont, bind, ret; cbn [fst snd]. destruct act; repeat split; reflexivity.
    + repeat split; reflexivity.
Qed.

(* ---- closed checks on every generated ladder ---- *)

(* DongleComm -> (flag, DEVICE); DongleTimeout -> (no flag, DEVICE) *)
Definition link_ladder (dev : Z) (lad : ladder) : bool :=
  match ladder_action_for lad DongleComm, ladder_action_for lad DongleTimeout with
  | Some (true, LadCode c1), Some (false, LadCode c2) => (c1 =? dev)%Z && (c2 =? dev)%Z
  | _, _ => false
  end.

(* one representative per exception class (the ladder only looks at the class) *)
Definition exn_reps : list exn :=
  [ErrorResult 0; DongleTimeout; DongleComm; DongleError; ProtocolError; ProtocolInterrupt;
   PinError; AdminError; Py ValueError].

Definition is_comm_exn (e : exn) : bool := match e with DongleComm => true | _ => false end.

(* the flag is raised for the comm error class and for nothing else *)
Definition flag_only_comm (lad : ladder) : bool :=
  forallb (fun e => Bool.eqb (ladder_flag lad (@Exn unit e)) (is_comm_exn e)) exn_reps.

Definition V5_LADDERS : list ladder :=
  [LADDER_V5_get_pubkey; LADDER_V5_sign_unauth; LADDER_V5_sign_auth; LADDER_V5_blockchain_state;
   LADDER_V5_reset_advance_blockchain; LADDER_V5_advance_blockchain;
   LADDER_V5_update_ancestor_block; LADDER_V5_get_blockchain_parameters;
   LADDER_V5_signer_heartbeat; LADDER_V5_ui_heartbeat].
Definition V1_LADDERS : list ladder := [LADDER_V1_get_pubkey; LADDER_V1_sign].

Lemma device_codes : V5_ERROR_CODE_DEVICE = (-905)%Z /\ V1_ERROR_CODE_DEVICE = (-2)%Z.
Proof. split; vm_compute; reflexivity. Qed.

Lemma device_code_of m :
  c_device (codes_of m) = match m with V5 => (-905)%Z | V1 => (-2)%Z end.
Proof. destruct m; vm_compute; reflexivity. Qed.

Lemma ladders_v5_link : forallb (link_ladder V5_ERROR_CODE_DEVICE) V5_LADDERS = true.
Proof. vm_compute; reflexivity. Qed.
Lemma ladders_v1_link : forallb (link_ladder V1_ERROR_CODE_DEVICE) V1_LADDERS = true.
Proof. vm_compute; reflexivity. Qed.
Lemma ladders_flag_only_comm : forallb flag_only_comm (V5_LADDERS ++ V1_LADDERS) = true.
Proof. vm_compute; reflexivity. Qed.

(* the explicit per-ladder form: DongleComm -> (true, LadCode DEVICE), DongleTimeout -> (false, ...) *)
Lemma ladders_explicit :
  Forall (fun lad => ladder_action_for lad DongleComm = Some (true, LadCode V5_ERROR_CODE_DEVICE) /\
                     ladder_action_for lad DongleTimeout = Some (false, LadCode V5_ERROR_CODE_DEVICE))
         V5_LADDERS /\
  Forall (fun lad => ladder_action_for lad DongleComm = Some (true, LadCode V1_ERROR_CODE_DEVICE) /\
                     ladder_action_for lad DongleTimeout = Some (false, LadCode V1_ERROR_CODE_DEVICE))
         V1_LADDERS.
Proof. split; repeat constructor. Qed.

Lemma link_ladder_spec dev lad :
  link_ladder dev lad = true ->
  ladder_action_for lad DongleComm = Some (true, LadCode dev) /\
  ladder_action_for lad DongleTimeout = Some (false, LadCode dev).
Proof.
  unfold link_ladder.
  destruct (ladder_action_for lad DongleComm) as [[[|] [c1| |]]|]; try discriminate.
  destruct (ladder_action_for lad DongleTimeout) as [[[|] [c2| |]]|]; try discriminate.
  intro H. apply andb_prop in H as [H1 H2].
  apply Z.eqb_eq in H1, H2. subst. split; reflexivity.
Qed.

(* the ladder decision depends on the class only, so the representative check covers all e *)
Definition exn_rep (e : exn) : exn :=
  match e with ErrorResult _ => ErrorResult 0 | Py _ => Py ValueError | e => e end.

Lemma ladder_action_for_rep lad e : ladder_action_for lad e = ladder_action_for lad (exn_rep e).
Proof.
  induction lad as [|[[cs flag] act] rest IH]; [reflexivity|].
  cbn [ladder_action_for]. rewrite IH.
  replace (exn_matches e cs) with (exn_matches (exn_rep e) cs); [reflexivity|].
  destruct e; reflexivity.
Qed.

Lemma flag_only_comm_spec lad :
  flag_only_comm lad = true -> forall A e, ladder_flag lad (@Exn A e) = is_comm_exn e.
Proof.
  intros H A e. unfold flag_only_comm in H. rewrite forallb_forall in H.
  assert (Hin : In (exn_rep e) exn_reps) by (destruct e; cbn; tauto).
  specialize (H _ Hin). apply Bool.eqb_prop in H.
  unfold ladder_flag in *. rewrite ladder_action_for_rep. rewrite H. destruct e; reflexivity.
Qed.

(* ====================================================================================== *)
(* 2a. Faults, and the invariant "the computation stops at the first fatal link fault"    *)
(* ====================================================================================== *)

Definition is_fault (r : resp) : bool :=
  match r with TimeoutR | WriteErr | ReadErr => true | _ => false end.
Definition is_comm_fault (r : resp) : bool :=
  match r with WriteErr | ReadErr => true | _ => false end.
Definition fault_exn (r : resp) : exn :=
  match r with TimeoutR => DongleTimeout | _ => DongleComm end.
Definition is_link (e : exn) : bool :=
  match e with DongleComm | DongleTimeout => true | _ => false end.

(* a faulty answer to _send_command raises exactly DongleComm / DongleTimeout *)
Lemma classify_fault r : is_fault r = true -> classify r = Exn (fault_exn r).
Proof. destruct r; try discriminate; reflexivity. Qed.

Lemma classify_link r e : classify r = Exn e -> is_link e = true -> is_fault r = true /\ e = fault_exn r.
Proof.
  destruct r; cbn [classify]; try destruct (user_defined sw); intros H; inversion H; subst;
    intros Hl; try discriminate Hl; split; reflexivity.
Qed.

Lemma send_command_fault cmd data w f rest :
  script w = f :: rest -> is_fault f = true ->
  send_command cmd data w
  = (Exn (fault_exn f), push (Apdu (CLA :: cmd :: data) f) (set_script w rest)).
Proof. intros Hs Hf. unfold send_command. rewrite Hs, (classify_fault f Hf). reflexivity. Qed.

Lemma fault_exn_link f : is_link (fault_exn f) = true.
Proof. destruct f; reflexivity. Qed.

Lemma fault_exn_comm f : is_fault f = true -> is_comm_exn (fault_exn f) = is_comm_fault f.
Proof. destruct f; try discriminate; reflexivity. Qed.

(* the new events consume the script in order (a silent device answers TimeoutR) *)
Fixpoint fed (sc : list resp) (n : list event) (sc' : list resp) : Prop :=
  match n with
  | [] => sc' = sc
  | Apdu _ r :: n' => r = hd TimeoutR sc /\ fed (tl sc) n' sc'
  | _ :: n' => fed sc n' sc'
  end.

Lemma fed_app sc n1 scm n2 sc' : fed sc n1 scm -> fed scm n2 sc' -> fed sc (n1 ++ n2) sc'.
Proof.
  revert sc. induction n1 as [|ev n1 IH]; intros sc H1 H2; cbn in *.
  - subst. exact H2.
  - destruct ev; try (apply IH; assumption). destruct H1 as [-> H1]. split; auto.
Qed.

Definition is_apdu (e : event) : bool := match e with Apdu _ _ => true | _ => false end.
Definition no_apdu (n : list event) : Prop := Forall (fun e => is_apdu e = false) n.

Lemma fed_no_apdu sc n sc' : fed sc n sc' -> no_apdu n -> sc' = sc.
Proof.
  revert sc. induction n as [|ev n IH]; intros sc H Hn; cbn in *; [assumption|].
  inversion Hn as [|? ? He Hn']; subst. destruct ev; try discriminate; auto.
Qed.

(* the event that goes with a DongleComm raised by the dongle layer *)
Definition comm_event (rcn : bool) (e : event) : bool :=
  match e with Apdu _ r => is_comm_fault r | Connect ok => rcn && negb ok | _ => false end.

Section Good.
(* which (APDU, answer) pairs are fatal to the command *)
Variable P : bytes -> resp -> bool.
Hypothesis P_sound : forall b f, P b f = true -> is_fault f = true.
(* may the computation re-open the connection (and so raise DongleComm from a failed connect)? *)
Variable rcn : bool.

Definition Pev (e : event) : bool := match e with Apdu b f => P b f | _ => false end.
Definition clean (n : list event) : Prop := Forall (fun e => Pev e = false) n.

Definition stops {A} (r : result A) (n : list event) : Prop :=
  clean n \/
  exists pre b f, n = pre ++ [Apdu b f] /\ clean pre /\ P b f = true /\ r = Exn (fault_exn f).

Definition comm_origin {A} (r : result A) (n : list event) : Prop :=
  r = Exn DongleComm -> exists pre ev, n = pre ++ [ev] /\ comm_event rcn ev = true.

Definition goodQ {A} (w : world) (r : result A) (n : list event) (w' : world) : Prop :=
  fed (script w) n (script w') /\ comm_issue w' = comm_issue w /\ stops r n /\ comm_origin r n.

Definition good {A} (m : M A) : Prop := spec m goodQ.

Lemma clean_app n1 n2 : clean n1 -> clean n2 -> clean (n1 ++ n2).
Proof. apply Forall_app_intro || (intros; apply Forall_app; auto). Qed.

Lemma stops_ok_clean {A} (a : A) n : stops (Ok a) n -> clean n.
Proof. intros [H|[pre [b [f [_ [_ [_ H]]]]]]]; [assumption|discriminate]. Qed.

Lemma stops_app {A} (r : result A) n1 n2 : clean n1 -> stops r n2 -> stops r (n1 ++ n2).
Proof.
  intros H1 [H2|[pre [b [f [-> [Hc [Hp Hr]]]]]]].
  - left. apply clean_app; assumption.
  - right. exists (n1 ++ pre), b, f. rewrite app_assoc. repeat split; auto. apply clean_app; assumption.
Qed.

Lemma comm_origin_app {A} (r : result A) n1 n2 : comm_origin r n2 -> comm_origin r (n1 ++ n2).
Proof.
  intros H Hr. destruct (H Hr) as [pre [ev [-> Hev]]]. exists (n1 ++ pre), ev.
  rewrite app_assoc. auto.
Qed.

Lemma goodQ_exn {A B} w e n w' : @goodQ A w (Exn e) n w' -> @goodQ B w (Exn e) n w'.
Proof.
  intros [F [C [S O]]]. split; [exact F|]. split; [exact C|]. split.
  - destruct S as [S|[pre [b [f [E [Hc [Hp Hr]]]]]]]; [left; exact S|].
    right. exists pre, b, f. repeat split; auto. injection Hr as ->. reflexivity.
  - intro Hr. apply O. injection Hr as ->. reflexivity.
Qed.

Lemma good_ext {A} (m m' : M A) : (forall w, m w = m' w) -> good m' -> good m.
Proof. intros He H w. rewrite He. apply H. Qed.

Lemma good_ret {A} (a : A) : good (ret a).
Proof.
  eapply spec_conseq; [apply spec_ret|]. intros w r n w' [-> [-> ->]].
  repeat split; [left; constructor|discriminate].
Qed.

Lemma good_raise {A} e : e <> DongleComm -> good (@raise A e).
Proof.
  intro He. eapply spec_conseq; [apply spec_raise|]. intros w r n w' [-> [-> ->]].
  repeat split; [left; constructor|]. intros [= H]. contradiction.
Qed.

Lemma good_bind {A B} (m : M A) (f : A -> M B) : good m -> (forall a, good (f a)) -> good (bind m f).
Proof.
  intros Hm Hf. eapply spec_conseq; [apply (spec_bind m f _ (fun _ => goodQ) Hm Hf)|].
  intros w r n w' [[a [n1 [n2 [wm [H1 [H2 ->]]]]]] | [e [-> H1]]]; [|exact (goodQ_exn _ _ _ _ H1)].
  destruct H1 as [F1 [C1 [S1 O1]]], H2 as [F2 [C2 [S2 O2]]].
  split; [eapply fed_app; eauto|]. split; [congruence|].
  split; [apply stops_app; [eapply stops_ok_clean; eauto|assumption]|].
  apply comm_origin_app; assumption.
Qed.

Lemma good_try {A} (m : M A) h :
  good m -> (forall e, is_link e = true -> h e = None) -> (forall e k, h e = Some k -> good k) ->
  good (try_catch m h).
Proof.
  intros Hm Hl Hh.
  eapply spec_conseq; [apply (spec_try_catch m h _ (fun _ => goodQ) Hm Hh)|].
  intros w r n w' [[a [-> H]] | [[e [_ [-> H]]] | [e [k [n1 [n2 [wm [Hk [H1 [H2 ->]]]]]]]]]];
    [exact H|exact H|].
  destruct H1 as [F1 [C1 [S1 O1]]], H2 as [F2 [C2 [S2 O2]]].
  assert (Hc : clean n1).
  { destruct S1 as [Hc|[pre [b [f [_ [_ [_ He]]]]]]]; [assumption|].
    injection He as ->. rewrite (Hl _ (fault_exn_link f)) in Hk. discriminate. }
  split; [eapply fed_app; eauto|]. split; [congruence|].
  split; [apply stops_app; assumption|]. apply comm_origin_app; assumption.
Qed.

Lemma good_send cmd data : good (send_command cmd data).
Proof.
  eapply spec_conseq; [apply spec_send|].
  intros w r n w' [-> [-> [Hs [Hc _]]]].
  split; [cbn [fed]; split; [unfold next_answer; destruct (script w); reflexivity|exact Hs]|].
  split; [exact Hc|]. split.
  - destruct (P (CLA :: cmd :: data) (next_answer w)) eqn:Ep.
    + right. exists [], (CLA :: cmd :: data), (next_answer w).
      repeat split; [constructor|exact Ep|]. apply classify_fault, (P_sound _ _ Ep).
    + left. constructor; [exact Ep|constructor].
  - intro Hr. exists [], (Apdu (CLA :: cmd :: data) (next_answer w)). split; [reflexivity|].
    cbn. destruct (classify_link _ _ Hr eq_refl) as [Hf He].
    destruct (next_answer w); try discriminate; reflexivity.
Qed.

Lemma good_of_opt {A} (o : option A) e : good (of_opt o e).
Proof. destruct o; [apply good_ret|apply good_raise; discriminate]. Qed.

Lemma good_idxM {A} (l : list A) i : good (idxM l i).
Proof. apply good_of_opt. Qed.

Lemma good_on_error {A} (m : M A) h : good m -> (forall sw, good (h sw)) -> good (on_error_result m h).
Proof.
  intros Hm Hh. apply good_try; [assumption| |].
  - intros e He. destruct e; try discriminate; reflexivity.
  - intros e k Hk. destruct e; try discriminate. injection Hk as <-. apply Hh.
Qed.

Lemma good_connect : rcn = true -> good connect.
Proof.
  intros Hrc w. unfold connect.
  destruct (connects w) as [|[|] cn] eqn:Ec; cbn [fst snd].
  - exists [Connect true]. split; [reflexivity|].
    repeat split; [left; repeat constructor|discriminate].
  - exists [Connect true]. split; [reflexivity|].
    repeat split; [left; repeat constructor|discriminate].
  - exists [Connect false]. split; [reflexivity|].
    repeat split; [left; repeat constructor|]. intros _. exists [], (Connect false).
    split; [reflexivity|]. cbn. rewrite Hrc. reflexivity.
Qed.

Lemma good_disconnect : good disconnect.
Proof.
  intro w. unfold disconnect. destruct (opened w); cbn [fst snd].
  - exists [Close]. split; [reflexivity|]. repeat split; [left; repeat constructor|discriminate].
  - exists []. split; [reflexivity|]. repeat split; [left; constructor|discriminate].
Qed.

Lemma good_wait_and_reconnect : rcn = true -> good wait_and_reconnect.
Proof. intro H. apply good_bind; [apply good_disconnect|intro; apply good_connect, H]. Qed.

(* a computation that first reads something off the world *)
Lemma good_reader {A B} (g : world -> B) (m : B -> M A) :
  (forall x, good (m x)) -> good (fun w => m (g w) w).
Proof. intros H w. apply (H (g w) w). Qed.

End Good.

(* ====================================================================================== *)
(* 2b. The dongle-level functions used by the handlers propagate link faults unchanged     *)
(* ====================================================================================== *)

Ltac gd_step P_sound :=
  match goal with
  | |- good _ _ (bind _ _) => apply good_bind; [|intros ?]
  | |- good _ _ (ret _) => apply good_ret
  | |- good _ _ (raise _) => apply good_raise; discriminate
  | |- good _ _ (send_command _ _) => apply good_send; exact P_sound
  | |- good _ _ (of_opt _ _) => apply good_of_opt
  | |- good _ _ (idxM _ _) => apply good_idxM
  | |- good _ _ (on_error_result _ _) => apply good_on_error; [|intros ?]
  | |- good _ _ (if ?b then _ else _) => destruct b
  | |- good _ _ (match ?x with _ => _ end) => destruct x
  end.
Ltac gd P_sound := repeat (gd_step P_sound).

(* closed check on the generated table: get_current_mode's handler catches neither link exception *)
Lemma get_mode_catches_no_link :
  exn_matches DongleComm GET_MODE_CATCHES = false /\ exn_matches DongleTimeout GET_MODE_CATCHES = false.
Proof. split; vm_compute; reflexivity. Qed.

Section Dongle.
Variable P : bytes -> resp -> bool.
Hypothesis P_sound : forall b f, P b f = true -> is_fault f = true.
Variable rcn : bool.

Lemma good_get_current_mode : good P rcn get_current_mode.
Proof.
  unfold get_current_mode. apply good_try.
  - gd P_sound.
  - intros e He. destruct get_mode_catches_no_link as [H1 H2].
    destruct e; try discriminate; [rewrite H2|rewrite H1]; reflexivity.
  - intros e k Hk. destruct (exn_matches e GET_MODE_CATCHES); [|discriminate].
    injection Hk as <-. apply good_ret.
Qed.

Lemma good_get_public_key p : good P rcn (get_public_key p).
Proof. unfold get_public_key. gd P_sound. Qed.

Lemma good_get_signer_parameters : good P rcn get_signer_parameters.
Proof. unfold get_signer_parameters. gd P_sound. Qed.

Lemma good_reset_advance_blockchain : good P rcn reset_advance_blockchain.
Proof. unfold reset_advance_blockchain. gd P_sound. Qed.

Lemma good_get_hashes hv : good P rcn (get_hashes hv).
Proof.
  induction hv as [|[key code] hv IH]; cbn [get_hashes]; [apply good_ret|].
  gd P_sound. exact IH.
Qed.

Lemma good_get_blockchain_state : good P rcn get_blockchain_state.
Proof.
  unfold get_blockchain_state. apply good_bind; [apply good_get_hashes|intro]. gd P_sound.
Qed.

Lemma good_run_heartbeat c o1 o2 o3 o4 o5 ud : good P rcn (run_heartbeat c o1 o2 o3 o4 o5 ud).
Proof.
  unfold run_heartbeat. apply good_try.
  - gd P_sound.
  - intros e He. destruct e; try discriminate; reflexivity.
  - intros e k Hk. destruct e; try discriminate. injection Hk as <-. apply good_ret.
Qed.

Lemma good_chunks_loop fuel : forall cmd op nexts full rem req,
  good P rcn (chunks_loop fuel cmd op nexts full rem req).
Proof.
  induction fuel as [|f IH]; intros; cbn [chunks_loop]; [apply good_raise; discriminate|].
  gd P_sound. apply IH.
Qed.

Lemma good_send_data_in_chunks cmd op nexts data full initial :
  good P rcn (send_data_in_chunks cmd op nexts data full initial).
Proof.
  unfold send_data_in_chunks.
  apply (good_reader P rcn (fun w => S (length (script w)))
           (fun fuel => chunks_loop fuel cmd op nexts full data initial)).
  intro. apply good_chunks_loop.
Qed.

Lemma good_sign_unauthorized p h : good P rcn (sign_unauthorized p h).
Proof. unfold sign_unauthorized. gd P_sound. Qed.

Ltac gd' :=
  repeat first [ apply good_send_data_in_chunks | gd_step P_sound ].

Lemma good_sign_authorized p rc pf tx i md ws ov : good P rcn (sign_authorized p rc pf tx i md ws ov).
Proof. unfold sign_authorized. gd'. Qed.

Lemma good_send_block_header o ib raw : good P rcn (send_block_header o ib raw).
Proof. unfold send_block_header. gd'. Qed.

Lemma good_send_brothers o bros : forall last, good P rcn (send_brothers o bros last).
Proof.
  induction bros as [|b bros IH]; intro last; cbn [send_brothers]; [apply good_ret|].
  apply good_bind; [apply good_send_block_header|intros [r|c]]; [apply IH|apply good_ret].
Qed.

Lemma good_block_loop o blocks : forall brothers, good P rcn (block_loop o blocks brothers).
Proof.
  induction blocks as [|blk rest IH]; intro brothers; cbn [block_loop];
    [apply good_raise; discriminate|].
  apply good_bind; [apply good_send_block_header|intros [resp|c]]; [|apply good_ret].
  apply good_bind; [apply good_idxM|intro rop].
  apply good_bind.
  - repeat first [ apply good_send_brothers | gd_step P_sound ].
  - intros [resp2|c]; [|apply good_ret].
    apply good_bind; [apply good_idxM|intro rop3].
    destruct (bo_is_advance o && (rop3 =? bo_op_partial o)); [apply good_ret|].
    destruct (rop3 =? bo_op_success o); [apply good_ret|]. apply IH.
Qed.

Lemma good_do_block_operation o blocks brothers : good P rcn (do_block_operation o blocks brothers).
Proof.
  unfold do_block_operation.
  repeat first [ apply good_block_loop | gd_step P_sound ].
Qed.

Lemma good_advance_blockchain keccak blocks brothers :
  good P rcn (advance_blockchain keccak blocks brothers).
Proof.
  unfold advance_blockchain.
  repeat first [ apply good_do_block_operation | gd_step P_sound ].
Qed.

Lemma good_update_ancestor blocks : good P rcn (update_ancestor blocks).
Proof.
  unfold update_ancestor.
  repeat first [ apply good_do_block_operation | gd_step P_sound ].
Qed.

(* request-field readers: no device interaction at all *)
Lemma good_key_path req : good P rcn (key_path req).
Proof. unfold key_path. gd P_sound. Qed.
Lemma good_jstr_field o k : good P rcn (jstr_field o k).
Proof. unfold jstr_field. gd P_sound. Qed.
Lemma good_jobj_field o k : good P rcn (jobj_field o k).
Proof. unfold jobj_field. gd P_sound. Qed.
Lemma good_hex_field o k : good P rcn (hex_field o k).
Proof. unfold hex_field. apply good_bind; [apply good_jstr_field|intro; apply good_of_opt]. Qed.
Lemma good_str_list_field o k : good P rcn (str_list_field o k).
Proof. unfold str_list_field. gd P_sound. Qed.
Lemma good_block_list j : good P rcn (block_list j).
Proof. unfold block_list. gd P_sound. Qed.
Lemma good_hash_of k st : good P rcn (hash_of k st).
Proof. unfold hash_of. gd P_sound. Qed.

End Dongle.

(* ---- the two fault predicates ---- *)
Definition P_all (b : bytes) (f : resp) : bool := is_fault f.

(* uiHeartbeat deliberately swallows a comm error (not a time-out) at its two app-exit exchanges *)
Definition exit_apdu : bytes := [CLA; CMD_EXIT_MENU].
Definition P_ui (b : bytes) (f : resp) : bool :=
  is_fault f && negb (bytes_eqb b exit_apdu && is_comm_fault f).

Lemma P_all_sound b f : P_all b f = true -> is_fault f = true.
Proof. exact (fun H => H). Qed.
Lemma P_ui_sound b f : P_ui b f = true -> is_fault f = true.
Proof. unfold P_ui. intro H. apply andb_prop in H. tauto. Qed.

(* closed checks: the app-exit ladders swallow DongleComm and nothing else of the link kind *)
Lemma exit_ladders_check :
  ladder_action_for LADDER_V5_ui_heartbeat_exit1 DongleTimeout = None /\
  ladder_action_for LADDER_V5_ui_heartbeat_exit2 DongleTimeout = None /\
  ladder_action_for LADDER_V5_ui_heartbeat_exit1 DongleComm = Some (false, LadPass) /\
  ladder_action_for LADDER_V5_ui_heartbeat_exit2 DongleComm = Some (false, LadPass).
Proof. repeat split; vm_compute; reflexivity. Qed.

Lemma good_exit_app_tolerant lad :
  ladder_action_for lad DongleTimeout = None -> good P_ui true (exit_app_tolerant lad).
Proof.
  intros Ht w. unfold exit_app_tolerant, try_catch, exit_app, bind, send_command.
  assert (HT : apply_ladder lad DongleTimeout = None) by (rewrite apply_ladder_for, Ht; reflexivity).
  destruct (script w) as [|r rest] eqn:Es.
  - rewrite HT. cbn [fst snd]. exists [Apdu exit_apdu TimeoutR]. split; [reflexivity|].
    split; [cbn; rewrite Es; auto|]. split; [reflexivity|]. split; [|discriminate].
    right. exists [], exit_apdu, TimeoutR. repeat split. constructor.
  - exists [Apdu exit_apdu r].
    assert (Hfed : forall w1, script w1 = rest -> fed (script w) [Apdu exit_apdu r] (script w1)).
    { intros w1 H1. cbn. rewrite Es. cbn. auto. }
    destruct r; cbn [classify].
    + cbn [ret fst snd]. split; [reflexivity|]. split; [apply Hfed; reflexivity|].
      split; [reflexivity|]. split; [left; repeat constructor|discriminate].
    + destruct (user_defined sw).
      * destruct (apply_ladder lad (ErrorResult sw)); cbn [ret fst snd];
          (split; [reflexivity|]; split; [apply Hfed; reflexivity|];
           split; [reflexivity|]; split; [left; repeat constructor|discriminate]).
      * destruct (apply_ladder lad DongleError); cbn [ret fst snd];
          (split; [reflexivity|]; split; [apply Hfed; reflexivity|];
           split; [reflexivity|]; split; [left; repeat constructor|discriminate]).
    + rewrite HT. cbn [fst snd]. split; [reflexivity|]. split; [apply Hfed; reflexivity|].
      split; [reflexivity|]. split; [|discriminate].
      right. exists [], exit_apdu, TimeoutR. repeat split. constructor.
    + destruct (apply_ladder lad DongleComm); cbn [ret fst snd];
        (split; [reflexivity|]; split; [apply Hfed; reflexivity|];
         split; [reflexivity|]; split; [left; repeat constructor|]).
      * discriminate.
      * intros _. exists [], (Apdu exit_apdu WriteErr). auto.
    + destruct (apply_ladder lad DongleComm); cbn [ret fst snd];
        (split; [reflexivity|]; split; [apply Hfed; reflexivity|];
         split; [reflexivity|]; split; [left; repeat constructor|]).
      * discriminate.
      * intros _. exists [], (Apdu exit_apdu ReadErr). auto.
    + destruct (apply_ladder lad DongleError); cbn [ret fst snd];
        (split; [reflexivity|]; split; [apply Hfed; reflexivity|];
         split; [reflexivity|]; split; [left; repeat constructor|discriminate]).
Qed.

(* ====================================================================================== *)
(* 2c. The shape of every command handler                                                  *)
(* ====================================================================================== *)

Section Handlers.
Variable keccak : bytes -> bytes.
Variable kind : dongle_kind.

(* try: ensure_connection(); <rest>  except <ladder> *)
Definition std_handler (lad : ladder) (rest : M rtuple) : M rtuple :=
  with_ladder lad (ensure_connection kind ;;; rest).

(* a result produced without touching the device or the manager state *)
Definition pure_result {A} (r : result A) : Prop := forall e, r = Exn e -> exists p, e = Py p.

Inductive shape (m : pmode) (P : bytes -> resp -> bool) (rcn : bool) (op : M rtuple) : Prop :=
| ShPure r : (forall w, op w = (r, w)) -> pure_result r -> shape m P rcn op
| ShStd lad rest :
    (forall b f, P b f = true -> is_fault f = true) ->
    link_ladder (c_device (codes_of m)) lad = true -> flag_only_comm lad = true ->
    good P rcn rest -> (forall w, op w = std_handler lad rest w) -> shape m P rcn op.

Lemma shape_ext m P rcn op op' : (forall w, op w = op' w) -> shape m P rcn op' -> shape m P rcn op.
Proof.
  intros He [r Hr Hp|lad rest H0 H1 H2 H3 H4].
  - apply (ShPure _ _ _ _ r); [intro w; rewrite He; apply Hr|exact Hp].
  - apply (ShStd _ _ _ _ lad rest); auto. intro w; rewrite He; apply H4.
Qed.

Definition pure {A} (m : M A) : Prop := exists r, (forall w, m w = (r, w)) /\ pure_result r.

Lemma pure_ret {A} (a : A) : pure (ret a).
Proof. exists (Ok a). split; [reflexivity|]. intros e H; discriminate. Qed.
Lemma pure_raise_py {A} p : pure (@raise A (Py p)).
Proof. exists (Exn (Py p)). split; [reflexivity|]. intros e [= <-]. eauto. Qed.
Lemma pure_of_opt {A} (o : option A) p : pure (of_opt o p).
Proof. destruct o; [apply pure_ret|apply pure_raise_py]. Qed.
Lemma pure_bind {A B} (m : M A) (f : A -> M B) : pure m -> (forall a, pure (f a)) -> pure (bind m f).
Proof.
  intros [[a|e] [Hr Hp]] Hf.
  - destruct (Hf a) as [r [Hr' Hp']]. exists r. split; [|exact Hp'].
    intro w. unfold bind. rewrite Hr. apply Hr'.
  - exists (Exn e). split; [intro w; unfold bind; rewrite Hr; reflexivity|].
    intros e' [= <-]. apply (Hp e eq_refl).
Qed.
Lemma pure_jstr_field o k : pure (jstr_field o k).
Proof. unfold jstr_field. destruct (jget k o) as [[]|]; first [apply pure_ret|apply pure_raise_py]. Qed.
Lemma pure_jobj_field o k : pure (jobj_field o k).
Proof. unfold jobj_field. destruct (jget k o) as [[]|]; first [apply pure_ret|apply pure_raise_py]. Qed.
Lemma pure_hex_field o k : pure (hex_field o k).
Proof. unfold hex_field. apply pure_bind; [apply pure_jstr_field|intro; apply pure_of_opt]. Qed.

Lemma shape_ret m P rcn c : shape m P rcn (ret (c, None)).
Proof. apply (ShPure _ _ _ _ (Ok (c, None))); [reflexivity|]. intros e H; discriminate. Qed.

Lemma shape_bind_pure m P rcn {A} (x : M A) (f : A -> M rtuple) :
  pure x -> (forall a, shape m P rcn (f a)) -> shape m P rcn (bind x f).
Proof.
  intros [[a|e] [Hr Hp]] Hf.
  - apply (shape_ext _ _ _ _ (f a)); [|apply Hf]. intro w. unfold bind. rewrite Hr. reflexivity.
  - apply (ShPure _ _ _ _ (Exn e)).
    + intro w. unfold bind. rewrite Hr. reflexivity.
    + intros e' [= <-]. apply (Hp e eq_refl).
Qed.

Lemma with_ladder_sign_std m lad rest w :
  with_ladder_sign m lad (ensure_connection kind ;;; rest) w
  = std_handler lad (r <- rest ;; ret (finish_sign m r)) w.
Proof.
  unfold with_ladder_sign, std_handler, with_ladder, try_catch, bind.
  destruct (ensure_connection kind w) as [[a|e] w1]; reflexivity.
Qed.

Lemma good_bros_go P rcn (l : list json) :
  good P rcn ((fix go (l : list json) : M (list (list (option bytes))) :=
             match l with
             | [] => ret []
             | x :: r => a <- block_list (Some x) ;; b <- go r ;; ret (a :: b)
             end) l).
Proof.
  induction l as [|x l IH]; [apply good_ret|].
  apply good_bind; [apply good_block_list|intro a].
  apply good_bind; [exact IH|intro b]. apply good_ret.
Qed.

Ltac gdh PS :=
  repeat first
    [ apply good_key_path | apply good_jobj_field | apply good_jstr_field | apply good_hex_field
    | apply good_str_list_field | apply good_block_list | apply good_hash_of | apply good_bros_go
    | apply good_get_public_key; exact PS
    | apply good_sign_unauthorized; exact PS
    | apply good_sign_authorized; exact PS
    | apply good_get_blockchain_state; exact PS
    | apply good_reset_advance_blockchain; exact PS
    | apply good_advance_blockchain; exact PS
    | apply good_update_ancestor; exact PS
    | apply good_get_signer_parameters; exact PS
    | apply good_run_heartbeat; exact PS
    | apply good_get_current_mode; exact PS
    | apply good_wait_and_reconnect; reflexivity
    | apply good_exit_app_tolerant; apply exit_ladders_check
    | gd_step PS ].

Ltac std_shape PS :=
  eapply ShStd;
  [ exact PS | | | | intro w; first [reflexivity | apply with_ladder_sign_std] ];
  [ vm_compute; reflexivity | vm_compute; reflexivity | gdh PS ].

Lemma shape_get_pubkey m req : shape m P_all false (op_get_pubkey kind m req).
Proof. unfold op_get_pubkey. destruct m; std_shape P_all_sound. Qed.

Lemma shape_sign_v1 req : shape V1 P_all false (op_sign_v1 kind req).
Proof. unfold op_sign_v1. std_shape P_all_sound. Qed.

Lemma shape_sign_v5 req : shape V5 P_all false (op_sign_v5 kind req).
Proof.
  unfold op_sign_v5. cbv zeta.
  destruct (match jget (s "message") req with Some (JObj m) => jhas (s "hash") m | _ => false end).
  - destruct (validate_message (codes_of V5) req WHash <? 0)%Z; [apply shape_ret|].
    std_shape P_all_sound.
  - destruct (validate_auth (codes_of V5) req true <? 0)%Z; [apply shape_ret|].
    destruct (validate_message (codes_of V5) req WTx <? 0)%Z; [apply shape_ret|].
    apply shape_bind_pure; [apply pure_jobj_field|intro msg].
    apply shape_bind_pure; [apply pure_hex_field|intro txraw].
    destruct (unsign_tx txraw) as [utx|]; [|apply shape_ret].
    destruct (deserialize_tx utx); [|apply shape_ret].
    std_shape P_all_sound.
Qed.

Lemma shape_blockchain_state req : shape V5 P_all false (op_blockchain_state kind req).
Proof. unfold op_blockchain_state. std_shape P_all_sound. Qed.
Lemma shape_reset_advance req : shape V5 P_all false (op_reset_advance kind req).
Proof. unfold op_reset_advance. std_shape P_all_sound. Qed.
Lemma shape_advance req : shape V5 P_all false (op_advance keccak kind req).
Proof. unfold op_advance. std_shape P_all_sound. Qed.
Lemma shape_update_ancestor req : shape V5 P_all false (op_update_ancestor kind req).
Proof. unfold op_update_ancestor. std_shape P_all_sound. Qed.
Lemma shape_parameters req : shape V5 P_all false (op_parameters kind req).
Proof. unfold op_parameters. std_shape P_all_sound. Qed.
Lemma shape_signer_heartbeat req : shape V5 P_all false (op_signer_heartbeat kind req).
Proof. unfold op_signer_heartbeat, get_signer_heartbeat. std_shape P_all_sound. Qed.
Lemma shape_ui_heartbeat req : shape V5 P_ui true (op_ui_heartbeat kind req).
Proof. unfold op_ui_heartbeat, get_ui_heartbeat. cbv zeta. std_shape P_ui_sound. Qed.

End Handlers.

(* ====================================================================================== *)
(* 2d. A link fault at ANY exchange of a command gives the device-error code               *)
(* ====================================================================================== *)

Lemma fed_app_inv sc n1 n2 sc' :
  fed sc (n1 ++ n2) sc' -> exists scm, fed sc n1 scm /\ fed scm n2 sc'.
Proof.
  revert sc. induction n1 as [|ev n1 IH]; intros sc H; cbn in *.
  - exists sc. auto.
  - destruct ev; try (apply IH; assumption).
    destruct H as [-> H]. destruct (IH _ H) as [scm [H1 H2]]. exists scm. auto.
Qed.

Lemma fed_clean_no_apdu n : forall sc sc',
  fed sc n sc' -> is_fault (hd TimeoutR sc) = true -> clean P_all n -> no_apdu n.
Proof.
  induction n as [|ev n IH]; intros sc sc' Hf Hh Hc; [constructor|].
  inversion Hc as [|? ? Hev Hc']; subst.
  destruct ev; cbn in Hf; try (constructor; [reflexivity|eapply IH; eauto]).
  destruct Hf as [-> _]. cbn in Hev. unfold P_all in Hev. congruence.
Qed.

Section Theorems.
Variable keccak : bytes -> bytes.
Variable kind : dongle_kind.

Lemma ensure_connection_noop w : comm_issue w = false -> ensure_connection kind w = (Ok tt, w).
Proof. intro H. unfold ensure_connection. rewrite H. reflexivity. Qed.

Definition DEVICE (m : pmode) : Z := c_device (codes_of m).

(* fault_gives_device_error, generic form: whatever the body is, if it raises one of the two
   link exceptions under a generated ladder, the handler returns (DEVICE,) *)
Theorem fault_gives_device_error m lad body w e wb :
  link_ladder (DEVICE m) lad = true ->
  body w = (Exn e, wb) -> e = DongleComm \/ e = DongleTimeout ->
  with_ladder lad body w
  = (Ok (DEVICE m, None), if is_comm_exn e then set_comm_issue wb true else wb).
Proof.
  intros Hl Hb He. destruct (link_ladder_spec _ _ Hl) as [H1 H2].
  destruct He as [-> | ->].
  - apply (with_ladder_code _ _ _ _ _ _ _ Hb H1).
  - apply (with_ladder_code _ _ _ _ _ _ _ Hb H2).
Qed.

(* the same for the sign handlers' wrapper *)
Theorem fault_gives_device_error_sign m lad body w e wb :
  link_ladder (DEVICE m) lad = true ->
  body w = (Exn e, wb) -> e = DongleComm \/ e = DongleTimeout ->
  with_ladder_sign m lad body w
  = (Ok (DEVICE m, None), if is_comm_exn e then set_comm_issue wb true else wb).
Proof.
  intros Hl Hb He.
  apply (fault_gives_device_error m lad (r <- body ;; ret (finish_sign m r)) w e wb Hl); [|exact He].
  unfold bind. rewrite Hb. reflexivity.
Qed.

(* Main theorem for a fault at any exchange index.  From a world without a pending link issue,
   the new events n of the handler consume the script in order, and either
   - no fatal fault occurred (and then the flag is raised only by a failed re-connect / a
     swallowed-at-P comm error as last event), or
   - the events end with the first fatal fault: nothing more is sent, the reply is (DEVICE,),
     and the flag is raised iff the fault was a write/read error (not a time-out). *)
Theorem fault_anywhere m P rcn op :
  shape kind m P rcn op -> forall w, comm_issue w = false ->
  exists n, news w (snd (op w)) n /\ fed (script w) n (script (snd (op w))) /\
    ((clean P n /\
      (comm_issue (snd (op w)) = true -> exists pre ev, n = pre ++ [ev] /\ comm_event rcn ev = true))
     \/
     (exists pre b f, n = pre ++ [Apdu b f] /\ clean P pre /\ P b f = true /\ is_fault f = true /\
        fst (op w) = Ok (DEVICE m, None) /\ comm_issue (snd (op w)) = is_comm_fault f)).
Proof.
  intros [r Hr Hp|lad rest PS Hl Hfl Hg He] w Hci.
  - rewrite Hr. cbn [fst snd]. exists []. split; [apply news_refl|]. split; [reflexivity|].
    left. split; [constructor|]. intro H; congruence.
  - rewrite He. unfold std_handler.
    destruct (Hg w) as [n [Hn [Hfed [Hc [Hst Hor]]]]].
    destruct (rest w) as [r wb] eqn:Er. cbn [fst snd] in *.
    assert (Hb : (ensure_connection kind ;;; rest) w = (r, wb)).
    { unfold bind. rewrite (ensure_connection_noop w Hci). exact Er. }
    pose proof (with_ladder_world lad (ensure_connection kind ;;; rest) w) as Hw.
    rewrite Hb in Hw. cbn [fst snd] in Hw.
    destruct Hw as [Hs [_ [_ [Ht [_ Hf]]]]].
    exists n. split; [unfold news in *; rewrite Ht; exact Hn|].
    split; [rewrite Hs; exact Hfed|].
    destruct Hst as [Hcl|[pre [b [f [-> [Hcl [HP ->]]]]]]].
    + left. split; [exact Hcl|]. intro Hflag. rewrite Hf, Hc, Hci, orb_false_r in Hflag.
      destruct r as [a|e]; [discriminate|].
      rewrite (flag_only_comm_spec _ Hfl) in Hflag. destruct e; try discriminate.
      apply Hor; reflexivity.
    + right. exists pre, b, f. pose proof (PS _ _ HP) as Hif.
      repeat split; auto.
      * rewrite (fault_gives_device_error m lad _ w _ wb Hl Hb); [reflexivity|].
        destruct f; try discriminate; cbn; auto.
      * rewrite Hf, Hc, Hci, orb_false_r. rewrite (flag_only_comm_spec _ Hfl).
        apply fault_exn_comm, Hif.
Qed.

(* First-exchange corollary (all handlers whose fatal faults are all faults): if the next answer
   of the device is a fault, then either the handler performs no exchange at all (the request
   dies earlier), or exactly one APDU is sent, it gets the fault, the reply is (DEVICE,), the
   flag is raised iff write/read error. *)
Theorem first_exchange_fault m op :
  shape kind m P_all false op -> forall w f rest,
  comm_issue w = false -> script w = f :: rest -> is_fault f = true ->
  exists n, news w (snd (op w)) n /\
    ((no_apdu n /\ script (snd (op w)) = script w /\ comm_issue (snd (op w)) = false)
     \/
     (exists pre b, n = pre ++ [Apdu b f] /\ no_apdu pre /\
        fst (op w) = Ok (DEVICE m, None) /\ comm_issue (snd (op w)) = is_comm_fault f /\
        script (snd (op w)) = rest)).
Proof.
  intros Hsh w f rest Hci Hs Hf.
  destruct (fault_anywhere m P_all false op Hsh w Hci) as [n [Hn [Hfed Hcases]]].
  exists n. split; [exact Hn|].
  assert (Hhd : is_fault (hd TimeoutR (script w)) = true) by (rewrite Hs; exact Hf).
  destruct Hcases as [[Hcl Hflag]|[pre [b [f' [-> [Hcl [HP [Hif [Hr Hfl]]]]]]]]].
  - left. pose proof (fed_clean_no_apdu n _ _ Hfed Hhd Hcl) as Hna.
    split; [exact Hna|]. split; [apply (fed_no_apdu _ _ _ Hfed Hna)|].
    destruct (comm_issue (snd (op w))) eqn:E; [|reflexivity].
    destruct (Hflag eq_refl) as [pre [ev [-> Hev]]].
    apply Forall_app in Hna as [_ Hna]. inversion Hna as [|? ? Hx _]; subst.
    apply Forall_app in Hcl as [_ Hcl]. inversion Hcl as [|? ? Hy _]; subst.
    destruct ev; discriminate.
  - right. apply fed_app_inv in Hfed as [scm [H1 H2]].
    pose proof (fed_clean_no_apdu pre _ _ H1 Hhd Hcl) as Hna.
    pose proof (fed_no_apdu _ _ _ H1 Hna) as ->.
    cbn in H2. destruct H2 as [-> H2]. rewrite Hs in *. cbn in *.
    exists pre, b. repeat split; auto.
Qed.


(* uiHeartbeat: its first exchange is GET_MODE, whose handler catches neither link exception *)
Lemma get_current_mode_fault w f rest :
  script w = f :: rest -> is_fault f = true ->
  get_current_mode w
  = (Exn (fault_exn f), push (Apdu [CLA; CMD_GET_MODE] f) (set_script w rest)).
Proof.
  intros Hs Hf. unfold get_current_mode, try_catch, bind.
  rewrite (send_command_fault _ _ _ _ _ Hs Hf).
  destruct get_mode_catches_no_link as [H1 H2].
  destruct f; try discriminate; cbn [fault_exn]; [rewrite H2|rewrite H1|rewrite H1]; reflexivity.
Qed.

Theorem ui_first_exchange_fault req w f rest :
  comm_issue w = false -> script w = f :: rest -> is_fault f = true ->
  op_ui_heartbeat kind req w
  = (Ok (DEVICE V5, None),
     let w1 := push (Apdu [CLA; CMD_GET_MODE] f) (set_script w rest) in
     if is_comm_fault f then set_comm_issue w1 true else w1).
Proof.
  intros Hci Hs Hf. unfold op_ui_heartbeat. cbv zeta.
  erewrite (fault_gives_device_error V5 LADDER_V5_ui_heartbeat _ w (fault_exn f)
              (push (Apdu [CLA; CMD_GET_MODE] f) (set_script w rest))).
  - rewrite (fault_exn_comm f Hf). reflexivity.
  - vm_compute; reflexivity.
  - unfold bind. rewrite (ensure_connection_noop w Hci).
    rewrite (get_current_mode_fault w f rest Hs Hf). reflexivity.
  - destruct f; try discriminate; cbn; auto.
Qed.

(* ---- the twelve handlers ---- *)
Inductive is_handler : pmode -> (bytes -> resp -> bool) -> bool -> M rtuple -> Prop :=
| H_get_pubkey m req : is_handler m P_all false (op_get_pubkey kind m req)
| H_sign_v5 req : is_handler V5 P_all false (op_sign_v5 kind req)
| H_sign_v1 req : is_handler V1 P_all false (op_sign_v1 kind req)
| H_advance req : is_handler V5 P_all false (op_advance keccak kind req)
| H_reset_advance req : is_handler V5 P_all false (op_reset_advance kind req)
| H_blockchain_state req : is_handler V5 P_all false (op_blockchain_state kind req)
| H_update_ancestor req : is_handler V5 P_all false (op_update_ancestor kind req)
| H_parameters req : is_handler V5 P_all false (op_parameters kind req)
| H_signer_heartbeat req : is_handler V5 P_all false (op_signer_heartbeat kind req)
| H_ui_heartbeat req : is_handler V5 P_ui true (op_ui_heartbeat kind req).

Theorem handler_shape m P rcn op : is_handler m P rcn op -> shape kind m P rcn op.
Proof.
  intros []; [apply shape_get_pubkey|apply shape_sign_v5|apply shape_sign_v1|apply shape_advance
             |apply shape_reset_advance|apply shape_blockchain_state|apply shape_update_ancestor
             |apply shape_parameters|apply shape_signer_heartbeat|apply shape_ui_heartbeat].
Qed.

(* every operation the dispatcher can run is the version reply or one of the handlers *)
Lemma run_operation_cases m opname req op :
  run_operation keccak kind m opname req = Some op ->
  op = ret (0%Z, Some [(KEY_VERSION, JInt (c_version (codes_of m)))])
  \/ exists P rcn, is_handler m P rcn op.
Proof.
  unfold run_operation. cbv zeta.
  repeat match goal with |- context [if str_eqb ?a ?b then _ else _] => destruct (str_eqb a b) end;
    destruct m; intros [= <-]; auto; right; eauto using is_handler.
Qed.

(* ---- from the handler's tuple to the reply and the server ---- *)
Definition error_reply (c : Z) : json := JObj [(KEY_ERRORCODE, JInt c)].

Lemma handle_request_error m request cmd req opname op w c w' :
  gate_request m request = GAccept cmd req ->
  assoc_str cmd (match m with V5 => DISPATCH_V5 | V1 => DISPATCH_V1 end) = Some opname ->
  run_operation keccak kind m opname req = Some op ->
  op w = (Ok (c, None), w') -> (c <? 0)%Z = true ->
  handle_request keccak kind m request w = (Ok (error_reply c), w') /\
  server_handle keccak kind m (Parsed request) w = ((error_reply c, false), w').
Proof.
  intros Hg Hd Hr Ho Hc.
  assert (H : handle_request keccak kind m request w = (Ok (error_reply c), w')).
  { unfold handle_request. rewrite Hg, Hd, Hr. unfold bind. rewrite Ho, Hc. reflexivity. }
  split; [exact H|]. unfold server_handle. rewrite H. reflexivity.
Qed.

Lemma DEVICE_negative m : (DEVICE m <? 0)%Z = true.
Proof. unfold DEVICE. rewrite device_code_of. destruct m; reflexivity. Qed.

(* a handler answering (DEVICE,) makes the manager reply {"errorcode": DEVICE} and keep running *)
Corollary device_error_reply m request cmd req opname op w w' :
  gate_request m request = GAccept cmd req ->
  assoc_str cmd (match m with V5 => DISPATCH_V5 | V1 => DISPATCH_V1 end) = Some opname ->
  run_operation keccak kind m opname req = Some op ->
  op w = (Ok (DEVICE m, None), w') ->
  server_handle keccak kind m (Parsed request) w = ((error_reply (DEVICE m), false), w').
Proof.
  intros Hg Hd Hr Ho.
  apply (handle_request_error m request cmd req opname op w _ w' Hg Hd Hr Ho (DEVICE_negative m)).
Qed.


(* ====================================================================================== *)
(* 3. The repair: ensure_connection with the flag raised                                   *)
(* ====================================================================================== *)

(* "only extends the trace and leaves the flag alone" *)
Definition keeps {A} (m : M A) : Prop := spec m (fun w _ _ w' => comm_issue w' = comm_issue w).

Lemma keeps_ret {A} (a : A) : keeps (ret a).
Proof. eapply spec_conseq; [apply spec_ret|]. intros ? ? ? ? [_ [_ ->]]. reflexivity. Qed.
Lemma keeps_raise {A} e : keeps (@raise A e).
Proof. eapply spec_conseq; [apply spec_raise|]. intros ? ? ? ? [_ [_ ->]]. reflexivity. Qed.
Lemma keeps_bind {A B} (m : M A) (f : A -> M B) : keeps m -> (forall a, keeps (f a)) -> keeps (bind m f).
Proof.
  intros Hm Hf.
  eapply spec_conseq;
    [apply (spec_bind m f _ (fun _ w _ _ w' => comm_issue w' = comm_issue w) Hm Hf)|].
  intros w r n w' [[a [n1 [n2 [wm [H1 [H2 _]]]]]] | [e [_ H1]]]; congruence.
Qed.
Lemma keeps_try {A} (m : M A) h : keeps m -> (forall e k, h e = Some k -> keeps k) -> keeps (try_catch m h).
Proof.
  intros Hm Hh.
  eapply spec_conseq;
    [apply (spec_try_catch m h _ (fun _ w _ _ w' => comm_issue w' = comm_issue w) Hm Hh)|].
  intros w r n w' [[a [_ H]] | [[e [_ [_ H]]] | [e [k [n1 [n2 [wm [_ [H1 [H2 _]]]]]]]]]]; congruence.
Qed.
Lemma keeps_send c d : keeps (send_command c d).
Proof. eapply spec_conseq; [apply spec_send|]. intros ? ? ? ? [_ [_ [_ [H _]]]]. exact H. Qed.
Lemma keeps_of_opt {A} (o : option A) e : keeps (of_opt o e).
Proof. destruct o; [apply keeps_ret|apply keeps_raise]. Qed.
Lemma keeps_connect : keeps connect.
Proof.
  intro w. unfold connect. destruct (match connects w with [] => true | b :: _ => b end);
    eexists [_]; split; reflexivity.
Qed.
Lemma keeps_disconnect : keeps disconnect.
Proof.
  intro w. unfold disconnect. destruct (opened w); [exists [Close]|exists []]; split; reflexivity.
Qed.
Lemma keeps_with_pin {A} (f : pin_obj -> M A) : (forall p, keeps (f p)) -> keeps (with_pin f).
Proof.
  intros H w. unfold with_pin. destruct (pin w) as [p|]; [apply H|].
  exists []. split; reflexivity.
Qed.
Lemma keeps_put_pin p : keeps (put_pin p).
Proof. intro w. exists []. split; reflexivity. Qed.
Lemma keeps_generate_pin : keeps generate_pin.
Proof.
  intro w. unfold generate_pin. destruct (gen_pin_from (rand_pins w)) as [[p r]|];
    exists []; split; reflexivity.
Qed.
Lemma keeps_finally_raise {A} (m : M unit) e : keeps m -> keeps (@finally_raise A m e).
Proof.
  intros H w. unfold finally_raise. destruct (H w) as [n [Hn Hc]].
  destruct (m w) as [r w1]. exists n. split; assumption.
Qed.

Ltac kp_handler :=
  let e := fresh "e" in let k := fresh "k" in let H := fresh "H" in
  intros e k H;
  repeat match type of H with
         | (if ?c then _ else _) = Some _ => destruct c
         | match ?x with _ => _ end = Some _ => destruct x
         end;
  inversion H; subst; clear H.

Ltac kp_step :=
  match goal with
  | |- keeps (bind _ _) => apply keeps_bind; [|intros ?]
  | |- keeps (ret _) => apply keeps_ret
  | |- keeps (raise _) => apply keeps_raise
  | |- keeps (send_command _ _) => apply keeps_send
  | |- keeps (of_opt _ _) => apply keeps_of_opt
  | |- keeps (idxM _ _) => apply keeps_of_opt
  | |- keeps connect => apply keeps_connect
  | |- keeps disconnect => apply keeps_disconnect
  | |- keeps (with_pin _) => apply keeps_with_pin; intros ?
  | |- keeps (put_pin _) => apply keeps_put_pin
  | |- keeps generate_pin => apply keeps_generate_pin
  | |- keeps (finally_raise _ _) => apply keeps_finally_raise
  | |- keeps (try_catch _ _) => apply keeps_try; [|kp_handler]
  | |- keeps (on_error_result _ _) => apply keeps_try; [|kp_handler]
  | |- keeps (if ?b then _ else _) => destruct b
  | |- keeps (match ?x with _ => _ end) => destruct x
  end.
Ltac kp := repeat kp_step.

Lemma keeps_send_pin_bytes p : forall i, keeps (send_pin_bytes i p).
Proof. induction p as [|b p IH]; intro i; cbn [send_pin_bytes]; kp. apply IH. Qed.

Lemma keeps_pin_commit_change : keeps pin_commit_change.
Proof.
  unfold pin_commit_change. apply keeps_with_pin; intro p.
  destruct (negb (pin_changing p)); [apply keeps_ret|].
  destruct (pin_new p) as [np|]; [|apply keeps_raise].
  intro w. destruct (match fs_ok w with [] => true | b :: _ => b end);
    eexists [PinFileWrite np _]; split; reflexivity.
Qed.

Lemma keeps_get_current_mode : keeps get_current_mode.
Proof. unfold get_current_mode. kp. Qed.

Lemma keeps_unlock k p : keeps (unlock k p).
Proof. unfold unlock, send_pin. destruct k; kp; apply keeps_send_pin_bytes. Qed.

Lemma keeps_new_pin k p : keeps (new_pin k p).
Proof. unfold new_pin, send_pin. destruct k; kp; apply keeps_send_pin_bytes. Qed.

Lemma keeps_pin_change_block k : keeps (pin_change_block k).
Proof.
  unfold pin_change_block, pin_start_change, pin_get_new_pin, pin_abort_change, is_exception.
  repeat first [ apply keeps_new_pin | apply keeps_pin_commit_change | kp_step ].
Qed.

Lemma keeps_handle_bootloader k : keeps (handle_bootloader k).
Proof.
  unfold handle_bootloader, get_version, check_version, echo, get_retries, pin_get_pin,
    pin_needs_change_m, exit_menu, wait_and_reconnect.
  repeat first [ apply keeps_unlock | apply keeps_pin_change_block | kp_step ].
Qed.

(* the part of initialize_device after the connect and the onboarded check *)
Definition init_tail (k : dongle_kind) : M unit :=
  mode <- get_current_mode ;;
  mode' <- (if mode =? MODE_BOOTLOADER
            then handle_bootloader k ;;; get_current_mode
            else ret mode) ;;
  (if mode' =? MODE_SIGNER then ret tt else raise ProtocolInterrupt) ;;;
  v <- get_version ;;
  check_version v APP_VERSION ;;;
  get_signer_parameters ;;;
  ret tt.

Definition init_connect : M unit :=
  try_catch connect
    (fun e => if exn_matches e (concat CATCH_initialize_device_0)
              then Some (raise ProtocolError) else None).

Definition init_onboard_check : M unit :=
  try_catch
    (onb <- is_onboarded ;;
     if onb then ret tt else raise ProtocolError)
    (fun e => if exn_matches e (concat CATCH_initialize_device_1)
              then Some (raise ProtocolInterrupt) else None).

Lemma initialize_device_eq k :
  initialize_device k = (init_connect ;;; init_onboard_check ;;; init_tail k).
Proof. reflexivity. Qed.

Lemma keeps_init_tail k : keeps (init_tail k).
Proof.
  unfold init_tail, get_version, check_version, get_signer_parameters.
  repeat first [ apply keeps_get_current_mode | apply keeps_handle_bootloader | kp_step ].
Qed.

Lemma keeps_initialize_device k : keeps (initialize_device k).
Proof.
  rewrite initialize_device_eq. unfold init_connect, init_onboard_check, is_onboarded.
  repeat first [ apply keeps_init_tail | kp_step ].
Qed.

(* closed checks on the generated catch tables *)
Lemma catch_checks :
  exn_matches DongleComm (concat CATCH_initialize_device_0) = true /\
  exn_matches ProtocolError (concat CATCH_ensure_connection_0) = true.
Proof. split; vm_compute; reflexivity. Qed.

Definition closed_world (w : world) : world :=
  if opened w then push Close (set_opened w false) else w.
Definition close_events (w : world) : list event := if opened w then [Close] else [].

Lemma closed_world_facts w :
  trace (closed_world w) = rev (close_events w) ++ trace w /\
  script (closed_world w) = script w /\ connects (closed_world w) = connects w /\
  comm_issue (closed_world w) = comm_issue w /\ opened (closed_world w) = false.
Proof. unfold closed_world, close_events. destruct (opened w) eqn:E; repeat split; auto. Qed.

(* ensure_connection with the flag raised = close, full bring-up, clear the flag on success *)
Lemma ensure_connection_repair w :
  comm_issue w = true ->
  ensure_connection kind w =
  match initialize_device kind (closed_world w) with
  | (Ok _, wi) => (Ok tt, set_comm_issue wi false)
  | (Exn e, wi) => if exn_matches e (concat CATCH_ensure_connection_0)
                   then (Exn DongleComm, wi) else (Exn e, wi)
  end.
Proof.
  intro H. unfold ensure_connection. rewrite H. cbn [negb].
  unfold bind at 1. unfold disconnect, closed_world.
  destruct (opened w); unfold try_catch, bind, modify;
    (destruct (initialize_device kind _) as [[[]|e] wi]; [reflexivity|];
     destruct (exn_matches e (concat CATCH_ensure_connection_0)); reflexivity).
Qed.

(* the flag is cleared only if initialize_device returned normally *)
Theorem flag_cleared_iff_bringup_ok w :
  comm_issue w = true ->
  (comm_issue (snd (ensure_connection kind w)) = false
   <-> exists u, fst (initialize_device kind (closed_world w)) = Ok u) /\
  (fst (ensure_connection kind w) = Ok tt
   <-> exists u, fst (initialize_device kind (closed_world w)) = Ok u).
Proof.
  intro H. rewrite (ensure_connection_repair w H).
  destruct (keeps_initialize_device kind (closed_world w)) as [n [_ Hc]].
  destruct (closed_world_facts w) as [_ [_ [_ [Hci _]]]]. rewrite Hci, H in Hc.
  destruct (initialize_device kind (closed_world w)) as [[u|e] wi]; cbn [fst snd] in *.
  - split; (split; [eauto|]); intros _; [reflexivity|destruct u; reflexivity].
  - destruct (exn_matches e (concat CATCH_ensure_connection_0)); cbn [fst snd];
      (split; (split; [intro X; congruence|intros [u X]; discriminate])).
Qed.

Lemma initialize_device_connect_fails w cn :
  connects w = false :: cn ->
  initialize_device kind w
  = (Exn ProtocolError, push (Connect false) (set_opened (set_connects w cn) (opened w))).
Proof.
  intro Hc. rewrite initialize_device_eq. unfold bind at 1. unfold init_connect, try_catch, connect.
  rewrite Hc. cbn [tl]. destruct catch_checks as [-> _]. reflexivity.
Qed.

Definition connect_failed_world (w : world) (cn : list bool) : world :=
  push (Connect false) (set_opened (set_connects (closed_world w) cn) false).

Lemma ensure_connection_connect_fails w cn :
  comm_issue w = true -> connects w = false :: cn ->
  ensure_connection kind w = (Exn DongleComm, connect_failed_world w cn).
Proof.
  intros Hci Hc. rewrite (ensure_connection_repair w Hci).
  destruct (closed_world_facts w) as [_ [_ [Hcn [_ Hop]]]].
  rewrite (initialize_device_connect_fails (closed_world w) cn) by (rewrite Hcn; exact Hc).
  destruct catch_checks as [_ ->]. unfold connect_failed_world. rewrite Hop. reflexivity.
Qed.

Lemma connect_failed_world_facts w cn :
  trace (connect_failed_world w cn) = Connect false :: rev (close_events w) ++ trace w /\
  script (connect_failed_world w cn) = script w /\ connects (connect_failed_world w cn) = cn /\
  comm_issue (connect_failed_world w cn) = comm_issue w /\
  opened (connect_failed_world w cn) = false.
Proof.
  destruct (closed_world_facts w) as [Ht [Hs [_ [Hci _]]]].
  unfold connect_failed_world. cbn. rewrite Ht, Hs, Hci. repeat split; reflexivity.
Qed.

(* handler level: a request that reaches the device section while the flag is raised and the
   connect fails: (DEVICE,), no APDU (only Close? and Connect false), flag still raised *)
Theorem repair_connect_fails m lad rest w cn :
  link_ladder (DEVICE m) lad = true ->
  comm_issue w = true -> connects w = false :: cn ->
  std_handler kind lad rest w
  = (Ok (DEVICE m, None), set_comm_issue (connect_failed_world w cn) true).
Proof.
  intros Hl Hci Hc. unfold std_handler.
  erewrite (fault_gives_device_error m lad _ w DongleComm (connect_failed_world w cn) Hl).
  - reflexivity.
  - unfold bind. rewrite (ensure_connection_connect_fails w cn Hci Hc). reflexivity.
  - auto.
Qed.


(* shape level: every request under a raised flag whose connect fails either never reaches the
   device section (answered/crashed on its fields alone: world untouched, repair deferred) or is
   answered (DEVICE,) with no APDU and the flag kept *)
Theorem repair_connect_fails_handler m P rcn op w cn :
  shape kind m P rcn op -> comm_issue w = true -> connects w = false :: cn ->
  (exists r, pure_result r /\ op w = (r, w)) \/
  op w = (Ok (DEVICE m, None), set_comm_issue (connect_failed_world w cn) true).
Proof.
  intros [r Hr Hp|lad rest PS Hl Hfl Hg He] Hci Hc.
  - left. exists r. auto.
  - right. rewrite He. apply repair_connect_fails; assumption.
Qed.

(* a sequence of requests *)
Fixpoint run_ops (ops : list (M rtuple)) (w : world) : list (result rtuple) * world :=
  match ops with
  | [] => ([], w)
  | op :: r => let '(x, w1) := op w in let '(xs, w2) := run_ops r w1 in (x :: xs, w2)
  end.

Definition std_shaped (m : pmode) (op : M rtuple) : Prop :=
  exists lad rest, link_ladder (DEVICE m) lad = true /\ forall w, op w = std_handler kind lad rest w.

Lemma no_apdu_app n1 n2 : no_apdu n1 -> no_apdu n2 -> no_apdu (n1 ++ n2).
Proof. intros; apply Forall_app; auto. Qed.

(* k failed connects: k DEVICE replies, not a single APDU, the flag kept, the script untouched *)
Theorem reconnect_failure_retried m ops :
  Forall (std_shaped m) ops -> forall w cn,
  comm_issue w = true -> connects w = repeat false (length ops) ++ cn ->
  exists n, news w (snd (run_ops ops w)) n /\ no_apdu n /\
    fst (run_ops ops w) = repeat (Ok (DEVICE m, None)) (length ops) /\
    comm_issue (snd (run_ops ops w)) = true /\ connects (snd (run_ops ops w)) = cn /\
    script (snd (run_ops ops w)) = script w.
Proof.
  induction 1 as [|op ops [lad [rest [Hl He]]] Hops IH]; intros w cn Hci Hc.
  - exists []. cbn in *. repeat split; auto. constructor.
  - cbn [length repeat app] in Hc. cbn [run_ops].
    rewrite He, (repair_connect_fails m lad rest w _ Hl Hci Hc).
    set (w1 := set_comm_issue (connect_failed_world w (repeat false (length ops) ++ cn)) true).
    destruct (connect_failed_world_facts w (repeat false (length ops) ++ cn))
      as [Ht [Hs [Hcn [_ _]]]].
    destruct (IH w1 cn eq_refl Hcn) as [n [Hn [Hna [Hr [Hf [Hcn' Hs']]]]]].
    destruct (run_ops ops w1) as [xs w2]. cbn [fst snd] in *.
    exists ((close_events w ++ [Connect false]) ++ n). split; [|split; [|split; [|split; [|split]]]].
    + eapply news_trans; [|exact Hn]. unfold news. change (trace w1) with
        (trace (connect_failed_world w (repeat false (length ops) ++ cn))).
      rewrite Ht, rev_app_distr. reflexivity.
    + apply no_apdu_app; [|exact Hna]. apply no_apdu_app; [|repeat constructor].
      unfold close_events. destruct (opened w); repeat constructor.
    + cbn [length repeat]. rewrite Hr. reflexivity.
    + exact Hf.
    + exact Hcn'.
    + rewrite Hs'. exact Hs.
Qed.

(* ---- the connect succeeds: the bring-up comes first ---- *)
Definition connect_ok (w : world) : Prop := match connects w with [] => true | b :: _ => b end = true.

Lemma connect_succeeds w :
  connect_ok w ->
  connect w = (Ok tt, push (Connect true) (set_opened (set_connects w (tl (connects w))) true)).
Proof. unfold connect_ok, connect. intros ->. reflexivity. Qed.

Lemma init_onboard_check_world w :
  trace (snd (init_onboard_check w)) = Apdu [CLA; CMD_IS_ONBOARD] (next_answer w) :: trace w.
Proof.
  unfold init_onboard_check, try_catch, is_onboarded, next_answer.
  unfold bind at 1. unfold bind at 1. unfold send_command.
  destruct (script w) as [|r rest]; cbn [tl].
  - destruct (exn_matches DongleTimeout (concat CATCH_initialize_device_1)); reflexivity.
  - destruct (classify r) as [b|e].
    + unfold bind, idxM. destruct (idx b 1) as [x|]; cbn [of_opt ret raise].
      * destruct (x =? 1); cbn [ret raise]; [reflexivity|].
        destruct (exn_matches ProtocolError (concat CATCH_initialize_device_1)); reflexivity.
      * destruct (exn_matches (Py IndexError) (concat CATCH_initialize_device_1)); reflexivity.
    + destruct (exn_matches e (concat CATCH_initialize_device_1)); reflexivity.
Qed.

(* with the flag raised and a successful connect: [Close;] Connect ok; IS_ONBOARD first *)
Theorem ensure_connection_bringup_first w :
  comm_issue w = true -> connect_ok w ->
  exists more,
    news w (snd (ensure_connection kind w))
         (close_events w ++ Connect true :: Apdu [CLA; CMD_IS_ONBOARD] (next_answer w) :: more).
Proof.
  intros Hci Hok.
  destruct (closed_world_facts w) as [Ht [Hs [Hcn [_ _]]]].
  assert (Hok' : connect_ok (closed_world w)) by (unfold connect_ok; rewrite Hcn; exact Hok).
  set (wd := closed_world w) in *.
  set (wc := push (Connect true) (set_opened (set_connects wd (tl (connects wd))) true)).
  assert (Hna : next_answer wc = next_answer w) by (unfold next_answer; cbn; rewrite Hs; reflexivity).
  assert (Hinit : exists more, trace (snd (initialize_device kind wd))
                    = rev more ++ Apdu [CLA; CMD_IS_ONBOARD] (next_answer w) :: trace wc).
  { rewrite initialize_device_eq. unfold bind at 1. unfold init_connect, try_catch.
    rewrite (connect_succeeds wd Hok'). fold wc.
    unfold bind. pose proof (init_onboard_check_world wc) as Hw. rewrite Hna in Hw.
    destruct (init_onboard_check wc) as [[u|e] w1]; cbn [snd] in Hw.
    - destruct (keeps_init_tail kind w1) as [more [Hm _]]. exists more. rewrite <- Hw. exact Hm.
    - exists []. cbn [snd]. exact Hw. }
  destruct Hinit as [more Hm]. exists more.
  rewrite (ensure_connection_repair w Hci). fold wd.
  assert (Htr : trace wc = Connect true :: trace wd) by reflexivity.
  assert (Hgoal : rev more ++ Apdu [CLA; CMD_IS_ONBOARD] (next_answer w) :: trace wc
                  = rev (close_events w ++ Connect true
                          :: Apdu [CLA; CMD_IS_ONBOARD] (next_answer w) :: more) ++ trace w).
  { rewrite Htr, Ht, rev_app_distr. cbn [rev]. rewrite <- !app_assoc. reflexivity. }
  unfold news. rewrite <- Hgoal, <- Hm.
  destruct (initialize_device kind wd) as [[u|e] wi]; cbn [snd]; [reflexivity|].
  destruct (exn_matches e (concat CATCH_ensure_connection_0)); reflexivity.
Qed.


Lemma std_handler_after_ensure lad rest w :
  std_handler kind lad rest w =
  match ensure_connection kind w with
  | (Ok _, w1) => with_ladder lad rest w1
  | (Exn e, w1) => with_ladder lad (raise e) w1
  end.
Proof.
  unfold std_handler, with_ladder, try_catch, bind, raise.
  destruct (ensure_connection kind w) as [[u|e] w1]; reflexivity.
Qed.

(* repair_precedes_command: with the flag raised and a working connect, every request that
   reaches the device section first closes (if open), re-connects and starts the bring-up with
   IS_ONBOARD; the command's own events n_cmd come after the bring-up events and exist only if
   initialize_device returned normally, which is also exactly when the flag is cleared *)
Theorem repair_precedes_command m P rcn op w :
  shape kind m P rcn op -> comm_issue w = true -> connect_ok w ->
  (exists r, pure_result r /\ op w = (r, w)) \/
  exists more_up n_cmd,
    let n_up := close_events w ++ Connect true
                  :: Apdu [CLA; CMD_IS_ONBOARD] (next_answer w) :: more_up in
    news w (snd (ensure_connection kind w)) n_up /\
    news w (snd (op w)) (n_up ++ n_cmd) /\
    (n_cmd <> [] -> exists u, fst (initialize_device kind (closed_world w)) = Ok u) /\
    (comm_issue (snd (ensure_connection kind w)) = false
     <-> exists u, fst (initialize_device kind (closed_world w)) = Ok u).
Proof.
  intros [r Hr Hp|lad rest PS Hl Hfl Hg He] Hci Hok.
  - left. exists r. auto.
  - right. destruct (ensure_connection_bringup_first w Hci Hok) as [more Hup].
    destruct (flag_cleared_iff_bringup_ok w Hci) as [Hclr Hres].
    rewrite He, std_handler_after_ensure.
    destruct (ensure_connection kind w) as [[u|e] w1] eqn:Ee; cbn [fst snd] in *.
    + destruct (Hg w1) as [n [Hn _]].
      pose proof (with_ladder_world lad rest w1) as Hw. cbn zeta in Hw.
      destruct Hw as [_ [_ [_ [Ht _]]]].
      exists more, n. cbn zeta. split; [exact Hup|]. split.
      * eapply news_trans; [exact Hup|]. unfold news in *. rewrite Ht. exact Hn.
      * split; [|exact Hclr]. intros _. apply Hres. destruct u; reflexivity.
    + pose proof (with_ladder_world lad (raise e) w1) as Hw. cbn zeta in Hw.
      destruct Hw as [_ [_ [_ [Ht _]]]]. cbn [raise snd] in Ht.
      exists more, []. cbn zeta. split; [exact Hup|]. split.
      * rewrite app_nil_r. unfold news in *. rewrite Ht. exact Hup.
      * split; [|exact Hclr]. intro H; contradiction H; reflexivity.
Qed.

(* ====================================================================================== *)
(* 4. The flag is raised iff there was a link error                                        *)
(* ====================================================================================== *)

(* the command part raises DongleComm only with a comm event (write/read error, or a failed
   re-connect inside uiHeartbeat) as its last event; a fatal write/read error does raise it *)
Lemma comm_error_iff_event P rcn (rest : M rtuple) :
  good P rcn rest -> forall w1, exists n,
    news w1 (snd (rest w1)) n /\
    (fst (rest w1) = Exn DongleComm -> exists pre ev, n = pre ++ [ev] /\ comm_event rcn ev = true) /\
    (forall pre b f, n = pre ++ [Apdu b f] -> P b f = true -> is_comm_fault f = true ->
       fst (rest w1) = Exn DongleComm).
Proof.
  intros Hg w1. destruct (Hg w1) as [n [Hn [_ [_ [Hst Hor]]]]]. exists n.
  split; [exact Hn|]. split; [exact Hor|].
  intros pre b f -> HP Hcf. destruct Hst as [Hcl|[pre' [b' [f' [E [_ [_ Hr]]]]]]].
  - apply Forall_app in Hcl as [_ Hcl]. inversion Hcl as [|? ? Hx _]; subst. cbn in Hx. congruence.
  - apply app_inj_tail in E as [_ E]. injection E as <- <-. rewrite Hr.
    destruct f; try discriminate; reflexivity.
Qed.

Theorem flag_set_iff_link_error P rcn lad rest w :
  flag_only_comm lad = true -> good P rcn rest ->
  comm_issue (snd (std_handler kind lad rest w)) = true <->
    (* the pending repair failed (connect or bring-up) ... *)
    (comm_issue w = true /\ forall u, fst (initialize_device kind (closed_world w)) <> Ok u)
    \/
    (* ... or the connection is fine and the command part raised the comm error *)
    (fst (ensure_connection kind w) = Ok tt /\
     fst (rest (snd (ensure_connection kind w))) = Exn DongleComm).
Proof.
  intros Hfl Hg. rewrite std_handler_after_ensure.
  assert (Hrest : forall w1, comm_issue w1 = false ->
            (comm_issue (snd (with_ladder lad rest w1)) = true <-> fst (rest w1) = Exn DongleComm)).
  { intros w1 H1. pose proof (with_ladder_world lad rest w1) as Hw. cbn zeta in Hw.
    destruct Hw as [_ [_ [_ [_ [_ Hf]]]]]. rewrite Hf.
    destruct (Hg w1) as [n [_ [_ [Hc _]]]]. rewrite Hc, H1, orb_false_r.
    destruct (fst (rest w1)) as [a|e]; [split; discriminate|].
    rewrite (flag_only_comm_spec _ Hfl). destruct e; split; intro X; try discriminate; reflexivity. }
  destruct (comm_issue w) eqn:Hci.
  - destruct (flag_cleared_iff_bringup_ok w Hci) as [Hclr Hres].
    destruct (ensure_connection kind w) as [[u|e] w1] eqn:Ee; cbn [fst snd] in *.
    + assert (Hu : exists u, fst (initialize_device kind (closed_world w)) = Ok u)
        by (apply Hres; destruct u; reflexivity).
      rewrite (Hrest w1) by (apply Hclr; exact Hu).
      split; [intro X; right; split; [destruct u; reflexivity|exact X]|].
      intros [[_ X]|[_ X]]; [|exact X]. destruct Hu as [u' Hu]. exfalso. apply (X u' Hu).
    + assert (Hnu : forall u, fst (initialize_device kind (closed_world w)) <> Ok u).
      { intros u Hu. assert (X : Exn e = Ok tt) by (apply Hres; eauto). discriminate. }
      assert (H1 : comm_issue w1 = true).
      { destruct (comm_issue w1) eqn:E1; [reflexivity|]. exfalso.
        destruct Hclr as [Hclr _]. destruct (Hclr eq_refl) as [u Hu]. apply (Hnu u Hu). }
      pose proof (with_ladder_world lad (raise e) w1) as Hw. cbn zeta in Hw.
      destruct Hw as [_ [_ [_ [_ [_ Hf]]]]]. cbn [raise snd] in Hf.
      split; [intros _; left; auto|]. intros _. rewrite Hf, H1. apply orb_true_r.
  - rewrite (ensure_connection_noop w Hci). cbn [fst snd]. rewrite (Hrest w Hci).
    split; [intro X; right; auto|]. intros [[X _]|[_ X]]; [discriminate|exact X].
Qed.

(* the per-command form: every handler that reaches its device section is such a std_handler *)
Corollary flag_set_iff_link_error_handlers m P rcn op :
  is_handler m P rcn op ->
  (exists r, pure_result r /\ forall w, op w = (r, w)) \/
  exists lad rest,
    (forall w, op w = std_handler kind lad rest w) /\ good P rcn rest /\
    link_ladder (DEVICE m) lad = true /\
    forall w,
      comm_issue (snd (op w)) = true <->
      (comm_issue w = true /\ forall u, fst (initialize_device kind (closed_world w)) <> Ok u)
      \/ (fst (ensure_connection kind w) = Ok tt /\
          fst (rest (snd (ensure_connection kind w))) = Exn DongleComm).
Proof.
  intro H. destruct (handler_shape _ _ _ _ H) as [r Hr Hp|lad rest PS Hl Hfl Hg He].
  - left. exists r. auto.
  - right. exists lad, rest. repeat split; auto; rewrite He;
      apply (flag_set_iff_link_error P rcn lad rest w Hfl Hg).
Qed.


(* ====================================================================================== *)
(* Per-handler and server-level corollaries                                                *)
(* ====================================================================================== *)

Lemma news_unique w w' n1 n2 : news w w' n1 -> news w w' n2 -> n1 = n2.
Proof.
  unfold news. intros H1 H2. rewrite H1 in H2. apply app_inv_tail in H2.
  rewrite <- (rev_involutive n1), H2. apply rev_involutive.
Qed.

(* If ANY exchange of a command handler is answered by a (fatal) link fault then it is the last
   event of the request, the reply is (DEVICE,), the flag is raised iff write/read error. *)
Theorem any_fault_is_last m P rcn op w n b f :
  is_handler m P rcn op -> comm_issue w = false ->
  news w (snd (op w)) n -> In (Apdu b f) n -> P b f = true ->
  (exists pre, n = pre ++ [Apdu b f] /\ clean P pre) /\
  fst (op w) = Ok (DEVICE m, None) /\ comm_issue (snd (op w)) = is_comm_fault f.
Proof.
  intros Hh Hci Hn Hin HP.
  destruct (fault_anywhere m P rcn op (handler_shape _ _ _ _ Hh) w Hci) as [n0 [Hn0 [_ Hc]]].
  pose proof (news_unique _ _ _ _ Hn0 Hn) as ->.
  destruct Hc as [[Hcl _]|[pre [b' [f' [-> [Hcl [HP' [_ [Hr Hfl]]]]]]]]].
  - exfalso. unfold clean in Hcl. rewrite Forall_forall in Hcl. specialize (Hcl _ Hin).
    cbn in Hcl. congruence.
  - apply in_app_or in Hin as [Hin|[Heq|[]]].
    + exfalso. unfold clean in Hcl. rewrite Forall_forall in Hcl. specialize (Hcl _ Hin).
      cbn in Hcl. congruence.
    + injection Heq as -> ->. split; [exists pre; auto|]. auto.
Qed.

(* the same seen from the TCP server: {"errorcode": DEVICE}, and the manager keeps running *)
Theorem link_fault_server_reply m request cmd req opname op P rcn w n b f :
  gate_request m request = GAccept cmd req ->
  assoc_str cmd (match m with V5 => DISPATCH_V5 | V1 => DISPATCH_V1 end) = Some opname ->
  run_operation keccak kind m opname req = Some op ->
  is_handler m P rcn op -> comm_issue w = false ->
  news w (snd (op w)) n -> In (Apdu b f) n -> P b f = true ->
  server_handle keccak kind m (Parsed request) w = ((error_reply (DEVICE m), false), snd (op w)) /\
  comm_issue (snd (op w)) = is_comm_fault f.
Proof.
  intros Hg Hd Hr Hh Hci Hn Hin HP.
  destruct (any_fault_is_last m P rcn op w n b f Hh Hci Hn Hin HP) as [_ [Hres Hfl]].
  split; [|exact Hfl].
  apply (device_error_reply m request cmd req opname op w (snd (op w)) Hg Hd Hr).
  destruct (op w) as [r w']. cbn [fst snd] in *. rewrite Hres. reflexivity.
Qed.

(* first exchange, all twelve handlers *)
Theorem first_exchange_fault_handlers m P rcn op :
  is_handler m P rcn op -> forall w f rest,
  comm_issue w = false -> script w = f :: rest -> is_fault f = true ->
  exists n, news w (snd (op w)) n /\
    ((no_apdu n /\ script (snd (op w)) = script w /\ comm_issue (snd (op w)) = false)
     \/
     (exists pre b, n = pre ++ [Apdu b f] /\ no_apdu pre /\
        fst (op w) = Ok (DEVICE m, None) /\ comm_issue (snd (op w)) = is_comm_fault f /\
        script (snd (op w)) = rest)).
Proof.
  intros Hh w f rest Hci Hs Hf.
  destruct Hh; try (apply first_exchange_fault; auto;
                    first [apply shape_get_pubkey|apply shape_sign_v5|apply shape_sign_v1
                          |apply shape_advance|apply shape_reset_advance
                          |apply shape_blockchain_state|apply shape_update_ancestor
                          |apply shape_parameters|apply shape_signer_heartbeat]).
  rewrite (ui_first_exchange_fault req w f rest Hci Hs Hf). cbv zeta. cbn [fst snd].
  exists [Apdu [CLA; CMD_GET_MODE] f]. split.
  - destruct (is_comm_fault f); reflexivity.
  - right. exists [], [CLA; CMD_GET_MODE]. split; [reflexivity|]. split; [constructor|].
    split; [reflexivity|]. destruct (is_comm_fault f); auto.
Qed.

End Theorems.

(* ====================================================================================== *)
(* Non-vacuity: concrete runs                                                              *)
(* ====================================================================================== *)
Module Examples.
Definition kc (b : bytes) : bytes := b.
Definition z32 : bytes := repeat 0 32.

(* an honest signer's answers to the bring-up (IS_ONBOARD, GET_MODE, version, parameters) *)
Definition bringup_answers : list resp :=
  [Data [CLA; 1]; Data [CLA; MODE_SIGNER]; Data [CLA; 1; 5; 4; 1];
   Data ([CLA; CMD_GET_PARAMETERS; 0] ++ z32 ++ repeat 0 36 ++ [NETWORK_REGTEST])].
(* ... and to blockchainState *)
Definition state_answers : list resp :=
  map (fun kc => Data (CLA :: CMD_GET_STATE :: GST_OP_HASH :: snd kc :: z32)) GST_HASH_VALUES
  ++ [Data [CLA; CMD_GET_STATE; GST_OP_DIFF; 1; 0]; Data [CLA; CMD_GET_STATE; GST_OP_FLAGS; 0; 0; 0]].

Definition st (w : world) := op_blockchain_state KLedger [] w.

(* request 1: the first exchange gets a write error *)
Definition w1 : world := snd (st (world0 [WriteErr] [])).
Example ex1 :
  fst (st (world0 [WriteErr] [])) = Ok ((-905)%Z, None) /\ comm_issue w1 = true /\
  apdus w1 = [[CLA; CMD_GET_STATE; GST_OP_HASH; 1]].
Proof. vm_compute. repeat split. Qed.

(* the same with a time-out: DEVICE but no flag *)
Example ex1_timeout :
  fst (st (world0 [TimeoutR] [])) = Ok ((-905)%Z, None) /\
  comm_issue (snd (st (world0 [TimeoutR] []))) = false.
Proof. vm_compute. repeat split. Qed.

(* a fault in the middle of the command (4th exchange) *)
Example ex1_middle :
  let w := snd (st (world0 (firstn 3 state_answers ++ [ReadErr]) [])) in
  fst (st (world0 (firstn 3 state_answers ++ [ReadErr]) [])) = Ok ((-905)%Z, None) /\
  comm_issue w = true /\ length (apdus w) = 4%nat.
Proof. vm_compute. repeat split. Qed.

(* request 2: the re-connect fails: DEVICE, no new APDU, flag kept, Close + Connect false *)
Definition w1' : world := set_connects w1 [false].
Definition w2 : world := snd (st w1').
Example ex2 :
  fst (st w1') = Ok ((-905)%Z, None) /\ comm_issue w2 = true /\ apdus w2 = apdus w1 /\
  firstn 2 (trace w2) = [Connect false; Close].
Proof. vm_compute. repeat split. Qed.

(* request 3: the re-connect works and the device is honest: bring-up first, code 0, flag cleared *)
Definition w2' : world := set_script (set_connects w2 [true]) (bringup_answers ++ state_answers).
Definition w3 : world := snd (st w2').
Example ex3 :
  (exists out, fst (st w2') = Ok (0%Z, Some out)) /\ comm_issue w3 = false /\
  firstn 3 (skipn 1 (apdus w3)) = [[CLA; CMD_IS_ONBOARD]; [CLA; CMD_GET_MODE]; [CLA; CMD_IS_ONBOARD]] /\
  script w3 = [].
Proof. vm_compute. repeat split. eexists. reflexivity. Qed.

(* the legacy protocol: -2 *)
Example ex_v1 :
  let req := [(s "keyId", JStr (s "m/44'/0'/0'/0/0"))] in
  fst (op_get_pubkey KLedger V1 req (world0 [ReadErr] [])) = Ok ((-2)%Z, None) /\
  comm_issue (snd (op_get_pubkey KLedger V1 req (world0 [ReadErr] []))) = true.
Proof. vm_compute. repeat split. Qed.

(* the whole manager: three blockchainState requests, link error, failed and then successful
   repair; nobody asks the manager to stop *)
Definition state_request : parse_outcome :=
  Parsed (JObj [(s "command", JStr (s "blockchainState")); (s "version", JInt 5)]).
Example ex_server :
  let r := fst (serve kc KLedger V5 [state_request; state_request; state_request]
                      (world0 (WriteErr :: bringup_answers ++ state_answers) [false; true])) in
  map snd r = [false; false; false] /\
  map (fun x => match fst x with JObj o => jget KEY_ERRORCODE o | _ => None end) r
  = [Some (JInt (-905)); Some (JInt (-905)); Some (JInt 0)].
Proof. vm_compute. repeat split. Qed.

(* uiHeartbeat: the documented exception -- a comm error at the app-exit exchange is swallowed *)
Example ex_ui_exit_swallowed :
  let req := [(s "udValue", JStr (hex z32))] in
  let w := snd (op_ui_heartbeat KLedger req (world0 [Data [CLA; MODE_SIGNER]; WriteErr; TimeoutR] [])) in
  length (apdus w) = 3%nat /\ comm_issue w = false.
Proof. vm_compute. repeat split. Qed.

(* Boundary of the property (not covered by C11's quantifier): a link fault at the FIRST bring-up
   exchange of the repair itself is turned into HSM2ProtocolInterrupt by initialize_device, which
   no ladder catches: the manager stops.  A fault at a later bring-up exchange is answered DEVICE. *)
Example ex_bringup_fault_stops :
  let r := fst (serve kc KLedger V5 [state_request; state_request; state_request]
                      (world0 [WriteErr; WriteErr] [true])) in
  map snd r = [false; true].
Proof. vm_compute. reflexivity. Qed.
Example ex_bringup_later_fault_device :
  let r := fst (serve kc KLedger V5 [state_request; state_request]
                      (world0 [WriteErr; Data [CLA; 1]; WriteErr] [true])) in
  map snd r = [false; false] /\
  map (fun x => match fst x with JObj o => jget KEY_ERRORCODE o | _ => None end) r
  = [Some (JInt (-905)); Some (JInt (-905))].
Proof. vm_compute. repeat split. Qed.
End Examples.

