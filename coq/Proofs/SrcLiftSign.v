(* C01 carried over to sign_authorized of ledger/hsm2dongle.py as translated from the Python source text
   (Gen/SrcM.v): when the translated source reports success, the device has been handed exactly the
   client's path and input index, transaction payload (with its mode and extra data), receipt and merkle
   proof, in that order, each in contiguous chunks. *)
From PowHsm Require Import Gen.SrcM Model.Dongle Model.Sign.
From PowHsm Require Import Proofs.SrcEquivLedger Proofs.SrcEquivDongleM Proofs.SrcEquivSignM Proofs.C01.

Section WithOracles.
Variable cm : string -> pv -> list pv -> pr pv.

Theorem src_sign_authorized_success_device_holds :
  forall (fuel : nat) (self key_id : pv) (path_bin : bytes)
         (receipt_hex tx_hex ws_hex : str) (proof_hex : list str)
         (receipt tx ws : bytes) (proof : list bytes) (input ov : Z) (segwit : bool) (w w' : world) (sig : pv),
  oracles_ok cm key_id path_bin ->
  fromhex receipt_hex = Some receipt -> fromhex tx_hex = Some tx -> fromhex ws_hex = Some ws ->
  all_some (map fromhex proof_hex) = Some proof ->
  (S (length (script w)) <= fuel)%nat ->
  srcm_HSM2Dongle__sign_authorized fuel cm self key_id (VStr receipt_hex) (VList (map VStr proof_hex))
      (VStr tx_hex) (VInt input) (mode_obj segwit) (VStr ws_hex) (VInt ov) w =
    (XOk (VList [VBool true; sig]), w') ->
  exists (inb : list N) (nv : N) (ed : bytes) (a1 : resp) (g2 g3 g4 : list (bytes * resp)),
    w' = after w
           (Apdu ([CLA; CMD_SIGN; SIGN_OP_PATH] ++ path_bin ++ inb) a1
            :: group SIGN_OP_BTC_TX g2 ++ group SIGN_OP_TX_RECEIPT g3 ++ group SIGN_OP_MERKLE_PROOF g4)
           (script w') /\
    to_bytes_le 4 input = Some inb /\
    sighash_netvalue (mode_str segwit) = Some nv /\
    parse_btc_payload (concat (map fst g2)) = Some (tx, nv, ed) /\
    (nv = 1 -> parse_extradata ed = Some (ws, Z.to_N ov)) /\
    (nv <> 1 -> ed = []) /\
    concat (map fst g3) = receipt /\ parse_proof (concat (map fst g4)) = Some proof.
Proof.
  intros fuel self key_id path_bin receipt_hex tx_hex ws_hex proof_hex receipt tx ws proof input ov segwit
         w w' sig Hor Hr Ht Hw Hp Hf Hrun.
  rewrite (srcm_sign_authorized_ok cm fuel self key_id path_bin receipt_hex tx_hex ws_hex proof_hex
             receipt tx ws proof input ov segwit w Hor Hr Ht Hw Hp Hf) in Hrun.
  unfold mres in Hrun.
  destruct (sign_authorized path_bin receipt proof tx input (mode_str segwit) ws ov w) as [res w1] eqn:Hm.
  cbn [fst snd] in Hrun.
  inversion Hrun as [[Hres Hw1]]. subst w1.
  destruct res as [a|e]; [|discriminate Hres].
  destruct a as [[r s_]|c]; cbn [sign_res] in Hres; [|inversion Hres].
  exact (sign_authorized_device_holds path_bin receipt proof tx input (mode_str segwit) ws ov w r s_ w' Hm).
Qed.

End WithOracles.
