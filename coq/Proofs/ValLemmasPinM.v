(* Kit facts used by Proofs/SrcEquivPinM.v: computation rules of the device-monad kit (Model/ValM.v), the
   specification of one exchange, bytes([...]) on small numbers, and the two kinds of loops sending one
   indexed byte per exchange (range(len(b)) / enumerate(b)). *)
From PowHsm Require Import Gen.SrcM Model.Dongle.
From PowHsm Require Import Proofs.ValLemmas Proofs.ValLemmasAdmin Proofs.SrcEquivDongleM.
From Coq Require Import Lia.
Open Scope N_scope.

(* ---------- mres ---------- *)

Lemma mres_ok {A} (f : A -> pv) (a : A) (w : world) : mres f (Ok a, w) = (XOk (f a), w).
Proof. reflexivity. Qed.

Lemma mres_exn {A} (f : A -> pv) (e : exn) (w : world) : mres f (Exn e, w) = (XRaise e, w).
Proof. reflexivity. Qed.

(* ---------- computation rules of mbind ---------- *)

Lemma mbind_ret {A B} (v : A) (f : A -> pm B) (w : world) : mbind (mret v) f w = f v w.
Proof. reflexivity. Qed.

Lemma mbind_assoc {A B C} (m : pm A) (f : A -> pm B) (g : B -> pm C) (w : world) :
  mbind (mbind m f) g w = mbind m (fun a => mbind (f a) g) w.
Proof. unfold mbind. destruct (m w) as [[a|e|] w1]; reflexivity. Qed.

Lemma mbind_lift {A B} (p : pr A) (f : A -> pm B) (w : world) :
  mbind (lift p) f w =
  match p with Val.POk a => f a w | PRaise e => (XRaise (Py e), w) | Val.PStuck => (XStuck, w) end.
Proof. unfold mbind, lift. destruct p; reflexivity. Qed.

Lemma mbind_lift_ok {A B} (p : pr A) (a : A) (f : A -> pm B) (w : world) :
  p = Val.POk a -> mbind (lift p) f w = f a w.
Proof. intros ->. reflexivity. Qed.

(* a computation that runs as a model computation, followed by a continuation *)
Lemma mbind_mres {A B} (m : pm pv) (x : result A * world) (g : A -> pv) (f : pv -> pm B) (w : world) :
  m w = mres g x ->
  mbind m f w = match x with (Ok a, w1) => f (g a) w1 | (Exn e, w1) => (XRaise e, w1) end.
Proof. intros E. unfold mbind. rewrite E. destruct x as [[a|e] w1]; reflexivity. Qed.

(* ... followed by a continuation that only returns *)
Lemma mbind_mres_map {A} (m : pm pv) (x : result A * world) (g : A -> pv) (f : pv -> pm pv) (h : A -> pv)
                     (w : world) :
  m w = mres g x ->
  (forall a w1, f (g a) w1 = (XOk (h a), w1)) ->
  mbind m f w = mres h x.
Proof.
  intros E K. rewrite (mbind_mres _ _ _ _ _ E). destruct x as [[a|e] w1]; [apply K|reflexivity].
Qed.

(* sequencing on both sides *)
Lemma mbind_sim {A B} (m : pm pv) (mm : M A) (g : A -> pv) (f : pv -> pm pv) (k : A -> M B)
                (h : B -> pv) (w : world) :
  m w = mres g (mm w) ->
  (forall a w1, f (g a) w1 = mres h (k a w1)) ->
  mbind m f w = mres h (bind mm k w).
Proof.
  intros E K. rewrite (mbind_mres _ _ _ _ _ E). unfold bind.
  destruct (mm w) as [[a|e] w1]; [apply K|reflexivity].
Qed.

(* ---------- one exchange ---------- *)

Lemma m_send_spec (c : N) (d : bytes) (w : world) :
  MV.m_send_command (VInt (Z.of_N c)) (VBytes d) w = mres VBytes (send_command c d w).
Proof.
  unfold MV.m_send_command. cbn [vint].
  assert (E : (Z.of_N c <? 0)%Z = false) by (apply Z.ltb_ge; apply N2Z.is_nonneg).
  rewrite E, N2Z.id. unfold MV.pmap, mbind, of_M.
  destruct (send_command c d w) as [[a|e] w1]; reflexivity.
Qed.

(* ---------- bytes([...]) ---------- *)

Lemma all_some_bytes (l : list N) :
  Forall (fun x => x < 256) l ->
  all_some (map (fun x => match vint x with
                          | Some z => if (0 <=? z)%Z && (z <? 256)%Z then Some (Z.to_N z) else None
                          | None => None end) (map (fun x => VInt (Z.of_N x)) l)) = Some l.
Proof.
  induction 1 as [|a l Ha Hl IH]; [reflexivity|].
  cbn [map vint all_some].
  assert (E1 : (0 <=? Z.of_N a)%Z = true) by (apply Z.leb_le; apply N2Z.is_nonneg).
  assert (E2 : (Z.of_N a <? 256)%Z = true) by (apply Z.ltb_lt; lia).
  rewrite E1, E2. cbn [andb]. rewrite IH, N2Z.id. reflexivity.
Qed.

Lemma py_bytes_N (l : list N) :
  Forall (fun x => x < 256) l ->
  MV.py_bytes (VList (map (fun x => VInt (Z.of_N x)) l)) = mret (VBytes l).
Proof. intros H. unfold MV.py_bytes. rewrite (all_some_bytes l H). reflexivity. Qed.

Lemma py_bytes_nat1 (n : nat) :
  (n < 256)%nat -> MV.py_bytes (VList [VInt (Z.of_nat n)]) = mret (VBytes [N.of_nat n]).
Proof.
  intros H. rewrite <- nat_N_Z. apply (py_bytes_N [N.of_nat n]).
  constructor; [lia|constructor].
Qed.

Lemma py_bytes_nat_N (i : nat) (b : N) :
  (i < 256)%nat -> b < 256 ->
  MV.py_bytes (VList [VInt (Z.of_nat i); VInt (Z.of_N b)]) = mret (VBytes [N.of_nat i; b]).
Proof.
  intros Hi Hb. rewrite <- nat_N_Z. apply (py_bytes_N [N.of_nat i; b]).
  constructor; [lia|]. constructor; [exact Hb|constructor].
Qed.

(* ---------- indexing ---------- *)

Lemma py_getitem_bytes_nat (r : bytes) (k : nat) :
  py_getitem (VBytes r) (VInt (Z.of_nat k)) =
  match nth_error r k with Some x => Val.POk (VInt (Z.of_N x)) | None => PRaise IndexError end.
Proof. rewrite py_getitem_bytes by lia. rewrite Nat2Z.id. reflexivity. Qed.

(* c[k] in the monad against idxM *)
Lemma m_getitem_idx {B} (r : bytes) (k : nat) (f : pv -> pm pv) (g : N -> M B) (h : B -> pv) (w : world) :
  (forall b w1, f (VInt (Z.of_N b)) w1 = mres h (g b w1)) ->
  mbind (lift (py_getitem (VBytes r) (VInt (Z.of_nat k)))) f w = mres h (bind (idxM r k) g w).
Proof.
  intros K. rewrite mbind_lift, py_getitem_bytes_nat. unfold bind, idxM, idx, of_opt.
  destruct (nth_error r k) as [b|]; [apply K|reflexivity].
Qed.

(* ---------- loops sending one indexed byte per exchange ---------- *)

Fixpoint send_idx_bytes (cmd i : N) (p : bytes) : M unit :=
  match p with
  | [] => ret tt
  | b :: r => send_command cmd [i; b] ;;; send_idx_bytes cmd (i + 1) r
  end.

Lemma send_pin_bytes_idx (p : bytes) : forall i, send_pin_bytes i p = send_idx_bytes CMD_SEND_PIN i p.
Proof. induction p as [|b r IH]; intros i; [reflexivity|]. cbn [send_pin_bytes send_idx_bytes]. rewrite IH. reflexivity. Qed.

Lemma send_seed_bytes_idx (p : bytes) : forall i, send_seed_bytes i p = send_idx_bytes CMD_SEED i p.
Proof. induction p as [|b r IH]; intros i; [reflexivity|]. cbn [send_seed_bytes send_idx_bytes]. rewrite IH. reflexivity. Qed.

(* the loop over the items [item i b] for the i-th byte b of l, from index (length pre) on *)
Lemma pfold_send_idx (cmd : N) (item : nat -> N -> pv) (body : pv -> pv -> pm pv) (l : bytes) :
  (forall i b w, (i < 256)%nat -> b < 256 -> nth_error l i = Some b ->
                 body (VList []) (item i b) w = mres (fun _ => VList []) (send_command cmd [N.of_nat i; b] w)) ->
  wf_bytes l -> (length l <= 256)%nat ->
  forall (rest pre : bytes) (w : world), l = pre ++ rest ->
    MV.pfold (map (fun p => item (fst p) (snd p)) (combine (seq (length pre) (length rest)) rest))
             (VList []) body w =
    mres (fun _ => VList []) (send_idx_bytes cmd (N.of_nat (length pre)) rest w).
Proof.
  intros Hbody Hwf Hlen. induction rest as [|b r IH]; intros pre w El; [reflexivity|].
  cbn [length seq combine map MV.pfold fst snd send_idx_bytes].
  assert (Hnth : nth_error l (length pre) = Some b).
  { rewrite El. rewrite nth_error_app2 by lia. rewrite Nat.sub_diag. reflexivity. }
  assert (Hi : (length pre < 256)%nat).
  { rewrite El in Hlen. rewrite app_length in Hlen. cbn [length] in Hlen. lia. }
  assert (Hb : b < 256).
  { unfold wf_bytes in Hwf. rewrite Forall_forall in Hwf. apply Hwf. eapply nth_error_In. exact Hnth. }
  apply mbind_sim with (g := fun _ : bytes => VList []).
  - apply Hbody; assumption.
  - intros _ w1.
    specialize (IH (pre ++ [b]) w1).
    rewrite app_length in IH. cbn [length] in IH. rewrite Nat.add_1_r in IH.
    rewrite Nat2N.inj_succ, <- N.add_1_r in IH.
    apply IH. rewrite <- app_assoc. exact El.
Qed.

(* range(len(l)) as such a list of items *)
Lemma range_items (f : nat -> pv) (rest : bytes) : forall k,
  map f (seq k (length rest)) = map (fun p => f (fst p)) (combine (seq k (length rest)) rest).
Proof.
  induction rest as [|b r IH]; intros k; [reflexivity|].
  cbn [length seq combine map fst]. rewrite IH. reflexivity.
Qed.

(* enumerate(l) as such a list of items *)
Lemma enumerate_items (g : N -> pv) (rest : bytes) : forall k,
  map (fun p => VList [VInt (0 + Z.of_nat (fst p)); snd p])
      (combine (seq k (length (map g rest))) (map g rest)) =
  map (fun p => VList [VInt (Z.of_nat (fst p)); g (snd p)]) (combine (seq k (length rest)) rest).
Proof.
  induction rest as [|b r IH]; intros k; [reflexivity|].
  cbn [length seq combine map fst snd]. rewrite IH. reflexivity.
Qed.

Lemma py_range_nat (n : nat) :
  py_range (VInt (Z.of_nat n)) = Val.POk (VList (map (fun i => VInt (Z.of_nat i)) (seq 0 n))).
Proof. unfold py_range. cbn [vint]. rewrite Nat2Z.id. reflexivity. Qed.

Lemma py_for_list (l : list pv) (acc : pv) (body : pv -> pv -> pm pv) :
  MV.py_for (VList l) acc body = MV.pfold l acc body.
Proof. reflexivity. Qed.

Lemma py_for_t_list (l : list pv) (acc : pv) (body : pv -> pv -> pm pv) :
  MV.py_for_t (VList l) acc body = MV.pfold_t l acc body.
Proof. reflexivity. Qed.

(* ---------- comparisons of a byte with a constant ---------- *)

Lemma py_eq_N (b c : N) : py_eq (VInt (Z.of_N b)) (VInt (Z.of_N c)) = Val.POk (b =? c).
Proof. rewrite py_eq_int, Zeqb_N. reflexivity. Qed.

Lemma py_ne_N (b c : N) : py_ne (VInt (Z.of_N b)) (VInt (Z.of_N c)) = Val.POk (negb (b =? c)).
Proof. rewrite py_ne_int, Zeqb_N. reflexivity. Qed.

(* ---------- try / except on both sides ---------- *)

Lemma ptry_k_sim {A} (m : pm pv) (mm : M A) (g : A -> pv) (pats : list xpat) (h : exn -> pm pv)
                 (k : pv -> pm pv) (hM : exn -> option (M A)) (f : A -> pv) (w : world) :
  m w = mres g (mm w) ->
  (forall a w1, k (g a) w1 = (XOk (f a), w1)) ->
  (forall e w1, (if existsb (xpat_matches e) pats then mbind (h e) k w1 else (XRaise e, w1)) =
                mres f (match hM e with Some kk => kk w1 | None => (Exn e, w1) end)) ->
  MV.ptry_k m false pats h k w = mres f (try_catch mm hM w).
Proof.
  intros E K H. unfold MV.ptry_k, try_catch. rewrite E.
  destruct (mm w) as [[a|e] w1]; cbn [mres fst snd orb].
  - apply K.
  - apply H.
Qed.

(* ---------- enumerate(b) of a bytes object ---------- *)

Lemma py_enumerate_bytes (sd : bytes) :
  py_enumerate (VBytes sd) (VInt 0) =
  Val.POk (VList (map (fun p => VList [VInt (Z.of_nat (fst p)); VInt (Z.of_N (snd p))])
                      (combine (seq 0 (length sd)) sd))).
Proof.
  unfold py_enumerate. cbn [vint py_iter Val.pbind].
  rewrite (enumerate_items (fun b => VInt (Z.of_N b)) sd 0). reflexivity.
Qed.

Lemma py_ne_nat_N (k : nat) (c : N) :
  py_ne (VInt (Z.of_nat k)) (VInt (Z.of_N c)) = Val.POk (negb (N.of_nat k =? c)).
Proof. rewrite py_ne_int, Zeqb_nat_N. reflexivity. Qed.

(* ---------- the signature loop of authorize_signer ---------- *)

(* Python's `result`: None before the first answer, then the last answer *)
Definition optv (o : option N) : pv := match o with Some r => VInt (Z.of_N r) | None => VNone end.

Lemma pfold_t_sigs (body : pv -> pv -> pm pv) (K : pv -> pm pv) :
  (forall (last : pv) (hx : str) (sg : bytes) (w : world), fromhex hx = Some sg ->
     body (VList [last]) (VStr hx) w =
     match send_command CMD_SIGNER_AUTH (SAUTH_OP_OP_SIGN :: sg) w with
     | (Ok r, w1) =>
         match nth_error r 3 with
         | Some b => (XOk (if b =? SAUTH_OP_OP_SIGN_RES_SUCCESS then VList [VInt 2%Z; VBool true]
                           else VList [VInt 0%Z; VList [VInt (Z.of_N b)]]), w1)
         | None => (XRaise (Py IndexError), w1)
         end
     | (Exn e, w1) => (XRaise e, w1)
     end) ->
  (forall w, K (VList [VInt 2%Z; VBool true]) w = (XOk (VBool true), w)) ->
  (forall last w, K (VList [VInt 1%Z; VList [optv last]]) w = mres VBool (send_signatures [] last w)) ->
  forall (hexes : list str) (sigs : list bytes) (last : option N) (w : world),
    all_some (map fromhex hexes) = Some sigs ->
    mbind (MV.pfold_t (map VStr hexes) (VList [optv last]) body) K w =
    mres VBool (send_signatures sigs last w).
Proof.
  intros Hbody HK2 HK1. induction hexes as [|hx hexes IH]; intros sigs last w Hs.
  - cbn [map all_some] in Hs. injection Hs as <-. cbn [map MV.pfold_t]. rewrite mbind_ret. apply HK1.
  - cbn [map all_some] in Hs.
    destruct (fromhex hx) as [sg|] eqn:Ehx; [|discriminate Hs].
    destruct (all_some (map fromhex hexes)) as [rest|] eqn:Erest; [|discriminate Hs].
    injection Hs as <-.
    cbn [map MV.pfold_t send_signatures]. rewrite mbind_assoc.
    unfold mbind at 1. rewrite (Hbody _ hx sg w Ehx). unfold bind at 1.
    destruct (send_command CMD_SIGNER_AUTH (SAUTH_OP_OP_SIGN :: sg) w) as [[r|e] w1]; [|reflexivity].
    unfold bind, idxM, idx, of_opt. change OFF_DATAn with 3%nat.
    destruct (nth_error r 3) as [b|]; [|reflexivity].
    unfold ret. destruct (b =? SAUTH_OP_OP_SIGN_RES_SUCCESS).
    + rewrite mbind_ret. apply HK2.
    + apply (IH rest (Some b) w1 eq_refl).
Qed.

Lemma to_bytes_be_py (z : Z) :
  py_to_bytes_be (VInt z) (VInt 2) =
  match to_bytes_be 2 z with Some b => Val.POk (VBytes b) | None => PRaise OverflowError end.
Proof. reflexivity. Qed.
