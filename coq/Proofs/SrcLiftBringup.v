(* C09 carried over to the bring-up of ledger/protocol.py as translated from the Python source text
   (Gen/SrcM.v): the unlock command is sent at most once and only when safe, and a normal return (the only
   case in which the manager starts serving) implies the serving condition - stated about the translated
   source itself, Ledger platform. *)
From PowHsm Require Import Gen.SrcM Model.Bringup.
From PowHsm Require Import Proofs.TraceLogic Proofs.SrcEquivDongleM Proofs.SrcEquivPinM Proofs.SrcEquivBringupM Proofs.C09.

Definition bringup_hyps (w : world) : Prop := pin_small w /\ pin_new_small w /\ rand_small w.

Lemma src_bringup_world : forall (fields : list (string * pv)) (w : world),
  bringup_hyps w ->
  snd (srcm_HSM2ProtocolLedger__initialize_device (proto_obj fields) w) = snd (initialize_device KLedger w).
Proof.
  intros fields w [H1 [H2 H3]]. rewrite (srcm_initialize_device_ok fields w H1 H2 H3). reflexivity.
Qed.

Theorem src_bringup_unlock_at_most_once : forall (fields : list (string * pv)) (w : world),
  bringup_hyps w ->
  (count_unlock KLedger
     (new_events w (snd (srcm_HSM2ProtocolLedger__initialize_device (proto_obj fields) w))) <= 1)%nat.
Proof.
  intros fields w H. rewrite (src_bringup_world fields w H). apply unlock_at_most_once.
Qed.

Theorem src_bringup_unlock_only_when_safe :
  forall (fields : list (string * pv)) (w : world) (n1 : list event) (u : event) (n2 : list event),
  bringup_hyps w ->
  new_events w (snd (srcm_HSM2ProtocolLedger__initialize_device (proto_obj fields) w)) = n1 ++ u :: n2 ->
  is_unlock KLedger u = true -> InOrder (safe_pre KLedger) n1.
Proof.
  intros fields w n1 u n2 H He Hu. rewrite (src_bringup_world fields w H) in He.
  exact (unlock_only_when_safe KLedger w n1 u n2 He Hu).
Qed.

(* the translated bring-up returns normally only if the serving condition holds *)
Theorem src_bringup_serves_implies : forall (fields : list (string * pv)) (w w' : world) (v : pv),
  bringup_hyps w ->
  srcm_HSM2ProtocolLedger__initialize_device (proto_obj fields) w = (XOk v, w') ->
  Serves KLedger (pin w) (new_events w w').
Proof.
  intros fields w w' v [H1 [H2 H3]] Hrun.
  rewrite (srcm_initialize_device_ok fields w H1 H2 H3) in Hrun.
  unfold mres in Hrun.
  destruct (initialize_device KLedger w) as [r w1] eqn:Hm. cbn [fst snd] in Hrun.
  inversion Hrun as [[Hr Hw]]. subst w1.
  destruct r as [u|e]; [|discriminate Hr]. destruct u.
  exact (serves_implies KLedger w w' Hm).
Qed.

(* ... and every other outcome is an exception: the manager does not start serving *)
Theorem src_bringup_otherwise_raises : forall (fields : list (string * pv)) (w : world),
  bringup_hyps w ->
  (exists w', initialize_device KLedger w = (Ok tt, w')) \/
  (exists e w', srcm_HSM2ProtocolLedger__initialize_device (proto_obj fields) w = (XRaise e, w')).
Proof.
  intros fields w [H1 [H2 H3]].
  rewrite (srcm_initialize_device_ok fields w H1 H2 H3). unfold mres.
  destruct (initialize_device KLedger w) as [r w1]. cbn [fst snd].
  destruct r as [u|e]; [left; destruct u; exists w1; reflexivity | right; exists e, w1; reflexivity].
Qed.
