(* A small program logic for the M monad: every action only extends the trace, and a
   specification relates the initial world, the result, the NEW events (oldest first) and
   the final world.  Used by the trace-shaped properties (C02, C09, C11, C17, C18). *)
From PowHsm Require Import Model.Device.

Definition news (w w' : world) (n : list event) : Prop := trace w' = rev n ++ trace w.

Definition spec {A} (m : M A) (Q : world -> result A -> list event -> world -> Prop) : Prop :=
  forall w, exists n, news w (snd (m w)) n /\ Q w (fst (m w)) n (snd (m w)).

Lemma news_refl w : news w w [].
Proof. reflexivity. Qed.

Lemma news_trans w1 w2 w3 n1 n2 : news w1 w2 n1 -> news w2 w3 n2 -> news w1 w3 (n1 ++ n2).
Proof. unfold news; intros H1 H2. rewrite H2, H1, rev_app_distr, app_assoc. reflexivity. Qed.

Lemma spec_conseq {A} (m : M A) (Q Q' : world -> result A -> list event -> world -> Prop) :
  spec m Q -> (forall w r n w', Q w r n w' -> Q' w r n w') -> spec m Q'.
Proof. intros H HQ w. destruct (H w) as [n [Hn Hq]]. exists n; auto. Qed.

Lemma spec_ret {A} (a : A) : spec (ret a) (fun w r n w' => r = Ok a /\ n = [] /\ w' = w).
Proof. intro w. exists []. cbn. repeat split. Qed.

Lemma spec_raise {A} (e : exn) : spec (@raise A e) (fun w r n w' => r = Exn e /\ n = [] /\ w' = w).
Proof. intro w. exists []. cbn. repeat split. Qed.

Lemma spec_bind {A B} (m : M A) (f : A -> M B) Q1 Q2 :
  spec m Q1 -> (forall a, spec (f a) (Q2 a)) ->
  spec (bind m f)
       (fun w r n w' =>
          (exists a n1 n2 wm, Q1 w (Ok a) n1 wm /\ Q2 a wm r n2 w' /\ n = n1 ++ n2)
          \/ (exists e, r = Exn e /\ Q1 w (Exn e) n w')).
Proof.
  intros Hm Hf w. unfold bind.
  destruct (Hm w) as [n1 [Hn1 Hq1]].
  destruct (m w) as [[a|e] wm] eqn:Em; cbn [fst snd] in *.
  - destruct (Hf a wm) as [n2 [Hn2 Hq2]].
    exists (n1 ++ n2). split.
    + eapply news_trans; eauto.
    + left. exists a, n1, n2, wm. auto.
  - exists n1. split; auto. right. exists e. auto.
Qed.

Lemma spec_try_catch {A} (m : M A) (h : exn -> option (M A)) Q1 Q2 :
  spec m Q1 ->
  (forall e k, h e = Some k -> spec k (Q2 e)) ->
  spec (try_catch m h)
       (fun w r n w' =>
          (exists a, r = Ok a /\ Q1 w (Ok a) n w')
          \/ (exists e, h e = None /\ r = Exn e /\ Q1 w (Exn e) n w')
          \/ (exists e k n1 n2 wm, h e = Some k /\ Q1 w (Exn e) n1 wm /\ Q2 e wm r n2 w'
                                   /\ n = n1 ++ n2)).
Proof.
  intros Hm Hh w. unfold try_catch.
  destruct (Hm w) as [n1 [Hn1 Hq1]].
  destruct (m w) as [[a|e] wm] eqn:Em; cbn [fst snd] in *.
  - exists n1. split; auto. left. eauto.
  - destruct (h e) as [k|] eqn:Eh.
    + destruct (Hh e k Eh wm) as [n2 [Hn2 Hq2]].
      exists (n1 ++ n2). split.
      * eapply news_trans; eauto.
      * right; right. exists e, k, n1, n2, wm. auto.
    + exists n1. split; auto. right; left. eauto.
Qed.

(* the answer the next exchange will get *)
Definition next_answer (w : world) : resp :=
  match script w with [] => TimeoutR | r :: _ => r end.

Lemma spec_send (cmd : N) (data : bytes) :
  spec (send_command cmd data)
       (fun w r n w' => n = [Apdu (CLA :: cmd :: data) (next_answer w)]
                        /\ r = classify (next_answer w)
                        /\ script w' = tl (script w)
                        /\ comm_issue w' = comm_issue w /\ pin w' = pin w
                        /\ connects w' = connects w /\ opened w' = opened w).
Proof.
  intro w. unfold send_command, next_answer.
  destruct (script w) as [|r rest] eqn:Es; cbn.
  - exists [Apdu (CLA :: cmd :: data) TimeoutR]. repeat split; auto.
  - exists [Apdu (CLA :: cmd :: data) r]. repeat split; auto.
Qed.

(* predicate on events: "is an APDU whose command byte satisfies P" *)
Definition apdu_cmd (e : event) : option N :=
  match e with Apdu (_ :: c :: _) _ => Some c | _ => None end.

(* m only ever sends commands accepted by S (no statement about connect/close events) *)
Definition sends_only {A} (S : N -> bool) (m : M A) : Prop :=
  spec m (fun _ _ n _ => Forall (fun e => match apdu_cmd e with Some c => S c = true | None => True end) n).

Lemma sends_only_ret {A} S (a : A) : sends_only S (ret a).
Proof. eapply spec_conseq; [apply spec_ret|]. intros ? ? ? ? [_ [-> _]]. constructor. Qed.

Lemma sends_only_raise {A} S e : sends_only S (@raise A e).
Proof. eapply spec_conseq; [apply spec_raise|]. intros ? ? ? ? [_ [-> _]]. constructor. Qed.

Lemma sends_only_bind {A B} S (m : M A) (f : A -> M B) :
  sends_only S m -> (forall a, sends_only S (f a)) -> sends_only S (bind m f).
Proof.
  intros Hm Hf.
  eapply spec_conseq;
    [apply (spec_bind m f _
              (fun _ _ _ n _ => Forall (fun e => match apdu_cmd e with
                                                  | Some c => S c = true | None => True end) n)
              Hm Hf)|].
  intros w r n w' [[a [n1 [n2 [wm [H1 [H2 ->]]]]]] | [e [_ H1]]]; auto.
  apply Forall_app; auto.
Qed.

Lemma sends_only_try {A} S (m : M A) h :
  sends_only S m -> (forall e k, h e = Some k -> sends_only S k) -> sends_only S (try_catch m h).
Proof.
  intros Hm Hh.
  eapply spec_conseq;
    [apply (spec_try_catch m h _
              (fun _ _ _ n _ => Forall (fun e => match apdu_cmd e with
                                                  | Some c => S c = true | None => True end) n)
              Hm Hh)|].
  intros w r n w' [[a [_ H]] | [[e [_ [_ H]]] | [e [k [n1 [n2 [wm [_ [H1 [H2 ->]]]]]]]]]]; auto.
  apply Forall_app; auto.
Qed.

Lemma sends_only_send S cmd data : S cmd = true -> sends_only S (send_command cmd data).
Proof.
  intro Hc. eapply spec_conseq; [apply spec_send|].
  intros w r n w' [-> _]. constructor; [cbn; exact Hc|constructor].
Qed.

Lemma sends_only_of_opt {A} S (o : option A) e : sends_only S (of_opt o e).
Proof. destruct o; [apply sends_only_ret|apply sends_only_raise]. Qed.

Lemma spec_modify (f : world -> world) :
  (forall w, trace (f w) = trace w) ->
  spec (modify f) (fun w r n w' => r = Ok tt /\ n = [] /\ w' = f w).
Proof. intros Hf w. exists []. cbn. split; [unfold news; cbn; apply Hf|auto]. Qed.

Lemma sends_only_modify S (f : world -> world) :
  (forall w, trace (f w) = trace w) -> sends_only S (modify f).
Proof.
  intro Hf. eapply spec_conseq; [apply (spec_modify f Hf)|].
  intros ? ? ? ? [_ [-> _]]. constructor.
Qed.
