(* Refinement theorems for the device-monad backend, protocol layer of the block commands: the result
   translation tables and the handlers _advance_blockchain / _update_ancestor_block of ledger/protocol.py as
   translated from the Python source text (Gen/SrcM.v) run on every world exactly as Model/LedgerProtocol.v's
   op_advance / op_update_ancestor (with their generated ladders and translation tables). *)
From PowHsm Require Import Gen.SrcM Model.LedgerProtocol.
From PowHsm Require Import Proofs.ValLemmas Proofs.SrcEquivDongleM Proofs.SrcEquivProtoM Proofs.SrcEquivBlockM.
From PowHsm Require Import Proofs.ValLemmasProtoM.


(* first-match lookups over the finitely many keys of a closed table, for an arbitrary key c *)
Ltac split_keys c :=
  repeat match goal with
         | |- context [(c =? ?k)%Z] => destruct (Z.eqb_spec c k) as [->|?]; [reflexivity|]
         end;
  reflexivity.

Lemma srcm_translate_advance_result_ok : forall (self : pv) (c : Z) (w : world),
  srcm_HSM2ProtocolLedger___translate_advance_result self (VInt c) w =
  (XOk (VInt (lookup_Z c TR_ADV TR_ADV_DEFAULT)), w).
Proof.
  intros self c w.
  cbv -[Z.eqb]. split_keys c.
Qed.

Lemma srcm_translate_update_ancestor_result_ok : forall (self : pv) (c : Z) (w : world),
  srcm_HSM2ProtocolLedger___translate_update_ancestor_result self (VInt c) w =
  (XOk (VInt (lookup_Z c TR_UPD TR_UPD_DEFAULT)), w).
Proof.
  intros self c w.
  cbv -[Z.eqb]. split_keys c.
Qed.

Lemma srcm_translate_sign_error_ok : forall (self : pv) (c : Z) (w : world),
  srcm_HSM2ProtocolLedger___translate_sign_error self (VInt c) w =
  (XOk (VInt (lookup_Z c TR_SIGN_V5 TR_SIGN_V5_DEFAULT)), w).
Proof.
  intros self c w.
  cbv -[Z.eqb]. split_keys c.
Qed.

Section WithEnv.
Variable keccak : bytes -> bytes.
Variable kind : dongle_kind.
Variable init : pm pv.
Variable cm : string -> pv -> list pv -> pr pv.

Definition jstrs (l : list str) : json := JArr (map JStr l).

(* fuel for the chunk loops: at least the script length + 1 in the world the repair leaves *)
Definition fuel_ok (fuel : nat) (w : world) : Prop :=
  (S (length (script (snd (ensure_connection kind w)))) <= fuel)%nat.


(* ---------- helpers for the two handlers ---------- *)

(* sequencing under mres where the continuation is only considered in the world the first part leaves *)
Lemma mres_bind_at {A B} (f : A -> pv) (g : B -> pv) (m : pm pv) (mm : M A) (k : pv -> pm pv) (kk : A -> M B)
                   (w : world) :
  m w = mres f (mm w) ->
  (forall a, k (f a) (snd (mm w)) = mres g (kk a (snd (mm w)))) ->
  mbind m k w = mres g (bind mm kk w).
Proof.
  intros Hm Hk. unfold mbind, bind. rewrite Hm. unfold mres at 1.
  destruct (mm w) as [[a|e] w'] eqn:Hmm; cbn [fst snd] in *.
  - apply Hk.
  - reflexivity.
Qed.

Lemma of_json_jstrs (l : list str) : of_json (JArr (map JStr l)) = hexes l.
Proof. unfold hexes. cbn [of_json]. rewrite map_map. reflexivity. Qed.

Lemma of_json_jstrs_list (ll : list (list str)) :
  of_json (JArr (map (fun l => JArr (map JStr l)) ll)) = VList (map hexes ll).
Proof.
  cbn [of_json]. rewrite map_map. f_equal. apply map_ext. intros l.
  change (of_json (JArr (map JStr l)) = hexes l). apply of_json_jstrs.
Qed.

Lemma block_list_jstrs (l : list str) :
  block_list (Some (JArr (map JStr l))) = ret (map fromhex l).
Proof. unfold block_list. rewrite map_map. reflexivity. Qed.

Lemma brothers_go_jstrs (ll : list (list str)) :
  (fix go (l : list json) : M (list (list (option bytes))) :=
     match l with
     | [] => ret []
     | x :: r => a <- block_list (Some x) ;; b <- go r ;; ret (a :: b)
     end) (map (fun l => JArr (map JStr l)) ll) = ret (map (map fromhex) ll).
Proof.
  induction ll as [|l r IH]; [reflexivity|].
  cbn [map]. rewrite block_list_jstrs, IH. reflexivity.
Qed.

Theorem srcm_advance_blockchain_handler_ok :
  forall (fuel : nat) (self : pv) (req : obj) (blocks : list str) (brothers : list (list str)) (w : world),
  init_ok kind init -> block_oracles_ok keccak cm -> keccak_wf keccak ->
  jget (s "blocks") req = Some (jstrs blocks) ->
  jget (s "brothers") req = Some (JArr (map jstrs brothers)) ->
  fuel_ok fuel w ->
  srcm_HSM2ProtocolLedger___advance_blockchain fuel cm init self (of_obj req) w =
  mres rtuple_pv (op_advance keccak kind req w).
Proof.
  intros fuel self req blocks brothers w Hinit Horc Hkw Hblocks Hbros Hfuel.
  unfold srcm_HSM2ProtocolLedger___advance_blockchain, op_advance, with_ladder.
  unfold jstrs in Hblocks, Hbros. rewrite Hblocks, Hbros.
  rewrite block_list_jstrs, brothers_go_jstrs.
  match goal with |- MV.pbind (MV.POk VNone) ?F ?w0 = ?R => change (F VNone w0 = R) end. cbv beta.
  apply ptry_k_mres with
    (f := fun r : bo_result =>
            VList [VInt 2; VList [VInt (lookup_Z (snd r) TR_ADV TR_ADV_DEFAULT); VDict []]])
    (mm := bind (ensure_connection kind)
             (fun _ => advance_blockchain keccak (map fromhex blocks) (map (map fromhex) brothers)))
    (res := fun r : bo_result => (lookup_Z (snd r) TR_ADV TR_ADV_DEFAULT, Some (@nil (str * json)))).
  - unfold MV.pbind at 1.
    apply mres_bind_at with (f := fun _ : unit => VNone).
    + apply srcm_ensure_connection_ok. exact Hinit.
    + intros u. set (w1 := snd (ensure_connection kind w)).
      assert (Hf1 : (S (length (script w1)) <= fuel)%nat) by exact Hfuel.
      unfold MV.py_getitem. rewrite !py_getitem_of_obj, Hblocks, Hbros.
      rewrite of_json_jstrs, of_json_jstrs_list.
      unfold MV.pbind, lift, mbind.
      rewrite (srcm_advance_blockchain_ok keccak cm fuel _ blocks brothers w1 Horc Hkw Hf1).
      unfold mres.
      destruct (advance_blockchain keccak (map fromhex blocks) (map (map fromhex) brothers) w1)
        as [[r|e] w2]; cbn [fst snd]; [|reflexivity].
      unfold bo_res. cbn [py_getitem]. change (seq_index [VBool (fst r); VInt (snd r)] 1) with (Some (VInt (snd r))).
      cbv beta iota. rewrite srcm_translate_advance_result_ok. reflexivity.
  - unfold bind, ret. destruct (ensure_connection kind w) as [[u|e] w1]; [|reflexivity].
    destruct (advance_blockchain keccak (map fromhex blocks) (map (map fromhex) brothers) w1)
      as [[r|e] w2]; reflexivity.
  - intros r w1. reflexivity.
  - intros e w1. destruct e; reflexivity.
Qed.

Theorem srcm_update_ancestor_handler_ok :
  forall (fuel : nat) (self : pv) (req : obj) (blocks : list str) (w : world),
  init_ok kind init -> block_oracles_ok keccak cm ->
  jget (s "blocks") req = Some (jstrs blocks) ->
  fuel_ok fuel w ->
  srcm_HSM2ProtocolLedger___update_ancestor_block fuel cm init self (of_obj req) w =
  mres rtuple_pv (op_update_ancestor kind req w).
Proof.
  intros fuel self req blocks w Hinit Horc Hblocks Hfuel.
  unfold srcm_HSM2ProtocolLedger___update_ancestor_block, op_update_ancestor, with_ladder.
  unfold jstrs in Hblocks. rewrite Hblocks.
  rewrite block_list_jstrs.
  match goal with |- MV.pbind (MV.POk VNone) ?F ?w0 = ?R => change (F VNone w0 = R) end. cbv beta.
  apply ptry_k_mres with
    (f := fun r : bo_result =>
            VList [VInt 2; VList [VInt (lookup_Z (snd r) TR_UPD TR_UPD_DEFAULT); VDict []]])
    (mm := bind (ensure_connection kind) (fun _ => update_ancestor (map fromhex blocks)))
    (res := fun r : bo_result => (lookup_Z (snd r) TR_UPD TR_UPD_DEFAULT, Some (@nil (str * json)))).
  - unfold MV.pbind at 1.
    apply mres_bind_at with (f := fun _ : unit => VNone).
    + apply srcm_ensure_connection_ok. exact Hinit.
    + intros u. set (w1 := snd (ensure_connection kind w)).
      assert (Hf1 : (S (length (script w1)) <= fuel)%nat) by exact Hfuel.
      unfold MV.py_getitem. rewrite !py_getitem_of_obj, Hblocks.
      rewrite of_json_jstrs.
      unfold MV.pbind, lift, mbind.
      rewrite (srcm_update_ancestor_ok keccak cm fuel _ blocks w1 Horc Hf1).
      unfold mres.
      destruct (update_ancestor (map fromhex blocks) w1) as [[r|e] w2]; cbn [fst snd]; [|reflexivity].
      unfold bo_res. cbn [py_getitem]. change (seq_index [VBool (fst r); VInt (snd r)] 1) with (Some (VInt (snd r))).
      cbv beta iota. rewrite srcm_translate_update_ancestor_result_ok. reflexivity.
  - unfold bind, ret. destruct (ensure_connection kind w) as [[u|e] w1]; [|reflexivity].
    destruct (update_ancestor (map fromhex blocks) w1) as [[r|e] w2]; reflexivity.
  - intros r w1. reflexivity.
  - intros e w1. destruct e; reflexivity.
Qed.

End WithEnv.
