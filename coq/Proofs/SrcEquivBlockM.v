(* Refinement theorems for the device-monad backend: advance_blockchain and update_ancestor of
   ledger/hsm2dongle.py (with _do_block_operation and _send_block_header, ~400 lines of Python) as translated
   from the Python source text (Gen/SrcM.v) run on every world exactly as the models of Model/BlockOps.v: same
   (True|False, code) or exception, same final world - the same APDUs in the same order: announced count,
   per block its metadata and chunks, the sorted brothers on request.  The block_utils / pow helpers (wrappers
   around the rlp package and the SHA-256 midstate code, which have models of their own) are oracles. *)
From PowHsm Require Import Gen.SrcM Model.BlockOps.
From PowHsm Require Import Proofs.ValLemmas Proofs.SrcEquivDongleM.
From PowHsm Require Import Proofs.ValLemmasAdmin Proofs.ValLemmasSign Proofs.ValLemmasBlockM.
From Coq Require Import Lia.

(* ---------- proof tactics: evaluation of the translated text by rewriting, head first ---------- *)

Local Ltac bnorm :=
  repeat (progress (rewrite ?pbind_POk, ?pbind_PRaise, ?pbind_PRaiseX, ?lift_POk, ?lift_PRaise, ?pif_POk, ?pif_PRaise,
                            ?py_not_POk, ?py_not_PRaise, ?vbool_lift_POk, ?vbool_POk, ?py_and_POk,
                            ?mv_py_add_bytes, ?mv_getitem_pair0, ?mv_getitem_pair1, ?mv_getitem_bytes2,
                            ?mv_getitem_bytes3, ?mv_py_eq_N, ?mv_py_ne_N, ?mv_py_bytes_nil, ?mv_list_append,
                            ?mv_error_code; cbv beta)).
Local Ltac set_hk :=
  match goal with |- MV.ptry_k _ _ _ ?h ?k _ = _ =>
    let H := fresh "Hd" in let K := fresh "K" in set (H := h); set (K := k) end.
Local Ltac try_ok :=
  match goal with |- MV.ptry_k ?m _ _ _ _ ?w = _ => rewrite (ptry_k_ok m _ _ _ _ w w _ eq_refl) end.
Local Ltac try_raise e :=
  match goal with |- MV.ptry_k ?m _ _ _ _ ?w = _ => rewrite (ptry_k_raise m _ _ _ _ w w e eq_refl) end.

Section WithOracles.
Variable keccak : bytes -> bytes.
Variable cm : string -> pv -> list pv -> pr pv.

Definition hexopt (o : option bytes) : pr pv :=
  match o with Some b => POk (VStr (hex b)) | None => PRaise ValueError end.

(* what the helper functions return, in terms of their models (the argument is the hex text of a header) *)
Definition block_oracles_ok : Prop :=
  (forall hx : str, cm "rlp_mm_payload_size" VNone [VStr hx] =
     match rlp_mm_payload_size (fromhex hx) with
     | Some n => POk (VInt (Z.of_N n)) | None => PRaise ValueError end) /\
  (forall hx : str, pbind (cm "get_coinbase_txn" VNone [VStr hx]) (fun t => cm "coinbase_tx_get_hash" VNone [t]) =
     match get_coinbase_txn (fromhex hx) with
     | CbOk tx => hexopt (coinbase_tx_get_hash tx)
     | _ => PRaise ValueError end) /\
  (forall hx : str, cm "get_block_hash" VNone [VStr hx] = hexopt (get_block_hash keccak (fromhex hx))) /\
  (forall hx : str, cm "remove_mm_fields_if_present" VNone [VStr hx] = hexopt (remove_mm_fields (fromhex hx) true)).

Definition bo_res (r : bo_result) : pv := VList [VBool (fst r); VInt (snd r)].
Definition hexes (l : list str) : pv := VList (map VStr l).

Definition hname (b : bool) : pv := VStr (if b then s "brother" else s "block").
Definition sbh_res (r : bytes + Z) : pv :=
  match r with inl resp => VList [VBool true; VBytes resp] | inr c => VList [VBool false; VInt c] end.

(* ---------- _send_block_header and _do_block_operation, for an operation given by its tables ----------
   The translated methods are called with literal objects (the enum classes ops / responses / errors and the
   error-code dictionary); the hypotheses say what the attribute reads of the translated text yield and how the
   tables of the model's blockop record are laid out.  Both concrete operations (ADVANCE_OP, UPD_OP) satisfy them
   by computation (see the two theorems at the end). *)
Section WithOp.
Variable fuel : nat.
Variables self opname : pv.
Variable o : blockop.
Variables ops resps errs : pv.
Variables prot btm : N.
Variables emeta einit ebro : Z.
Hypothesis Hor : block_oracles_ok.
Let cmdv := vN (bo_cmd o).
Let cem := intdict (bo_chunk_errors o).
Notation adv := (bo_is_advance o).

Hypothesis Hcmd16 : (bo_cmd o =? 16) = bo_is_advance o.
Hypothesis G_init : py_getattr ops "INIT" = POk (vN (bo_op_init o)).
Hypothesis G_hmeta : py_getattr ops "HEADER_META" = POk (vN (bo_op_header_meta o)).
Hypothesis G_hchunk : py_getattr ops "HEADER_CHUNK" = POk (vN (bo_op_header_chunk o)).
Hypothesis G_success : py_getattr ops "SUCCESS" = POk (vN (bo_op_success o)).
Hypothesis G_partial : adv = true -> py_getattr ops "PARTIAL" = POk (vN (bo_op_partial o)).
Hypothesis G_blm : adv = true -> py_getattr ops "BROTHER_LIST_META" = POk (vN (bo_op_bro_list_meta o)).
Hypothesis G_bmeta : adv = true -> py_getattr ops "BROTHER_META" = POk (vN (bo_op_bro_meta o)).
Hypothesis G_bchunk : adv = true -> py_getattr ops "BROTHER_CHUNK" = POk (vN (bo_op_bro_chunk o)).
Hypothesis G_unexp : py_getattr resps "ERROR_UNEXPECTED" = POk (VInt (bo_unexpected o)).
Hypothesis G_cmeta : py_getattr resps "ERROR_COMPUTE_METADATA" = POk (VInt (bo_compute_meta o)).
Hypothesis G_emeta : py_getattr resps "ERROR_METADATA" = POk (VInt emeta).
Hypothesis G_einit : py_getattr resps "ERROR_INIT" = POk (VInt einit).
Hypothesis G_ebro : adv = true -> py_getattr resps "ERROR_INVALID_BROTHERS" = POk (VInt ebro).
Hypothesis G_okp : adv = true -> py_getattr resps "OK_PARTIAL" = POk (VInt (bo_ok_partial o)).
Hypothesis G_okt : py_getattr resps "OK_TOTAL" = POk (VInt (bo_ok_total o)).
Hypothesis G_prot : py_getattr errs "PROT_INVALID" = POk (vN prot).
Hypothesis G_btm : adv = true -> py_getattr errs "BROTHERS_TOO_MANY" = POk (vN btm).
Hypothesis T_meta : bo_meta_errs o = [([prot], emeta)] /\ bo_meta_default o = bo_unexpected o.
Hypothesis T_init : bo_init_errs o = [([prot], einit)] /\ bo_init_default o = bo_unexpected o.
Hypothesis T_bro : adv = true -> bo_brolist_errs o = [([prot; btm], ebro)] /\ bo_brolist_default o = bo_unexpected o /\
                                 ADV_BROCOUNT_OVERFLOW_RESULT = Some ebro.
Hypothesis T_chunk : bo_chunk_default o = bo_unexpected o.
Hypothesis T_ovf : bo_meta_catches_overflow o = true.
Hypothesis T_nblk : bo_next_block o = bo_op_header_chunk o :: bo_op_header_meta o :: bo_op_success o ::
                                     (if adv then [bo_op_partial o; bo_op_bro_list_meta o] else []).
Hypothesis T_nbro : adv = true -> bo_next_brother o = [bo_op_bro_chunk o; bo_op_bro_meta o; bo_op_success o;
                                                      bo_op_partial o; bo_op_header_meta o].
Hypothesis B_ops : bo_op_init o < 256 /\ bo_op_header_meta o < 256 /\ bo_op_header_chunk o < 256 /\
                   bo_op_bro_list_meta o < 256 /\ bo_op_bro_meta o < 256 /\ bo_op_bro_chunk o < 256.

Lemma ga_init : MV.py_getattr ops "INIT" = MV.POk (vN (bo_op_init o)).
Proof. unfold MV.py_getattr. rewrite G_init. reflexivity. Qed.
Lemma ga_hmeta : MV.py_getattr ops "HEADER_META" = MV.POk (vN (bo_op_header_meta o)).
Proof. unfold MV.py_getattr. rewrite G_hmeta. reflexivity. Qed.
Lemma ga_hchunk : MV.py_getattr ops "HEADER_CHUNK" = MV.POk (vN (bo_op_header_chunk o)).
Proof. unfold MV.py_getattr. rewrite G_hchunk. reflexivity. Qed.
Lemma ga_success : MV.py_getattr ops "SUCCESS" = MV.POk (vN (bo_op_success o)).
Proof. unfold MV.py_getattr. rewrite G_success. reflexivity. Qed.
Lemma ga_partial : adv = true -> MV.py_getattr ops "PARTIAL" = MV.POk (vN (bo_op_partial o)).
Proof. intros H. unfold MV.py_getattr. rewrite (G_partial H). reflexivity. Qed.
Lemma ga_blm : adv = true -> MV.py_getattr ops "BROTHER_LIST_META" = MV.POk (vN (bo_op_bro_list_meta o)).
Proof. intros H. unfold MV.py_getattr. rewrite (G_blm H). reflexivity. Qed.
Lemma ga_bmeta : adv = true -> MV.py_getattr ops "BROTHER_META" = MV.POk (vN (bo_op_bro_meta o)).
Proof. intros H. unfold MV.py_getattr. rewrite (G_bmeta H). reflexivity. Qed.
Lemma ga_bchunk : adv = true -> MV.py_getattr ops "BROTHER_CHUNK" = MV.POk (vN (bo_op_bro_chunk o)).
Proof. intros H. unfold MV.py_getattr. rewrite (G_bchunk H). reflexivity. Qed.
Lemma ga_unexp : MV.py_getattr resps "ERROR_UNEXPECTED" = MV.POk (VInt (bo_unexpected o)).
Proof. unfold MV.py_getattr. rewrite G_unexp. reflexivity. Qed.
Lemma ga_cmeta : MV.py_getattr resps "ERROR_COMPUTE_METADATA" = MV.POk (VInt (bo_compute_meta o)).
Proof. unfold MV.py_getattr. rewrite G_cmeta. reflexivity. Qed.
Lemma ga_emeta : MV.py_getattr resps "ERROR_METADATA" = MV.POk (VInt emeta).
Proof. unfold MV.py_getattr. rewrite G_emeta. reflexivity. Qed.
Lemma ga_einit : MV.py_getattr resps "ERROR_INIT" = MV.POk (VInt einit).
Proof. unfold MV.py_getattr. rewrite G_einit. reflexivity. Qed.
Lemma ga_ebro : adv = true -> MV.py_getattr resps "ERROR_INVALID_BROTHERS" = MV.POk (VInt ebro).
Proof. intros H. unfold MV.py_getattr. rewrite (G_ebro H). reflexivity. Qed.
Lemma ga_okp : adv = true -> MV.py_getattr resps "OK_PARTIAL" = MV.POk (VInt (bo_ok_partial o)).
Proof. intros H. unfold MV.py_getattr. rewrite (G_okp H). reflexivity. Qed.
Lemma ga_okt : MV.py_getattr resps "OK_TOTAL" = MV.POk (VInt (bo_ok_total o)).
Proof. unfold MV.py_getattr. rewrite G_okt. reflexivity. Qed.
Lemma ga_prot : MV.py_getattr errs "PROT_INVALID" = MV.POk (vN prot).
Proof. unfold MV.py_getattr. rewrite G_prot. reflexivity. Qed.
Lemma ga_btm : adv = true -> MV.py_getattr errs "BROTHERS_TOO_MANY" = MV.POk (vN btm).
Proof. intros H. unfold MV.py_getattr. rewrite (G_btm H). reflexivity. Qed.

Ltac ga := rewrite ?ga_init, ?ga_hmeta, ?ga_hchunk, ?ga_success, ?ga_unexp, ?ga_cmeta, ?ga_emeta, ?ga_einit,
                   ?ga_okt, ?ga_prot.
Ltac gab Ha := rewrite ?(ga_partial Ha), ?(ga_blm Ha), ?(ga_bmeta Ha), ?(ga_bchunk Ha), ?(ga_ebro Ha),
                       ?(ga_okp Ha), ?(ga_btm Ha).
Ltac ev := repeat (progress (ga; bnorm)).
Ltac case_adv Ea := let ab := fresh "ab" in remember (bo_is_advance o) as ab eqn:Ea in |- *; symmetry in Ea; destruct ab.

Lemma cmd16 : MV.vbool (MV.py_eq cmdv (VInt 16)) = MV.POk (VBool adv).
Proof. change (VInt 16) with (vN 16). unfold cmdv. rewrite mv_py_eq_N, Hcmd16. reflexivity. Qed.

Definition op_meta_of (b : bool) : N := if b then bo_op_bro_meta o else bo_op_header_meta o.
Definition op_chunk_of (b : bool) : N := if b then bo_op_bro_chunk o else bo_op_header_chunk o.

(* B of _send_block_header: the chunked send of the header, once next_operations is built (the text occurs five
   times in the translation, once per combination of command and header name) *)
Ltac chunk_tail hx Hd K Hchunk_lt HL Hfuel :=
  let data := fresh "data" in let Ehx := fresh "Ehx" in
  destruct (fromhex hx) as [data|] eqn:Ehx;
  [ rewrite (mv_py_fromhex _ _ Ehx); bnorm;
    match goal with |- _ = mres sbh_res (?m ?w) => rewrite <- (bind_ret_r m w) end;
    eapply (try_stepP sbh_res (fun _ => True))
      with (tbl := fun sw => match assoc_N sw (bo_chunk_errors o) with
                             | Some c0 => c0 | None => bo_chunk_default o end);
    [ match goal with |- context [send_data_in_chunks _ _ ?nx _ false _] =>
        eapply chunk_body_blk with (nexts := nx) (F := fun r => VList [VInt 1%Z; VList [VList (map vN nx); r]])
      end; [exact Hchunk_lt|lia|intros w''; ev; reflexivity]
    | intros sw w''; split;
      [ unfold caught; cbn [orb existsb xpat_matches]; rewrite isa_er; reflexivity
      | unfold Hd; ev; unfold cem; rewrite mv_get_default_intdict; bnorm; rewrite T_chunk;
        destruct (assoc_N sw (bo_chunk_errors o)); reflexivity ]
    | intros ex w'' _; destruct ex; try exact I; unfold caught; cbn [orb existsb xpat_matches];
      rewrite ?isa_er; reflexivity
    | intros v r w'' HE _; destruct r as [r|cc]; subst v; reflexivity ]
  | rewrite (mv_py_fromhex_none _ Ehx); bnorm; try_raise (Py ValueError);
    cbn [orb existsb xpat_matches]; rewrite isa_er; reflexivity ].

(* A of _send_block_header: the metadata exchange, once the coinbase hash is there *)
Ltac meta_tail Hmeta_lt Hd K Hchunk :=
  rewrite (mv_py_bytes_single _ Hmeta_lt); bnorm; cbn [app];
  rewrite bind_ret_l; cbv beta iota;
  eapply (try_stepP sbh_res dev_exn) with (tbl := fun sw => lookup_err sw (bo_meta_errs o) (bo_meta_default o));
  [ eapply meta_body; intros w'; ev; reflexivity
  | intros sw w'; split; [reflexivity|]; unfold Hd; cbn [existsb xpat_matches orb]; rewrite isa_er; ev;
    rewrite mv_in1; bnorm; cbn [py_truth]; destruct T_meta as [-> ->]; cbn [lookup_err];
    destruct (mem_N sw [prot]); ev; reflexivity
  | let ex := fresh "ex" in let p := fresh "p" in
    intros ex w' He; destruct ex as [?| | | | | | | |p]; try exact I;
    [..|destruct p; try contradiction]; unfold caught, Hd; cbn [existsb xpat_matches pyexc_eqb orb];
    rewrite ?isa_er; reflexivity
  | let v := fresh "v" in let a := fresh "a" in let HE := fresh "HE" in let HL := fresh "HL" in
    intros v a w' HE HL; destruct a as [q|c];
    [ destruct HE as [r ->]; apply Hchunk; exact HL | subst v; reflexivity ] ].

(* _send_block_header: (True, last answer) | (False, code) *)
Lemma sbh_ok (is_bro : bool) (hx : str) (w : world) :
  (is_bro = true -> adv = true) ->
  (S (length (script w)) <= fuel)%nat ->
  srcm_HSM2Dongle___send_block_header fuel cm self opname (hname is_bro) (VStr hx) cmdv ops
    (vN (op_meta_of is_bro)) (vN (op_chunk_of is_bro)) resps errs cem w =
  mres sbh_res (send_block_header o is_bro (fromhex hx) w).
Proof.
  intros Hbro Hfuel. unfold srcm_HSM2Dongle___send_block_header, send_block_header.
  rewrite !pbind_POk. cbv beta. set_hk.
  destruct Hor as [Hmm [Hcb [Hbh Hrm]]].
  rewrite Hmm. destruct (rlp_mm_payload_size (fromhex hx)) as [mm|] eqn:Emm.
  2: { bnorm. try_raise (Py ValueError). cbn [orb]. subst Hd. cbv beta.
       cbn [existsb xpat_matches pyexc_eqb orb]. ev. reflexivity. }
  bnorm. rewrite mv_to_bytes_be_2.
  destruct (to_bytes_be 2 (Z.of_N mm)) as [mmb|] eqn:Emmb.
  2: { bnorm. try_raise (Py OverflowError). cbn [orb]. subst Hd. cbv beta.
       cbn [existsb xpat_matches pyexc_eqb orb]. ev. rewrite T_ovf. reflexivity. }
  bnorm. rewrite cmd16. bnorm. cbn [py_truth].
  assert (Hmeta_lt : op_meta_of is_bro < 256) by (unfold op_meta_of; destruct is_bro; lia).
  assert (Hchunk_lt : op_chunk_of is_bro < 256) by (unfold op_chunk_of; destruct is_bro; lia).
  (* B. the chunks *)
  assert (Hchunk : forall (a b c d e : pv) (q : N) (w' : world),
            (length (script w') <= length (script w))%nat ->
            K (VList [VInt 1%Z; VList [a; b; c; d; e; vN q]]) w' =
            mres sbh_res
              (match fromhex hx with
               | Some data =>
                   on_error_result
                     (cr <- send_data_in_chunks (bo_cmd o)
                              (if is_bro then bo_op_bro_chunk o else bo_op_header_chunk o)
                              (if is_bro then bo_next_brother o else bo_next_block o) data false q ;;
                      (if fst cr then ret (inl (snd cr)) else ret (inr (bo_unexpected o))))
                     (fun sw : N => ret (inr match assoc_N sw (bo_chunk_errors o) with
                                             | Some c0 => c0 | None => bo_chunk_default o end))
               | None => raise (Py ValueError)
               end w')).
  { intros a b c d e q w' HL. unfold K. cbv beta iota. bnorm. clear Hd K. set_hk.
    ev. rewrite cmd16. bnorm. cbn [py_truth].
    case_adv Ea.
    - gab Ea. bnorm. cbn [app].
      destruct is_bro; unfold hname, op_chunk_of, op_meta_of.
      + rewrite nm_Bb. bnorm. cbn [py_truth]. rewrite nm_BB. bnorm. cbn [py_truth]. ev. cbn [app].
        rewrite (T_nbro (Hbro eq_refl)).
        chunk_tail hx Hd K Hchunk_lt HL Hfuel.
      + rewrite nm_bb. bnorm. cbn [py_truth]. gab Ea. bnorm. cbn [app]. rewrite nm_bB. bnorm. cbn [py_truth].
        rewrite T_nblk, Ea.
        chunk_tail hx Hd K Hchunk_lt HL Hfuel.
    - destruct is_bro; [specialize (Hbro eq_refl); congruence|]. unfold hname, op_chunk_of, op_meta_of.
      rewrite T_nblk, Ea.
      chunk_tail hx Hd K Hchunk_lt HL Hfuel. }
  (* A. the metadata exchange *)
  case_adv Ea.
  - rewrite lift_pbind, Hcb.
    destruct (get_coinbase_txn (fromhex hx)) as [tx| |].
    2,3: bnorm; try_raise (Py ValueError); cbn [orb]; unfold Hd;
         cbn [existsb xpat_matches pyexc_eqb orb]; ev; reflexivity.
    unfold hexopt. destruct (coinbase_tx_get_hash tx) as [cbh|] eqn:Ecbh.
    2: bnorm; try_raise (Py ValueError); cbn [orb]; unfold Hd;
       cbn [existsb xpat_matches pyexc_eqb orb]; ev; reflexivity.
    bnorm. rewrite (mv_py_fromhex _ _ (fromhex_hex' _ (coinbase_hash_wf _ _ Ecbh))). bnorm.
    meta_tail Hmeta_lt Hd K Hchunk.
  - meta_tail Hmeta_lt Hd K Hchunk.
Qed.

(* _do_block_operation: the INIT exchange, then the loop over the blocks (induction on the blocks still to send,
   for any index reached and any junk in the loop state) with, on request, the brother-list exchange and the
   loop over the brothers (bro_loop_gen) *)
Lemma dbo_ok (blocks : list str) (brov : pv) (brothers : list (list str)) (w : world) :
  (adv = true -> brov = VList (map hexes brothers)) ->
  (S (length (script w)) <= fuel)%nat ->
  srcm_HSM2Dongle___do_block_operation fuel cm self opname (hexes blocks) brov cmdv ops errs resps cem w =
  mres bo_res (do_block_operation o (map fromhex blocks) (map (map fromhex) brothers) w).
Proof.
  intros Hbrov Hfuel. unfold srcm_HSM2Dongle___do_block_operation, do_block_operation, hexes.
  rewrite mv_py_len_list_nat, !map_length. bnorm. rewrite mv_to_bytes_be_4.
  destruct (to_bytes_be 4 (Z.of_nat (length blocks))) as [nb|]; [|reflexivity].
  destruct B_ops as [Binit [Bhmeta [Bhchunk [Bblm [Bbmeta Bbchunk]]]]].
  ev. rewrite (mv_py_bytes_single _ Binit). bnorm. cbn [app]. cbn [of_opt]. rewrite bind_ret_l. set_hk.
  eapply (try_stepP bo_res dev_exn) with (tbl := fun sw => lookup_err sw (bo_init_errs o) (bo_init_default o)).
  - eapply init_body. intros w'. ev. reflexivity.
  - intros sw w'. split; [unfold caught; cbn [orb existsb xpat_matches]; rewrite isa_er; reflexivity|].
    unfold Hd. ev. rewrite mv_in1. bnorm. cbn [py_truth]. destruct T_init as [-> ->]. cbn [lookup_err].
    destruct (mem_N sw [prot]); ev; reflexivity.
  - intros ex w' He. destruct ex; try exact I; unfold caught; cbn [orb existsb xpat_matches]; rewrite ?isa_er; reflexivity.
  - intros v a w1 HE HL1. destruct a as [[]|c]; [|subst v; reflexivity]. destruct HE as [r0 ->].
    unfold K. cbv beta iota. clear Hd K.
    bnorm. rewrite mv_enumerate_list. bnorm. rewrite mv_for_t_list. rewrite cmd16.
    assert (Ea : {adv = true} + {adv = false}) by (destruct adv; auto).
    destruct Ea as [Ea|Ea].
    + (* advance_blockchain *)
      rewrite (Hbrov Ea), Ea. gab Ea. ev.
      match goal with |- MV.pbind (MV.pfold_t _ _ ?b) ?k _ = _ => set (body := b); set (Kfin := k) end.
      assert (Hloop : forall (bls : list str) (n : nat) (a1 a2 a3 a4 a5 a6 a7 : pv) (w2 : world),
                 (S (length (script w2)) <= fuel)%nat ->
                 mbind (MV.pfold_t (enum_items n (map VStr bls)) (VList [a1; a2; a3; a4; a5; a6; a7]) body) Kfin w2 =
                 mres bo_res (block_loop o (map fromhex bls) (skipn n (map (map fromhex) brothers)) w2)).
      2: { apply (Hloop blocks 0%nat). lia. }
      clear HL1 r0 w1 nb Hfuel w.
      induction bls as [|hx bls IH]; intros n a1 a2 a3 a4 a5 a6 a7 w2 Hf2; [reflexivity|].
      cbn [map]. rewrite enum_items_cons. cbn [MV.pfold_t block_loop]. rewrite mbind_assoc'.
      unfold body at 1. cbv beta iota. bnorm. rewrite pbind_assoc_run.
      rewrite (mbind_step _ _ _ _ _ (sbh_ok false hx w2 (fun H => False_ind _ (Bool.diff_false_true H)) Hf2)).
      unfold bind at 1.
      destruct (send_block_header o false (fromhex hx) w2) as [[[resp|c]|e] w3] eqn:Es; [| |reflexivity].
      2: { cbn [sbh_res]. bnorm. cbn [py_truth negb]. bnorm. reflexivity. }
      pose proof (mono_send_block_header _ _ _ _ _ _ Es) as L3.
      cbn [sbh_res]. bnorm. cbn [py_truth negb]. bnorm. rewrite Ea. cbn [andb].
      change OFF_OPn with 2%nat.
      pose proof (idxM_eq resp 2 w3) as H2. destruct (idx resp 2) as [rop|] eqn:Erop.
      2: { rewrite (bind_exn_eq _ _ _ _ _ H2). reflexivity. }
      rewrite (bind_eq _ _ _ _ _ H2). bnorm. cbn [py_truth].
      destruct (rop =? bo_op_bro_list_meta o) eqn:Eblm.
      * (* the device asks for the brothers *)
        rewrite bind_assoc_run'.
        rewrite mv_getitem_list_pred, idx0_skipn, !nth_error_map.
        destruct (nth_error brothers n) as [bl|]; cbn [option_map of_opt]; [|reflexivity].
        rewrite bind_ret_l. bnorm. unfold hexes at 1. rewrite mv_py_len_list_nat, !map_length. bnorm.
        rewrite mbind_ptry_k, mv_to_bytes_be_1.
        destruct (T_bro Ea) as [Tb1 [Tb2 Tb3]].
        destruct (to_bytes_be 1 (Z.of_nat (length bl))) as [cnt|] eqn:Ecnt.
        2: { bnorm. try_raise (Py OverflowError). rewrite Tb3. reflexivity. }
        bnorm. try_ok. cbv beta iota. rewrite (mv_py_bytes_single _ Bblm). bnorm. cbn [app].
        rewrite mbind_ptry_k. rewrite bind_assoc_run'. set_hk.
        eapply (try_stepP bo_res dev_exn)
          with (tbl := fun sw => lookup_err sw (bo_brolist_errs o) (bo_brolist_default o)).
        -- eapply brolist_body. intros w'. reflexivity.
        -- intros sw w'. split; [unfold caught; cbn [orb existsb xpat_matches]; rewrite isa_er; reflexivity|].
           unfold Hd. bnorm. rewrite mv_in2. bnorm. cbn [py_truth]. rewrite Tb1, Tb2. cbn [lookup_err].
           destruct (mem_N sw [prot; btm]); reflexivity.
        -- intros ex w' He. destruct ex; try exact I; unfold caught; cbn [orb existsb xpat_matches];
             rewrite ?isa_er; reflexivity.
        -- intros v a w4 HE L4. destruct a as [r4|c]; subst v; [|reflexivity].
           unfold K. cbv beta iota. clear Hd K.
           unfold hexes at 1. rewrite mv_enumerate_list. bnorm. rewrite mv_for_t_list, pbind_assoc_run.
           assert (Hf4 : (S (length (script w4)) <= fuel)%nat) by lia.
           eapply (bro_loop_gen bo_res o fuel).
           ++ intros x last nn hx' w5 Hf5. cbv beta iota. bnorm.
              rewrite (pbind_step _ _ _ _ _ (sbh_ok true hx' w5 (fun _ => Ea) Hf5)).
              destruct (send_block_header o true (fromhex hx') w5) as [[[r|c]|e] w6]; [| |reflexivity];
                cbn [sbh_res]; bnorm; cbn [py_truth negb]; bnorm; reflexivity.
           ++ exact Hf4.
           ++ intros x' resp2 w5 L5. cbv beta iota.
              apply (tail_ok true); try reflexivity.
              rewrite tl_skipn. apply IH. lia.
           ++ intros c w5 L5. reflexivity.
      * rewrite bind_ret_l. cbv beta iota. rewrite (bind_eq _ _ _ _ _ H2).
        destruct (rop =? bo_op_partial o); [reflexivity|].
        destruct (rop =? bo_op_success o); [reflexivity|].
        rewrite tl_skipn. apply IH. lia.
    + (* update_ancestor *)
      rewrite Ea. ev.
      match goal with |- MV.pbind (MV.pfold_t _ _ ?b) ?k _ = _ => set (body := b); set (Kfin := k) end.
      assert (Hloop : forall (bls : list str) (n : nat) (a1 a2 a3 a4 a5 a6 a7 : pv) (w2 : world),
                 (S (length (script w2)) <= fuel)%nat ->
                 mbind (MV.pfold_t (enum_items n (map VStr bls)) (VList [a1; a2; a3; a4; a5; a6; a7]) body) Kfin w2 =
                 mres bo_res (block_loop o (map fromhex bls) (skipn n (map (map fromhex) brothers)) w2)).
      2: { apply (Hloop blocks 0%nat). lia. }
      clear HL1 r0 w1 nb Hfuel w.
      induction bls as [|hx bls IH]; intros n a1 a2 a3 a4 a5 a6 a7 w2 Hf2; [reflexivity|].
      cbn [map]. rewrite enum_items_cons. cbn [MV.pfold_t block_loop]. rewrite mbind_assoc'.
      unfold body at 1. cbv beta iota. bnorm. rewrite pbind_assoc_run.
      rewrite (mbind_step _ _ _ _ _ (sbh_ok false hx w2 (fun H => False_ind _ (Bool.diff_false_true H)) Hf2)).
      unfold bind at 1.
      destruct (send_block_header o false (fromhex hx) w2) as [[[resp|c]|e] w3] eqn:Es; [| |reflexivity].
      2: { cbn [sbh_res]. bnorm. cbn [py_truth negb]. bnorm. reflexivity. }
      pose proof (mono_send_block_header _ _ _ _ _ _ Es) as L3.
      cbn [sbh_res]. bnorm. cbn [py_truth negb]. bnorm. rewrite Ea. cbn [andb].
      change OFF_OPn with 2%nat.
      cbn [py_truth].
      pose proof (idxM_eq resp 2 w3) as H2. destruct (idx resp 2) as [rop|] eqn:Erop.
      2: { rewrite (bind_exn_eq _ _ _ _ _ H2). bnorm. reflexivity. }
      rewrite (bind_eq _ _ _ _ _ H2). rewrite bind_ret_l. cbv beta iota. rewrite (bind_eq _ _ _ _ _ H2).
      bnorm. cbn [py_truth].
      destruct (rop =? bo_op_success o); [reflexivity|].
      rewrite tl_skipn. apply IH. lia.
Qed.

End WithOp.

(* ---------- sorting the brothers ---------- *)

(* Side condition added to srcm_advance_blockchain_ok: the hash oracle yields bytes (every element < 256).  The
   Python sort key is bytes.fromhex(get_block_hash(bh)) - the hex text of the hash decoded again - while the model
   sorts on the hash itself; the two agree only on well-formed bytes.  Without it the statement is false: with
   keccak := fun _ => [256] the text hex [256] is not hexadecimal, the source returns (False, -9) before any
   exchange and the model goes on to talk to the device. *)
Definition keccak_wf : Prop := forall b : bytes, wf_bytes (keccak b).

Definition keyed (hx : str) : option (bytes * str) :=
  match get_block_hash keccak (fromhex hx) with Some h => Some (h, hx) | None => None end.

Definition sortstr (bl : list str) : option (list str) :=
  match all_some (map keyed bl) with Some kv => Some (sort_by_key kv) | None => None end.

Lemma get_block_hash_wf (raw : option bytes) (h : bytes) :
  keccak_wf -> get_block_hash keccak raw = Some h -> wf_bytes h.
Proof.
  intros Hk. unfold get_block_hash. destruct (remove_mm_fields raw true); [|discriminate].
  intros H. inversion H; subst. apply Hk.
Qed.

Lemma keys_of_ok (bl : list str) :
  block_oracles_ok -> keccak_wf ->
  MV.keys_of (map VStr bl) (fun v_bh => MV.pbind (lift (cm "get_block_hash" VNone [v_bh])) (fun t1_ => MV.py_fromhex t1_)) =
  match all_some (map keyed bl) with
  | Some kv => MV.POk (map_val VStr kv)
  | None => MV.PRaise ValueError
  end.
Proof.
  intros [_ [_ [Hbh _]]] Hk. induction bl as [|hx bl IH]; [reflexivity|].
  cbn [map MV.keys_of all_some]. rewrite Hbh. unfold keyed at 1.
  destruct (get_block_hash keccak (fromhex hx)) as [h|] eqn:Eh; cbn [hexopt].
  - rewrite lift_POk, pbind_POk, (mv_py_fromhex _ _ (fromhex_hex' _ (get_block_hash_wf _ _ Hk Eh))), pbind_POk.
    rewrite IH. destruct (all_some (map keyed bl)); reflexivity.
  - reflexivity.
Qed.

Lemma sorted_by_ok (bl : list str) :
  block_oracles_ok -> keccak_wf ->
  MV.py_sorted_by (fun v_bh => MV.pbind (lift (cm "get_block_hash" VNone [v_bh])) (fun t1_ => MV.py_fromhex t1_)) (hexes bl) =
  match sortstr bl with Some r => MV.POk (hexes r) | None => MV.PRaise ValueError end.
Proof.
  intros Hor Hk. unfold MV.py_sorted_by, hexes, sortstr. change (MV.py_iter (VList (map VStr bl))) with (MV.POk (map VStr bl)).
  rewrite pbind_POk, (keys_of_ok bl Hor Hk).
  destruct (all_some (map keyed bl)) as [kv|]; [|reflexivity].
  rewrite pbind_POk, sort_keyed_by, sort_by_key_map. reflexivity.
Qed.

Lemma sort_all_ok (brothers : list (list str)) :
  block_oracles_ok -> keccak_wf ->
  MV.py_list_map (fun v_brolist => MV.py_sorted_by (fun v_bh => MV.pbind (lift (cm "get_block_hash" VNone [v_bh]))
                                                                   (fun t1_ => MV.py_fromhex t1_)) v_brolist)
                 (VList (map hexes brothers)) =
  match all_some (map sortstr brothers) with
  | Some ss => MV.POk (VList (map hexes ss))
  | None => MV.PRaise ValueError
  end.
Proof.
  intros Hor Hk. unfold MV.py_list_map. change (MV.py_iter (VList (map hexes brothers))) with (MV.POk (map hexes brothers)).
  rewrite pbind_POk. unfold MV.pmap.
  assert (H : MV.pmap_list (map hexes brothers)
                (fun v_brolist => MV.py_sorted_by (fun v_bh => MV.pbind (lift (cm "get_block_hash" VNone [v_bh]))
                                                                  (fun t1_ => MV.py_fromhex t1_)) v_brolist) =
              match all_some (map sortstr brothers) with
              | Some ss => MV.POk (map hexes ss) | None => MV.PRaise ValueError end).
  { induction brothers as [|bl brothers IH]; [reflexivity|].
    cbn [map MV.pmap_list all_some]. rewrite (sorted_by_ok bl Hor Hk).
    destruct (sortstr bl) as [r|]; [|reflexivity].
    rewrite pbind_POk, IH. destruct (all_some (map sortstr brothers)); reflexivity. }
  rewrite H. destruct (all_some (map sortstr brothers)); reflexivity.
Qed.

Lemma sort_brothers_str (bl : list str) :
  sort_brothers keccak (map fromhex bl) =
  match sortstr bl with Some r => Some (map fromhex r) | None => None end.
Proof.
  unfold sort_brothers, sortstr.
  assert (H : all_some (map (fun b => match get_block_hash keccak b with Some h => Some (h, b) | None => None end)
                            (map fromhex bl)) =
              match all_some (map keyed bl) with Some kv => Some (map_val fromhex kv) | None => None end).
  { induction bl as [|hx bl IH]; [reflexivity|]. cbn [map all_some]. unfold keyed at 1.
    destruct (get_block_hash keccak (fromhex hx)); [|reflexivity].
    rewrite IH. destruct (all_some (map keyed bl)); reflexivity. }
  rewrite H. destruct (all_some (map keyed bl)) as [kv|]; [|reflexivity].
  rewrite sort_by_key_map. reflexivity.
Qed.

Lemma sort_all_str (brothers : list (list str)) :
  all_some (map (sort_brothers keccak) (map (map fromhex) brothers)) =
  match all_some (map sortstr brothers) with Some ss => Some (map (map fromhex) ss) | None => None end.
Proof.
  induction brothers as [|bl brothers IH]; [reflexivity|]. cbn [map all_some].
  rewrite sort_brothers_str. destruct (sortstr bl); [|reflexivity].
  rewrite IH. destruct (all_some (map sortstr brothers)); reflexivity.
Qed.

(* ---------- removing the merge-mining fields ---------- *)

Lemma remove_all_ok (blocks : list str) :
  block_oracles_ok ->
  MV.py_list_map (fun x_ => lift (cm "remove_mm_fields_if_present" VNone [x_])) (hexes blocks) =
  match all_some (map (fun hx => remove_mm_fields (fromhex hx) true) blocks) with
  | Some opt => MV.POk (hexes (map hex opt))
  | None => MV.PRaise ValueError
  end.
Proof.
  intros [_ [_ [_ Hrm]]]. unfold MV.py_list_map, hexes.
  change (MV.py_iter (VList (map VStr blocks))) with (MV.POk (map VStr blocks)).
  rewrite pbind_POk. unfold MV.pmap.
  assert (H : MV.pmap_list (map VStr blocks) (fun x_ => lift (cm "remove_mm_fields_if_present" VNone [x_])) =
              match all_some (map (fun hx => remove_mm_fields (fromhex hx) true) blocks) with
              | Some opt => MV.POk (map VStr (map hex opt)) | None => MV.PRaise ValueError end).
  { induction blocks as [|hx blocks IH]; [reflexivity|].
    cbn [map MV.pmap_list all_some]. rewrite Hrm. unfold hexopt.
    destruct (remove_mm_fields (fromhex hx) true) as [e|]; [|reflexivity].
    rewrite lift_POk, pbind_POk, IH.
    destruct (all_some (map (fun hx0 => remove_mm_fields (fromhex hx0) true) blocks)); reflexivity. }
  rewrite H. destruct (all_some _); reflexivity.
Qed.

Theorem srcm_advance_blockchain_ok :
  forall (fuel : nat) (self : pv) (blocks : list str) (brothers : list (list str)) (w : world),
  block_oracles_ok -> keccak_wf -> (S (length (script w)) <= fuel)%nat ->
  srcm_HSM2Dongle__advance_blockchain fuel cm self (hexes blocks) (VList (map hexes brothers)) w =
  mres bo_res (advance_blockchain keccak (map fromhex blocks) (map (map fromhex) brothers) w).
Proof.
  intros fuel self blocks brothers w Hor Hk Hfuel.
  unfold srcm_HSM2Dongle__advance_blockchain, advance_blockchain.
  rewrite !pbind_POk. cbv beta.
  rewrite (sort_all_ok brothers Hor Hk), sort_all_str.
  destruct (all_some (map sortstr brothers)) as [ss|].
  2: { try_raise (Py ValueError). reflexivity. }
  rewrite pbind_POk. try_ok. cbv beta iota.
  match goal with |- MV.pbind ?chain _ _ = _ =>
    replace chain with (MV.POk (intdict (bo_chunk_errors ADVANCE_OP))) by reflexivity end.
  rewrite pbind_POk.
  eapply (dbo_ok fuel self (VStr (s "advance")) ADVANCE_OP) with (prot := 27527) (btm := 27550)
           (emeta := (-3)%Z) (einit := (-1)%Z) (ebro := (-9)%Z);
    try exact Hor; try exact Hfuel; try reflexivity; try (intros _; reflexivity);
    try (split; reflexivity).
  - intros _. repeat split; reflexivity.
  - repeat split; reflexivity.
Qed.

Theorem srcm_update_ancestor_ok :
  forall (fuel : nat) (self : pv) (blocks : list str) (w : world),
  block_oracles_ok -> (S (length (script w)) <= fuel)%nat ->
  srcm_HSM2Dongle__update_ancestor fuel cm self (hexes blocks) w =
  mres bo_res (update_ancestor (map fromhex blocks) w).
Proof.
  intros fuel self blocks w Hor Hfuel.
  unfold srcm_HSM2Dongle__update_ancestor, update_ancestor.
  rewrite !pbind_POk. cbv beta.
  rewrite (remove_all_ok blocks Hor), map_map.
  destruct (all_some (map (fun hx => remove_mm_fields (fromhex hx) true) blocks)) as [opt|] eqn:Eopt.
  2: { try_raise (Py ValueError). reflexivity. }
  rewrite pbind_POk. try_ok. cbv beta iota.
  match goal with |- MV.pbind ?chain _ _ = _ =>
    replace chain with (MV.POk (intdict (bo_chunk_errors UPD_OP))) by reflexivity end.
  rewrite pbind_POk.
  assert (Hwf : Forall wf_bytes opt).
  { eapply all_some_Forall; [|exact Eopt]. intros hx e He. cbv beta in He. exact (remove_mm_fields_hex_wf _ _ _ He). }
  rewrite <- (map_fromhex_hex opt Hwf).
  change (@nil (list (option bytes))) with (map (map fromhex) []).
  eapply (dbo_ok fuel self (VStr (s "updancestor")) UPD_OP) with (prot := 27527) (btm := 0)
           (emeta := (-3)%Z) (einit := (-1)%Z) (ebro := 0%Z);
    try exact Hor; try exact Hfuel; try reflexivity; try (intros H; discriminate H);
    try (split; reflexivity).
  repeat split; reflexivity.
Qed.

End WithOracles.
