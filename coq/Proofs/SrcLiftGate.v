(* Property theorems about the model's handle_request carried over to the SOURCE: with
   srcm_handle_request_v5_ok the whole request path of the v5 manager's protocol layer, as translated from the
   Python text, is the model's on every request and world, so what is proved of the model holds of the translated
   source - stated here on the translated function itself. *)
From PowHsm Require Import Gen.Src Gen.SrcM Model.Dongle Model.LedgerProtocol.
From PowHsm Require Import Proofs.ValLemmas Proofs.SrcEquivBase Proofs.SrcEquivLedger Proofs.SrcEquivDongleM
  Proofs.SrcEquivProtoM Proofs.SrcEquivSignProtoM Proofs.SrcEquivBlockM Proofs.SrcEquivBlockProtoM Proofs.SrcEquivGateM.
From PowHsm Require Proofs.C03 Proofs.C04.

Section WithEnv.
Variable keccak : bytes -> bytes.
Variable kind : dongle_kind.
Variable init : pm pv.
Variable cm : string -> pv -> list pv -> pr pv.

Definition env_ok (fuel : nat) (w : world) : Prop :=
  init_ok kind init /\ tx_oracles_ok cm /\ path_oracle_ok cm /\ varint_oracle_ok cm /\
  block_oracles_ok keccak cm /\ keccak_wf keccak /\ fuel_ok kind fuel w.

Lemma src_is_model fuel self request w :
  env_ok fuel w ->
  srcm_HSM2ProtocolLedger____internal_handle_request fuel cm init self (of_json request) w =
  mres of_json (handle_request keccak kind V5 request w).
Proof.
  intros (Hi & Ht & Hp & Hv & Hb & Hk & Hf). apply srcm_handle_request_v5_ok; assumption.
Qed.

(* C04 of the translated source: every reply is a dictionary whose errorcode is a generic code or one the
   documentation lists for the very command the request names *)
Theorem src_handle_request_documented : forall fuel self request w v w',
  env_ok fuel w ->
  srcm_HSM2ProtocolLedger____internal_handle_request fuel cm init self (of_json request) w = (XOk v, w') ->
  exists kv c,
    v = of_json (JObj kv) /\ jget KEY_ERRORCODE kv = Some (JInt c) /\
    (In c DOC_GENERIC \/
     exists req cmd, C04.names_command request req cmd /\ In c (C04.doc_allowed cmd)).
Proof.
  intros fuel self request w v w' Henv H. rewrite (src_is_model fuel self request w Henv) in H.
  unfold mres in H. destruct (handle_request keccak kind V5 request w) as [[j|e] w1] eqn:E; cbn [fst snd] in H;
    [|discriminate H].
  inversion H; subst.
  destruct (C04.handle_request_documented keccak kind request w j w' E) as (kv & c & Hj & Hc & Hd).
  exists kv, c. subst j. repeat split; assumption.
Qed.

(* C04 / C11 of the translated source: a device error result reaches the server loop only out of the bring-up
   of a pending reconnection *)
Theorem src_error_result_only_from_reconnect : forall fuel self request w sw w',
  env_ok fuel w ->
  srcm_HSM2ProtocolLedger____internal_handle_request fuel cm init self (of_json request) w =
    (XRaise (ErrorResult sw), w') ->
  C04.reconnect_leaks kind w sw w'.
Proof.
  intros fuel self request w sw w' Henv H. rewrite (src_is_model fuel self request w Henv) in H.
  unfold mres in H. destruct (handle_request keccak kind V5 request w) as [[j|e] w1] eqn:E; cbn [fst snd] in H;
    [discriminate H|].
  inversion H; subst.
  exact (C04.handle_request_error_result_only_from_reconnect keccak kind V5 request w sw w' E).
Qed.

(* C03 of the translated source: the request path raises exactly when the accepted command's operation raises,
   and the same exception - a rejected request raises nothing and reaches no operation *)
Theorem src_raises_only_from_operation : forall fuel self request w e w',
  env_ok fuel w ->
  srcm_HSM2ProtocolLedger____internal_handle_request fuel cm init self (of_json request) w = (XRaise e, w') ->
  exists cmd req opname op, gate_request V5 request = GAccept cmd req /\
    assoc_str cmd (C03.dispatch_table V5) = Some opname /\
    run_operation keccak kind V5 opname req = Some op /\ op w = (Exn e, w').
Proof.
  intros fuel self request w e w' Henv H. rewrite (src_is_model fuel self request w Henv) in H.
  unfold mres in H. destruct (handle_request keccak kind V5 request w) as [[j|e1] w1] eqn:E; cbn [fst snd] in H;
    [discriminate H|].
  inversion H; subst.
  exact (C03.handle_request_raises_only_from_operation keccak kind V5 request w e w' E).
Qed.

End WithEnv.
