(* Proofs about Model/IntelHex.v: the hash input (concatenation of the parsed areas' data)
   does not depend on record sizes nor on the order in which areas are written. *)
From PowHsm Require Import Py.Base Model.Sha256 Model.IntelHex Proofs.BytesLemmas.
From Coq Require Import ZifyBool ZifyNat ZifyN Lia Permutation Sorted.
Ltac Zify.zify_post_hook ::= Z.to_euclidean_division_equations.
Open Scope N_scope.

Local Notation ins a S := (insert_area_sorted S a).

(* insert every element of L (last one first) into S *)
Definition insl (L S : list area) : list area :=
  fold_right (fun a acc => insert_area_sorted acc a) S L.

Lemma sort_by_start_insl L : sort_by_start L = insl L [].
Proof. reflexivity. Qed.

Definition aend (a : area) : N := astart a + nlen (adata a).
Definition nonempty (a : area) : Prop := adata a <> [].
(* the start of x is not inside [lo, hi) *)
Definition out (x : area) (lo hi : N) : Prop := astart x < lo \/ hi <= astart x.
Definition disj (a b : area) : Prop := aend a <= astart b \/ aend b <= astart a.
Definition sep (a b : area) : Prop :=
  out a (astart b) (aend b) /\ out b (astart a) (aend a).

Lemma nlen_pos {A} (l : list A) : l <> [] -> 0 < nlen l.
Proof. destruct l; [congruence|]. intros _. unfold nlen. simpl. lia. Qed.

Lemma nonempty_end a : nonempty a -> astart a < aend a.
Proof. intros H. apply nlen_pos in H. unfold aend. lia. Qed.

Lemma disj_sep a b : nonempty a -> nonempty b -> disj a b -> sep a b.
Proof.
  intros Ha Hb D. apply nonempty_end in Ha. apply nonempty_end in Hb.
  unfold sep, out, disj in *. lia.
Qed.

(* ---------- insertion: membership, commutation, merge ---------- *)

Ltac case_ltb :=
  repeat (simpl; match goal with
          | |- context[?u <? ?v] => let E := fresh "E" in destruct (u <? v) eqn:E
          end).

Lemma In_ins x a S : In x (ins a S) <-> x = a \/ In x S.
Proof.
  induction S as [|y S IH]; simpl.
  - intuition congruence.
  - destruct (astart a <? astart y); simpl; rewrite ?IH; intuition congruence.
Qed.

Lemma In_insl x L S : In x (insl L S) <-> In x L \/ In x S.
Proof.
  induction L as [|a L IH]; simpl.
  - tauto.
  - rewrite In_ins, IH. intuition congruence.
Qed.

Lemma ins_comm a b S : astart a <> astart b -> ins a (ins b S) = ins b (ins a S).
Proof.
  intros N. induction S as [|x S IH].
  - case_ltb; try lia; reflexivity.
  - case_ltb; try lia; try reflexivity. now rewrite IH.
Qed.

Lemma insl_comm p L S :
  (forall x, In x L -> astart x <> astart p) -> insl L (ins p S) = ins p (insl L S).
Proof.
  induction L as [|a L IH]; simpl; intros H; [reflexivity|].
  rewrite IH by auto. apply ins_comm. auto.
Qed.

Lemma insl_app L1 L2 S : insl (L1 ++ L2) S = insl L1 (insl L2 S).
Proof. unfold insl. apply fold_right_app. Qed.

Lemma cat_data_cons a l : cat_data (a :: l) = adata a ++ cat_data l.
Proof. reflexivity. Qed.

(* two contiguous pieces inserted separately concatenate to the same bytes as the merged piece,
   provided no other start lies in between *)
Lemma ins_merge a b S :
  astart a < astart b ->
  (forall x, In x S -> astart x < astart a \/ astart b < astart x) ->
  cat_data (ins a (ins b S)) = cat_data (ins (mkArea (astart a) (adata a ++ adata b)) S).
Proof.
  intros Hab. induction S as [|x S IH]; intros H.
  - case_ltb; try lia. unfold cat_data. simpl. now rewrite <- ?app_assoc.
  - assert (Hx := H x (or_introl eq_refl)).
    case_ltb; try lia.
    + rewrite !cat_data_cons. simpl. now rewrite <- ?app_assoc.
    + rewrite !cat_data_cons. f_equal. apply IH. intros; apply H; now right.
Qed.

(* ---------- single parser steps on writer-produced records ---------- *)

Definition pending (z f : N) (d : bytes) (A : list area) (b : N) : pstate :=
  mkP (Some z) (Some f) (Some (f + nlen d)) d A b.
Definition piece (z f : N) (d : bytes) : area := mkArea (z * 65536 + f) d.

Lemma firstn_nlen_app (d t : bytes) : firstn (N.to_nat (nlen d)) (d ++ t) = d.
Proof. unfold nlen. rewrite Nat2N.id. apply firstn_app_exact. Qed.

Lemma shiftl16 z : N.shiftl z 16 = z * 65536.
Proof. now rewrite N.shiftl_mul_pow2. Qed.

Lemma zone_bytes z : N.shiftl (z / 256) 8 + z mod 256 = z.
Proof. rewrite N.shiftl_mul_pow2. change (2 ^ 8) with 256. lia. Qed.

Lemma step_zone_idle zo A b z :
  step (mkP zo None None [] A b) (rec_zone z) = ok (mkP (Some z) None None [] A b).
Proof. unfold step. cbn. now rewrite zone_bytes. Qed.

Lemma step_zone_pending z0 f d A b z :
  d <> [] ->
  step (pending z0 f d A b) (rec_zone z) = ok (mkP (Some z) None None [] (ins (piece z0 f d) A) b).
Proof.
  intros Hd. unfold step. cbn. destruct d; [congruence|]. cbn.
  now rewrite zone_bytes, shiftl16.
Qed.

Lemma step_data_fresh z A b off d :
  step (mkP (Some z) None None [] A b) (rec_data off d) = ok (pending z off d A b).
Proof.
  unfold step. cbn. rewrite N.eqb_refl. cbn. now rewrite firstn_nlen_app.
Qed.

Lemma step_data_cont z f d A b d' :
  step (pending z f d A b) (rec_data (f + nlen d) d') = ok (pending z f (d ++ d') A b).
Proof.
  unfold step. cbn. rewrite N.eqb_refl. cbn. rewrite firstn_nlen_app.
  unfold pending, ok. now rewrite nlen_app, N.add_assoc.
Qed.

Lemma step_data_gap z f d A b off d' :
  off <> f + nlen d ->
  step (pending z f d A b) (rec_data off d') = ok (pending z off d' (ins (piece z f d) A) b).
Proof.
  intros H. unfold step. cbn. destruct (off =? f + nlen d) eqn:E; [lia|]. cbn.
  now rewrite firstn_nlen_app, shiftl16.
Qed.

Lemma run_eof_pending z f d A b :
  d <> [] ->
  run (pending z f d A b) [rec_eof] = ok (mkP None None None [] (ins (piece z f d) A) b).
Proof.
  intros Hd. destruct d; [congruence|]. cbn. now rewrite shiftl16.
Qed.

(* ---------- the parser on a whole stream of written chunks ---------- *)

Lemma emit_chunks_cons zone c r :
  emit_chunks zone (c :: r) =
  (if match zone with Some z0 => z0 =? astart c / 65536 | None => false end
   then [] else [rec_zone (astart c / 65536)])
  ++ rec_data (astart c mod 65536) (adata c) :: emit_chunks (Some (astart c / 65536)) r.
Proof. reflexivity. Qed.

Lemma run_cons st r rest : run st (r :: rest) = bind (step st r) (fun st' => run st' rest).
Proof. reflexivity. Qed.

Lemma piece_divmod c : piece (astart c / 65536) (astart c mod 65536) (adata c) = c.
Proof. destruct c as [s0 d0]. unfold piece. simpl. f_equal. lia. Qed.

Lemma run_pending R : forall z f d A b,
  d <> [] ->
  Forall nonempty R -> ForallOrdPairs sep R ->
  (forall x, In x (R ++ A) -> out x (z * 65536 + f) (z * 65536 + f + nlen d)) ->
  (forall c x, In c R -> In x (piece z f d :: A) -> out x (astart c) (aend c)) ->
  exists st', run (pending z f d A b) (emit_chunks (Some z) R ++ [rec_eof]) = ok st'
              /\ cat_data (p_areas st') = cat_data (insl (piece z f d :: R) A).
Proof.
  induction R as [|c R IH]; intros z f d A b Hd Hne Hsep H3 H4.
  - simpl app. rewrite run_eof_pending by assumption. eexists; split; [reflexivity|]. reflexivity.
  - inversion Hne as [|? ? Hc HneR]; subst. inversion Hsep as [|? ? HcR HsepR]; subst.
    rewrite Forall_forall in HcR.
    assert (Hcpos := nonempty_end _ Hc).
    assert (Hdpos := nlen_pos _ Hd).
    (* the state reached when the pending piece is flushed and c starts a new one *)
    assert (FL : exists st',
      run (pending (astart c / 65536) (astart c mod 65536) (adata c) (ins (piece z f d) A) b)
          (emit_chunks (Some (astart c / 65536)) R ++ [rec_eof]) = ok st'
      /\ cat_data (p_areas st') = cat_data (insl (piece z f d :: c :: R) A)).
    { destruct (IH (astart c / 65536) (astart c mod 65536) (adata c) (ins (piece z f d) A) b)
        as [st' [E1 E2]]; auto.
      - intros x Hx.
        replace (astart c / 65536 * 65536 + astart c mod 65536) with (astart c) by lia.
        change (astart c + nlen (adata c)) with (aend c).
        apply in_app_or in Hx. destruct Hx as [Hx|Hx].
        + apply (proj2 (HcR x Hx)).
        + apply In_ins in Hx. apply (H4 c x); simpl; intuition.
      - intros c' x Hc' Hx. rewrite piece_divmod in Hx. simpl in Hx.
        destruct Hx as [Hx|Hx].
        + subst x. apply (proj1 (HcR c' Hc')).
        + apply In_ins in Hx. apply (H4 c' x); simpl; intuition.
      - exists st'. split; [exact E1|]. rewrite E2. rewrite piece_divmod.
        f_equal. change (insl (c :: R) (ins (piece z f d) A) = ins (piece z f d) (insl (c :: R) A)).
        apply insl_comm. intros x Hx.
        assert (O := H3 x (in_or_app _ _ _ (or_introl Hx))).
        unfold out, piece in *. simpl. lia. }
    rewrite emit_chunks_cons.
    destruct (z =? astart c / 65536) eqn:Ez.
    + simpl app. rewrite run_cons.
      destruct (N.eq_dec (astart c mod 65536) (f + nlen d)) as [Eo|Eo].
      * (* contiguous: the pending piece grows *)
        rewrite Eo, step_data_cont. cbn [bind ok].
        assert (Ec : astart c = z * 65536 + f + nlen d) by lia.
        destruct (IH z f (d ++ adata c) A b) as [st' [E1 E2]]; auto.
        -- destruct d; simpl; congruence.
        -- intros x Hx. rewrite nlen_app.
           assert (O1 : out x (z * 65536 + f) (z * 65536 + f + nlen d)).
           { apply H3. simpl. apply in_app_or in Hx. right. apply in_or_app. exact Hx. }
           assert (O2 : out x (astart c) (aend c)).
           { apply in_app_or in Hx. destruct Hx as [Hx|Hx].
             - apply (proj2 (HcR x Hx)).
             - apply (H4 c x); simpl; auto. }
           unfold out, aend in *. lia.
        -- intros c' x Hc' Hx. simpl in Hx. destruct Hx as [Hx|Hx].
           ++ subst x. assert (O := H4 c' (piece z f d) (or_intror Hc') (or_introl eq_refl)).
              unfold out, piece in *. simpl in *. exact O.
           ++ apply (H4 c' x); simpl; auto.
        -- assert (Ez' : z = astart c / 65536) by lia. rewrite <- Ez'.
           exists st'. split; [exact E1|]. rewrite E2.
           change (cat_data (ins (piece z f (d ++ adata c)) (insl R A))
                   = cat_data (ins (piece z f d) (ins c (insl R A)))).
           symmetry.
           change (piece z f (d ++ adata c))
             with (mkArea (astart (piece z f d)) (adata (piece z f d) ++ adata c)).
           apply ins_merge.
           ++ unfold piece. simpl. lia.
           ++ intros x Hx. apply In_insl in Hx.
              assert (O1 : out x (z * 65536 + f) (z * 65536 + f + nlen d)).
              { apply H3. apply in_or_app. simpl. tauto. }
              assert (O2 : out x (astart c) (aend c)).
              { destruct Hx as [Hx|Hx]; [apply (proj2 (HcR x Hx))|apply (H4 c x); simpl; auto]. }
              unfold out, piece, aend in *. simpl. lia.
      * rewrite step_data_gap by assumption. cbn [bind ok].
        assert (Ez' : z = astart c / 65536) by lia. revert FL. rewrite <- Ez'. exact (fun FL => FL).
    + cbn [app]. rewrite run_cons, step_zone_pending by assumption. cbn [bind ok].
      rewrite run_cons, step_data_fresh. cbn [bind ok]. exact FL.
Qed.

(* Any stream of non-empty, pairwise separated chunks, written in any order: the parsed areas,
   concatenated, are the chunks sorted by start, concatenated. *)
Theorem parse_emit_chunks C :
  Forall nonempty C -> ForallOrdPairs sep C ->
  exists areas, parse_records (emit_chunks None C ++ [rec_eof]) = ok areas
                /\ cat_data areas = cat_data (sort_by_start C).
Proof.
  intros Hne Hsep. destruct C as [|c R].
  - exists []. split; reflexivity.
  - inversion Hne as [|? ? Hc HneR]; subst. inversion Hsep as [|? ? HcR HsepR]; subst.
    rewrite Forall_forall in HcR.
    destruct (run_pending R (astart c / 65536) (astart c mod 65536) (adata c) [] 0)
      as [st' [E1 E2]]; auto.
    + intros x Hx. rewrite app_nil_r in Hx.
      replace (astart c / 65536 * 65536 + astart c mod 65536) with (astart c) by lia.
      apply (proj2 (HcR x Hx)).
    + intros c' x Hc' Hx. rewrite piece_divmod in Hx. simpl in Hx.
      destruct Hx as [Hx|[]]. subst x. apply (proj1 (HcR c' Hc')).
    + exists (p_areas st'). split.
      * unfold parse_records. rewrite emit_chunks_cons. cbn [app].
        change p_init with (mkP None None None [] [] 0).
        rewrite run_cons, step_zone_idle. cbn [bind ok].
        rewrite run_cons, step_data_fresh. cbn [bind ok].
        rewrite E1. reflexivity.
      * rewrite E2, piece_divmod. reflexivity.
Qed.

(* ---------- cutting an area into records ---------- *)

(* cs is a partition of the area (s, d) into consecutive non-empty pieces *)
Inductive contig : N -> bytes -> list area -> Prop :=
| contig_nil s : contig s [] []
| contig_cons s d1 d2 cs :
    d1 <> [] -> contig (s + nlen d1) d2 cs -> contig s (d1 ++ d2) (mkArea s d1 :: cs).

Definition sizes_ok (chunking : list nat) : Prop := Forall (fun n => 1 <= n)%nat chunking.

Lemma chunk_size_pos chunking i : sizes_ok chunking -> (1 <= chunk_size chunking i)%nat.
Proof.
  intros H. unfold chunk_size.
  destruct (nth_in_or_default (i mod length chunking) chunking 1%nat) as [Hin|E].
  - unfold sizes_ok in H. rewrite Forall_forall in H. now apply H.
  - rewrite E. lia.
Qed.

Lemma split_contig chunking :
  sizes_ok chunking ->
  forall fuel i s d, (length d <= fuel)%nat -> contig s d (split_area fuel chunking i s d).
Proof.
  intros Hs. induction fuel as [|f IH]; intros i s d Hl.
  - destruct d; [constructor|simpl in Hl; lia].
  - destruct d as [|x d']; [constructor|].
    cbn [split_area]. set (d := x :: d') in *.
    assert (Hn := chunk_size_pos chunking i Hs).
    set (n := chunk_size chunking i) in *.
    rewrite <- (firstn_skipn n d) at 1.
    apply contig_cons.
    + destruct n; [lia|]. unfold d. simpl. congruence.
    + apply IH. rewrite skipn_length. change (length d) with (S (length d')) in *. lia.
Qed.

Lemma contig_starts s d cs :
  contig s d cs -> forall x, In x cs -> s <= astart x /\ aend x <= s + nlen d /\ nonempty x.
Proof.
  induction 1 as [|s d1 d2 cs Hd1 Hc IH]; intros x Hx; [destruct Hx|].
  rewrite nlen_app. apply nlen_pos in Hd1 as Hp. destruct Hx as [Hx|Hx].
  - subst x. unfold aend, nonempty. simpl. repeat split; try lia. assumption.
  - destruct (IH x Hx) as [I1 [I2 I3]]. repeat split; try lia. assumption.
Qed.

Lemma contig_sep s d cs : contig s d cs -> ForallOrdPairs sep cs.
Proof.
  induction 1 as [|s d1 d2 cs Hd1 Hc IH]; constructor; [|assumption].
  apply Forall_forall. intros x Hx.
  destruct (contig_starts _ _ _ Hc x Hx) as [I1 [I2 I3]].
  apply nonempty_end in I3. apply nlen_pos in Hd1.
  unfold sep, out, aend in *. simpl. lia.
Qed.

Lemma insl_contig s' d cs :
  contig s' d cs ->
  forall s pre S, s' = s + nlen pre -> pre <> [] ->
    (forall x, In x S -> out x s (s + nlen pre + nlen d)) ->
    cat_data (insl (mkArea s pre :: cs) S) = cat_data (ins (mkArea s (pre ++ d)) S).
Proof.
  induction 1 as [s'|s' d1 d2 cs Hd1 Hc IH]; intros s pre S Es Hpre HS.
  - now rewrite app_nil_r.
  - rewrite app_assoc, <- (IH s (pre ++ d1) S).
    + change (cat_data (ins (mkArea s pre) (ins (mkArea s' d1) (insl cs S)))
              = cat_data (ins (mkArea s (pre ++ d1)) (insl cs S))).
      change (mkArea s (pre ++ d1))
        with (mkArea (astart (mkArea s pre)) (adata (mkArea s pre) ++ adata (mkArea s' d1))).
      apply ins_merge.
      * apply nlen_pos in Hpre. simpl. lia.
      * intros x Hx. apply In_insl in Hx. simpl. apply nlen_pos in Hd1. destruct Hx as [Hx|Hx].
        -- destruct (contig_starts _ _ _ Hc x Hx) as [I1 _]. lia.
        -- apply HS in Hx. rewrite nlen_app in Hx. unfold out in Hx. lia.
    + rewrite nlen_app. lia.
    + destruct pre; simpl; congruence.
    + intros x Hx. apply HS in Hx. rewrite !nlen_app in *. unfold out in *. lia.
Qed.

(* (i) a single area, written with any record sizes, contributes exactly its own bytes *)
Lemma insl_area s d cs S :
  contig s d cs -> d <> [] ->
  (forall x, In x S -> out x s (s + nlen d)) ->
  cat_data (insl cs S) = cat_data (ins (mkArea s d) S).
Proof.
  intros Hc Hd HS. inversion Hc as [|s0 d1 d2 cs' Hd1 Hc']; subst; [congruence|].
  apply (insl_contig _ _ _ Hc'); auto.
  intros x Hx. apply HS in Hx. rewrite nlen_app, N.add_assoc in Hx. exact Hx.
Qed.

(* ---------- several areas ---------- *)

Lemma FOP_app {A} (R : A -> A -> Prop) l1 l2 :
  ForallOrdPairs R l1 -> ForallOrdPairs R l2 ->
  (forall a b, In a l1 -> In b l2 -> R a b) -> ForallOrdPairs R (l1 ++ l2).
Proof.
  induction 1 as [|a l1 Ha H1 IH]; intros H2 Hx; simpl; [assumption|].
  constructor.
  - apply Forall_app. split; [assumption|]. apply Forall_forall. intros b Hb.
    apply Hx; simpl; auto.
  - apply IH; [assumption|]. intros; apply Hx; simpl; auto.
Qed.

Lemma disj_out a b : nonempty a -> disj a b -> out a (astart b) (aend b).
Proof. intros Ha D. apply nonempty_end in Ha. unfold disj, out in *. lia. Qed.

Lemma disj_sym a b : disj a b -> disj b a.
Proof. unfold disj. tauto. Qed.

Section Chunks.
Variable chunking : list nat.
Hypothesis Hs : sizes_ok chunking.

Lemma split_area_contig i a :
  contig (astart a) (adata a) (split_area (length (adata a)) chunking i (astart a) (adata a)).
Proof. apply split_contig; auto. Qed.

Lemma In_chunks_of areas : forall i x,
  In x (chunks_of chunking i areas) ->
  exists a, In a areas /\ astart a <= astart x /\ aend x <= aend a /\ nonempty x.
Proof.
  induction areas as [|a rest IH]; intros i x Hx; [destruct Hx|].
  cbn [chunks_of] in Hx. apply in_app_or in Hx. destruct Hx as [Hx|Hx].
  - exists a. split; [now left|].
    apply (contig_starts _ _ _ (split_area_contig i a)) in Hx. exact Hx.
  - apply IH in Hx. destruct Hx as [a' [H1 H2]]. exists a'. split; [now right|assumption].
Qed.

(* (ii) cutting areas into records, whatever the sizes (and wherever 64 KiB boundaries fall),
   does not change the bytes in address order *)
Lemma chunks_insl areas : forall i S,
  Forall nonempty areas -> ForallOrdPairs disj areas ->
  (forall x a, In x S -> In a areas -> out x (astart a) (aend a)) ->
  cat_data (insl (chunks_of chunking i areas) S) = cat_data (insl areas S).
Proof.
  induction areas as [|a rest IH]; intros i S Hne Hd HS; [reflexivity|].
  inversion Hne as [|? ? Ha HneR]; subst. inversion Hd as [|? ? HaR HdR]; subst.
  rewrite Forall_forall in HaR, HneR.
  assert (Hapos := nonempty_end _ Ha).
  cbn [chunks_of].
  set (cs := split_area (length (adata a)) chunking i (astart a) (adata a)).
  set (C := chunks_of chunking (i + length cs) rest).
  assert (HC : forall x, In x C -> out x (astart a) (aend a)).
  { intros x Hx. apply In_chunks_of in Hx. destruct Hx as [a' [H1 [H2 [H3 H4]]]].
    assert (D := HaR a' H1). apply nonempty_end in H4. unfold disj, out in *. lia. }
  rewrite insl_app.
  rewrite (insl_area (astart a) (adata a) cs); [|apply split_area_contig|exact Ha|].
  2:{ intros x Hx. apply In_insl in Hx. destruct Hx as [Hx|Hx]; [now apply HC|].
      apply HS; simpl; auto. }
  replace (mkArea (astart a) (adata a)) with a by (now destruct a).
  rewrite <- insl_comm.
  2:{ intros x Hx. apply HC in Hx. unfold out in Hx. lia. }
  unfold C. rewrite IH; auto.
  - rewrite insl_comm; [reflexivity|].
    intros x Hx. assert (D := HaR x Hx). assert (P := nonempty_end _ (HneR x Hx)).
    unfold disj in D. lia.
  - apply Forall_forall. assumption.
  - intros x a' Hx Ha'. apply In_ins in Hx. destruct Hx as [Hx|Hx].
    + subst x. apply disj_out; auto.
    + apply HS; simpl; auto.
Qed.

Lemma chunks_wf areas : forall i,
  Forall nonempty areas -> ForallOrdPairs disj areas ->
  Forall nonempty (chunks_of chunking i areas) /\ ForallOrdPairs sep (chunks_of chunking i areas).
Proof.
  induction areas as [|a rest IH]; intros i Hne Hd; [split; constructor|].
  inversion Hne as [|? ? Ha HneR]; subst. inversion Hd as [|? ? HaR HdR]; subst.
  rewrite Forall_forall in HaR.
  cbn [chunks_of].
  set (cs := split_area (length (adata a)) chunking i (astart a) (adata a)).
  destruct (IH (i + length cs)%nat HneR HdR) as [I1 I2].
  assert (Hcs := contig_starts _ _ _ (split_area_contig i a)). fold cs in Hcs.
  split.
  - apply Forall_app. split; [|assumption]. apply Forall_forall. intros x Hx. now apply Hcs.
  - apply FOP_app; [apply (contig_sep _ _ _ (split_area_contig i a))|assumption|].
    intros x y Hx Hy. apply Hcs in Hx. destruct Hx as [X1 [X2 X3]].
    apply In_chunks_of in Hy. destruct Hy as [a' [H1 [H2 [H3 H4]]]].
    assert (D := HaR a' H1). apply nonempty_end in X3. apply nonempty_end in H4.
    fold (aend a) in X2. unfold sep, out, disj in *. lia.
Qed.

End Chunks.

(* ---------- main theorem ---------- *)

(* Areas non-empty and pairwise non-overlapping (adjacent is fine), listed in ANY order; record
   sizes arbitrary >= 1 (cycled through [chunking], position carried from one area to the next).
   Then parsing what the writer wrote succeeds and the hash input is the areas' data in
   ascending address order. *)
Theorem app_data_emit areas chunking :
  Forall nonempty areas -> ForallOrdPairs disj areas -> sizes_ok chunking ->
  app_data (emit areas chunking) = ok (cat_data (sort_by_start areas)).
Proof.
  intros Hne Hd Hs.
  destruct (chunks_wf chunking Hs areas 0%nat Hne Hd) as [W1 W2].
  destruct (parse_emit_chunks _ W1 W2) as [A [E1 E2]].
  unfold app_data, emit. rewrite E1. cbn [bind ok]. f_equal. rewrite E2.
  rewrite !sort_by_start_insl. apply chunks_insl; auto.
  intros x a [].
Qed.

Corollary compute_app_hash_emit areas chunking :
  Forall nonempty areas -> ForallOrdPairs disj areas -> sizes_ok chunking ->
  compute_app_hash (emit areas chunking) = ok (sha256 (cat_data (sort_by_start areas))).
Proof.
  intros. unfold compute_app_hash. now rewrite app_data_emit.
Qed.

(* ---------- (iii) insertAreaSorted is an insertion sort ---------- *)

Definition le_start (a b : area) : Prop := astart a <= astart b.
Definition lt_start (a b : area) : Prop := astart a < astart b.

Lemma ins_perm a S : Permutation (ins a S) (a :: S).
Proof.
  induction S as [|x S IH]; simpl; [reflexivity|].
  destruct (astart a <? astart x); [reflexivity|].
  rewrite IH. apply perm_swap.
Qed.

Lemma ins_sorted a S : StronglySorted le_start S -> StronglySorted le_start (ins a S).
Proof.
  induction 1 as [|x S HS IH Hx]; simpl.
  - repeat constructor.
  - destruct (astart a <? astart x) eqn:E.
    + constructor; [constructor; assumption|].
      constructor; [unfold le_start; lia|].
      eapply Forall_impl; [|exact Hx]. unfold le_start. intros; lia.
    + constructor; [assumption|]. apply Forall_forall. intros y Hy.
      apply In_ins in Hy. destruct Hy as [Hy|Hy].
      * subst y. unfold le_start. lia.
      * rewrite Forall_forall in Hx. now apply Hx.
Qed.

Lemma sort_by_start_perm L : Permutation (sort_by_start L) L.
Proof.
  induction L as [|a L IH]; simpl; [reflexivity|].
  change (Permutation (ins a (sort_by_start L)) (a :: L)). rewrite ins_perm. now constructor.
Qed.

Lemma sort_by_start_sorted L : StronglySorted le_start (sort_by_start L).
Proof.
  induction L as [|a L IH]; simpl; [constructor|]. now apply ins_sorted.
Qed.

(* with distinct starts the result does not depend on the order of insertion *)
Lemma insl_perm L L' S :
  Permutation L L' -> NoDup (map astart L) -> insl L S = insl L' S.
Proof.
  induction 1 as [|x l l' HP IH|x y l|l l' l'' H1 IH1 H2 IH2]; intros ND.
  - reflexivity.
  - simpl. inversion ND; subst. now rewrite IH.
  - simpl. apply ins_comm. simpl in ND. inversion ND as [|? ? N1 _]; subst.
    simpl in N1. intros E. apply N1. now left.
  - rewrite IH1 by assumption. apply IH2.
    eapply Permutation_NoDup; [|exact ND]. now apply Permutation_map.
Qed.

Lemma sort_sorted_id S : StronglySorted lt_start S -> sort_by_start S = S.
Proof.
  induction 1 as [|a S HS IH Ha]; [reflexivity|].
  change (ins a (sort_by_start S) = a :: S). rewrite IH.
  destruct S as [|x S']; [reflexivity|]. simpl.
  inversion Ha; subst. unfold lt_start in *.
  destruct (astart a <? astart x) eqn:E; [reflexivity|lia].
Qed.

(* for EVERY input, whatever the parser returns is sorted by start address *)
Lemma add_area_sorted st a :
  add_area st = inr a -> StronglySorted le_start (p_areas st) -> StronglySorted le_start a.
Proof.
  unfold add_area. destruct (p_zone st), (p_first st); try discriminate.
  intros E; inversion E; subst. apply ins_sorted.
Qed.

Lemma flush_reset_sorted st st' :
  flush_reset st = inr st' -> StronglySorted le_start (p_areas st) ->
  StronglySorted le_start (p_areas st').
Proof.
  unfold flush_reset. destruct (p_data st).
  - intros E; inversion E; subst; auto.
  - destruct (add_area st) eqn:A; simpl; try discriminate.
    intros E; inversion E; subst; simpl. eapply add_area_sorted; eauto.
Qed.

Lemma step_sorted st r st' :
  step st r = inr st' -> StronglySorted le_start (p_areas st) ->
  StronglySorted le_start (p_areas st').
Proof.
  unfold step. intros E HS.
  repeat match type of E with
         | (if ?c then _ else _) = _ => match type of c with bool => destruct c end
         end.
  - destruct (p_zone st) eqn:Z; try discriminate. cbv zeta in E.
    match type of E with context[add_area ?s] => set (st1 := s) in * end.
    assert (H1 : StronglySorted le_start (p_areas st1))
      by (unfold st1; destruct (p_first st); simpl; assumption).
    clearbody st1.
    match type of E with context[if ?c then _ else _] => destruct c end.
    + destruct (add_area st1) eqn:A; simpl in E; try discriminate.
      apply add_area_sorted in A; auto.
      inversion E; subst; simpl; assumption.
    + simpl in E. destruct (p_cur st1); try discriminate.
      inversion E; subst; simpl; assumption.
  - eapply flush_reset_sorted; eauto.
  - discriminate.
  - discriminate.
  - destruct (flush_reset st) eqn:F; simpl in E; try discriminate.
    apply flush_reset_sorted in F; auto.
    destruct (tail_idx r 0); simpl in E; try discriminate.
    destruct (tail_idx r 1); simpl in E; try discriminate.
    inversion E; subst; assumption.
  - destruct (tail_idx r 0); simpl in E; try discriminate.
    destruct (tail_idx r 1); simpl in E; try discriminate.
    destruct (tail_idx r 2); simpl in E; try discriminate.
    destruct (tail_idx r 3); simpl in E; try discriminate.
    inversion E; subst; assumption.
  - inversion E; subst; assumption.
Qed.

Theorem parse_records_sorted recs a :
  parse_records recs = inr a -> StronglySorted le_start a.
Proof.
  unfold parse_records.
  assert (G : forall st st', run st recs = inr st' ->
              StronglySorted le_start (p_areas st) -> StronglySorted le_start (p_areas st')).
  { induction recs as [|r rest IH]; intros st st' E HS.
    - eapply flush_reset_sorted; eauto.
    - simpl in E. destruct (step st r) eqn:S; simpl in E; try discriminate.
      eapply IH; [exact E|]. eapply step_sorted; eauto. }
  destruct (run p_init recs) eqn:R; simpl; try discriminate.
  intros E; inversion E; subst. eapply G; [exact R|]. constructor.
Qed.

(* ---------- the property in its "image" form ---------- *)

Lemma FOP_perm {A} (R : A -> A -> Prop) :
  (forall a b, R a b -> R b a) ->
  forall l l', Permutation l l' -> ForallOrdPairs R l -> ForallOrdPairs R l'.
Proof.
  intros Hsym. induction 1 as [|x l l' HP IH|x y l|l l' l'' H1 IH1 H2 IH2]; intros H.
  - assumption.
  - inversion H; subst. constructor; [|auto]. eapply Permutation_Forall; eauto.
  - inversion H as [|? ? Hy Hr]; subst. inversion Hr as [|? ? Hx Hl]; subst.
    inversion Hy; subst. repeat constructor; auto.
  - auto.
Qed.

(* an image: non-empty areas listed by increasing address, not overlapping (touching allowed) *)
Definition image (S : list area) : Prop :=
  Forall nonempty S /\ StronglySorted (fun a b => aend a <= astart b) S.

Lemma image_disj S : image S -> ForallOrdPairs disj S.
Proof.
  intros [_ H]. induction H; constructor; auto.
  eapply Forall_impl; [|eassumption]. unfold disj. intros; lia.
Qed.

Lemma image_lt S : image S -> StronglySorted lt_start S.
Proof.
  intros [Hne H]. induction H as [|a S HS IH Ha]; constructor.
  - inversion Hne; auto.
  - inversion Hne as [|? ? Hane _]; subst. apply nonempty_end in Hane.
    eapply Forall_impl; [|exact Ha]. unfold lt_start. intros; lia.
Qed.

Lemma lt_sorted_nodup S : StronglySorted lt_start S -> NoDup (map astart S).
Proof.
  induction 1 as [|a S HS IH Ha]; simpl; constructor; [|assumption].
  intros Hin. apply in_map_iff in Hin. destruct Hin as [b [E Hb]].
  rewrite Forall_forall in Ha. apply Ha in Hb. unfold lt_start in Hb. lia.
Qed.

(* For every image S, every order areas' in which its areas are written and every choice of
   record sizes, the bytes that get hashed are the image's data in address order. *)
Theorem app_data_emit_image S areas' chunking :
  image S -> Permutation areas' S -> sizes_ok chunking ->
  app_data (emit areas' chunking) = ok (cat_data S).
Proof.
  intros HI HP Hs.
  assert (Hne : Forall nonempty areas')
    by (eapply Permutation_Forall; [apply Permutation_sym; exact HP|apply HI]).
  assert (Hd : ForallOrdPairs disj areas')
    by (eapply (FOP_perm disj disj_sym); [apply Permutation_sym; exact HP|now apply image_disj]).
  rewrite app_data_emit by assumption. f_equal. f_equal.
  rewrite !sort_by_start_insl.
  rewrite (insl_perm areas' S []); [|assumption|].
  - rewrite <- sort_by_start_insl. apply sort_sorted_id. now apply image_lt.
  - eapply Permutation_NoDup; [apply Permutation_map, Permutation_sym, HP|].
    apply lt_sorted_nodup. now apply image_lt.
Qed.

Corollary compute_app_hash_image S areas' chunking :
  image S -> Permutation areas' S -> sizes_ok chunking ->
  compute_app_hash (emit areas' chunking) = ok (sha256 (cat_data S)).
Proof.
  intros. unfold compute_app_hash. now erewrite app_data_emit_image by eassumption.
Qed.

(* in particular two writings of the same image hash alike *)
Corollary hash_independent_of_writer S a1 a2 c1 c2 :
  image S -> Permutation a1 S -> Permutation a2 S -> sizes_ok c1 -> sizes_ok c2 ->
  compute_app_hash (emit a1 c1) = compute_app_hash (emit a2 c2).
Proof.
  intros. now rewrite !(compute_app_hash_image S) by assumption.
Qed.

(* ---------- examples ---------- *)

(* 3 areas in 2 zones; the first one crosses the 64 KiB boundary 0x10000 *)
Definition ex_a1 : area := mkArea 65520 (map N.of_nat (seq 1 40)).     (* 0xFFF0 .. 0x10017 *)
Definition ex_a2 : area := mkArea 65792 (map (fun n => N.of_nat n mod 256) (seq 100 300)).  (* 0x10100 .. *)
Definition ex_a3 : area := mkArea 4096 [222; 173; 190; 239].           (* 0x1000 *)
Definition ex_sorted : list area := [ex_a3; ex_a1; ex_a2].

Example ex_image : image ex_sorted.
Proof.
  split; repeat constructor; try (intro; discriminate); unfold aend; vm_compute; congruence.
Qed.

Example ex_16 :
  app_data (emit [ex_a1; ex_a2; ex_a3] [16%nat]) = ok (cat_data ex_sorted).
Proof. vm_compute. reflexivity. Qed.
Example ex_1_255_7 :
  app_data (emit [ex_a1; ex_a2; ex_a3] [1; 255; 7]%nat) = ok (cat_data ex_sorted).
Proof. vm_compute. reflexivity. Qed.
Example ex_other_order :
  app_data (emit [ex_a2; ex_a3; ex_a1] [1; 255; 7]%nat) = ok (cat_data ex_sorted)
  /\ app_data (emit [ex_a3; ex_a2; ex_a1] [16%nat]) = ok (cat_data ex_sorted).
Proof. split; vm_compute; reflexivity. Qed.
(* the area list itself DOES depend on the record sizes: ex_a1 is split at the zone change,
   and where it is split depends on the record that straddles 0x10000 *)
Example ex_split_16 :
  option_map (map (fun a => (astart a, nlen (adata a))))
    (match parse_records (emit [ex_a1; ex_a2; ex_a3] [16%nat]) with inr a => Some a | _ => None end)
  = Some [(4096, 4); (65520, 16); (65536, 24); (65792, 300)].
Proof. vm_compute. reflexivity. Qed.
Example ex_split_7 :
  option_map (map (fun a => (astart a, nlen (adata a))))
    (match parse_records (emit [ex_a1; ex_a2; ex_a3] [7%nat]) with inr a => Some a | _ => None end)
  = Some [(4096, 4); (65520, 21); (65541, 19); (65792, 300)].
Proof. vm_compute. reflexivity. Qed.
(* same through the text level *)
Example ex_file :
  compute_app_hash_file (emit_file [ex_a2; ex_a3; ex_a1] [1; 255; 7]%nat)
  = ok (sha256 (cat_data ex_sorted)).
Proof. vm_compute. reflexivity. Qed.

(* ---------- text level: the rendered file parses to the same records ---------- *)

Definition wf_record (r : record) : Prop :=
  rcount r < 256 /\ raddr r < 65536 /\ rtype r < 256 /\ wf_bytes (rtail r).

Definition record_bytes (r : record) : bytes :=
  record_header (rcount r) (raddr r) (rtype r) ++ rtail r.

Lemma hexdigit_facts n :
  n < 16 -> hexval (hexdigit n) = Some n /\ is_pyspace (hexdigit n) = false.
Proof.
  intros H. destruct n as [|p]; [split; reflexivity|].
  do 4 (try destruct p as [p|p|]); try (split; reflexivity); lia.
Qed.

Lemma hexdigit_ge n : 48 <= hexdigit n.
Proof. unfold hexdigit. destruct (n <? 10); lia. Qed.

Lemma fromhex_hex b : wf_bytes b -> fromhex (hex b) = Some b.
Proof.
  unfold fromhex. induction 1 as [|x r Hx Hr IH]; [reflexivity|].
  cbn [hex fromhex_aux].
  destruct (hexdigit_facts (x / 16)) as [V1 S1]; [lia|].
  destruct (hexdigit_facts (x mod 16)) as [V2 _]; [lia|].
  rewrite S1, V1, V2, IH. f_equal. f_equal. lia.
Qed.

Definition not_eol (c : N) : Prop := c <> 10 /\ c <> 13.

Lemma hex_not_eol b : Forall not_eol (hex b).
Proof.
  induction b as [|x r IH]; simpl; [constructor|].
  assert (A := hexdigit_ge (x / 16)). assert (B := hexdigit_ge (x mod 16)).
  repeat constructor; try lia; assumption.
Qed.

Lemma split_lines_aux_line body : forall cur rest,
  Forall not_eol body ->
  split_lines_aux (body ++ 13 :: 10 :: rest) cur
  = (rev cur ++ body ++ [10]) :: split_lines_aux rest [].
Proof.
  induction body as [|c body IH]; intros cur rest H.
  - reflexivity.
  - inversion H as [|? ? [H10 H13] Hb]; subst. cbn [app split_lines_aux].
    destruct (c =? 10) eqn:E1; [lia|]. destruct (c =? 13) eqn:E2; [lia|].
    rewrite IH by assumption. simpl. now rewrite <- app_assoc.
Qed.

Lemma rstrip_line body : Forall not_eol body -> rstrip_crlf (body ++ [10]) = body.
Proof.
  induction 1 as [|c body [H10 H13] Hb IH]; [reflexivity|].
  cbn [app rstrip_crlf]. rewrite IH. destruct body; [|reflexivity].
  unfold is_crlf. destruct (c =? 13) eqn:E1; [lia|]. destruct (c =? 10) eqn:E2; [lia|].
  reflexivity.
Qed.

Definition line_of (r : record) : str := 58 :: hex (record_bytes r) ++ [10].

Lemma split_lines_render recs :
  split_lines (concat (map render_record recs)) = map line_of recs.
Proof.
  unfold split_lines. induction recs as [|r recs IH]; [reflexivity|].
  cbn [map concat]. unfold render_record at 1.
  change (58 :: hex (record_header (rcount r) (raddr r) (rtype r) ++ rtail r) ++ [13; 10])
    with ((58 :: hex (record_bytes r)) ++ [13; 10]).
  rewrite <- app_assoc.
  change ([13; 10] ++ concat (map render_record recs))
    with (13 :: 10 :: concat (map render_record recs)).
  rewrite split_lines_aux_line.
  - rewrite IH. reflexivity.
  - constructor; [unfold not_eol; lia|apply hex_not_eol].
Qed.

Lemma parse_line_of r : wf_record r -> parse_line (line_of r) = ok (Some r).
Proof.
  intros [H1 [H2 [H3 H4]]]. unfold parse_line, line_of.
  change (58 :: hex (record_bytes r) ++ [10]) with ((58 :: hex (record_bytes r)) ++ [10]).
  rewrite rstrip_line by (constructor; [unfold not_eol; lia|apply hex_not_eol]).
  cbn [N.eqb Pos.eqb negb].
  rewrite fromhex_hex.
  - unfold record_bytes, record_header. cbn [app decode_record bind ok].
    rewrite N.shiftl_mul_pow2. change (2 ^ 8) with 256.
    destruct r as [c a t tl]. cbn in *. do 3 f_equal. lia.
  - unfold record_bytes, record_header. apply Forall_app. split; [|assumption].
    repeat constructor; lia.
Qed.

Lemma run_lines_records recs : Forall wf_record recs ->
  forall st, run_lines st (map line_of recs) = run st recs.
Proof.
  induction 1 as [|r recs Hr Hrs IH]; intros st; [reflexivity|].
  cbn [map run_lines run]. rewrite parse_line_of by assumption. cbn [bind ok].
  destruct (step st r); cbn [bind]; auto.
Qed.

Theorem parse_file_render recs :
  Forall wf_record recs -> parse_file (concat (map render_record recs)) = parse_records recs.
Proof.
  intros H. unfold parse_file, parse_records.
  now rewrite split_lines_render, run_lines_records.
Qed.

(* ---------- the writer produces well formed records ---------- *)

Lemma checksum_lt b : checksum b < 256.
Proof. unfold checksum. lia. Qed.

Lemma mk_record_wf t a p :
  t < 256 -> a < 65536 -> nlen p < 256 -> wf_bytes p -> wf_record (mk_record t a p).
Proof.
  intros Ht Ha Hp Hw. unfold wf_record, mk_record. cbn. repeat split; try assumption.
  apply Forall_app. split; [assumption|]. repeat constructor. apply checksum_lt.
Qed.

Definition wf_chunk (c : area) : Prop :=
  wf_bytes (adata c) /\ nlen (adata c) < 256 /\ astart c < 4294967296.

Lemma emit_chunks_wf C : forall zone, Forall wf_chunk C -> Forall wf_record (emit_chunks zone C).
Proof.
  induction C as [|c C IH]; intros zone H; [constructor|].
  inversion H as [|? ? [H1 [H2 H3]] HC]; subst. rewrite emit_chunks_cons.
  apply Forall_app. split.
  - destruct (match zone with Some z0 => z0 =? astart c / 65536 | None => false end);
      [constructor|].
    constructor; [|constructor]. unfold rec_zone. apply mk_record_wf; try lia; [reflexivity|].
    unfold wf_bytes. constructor; [lia|]. constructor; [lia|constructor].
  - constructor; [|now apply IH].
    apply mk_record_wf; try lia; assumption.
Qed.

Definition sizes_255 (chunking : list nat) : Prop := Forall (fun n => 1 <= n <= 255)%nat chunking.

Lemma sizes_255_ok chunking : sizes_255 chunking -> sizes_ok chunking.
Proof. apply Forall_impl. intros; lia. Qed.

Lemma chunk_size_255 chunking i : sizes_255 chunking -> (chunk_size chunking i <= 255)%nat.
Proof.
  intros H. unfold chunk_size.
  destruct (nth_in_or_default (i mod length chunking) chunking 1%nat) as [Hin|E].
  - unfold sizes_255 in H. rewrite Forall_forall in H. now apply H.
  - rewrite E. lia.
Qed.

Lemma split_area_data chunking : sizes_255 chunking ->
  forall fuel i s d, wf_bytes d ->
  Forall (fun c => wf_bytes (adata c) /\ nlen (adata c) < 256) (split_area fuel chunking i s d).
Proof.
  intros Hs. induction fuel as [|f IH]; intros i s d Hw; [constructor|].
  destruct d as [|x d']; [constructor|]. cbn [split_area]. set (d := x :: d') in *.
  assert (Hn := chunk_size_255 chunking i Hs). set (n := chunk_size chunking i) in *.
  unfold wf_bytes in Hw. rewrite <- (firstn_skipn n d) in Hw. apply Forall_app in Hw.
  destruct Hw as [W1 W2]. constructor.
  - cbn [adata]. split; [exact W1|]. unfold nlen.
    assert (L := firstn_le_length n d). lia.
  - apply IH. exact W2.
Qed.

Definition wf_area (a : area) : Prop := wf_bytes (adata a) /\ aend a <= 4294967296.

Lemma chunks_of_wf chunking : sizes_255 chunking ->
  forall areas i, Forall wf_area areas -> Forall wf_chunk (chunks_of chunking i areas).
Proof.
  intros Hs areas i Hw. apply Forall_forall. intros x Hx.
  assert (Hb : wf_bytes (adata x) /\ nlen (adata x) < 256).
  { revert i Hx. induction Hw as [|a rest [Ha _] Hr IH]; intros i Hx; [destruct Hx|].
    cbn [chunks_of] in Hx. apply in_app_or in Hx. destruct Hx as [Hx|Hx].
    - assert (P := split_area_data chunking Hs (length (adata a)) i (astart a) (adata a) Ha).
      rewrite Forall_forall in P. now apply P.
    - eapply IH; eauto. }
  apply (In_chunks_of chunking (sizes_255_ok _ Hs)) in Hx.
  destruct Hx as [a [H1 [H2 [H3 H4]]]].
  rewrite Forall_forall in Hw. destruct (Hw a H1) as [_ He].
  apply nonempty_end in H4. destruct Hb. repeat split; try assumption. lia.
Qed.

Lemma emit_wf areas chunking :
  Forall wf_area areas -> sizes_255 chunking -> Forall wf_record (emit areas chunking).
Proof.
  intros Hw Hs. unfold emit. apply Forall_app. split.
  - apply emit_chunks_wf. now apply chunks_of_wf.
  - constructor; [|constructor]. unfold rec_eof. apply mk_record_wf; try lia; try reflexivity.
    constructor.
Qed.

(* ---------- end to end on file contents ---------- *)

(* Every image with byte-valued data below 2^32, written as text in any area order with any
   record sizes in 1..255: the reported hash is SHA-256 of the data in address order. *)
Theorem compute_app_hash_file_image S areas' chunking :
  image S -> Forall wf_area S -> Permutation areas' S -> sizes_255 chunking ->
  compute_app_hash_file (emit_file areas' chunking) = ok (sha256 (cat_data S)).
Proof.
  intros HI Hw HP Hs. unfold compute_app_hash_file, emit_file.
  rewrite parse_file_render.
  - assert (E := app_data_emit_image S areas' chunking HI HP (sizes_255_ok _ Hs)).
    unfold app_data in E. destruct (parse_records (emit areas' chunking)); cbn in *.
    + discriminate.
    + inversion E. reflexivity.
  - apply emit_wf; [|assumption].
    eapply Permutation_Forall; [apply Permutation_sym; exact HP|assumption].
Qed.

(* ---------- findings: inputs outside the theorem's hypotheses (checked on the model; the same
   values were observed on the Python implementation) ---------- *)

Definition file_of (lines : list string) : str := concat (map (fun l => s l ++ [10]) lines).
Definition areas_of (c : str) : option (list (N * bytes)) :=
  match parse_file c with inr a => Some (map (fun x => (astart x, adata x)) a) | inl _ => None end.

(* F1. ledgerblue's own IntelHexPrinter.writeTo never advances the type-04 record inside an area
   (it always writes area.start >> 16 and lets the 16-bit offset wrap).  One area of 40 bytes
   at 0xFFF0 written by it with blocksize 16, resp. 64: the parser puts the wrapped records at
   0x0000, BEFORE the head of the area, so the hashed bytes differ with the record size. *)
Definition printer_bs16 : str := file_of [
  ":020000040000FA"; ":10FFF0000102030405060708090A0B0C0D0E0F1079";
  ":100000001112131415161718191A1B1C1D1E1F2068"; ":080010002122232425262728C4";
  ":0400000500000000f7"; ":00000001FF"].
Definition printer_bs64 : str := file_of [
  ":020000040000FA";
  ":28FFF0000102030405060708090A0B0C0D0E0F101112131415161718191A1B1C1D1E1F202122232425262728B5";
  ":0400000500000000f7"; ":00000001FF"].
Example finding_printer_zone :
  option_map (map fst) (areas_of printer_bs16) = Some [0; 65520]
  /\ option_map (map fst) (areas_of printer_bs64) = Some [65520]
  /\ compute_app_hash_file printer_bs16 <> compute_app_hash_file printer_bs64.
Proof. repeat split; try (vm_compute; reflexivity). vm_compute. intros E. discriminate E. Qed.

(* F2. overlapping areas with the same start keep file order (insertAreaSorted is stable),
   so the hash depends on the writing order *)
Example finding_same_start :
  areas_of (file_of [":020000040000FA"; ":0101000001FD"; ":0101000002FC"; ":00000001FF"])
    = Some [(256, [1]); (256, [2])]
  /\ areas_of (file_of [":020000040000FA"; ":0101000002FC"; ":0101000001FD"; ":00000001FF"])
    = Some [(256, [2]); (256, [1])].
Proof. split; vm_compute; reflexivity. Qed.

(* F3. the checksum is never verified and the count is never compared with the line length:
   count = 2 with one data byte swallows the checksum byte 0x55 into the hashed data;
   a line that is too short still advances `current` by count *)
Example finding_checksum :
  areas_of (file_of [":020000040000FA"; ":02010000AA55"; ":00000001FF"]) = Some [(256, [170; 85])]
  /\ areas_of (file_of [":020000040000FA"; ":01010000AA00"; ":00000001FF"]) = Some [(256, [170])]
  /\ areas_of (file_of [":020000040000FA"; ":04010000AA"; ":01010400BB3F"; ":00000001FF"])
     = Some [(256, [170; 187])].
Proof. repeat split; vm_compute; reflexivity. Qed.

(* F4. records after the EOF record are still parsed and hashed *)
Example finding_after_eof :
  areas_of (file_of [":020000040000FA"; ":01010000AA54"; ":00000001FF";
                     ":020000040001F9"; ":01000000BB44"]) = Some [(256, [170]); (65536, [187])].
Proof. vm_compute. reflexivity. Qed.

(* F5. only data is hashed: start addresses, gaps and the boot address do not enter the hash *)
Example finding_addresses_not_hashed :
  compute_app_hash_file (file_of [":020000040000FA"; ":02100000AABB89"; ":00000001FF"])
  = compute_app_hash_file (file_of [":020000040001F9"; ":01200000AA35"; ":01500000BB54";
                                    ":0400000512345678E3"; ":00000001FF"]).
Proof. vm_compute. reflexivity. Qed.

(* F6. offset wrap without a type-04 record goes to the start of the SAME zone *)
Example finding_wrap :
  areas_of (file_of [":020000040000FA"; ":02FFFE00AABB9C"; ":02000000CCDD55"; ":00000001FF"])
  = Some [(0, [204; 221]); (65534, [170; 187])].
Proof. vm_compute. reflexivity. Qed.

(* F7. record types 02 and 03 abort the parse (generic Exception) *)
Example finding_02_03 :
  parse_file (file_of [":020000021000EC"]) = inl OtherExc
  /\ parse_file (file_of [":0400000300003800C1"]) = inl OtherExc.
Proof. split; vm_compute; reflexivity. Qed.
