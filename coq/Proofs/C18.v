(* C18: admin commands touch seed and PIN only under their preconditions. *)
From PowHsm Require Import Model.Admin Proofs.TraceLogic Proofs.C09 Proofs.C10.
From Coq Require Import ZifyBool ZifyNat ZifyN Lia.
Open Scope N_scope.

(* ====================================================================== *)
(* 0. Generic kit                                                          *)
(* ====================================================================== *)

(* the list of new events of a run is unique, so two specs of one action can be joined *)
Lemma news_unique w w' n1 n2 : news w w' n1 -> news w w' n2 -> n1 = n2.
Proof.
  unfold news. intros H1 H2. rewrite H1 in H2. apply app_inv_tail in H2.
  rewrite <- (rev_involutive n1), <- (rev_involutive n2), H2. reflexivity.
Qed.

Lemma spec_and {A} (m : M A) Q1 Q2 :
  spec m Q1 -> spec m Q2 -> spec m (fun w r n w' => Q1 w r n w' /\ Q2 w r n w').
Proof.
  intros H1 H2 w. destruct (H1 w) as [n1 [Hn1 Hq1]]. destruct (H2 w) as [n2 [Hn2 Hq2]].
  exists n1. split; [exact Hn1|]. split; [exact Hq1|].
  rewrite (news_unique _ _ _ _ Hn1 Hn2). exact Hq2.
Qed.

(* pointwise equality of actions: used to re-associate binds *)
Definition meq {A} (m1 m2 : M A) : Prop := forall w, m1 w = m2 w.

Lemma meq_refl {A} (m : M A) : meq m m.
Proof. intro; reflexivity. Qed.
Lemma meq_sym {A} (m1 m2 : M A) : meq m1 m2 -> meq m2 m1.
Proof. intros H w; symmetry; apply H. Qed.
Lemma meq_trans {A} (m1 m2 m3 : M A) : meq m1 m2 -> meq m2 m3 -> meq m1 m3.
Proof. intros H1 H2 w; rewrite H1; apply H2. Qed.
Lemma meq_assoc {A B C} (m : M A) (f : A -> M B) (g : B -> M C) :
  meq (bind (bind m f) g) (bind m (fun a => bind (f a) g)).
Proof. intro w. unfold bind. destruct (m w) as [[a|e] w1]; reflexivity. Qed.
Lemma meq_cong {A B} (m : M A) (f g : A -> M B) :
  (forall a, meq (f a) (g a)) -> meq (bind m f) (bind m g).
Proof. intros H w. unfold bind. destruct (m w) as [[a|e] w1]; [apply H|reflexivity]. Qed.
Lemma spec_meq {A} (m1 m2 : M A) Q : meq m1 m2 -> spec m2 Q -> spec m1 Q.
Proof. intros E H w. rewrite (E w). apply H. Qed.

(* goal: meq (m ;; k) (bind (m ;; f) g) with k = f ;; g after re-association *)
Ltac reassoc :=
  repeat (eapply meq_trans; [|apply meq_sym, meq_assoc]; apply meq_cong; intro);
  try apply meq_refl.

(* "no event of n satisfies D" *)
Definition Nob (D : event -> bool) (n : list event) : Prop := Forall (fun e => D e = false) n.

Lemma Nob_app D a b : Nob D a -> Nob D b -> Nob D (a ++ b).
Proof. intros; apply Forall_app; auto. Qed.

Lemma Nob_not_in D n n1 u n2 : Nob D n -> n = n1 ++ u :: n2 -> D u = true -> False.
Proof.
  intros H -> Hu. unfold Nob in H. rewrite Forall_forall in H.
  assert (Hin : In u (n1 ++ u :: n2)) by (apply in_or_app; right; left; reflexivity).
  specialize (H _ Hin). congruence.
Qed.

(* an event satisfying D that occurs in a ++ b, a free of D, occurs in b *)
Lemma Nob_split D : forall a b n1 u n2,
  Nob D a -> a ++ b = n1 ++ u :: n2 -> D u = true -> exists c, n1 = a ++ c /\ b = c ++ u :: n2.
Proof.
  induction a as [|x a IH]; intros b n1 u n2 Ha E Hu.
  - exists n1. auto.
  - inversion Ha as [|? ? Hx Ha']; subst. destruct n1 as [|y n1].
    + cbn [app] in E. injection E as E1 E2. subst. congruence.
    + cbn [app] in E. injection E as E1 E2. subst.
      destruct (IH b n1 u n2 Ha' E2 Hu) as [c [-> ->]]. exists c. auto.
Qed.

(* sends_only S turns into absence of D-events when S excludes the commands of D *)
Definition cmd_in (l : list N) (e : event) : bool :=
  match apdu_cmd e with Some c => mem_N c l | None => false end.
Definition not_in (l : list N) (c : N) : bool := negb (mem_N c l).

Lemma sends_only_Nob {A} l (m : M A) :
  sends_only (not_in l) m -> spec m (fun _ _ n _ => Nob (cmd_in l) n).
Proof.
  intro H. eapply spec_conseq; [exact H|]. cbn beta. intros _ _ n _ Hf.
  unfold Nob. eapply Forall_impl; [|exact Hf]. intros e. cbn beta. unfold cmd_in, not_in.
  destruct (apdu_cmd e) as [c|]; [|reflexivity].
  destruct (mem_N c l); [discriminate|reflexivity].
Qed.

(* every action built from the kit only extends the trace *)
Definition anyc (c : N) : bool := true.

Ltac so_with tac :=
  repeat first
    [ apply sends_only_ret | apply sends_only_raise | apply sends_only_idxM
    | apply sends_only_of_opt
    | apply sends_only_connect
    | apply sends_only_disconnect
    | apply sends_only_send; tac
    | apply sends_only_bind; [|intro]
    | apply sends_only_if
    | apply sends_only_try_if ].

Lemma sends_only_of_optA {A} S (o : option A) : sends_only S (of_optA o).
Proof. destruct o; [apply sends_only_ret|apply sends_only_raise]. Qed.

Lemma sends_only_weaken {A} (S S' : N -> bool) (m : M A) :
  (forall c, S c = true -> S' c = true) -> sends_only S m -> sends_only S' m.
Proof.
  intros HS H. eapply spec_conseq; [exact H|]. cbn beta. intros _ _ n _ Hf.
  eapply Forall_impl; [|exact Hf]. intros e. cbn beta. destruct (apdu_cmd e); [apply HS|auto].
Qed.

(* ====================================================================== *)
(* 1. The operator's answer and the PIN prompt                             *)
(* ====================================================================== *)

Lemma str_eqb_eq (a b : str) : str_eqb a b = true <-> a = b.
Proof. apply bytes_eqb_eq. Qed.

Definition undecided (l : str) : Prop :=
  norm_answer l <> s "yes" /\ norm_answer l <> s "n" /\ norm_answer l <> s "no".

(* the loop returns "yes" exactly when the first decisive line is a yes *)
Theorem confirm_yes_iff stdin r :
  confirm stdin = Some (true, r) <->
  exists junk l, stdin = junk ++ l :: r /\ norm_answer l = s "yes" /\ Forall undecided junk.
Proof.
  split.
  - induction stdin as [|l0 r0 IH]; cbn [confirm]; [discriminate|].
    cbv zeta.
    destruct (str_eqb (norm_answer l0) (s "n")) eqn:En; [cbn [orb]; discriminate|].
    destruct (str_eqb (norm_answer l0) (s "no")) eqn:Eno; [cbn [orb]; discriminate|].
    cbn [orb].
    destruct (str_eqb (norm_answer l0) (s "yes")) eqn:Ey.
    + intro H. inversion H; subst. exists [], l0. split; [reflexivity|].
      split; [apply str_eqb_eq; exact Ey|constructor].
    + intro H. destruct (IH H) as [junk [l [-> [Hl Hj]]]].
      exists (l0 :: junk), l. split; [reflexivity|]. split; [exact Hl|].
      constructor; [|exact Hj]. unfold undecided.
      repeat split; intro C; apply str_eqb_eq in C; congruence.
  - intros [junk [l [-> [Hl Hj]]]]. induction Hj as [|j junk [H1 [H2 H3]] _ IH].
    + cbn [app confirm]. cbv zeta. rewrite Hl. reflexivity.
    + cbn [app confirm]. cbv zeta.
      destruct (str_eqb (norm_answer j) (s "n")) eqn:En; [apply str_eqb_eq in En; contradiction|].
      destruct (str_eqb (norm_answer j) (s "no")) eqn:Eno; [apply str_eqb_eq in Eno; contradiction|].
      destruct (str_eqb (norm_answer j) (s "yes")) eqn:Ey; [apply str_eqb_eq in Ey; contradiction|].
      cbn [orb]. exact IH.
Qed.

Theorem confirm_no_iff stdin r :
  confirm stdin = Some (false, r) <->
  exists junk l, stdin = junk ++ l :: r /\ (norm_answer l = s "n" \/ norm_answer l = s "no")
                 /\ Forall undecided junk.
Proof.
  split.
  - induction stdin as [|l0 r0 IH]; cbn [confirm]; [discriminate|].
    cbv zeta.
    destruct (str_eqb (norm_answer l0) (s "n")) eqn:En.
    { cbn [orb]. intro H. inversion H; subst. exists [], l0. split; [reflexivity|].
      split; [left; apply str_eqb_eq; exact En|constructor]. }
    destruct (str_eqb (norm_answer l0) (s "no")) eqn:Eno.
    { cbn [orb]. intro H. inversion H; subst. exists [], l0. split; [reflexivity|].
      split; [right; apply str_eqb_eq; exact Eno|constructor]. }
    cbn [orb].
    destruct (str_eqb (norm_answer l0) (s "yes")) eqn:Ey; [discriminate|].
    intro H. destruct (IH H) as [junk [l [-> [Hl Hj]]]].
    exists (l0 :: junk), l. split; [reflexivity|]. split; [exact Hl|].
    constructor; [|exact Hj]. unfold undecided.
    repeat split; intro C; apply str_eqb_eq in C; congruence.
  - intros [junk [l [-> [Hl Hj]]]]. induction Hj as [|j junk [H1 [H2 H3]] _ IH].
    + cbn [app confirm]. cbv zeta. destruct Hl as [Hl|Hl]; rewrite Hl; reflexivity.
    + cbn [app confirm]. cbv zeta.
      destruct (str_eqb (norm_answer j) (s "n")) eqn:En; [apply str_eqb_eq in En; contradiction|].
      destruct (str_eqb (norm_answer j) (s "no")) eqn:Eno; [apply str_eqb_eq in Eno; contradiction|].
      destruct (str_eqb (norm_answer j) (s "yes")) eqn:Ey; [apply str_eqb_eq in Ey; contradiction|].
      cbn [orb]. exact IH.
Qed.

(* the prompt returns the first entry that passes the policy in force *)
Theorem ask_for_pin_iff typed any p r :
  ask_for_pin typed any = Some (p, r) <->
  exists bad, typed = bad ++ p :: r /\ Forall (fun x => pin_is_valid x any = false) bad
              /\ pin_is_valid p any = true.
Proof.
  split.
  - induction typed as [|x t IH]; cbn [ask_for_pin]; [discriminate|].
    destruct (pin_is_valid x any) eqn:Ex.
    + intro H. inversion H; subst. exists []. auto.
    + intro H. destruct (IH H) as [bad [-> [Hb Hp]]]. exists (x :: bad). auto.
  - intros [bad [-> [Hb Hp]]]. induction Hb as [|x bad Hx _ IH]; cbn [app ask_for_pin].
    + rewrite Hp. reflexivity.
    + rewrite Hx. exact IH.
Qed.

Lemma ask_for_pin_valid typed any p r : ask_for_pin typed any = Some (p, r) -> pin_is_valid p any = true.
Proof. intro H. apply ask_for_pin_iff in H. destruct H as [bad [_ [_ H]]]. exact H. Qed.

Lemma ask_for_pin_suffix typed any p r : ask_for_pin typed any = Some (p, r) -> exists l, typed = l ++ r.
Proof.
  intro H. apply ask_for_pin_iff in H. destruct H as [bad [-> _]]. exists (bad ++ [p]).
  rewrite <- app_assoc. reflexivity.
Qed.

Lemma pin_valid_strict_any p : pin_is_valid p false = true -> pin_is_valid p true = true.
Proof.
  unfold pin_is_valid. intro H. apply andb_true_iff in H. destruct H as [H _]. rewrite H. reflexivity.
Qed.

(* ====================================================================== *)
(* 2. Indexed byte-by-byte transmissions (seed bytes, PIN bytes)           *)
(* ====================================================================== *)

(* APDU j of the sequence carries (i + j, data[j]) and got answer ans[j] *)
Fixpoint idx_events (c i : N) (data : bytes) (ans : list resp) : list event :=
  match data, ans with
  | b :: r, a :: ans' => Apdu [CLA; c; i; b] a :: idx_events c (i + 1) r ans'
  | _, _ => []
  end.

Lemma idx_events_nth c : forall data ans i j e,
  nth_error (idx_events c i data ans) j = Some e ->
  exists b a, nth_error data j = Some b /\ nth_error ans j = Some a
              /\ e = Apdu [CLA; c; i + N.of_nat j; b] a.
Proof.
  induction data as [|b r IH]; intros ans i j e H.
  - cbn [idx_events] in H. destruct j; discriminate.
  - destruct ans as [|a ans']; [cbn [idx_events] in H; destruct j; discriminate|].
    cbn [idx_events] in H. destruct j as [|j].
    + cbn [nth_error] in *. injection H as <-. exists b, a. rewrite N.add_0_r. auto.
    + cbn [nth_error] in *. destruct (IH ans' (i + 1) j e H) as [b' [a' [H1 [H2 ->]]]].
      exists b', a'. split; [exact H1|]. split; [exact H2|]. f_equal. f_equal. f_equal. f_equal. lia.
Qed.

Lemma idx_events_length c : forall data ans i,
  (length ans <= length data)%nat -> length (idx_events c i data ans) = length ans.
Proof.
  induction data as [|b r IH]; intros [|a ans] i H; cbn [idx_events length] in *; try lia.
  rewrite IH; lia.
Qed.

Lemma idx_events_nil c i data : idx_events c i data [] = [].
Proof. destruct data; reflexivity. Qed.

Fixpoint send_idx (c i : N) (data : bytes) : M unit :=
  match data with
  | [] => ret tt
  | b :: r => send_command c [i; b] ;;; send_idx c (i + 1) r
  end.

Lemma send_seed_bytes_eq sd : forall i, send_seed_bytes i sd = send_idx CMD_SEED i sd.
Proof. induction sd as [|b r IH]; intro i; cbn [send_seed_bytes send_idx]; [reflexivity|]. rewrite IH. reflexivity. Qed.

Lemma send_pin_bytes_eq p : forall i, send_pin_bytes i p = send_idx CMD_SEND_PIN i p.
Proof. induction p as [|b r IH]; intro i; cbn [send_pin_bytes send_idx]; [reflexivity|]. rewrite IH. reflexivity. Qed.

Definition IdxSent {A} (c i : N) (data : bytes) (r : result A) (n : list event) : Prop :=
  exists ans, n = idx_events c i data ans /\ (length ans <= length data)%nat
              /\ (forall a, r = Ok a -> length ans = length data).

Lemma spec_send_idx c data : forall i,
  spec (send_idx c i data) (fun w r n w' => IdxSent c i data r n).
Proof.
  induction data as [|b data IH]; intro i; cbn [send_idx].
  - eapply spec_conseq; [apply spec_ret|]. cbn beta. intros w r n w' [_ [-> _]].
    exists []. cbn [idx_events length]. auto.
  - eapply spec_conseq;
      [apply (spec_bind _ _ _ _ (spec_send c [i; b]) (fun _ => IH (i + 1)))|].
    cbn beta.
    intros w r n w' [[a [n1 [n2 [wm [[-> _] [[ans [-> [Hl Hok]]] ->]]]]]]|[e [-> [-> _]]]].
    + exists (next_answer w :: ans). cbn [idx_events length app]. split; [reflexivity|].
      split; [lia|]. intros a0 Ha. rewrite (Hok a0 Ha). reflexivity.
    + exists [next_answer w]. cbn [idx_events length]. rewrite idx_events_nil.
      split; [reflexivity|]. split; [lia|]. intros a0 Ha. discriminate Ha.
Qed.

(* the seed transmission: APDU j carries (i0 + j, sd[j]); all of them unless the device fails *)
Theorem spec_send_seed_bytes sd i :
  spec (send_seed_bytes i sd) (fun w r n w' => IdxSent CMD_SEED i sd r n).
Proof. rewrite send_seed_bytes_eq. apply spec_send_idx. Qed.

Theorem spec_send_pin_idx p i :
  spec (send_pin_bytes i p) (fun w r n w' => IdxSent CMD_SEND_PIN i p r n).
Proof. rewrite send_pin_bytes_eq. apply spec_send_idx. Qed.

(* ====================================================================== *)
(* 3. Device-side onboarding and PIN change                                *)
(* ====================================================================== *)

Definition wipe_core : M bool :=
  r <- send_command CMD_WIPE [] ;; b <- idxM r 1 ;;
  if b =? 2 then ret true else raise DongleError.

Definition sgx_onboard_core (data : bytes) : M bool :=
  r <- send_command SGXCMD_SGX_ONBOARD data ;; b <- idxM r 2 ;;
  if b =? 1 then ret true else raise DongleError.

Lemma spec_wipe_core :
  spec wipe_core (sent1 CMD_WIPE [] (fun _ ans => exists d, ans = Data d /\ idx d 1 = Some 2)).
Proof.
  apply spec_of_run. intro w. unfold wipe_core, bind. rewrite send_command_run.
  destruct (next_answer w) as [d|sw| | | |]; cbn [classify].
  - unfold idxM. destruct (idx d 1) as [b|] eqn:Ei; [|fin].
    cbn -[idx sent]. destruct (b =? 2) eqn:Eb; fin.
    apply N.eqb_eq in Eb. subst b. eauto.
  - destruct (user_defined sw); fin.
  - fin.
  - fin.
  - fin.
  - fin.
Qed.

Lemma spec_sgx_onboard_core data :
  spec (sgx_onboard_core data)
       (sent1 SGXCMD_SGX_ONBOARD data (fun _ ans => exists d, ans = Data d /\ idx d 2 = Some 1)).
Proof.
  apply spec_of_run. intro w. unfold sgx_onboard_core, bind. rewrite send_command_run.
  destruct (next_answer w) as [d|sw| | | |]; cbn [classify].
  - unfold idxM. destruct (idx d 2) as [b|] eqn:Ei; [|fin].
    cbn -[idx sent]. destruct (b =? 1) eqn:Eb; fin.
    apply N.eqb_eq in Eb. subst b. eauto.
  - destruct (user_defined sw); fin.
  - fin.
  - fin.
  - fin.
  - fin.
Qed.

Definition is_ok {A} (r : result A) : bool := match r with Ok _ => true | Exn _ => false end.

(* what `onboard` puts on the wire (ok = it returned normally) *)
Definition OnboardSent (k : dongle_kind) (seed pin : bytes) (ok : bool) (n : list event) : Prop :=
  match k with
  | KSgx => exists ans, n = [Apdu (CLA :: SGXCMD_SGX_ONBOARD :: 0 :: seed ++ pin) ans]
                        /\ (ok = true -> exists d, ans = Data d /\ idx d 2 = Some 1)
  | _ => exists sa pa wipe,
      n = idx_events CMD_SEED 0 seed sa ++ idx_events CMD_SEND_PIN 0 (nlen pin :: pin) pa ++ wipe
      /\ (length sa <= length seed)%nat /\ (length pa <= S (length pin))%nat
      /\ (pa <> [] -> length sa = length seed)
      /\ (wipe = [] \/ exists a, wipe = [Apdu [CLA; CMD_WIPE] a]
                                 /\ length sa = length seed /\ length pa = S (length pin))
      /\ (ok = true -> exists d, wipe = [Apdu [CLA; CMD_WIPE] (Data d)] /\ idx d 1 = Some 2)
  end.

Definition ledger_onboard (seed pin : bytes) : M bool :=
  send_seed_bytes 0 seed ;;; send_pin pin true ;;; wipe_core.

Lemma spec_ledger_onboard k seed pin : k <> KSgx ->
  spec (ledger_onboard seed pin) (fun w r n w' => OnboardSent k seed pin (is_ok r) n).
Proof.
  intro Hk. unfold ledger_onboard, send_pin.
  eapply spec_conseq;
    [apply (spec_bind _ _ _ _ (spec_send_seed_bytes seed 0)
              (fun _ => spec_bind _ _ _ _ (spec_send_pin_idx (nlen pin :: pin) 0)
                          (fun _ => spec_wipe_core)))|].
  cbn beta.
  assert (G : forall n r,
    (exists sa pa wipe,
      n = idx_events CMD_SEED 0 seed sa ++ idx_events CMD_SEND_PIN 0 (nlen pin :: pin) pa ++ wipe
      /\ (length sa <= length seed)%nat /\ (length pa <= S (length pin))%nat
      /\ (pa <> [] -> length sa = length seed)
      /\ (wipe = [] \/ exists a, wipe = [Apdu [CLA; CMD_WIPE] a]
                                 /\ length sa = length seed /\ length pa = S (length pin))
      /\ (is_ok r = true -> exists d, wipe = [Apdu [CLA; CMD_WIPE] (Data d)] /\ idx d 1 = Some 2))
    -> OnboardSent k seed pin (@is_ok bool r) n).
  { intros n r H. destruct k; [exact H|contradiction|exact H]. }
  intros w r n w' H. apply G. clear G.
  destruct H as [[a [n1 [n2 [wm [[sa [-> [Hsl Hsok]]] [H2 ->]]]]]]|[e [-> [sa [-> [Hsl _]]]]]].
  - specialize (Hsok a eq_refl).
    destruct H2 as [[a2 [n3 [n4 [wm2 [[pa [-> [Hpl Hpok]]] [[_ [-> Hg]] ->]]]]]]
                   |[e [-> [pa [-> [Hpl _]]]]]].
    + specialize (Hpok a2 eq_refl). cbn [length] in Hpl, Hpok.
      exists sa, pa, [Apdu [CLA; CMD_WIPE] (next_answer wm2)].
      split; [reflexivity|]. split; [exact Hsl|]. split; [exact Hpl|]. split; [auto|].
      split; [right; eexists; split; [reflexivity|]; split; [exact Hsok|exact Hpok]|].
      intro Hr. destruct r as [b|e]; [|discriminate Hr].
      destruct (Hg b eq_refl) as [d [Ed Hd]]. exists d. rewrite Ed. auto.
    + cbn [length] in Hpl. exists sa, pa, []. rewrite app_nil_r.
      split; [reflexivity|]. split; [exact Hsl|]. split; [exact Hpl|]. split; [auto|].
      split; [left; reflexivity|]. intro C; discriminate C.
  - exists sa, [], []. rewrite idx_events_nil, !app_nil_r.
    split; [reflexivity|]. split; [exact Hsl|]. split; [cbn [length]; lia|].
    split; [intro C; contradiction C; reflexivity|]. split; [left; reflexivity|].
    intro C; discriminate C.
Qed.

Theorem spec_onboard k seed pin :
  spec (onboard k seed pin) (fun w r n w' =>
    (length seed <> 32%nat /\ n = [] /\ r = Exn DongleError)
    \/ (length seed = 32%nat /\ OnboardSent k seed pin (is_ok r) n)).
Proof.
  unfold onboard. destruct (nlen seed =? ONB_SEED_LENGTH) eqn:El; cbn [negb].
  - assert (Hl : length seed = 32%nat).
    { apply N.eqb_eq in El. unfold nlen in El. change ONB_SEED_LENGTH with 32 in El. lia. }
    assert (Hled : k <> KSgx -> spec (ledger_onboard seed pin) (fun w r n w' =>
               (length seed <> 32%nat /\ n = [] /\ r = Exn DongleError)
               \/ (length seed = 32%nat /\ OnboardSent k seed pin (is_ok r) n))).
    { intro Hk. eapply spec_conseq; [apply (spec_ledger_onboard k seed pin Hk)|]. cbn beta.
      intros. right. auto. }
    destruct k; [apply Hled; discriminate| |apply Hled; discriminate].
    eapply spec_conseq; [apply (spec_sgx_onboard_core (0 :: seed ++ pin))|]. cbn beta.
    intros w r n w' [_ [-> Hg]]. right. split; [exact Hl|]. cbn [OnboardSent].
    eexists. split; [reflexivity|]. intro Hr. destruct r as [b|e]; [|discriminate Hr].
    apply (Hg b eq_refl).
  - eapply spec_conseq; [apply spec_raise|]. cbn beta. intros w r n w' [-> [-> _]]. left.
    split; [|auto]. apply N.eqb_neq in El. unfold nlen in El. change ONB_SEED_LENGTH with 32 in El. lia.
Qed.

(* actions that exchange nothing *)
Definition silent {A} (m : M A) : Prop := spec m (fun _ _ n _ => n = []).

Lemma silent_ret {A} (a : A) : silent (ret a).
Proof. eapply spec_conseq; [apply spec_ret|]. cbn beta. intros w r n w' [_ [-> _]]. reflexivity. Qed.
Lemma silent_raise {A} e : silent (@raise A e).
Proof. eapply spec_conseq; [apply spec_raise|]. cbn beta. intros w r n w' [_ [-> _]]. reflexivity. Qed.
Lemma silent_idxM {A} (l : list A) i : silent (idxM l i).
Proof. unfold idxM, of_opt. destruct (idx l i); [apply silent_ret|apply silent_raise]. Qed.
Lemma silent_bind {A B} (m : M A) (f : A -> M B) : silent m -> (forall a, silent (f a)) -> silent (bind m f).
Proof.
  intros Hm Hf. eapply spec_conseq; [apply (spec_bind _ _ _ (fun _ _ _ n _ => n = []) Hm Hf)|]. cbn beta.
  intros w r n w' [[a [n1 [n2 [wm [-> [-> ->]]]]]]|[e [_ ->]]]; reflexivity.
Qed.
Lemma sends_only_Nil_idx {A} (l : list A) i (f : A -> bool) : silent (b <- idxM l i ;; ret (f b)).
Proof. apply silent_bind; [apply silent_idxM|intro; apply silent_ret]. Qed.

(* what `new_pin` puts on the wire *)
Definition NewPinSent (k : dongle_kind) (pin : bytes) (n : list event) : Prop :=
  match k with
  | KSgx => exists ans, n = [Apdu (CLA :: SGXCMD_SGX_CHANGE_PASSWORD :: 0 :: pin) ans]
  | _ => exists pa tail,
      n = idx_events CMD_SEND_PIN 0 (nlen pin :: pin) pa ++ tail
      /\ (length pa <= S (length pin))%nat
      /\ (tail = [] \/ exists a, tail = [Apdu [CLA; CMD_CHANGE_PIN] a] /\ length pa = S (length pin))
  end.

Definition ledger_new_pin (pin : bytes) : M bool :=
  try_catch
    (send_pin pin true ;;; send_command CMD_CHANGE_PIN [] ;;; ret true)
    (fun e => match e with
              | ErrorResult sw => if sw =? ERR_UI_INVALID_PIN then Some (ret false) else None
              | _ => None
              end).

Definition sgx_new_pin (pin : bytes) : M bool :=
  r <- send_command SGXCMD_SGX_CHANGE_PASSWORD (0 :: pin) ;; b <- idxM r 2 ;; ret (b =? 1).

Definition LedgerNewPinSent (pin : bytes) (n : list event) : Prop :=
  exists pa tail,
      n = idx_events CMD_SEND_PIN 0 (nlen pin :: pin) pa ++ tail
      /\ (length pa <= S (length pin))%nat
      /\ (tail = [] \/ exists a, tail = [Apdu [CLA; CMD_CHANGE_PIN] a] /\ length pa = S (length pin)).

Lemma spec_ledger_new_pin_body pin :
  spec (send_pin pin true ;;; send_command CMD_CHANGE_PIN [] ;;; ret true)
       (fun w r n w' => LedgerNewPinSent pin n).
Proof.
  unfold send_pin.
  eapply spec_conseq;
    [apply (spec_bind _ _ _ _ (spec_send_pin_idx (nlen pin :: pin) 0)
               (fun _ => spec_bind _ _ _ _ (spec_send CMD_CHANGE_PIN [])
                           (fun _ => spec_ret true)))|].
  cbn beta. intros w r n w' H.
  destruct H as [[a [n1 [n2 [wm [[pa [-> [Hpl Hpok]]] [H2 ->]]]]]]|[e [_ [pa [-> [Hpl _]]]]]].
  - specialize (Hpok a eq_refl). cbn [length] in Hpl, Hpok.
    exists pa, [Apdu [CLA; CMD_CHANGE_PIN] (next_answer wm)]. split.
    + destruct H2 as [[a0 [n3 [n4 [wm0 [[-> _] [[_ [-> _]] ->]]]]]]|[e [_ [-> _]]]]; reflexivity.
    + split; [exact Hpl|]. right. eexists. split; [reflexivity|exact Hpok].
  - cbn [length] in Hpl. exists pa, []. rewrite app_nil_r. auto.
Qed.

Lemma spec_ledger_new_pin pin :
  spec (ledger_new_pin pin) (fun w r n w' => LedgerNewPinSent pin n).
Proof.
  unfold ledger_new_pin.
  eapply spec_conseq.
  { eapply (spec_try_catch _ _ _ (fun _ _ _ n _ => n = [])).
    - apply spec_ledger_new_pin_body.
    - intros e k0 He. destruct e; try discriminate He.
      destruct (sw =? ERR_UI_INVALID_PIN); [|discriminate He]. injection He as <-.
      eapply spec_conseq; [apply spec_ret|]. cbn beta. intros w r n w' [_ [-> _]]. reflexivity. }
  cbn beta.
  intros w r n w' [[a [_ H]]|[[e [_ [_ H]]]|[e [k0 [n1 [n2 [wm [_ [H [-> ->]]]]]]]]]]; auto.
  rewrite app_nil_r. exact H.
Qed.

Theorem spec_new_pin k pin : spec (new_pin k pin) (fun w r n w' => NewPinSent k pin n).
Proof.
  assert (Hled : k <> KSgx -> spec (ledger_new_pin pin) (fun w r n w' => NewPinSent k pin n)).
  { intro Hk. eapply spec_conseq; [apply spec_ledger_new_pin|]. cbn beta. intros w r n w' H.
    destruct k; [exact H|contradiction|exact H]. }
  destruct k; [apply Hled; discriminate| |apply Hled; discriminate].
  change (new_pin KSgx pin) with (sgx_new_pin pin). unfold sgx_new_pin.
  eapply spec_conseq;
    [apply (spec_bind _ _ _ (fun _ _ _ n _ => n = []) (spec_send SGXCMD_SGX_CHANGE_PASSWORD (0 :: pin)))|].
  - intro r. apply sends_only_Nil_idx.
  - cbn beta. intros w r n w' [[a [n1 [n2 [wm [[-> _] [-> ->]]]]]]|[e [_ [-> _]]]];
      cbn [NewPinSent]; eexists; reflexivity.
Qed.

(* ====================================================================== *)
(* 4. Onboarding: the checks that precede the device-side onboarding       *)
(* ====================================================================== *)

Definition onboard_pre (k : dongle_kind) (o : admin_opts) (stdin : list str) (typed : list bytes)
  : M (bytes * list bytes) :=
  (match k with KLedger => if o_has_output o then ret tt else raise AdminError | _ => ret tt end) ;;;
  (match o_pin o with
   | Some p => if pin_is_valid p false then ret tt else raise AdminError
   | None => ret tt end) ;;;
  connect ;;;
  mode <- get_current_mode ;;
  (if mode =? MODE_BOOTLOADER then ret tt else raise AdminError) ;;;
  ok <- echo k ;;
  (if ok then ret tt else raise AdminError) ;;;
  onb <- is_onboarded ;;
  (if onb then raise AdminError else ret tt) ;;;
  c <- of_optA (confirm stdin) ;;
  (if fst c then ret tt else raise AdminError) ;;;
  match o_pin o with
  | Some p => ret (p, typed)
  | None => of_optA (ask_for_pin typed (o_any_pin o))
  end.

Lemma do_onboard_split k o stdin typed seed :
  meq (do_onboard k o stdin typed seed)
      (bind (onboard_pre k o stdin typed) (fun pt => onboard k seed (fst pt) ;;; disconnect)).
Proof. unfold do_onboard, onboard_pre. reassoc. Qed.

Lemma spec_is_onboarded :
  spec is_onboarded
       (sent1 CMD_IS_ONBOARD []
          (fun b ans => exists d x, ans = Data d /\ idx d 1 = Some x /\ b = (x =? 1))).
Proof.
  apply spec_of_run. intro w. unfold is_onboarded, bind. rewrite send_command_run.
  destruct (next_answer w) as [d|sw| | | |]; cbn [classify].
  - unfold idxM. destruct (idx d 1) as [b|] eqn:Ei; [|fin].
    fin. injection HH as <-. eauto.
  - destruct (user_defined sw); fin.
  - fin.
  - fin.
  - fin.
  - fin.
Qed.

(* ---------- normal-termination specs of the small steps ---------- *)

Lemma ospec_guard_neg (b : bool) e :
  ospec (if b then raise e else ret tt) (fun w _ n w' => b = false /\ n = [] /\ w' = w).
Proof.
  destruct b.
  - eapply ospec_of_spec; [apply spec_raise|]. cbn beta. intros w a n w' [C _]. discriminate.
  - eapply ospec_of_spec; [apply spec_ret|]. cbn beta. intros w a n w' [_ [-> ->]]. auto.
Qed.

Lemma ospec_opt_guard {A} (x : option A) (f : A -> bool) e :
  ospec (match x with Some p => if f p then ret tt else raise e | None => ret tt end)
        (fun w _ n w' => (forall p, x = Some p -> f p = true) /\ n = [] /\ w' = w).
Proof.
  destruct x as [p|].
  - eapply ospec_conseq; [apply ospec_guard|]. cbn beta. intros w a n w' [H [-> ->]].
    split; [|auto]. intros p0 E. injection E as <-. exact H.
  - eapply ospec_conseq; [apply ospec_ret|]. cbn beta. intros w a n w' [_ [-> ->]].
    split; [|auto]. intros p0 E. discriminate E.
Qed.

Lemma ospec_ledger_guard k (b : bool) e :
  ospec (match k with KLedger => if b then ret tt else raise e | _ => ret tt end)
        (fun w _ n w' => (k = KLedger -> b = true) /\ n = [] /\ w' = w).
Proof.
  destruct k.
  - eapply ospec_conseq; [apply ospec_guard|]. cbn beta. intros w a n w' [H [-> ->]]. auto.
  - eapply ospec_conseq; [apply ospec_ret|]. cbn beta. intros w a n w' [_ [-> ->]].
    split; [|auto]. intro C; discriminate C.
  - eapply ospec_conseq; [apply ospec_ret|]. cbn beta. intros w a n w' [_ [-> ->]].
    split; [|auto]. intro C; discriminate C.
Qed.

Lemma ospec_of_optA {A} (x : option A) :
  ospec (of_optA x) (fun w a n w' => x = Some a /\ n = [] /\ w' = w).
Proof.
  destruct x as [a0|]; cbn [of_optA].
  - eapply ospec_conseq; [apply ospec_ret|]. cbn beta. intros w a n w' [-> [-> ->]]. auto.
  - eapply ospec_of_spec; [apply spec_raise|]. cbn beta. intros w a n w' [C _]. discriminate.
Qed.

(* the PIN that will be used: given on the command line, or asked for *)
Definition pin_source (given : option bytes) (typed : list bytes) (any : bool)
                      (pt : bytes * list bytes) : Prop :=
  match given with
  | Some p => pt = (p, typed)
  | None => ask_for_pin typed any = Some pt
  end.

Lemma ospec_pin_source given typed any :
  ospec (match given with Some p => ret (p, typed) | None => of_optA (ask_for_pin typed any) end)
        (fun w pt n w' => pin_source given typed any pt /\ n = [] /\ w' = w).
Proof.
  destruct given as [p|]; cbn [pin_source].
  - eapply ospec_conseq; [apply ospec_ret|]. cbn beta. intros w a n w' [-> [-> ->]]. auto.
  - apply ospec_of_optA.
Qed.

Lemma ospec_connect : ospec connect (fun w _ n w' => n = [Connect true]).
Proof.
  eapply ospec_of_spec; [apply spec_connect|]. cbn beta.
  intros w a n w' [_ [[_ ->]|[C _]]]; [reflexivity|discriminate C].
Qed.

Definition ev_not_onboarded (e : event) : Prop :=
  exists d x, e = Apdu [CLA; CMD_IS_ONBOARD] (Data d) /\ idx d 1 = Some x /\ x <> 1.

Lemma ev_not_onboarded_weak e :
  ev_not_onboarded e -> exists d, e = Apdu [CLA; CMD_IS_ONBOARD] (Data d) /\ idx d 1 <> Some 1.
Proof. intros [d [x [-> [H Hx]]]]. exists d. split; [reflexivity|]. rewrite H. congruence. Qed.

(* the PIN used by onboarding and where it comes from *)
Definition OnboardPin (o : admin_opts) (typed : list bytes) (pin : bytes) : Prop :=
  match o_pin o with
  | Some p => pin = p /\ pin_is_valid p false = true
  | None => exists rest, ask_for_pin typed (o_any_pin o) = Some (pin, rest)
  end.

(* everything a normally terminating check phase has established *)
Definition OnboardChecked (k : dongle_kind) (o : admin_opts) (stdin : list str) (typed : list bytes)
                          (pin : bytes) (n : list event) : Prop :=
  (k = KLedger -> o_has_output o = true)
  /\ OnboardPin o typed pin
  /\ (exists rest, confirm stdin = Some (true, rest))
  /\ exists em ee eo, n = [Connect true; em; ee; eo]
       /\ ev_mode MODE_BOOTLOADER em /\ ev_echo k ee /\ ev_not_onboarded eo.

Lemma ospec_onboard_pre k o stdin typed :
  ospec (onboard_pre k o stdin typed) (fun w pt n w' => OnboardChecked k o stdin typed (fst pt) n).
Proof.
  unfold onboard_pre.
  eapply ospec_conseq.
  { eapply ospec_bind; [apply ospec_ledger_guard|intro].
    eapply ospec_bind; [apply (ospec_opt_guard (o_pin o) (fun p => pin_is_valid p false))|intro].
    eapply ospec_bind; [apply ospec_connect|intro].
    eapply ospec_bind; [apply (ospec_sent1 _ _ _ _ spec_get_current_mode)|intro mode].
    eapply ospec_bind; [apply ospec_guard|intro].
    eapply ospec_bind; [apply (ospec_sent1 _ _ _ _ (spec_echo k))|intro ok].
    eapply ospec_bind; [apply ospec_guard|intro].
    eapply ospec_bind; [apply (ospec_sent1 _ _ _ _ spec_is_onboarded)|intro onb].
    eapply ospec_bind; [apply ospec_guard_neg|intro].
    eapply ospec_bind; [apply ospec_of_optA|intro c].
    eapply ospec_bind; [apply ospec_guard|intro].
    apply ospec_pin_source. }
  cbn beta. intros w pt n w' H. dall. subst. cbn [app].
  match goal with H : (_ =? MODE_BOOTLOADER) = true |- _ => apply N.eqb_eq in H; subst end.
  match goal with H : MODE_BOOTLOADER <> MODE_UNKNOWN -> _ |- _ =>
    destruct H as [dm [-> Hdm]]; [discriminate|] end.
  match goal with H : true = true -> _ |- _ => specialize (H eq_refl); subst end.
  red. split; [assumption|]. split.
  { unfold OnboardPin. match goal with H : pin_source _ _ _ _ |- _ => revert H end.
    unfold pin_source.
    match goal with H : forall p, o_pin o = Some p -> _ |- _ => revert H end.
    destruct (o_pin o) as [p|]; intros Hv Hs.
    - subst pt. cbn [fst]. split; [reflexivity|]. apply Hv. reflexivity.
    - destruct pt as [pin rest]. exists rest. exact Hs. }
  split.
  { match goal with H : confirm stdin = Some ?c, H' : fst ?c = true |- _ =>
      destruct c as [cb cr]; cbn [fst] in H'; subst cb; exists cr; exact H end. }
  eexists _, _, _. split; [reflexivity|]. split; [exists dm; auto|]. split; [reflexivity|].
  match goal with H : (?x =? 1) = false |- _ => red; eexists _, x; split; [reflexivity|]; split; [assumption|];
    intro; subst x; discriminate H end.
Qed.

(* commands the check phases may send *)
Lemma so_checks S k o stdin typed :
  S CMD_GET_MODE = true -> S (echo_cmd k) = true -> S CMD_IS_ONBOARD = true ->
  sends_only S (onboard_pre k o stdin typed).
Proof.
  intros H1 H2 H3. unfold onboard_pre.
  apply sends_only_bind; [destruct k; so_with fail|intro].
  apply sends_only_bind; [destruct (o_pin o); so_with fail|intro].
  apply sends_only_bind; [apply sends_only_connect|intro].
  apply sends_only_bind; [unfold get_current_mode; so_with assumption|intro mode].
  apply sends_only_bind; [so_with fail|intro].
  apply sends_only_bind; [unfold echo; cbv zeta; so_with assumption|intro ok].
  apply sends_only_bind; [so_with fail|intro].
  apply sends_only_bind; [unfold is_onboarded; so_with assumption|intro onb].
  apply sends_only_bind; [so_with fail|intro].
  apply sends_only_bind; [apply sends_only_of_optA|intro c].
  apply sends_only_bind; [so_with fail|intro].
  destruct (o_pin o); [apply sends_only_ret|apply sends_only_of_optA].
Qed.

(* ====================================================================== *)
(* 5. do_onboard: shape of every run                                       *)
(* ====================================================================== *)

Definition onb_cmds : list N := [CMD_SEED; CMD_SEND_PIN; CMD_WIPE; SGXCMD_SGX_ONBOARD].

(* destructive APDU: its command byte is SEED, SEND_PIN, WIPE (Ledger) or SGX_ONBOARD (SGX) *)
Definition destructive (e : event) : bool := cmd_in onb_cmds e.

Definition OnboardShape (k : dongle_kind) (o : admin_opts) (stdin : list str) (typed : list bytes)
                        (seed : bytes) (r : result unit) (n : list event) : Prop :=
  (Nob destructive n /\ is_ok r = false)
  \/ exists pin pre mid cl,
       n = pre ++ mid ++ cl
       /\ OnboardChecked k o stdin typed pin pre
       /\ length seed = 32%nat
       /\ OnboardSent k seed pin (is_ok r) mid
       /\ (cl = [] \/ cl = [Close]).

Theorem do_onboard_shape k o stdin typed seed :
  spec (do_onboard k o stdin typed seed) (fun w r n w' => OnboardShape k o stdin typed seed r n).
Proof.
  eapply spec_meq; [apply do_onboard_split|].
  eapply spec_conseq.
  { eapply spec_bind.
    - apply spec_and.
      + apply (sends_only_Nob onb_cmds). apply so_checks; [reflexivity|destruct k; reflexivity|reflexivity].
      + apply ospec_onboard_pre.
    - intro pt. apply (spec_bind _ _ _ _ (spec_onboard k seed (fst pt)) (fun _ => spec_disconnect)). }
  cbn beta. intros w r n w' H.
  destruct H as [[pt [n1 [n2 [wm [[Hnob Hchk] [H2 ->]]]]]]|[e [-> [Hnob _]]]].
  2:{ left. split; [exact Hnob|reflexivity]. }
  specialize (Hchk pt eq_refl).
  destruct H2 as [[b [n3 [n4 [wm2 [Hon [[_ [-> Hcl]] ->]]]]]]|[e [-> Hon]]].
  - destruct Hon as [[_ [_ C]]|[Hl Hs]]; [discriminate C|].
    right. exists (fst pt), n1, n3, n4. auto 10.
  - destruct Hon as [[_ [-> _]]|[Hl Hs]].
    + left. rewrite app_nil_r. split; [exact Hnob|reflexivity].
    + right. exists (fst pt), n1, n2, []. rewrite app_nil_r. auto 10.
Qed.

Lemma InOrder_exact : forall ps l, Forall2 (fun (p : event -> Prop) e => p e) ps l -> InOrder ps l.
Proof.
  induction 1 as [|p e ps l Hp _ IH]; [exact I|].
  cbn [InOrder]. exists [], e, l. auto.
Qed.

Definition onboard_pre_events (k : dongle_kind) : list (event -> Prop) :=
  [ev_connect; ev_mode MODE_BOOTLOADER; ev_echo k; ev_not_onboarded].

Lemma OnboardChecked_pre k o stdin typed pin pre :
  OnboardChecked k o stdin typed pin pre ->
  Nob destructive pre /\ InOrder (onboard_pre_events k) pre.
Proof.
  intros [_ [_ [_ [em [ee [eo [-> [Hm [He Ho]]]]]]]]]. split.
  - destruct Hm as [dm [-> _]]. red in He. subst ee. destruct Ho as [d [x [-> _]]].
    repeat constructor. destruct k; reflexivity.
  - apply InOrder_exact. repeat constructor; assumption.
Qed.

Lemma spec_run {A} (m : M A) Q w :
  spec m Q -> Q w (fst (m w)) (new_events w (snd (m w))) (snd (m w)).
Proof. intro H. destruct (H w) as [n [Hn Hq]]. rewrite (news_new_events _ _ _ Hn). exact Hq. Qed.

(* ---------- 1. destructive APDUs only under the preconditions ---------- *)
Theorem onboard_destructive_only_under_preconditions k o stdin typed seed w n1 u n2 :
  new_events w (snd (do_onboard k o stdin typed seed w)) = n1 ++ u :: n2 ->
  destructive u = true ->
  InOrder (onboard_pre_events k) n1
  /\ (exists rest, confirm stdin = Some (true, rest))
  /\ (forall p, o_pin o = Some p -> pin_is_valid p false = true)
  /\ length seed = 32%nat
  /\ (k = KLedger -> o_has_output o = true).
Proof.
  intros E Hu.
  pose proof (spec_run _ _ w (do_onboard_shape k o stdin typed seed)) as H. cbn beta in H.
  rewrite E in H. destruct H as [[Hnob _]|[pin [pre [mid [cl [En [Hchk [Hl _]]]]]]]].
  - exfalso. eapply Nob_not_in; eauto.
  - destruct (OnboardChecked_pre _ _ _ _ _ _ Hchk) as [Hnob Hin].
    symmetry in En. destruct (Nob_split _ _ _ _ _ _ Hnob En Hu) as [c [-> _]].
    split; [apply InOrder_app_r; exact Hin|].
    destruct Hchk as [Hout [Hpin [Hc _]]]. split; [exact Hc|]. split; [|auto].
    intros p Ep. unfold OnboardPin in Hpin. rewrite Ep in Hpin. apply Hpin.
Qed.

(* the operator's part, spelled out *)
Corollary onboard_destructive_needs_yes k o stdin typed seed w n1 u n2 :
  new_events w (snd (do_onboard k o stdin typed seed w)) = n1 ++ u :: n2 ->
  destructive u = true ->
  exists junk l rest, stdin = junk ++ l :: rest /\ norm_answer l = s "yes" /\ Forall undecided junk.
Proof.
  intros E Hu.
  destruct (onboard_destructive_only_under_preconditions _ _ _ _ _ _ _ _ _ E Hu) as [_ [[rest Hc] _]].
  apply confirm_yes_iff in Hc. destruct Hc as [junk [l H]]. exists junk, l, rest. exact H.
Qed.

(* ---------- 2 + 3. what is sent: the random seed and a policy-compliant PIN ---------- *)

Definition policy_pin (p : bytes) : Prop := length p = 8%nat /\ Forall alnum p /\ Exists alpha p.

Lemma OnboardPin_policy o typed pin :
  OnboardPin o typed pin ->
  Forall alnum pin
  /\ (o_any_pin o = false -> policy_pin pin)
  /\ (forall p, o_pin o = Some p -> pin = p /\ policy_pin pin)
  /\ (o_pin o = None -> exists bad rest, typed = bad ++ pin :: rest
                          /\ Forall (fun x => pin_is_valid x (o_any_pin o) = false) bad).
Proof.
  unfold OnboardPin. destruct (o_pin o) as [p|].
  - intros [-> Hv]. split; [apply pin_is_valid_any_spec, pin_valid_strict_any; exact Hv|].
    split; [intros _; apply pin_is_valid_spec; exact Hv|].
    split; [|intro C; discriminate C].
    intros p0 E. injection E as <-. split; [reflexivity|apply pin_is_valid_spec; exact Hv].
  - intros [rest Ha]. pose proof (ask_for_pin_valid _ _ _ _ Ha) as Hv.
    split.
    { destruct (o_any_pin o); [apply pin_is_valid_any_spec; exact Hv|].
      apply pin_is_valid_any_spec, pin_valid_strict_any; exact Hv. }
    split; [intro Ea; rewrite Ea in Hv; apply pin_is_valid_spec; exact Hv|].
    split; [intros p C; discriminate C|]. intros _.
    apply ask_for_pin_iff in Ha. destruct Ha as [bad [-> [Hb _]]]. exists bad, rest. auto.
Qed.

Theorem onboard_sends_seed_and_pin k o stdin typed seed w :
  let n := new_events w (snd (do_onboard k o stdin typed seed w)) in
  Exists (fun e => destructive e = true) n ->
  exists pin pre mid cl,
    n = pre ++ mid ++ cl /\ Nob destructive pre /\ Nob destructive cl
    /\ length seed = 32%nat
    /\ OnboardSent k seed pin (is_ok (fst (do_onboard k o stdin typed seed w))) mid
    /\ OnboardPin o typed pin.
Proof.
  intros n Hex. subst n.
  pose proof (spec_run _ _ w (do_onboard_shape k o stdin typed seed)) as H. cbn beta in H.
  destruct H as [[Hnob _]|[pin [pre [mid [cl [En [Hchk [Hl [Hs Hcl]]]]]]]]].
  - exfalso. apply Exists_exists in Hex. destruct Hex as [e [Hin He]].
    unfold Nob in Hnob. rewrite Forall_forall in Hnob. specialize (Hnob e Hin). congruence.
  - exists pin, pre, mid, cl. split; [exact En|].
    split; [apply (OnboardChecked_pre _ _ _ _ _ _ Hchk)|].
    split; [destruct Hcl as [->| ->]; repeat constructor|].
    split; [exact Hl|]. split; [exact Hs|]. apply Hchk.
Qed.

(* Ledger: the SEED APDUs are [CLA; CMD_SEED; j; seed[j]], j = 0.., in order, followed by the
   length-prefixed PIN and WIPE; SGX: one APDU CLA :: SGX_ONBOARD :: 0 :: seed ++ pin *)
Theorem onboard_seed_is_the_random_bytes k o stdin typed seed w :
  let n := new_events w (snd (do_onboard k o stdin typed seed w)) in
  Exists (fun e => destructive e = true) n ->
  length seed = 32%nat /\
  exists pin pre mid cl,
    n = pre ++ mid ++ cl /\ Nob destructive pre /\ Nob destructive cl
    /\ OnboardSent k seed pin (is_ok (fst (do_onboard k o stdin typed seed w))) mid.
Proof.
  intros n Hex. destruct (onboard_sends_seed_and_pin k o stdin typed seed w Hex)
    as [pin [pre [mid [cl [E [H1 [H2 [Hl [Hs _]]]]]]]]].
  split; [exact Hl|]. exists pin, pre, mid, cl. auto.
Qed.

Theorem onboard_pin_policy k o stdin typed seed w :
  let n := new_events w (snd (do_onboard k o stdin typed seed w)) in
  Exists (fun e => destructive e = true) n ->
  exists pin pre mid cl,
    n = pre ++ mid ++ cl /\ Nob destructive pre /\ Nob destructive cl
    /\ OnboardSent k seed pin (is_ok (fst (do_onboard k o stdin typed seed w))) mid
    /\ Forall alnum pin
    /\ (o_any_pin o = false -> policy_pin pin)
    /\ (forall p, o_pin o = Some p -> pin = p /\ policy_pin pin)
    /\ (o_pin o = None -> exists bad rest, typed = bad ++ pin :: rest
                            /\ Forall (fun x => pin_is_valid x (o_any_pin o) = false) bad).
Proof.
  intros n Hex. destruct (onboard_sends_seed_and_pin k o stdin typed seed w Hex)
    as [pin [pre [mid [cl [E [H1 [H2 [Hl [Hs Hp]]]]]]]]].
  exists pin, pre, mid, cl. split; [exact E|]. split; [exact H1|]. split; [exact H2|].
  split; [exact Hs|]. apply OnboardPin_policy. exact Hp.
Qed.

(* reading OnboardSent: the j-th SEED APDU *)
Corollary onboard_seed_apdu_j seed sa j e :
  nth_error (idx_events CMD_SEED 0 seed sa) j = Some e ->
  exists b a, nth_error seed j = Some b /\ e = Apdu [CLA; CMD_SEED; N.of_nat j; b] a.
Proof.
  intro H. destruct (idx_events_nth _ _ _ _ _ _ H) as [b [a [H1 [_ ->]]]]. exists b, a. auto.
Qed.

(* ====================================================================== *)
(* 6. do_unlock: a PIN leaves only for an onboarded device in bootloader   *)
(* ====================================================================== *)

(* "only extends the trace" *)
Definition ext {A} (m : M A) : Prop := spec m (fun _ _ _ _ => True).

Lemma ext_of_spec {A} (m : M A) Q : spec m Q -> ext m.
Proof. intro H. eapply spec_conseq; [exact H|]. auto. Qed.
Lemma ext_bind {A B} (m : M A) (f : A -> M B) : ext m -> (forall a, ext (f a)) -> ext (bind m f).
Proof. intros Hm Hf. eapply ext_of_spec. apply (spec_bind _ _ _ (fun _ _ _ _ _ => True) Hm Hf). Qed.
Lemma ext_try {A} (m : M A) h : ext m -> (forall e k, h e = Some k -> ext k) -> ext (try_catch m h).
Proof.
  intros Hm Hh. eapply ext_of_spec.
  apply (spec_try_catch m h _ (fun _ _ _ _ _ => True) Hm Hh).
Qed.
Lemma ext_ret {A} (a : A) : ext (ret a).
Proof. eapply ext_of_spec, spec_ret. Qed.
Lemma ext_raise {A} e : ext (@raise A e).
Proof. eapply ext_of_spec, spec_raise. Qed.
Lemma ext_if {A} (b : bool) (m1 m2 : M A) : ext m1 -> ext m2 -> ext (if b then m1 else m2).
Proof. destruct b; auto. Qed.
Lemma ext_of_optA {A} (o : option A) : ext (of_optA o).
Proof. destruct o; [apply ext_ret|apply ext_raise]. Qed.
Lemma ext_exit_menu b : ext (exit_menu b).
Proof. unfold exit_menu. apply ext_bind; [eapply ext_of_spec, spec_send|intro; apply ext_ret]. Qed.

Lemma spec_get_current_mode_strong :
  spec get_current_mode
       (sent1 CMD_GET_MODE []
          (fun m ans => mem_N m MODE_VALUES = true
                        /\ (m <> MODE_UNKNOWN -> exists d, ans = Data d /\ idx d 1 = Some m))).
Proof.
  apply spec_of_run. intro w.
  unfold get_current_mode, try_catch, bind. rewrite send_command_run.
  destruct (next_answer w) as [d|sw| | | |]; cbn [classify].
  - unfold idxM. destruct (idx d 1) as [b|] eqn:Ei; [|fin].
    cbn -[idx sent mem_N]. destruct (mem_N b MODE_VALUES) eqn:Eb; fin.
    inversion HH; subst. eauto.
  - destruct (user_defined sw); fin.
    inversion HH; subst. split; [reflexivity|]. intro C; exfalso; apply C; reflexivity.
  - fin.
  - fin.
  - fin.
  - fin. inversion HH; subst. split; [reflexivity|]. intro C; exfalso; apply C; reflexivity.
Qed.

Definition onboarded_check : M unit :=
  onb <- is_onboarded ;; if onb then ret tt else raise AdminError.

Definition unlock_pre (k : dongle_kind) (o : admin_opts) : M unit :=
  (match o_pin o with
   | Some p => if pin_is_valid p (o_any_pin o) then ret tt else raise AdminError
   | None => ret tt end) ;;;
  connect ;;;
  mode <- get_current_mode ;;
  (if mem_N mode [MODE_BOOTLOADER; MODE_SIGNER] then onboarded_check else ret tt) ;;;
  (if mode =? MODE_UNKNOWN then raise AdminError else ret tt) ;;;
  (if (mode =? MODE_SIGNER) || (mode =? MODE_UI_HEARTBEAT) then raise AdminError else ret tt) ;;;
  ok <- echo k ;;
  (if ok then ret tt else raise AdminError).

Definition unlock_rest (k : dongle_kind) (o : admin_opts) (do_exit no_exec : bool)
                       (typed : list bytes) : M (list bytes) :=
  pt <- match o_pin o with
        | Some p => ret (p, typed)
        | None => of_optA (ask_for_pin typed true)
        end ;;
  ok2 <- unlock k (fst pt) ;;
  (if ok2 then ret tt else raise AdminError) ;;;
  (match k with
   | KLedger => if do_exit
                then try_catch (exit_menu (negb (o_no_exec o || no_exec)))
                               (fun e => Some (ret tt))
                else ret tt
   | _ => ret tt end) ;;;
  disconnect ;;;
  ret (snd pt).

Lemma do_unlock_split k o e ne typed :
  meq (do_unlock k o e ne typed) (bind (unlock_pre k o) (fun _ => unlock_rest k o e ne typed)).
Proof. unfold do_unlock, unlock_pre, unlock_rest, onboarded_check. reassoc. Qed.

Lemma ext_unlock_rest k o e ne typed : ext (unlock_rest k o e ne typed).
Proof.
  unfold unlock_rest.
  apply ext_bind; [destruct (o_pin o); [apply ext_ret|apply ext_of_optA]|intro pt].
  apply ext_bind; [eapply ext_of_spec, spec_unlock|intro ok2].
  apply ext_bind; [apply ext_if; [apply ext_ret|apply ext_raise]|intro].
  apply ext_bind.
  { destruct k; try apply ext_ret. apply ext_if; [|apply ext_ret].
    apply ext_try; [apply ext_exit_menu|]. intros e0 k0 H. injection H as <-. apply ext_ret. }
  intro. apply ext_bind; [eapply ext_of_spec, spec_disconnect|intro; apply ext_ret].
Qed.

Lemma ospec_if {A} (b : bool) (m1 m2 : M A) Q1 Q2 :
  ospec m1 Q1 -> ospec m2 Q2 ->
  ospec (if b then m1 else m2) (fun w a n w' => if b then Q1 w a n w' else Q2 w a n w').
Proof. destruct b; auto. Qed.

Lemma ospec_onboarded_check :
  ospec onboarded_check (fun w _ n w' => exists eo, n = [eo] /\ ev_onboarded eo).
Proof.
  unfold onboarded_check. eapply ospec_conseq.
  { eapply ospec_bind; [apply (ospec_sent1 _ _ _ _ spec_is_onboarded)|intro onb]. apply ospec_guard. }
  cbn beta. intros w a n w' H. dall. subst. rewrite app_nil_r.
  eexists. split; [reflexivity|].
  match goal with H : (?x =? 1) = true |- _ => apply N.eqb_eq in H; subst x end.
  red. eauto.
Qed.

Definition UnlockChecked (k : dongle_kind) (o : admin_opts) (n : list event) : Prop :=
  (forall p, o_pin o = Some p -> pin_is_valid p (o_any_pin o) = true)
  /\ exists em eo ee, n = [Connect true; em; eo; ee]
       /\ ev_mode MODE_BOOTLOADER em /\ ev_onboarded eo /\ ev_echo k ee.

Lemma mode_must_be_bootloader m :
  mem_N m MODE_VALUES = true -> (m =? MODE_UNKNOWN) = false ->
  (m =? MODE_SIGNER) || (m =? MODE_UI_HEARTBEAT) = false -> m = MODE_BOOTLOADER.
Proof.
  change MODE_VALUES with [2; 3; 4; 255]. change MODE_UNKNOWN with 255. change MODE_SIGNER with 3.
  change MODE_UI_HEARTBEAT with 4. change MODE_BOOTLOADER with 2. cbn [mem_N]. lia.
Qed.

Lemma ospec_unlock_pre k o : ospec (unlock_pre k o) (fun w _ n w' => UnlockChecked k o n).
Proof.
  unfold unlock_pre.
  eapply ospec_conseq.
  { eapply ospec_bind;
      [apply (ospec_opt_guard (o_pin o) (fun p => pin_is_valid p (o_any_pin o)))|intro].
    eapply ospec_bind; [apply ospec_connect|intro].
    eapply ospec_bind; [apply (ospec_sent1 _ _ _ _ spec_get_current_mode_strong)|intro mode].
    eapply ospec_bind; [apply ospec_if; [apply ospec_onboarded_check|apply ospec_ret]|intro].
    eapply ospec_bind; [apply ospec_guard_neg|intro].
    eapply ospec_bind; [apply ospec_guard_neg|intro].
    eapply ospec_bind; [apply (ospec_sent1 _ _ _ _ (spec_echo k))|intro ok].
    apply ospec_guard. }
  cbn beta. intros w a n w' H. dall. subst. cbn [app].
  match goal with H : true = true -> _ |- _ => specialize (H eq_refl); subst end.
  match goal with H1 : mem_N ?m MODE_VALUES = true, H2 : (?m =? MODE_UNKNOWN) = false, H3 : _ || _ = false |- _ =>
    pose proof (mode_must_be_bootloader m H1 H2 H3); subst m end.
  match goal with H : MODE_BOOTLOADER <> MODE_UNKNOWN -> _ |- _ =>
    destruct H as [dm [-> Hdm]]; [discriminate|] end.
  change (mem_N MODE_BOOTLOADER [MODE_BOOTLOADER; MODE_SIGNER]) with true in *. cbv iota in *.
  dall. subst. cbn [app].
  split; [assumption|]. eexists _, _, _. split; [reflexivity|]. split; [exists dm; auto|].
  split; [assumption|reflexivity].
Qed.

Lemma so_unlock_pre S k o :
  S CMD_GET_MODE = true -> S (echo_cmd k) = true -> S CMD_IS_ONBOARD = true ->
  sends_only S (unlock_pre k o).
Proof.
  intros H1 H2 H3. unfold unlock_pre.
  apply sends_only_bind; [destruct (o_pin o); so_with fail|intro].
  apply sends_only_bind; [apply sends_only_connect|intro].
  apply sends_only_bind; [unfold get_current_mode; so_with assumption|intro mode].
  apply sends_only_bind;
    [apply sends_only_if; [unfold onboarded_check, is_onboarded; so_with assumption|apply sends_only_ret]|intro].
  apply sends_only_bind; [so_with fail|intro].
  apply sends_only_bind; [so_with fail|intro].
  apply sends_only_bind; [unfold echo; cbv zeta; so_with assumption|intro ok].
  so_with fail.
Qed.

Definition pin_cmds : list N := [CMD_SEND_PIN; CMD_UNLOCK; SGXCMD_SGX_UNLOCK].

(* PIN-bearing APDU: SEND_PIN / UNLOCK (Ledger) or SGX_UNLOCK (SGX) *)
Definition pin_bearing (e : event) : bool := cmd_in pin_cmds e.

Theorem do_unlock_shape k o e ne typed :
  spec (do_unlock k o e ne typed) (fun w r n w' =>
    (Nob pin_bearing n /\ is_ok r = false)
    \/ exists pre rest, n = pre ++ rest /\ UnlockChecked k o pre).
Proof.
  eapply spec_meq; [apply do_unlock_split|].
  eapply spec_conseq.
  { eapply spec_bind.
    - apply spec_and.
      + apply (sends_only_Nob pin_cmds). apply so_unlock_pre; [reflexivity|destruct k; reflexivity|reflexivity].
      + apply ospec_unlock_pre.
    - intro. apply ext_unlock_rest. }
  cbn beta. intros w r n w' H.
  destruct H as [[a [n1 [n2 [wm [[Hnob Hchk] [_ ->]]]]]]|[e0 [-> [Hnob _]]]].
  - right. exists n1, n2. split; [reflexivity|]. apply (Hchk a eq_refl).
  - left. auto.
Qed.

Definition unlock_pre_events (k : dongle_kind) : list (event -> Prop) :=
  [ev_connect; ev_mode MODE_BOOTLOADER; ev_onboarded; ev_echo k].

Lemma UnlockChecked_pre k o pre :
  UnlockChecked k o pre -> Nob pin_bearing pre /\ InOrder (unlock_pre_events k) pre.
Proof.
  intros [_ [em [eo [ee [-> [Hm [Ho He]]]]]]]. split.
  - destruct Hm as [dm [-> _]]. red in He. subst ee. destruct Ho as [d [-> _]].
    repeat constructor. destruct k; reflexivity.
  - apply InOrder_exact. repeat constructor; assumption.
Qed.

(* ---------- 4 ---------- *)
Theorem unlock_pin_only_when k o e ne typed w n1 u n2 :
  new_events w (snd (do_unlock k o e ne typed w)) = n1 ++ u :: n2 ->
  pin_bearing u = true ->
  InOrder (unlock_pre_events k) n1
  /\ (forall p, o_pin o = Some p -> pin_is_valid p (o_any_pin o) = true).
Proof.
  intros E Hu.
  pose proof (spec_run _ _ w (do_unlock_shape k o e ne typed)) as H. cbn beta in H.
  rewrite E in H. destruct H as [[Hnob _]|[pre [rest [En Hchk]]]].
  - exfalso. eapply Nob_not_in; eauto.
  - destruct (UnlockChecked_pre _ _ _ Hchk) as [Hnob Hin].
    symmetry in En. destruct (Nob_split _ _ _ _ _ _ Hnob En Hu) as [c [-> _]].
    split; [apply InOrder_app_r; exact Hin|]. apply Hchk.
Qed.

(* a device reporting SIGNER / UI_HEARTBEAT / UNKNOWN mode (or an unreadable mode) never gets a PIN *)
Corollary unlock_wrong_mode_no_pin k o e ne typed w n1 u n2 :
  new_events w (snd (do_unlock k o e ne typed w)) = n1 ++ u :: n2 ->
  pin_bearing u = true ->
  exists l1 d l2, n1 = l1 ++ Apdu [CLA; CMD_GET_MODE] (Data d) :: l2 /\ idx d 1 = Some MODE_BOOTLOADER.
Proof.
  intros E Hu. destruct (unlock_pin_only_when _ _ _ _ _ _ _ _ _ E Hu) as [Hin _].
  unfold unlock_pre_events in Hin. cbn [InOrder] in Hin.
  destruct Hin as [l1 [ec [l2 [-> [_ [l3 [em [l4 [-> [[d [-> Hd]] _]]]]]]]]]].
  exists (l1 ++ ec :: l3), d, l4. rewrite <- app_assoc. cbn [app]. auto.
Qed.

(* ====================================================================== *)
(* 7. do_changepin: the new PIN that is sent complies with the policy      *)
(* ====================================================================== *)

(* facts about the value returned by a normally terminating action *)
Definition rspec {A} (m : M A) (P : A -> Prop) : Prop := forall w a, fst (m w) = Ok a -> P a.

Lemma rspec_bind {A B} (m : M A) (f : A -> M B) (P1 : A -> Prop) (P : B -> Prop) :
  rspec m P1 -> (forall a, P1 a -> rspec (f a) P) -> rspec (bind m f) P.
Proof.
  intros Hm Hf w b H. unfold bind in H. specialize (Hm w).
  destruct (m w) as [[a|e] w1]; cbn [fst] in *; [|discriminate H].
  exact (Hf a (Hm a eq_refl) w1 b H).
Qed.
Lemma rspec_any {A} (m : M A) : rspec m (fun _ => True).
Proof. intros w a _. exact I. Qed.
Lemma rspec_ret {A} (a : A) (P : A -> Prop) : P a -> rspec (ret a) P.
Proof. intros H w b E. cbn in E. injection E as <-. exact H. Qed.
Lemma rspec_meq {A} (m1 m2 : M A) P : meq m1 m2 -> rspec m2 P -> rspec m1 P.
Proof. intros E H w a. rewrite (E w). apply H. Qed.

(* do_unlock hands back what is left of the operator's typed entries *)
Theorem do_unlock_returns_suffix k o e ne typed :
  rspec (do_unlock k o e ne typed) (fun t => exists l, typed = l ++ t).
Proof.
  eapply rspec_meq; [apply do_unlock_split|].
  eapply rspec_bind; [apply rspec_any|intros ? _]. unfold unlock_rest.
  eapply (rspec_bind _ _ (fun pt => exists l, typed = l ++ snd pt)).
  - destruct (o_pin o) as [p|].
    + apply rspec_ret. exists []. reflexivity.
    + intros w pt H. destruct (ask_for_pin typed true) as [[p r]|] eqn:Ea; cbn in H; [|discriminate H].
      injection H as <-. cbn [snd]. eapply ask_for_pin_suffix; exact Ea.
  - intros pt Hpt.
    eapply rspec_bind; [apply rspec_any|intros ? _].
    eapply rspec_bind; [apply rspec_any|intros ? _].
    eapply rspec_bind; [apply rspec_any|intros ? _].
    eapply rspec_bind; [apply rspec_any|intros ? _].
    apply rspec_ret. exact Hpt.
Qed.

Lemma spec_self {A} (m : M A) :
  ext m -> spec m (fun w r n w' => n = new_events w (snd (m w)) /\ r = fst (m w)).
Proof.
  intros H w. destruct (H w) as [n [Hn _]]. exists n. split; [exact Hn|].
  rewrite (news_new_events _ _ _ Hn). auto.
Qed.

Lemma ext_do_unlock k o e ne typed : ext (do_unlock k o e ne typed).
Proof. eapply ext_of_spec, do_unlock_shape. Qed.

Definition unlock_first (k : dongle_kind) (o : admin_opts) (do_exit : bool) (typed : list bytes)
  : M (list bytes) :=
  try_catch (do_unlock k o do_exit false typed) (fun e => Some (raise AdminError)).

Lemma spec_unlock_first k o e typed :
  spec (unlock_first k o e typed) (fun w r n w' =>
    n = new_events w (snd (do_unlock k o e false typed w))
    /\ forall t, r = Ok t -> exists l, typed = l ++ t).
Proof.
  unfold unlock_first. eapply spec_conseq.
  { eapply (spec_try_catch _ _ _ (fun _ _ r n _ => n = [] /\ r = Exn AdminError)).
    - apply spec_self, ext_do_unlock.
    - intros e0 k0 H. injection H as <-. eapply spec_conseq; [apply spec_raise|]. cbn beta.
      intros w r n w' [-> [-> _]]. auto. }
  cbn beta.
  intros w r n w' [[a [Er [En Hr]]]|[[e0 [C _]]|[e0 [k0 [n1 [n2 [wm [_ [[En _] [[-> Er] ->]]]]]]]]]].
  - subst r n. split; [reflexivity|]. intros t E. injection E as <-.
    eapply do_unlock_returns_suffix. symmetry. exact Hr.
  - discriminate C.
  - subst r n1. rewrite app_nil_r. split; [reflexivity|]. intros t E. discriminate E.
Qed.

Definition changepin_pre (k : dongle_kind) (o : admin_opts) (typed' : list bytes)
  : M (bytes * list bytes) :=
  connect ;;;
  mode <- get_current_mode ;;
  (match k with
   | KLedger => if mode =? MODE_BOOTLOADER then ret tt else raise AdminError
   | _ => ret tt end) ;;;
  match o_new_pin o with
  | Some p => ret (p, typed')
  | None => of_optA (ask_for_pin typed' (o_any_pin o))
  end.

Definition changepin_send (k : dongle_kind) (pt : bytes * list bytes) : M unit :=
  ok <- new_pin k (fst pt) ;;
  (if ok then ret tt else raise AdminError) ;;;
  disconnect.

Definition changepin_rest (k : dongle_kind) (o : admin_opts) (typed' : list bytes) : M unit :=
  bind (changepin_pre k o typed') (changepin_send k).

Definition newpin_check (o : admin_opts) : M unit :=
  match o_new_pin o with
  | Some p => if pin_is_valid p (o_any_pin o) then ret tt else raise AdminError
  | None => ret tt end.

Lemma do_changepin_split k o typed :
  meq (do_changepin k o typed)
      (newpin_check o ;;;
       typed' <- (if o_no_unlock o then ret typed else unlock_first k o false typed) ;;
       changepin_rest k o typed').
Proof.
  unfold do_changepin, newpin_check, changepin_rest, changepin_pre, changepin_send, unlock_first.
  apply meq_cong; intro. apply meq_cong; intro typed'. reassoc.
Qed.

Definition newpin_cmds : list N := [CMD_SEND_PIN; CMD_CHANGE_PIN; SGXCMD_SGX_CHANGE_PASSWORD].
Definition newpin_ev (e : event) : bool := cmd_in newpin_cmds e.

Lemma so_changepin_pre S k o typed' :
  S CMD_GET_MODE = true -> sends_only S (changepin_pre k o typed').
Proof.
  intro H1. unfold changepin_pre.
  apply sends_only_bind; [apply sends_only_connect|intro].
  apply sends_only_bind; [unfold get_current_mode; so_with assumption|intro mode].
  apply sends_only_bind; [destruct k; so_with fail|intro].
  destruct (o_new_pin o); [apply sends_only_ret|apply sends_only_of_optA].
Qed.

Lemma ospec_changepin_pre k o typed' :
  ospec (changepin_pre k o typed')
        (fun w pt n w' => pin_source (o_new_pin o) typed' (o_any_pin o) pt).
Proof.
  unfold changepin_pre. eapply ospec_conseq.
  { eapply ospec_bind; [apply ospec_connect|intro].
    eapply ospec_bind; [apply (ospec_sent1 _ _ _ _ spec_get_current_mode)|intro mode].
    eapply ospec_bind; [apply ospec_ledger_guard|intro].
    apply ospec_pin_source. }
  cbn beta. intros w pt n w' H. dall. assumption.
Qed.

Lemma spec_changepin_send k pt :
  spec (changepin_send k pt) (fun w r n w' =>
    exists mid post, n = mid ++ post /\ NewPinSent k (fst pt) mid /\ (post = [] \/ post = [Close])).
Proof.
  unfold changepin_send. eapply spec_conseq.
  { eapply (spec_bind _ _ _ _ (spec_new_pin k (fst pt))). intro ok.
    eapply (spec_bind _ _ (fun _ _ n _ => n = []) _).
    - destruct ok; [apply silent_ret|apply silent_raise].
    - intro. apply spec_disconnect. }
  cbn beta.
  intros w r n w' [[ok [n1 [n2 [wm [H1 [H2 ->]]]]]]|[e [_ H1]]].
  - exists n1, n2. split; [reflexivity|]. split; [exact H1|].
    destruct H2 as [[a [n3 [n4 [wm2 [-> [[_ [_ Hc]] ->]]]]]]|[e [_ ->]]]; auto.
  - exists n, []. rewrite app_nil_r. auto.
Qed.

(* the new PIN and where it comes from *)
Definition ChangePin (o : admin_opts) (typed' : list bytes) (pin : bytes) : Prop :=
  pin_is_valid pin (o_any_pin o) = true
  /\ match o_new_pin o with
     | Some p => pin = p
     | None => exists rest, ask_for_pin typed' (o_any_pin o) = Some (pin, rest)
     end.

Lemma ChangePin_policy o typed' pin :
  ChangePin o typed' pin -> Forall alnum pin /\ (o_any_pin o = false -> policy_pin pin).
Proof.
  intros [Hv _]. split.
  - destruct (o_any_pin o); [apply pin_is_valid_any_spec; exact Hv|].
    apply pin_is_valid_any_spec, pin_valid_strict_any; exact Hv.
  - intro Ea. rewrite Ea in Hv. apply pin_is_valid_spec. exact Hv.
Qed.

Definition NewPinPhase (k : dongle_kind) (o : admin_opts) (typed' : list bytes) (n : list event) : Prop :=
  Nob newpin_ev n
  \/ exists pin pre mid post,
       n = pre ++ mid ++ post /\ Nob newpin_ev pre /\ Nob newpin_ev post
       /\ NewPinSent k pin mid /\ ChangePin o typed' pin.

Lemma spec_changepin_rest k o typed' :
  (forall p, o_new_pin o = Some p -> pin_is_valid p (o_any_pin o) = true) ->
  spec (changepin_rest k o typed') (fun w r n w' => NewPinPhase k o typed' n).
Proof.
  intro Hchk. unfold changepin_rest. eapply spec_conseq.
  { eapply spec_bind.
    - apply spec_and.
      + apply (sends_only_Nob newpin_cmds). apply so_changepin_pre. reflexivity.
      + apply ospec_changepin_pre.
    - intro pt. apply spec_changepin_send. }
  cbn beta. intros w r n w' H.
  destruct H as [[pt [n1 [n2 [wm [[Hnob Hsrc] [[mid [post [-> [Hs Hp]]]] ->]]]]]]|[e [_ [Hnob _]]]].
  2:{ left. exact Hnob. }
  right. exists (fst pt), n1, mid, post. split; [reflexivity|]. split; [exact Hnob|].
  split; [destruct Hp as [->| ->]; repeat constructor|]. split; [exact Hs|].
  specialize (Hsrc pt eq_refl). unfold pin_source in Hsrc. unfold ChangePin.
  destruct (o_new_pin o) as [p|] eqn:Ep.
  - subst pt. cbn [fst]. split; [apply Hchk; reflexivity|reflexivity].
  - destruct pt as [pin rest]. cbn [fst]. split; [eapply ask_for_pin_valid; exact Hsrc|eauto].
Qed.

Lemma spec_newpin_check o :
  spec (newpin_check o) (fun w r n w' =>
    n = [] /\ w' = w
    /\ (forall a, r = Ok a -> forall p, o_new_pin o = Some p -> pin_is_valid p (o_any_pin o) = true)).
Proof.
  unfold newpin_check. destruct (o_new_pin o) as [p|].
  - destruct (pin_is_valid p (o_any_pin o)) eqn:Ev.
    + eapply spec_conseq; [apply spec_ret|]. cbn beta. intros w r n w' [_ [-> ->]].
      split; [reflexivity|]. split; [reflexivity|]. intros _ _ p0 E. injection E as <-. exact Ev.
    + eapply spec_conseq; [apply spec_raise|]. cbn beta. intros w r n w' [-> [-> ->]].
      split; [reflexivity|]. split; [reflexivity|]. intros a C. discriminate C.
  - eapply spec_conseq; [apply spec_ret|]. cbn beta. intros w r n w' [_ [-> ->]].
    split; [reflexivity|]. split; [reflexivity|]. intros _ _ p0 E. discriminate E.
Qed.

(* every run of do_changepin: first the events of the (optional) unlock, then the PIN-change
   phase, in which the only SEND_PIN / CHANGE_PIN / SGX_CHANGE_PASSWORD APDUs carry a PIN that
   passed the policy in force *)
Definition ChangepinShape (k : dongle_kind) (o : admin_opts) (typed : list bytes)
                          (w : world) (r : result unit) (n : list event) : Prop :=
  (n = [] /\ r = Exn AdminError
   /\ exists p, o_new_pin o = Some p /\ pin_is_valid p (o_any_pin o) = false)
  \/ exists nu nc typed',
       n = nu ++ nc
       /\ nu = (if o_no_unlock o then [] else new_events w (snd (do_unlock k o false false typed w)))
       /\ (exists l, typed = l ++ typed')
       /\ NewPinPhase k o typed' nc.

Theorem do_changepin_shape k o typed :
  spec (do_changepin k o typed) (fun w r n w' => ChangepinShape k o typed w r n).
Proof.
  eapply spec_meq; [apply do_changepin_split|].
  assert (Hcases : (exists p, o_new_pin o = Some p /\ pin_is_valid p (o_any_pin o) = false)
                   \/ (forall p, o_new_pin o = Some p -> pin_is_valid p (o_any_pin o) = true)).
  { destruct (o_new_pin o) as [p|]; [|right; intros p C; discriminate C].
    destruct (pin_is_valid p (o_any_pin o)) eqn:Ev; [right|left; eauto].
    intros p0 E. injection E as <-. exact Ev. }
  destruct Hcases as [[p [Ep Ev]]|Hc].
  - unfold newpin_check. rewrite Ep, Ev.
    intro w. exists []. cbn [bind raise fst snd]. split; [reflexivity|]. left. eauto.
  - assert (E : newpin_check o = ret tt).
    { unfold newpin_check. destruct (o_new_pin o) as [p|]; [|reflexivity].
      rewrite (Hc p eq_refl). reflexivity. }
    rewrite E. eapply spec_conseq.
    { eapply (spec_bind _ _ _ _ (spec_ret tt)). intros ?.
      eapply spec_bind.
      - instantiate (1 := fun w r n w' =>
          n = (if o_no_unlock o then [] else new_events w (snd (do_unlock k o false false typed w)))
          /\ forall t, r = Ok t -> exists l, typed = l ++ t).
        destruct (o_no_unlock o).
        + eapply spec_conseq; [apply spec_ret|]. cbn beta. intros w r n w' [-> [-> _]].
          split; [reflexivity|]. intros t E0. injection E0 as <-. exists []. reflexivity.
        + apply spec_unlock_first.
      - intro typed'. apply (spec_changepin_rest k o typed' Hc). }
    cbn beta. intros w r n w' H. right.
    destruct H as [[a [n0 [n' [wm [[_ [-> ->]] [H ->]]]]]]|[e [_ [C _]]]]; [|discriminate C].
    cbn [app].
    destruct H as [[t [n1 [n2 [wm2 [[-> Hs] [Hp ->]]]]]]|[e [_ [-> _]]]].
    + eexists _, n2, t. split; [reflexivity|]. split; [reflexivity|].
      split; [apply Hs; reflexivity|exact Hp].
    + eexists _, [], typed. rewrite app_nil_r. split; [reflexivity|]. split; [reflexivity|].
      split; [exists []; reflexivity|]. left. constructor.
Qed.

(* ---------- 3 (changepin) ---------- *)
Theorem changepin_pin_policy k o typed w :
  let n := new_events w (snd (do_changepin k o typed w)) in
  exists nu nc,
    n = nu ++ nc
    /\ (nu = [] \/ (o_no_unlock o = false
                    /\ nu = new_events w (snd (do_unlock k o false false typed w))))
    /\ (Nob newpin_ev nc
        \/ exists pin pre mid post,
             nc = pre ++ mid ++ post /\ Nob newpin_ev pre /\ Nob newpin_ev post
             /\ NewPinSent k pin mid
             /\ pin_is_valid pin (o_any_pin o) = true
             /\ Forall alnum pin
             /\ (o_any_pin o = false -> policy_pin pin)
             /\ (forall p, o_new_pin o = Some p -> pin = p)
             /\ (o_new_pin o = None -> In pin typed)).
Proof.
  intro n. subst n.
  pose proof (spec_run _ _ w (do_changepin_shape k o typed)) as H. cbn beta in H.
  destruct H as [[-> _]|[nu [nc [typed' [-> [-> [[l ->] Hp]]]]]]].
  - exists [], []. split; [reflexivity|]. split; [left; reflexivity|]. left. constructor.
  - eexists _, nc. split; [reflexivity|].
    split; [destruct (o_no_unlock o); [left; reflexivity|right; split; reflexivity]|].
    destruct Hp as [Hnob|[pin [pre [mid [post [-> [H1 [H2 [Hs Hcp]]]]]]]]]; [left; exact Hnob|].
    right. exists pin, pre, mid, post. split; [reflexivity|]. split; [exact H1|]. split; [exact H2|].
    split; [exact Hs|]. destruct (ChangePin_policy _ _ _ Hcp) as [Ha Hpol].
    destruct Hcp as [Hv Hsrc]. split; [exact Hv|]. split; [exact Ha|]. split; [exact Hpol|].
    split.
    + intros p Ep. rewrite Ep in Hsrc. exact Hsrc.
    + intro Ep. rewrite Ep in Hsrc. destruct Hsrc as [rest Hask].
      apply ask_for_pin_iff in Hask. destruct Hask as [bad [-> _]].
      apply in_or_app. right. apply in_or_app. right. left. reflexivity.
Qed.

(* ====================================================================== *)
(* 8. Positive direction: an honest Ledger device is onboarded             *)
(* ====================================================================== *)

Definition steps {A} (m : M A) (w : world) (a : A) (n : list event) (w' : world) : Prop :=
  m w = (Ok a, w') /\ news w w' n.

Lemma steps_bind {A B} (m : M A) (f : A -> M B) w a n1 w1 b n2 w2 :
  steps m w a n1 w1 -> steps (f a) w1 b n2 w2 -> steps (bind m f) w b (n1 ++ n2) w2.
Proof.
  intros [E1 N1] [E2 N2]. split; [|eapply news_trans; eauto].
  unfold bind. rewrite E1. exact E2.
Qed.

Lemma steps_ret {A} (a : A) w : steps (ret a) w a [] w.
Proof. split; reflexivity. Qed.

Lemma news_sent c d w : news w (sent c d w) [Apdu (CLA :: c :: d) (next_answer w)].
Proof. reflexivity. Qed.

Lemma opened_sent c d w : opened (sent c d w) = opened w.
Proof. reflexivity. Qed.

Lemma steps_sent {A} (m : M A) c d w a r rest :
  script w = r :: rest -> m w = (Ok a, sent c d w) ->
  steps m w a [Apdu (CLA :: c :: d) r] (sent c d w).
Proof.
  intros Hs E. split; [exact E|]. rewrite <- (next_answer_script _ _ _ Hs). apply news_sent.
Qed.

Lemma steps_connect w : conn_ok w -> steps connect w tt [Connect true] (connected w).
Proof.
  unfold steps, conn_ok, connect, connected. intros ->. split; reflexivity.
Qed.

Lemma steps_disconnect w :
  opened w = true -> steps disconnect w tt [Close] (push Close (set_opened w false)).
Proof. unfold steps, disconnect. intros ->. split; reflexivity. Qed.

Lemma is_onboarded_run w d x rest :
  script w = Data d :: rest -> idx d 1 = Some x ->
  is_onboarded w = (Ok (x =? 1), sent CMD_IS_ONBOARD [] w).
Proof.
  intros Hs Hd. unfold is_onboarded, bind.
  rewrite send_command_run, (next_answer_script _ _ _ Hs). cbn [classify].
  unfold idxM. rewrite Hd. reflexivity.
Qed.

Lemma wipe_core_run w d rest :
  script w = Data d :: rest -> idx d 1 = Some 2 -> wipe_core w = (Ok true, sent CMD_WIPE [] w).
Proof.
  intros Hs Hd. unfold wipe_core, bind.
  rewrite send_command_run, (next_answer_script _ _ _ Hs). cbn [classify].
  unfold idxM. rewrite Hd. reflexivity.
Qed.

Lemma send_idx_run c data : forall i w ds rest,
  script w = map Data ds ++ rest -> length ds = length data ->
  exists w', steps (send_idx c i data) w tt (idx_events c i data (map Data ds)) w'
             /\ script w' = rest /\ opened w' = opened w.
Proof.
  induction data as [|x data IH]; intros i w ds rest Hs Hl.
  - destruct ds; [|discriminate]. exists w. cbn [send_idx idx_events map]. split; [apply steps_ret|auto].
  - destruct ds as [|d ds]; [discriminate|]. cbn [map app] in Hs. cbn [send_idx].
    destruct (IH (i + 1) (sent c [i; x] w) ds rest) as [w' [S' [H1 H2]]].
    + rewrite script_sent, Hs. reflexivity.
    + cbn [length] in Hl. lia.
    + exists w'. split; [|split; [exact H1|rewrite H2; apply opened_sent]].
      cbn [map idx_events].
      change (Apdu [CLA; c; i; x] (Data d) :: idx_events c (i + 1) data (map Data ds))
        with ([Apdu (CLA :: c :: [i; x]) (Data d)] ++ idx_events c (i + 1) data (map Data ds)).
      eapply steps_bind; [|exact S'].
      eapply steps_sent; [exact Hs|]. rewrite send_command_run, (next_answer_script _ _ _ Hs).
      reflexivity.
Qed.

Lemma onboard_ledger_eq seed pin :
  length seed = 32%nat -> onboard KLedger seed pin = ledger_onboard seed pin.
Proof.
  intro Hl. unfold onboard.
  replace (nlen seed =? ONB_SEED_LENGTH) with true; [reflexivity|].
  symmetry. apply N.eqb_eq. unfold nlen. rewrite Hl. reflexivity.
Qed.

Lemma ledger_onboard_run seed pin w sds pds dw rest :
  script w = map Data sds ++ map Data pds ++ Data dw :: rest ->
  length sds = length seed -> length pds = S (length pin) -> idx dw 1 = Some 2 ->
  exists w', steps (ledger_onboard seed pin) w true
               (idx_events CMD_SEED 0 seed (map Data sds)
                ++ idx_events CMD_SEND_PIN 0 (nlen pin :: pin) (map Data pds)
                ++ [Apdu [CLA; CMD_WIPE] (Data dw)]) w'
             /\ script w' = rest /\ opened w' = opened w.
Proof.
  intros Hs Hl1 Hl2 Hw. unfold ledger_onboard, send_pin.
  rewrite send_seed_bytes_eq, send_pin_bytes_eq.
  destruct (send_idx_run CMD_SEED seed 0 w sds _ Hs Hl1) as [w1 [S1 [Hs1 Ho1]]].
  destruct (send_idx_run CMD_SEND_PIN (nlen pin :: pin) 0 w1 pds _ Hs1 Hl2) as [w2 [S2 [Hs2 Ho2]]].
  exists (sent CMD_WIPE [] w2). split.
  - eapply steps_bind; [exact S1|]. eapply steps_bind; [exact S2|].
    eapply steps_sent; [exact Hs2|]. eapply wipe_core_run; eauto.
  - rewrite script_sent, Hs2, opened_sent, Ho2, Ho1. auto.
Qed.

Lemma OnboardPin_steps o typed pin :
  OnboardPin o typed pin ->
  (match o_pin o with
   | Some p => if pin_is_valid p false then ret tt else raise AdminError
   | None => ret tt end) = ret tt
  /\ exists tr, forall w,
       steps (match o_pin o with
              | Some p => ret (p, typed)
              | None => of_optA (ask_for_pin typed (o_any_pin o))
              end) w (pin, tr) [] w.
Proof.
  unfold OnboardPin. destruct (o_pin o) as [p|].
  - intros [-> Hv]. rewrite Hv. split; [reflexivity|]. exists typed. intro w. apply steps_ret.
  - intros [tr Ha]. split; [reflexivity|]. exists tr. intro w. rewrite Ha. apply steps_ret.
Qed.

(* ---------- 5 ---------- *)
Theorem carried_out_when_preconditions_hold o stdin typed seed w pin crest dm dob sds pds dw rest :
  o_has_output o = true ->
  conn_ok w ->
  OnboardPin o typed pin ->
  confirm stdin = Some (true, crest) ->
  length seed = 32%nat ->
  script w = Data dm :: Data (CLA :: CMD_ECHO :: echo_msg) :: Data dob
               :: map Data sds ++ map Data pds ++ Data dw :: rest ->
  idx dm 1 = Some MODE_BOOTLOADER ->
  (exists x, idx dob 1 = Some x /\ x <> 1) ->
  length sds = 32%nat -> length pds = S (length pin) -> idx dw 1 = Some 2 ->
  exists w',
    do_onboard KLedger o stdin typed seed w = (Ok tt, w')
    /\ new_events w w'
       = Connect true
         :: Apdu [CLA; CMD_GET_MODE] (Data dm)
         :: Apdu (CLA :: CMD_ECHO :: echo_msg) (Data (CLA :: CMD_ECHO :: echo_msg))
         :: Apdu [CLA; CMD_IS_ONBOARD] (Data dob)
         :: idx_events CMD_SEED 0 seed (map Data sds)
            ++ idx_events CMD_SEND_PIN 0 (nlen pin :: pin) (map Data pds)
            ++ [Apdu [CLA; CMD_WIPE] (Data dw); Close]
    /\ script w' = rest.
Proof.
  intros Hout Hc Hpin Hconf Hl Hs Hm [x [Hx Hx1]] Hl1 Hl2 Hw.
  destruct (OnboardPin_steps _ _ _ Hpin) as [Epin [tr Spt]].
  set (w1 := connected w).
  set (w2 := sent CMD_GET_MODE [] w1).
  set (w3 := sent (echo_cmd KLedger) echo_msg w2).
  set (w4 := sent CMD_IS_ONBOARD [] w3).
  assert (Hs1 : script w1 = script w) by reflexivity.
  assert (Hs2 : script w2 = tl (script w)) by reflexivity.
  assert (Hs3 : script w3 = tl (tl (script w))) by reflexivity.
  assert (Hs4 : script w4 = tl (tl (tl (script w)))) by reflexivity.
  rewrite Hs in Hs1, Hs2, Hs3, Hs4. cbn [tl] in Hs2, Hs3, Hs4.
  assert (Ho4 : opened w4 = true) by reflexivity.
  destruct (ledger_onboard_run seed pin w4 sds pds dw rest Hs4 (eq_trans Hl1 (eq_sym Hl)) Hl2 Hw)
    as [w5 [S5 [Hs5 Ho5]]].
  assert (S : steps (do_onboard KLedger o stdin typed seed) w tt
                ([] ++ [] ++ [Connect true] ++ [Apdu (CLA :: CMD_GET_MODE :: []) (Data dm)] ++ []
                 ++ [Apdu (CLA :: echo_cmd KLedger :: echo_msg) (Data (CLA :: CMD_ECHO :: echo_msg))] ++ []
                 ++ [Apdu (CLA :: CMD_IS_ONBOARD :: []) (Data dob)] ++ [] ++ [] ++ [] ++ []
                 ++ (idx_events CMD_SEED 0 seed (map Data sds)
                     ++ idx_events CMD_SEND_PIN 0 (nlen pin :: pin) (map Data pds)
                     ++ [Apdu [CLA; CMD_WIPE] (Data dw)]) ++ [Close])
                (push Close (set_opened w5 false))).
  { unfold do_onboard. rewrite Hout, Epin, Hconf.
    eapply steps_bind; [apply steps_ret|].
    eapply steps_bind; [apply steps_ret|].
    eapply steps_bind; [apply steps_connect; exact Hc|].
    eapply steps_bind.
    { eapply steps_sent; [exact Hs1|]. eapply get_current_mode_run; [exact Hs1|exact Hm|reflexivity]. }
    eapply steps_bind; [apply steps_ret|].
    eapply steps_bind.
    { eapply steps_sent; [exact Hs2|]. eapply (echo_run KLedger); exact Hs2. }
    eapply steps_bind; [apply steps_ret|].
    eapply steps_bind.
    { eapply steps_sent; [exact Hs3|]. eapply is_onboarded_run; [exact Hs3|exact Hx]. }
    replace (x =? 1) with false by (symmetry; apply N.eqb_neq; exact Hx1).
    eapply steps_bind; [apply steps_ret|].
    eapply steps_bind; [apply steps_ret|].
    eapply steps_bind; [apply steps_ret|].
    eapply steps_bind; [apply Spt|].
    cbn [fst]. rewrite (onboard_ledger_eq _ _ Hl).
    eapply steps_bind; [exact S5|].
    apply steps_disconnect. rewrite Ho5. exact Ho4. }
  exists (push Close (set_opened w5 false)). destruct S as [E N].
  split; [exact E|]. split; [|exact Hs5].
  rewrite (news_new_events _ _ _ N). cbn [app]. rewrite <- !app_assoc. reflexivity.
Qed.

(* the same on SGX: one SGX_ONBOARD APDU carrying seed ++ password *)
Lemma sgx_onboard_core_run data w d rest :
  script w = Data d :: rest -> idx d 2 = Some 1 ->
  sgx_onboard_core data w = (Ok true, sent SGXCMD_SGX_ONBOARD data w).
Proof.
  intros Hs Hd. unfold sgx_onboard_core, bind.
  rewrite send_command_run, (next_answer_script _ _ _ Hs). cbn [classify].
  unfold idxM. rewrite Hd. reflexivity.
Qed.

Lemma onboard_sgx_eq seed pin :
  length seed = 32%nat -> onboard KSgx seed pin = sgx_onboard_core (0 :: seed ++ pin).
Proof.
  intro Hl. unfold onboard.
  replace (nlen seed =? ONB_SEED_LENGTH) with true; [reflexivity|].
  symmetry. apply N.eqb_eq. unfold nlen. rewrite Hl. reflexivity.
Qed.

Theorem carried_out_when_preconditions_hold_sgx o stdin typed seed w pin crest dm dob dn rest :
  conn_ok w ->
  OnboardPin o typed pin ->
  confirm stdin = Some (true, crest) ->
  length seed = 32%nat ->
  script w = Data dm :: Data (CLA :: SGXCMD_SGX_ECHO :: echo_msg) :: Data dob :: Data dn :: rest ->
  idx dm 1 = Some MODE_BOOTLOADER ->
  (exists x, idx dob 1 = Some x /\ x <> 1) ->
  idx dn 2 = Some 1 ->
  exists w',
    do_onboard KSgx o stdin typed seed w = (Ok tt, w')
    /\ new_events w w'
       = [Connect true;
          Apdu [CLA; CMD_GET_MODE] (Data dm);
          Apdu (CLA :: SGXCMD_SGX_ECHO :: echo_msg) (Data (CLA :: SGXCMD_SGX_ECHO :: echo_msg));
          Apdu [CLA; CMD_IS_ONBOARD] (Data dob);
          Apdu (CLA :: SGXCMD_SGX_ONBOARD :: 0 :: seed ++ pin) (Data dn);
          Close]
    /\ script w' = rest.
Proof.
  intros Hc Hpin Hconf Hl Hs Hm [x [Hx Hx1]] Hn.
  destruct (OnboardPin_steps _ _ _ Hpin) as [Epin [tr Spt]].
  set (w1 := connected w).
  set (w2 := sent CMD_GET_MODE [] w1).
  set (w3 := sent (echo_cmd KSgx) echo_msg w2).
  set (w4 := sent CMD_IS_ONBOARD [] w3).
  set (w5 := sent SGXCMD_SGX_ONBOARD (0 :: seed ++ pin) w4).
  assert (Hs1 : script w1 = script w) by reflexivity.
  assert (Hs2 : script w2 = tl (script w)) by reflexivity.
  assert (Hs3 : script w3 = tl (tl (script w))) by reflexivity.
  assert (Hs4 : script w4 = tl (tl (tl (script w)))) by reflexivity.
  assert (Hs5 : script w5 = tl (tl (tl (tl (script w))))) by reflexivity.
  rewrite Hs in Hs1, Hs2, Hs3, Hs4, Hs5. cbn [tl] in Hs2, Hs3, Hs4, Hs5.
  assert (Ho5 : opened w5 = true) by reflexivity.
  assert (S : steps (do_onboard KSgx o stdin typed seed) w tt
                ([] ++ [] ++ [Connect true] ++ [Apdu (CLA :: CMD_GET_MODE :: []) (Data dm)] ++ []
                 ++ [Apdu (CLA :: echo_cmd KSgx :: echo_msg) (Data (CLA :: SGXCMD_SGX_ECHO :: echo_msg))] ++ []
                 ++ [Apdu (CLA :: CMD_IS_ONBOARD :: []) (Data dob)] ++ [] ++ [] ++ [] ++ []
                 ++ [Apdu (CLA :: SGXCMD_SGX_ONBOARD :: 0 :: seed ++ pin) (Data dn)] ++ [Close])
                (push Close (set_opened w5 false))).
  { unfold do_onboard. rewrite Epin, Hconf.
    eapply steps_bind; [apply steps_ret|].
    eapply steps_bind; [apply steps_ret|].
    eapply steps_bind; [apply steps_connect; exact Hc|].
    eapply steps_bind.
    { eapply steps_sent; [exact Hs1|]. eapply get_current_mode_run; [exact Hs1|exact Hm|reflexivity]. }
    eapply steps_bind; [apply steps_ret|].
    eapply steps_bind.
    { eapply steps_sent; [exact Hs2|]. eapply (echo_run KSgx); exact Hs2. }
    eapply steps_bind; [apply steps_ret|].
    eapply steps_bind.
    { eapply steps_sent; [exact Hs3|]. eapply is_onboarded_run; [exact Hs3|exact Hx]. }
    replace (x =? 1) with false by (symmetry; apply N.eqb_neq; exact Hx1).
    eapply steps_bind; [apply steps_ret|].
    eapply steps_bind; [apply steps_ret|].
    eapply steps_bind; [apply steps_ret|].
    eapply steps_bind; [apply Spt|].
    cbn [fst]. rewrite (onboard_sgx_eq _ _ Hl).
    eapply steps_bind.
    { eapply steps_sent; [exact Hs4|]. eapply sgx_onboard_core_run; [exact Hs4|exact Hn]. }
    apply steps_disconnect. exact Ho5. }
  exists (push Close (set_opened w5 false)). destruct S as [E N].
  split; [exact E|]. split; [|exact Hs5].
  rewrite (news_new_events _ _ _ N). reflexivity.
Qed.

(* ====================================================================== *)
(* 9. do_get_pubkeys: the keys returned are the device's answers           *)
(* ====================================================================== *)

Fixpoint key_events (paths : list (str * str * bytes)) (ds : list bytes) : list event :=
  match paths, ds with
  | (nm, pth, bin) :: r, d :: ds' =>
      Apdu (CLA :: CMD_GET_PUBLIC_KEY :: bin) (Data d) :: key_events r ds'
  | _, _ => []
  end.

Fixpoint key_entries (paths : list (str * str * bytes)) (ds : list bytes) : list (str * str * str) :=
  match paths, ds with
  | (nm, pth, bin) :: r, d :: ds' => (nm, pth, hex d) :: key_entries r ds'
  | _, _ => []
  end.

Lemma key_nth : forall paths ds j nm pth bin d,
  nth_error paths j = Some (nm, pth, bin) -> nth_error ds j = Some d ->
  nth_error (key_entries paths ds) j = Some (nm, pth, hex d)
  /\ nth_error (key_events paths ds) j = Some (Apdu (CLA :: CMD_GET_PUBLIC_KEY :: bin) (Data d)).
Proof.
  induction paths as [|[[nm0 pth0] bin0] r IH]; intros ds j nm pth bin d Hp Hd.
  - destruct j; discriminate Hp.
  - destruct ds as [|d0 ds]; [destruct j; discriminate Hd|].
    destruct j as [|j]; cbn [nth_error key_entries key_events] in *.
    + injection Hp as -> -> ->. injection Hd as ->. auto.
    + eapply IH; eauto.
Qed.

Lemma key_entries_names : forall paths ds, length ds = length paths ->
  map (fun e => (fst (fst e), snd (fst e))) (key_entries paths ds)
  = map (fun p => (fst (fst p), snd (fst p))) paths.
Proof.
  induction paths as [|[[nm pth] bin] r IH]; intros [|d ds] Hl; try discriminate Hl; [reflexivity|].
  cbn [key_entries map fst snd]. f_equal. apply IH. cbn [length] in Hl. lia.
Qed.

Lemma spec_get_public_key bin :
  spec (get_public_key bin)
       (sent1 CMD_GET_PUBLIC_KEY bin (fun k ans => exists d, ans = Data d /\ k = hex d)).
Proof.
  apply spec_of_run. intro w. unfold get_public_key, bind. rewrite send_command_run.
  destruct (next_answer w) as [d|sw| | | |]; cbn [classify].
  - fin. injection HH as <-. eauto.
  - destruct (user_defined sw); fin.
  - fin.
  - fin.
  - fin.
  - fin.
Qed.

Lemma ospec_get_keys : forall paths,
  ospec (get_keys paths) (fun w ks n w' =>
    exists ds, length ds = length paths /\ n = key_events paths ds /\ ks = key_entries paths ds).
Proof.
  induction paths as [|[[nm pth] bin] r IH]; cbn [get_keys].
  - eapply ospec_conseq; [apply ospec_ret|]. cbn beta. intros w ks n w' [-> [-> _]].
    exists []. auto.
  - eapply ospec_conseq.
    { eapply ospec_bind; [apply (ospec_sent1 _ _ _ _ (spec_get_public_key bin))|intro k0].
      eapply ospec_bind; [apply IH|intro more]. apply ospec_ret. }
    cbn beta. intros w ks n w' H. dall. subst. rewrite app_nil_r.
    match goal with H : length ?ds = length r |- _ => rename ds into ds0 end.
    match goal with |- context [Data ?d] => exists (d :: ds0) end.
    cbn [length key_events key_entries app]. auto.
Qed.

Lemma ospec_of_ext {A} (m : M A) : ext m -> ospec m (fun _ _ _ _ => True).
Proof. intro H. eapply spec_conseq; [exact H|]. auto. Qed.

Definition unlock_first_opt (k : dongle_kind) (o : admin_opts) (typed : list bytes) : M unit :=
  if o_no_unlock o then ret tt
  else try_catch (do_unlock k o true false typed ;;; ret tt) (fun e => Some (raise AdminError)).

Lemma ext_unlock_first_opt k o typed : ext (unlock_first_opt k o typed).
Proof.
  unfold unlock_first_opt. apply ext_if; [apply ext_ret|].
  apply ext_try; [apply ext_bind; [apply ext_do_unlock|intro; apply ext_ret]|].
  intros e k0 H. injection H as <-. apply ext_raise.
Qed.

Definition PubkeysRun (n : list event) (ks : list (str * str * str)) : Prop :=
  exists nu em ds cl,
    n = nu ++ Connect true :: em :: key_events PUBKEY_PATHS ds ++ cl
    /\ (ev_mode MODE_SIGNER em \/ ev_mode MODE_UI_HEARTBEAT em)
    /\ length ds = length PUBKEY_PATHS
    /\ ks = key_entries PUBKEY_PATHS ds
    /\ (cl = [] \/ cl = [Close]).

Lemma mode_signer_or_hb m :
  mem_N m MODE_VALUES = true -> mem_N m [MODE_UNKNOWN; MODE_BOOTLOADER] = false ->
  m = MODE_SIGNER \/ m = MODE_UI_HEARTBEAT.
Proof.
  change MODE_VALUES with [2; 3; 4; 255]. change MODE_UNKNOWN with 255. change MODE_SIGNER with 3.
  change MODE_UI_HEARTBEAT with 4. change MODE_BOOTLOADER with 2. cbn [mem_N]. lia.
Qed.

Lemma ospec_do_get_pubkeys k o typed :
  ospec (do_get_pubkeys k o typed) (fun w ks n w' => PubkeysRun n ks).
Proof.
  unfold do_get_pubkeys. fold (unlock_first_opt k o typed).
  eapply ospec_conseq.
  { eapply ospec_bind; [apply ospec_of_ext, ext_unlock_first_opt|intro].
    eapply ospec_bind; [apply ospec_connect|intro].
    eapply ospec_bind; [apply (ospec_sent1 _ _ _ _ spec_get_current_mode_strong)|intro mode].
    eapply ospec_bind; [apply ospec_guard_neg|intro].
    eapply ospec_bind; [apply ospec_get_keys|intro ks].
    eapply ospec_bind;
      [apply (ospec_of_spec _ _ _ spec_disconnect); intros w ? n w' H; exact H|intro].
    apply ospec_ret. }
  cbn beta. intros w ks n w' H. dall. subst. cbn [app]. rewrite app_nil_r.
  match goal with H1 : mem_N ?m MODE_VALUES = true, H2 : mem_N ?m _ = false |- _ =>
    pose proof (mode_signer_or_hb m H1 H2) as Hmode end.
  red. eexists _, _, _, _. split; [reflexivity|]. split.
  { destruct Hmode as [Hm|Hm]; [left|right]; subst;
      match goal with H : _ <> MODE_UNKNOWN -> _ |- _ => destruct H as [d [-> Hd]]; [discriminate|] end;
      exists d; auto. }
  split; [assumption|]. split; [reflexivity|assumption].
Qed.

(* ---------- 6 ---------- *)
Theorem pubkeys_are_device_keys k o typed w ks w' :
  do_get_pubkeys k o typed w = (Ok ks, w') -> PubkeysRun (new_events w w') ks.
Proof.
  intro E. destruct (ospec_do_get_pubkeys k o typed w) as [n [Hn Hq]].
  rewrite E in Hn, Hq. cbn [fst snd] in Hn, Hq.
  rewrite (news_new_events _ _ _ Hn). apply (Hq ks eq_refl).
Qed.

(* one entry per documented path, in order, named as documented; entry j is the hex of the
   device's answer to GET_PUBLIC_KEY for path j's binary *)
Corollary pubkeys_one_per_path k o typed w ks w' :
  do_get_pubkeys k o typed w = (Ok ks, w') ->
  length ks = 6%nat
  /\ map (fun e => (fst (fst e), snd (fst e))) ks
     = map (fun p => (fst (fst p), snd (fst p))) PUBKEY_PATHS
  /\ exists nu ds tl_,
       new_events w w' = nu ++ key_events PUBKEY_PATHS ds ++ tl_
       /\ length ds = 6%nat
       /\ forall j nm pth bin d,
            nth_error PUBKEY_PATHS j = Some (nm, pth, bin) -> nth_error ds j = Some d ->
            nth_error ks j = Some (nm, pth, hex d)
            /\ nth_error (key_events PUBKEY_PATHS ds) j
               = Some (Apdu (CLA :: CMD_GET_PUBLIC_KEY :: bin) (Data d)).
Proof.
  intro E. destruct (pubkeys_are_device_keys _ _ _ _ _ _ E) as [nu [em [ds [cl [En [_ [Hl [-> _]]]]]]]].
  assert (Hl6 : length ds = 6%nat) by (rewrite Hl; reflexivity).
  split.
  { rewrite <- (map_length (fun e => (fst (fst e), snd (fst e)))), (key_entries_names _ _ Hl), map_length.
    reflexivity. }
  split; [apply key_entries_names; exact Hl|].
  exists (nu ++ [Connect true; em]), ds, cl. split; [rewrite En, <- app_assoc; reflexivity|].
  split; [exact Hl6|]. intros. apply key_nth; assumption.
Qed.

(* ====================================================================== *)
(* 10. Non-vacuity: concrete runs                                          *)
(* ====================================================================== *)

Definition ex_opts : admin_opts := mkOpts None None false false false true.
Definition ex_seed : bytes := map N.of_nat (seq 1 32).
Definition ex_pin8 : bytes := [49; 50; 51; 52; 53; 54; 55; 97].          (* "1234567a" *)
Definition ex_w (sc : list resp) : world := mkWorld sc [] false [] false None [] [].
Definition ex_events {A} (m : M A) (w : world) : list event := new_events w (snd (m w)).
Definition count (f : event -> bool) (n : list event) : nat := length (filter f n).

Definition ex_ledger_script : list resp :=
  [Data [CLA; MODE_BOOTLOADER]; Data (CLA :: CMD_ECHO :: echo_msg); Data [CLA; 0; 5; 4; 1]]
  ++ repeat (Data [CLA; CMD_SEED]) 32 ++ repeat (Data [CLA; CMD_SEND_PIN]) 9 ++ [Data [CLA; 2]].

(* the operator dithers, then says "YES": the Ledger is onboarded with 32 SEED APDUs, the
   length-prefixed PIN (9 SEND_PIN APDUs) and WIPE; digits-only and short entries are re-asked *)
Example ex_ledger_onboarded :
  let m := do_onboard KLedger ex_opts [s "maybe"; s "YES  "]
             [[49; 50; 51; 52; 53; 54; 55; 56]; [97; 98]; ex_pin8] ex_seed in
  let w := ex_w ex_ledger_script in
  fst (m w) = Ok tt
  /\ count destructive (ex_events m w) = 42%nat
  /\ count (cmd_in [CMD_SEED]) (ex_events m w) = 32%nat
  /\ nth_error (ex_events m w) 4 = Some (Apdu [CLA; CMD_SEED; 0; 1] (Data [CLA; CMD_SEED]))
  /\ nth_error (ex_events m w) 35 = Some (Apdu [CLA; CMD_SEED; 31; 32] (Data [CLA; CMD_SEED]))
  /\ nth_error (ex_events m w) 36 = Some (Apdu [CLA; CMD_SEND_PIN; 0; 8] (Data [CLA; CMD_SEND_PIN]))
  /\ nth_error (ex_events m w) 37 = Some (Apdu [CLA; CMD_SEND_PIN; 1; 49] (Data [CLA; CMD_SEND_PIN]))
  /\ nth_error (ex_events m w) 45 = Some (Apdu [CLA; CMD_WIPE] (Data [CLA; 2]))
  /\ script (snd (m w)) = [].
Proof. vm_compute. repeat split; reflexivity. Qed.

(* the hypotheses of carried_out_when_preconditions_hold are satisfiable (this very run) *)
Example ex_carried_out_applies :
  exists w', do_onboard KLedger ex_opts [s "yes"] [ex_pin8] ex_seed (ex_w ex_ledger_script) = (Ok tt, w')
             /\ script w' = [].
Proof.
  destruct (carried_out_when_preconditions_hold ex_opts [s "yes"] [ex_pin8] ex_seed
              (ex_w ex_ledger_script) ex_pin8 [] [CLA; MODE_BOOTLOADER] [CLA; 0; 5; 4; 1]
              (repeat [CLA; CMD_SEED] 32) (repeat [CLA; CMD_SEND_PIN] 9) [CLA; 2] [])
    as [w' [E [_ Hs]]]; try reflexivity.
  - exists []. reflexivity.
  - exists 0. split; [reflexivity|discriminate].
  - exists w'. auto.
Qed.

(* the operator says "no": nothing destructive leaves *)
Example ex_operator_says_no :
  let m := do_onboard KLedger ex_opts [s "what?"; s "No"; s "yes"] [ex_pin8] ex_seed in
  let w := ex_w ex_ledger_script in
  fst (m w) = Exn AdminError /\ count destructive (ex_events m w) = 0%nat
  /\ length (ex_events m w) = 4%nat.
Proof. vm_compute. repeat split; reflexivity. Qed.

(* the device is already onboarded: nothing destructive leaves *)
Example ex_already_onboarded :
  let m := do_onboard KLedger ex_opts [s "yes"] [ex_pin8] ex_seed in
  let w := ex_w ([Data [CLA; MODE_BOOTLOADER]; Data (CLA :: CMD_ECHO :: echo_msg); Data [CLA; 1; 5; 4; 1]]
                 ++ repeat (Data [CLA]) 50) in
  fst (m w) = Exn AdminError /\ count destructive (ex_events m w) = 0%nat.
Proof. vm_compute. repeat split; reflexivity. Qed.

(* wrong mode, bad echo, invalid command-line PIN, short seed: nothing destructive leaves *)
Example ex_signer_mode_refused :
  let m := do_onboard KLedger ex_opts [s "yes"] [ex_pin8] ex_seed in
  let w := ex_w (Data [CLA; MODE_SIGNER] :: repeat (Data [CLA]) 50) in
  fst (m w) = Exn AdminError /\ count destructive (ex_events m w) = 0%nat.
Proof. vm_compute. repeat split; reflexivity. Qed.

Example ex_bad_echo_refused :
  let m := do_onboard KLedger ex_opts [s "yes"] [ex_pin8] ex_seed in
  let w := ex_w (Data [CLA; MODE_BOOTLOADER] :: Data [CLA; CMD_ECHO; 65; 66] :: repeat (Data [CLA]) 50) in
  fst (m w) = Exn AdminError /\ count destructive (ex_events m w) = 0%nat.
Proof. vm_compute. repeat split; reflexivity. Qed.

Example ex_digits_only_pin_refused :
  let o := mkOpts (Some [49; 50; 51; 52; 53; 54; 55; 56]) None true false false true in
  let m := do_onboard KLedger o [s "yes"] [] ex_seed in
  fst (m (ex_w ex_ledger_script)) = Exn AdminError
  /\ ex_events m (ex_w ex_ledger_script) = [].
Proof. vm_compute. repeat split; reflexivity. Qed.

Example ex_short_seed_refused :
  let m := do_onboard KLedger ex_opts [s "yes"] [ex_pin8] (firstn 31 ex_seed) in
  let w := ex_w ex_ledger_script in
  fst (m w) = Exn DongleError /\ count destructive (ex_events m w) = 0%nat.
Proof. vm_compute. repeat split; reflexivity. Qed.

(* any-PIN onboarding accepts a typed all-digits PIN of any length, but not a non-alphanumeric one *)
Example ex_any_pin_onboarding :
  let o := mkOpts None None true false false true in
  let m := do_onboard KLedger o [s "yes"] [[49; 33]; [49; 50; 51]] ex_seed in
  let w := ex_w ([Data [CLA; MODE_BOOTLOADER]; Data (CLA :: CMD_ECHO :: echo_msg); Data [CLA; 0; 5; 4; 1]]
                 ++ repeat (Data [CLA]) 36 ++ [Data [CLA; 2]]) in
  fst (m w) = Ok tt
  /\ nth_error (ex_events m w) 36 = Some (Apdu [CLA; CMD_SEND_PIN; 0; 3] (Data [CLA])).
Proof. vm_compute. repeat split; reflexivity. Qed.

(* SGX onboarding: one APDU carrying seed ++ password *)
Example ex_sgx_onboarded :
  let o := mkOpts (Some ex_pin8) None false false false false in
  let m := do_onboard KSgx o [s "yes"] [] ex_seed in
  let w := ex_w [Data [CLA; MODE_BOOTLOADER]; Data (CLA :: SGXCMD_SGX_ECHO :: echo_msg);
                 Data [CLA; 0; 5; 4; 1]; Data [CLA; SGXCMD_SGX_ONBOARD; 1]] in
  fst (m w) = Ok tt
  /\ count destructive (ex_events m w) = 1%nat
  /\ nth_error (ex_events m w) 4
     = Some (Apdu (CLA :: SGXCMD_SGX_ONBOARD :: 0 :: ex_seed ++ ex_pin8) (Data [CLA; SGXCMD_SGX_ONBOARD; 1])).
Proof. vm_compute. repeat split; reflexivity. Qed.

(* unlock: an onboarded Ledger in bootloader mode gets the PIN; a signer-mode one does not *)
Example ex_unlock_sends_pin :
  let o := mkOpts (Some ex_pin8) None false false false false in
  let m := do_unlock KLedger o true false [] in
  let w := ex_w ([Data [CLA; MODE_BOOTLOADER]; Data [CLA; 1; 5; 4; 1]; Data (CLA :: CMD_ECHO :: echo_msg)]
                 ++ repeat (Data [CLA; CMD_SEND_PIN]) 8 ++ [Data [CLA; CMD_UNLOCK; 1]; TimeoutR]) in
  fst (m w) = Ok [] /\ count pin_bearing (ex_events m w) = 9%nat.
Proof. vm_compute. repeat split; reflexivity. Qed.

Example ex_unlock_signer_mode_no_pin :
  let o := mkOpts (Some ex_pin8) None false false false false in
  let m := do_unlock KLedger o true false [] in
  let w := ex_w (Data [CLA; MODE_SIGNER] :: Data [CLA; 1; 5; 4; 1] :: repeat (Data [CLA]) 20) in
  fst (m w) = Exn AdminError /\ count pin_bearing (ex_events m w) = 0%nat.
Proof. vm_compute. repeat split; reflexivity. Qed.

Example ex_unlock_not_onboarded_no_pin :
  let o := mkOpts (Some ex_pin8) None false false false false in
  let m := do_unlock KSgx o true false [] in
  let w := ex_w (Data [CLA; MODE_BOOTLOADER] :: Data [CLA; 0; 5; 4; 1] :: repeat (Data [CLA]) 20) in
  fst (m w) = Exn AdminError /\ count pin_bearing (ex_events m w) = 0%nat.
Proof. vm_compute. repeat split; reflexivity. Qed.

(* changepin without unlock: the typed digits-only entry is refused, the compliant one is sent *)
Example ex_changepin :
  let o := mkOpts None None false true false false in
  let m := do_changepin KLedger o [[49; 50; 51; 52; 53; 54; 55; 56]; ex_pin8] in
  let w := ex_w (Data [CLA; MODE_BOOTLOADER] :: repeat (Data [CLA]) 10) in
  fst (m w) = Ok tt
  /\ count newpin_ev (ex_events m w) = 10%nat
  /\ nth_error (ex_events m w) 3 = Some (Apdu [CLA; CMD_SEND_PIN; 1; 49] (Data [CLA]))
  /\ nth_error (ex_events m w) 11 = Some (Apdu [CLA; CMD_CHANGE_PIN] (Data [CLA])).
Proof. vm_compute. repeat split; reflexivity. Qed.

Example pubkey_paths_are_six : length PUBKEY_PATHS = 6%nat.
Proof. reflexivity. Qed.

(* pubkeys from a device in signer mode *)
Example ex_pubkeys :
  let o := mkOpts None None false true false true in
  let m := do_get_pubkeys KLedger o [] in
  let w := ex_w (Data [CLA; MODE_SIGNER] :: map (fun i => Data [4; i]) [1; 2; 3; 4; 5; 6]) in
  match fst (m w) with
  | Ok ks => map snd ks = map (fun i => hex [4; i]) [1; 2; 3; 4; 5; 6]
             /\ map (fun e => fst (fst e)) ks = [s "btc"; s "rsk"; s "mst"; s "tbtc"; s "trsk"; s "tmst"]
  | Exn _ => False
  end.
Proof. vm_compute. repeat split; reflexivity. Qed.

(* observation: with any-PIN the policy degenerates to "alphanumeric", which the empty entry
   satisfies: an empty typed PIN is accepted and onboarding sends only the length byte 0 *)
Example ex_any_pin_accepts_empty : pin_is_valid [] true = true /\ ask_for_pin [[]] true = Some ([], []).
Proof. vm_compute. split; reflexivity. Qed.

Example ex_any_pin_empty_onboarding :
  let o := mkOpts None None true false false true in
  let m := do_onboard KLedger o [s "yes"] [[]] ex_seed in
  let w := ex_w ([Data [CLA; MODE_BOOTLOADER]; Data (CLA :: CMD_ECHO :: echo_msg); Data [CLA; 0; 5; 4; 1]]
                 ++ repeat (Data [CLA]) 33 ++ [Data [CLA; 2]]) in
  fst (m w) = Ok tt
  /\ nth_error (ex_events m w) 36 = Some (Apdu [CLA; CMD_SEND_PIN; 0; 0] (Data [CLA]))
  /\ nth_error (ex_events m w) 37 = Some (Apdu [CLA; CMD_WIPE] (Data [CLA; 2])).
Proof. vm_compute. repeat split; reflexivity. Qed.
