(* Refinement theorems for the device-monad backend: the bring-up of ledger/protocol.py (class
   HSM2ProtocolLedger: initialize_device, _handle_bootloader, _check_version, _wait_and_reconnect) as
   translated from the Python source text (Gen/SrcM.v) runs on every world - any device script, any outcome
   of the connection attempts, any state of the PIN object and of the random source - exactly as the model
   of Model/Bringup.v for the Ledger platform: same outcome (normal return / HSM2ProtocolError /
   HSM2ProtocolInterrupt / ...), same final world (APDU trace, connect / close events, PIN-file writes, the
   PIN object).  Side conditions on the initial world: pin_small, rand_small and (added, see below)
   pin_new_small - the PINs the code may have to send are bytes objects of at most 255 bytes below 256. *)
From PowHsm Require Import Gen.SrcM Model.Bringup.
From PowHsm Require Import Proofs.ValLemmas Proofs.SrcEquivVersion Proofs.SrcEquivDongleM Proofs.SrcEquivPinM.
From PowHsm Require Import Proofs.ValLemmasPinM Proofs.ValLemmasBringupM.
Import MV.

(* the protocol object: any object (its attributes are only written and read back by the bring-up itself) *)
Definition proto_obj (fields : list (string * pv)) : pv := VObj "HSM2ProtocolLedger" fields.

(* the PIN in use is a bytes object of at most 255 well-formed bytes (FileBasedPin only ever holds valid PINs) *)
Definition pin_small (w : world) : Prop :=
  forall p, pin w = Some p -> small_bytes (pin_cur p).
(* ... and so is every candidate the random source may produce next *)
Definition rand_small (w : world) : Prop := Forall small_bytes (rand_pins w).

Theorem srcm_check_version_ok : forall (self name : pv) (fw mw : N * N * N) (w : world),
  srcm_HSM2ProtocolLedger___check_version self (ver_obj fw) (ver_obj mw) name w =
  mres (fun _ => VNone) (check_version fw mw w).
Proof.
  intros self name fw mw w.
  unfold srcm_HSM2ProtocolLedger___check_version, check_version, pif, py_not, pmap.
  rewrite src_version_supports_ok.
  destruct (supports mw fw); reflexivity.
Qed.

Theorem srcm_wait_and_reconnect_ok : forall (self : pv) (w : world),
  srcm_HSM2ProtocolLedger___wait_and_reconnect self w = mres (fun _ => VNone) (wait_and_reconnect w).
Proof.
  intros self w.
  unfold srcm_HSM2ProtocolLedger___wait_and_reconnect, wait_and_reconnect, m_disconnect, m_connect, pbind, pmap,
         POk, of_M, mbind, mret, bind, mres.
  destruct (disconnect w) as [[u|e] w1]; [|reflexivity].
  destruct (connect w1) as [[u'|e] w2]; reflexivity.
Qed.

(* ADDED SIDE CONDITION (missing from the first statement of the two theorems below, which is false without it,
   see pin_new_small_needed at the end of this file): when a PIN change is already under way in the initial
   world (_changing set by an earlier start_change), start_change does not draw a new PIN and the pending
   _new_pin is the one sent to the device, so it has to be a bytes object of at most 255 well-formed bytes as
   well.  Otherwise bytes([len(pin)]) / bytes([i, pin[i]]) of _send_pin has no value in the translation
   (ValueError in Python) while the model goes on sending. *)
Definition pin_new_small (w : world) : Prop :=
  forall p np, pin w = Some p -> pin_changing p = true -> pin_new p = Some np -> small_bytes np.

(* it holds in particular whenever no change is under way (every freshly loaded PIN object: Pin.pin_load) *)
Lemma pin_new_small_idle (w : world) :
  (forall p, pin w = Some p -> pin_changing p = false) -> pin_new_small w.
Proof. intros H p np Hp Hc. rewrite (H p Hp) in Hc. discriminate Hc. Qed.

Lemma small_frame (w w1 : world) :
  pin w1 = pin w /\ rand_pins w1 = rand_pins w ->
  pin_small w -> pin_new_small w -> rand_small w -> pin_small w1 /\ pin_new_small w1 /\ rand_small w1.
Proof.
  intros [Hp Hr] H1 H2 H3. unfold pin_small, pin_new_small, rand_small in *. rewrite Hp, Hr. auto.
Qed.

Theorem srcm_handle_bootloader_ok : forall (fields : list (string * pv)) (w : world),
  pin_small w -> pin_new_small w -> rand_small w ->
  srcm_HSM2ProtocolLedger___handle_bootloader (proto_obj fields) w =
  mres (fun _ => VNone) (handle_bootloader KLedger w).
Proof.
  intros fields w Hpin Hnew Hrand.
  unfold srcm_HSM2ProtocolLedger___handle_bootloader, handle_bootloader.
  unfold pbind, POk, PRaiseX, PRaise, PStuck, pif, py_not, vbool, pmap, py_setattr, py_getattr.
  apply mbind_sim_eq with (g := ver_obj); [exact (srcm_get_version_ok _ w)|].
  intros v w1 E1.
  erewrite mbind_lift_ok by (unfold proto_obj; reflexivity). cbv beta.
  rewrite mbind_assoc. erewrite mbind_lift_ok by reflexivity. cbv beta.
  apply mbind_sim_eq with (g := fun _ : unit => VNone) (mm := check_version v UI_VERSION);
    [exact (srcm_check_version_ok _ _ v UI_VERSION w1)|].
  intros u2 w2 E2.
  rewrite mbind_assoc. apply mbind_sim_eq with (g := VBool); [exact (srcm_echo_ok _ w2)|].
  intros ok w3 E3.
  rewrite mbind_ret. cbn [py_truth]. destruct ok; cbn [negb]; [|reflexivity].
  rewrite mbind_ret.
  change (bind (ret tt) ?k w3) with (k tt w3). cbv beta.
  apply ptry_k_bind_sim.
  unfold bind at 1. rewrite (mbind_mres _ _ _ _ _ (srcm_get_retries_ok _ w3)).
  destruct (get_retries KLedger w3) as [[r|e] w4] eqn:E4.
  2:{ split; [reflexivity|]. destruct e; reflexivity. }
  unfold MV.py_cmp, vN. rewrite mbind_assoc, mbind_lift, py_cmp_int.
  rewrite (Zltb_N r 2 : (Z.of_N r <? 2)%Z = _). unfold MIN_AVAILABLE_RETRIES.
  destruct (r <? 2); [split; reflexivity|].
  exists (VList [VInt 1; VList [VInt (Z.of_N r)]]). split; [reflexivity|].
  cbv iota.
  pose proof (small_frame _ _ (frames_step _ _ _ _ frames_get_version E1) Hpin Hnew Hrand) as [Hpin1 [Hnew1 Hrand1]].
  pose proof (small_frame _ _ (frames_step _ _ _ _ (frames_check_version _ _) E2) Hpin1 Hnew1 Hrand1)
    as [Hpin2 [Hnew2 Hrand2]].
  pose proof (small_frame _ _ (frames_step _ _ _ _ (frames_echo _) E3) Hpin2 Hnew2 Hrand2)
    as [Hpin3 [Hnew3 Hrand3]].
  pose proof (small_frame _ _ (frames_step _ _ _ _ (frames_get_retries _) E4) Hpin3 Hnew3 Hrand3)
    as [Hpin4 [Hnew4 Hrand4]].
  clear Hpin Hnew Hrand Hpin1 Hnew1 Hrand1 Hpin2 Hnew2 Hrand2 Hpin3 Hnew3 Hrand3 E1 E2 E3 E4 r w w1 w2 w3 u2.
  rewrite !mbind_assoc.
  apply mbind_sim_eq with (g := VBytes); [exact (pmap_of_M VBytes pin_get_pin w4)|].
  intros p w5 E5.
  assert (Hp : small_bytes p /\ w5 = w4).
  { rewrite pin_get_pin_run in E5. destruct (pin w4) as [po|] eqn:Epo; [|discriminate E5].
    inversion E5; subst. split; [exact (Hpin4 po Epo)|reflexivity]. }
  destruct Hp as [Hp ->]. clear E5.
  apply mbind_sim_eq with (g := VBool); [exact (srcm_unlock_ok _ p w4 Hp)|].
  intros ok w6 E6.
  pose proof (small_frame _ _ (frames_step _ _ _ _ (frames_unlock _) E6) Hpin4 Hnew4 Hrand4)
    as [Hpin6 [Hnew6 Hrand6]].
  clear Hpin4 Hnew4 Hrand4 E6 Hp p w4.
  rewrite mbind_ret. cbn [py_truth]. destruct ok; cbn [negb]; [|reflexivity].
  rewrite bind_ret_run.
  apply mbind_sim_eq with (g := VBool); [exact (pmap_of_M VBool pin_needs_change_m w6)|].
  intros nc w7 E7.
  assert (Hw : w7 = w6).
  { rewrite pin_needs_change_run in E7. destruct (pin w6); inversion E7; reflexivity. }
  subst w7. clear E7. cbn [py_truth]. destruct nc.
  - (* the PIN must be changed *)
    unfold pin_change_block. rewrite bind_finally_raise.
    apply pfinally_raise_sim with (g := fun _ : unit => VNone).
    apply ptry_k_all_sim with (g := fun _ : unit => VList [VInt 1; VList []]).
    + apply mbind_sim_eq with (g := fun _ : unit => VNone); [exact (pmap_of_M _ pin_start_change w6)|].
      intros u8 w8 E8. destruct u8.
      rewrite !mbind_assoc.
      apply mbind_sim_eq with (g := fun o : option bytes => match o with Some b => VBytes b | None => VNone end);
        [exact (pmap_of_M _ pin_get_new_pin w8)|].
      intros np w9 E9. destruct np as [np|].
      * assert (Hs : small_bytes np).
        { exact (start_change_new_pin small_bytes w6 w8 w9 np Hnew6 Hrand6 E8 E9). }
        apply mbind_sim_eq with (g := VBool); [exact (srcm_new_pin_ok _ np w9 Hs)|].
        intros ok w10 E10. rewrite mbind_ret. cbn [py_truth]. destruct ok; cbn [negb]; [|reflexivity].
        rewrite bind_ret_run.
        apply mbind_mres_map with (g := fun _ : unit => VNone); [exact (pmap_of_M _ pin_commit_change w10)|].
        intros a w11. reflexivity.
      * reflexivity.
    + intros a w8. reflexivity.
    + intros e w8 E8. rewrite is_exception_all. rewrite mbind_assoc.
      apply mbind_mres_map with (g := fun _ : unit => VNone); [exact (pmap_of_M _ pin_abort_change w8)|].
      intros a w9. reflexivity.
  - (* no PIN change: leave the bootloader *)
    rewrite bind_ret_run. apply ptry_k_bind_sim.
    rewrite (mbind_mres _ _ _ _ _ (srcm_exit_menu_ok _ true w6)).
    destruct (exit_menu true w6) as [[u|e] w7].
    + exists (VList [VInt 1; VList []]). split; [reflexivity|]. cbv iota.
      apply mbind_mres_map with (g := fun _ : unit => VNone); [apply srcm_wait_and_reconnect_ok|].
      intros a w8. reflexivity.
    + split; [reflexivity|]. cbn [orb].
      change (concat CATCH_handle_bootloader_2) with [100]. rewrite matches_exception.
      rewrite mbind_ret, bind_ret_run. cbv iota.
      apply mbind_mres_map with (g := fun _ : unit => VNone); [apply srcm_wait_and_reconnect_ok|].
      intros a w8. reflexivity.
Qed.

(* the end of initialize_device, once the mode is known: mode check, app version check, signer parameters *)
Ltac init_tail m w0 :=
  unfold MV.py_ne; rewrite mbind_assoc, mbind_lift; unfold vN; rewrite py_ne_int, mbind_ret;
  rewrite (Zeqb_N m 3 : (Z.of_N m =? 3)%Z = _); unfold MODE_SIGNER; cbn [py_truth];
  destruct (m =? 3); cbn [negb]; [|reflexivity];
  rewrite bind_ret_run;
  apply mbind_sim_eq with (g := ver_obj); [exact (srcm_get_version_ok _ w0)|];
  let v := fresh "v" in let wa := fresh "wa" in let Ea := fresh "Ea" in
  intros v wa Ea;
  erewrite mbind_lift_ok by (unfold proto_obj; reflexivity); cbv beta;
  rewrite mbind_assoc; erewrite mbind_lift_ok by reflexivity; cbv beta;
  apply mbind_sim_eq with (g := fun _ : unit => VNone) (mm := check_version v APP_VERSION);
    [exact (srcm_check_version_ok _ _ v APP_VERSION wa)|];
  let u := fresh "u" in let wb := fresh "wb" in let Eb := fresh "Eb" in
  intros u wb Eb;
  refine (mbind_sim_eq _ _ _ _ _ _ _ (srcm_get_signer_parameters_ok _ wb) _);
  intros; reflexivity.

Theorem srcm_initialize_device_ok : forall (fields : list (string * pv)) (w : world),
  pin_small w -> pin_new_small w -> rand_small w ->
  srcm_HSM2ProtocolLedger__initialize_device (proto_obj fields) w =
  mres (fun _ => VNone) (initialize_device KLedger w).
Proof.
  intros fields w Hpin Hnew Hrand.
  unfold srcm_HSM2ProtocolLedger__initialize_device, initialize_device.
  unfold pbind, POk, PRaiseX, PRaise, PStuck, pif, py_not, vbool, pmap, py_setattr, py_getattr.
  apply ptry_k_bind_sim.
  rewrite (mbind_mres _ _ _ _ _ (pmap_of_M (fun _ => VNone) connect w)).
  destruct (connect w) as [[u1|e] w1] eqn:E1; [|split; [reflexivity|destruct e; reflexivity]].
  exists (VList [VInt 1; VList []]). split; [reflexivity|]. cbv iota. rewrite mbind_ret.
  apply ptry_k_bind_sim.
  unfold bind at 1. rewrite (mbind_mres _ _ _ _ _ (srcm_is_onboarded_ok _ w1)).
  destruct (is_onboarded w1) as [[onb|e] w2] eqn:E2; [|split; [reflexivity|destruct e; reflexivity]].
  destruct onb; [|split; reflexivity].
  exists (VList [VInt 1; VList [VBool true]]). split; [reflexivity|]. cbv iota.
  apply mbind_sim_eq with (g := vN); [exact (srcm_get_current_mode_ok _ w2)|].
  intros mode w3 E3.
  unfold MV.py_eq. rewrite mbind_assoc, mbind_lift. unfold vN at 1. rewrite py_eq_int, mbind_ret.
  rewrite (Zeqb_N mode 2 : (Z.of_N mode =? 2)%Z = _). unfold MODE_BOOTLOADER. cbn [py_truth].
  pose proof (small_frame _ _ (frames_step _ _ _ _ frames_connect E1) Hpin Hnew Hrand) as [Hpin1 [Hnew1 Hrand1]].
  pose proof (small_frame _ _ (frames_step _ _ _ _ frames_is_onboarded E2) Hpin1 Hnew1 Hrand1)
    as [Hpin2 [Hnew2 Hrand2]].
  pose proof (small_frame _ _ (frames_step _ _ _ _ frames_get_current_mode E3) Hpin2 Hnew2 Hrand2)
    as [Hpin3 [Hnew3 Hrand3]].
  destruct (mode =? 2).
  - rewrite bind_assoc_run.
    apply mbind_sim_eq with (g := fun _ : unit => VNone);
      [exact (srcm_handle_bootloader_ok fields w3 Hpin3 Hnew3 Hrand3)|].
    intros u4 w4 E4.
    apply mbind_sim_eq with (g := vN); [exact (srcm_get_current_mode_ok _ w4)|].
    intros mode' w5 E5.
    init_tail mode' w5.
  - rewrite bind_ret_run. init_tail mode w3.
Qed.

(* Without pin_new_small the two theorems above do not hold: a world whose PIN object is in the middle of a
   change to a new PIN with a byte out of range satisfies pin_small and rand_small, but the translated
   _handle_bootloader is stuck in bytes([i, pin[i]]) where the model goes on (and ends in HSM2ProtocolInterrupt). *)
Definition cex_world : world :=
  mkWorld ([Data (hx "8006050401"); Data (hx "8002414243"); Data (hx "804503")] ++
           repeat (Data (hx "804100")) 8 ++ [Data (hx "80fe01")] ++ repeat (Data (hx "804100")) 4)
          [] false [] false (Some (mkPin (hx "3132333435363761") true true (Some [300%N]))) [] [].

Fact pin_new_small_needed :
  pin_small cex_world /\ rand_small cex_world /\
  fst (srcm_HSM2ProtocolLedger___handle_bootloader (proto_obj []) cex_world) = XStuck /\
  fst (mres (fun _ => VNone) (handle_bootloader KLedger cex_world)) = XRaise ProtocolInterrupt.
Proof.
  split; [|split; [|split]].
  - intros p Hp. inversion Hp. split; [|cbn; lia]. repeat constructor.
  - constructor.
  - vm_compute. reflexivity.
  - vm_compute. reflexivity.
Qed.
