(* Refinement theorem for the whole request path of the v5 manager's protocol layer.
   __internal_handle_request of comm/protocol.py, translated for the concrete class HSM2ProtocolLedger in the
   device monad (Gen/SrcM.v): the gate's checks, the validation dispatch IN ITS STATE-THREADING VARIANT (the
   validators replace request["keyId"] by the parsed path object; the translation returns the request as the
   validator left it, and that is what the handler receives - Python's aliasing made explicit), the dispatch over
   the ten handlers as translated (operation_dispatch_HSM2ProtocolLedger, generated from the _mappings dictionary
   of _init_mappings), and the assembly of the reply - runs on every JSON request and every world exactly as the
   model's handle_request. *)
From PowHsm Require Import Gen.Src Gen.SrcM Model.Dongle Model.LedgerProtocol.
From PowHsm Require Import Proofs.ValLemmas Proofs.SrcEquivBase Proofs.SrcEquivProto Proofs.SrcEquivLedger
  Proofs.SrcEquivDongleM Proofs.SrcEquivProtoM Proofs.SrcEquivStateM Proofs.SrcEquivSignM Proofs.SrcEquivSignProtoM
  Proofs.SrcEquivBlockM Proofs.SrcEquivBlockProtoM Proofs.SrcEquivHeartbeatM Proofs.SrcEquivParamsProtoM.
From PowHsm Require Proofs.C02.
From PowHsm Require Import Proofs.ValLemmasSignProtoM.
From PowHsm Require Import Proofs.ValLemmasGateM.

Section WithEnv.
Variable keccak : bytes -> bytes.
Variable kind : dongle_kind.
Variable init : pm pv.
Variable cm : string -> pv -> list pv -> pr pv.

(* key_id.to_binary() and encode_varint are oracles (see SrcEquivSignM.oracles_ok), here for every path *)
Definition path_oracle_ok : Prop :=
  forall els : list N, cm "to_binary" (path_obj els) [] = POk (VBytes (path_to_binary els)).
Definition varint_oracle_ok : Prop :=
  forall n : N, cm "encode_varint" VNone [VInt (Z.of_N n)] = POk (VStr (hex (varint n))).

(* the model's table lookups for a literal command *)
Ltac pick opn op :=
  match goal with |- context [assoc_str ?c DISPATCH_V5] =>
    change (assoc_str c DISPATCH_V5) with (Some opn) end; cbv iota beta;
  match goal with |- context [run_operation ?k ?kd V5 ?o ?r] =>
    change (run_operation k kd V5 o r) with (Some op) end; cbv iota beta.

(* which validator ran, and its verdict *)
Ltac validator_is vname val :=
  match goal with
  | Hn : validator_name V5 ?c = Some ?vn, Hr : run_validator V5 ?vn ?req = Some ?v |- _ =>
      change (validator_name V5 c) with (Some vname) in Hn; injection Hn as <-;
      change (run_validator V5 vname req) with (Some val) in Hr; injection Hr as <-
  end.

Theorem srcm_handle_request_v5_ok : forall (fuel : nat) (self : pv) (request : json) (w : world),
  init_ok kind init -> tx_oracles_ok cm -> path_oracle_ok -> varint_oracle_ok ->
  block_oracles_ok keccak cm -> keccak_wf keccak ->
  fuel_ok kind fuel w ->
  srcm_HSM2ProtocolLedger____internal_handle_request fuel cm init self (of_json request) w =
  mres of_json (handle_request keccak kind V5 request w).
Proof.
  intros fuel self request w Hinit Htx Hpath Hvar Hblk Hkw Hfuel.
  rewrite srcm_gate_v5. unfold handle_request.
  destruct (gate_request V5 request) as [c|e|cmd req] eqn:G; [reflexivity|reflexivity|].
  destruct (C02.accept_runs_validated V5 request cmd req G) as (_ & _ & _ & Hin & vn & v & Hn & Hr & Hv).
  assert (Hv' : (v <? 0)%Z = false) by (apply Z.ltb_ge; exact Hv).
  clear Hv G.
  unfold known_commands, KNOWN_COMMANDS_V5 in Hin. cbn [In] in Hin.
  destruct Hin as [<-|[<-|[<-|[<-|[<-|[<-|[<-|[<-|[<-|[<-|[]]]]]]]]]]].
  - (* version *)
    pick (s "_version") (@ret rtuple (0%Z, Some [(KEY_VERSION, JInt (c_version (codes_of V5)))])).
    apply gate_tail_m_ok; [reflexivity|]. apply noerr_ret_some. reflexivity.
  - (* sign *)
    pick (s "_sign") (op_sign_v5 kind req).
    validator_is (s "_validate_sign") (validate_sign_v5 (codes_of V5) req).
    apply gate_tail_m_ok; [|apply noerr_sign].
    change (operation_dispatch_HSM2ProtocolLedger fuel cm init self (VStr (s "sign")) (st_request (s "sign") req))
      with (srcm_HSM2ProtocolLedger___sign fuel cm init self (req_after_keyid req)).
    destruct (req_after_keyid_ok req (sign_key_ok req Hv')) as (x & els & Hk & Hp & ->).
    apply (srcm_sign_handler_ok kind init cm fuel self req x els w Hinit Htx (conj (Hpath els) Hvar) Hk Hp).
    + apply gate_message_absent_or_object. exact Hv'.
    + exact Hfuel.
  - (* getPubKey *)
    pick (s "_get_pubkey") (op_get_pubkey kind V5 req).
    validator_is (s "_validate_get_pubkey") (validate_key_id (codes_of V5) req).
    apply gate_tail_m_ok; [|apply noerr_get_pubkey].
    change (operation_dispatch_HSM2ProtocolLedger fuel cm init self (VStr (s "getPubKey")) (st_request (s "getPubKey") req))
      with (srcm_HSM2ProtocolLedger___get_pubkey cm init self (req_after_keyid req)).
    destruct (req_after_keyid_ok req Hv') as (x & els & Hk & Hp & ->).
    exact (srcm_get_pubkey_ok kind init cm self req x els w Hinit Hk Hp (Hpath els)).
  - (* advanceBlockchain *)
    pick (s "_advance_blockchain") (op_advance keccak kind req).
    validator_is (s "_validate_advance_blockchain") (validate_advance_blockchain (codes_of V5) req).
    apply gate_tail_m_ok; [|apply noerr_advance].
    destruct (advance_shape req Hv') as (blocks & brothers & Hb & Hbr).
    exact (srcm_advance_blockchain_handler_ok keccak kind init cm fuel self req blocks brothers w
             Hinit Hblk Hkw Hb Hbr Hfuel).
  - (* resetAdvanceBlockchain *)
    pick (s "_reset_advance_blockchain") (op_reset_advance kind req).
    apply gate_tail_m_ok; [|apply noerr_reset_advance].
    exact (srcm_reset_advance_blockchain_ok kind init self (of_obj req) req w Hinit).
  - (* blockchainState *)
    pick (s "_blockchain_state") (op_blockchain_state kind req).
    apply gate_tail_m_ok; [|apply noerr_blockchain_state].
    exact (srcm_blockchain_state_handler_ok kind init self (of_obj req) req w Hinit).
  - (* updateAncestorBlock *)
    pick (s "_update_ancestor_block") (op_update_ancestor kind req).
    validator_is (s "_validate_update_ancestor_block") (validate_update_ancestor_block (codes_of V5) req).
    apply gate_tail_m_ok; [|apply noerr_update_ancestor].
    destruct (update_ancestor_shape req Hv') as (blocks & Hb).
    exact (srcm_update_ancestor_handler_ok keccak kind init cm fuel self req blocks w Hinit Hblk Hb Hfuel).
  - (* blockchain parameters *)
    pick (s "_get_blockchain_parameters") (op_parameters kind req).
    apply gate_tail_m_ok; [|apply noerr_parameters].
    exact (srcm_parameters_handler_ok kind init self (of_obj req) req w Hinit).
  - (* signerHeartbeat *)
    pick (s "_signer_heartbeat") (op_signer_heartbeat kind req).
    validator_is (s "_validate_signer_heartbeat") (validate_heartbeat (codes_of V5) req SIGNER_HBT_UD_VALUE_SIZE).
    apply gate_tail_m_ok; [|apply noerr_signer_heartbeat].
    destruct (heartbeat_shape req _ Hv') as (ud & Hud).
    exact (srcm_signer_heartbeat_handler_ok kind init self req ud w Hinit Hud).
  - (* uiHeartbeat *)
    pick (s "_ui_heartbeat") (op_ui_heartbeat kind req).
    validator_is (s "_validate_ui_heartbeat") (validate_heartbeat (codes_of V5) req UI_HBT_UD_VALUE_SIZE).
    apply gate_tail_m_ok; [|apply noerr_ui_heartbeat].
    destruct (heartbeat_shape req _ Hv') as (ud & Hud).
    exact (srcm_ui_heartbeat_handler_ok kind init self req ud w Hinit Hud).
Qed.
End WithEnv.
