(* Helper lemmas for Proofs/SrcEquivSignM.v: computation rules of the device-monad kit (Model/ValM.v),
   kit facts on bytes (to_bytes, fromhex/hex, varint), monotonicity of the device script, the generic
   "try: step except HSM2DongleErrorResult" combinator against Model/Sign.v's on_error_result, and the
   merkle-proof loop. *)
From PowHsm Require Import Gen.SrcM Model.Dongle Model.Sign.
From PowHsm Require Import Proofs.ValLemmas Proofs.ValLemmasAdmin Proofs.SrcEquivLedger Proofs.SrcEquivDongleM.
From Coq Require Import Lia.
Open Scope N_scope.

(* ---------- hex / fromhex, varint ---------- *)

Lemma hexval_hexdigit' n : n < 16 -> hexval (hexdigit n) = Some n.
Proof.
  intro H. unfold hexval, hexdigit. destruct (n <? 10) eqn:E.
  - apply N.ltb_lt in E.
    replace ((48 <=? 48 + n) && (48 + n <=? 57)) with true
      by (symmetry; apply andb_true_iff; split; apply N.leb_le; lia).
    f_equal. lia.
  - apply N.ltb_ge in E.
    replace ((48 <=? 87 + n) && (87 + n <=? 57)) with false
      by (symmetry; apply andb_false_iff; right; apply N.leb_gt; lia).
    replace ((97 <=? 87 + n) && (87 + n <=? 102)) with true
      by (symmetry; apply andb_true_iff; split; apply N.leb_le; lia).
    f_equal. lia.
Qed.

Lemma hexdigit_not_space' n : n < 16 -> is_pyspace (hexdigit n) = false.
Proof.
  intro H. unfold is_pyspace, hexdigit. destruct (n <? 10) eqn:E.
  - apply N.ltb_lt in E. apply orb_false_iff. split.
    + apply andb_false_iff. right. apply N.leb_gt. lia.
    + apply N.eqb_neq. lia.
  - apply N.ltb_ge in E. apply orb_false_iff. split.
    + apply andb_false_iff. right. apply N.leb_gt. lia.
    + apply N.eqb_neq. lia.
Qed.

Lemma fromhex_hex' b : wf_bytes b -> fromhex (hex b) = Some b.
Proof.
  unfold fromhex. induction 1 as [|x b Hx Hb IH]; [reflexivity|].
  cbn [hex fromhex_aux].
  assert (H1 : x / 16 < 16) by (apply N.div_lt_upper_bound; lia).
  assert (H2 : x mod 16 < 16) by (apply N.mod_lt; lia).
  rewrite (hexdigit_not_space' _ H1), (hexval_hexdigit' _ H1), (hexval_hexdigit' _ H2), IH.
  f_equal. f_equal. pose proof (N.div_mod x 16 ltac:(lia)). lia.
Qed.

Lemma le_bytes_wf (k : nat) : forall n, wf_bytes (le_bytes k n).
Proof.
  induction k as [|k IH]; intros n; cbn [le_bytes]; constructor; [|apply IH].
  apply N.mod_lt. lia.
Qed.

Lemma varint_wf (n : N) : wf_bytes (varint n).
Proof.
  unfold varint. destruct (n <? 253) eqn:E.
  - apply N.ltb_lt in E. constructor; [lia|constructor].
  - destruct (n <=? 65535); [constructor; [lia|apply le_bytes_wf]|].
    destruct (n <=? 4294967295); constructor; try lia; apply le_bytes_wf.
Qed.

Lemma fromhex_hex_varint (n : N) : fromhex (hex (varint n)) = Some (varint n).
Proof. apply fromhex_hex', varint_wf. Qed.

(* ---------- computation rules of the monadic kit ---------- *)

Lemma pbind_POk {A B} (a : A) (f : A -> pm B) : MV.pbind (MV.POk a) f = f a.
Proof. reflexivity. Qed.

Lemma pbind_PRaise {A B} (e : pyexc) (f : A -> pm B) : MV.pbind (MV.PRaise e) f = MV.PRaise e.
Proof. reflexivity. Qed.

Lemma lift_POk {A} (a : A) : lift (POk a) = MV.POk a.
Proof. reflexivity. Qed.

Lemma lift_PRaise {A} (e : pyexc) : lift (A := A) (PRaise e) = MV.PRaise e.
Proof. reflexivity. Qed.

Lemma pif_POk {A} (v : pv) (t e : pm A) : MV.pif (MV.POk v) t e = if py_truth v then t else e.
Proof. reflexivity. Qed.

Lemma vbool_lift_POk (b : bool) : MV.vbool (lift (POk b)) = MV.POk (VBool b).
Proof. reflexivity. Qed.

Lemma vbool_POk (b : bool) : MV.vbool (MV.POk b) = MV.POk (VBool b).
Proof. reflexivity. Qed.

Lemma py_not_POk (v : pv) : MV.py_not (MV.POk v) = MV.POk (VBool (negb (py_truth v))).
Proof. reflexivity. Qed.

Lemma ptry_k_ok {A} (m : pm pv) ca pats (h : exn -> pm pv) (k : pv -> pm A) (w w1 : world) (v : pv) :
  m w = (XOk v, w1) -> MV.ptry_k m ca pats h k w = k v w1.
Proof. intros H. unfold MV.ptry_k. rewrite H. reflexivity. Qed.

Lemma ptry_k_raise {A} (m : pm pv) ca pats (h : exn -> pm pv) (k : pv -> pm A) (w w1 : world) (e : exn) :
  m w = (XRaise e, w1) ->
  MV.ptry_k m ca pats h k w =
  if ca || existsb (xpat_matches e) pats then mbind (h e) k w1 else (XRaise e, w1).
Proof. intros H. unfold MV.ptry_k. rewrite H. reflexivity. Qed.

(* ---------- lifted operations on the values sign_authorized handles ---------- *)

Lemma mv_py_add_bytes (a b : bytes) : MV.py_add (VBytes a) (VBytes b) = MV.POk (VBytes (a ++ b)).
Proof. reflexivity. Qed.

Lemma mv_py_add_int (a b : Z) : MV.py_add (VInt a) (VInt b) = MV.POk (VInt (a + b)).
Proof. reflexivity. Qed.

Lemma mv_py_len_bytes (b : bytes) : MV.py_len (VBytes b) = MV.POk (VInt (Z.of_N (nlen b))).
Proof. unfold MV.py_len, nlen. cbn [py_len]. rewrite nat_N_Z. reflexivity. Qed.

Lemma mv_py_len_list (l : list pv) : MV.py_len (VList l) = MV.POk (VInt (Z.of_N (nlen l))).
Proof. unfold MV.py_len, nlen. cbn [py_len]. rewrite nat_N_Z. reflexivity. Qed.

Lemma mv_py_fromhex (x : str) (b : bytes) : fromhex x = Some b -> MV.py_fromhex (VStr x) = MV.POk (VBytes b).
Proof. intros H. unfold MV.py_fromhex. cbn [py_fromhex]. rewrite H. reflexivity. Qed.

Lemma mv_to_bytes_le (n : Z) (k : nat) :
  MV.py_to_bytes_le (VInt n) (VInt (Z.of_nat k)) =
  match to_bytes_le k n with Some b => MV.POk (VBytes b) | None => MV.PRaise OverflowError end.
Proof.
  unfold MV.py_to_bytes_le. cbn [py_to_bytes_le vint].
  replace (Z.of_nat k <? 0)%Z with false by (symmetry; apply Z.ltb_ge; lia).
  rewrite Nat2Z.id. destruct (to_bytes_le k n); reflexivity.
Qed.

Lemma mv_to_bytes_le_2 (n : Z) :
  MV.py_to_bytes_le (VInt n) (VInt 2) =
  match to_bytes_le 2 n with Some b => MV.POk (VBytes b) | None => MV.PRaise OverflowError end.
Proof. exact (mv_to_bytes_le n 2). Qed.

Lemma mv_to_bytes_le_4 (n : Z) :
  MV.py_to_bytes_le (VInt n) (VInt 4) =
  match to_bytes_le 4 n with Some b => MV.POk (VBytes b) | None => MV.PRaise OverflowError end.
Proof. exact (mv_to_bytes_le n 4). Qed.

Lemma mv_to_bytes_le_8 (n : Z) :
  MV.py_to_bytes_le (VInt n) (VInt 8) =
  match to_bytes_le 8 n with Some b => MV.POk (VBytes b) | None => MV.PRaise OverflowError end.
Proof. exact (mv_to_bytes_le n 8). Qed.

Lemma mv_getitem_bytes (b : bytes) (i : nat) :
  MV.py_getitem (VBytes b) (VInt (Z.of_nat i)) =
  match idx b i with Some x => MV.POk (vN x) | None => MV.PRaise IndexError end.
Proof.
  unfold MV.py_getitem. rewrite py_getitem_bytes by lia. rewrite Nat2Z.id. unfold idx.
  destruct (nth_error b i); reflexivity.
Qed.

Lemma mv_getitem_pair0 (a b : pv) : MV.py_getitem (VList [a; b]) (VInt 0) = MV.POk a.
Proof. reflexivity. Qed.

Lemma mv_getitem_pair1 (a b : pv) : MV.py_getitem (VList [a; b]) (VInt 1) = MV.POk b.
Proof. reflexivity. Qed.

Lemma mv_py_ne_N (a b : N) : MV.vbool (MV.py_ne (vN a) (vN b)) = MV.POk (VBool (negb (a =? b))).
Proof. unfold MV.py_ne, vN. rewrite py_ne_int, Zeqb_N. reflexivity. Qed.

Lemma mv_py_gt_N (a b : N) : MV.vbool (MV.py_cmp CGt (vN a) (vN b)) = MV.POk (VBool (b <? a)).
Proof. unfold MV.py_cmp, vN. rewrite py_cmp_int, Zltb_N. reflexivity. Qed.

Lemma mv_py_bytes_single (n : N) : n < 256 -> MV.py_bytes (VList [vN n]) = MV.POk (VBytes [n]).
Proof.
  intros H. unfold MV.py_bytes, vN. cbn [map vint all_some].
  replace ((0 <=? Z.of_N n)%Z && (Z.of_N n <? 256)%Z) with true
    by (symmetry; apply andb_true_iff; split; [apply Z.leb_le|apply Z.ltb_lt]; lia).
  rewrite N2Z.id. reflexivity.
Qed.

Lemma py_in_N_list (sw : N) (l : list N) :
  py_in (vN sw) (VList (map vN l)) = POk (mem_N sw l).
Proof.
  unfold py_in. induction l as [|y l IH]; [reflexivity|].
  cbn [map mem_N]. unfold vN at 1 2. rewrite py_eq_int, Zeqb_N.
  destruct (sw =? y); [reflexivity|]. exact IH.
Qed.

Definition rfalse (c : Z) : pv := VList [VBool false; VInt c].
Definition ret2 (v : pv) : pv := VList [VInt 2%Z; v].

(* `if e.error_code in [...]: return (False, c)  else: return (False, d)` *)
Lemma handler_tbl (l : list N) (c d : Z) (sw : N) (w : world) :
  MV.pif (MV.pbind (MV.m_error_code (ErrorResult sw)) (fun t =>
            MV.pbind (MV.POk (VList (map vN l))) (fun t' => MV.vbool (MV.py_in t t'))))
         (MV.pbind (MV.POk (rfalse c)) (fun rv => MV.POk (ret2 rv)))
         (MV.pbind (MV.POk (rfalse d)) (fun rv => MV.POk (ret2 rv))) w =
  (XOk (ret2 (rfalse (lookup_err sw [(l, c)] d))), w).
Proof.
  unfold MV.m_error_code. rewrite !pbind_POk. unfold MV.py_in. fold (vN sw). rewrite py_in_N_list.
  rewrite vbool_lift_POk, pif_POk. cbn [py_truth lookup_err]. destruct (mem_N sw l); reflexivity.
Qed.

(* ---------- the device script only shrinks; the device never raises a Python exception ---------- *)

Definition not_py (e : exn) : Prop := match e with Py _ => False | _ => True end.
Definition not_overflow (e : exn) : Prop := e <> Py OverflowError.

Lemma send_command_facts (cmd : N) (d : bytes) (w w' : world) (r : result bytes) :
  send_command cmd d w = (r, w') ->
  (length (script w') <= length (script w))%nat /\ (forall e, r = Exn e -> not_py e).
Proof.
  unfold send_command. destruct (script w) as [|x rest] eqn:Es; intros H; inversion H; subst; clear H.
  - cbn. rewrite Es. split; [cbn; lia|]. intros e He; inversion He; subst; exact I.
  - cbn. split; [lia|]. intros e He. destruct x; cbn [classify] in He; try (inversion He; subst; exact I).
    destruct (user_defined sw); inversion He; subst; exact I.
Qed.

Lemma chunks_loop_facts (fuel : nat) (cmd op : N) (nexts : list N) (full : bool) :
  forall (rem : bytes) (req : N) (w w' : world) (r : result (bool * bytes)),
  chunks_loop fuel cmd op nexts full rem req w = (r, w') ->
  (length (script w') <= length (script w))%nat /\ (forall e, r = Exn e -> not_overflow e).
Proof.
  induction fuel as [|f IH]; intros rem req w w' r H.
  - cbn in H. inversion H; subst. split; [lia|]. intros e He; inversion He. discriminate.
  - cbn [chunks_loop] in H. unfold bind at 1 in H.
    destruct (send_command cmd _ w) as [[r0|e0] w0] eqn:Es;
      destruct (send_command_facts _ _ _ _ _ Es) as [L Hn].
    + unfold idxM, of_opt, bind at 1 in H.
      destruct (idx r0 OFF_OPn) as [rop|].
      * cbn [ret] in H.
        destruct (negb (mem_N rop (op :: nexts))).
        { inversion H; subst. split; [exact L|]. intros e He; inversion He. }
        destruct (full && negb (rop =? op) && (0 <? nlen _)).
        { inversion H; subst. split; [exact L|]. intros e He; inversion He. }
        destruct (negb (rop =? op)).
        { inversion H; subst. split; [exact L|]. intros e He; inversion He. }
        unfold bind at 1 in H.
        destruct (idx r0 OFF_DATAn) as [nreq|].
        { cbn [ret] in H. apply IH in H. destruct H as [L' Hn']. split; [lia|exact Hn']. }
        { cbn [raise] in H. inversion H; subst. split; [exact L|].
          intros e He; inversion He. discriminate. }
      * cbn [raise] in H. inversion H; subst. split; [exact L|].
        intros e He; inversion He. discriminate.
    + inversion H; subst. split; [exact L|]. intros e He; inversion He; subst.
      specialize (Hn _ eq_refl). intros C; subst e. exact Hn.
Qed.

Lemma send_chunks_facts (cmd op : N) (nexts : list N) (data : bytes) (full : bool) (req : N)
      (w w' : world) (r : result (bool * bytes)) :
  send_data_in_chunks cmd op nexts data full req w = (r, w') ->
  (length (script w') <= length (script w))%nat /\ (forall e, r = Exn e -> not_overflow e).
Proof. unfold send_data_in_chunks. apply chunks_loop_facts. Qed.

(* ---------- try: <one step of the protocol> except HSM2DongleErrorResult: <table> ---------- *)

(* the body of a translated try block against the model's step: same outcome, same world; the device
   script does not grow and no OverflowError comes out of the device *)
Definition body_rel {X} (E : pv -> X -> Prop) (body : pm pv) (m : M X) (w : world) : Prop :=
  match body w, m w with
  | (XOk v, w1), (Ok a, w2) => w1 = w2 /\ E v a /\ (length (script w1) <= length (script w))%nat
  | (XRaise e, w1), (Exn e', w2) => e = e' /\ w1 = w2 /\ not_overflow e
  | _, _ => False
  end.

Definition caught (ca : bool) (pats : list xpat) (e : exn) : bool := ca || existsb (xpat_matches e) pats.

Lemma try_step {A} (ca : bool) (pats : list xpat) (body : pm pv) (h : exn -> pm pv) (k : pv -> pm pv)
      (m : M (A + Z)) (tbl : N -> Z) (f : A + Z -> M sign_result) (E : pv -> A + Z -> Prop) (w : world) :
  body_rel E body m w ->
  (forall e w', match e with
                | ErrorResult sw => caught ca pats e = true /\ h e w' = (XOk (ret2 (rfalse (tbl sw))), w')
                | _ => not_overflow e -> caught ca pats e = false \/ h e w' = (XRaise e, w')
                end) ->
  (forall rv, k (ret2 rv) = MV.POk rv) ->
  (forall c, f (inr c) = ret (inr c)) ->
  (forall v a w', E v a -> (length (script w') <= length (script w))%nat -> k v w' = mres sign_res (f a w')) ->
  MV.ptry_k body ca pats h k w =
  mres sign_res (bind (on_error_result m (fun sw => ret (inr (tbl sw)))) f w).
Proof.
  intros Hb Hh Hk2 Hf Hk. unfold body_rel in Hb.
  unfold MV.ptry_k, bind, on_error_result, try_catch.
  destruct (body w) as [[v|e|] w1]; destruct (m w) as [[a|e'] w2]; try contradiction.
  - destruct Hb as [-> [HE HL]]. apply Hk; assumption.
  - destruct Hb as [<- [-> Hno]]. fold (caught ca pats e).
    specialize (Hh e w2). destruct e.
    1: { destruct Hh as [-> Hh]. unfold mbind. rewrite Hh, Hk2. unfold ret at 1. rewrite Hf. reflexivity. }
    all: destruct (Hh Hno) as [-> | Hh']; [reflexivity|];
         destruct (caught ca pats _); [|reflexivity]; unfold mbind; rewrite Hh'; reflexivity.
Qed.

Lemma bind_ret_r {A} (m : M A) (w : world) : bind m (fun x => ret x) w = m w.
Proof. unfold bind, ret. destruct (m w) as [[a|e] w']; reflexivity. Qed.


Lemma pbind_eq {A B} (m : pm A) (f : A -> pm B) (w w1 : world) (a : A) :
  m w = (XOk a, w1) -> MV.pbind m f w = f a w1.
Proof. intros H. unfold MV.pbind, mbind. rewrite H. reflexivity. Qed.
Lemma pbind_raise_eq {A B} (m : pm A) (f : A -> pm B) (w w1 : world) (e : exn) :
  m w = (XRaise e, w1) -> MV.pbind m f w = (XRaise e, w1).
Proof. intros H. unfold MV.pbind, mbind. rewrite H. reflexivity. Qed.
Lemma bind_eq {A B} (m : M A) (f : A -> M B) (w w1 : world) (a : A) :
  m w = (Ok a, w1) -> bind m f w = f a w1.
Proof. intros H. unfold bind. rewrite H. reflexivity. Qed.
Lemma bind_exn_eq {A B} (m : M A) (f : A -> M B) (w w1 : world) (e : exn) :
  m w = (Exn e, w1) -> bind m f w = (Exn e, w1).
Proof. intros H. unfold bind. rewrite H. reflexivity. Qed.

Lemma m_send_command_eq (cmd : N) (data : bytes) (w : world) :
  MV.m_send_command (vN cmd) (VBytes data) w =
  match send_command cmd data w with (Ok r, w1) => (XOk (VBytes r), w1) | (Exn e, w1) => (XRaise e, w1) end.
Proof.
  unfold MV.m_send_command, vN. cbn [vint].
  replace (Z.of_N cmd <? 0)%Z with false by (symmetry; apply Z.ltb_ge; lia).
  rewrite N2Z.id. unfold MV.pmap, mbind, of_M. destruct (send_command cmd data w) as [[r|e] w1]; reflexivity.
Qed.

Lemma idxM_eq {A} (l : list A) (i : nat) (w : world) :
  idxM l i w = match idx l i with Some x => (Ok x, w) | None => (Exn (Py IndexError), w) end.
Proof. unfold idxM, of_opt. destruct (idx l i); reflexivity. Qed.

Lemma step1_body (F : pv -> pv -> pv) (Fb : pm pv) (data : bytes) (w : world) :
  (forall w', Fb w' = (XOk (ret2 (rfalse (-10))), w')) ->
  body_rel (fun v a => match a with inl q => exists r, v = F (VBytes r) (vN q) | inr c => v = ret2 (rfalse c) end)
    (MV.pbind (MV.m_send_command (VInt 2) (VBytes data)) (fun v_response =>
       MV.pif (MV.pbind (MV.py_getitem v_response (VInt 2)) (fun t4_ => MV.vbool (MV.py_ne t4_ (VInt 2)))) Fb
         (MV.pbind (MV.py_getitem v_response (VInt 3)) (fun br => MV.POk (F v_response br)))))
    (r <- send_command CMD_SIGN data ;; op <- idxM r OFF_OPn ;;
     if negb (op =? SIGN_OP_BTC_TX) then ret (inr RESP_SIGN_ERROR_UNEXPECTED) else
     q <- idxM r OFF_DATAn ;; ret (inl q)) w.
Proof.
  intros HFb. unfold body_rel.
  pose proof (m_send_command_eq 2 data w) as Hs. change (vN 2) with (VInt 2) in Hs.
  change CMD_SIGN with 2. change SIGN_OP_BTC_TX with 2. change OFF_OPn with 2%nat. change OFF_DATAn with 3%nat.
  destruct (send_command 2 data w) as [[r|e] w1] eqn:Es; destruct (send_command_facts _ _ _ _ _ Es) as [L Hn].
  - rewrite (pbind_eq _ _ _ _ _ Hs), (bind_eq _ _ _ _ _ Es).
    change (VInt 2) with (VInt (Z.of_nat 2)) at 1. change (VInt 3) with (VInt (Z.of_nat 3)).
    rewrite !mv_getitem_bytes.
    pose proof (idxM_eq r 2 w1) as H2. destruct (idx r 2) as [op|].
    + rewrite (bind_eq _ _ _ _ _ H2).
      rewrite pbind_POk. change (VInt 2) with (vN 2). rewrite mv_py_ne_N, pif_POk. cbn [py_truth].
      destruct (negb (op =? 2)).
      * rewrite HFb. cbn [ret]. auto.
      * pose proof (idxM_eq r 3 w1) as H3. destruct (idx r 3) as [q|].
        { rewrite (bind_eq _ _ _ _ _ H3), pbind_POk. cbn [MV.POk mret ret].
          split; [reflexivity|]. split; [exists r; reflexivity|exact L]. }
        { rewrite (bind_exn_eq _ _ _ _ _ H3), pbind_PRaise. cbn [MV.PRaise mraise].
          split; [reflexivity|]. split; [reflexivity|discriminate]. }
    + rewrite (bind_exn_eq _ _ _ _ _ H2), pbind_PRaise. cbn [MV.pif mbind MV.PRaise mraise].
      split; [reflexivity|]. split; [reflexivity|discriminate].
  - rewrite (pbind_raise_eq _ _ _ _ _ Hs), (bind_exn_eq _ _ _ _ _ Es).
    split; [reflexivity|]. split; [reflexivity|]. specialize (Hn _ eq_refl). intros C; subst e; exact Hn.
Qed.

Lemma chunks_eq (fuel : nat) (self name desc : pv) (op nx : N) (data : bytes) (req : N) (w : world) :
  op < 256 -> (S (length (script w)) <= fuel)%nat ->
  srcm_HSM2Dongle___send_data_in_chunks fuel self (VInt 2) (vN op) (VList [vN nx]) (VBytes data)
                 (VBool true) (vN req) name desc w =
  match send_data_in_chunks 2 op [nx] data true req w with
  | (Ok cr, w1) => (XOk (chunk_res cr), w1) | (Exn e, w1) => (XRaise e, w1) end.
Proof.
  intros Hop Hfuel.
  pose proof (srcm_send_data_in_chunks_ok fuel self name desc 2 op [nx] data true req w Hop Hfuel) as Hc.
  change (vN 2) with (VInt 2) in Hc. cbn [map] in Hc. rewrite Hc. unfold mres.
  destruct (send_data_in_chunks 2 op [nx] data true req w) as [[cr|e] w1]; reflexivity.
Qed.

(* steps 2 and 3: a chunked send, then the size of the next request *)
Lemma chunk_body (F : pv -> pv -> pv) (Fb : pm pv) (fuel : nat) (self name desc : pv) (op nx : N)
      (data : bytes) (req : N) (w : world) :
  op < 256 -> (S (length (script w)) <= fuel)%nat ->
  (forall w', Fb w' = (XOk (ret2 (rfalse (-10))), w')) ->
  body_rel (fun v a => match a with inl q => exists r, v = F (chunk_res (true, r)) (vN q) | inr c => v = ret2 (rfalse c) end)
    (MV.pbind (srcm_HSM2Dongle___send_data_in_chunks fuel self (VInt 2) (vN op) (VList [vN nx]) (VBytes data)
                 (VBool true) (vN req) name desc) (fun v_response =>
       MV.pif (MV.py_not (MV.py_getitem v_response (VInt 0))) Fb
         (MV.pbind (MV.pbind (MV.py_getitem v_response (VInt 1)) (fun t => MV.py_getitem t (VInt 3)))
                   (fun br => MV.POk (F v_response br)))))
    (cr <- send_data_in_chunks CMD_SIGN op [nx] data true req ;;
     if negb (fst cr) then ret (inr RESP_SIGN_ERROR_UNEXPECTED) else
     q <- idxM (snd cr) OFF_DATAn ;; ret (inl q)) w.
Proof.
  intros Hop Hfuel HFb. unfold body_rel.
  pose proof (chunks_eq fuel self name desc op nx data req w Hop Hfuel) as Hs.
  change CMD_SIGN with 2. change OFF_DATAn with 3%nat.
  destruct (send_data_in_chunks 2 op [nx] data true req w) as [[[b r]|e] w1] eqn:Es;
    destruct (send_chunks_facts _ _ _ _ _ _ _ _ _ Es) as [L Hn].
  - rewrite (pbind_eq _ _ _ _ _ Hs), (bind_eq _ _ _ _ _ Es).
    unfold chunk_res at 1 2. cbn [fst snd]. rewrite mv_getitem_pair0, py_not_POk, pif_POk. cbn [py_truth].
    destruct b; cbn [negb].
    + rewrite mv_getitem_pair1, pbind_POk. change (VInt 3) with (VInt (Z.of_nat 3)). rewrite mv_getitem_bytes.
      pose proof (idxM_eq r 3 w1) as H3. destruct (idx r 3) as [q|].
      * rewrite (bind_eq _ _ _ _ _ H3), pbind_POk. cbn [MV.POk mret ret].
        split; [reflexivity|]. split; [exists r; reflexivity|exact L].
      * rewrite (bind_exn_eq _ _ _ _ _ H3), pbind_PRaise. cbn [MV.PRaise mraise].
        split; [reflexivity|]. split; [reflexivity|discriminate].
    + rewrite HFb. cbn [ret]. auto.
  - rewrite (pbind_raise_eq _ _ _ _ _ Hs), (bind_exn_eq _ _ _ _ _ Es).
    split; [reflexivity|]. split; [reflexivity|]. apply Hn. reflexivity.
Qed.

(* step 4: a chunked send whose last response carries the signature *)
Lemma chunk_body4 (F : pv -> pv) (Fb : pm pv) (fuel : nat) (self name desc : pv) (op nx : N)
      (data : bytes) (req : N) (w : world) :
  op < 256 -> (S (length (script w)) <= fuel)%nat ->
  (forall w', Fb w' = (XOk (ret2 (rfalse (-10))), w')) ->
  body_rel (fun v a => (exists r, v = F (chunk_res (true, r)) /\ a = parse_sig (slice_from r OFF_DATAn)) \/
                       (v = ret2 (rfalse (-10)) /\ a = inr (-10)%Z))
    (MV.pbind (srcm_HSM2Dongle___send_data_in_chunks fuel self (VInt 2) (vN op) (VList [vN nx]) (VBytes data)
                 (VBool true) (vN req) name desc) (fun v_response =>
       MV.pif (MV.py_not (MV.py_getitem v_response (VInt 0))) Fb (MV.POk (F v_response))))
    (cr <- send_data_in_chunks CMD_SIGN op [nx] data true req ;;
     if negb (fst cr) then ret (inr RESP_SIGN_ERROR_UNEXPECTED) else
     ret (parse_sig (slice_from (snd cr) OFF_DATAn))) w.
Proof.
  intros Hop Hfuel HFb. unfold body_rel.
  pose proof (chunks_eq fuel self name desc op nx data req w Hop Hfuel) as Hs.
  change CMD_SIGN with 2.
  destruct (send_data_in_chunks 2 op [nx] data true req w) as [[[b r]|e] w1] eqn:Es;
    destruct (send_chunks_facts _ _ _ _ _ _ _ _ _ Es) as [L Hn].
  - rewrite (pbind_eq _ _ _ _ _ Hs), (bind_eq _ _ _ _ _ Es).
    unfold chunk_res at 1. cbn [fst snd]. rewrite mv_getitem_pair0, py_not_POk, pif_POk. cbn [py_truth].
    destruct b; cbn [negb].
    + cbn [MV.POk mret ret]. split; [reflexivity|]. split; [left; exists r; split; reflexivity|exact L].
    + rewrite HFb. cbn [ret]. split; [reflexivity|]. split; [right; split; reflexivity|exact L].
  - rewrite (pbind_raise_eq _ _ _ _ _ Hs), (bind_exn_eq _ _ _ _ _ Es).
    split; [reflexivity|]. split; [reflexivity|]. apply Hn. reflexivity.
Qed.

(* ---------- the merkle-proof loop ---------- *)

Definition lastv (nb : pv) (proof : list bytes) : pv := fold_left (fun _ b => VBytes b) proof nb.

Lemma all_some_length {A} (l : list (option A)) (r : list A) : all_some l = Some r -> length r = length l.
Proof.
  revert r. induction l as [|[a|] l IH]; intros r H; cbn [all_some] in H; [inversion H; reflexivity| |discriminate].
  destruct (all_some l) as [r'|]; [|discriminate]. inversion H; subst. cbn [length]. f_equal. apply IH. reflexivity.
Qed.

Lemma merkle_pfold (lb : pv -> pv -> pm pv) :
  (forall nb acc x b, fromhex x = Some b ->
     lb (VList [nb; VBytes acc]) (VStr x) =
     if 255 <? nlen b then MV.PRaise ValueError else MV.POk (VList [VBytes b; VBytes (acc ++ nlen b :: b)])) ->
  forall (proof_hex : list str) (proof : list bytes) (nb : pv) (acc : bytes) (w : world),
  all_some (map fromhex proof_hex) = Some proof ->
  MV.pfold (map VStr proof_hex) (VList [nb; VBytes acc]) lb w =
  if forallb (fun nd => nlen nd <=? 255) proof
  then (XOk (VList [lastv nb proof; VBytes (acc ++ concat (map (fun nd => nlen nd :: nd) proof))]), w)
  else (XRaise (Py ValueError), w).
Proof.
  intros Hlb. induction proof_hex as [|x xs IH]; intros proof nb acc w H.
  - cbn in H. inversion H; subst. cbn. rewrite app_nil_r. reflexivity.
  - cbn [map all_some] in H. destruct (fromhex x) as [b|] eqn:Ex; [|discriminate].
    destruct (all_some (map fromhex xs)) as [bs|] eqn:Exs; [|discriminate]. inversion H; subst; clear H.
    cbn [map MV.pfold]. rewrite (Hlb _ _ _ _ Ex). cbn [forallb].
    rewrite (N.leb_antisym 255 (nlen b)). destruct (255 <? nlen b); cbn [negb andb].
    + reflexivity.
    + unfold mbind. cbn [MV.POk mret]. rewrite (IH bs _ _ _ eq_refl). cbn [map concat lastv fold_left].
      rewrite <- app_assoc. reflexivity.
Qed.

Lemma merkle_try_k (lb : pv -> pv -> pm pv) (fin : pv -> pm pv) (h : exn -> pm pv) (k : pv -> pm pv)
      (proof_hex : list str) (proof : list bytes) (w : world) :
  all_some (map fromhex proof_hex) = Some proof ->
  (forall nb acc x b, fromhex x = Some b ->
     lb (VList [nb; VBytes acc]) (VStr x) =
     if 255 <? nlen b then MV.PRaise ValueError else MV.POk (VList [VBytes b; VBytes (acc ++ nlen b :: b)])) ->
  (forall nb mp, fin (VList [nb; VBytes mp]) = MV.POk (VList [VInt 1%Z; VList [VBytes mp; VNone; nb]])) ->
  MV.ptry_k
    (MV.pif (MV.pbind (MV.py_len (VList (map VStr proof_hex))) (fun t => MV.vbool (MV.py_cmp CGt t (VInt 255))))
       (MV.PRaise ValueError)
       (MV.pbind (MV.pbind (MV.pbind (MV.py_len (VList (map VStr proof_hex))) (fun t29 => MV.POk (VList [t29])))
                           (fun t28 => MV.py_bytes t28))
          (fun mpb => MV.pbind (MV.POk (VList (map VStr proof_hex))) (fun t35 =>
             MV.pbind (MV.py_for t35 (VList [VNone; mpb]) lb) fin))))
    false [XPy ValueError] h k w =
  match merkle_proof_bytes proof with
  | Some mp => k (VList [VInt 1%Z; VList [VBytes mp; VNone; lastv VNone proof]]) w
  | None => mbind (h (Py ValueError)) k w
  end.
Proof.
  intros Hp Hlb Hfin.
  assert (Hlen : nlen (map VStr proof_hex) = nlen proof).
  { unfold nlen. rewrite (all_some_length _ _ Hp), !map_length. reflexivity. }
  rewrite !mv_py_len_list, !pbind_POk, Hlen. change (VInt 255) with (VInt (Z.of_N 255)).
  unfold MV.py_cmp. rewrite py_cmp_int, Zltb_N, vbool_lift_POk, pif_POk. cbn [py_truth].
  unfold merkle_proof_bytes.
  destruct (255 <? nlen proof) eqn:E255.
  - rewrite (ptry_k_raise _ _ _ _ _ w w (Py ValueError) eq_refl). reflexivity.
  - fold (vN (nlen proof)). rewrite mv_py_bytes_single by (apply N.ltb_ge in E255; lia).
    rewrite !pbind_POk.
    change (MV.py_for (VList (map VStr proof_hex)) (VList [VNone; VBytes [nlen proof]]) lb)
      with (MV.pfold (map VStr proof_hex) (VList [VNone; VBytes [nlen proof]]) lb).
    pose proof (merkle_pfold lb Hlb proof_hex proof VNone [nlen proof] w Hp) as Hf.
    destruct (forallb (fun nd => nlen nd <=? 255) proof).
    + assert (Hb : MV.pbind (MV.pfold (map VStr proof_hex) (VList [VNone; VBytes [nlen proof]]) lb) fin w =
                   (XOk (VList [VInt 1%Z; VList [VBytes (nlen proof :: concat (map (fun nd => nlen nd :: nd) proof));
                                                  VNone; lastv VNone proof]]), w))
        by (rewrite (pbind_eq _ _ _ _ _ Hf), Hfin; reflexivity).
      rewrite (ptry_k_ok _ _ _ _ _ _ _ _ Hb). reflexivity.
    + rewrite (ptry_k_raise _ _ _ _ _ _ _ _ (pbind_raise_eq _ _ _ _ _ Hf)). reflexivity.
Qed.
