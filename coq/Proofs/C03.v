(* C03: no client request can take the manager down or go unanswered. *)
From PowHsm Require Import Model.Server Proofs.C02.
From Coq Require Import ZifyBool ZifyNat ZifyN Lia.
Open Scope N_scope.

(* ======================================================================================= *)
(* B.3  The gate never raises                                                              *)
(* ======================================================================================= *)
Definition known_validator (vn : str) : bool :=
  str_eqb vn (s "<lambda>") || str_eqb vn (s "_validate_sign")
  || str_eqb vn (s "_validate_get_pubkey") || str_eqb vn (s "_validate_advance_blockchain")
  || str_eqb vn (s "_validate_update_ancestor_block")
  || str_eqb vn (s "_validate_signer_heartbeat") || str_eqb vn (s "_validate_ui_heartbeat").

Lemma known_validator_runs m vn req :
  known_validator vn = true -> exists v, run_validator m vn req = Some v.
Proof.
  unfold known_validator, run_validator.
  destruct (str_eqb vn (s "<lambda>")); [eauto|].
  destruct (str_eqb vn (s "_validate_sign")); [eauto|].
  destruct (str_eqb vn (s "_validate_get_pubkey")); [eauto|].
  destruct (str_eqb vn (s "_validate_advance_blockchain")); [eauto|].
  destruct (str_eqb vn (s "_validate_update_ancestor_block")); [eauto|].
  destruct (str_eqb vn (s "_validate_signer_heartbeat")); [eauto|].
  destruct (str_eqb vn (s "_validate_ui_heartbeat")); [eauto|].
  discriminate.
Qed.

(* closed checks on the generated tables *)
Lemma unhashable_code_defined m : exists code, unhashable_code m = Some code.
Proof. destruct m; eexists; reflexivity. Qed.

Lemma every_command_has_validator m :
  forallb (fun cmd => match validator_name m cmd with
                      | Some vn => known_validator vn | None => false end)
          (known_commands m) = true.
Proof. destruct m; vm_compute; reflexivity. Qed.

Theorem gate_never_crashes m r e : gate_request m r <> GCrash e.
Proof.
  rewrite gate_request_classified.
  destruct (classify_request m r) as [| | | | |cmd req] eqn:Ec; cbn [gate_of_verdict];
    try discriminate.
  - destruct (unhashable_code_defined m) as [code ->]. discriminate.
  - apply classify_validate_iff in Ec. destruct Ec as [_ [_ [_ Hk]]].
    pose proof (every_command_has_validator m) as Hv. rewrite forallb_forall in Hv.
    specialize (Hv cmd Hk).
    destruct (validator_name m cmd) as [vn|]; [|discriminate].
    destruct (known_validator_runs m vn req Hv) as [v ->].
    destruct (v <? 0)%Z; discriminate.
Qed.

Corollary gate_total m r :
  (exists code, gate_request m r = GReject code) \/
  (exists cmd req, gate_request m r = GAccept cmd req).
Proof.
  destruct (gate_request m r) as [code|e|cmd req] eqn:E; eauto.
  exfalso. exact (gate_never_crashes m r e E).
Qed.

(* every accepted command is dispatched to an implemented operation *)
Definition implemented (m : pmode) (opname : str) : bool :=
  let is x := str_eqb opname (s x) in
  is "_version" || is "_get_pubkey" || is "_sign" ||
  match m with
  | V1 => false
  | V5 => is "_advance_blockchain" || is "_reset_advance_blockchain" || is "_blockchain_state"
          || is "_update_ancestor_block" || is "_get_blockchain_parameters"
          || is "_signer_heartbeat" || is "_ui_heartbeat"
  end.

Lemma implemented_runs keccak kind m opname req :
  implemented m opname = true -> exists op, run_operation keccak kind m opname req = Some op.
Proof.
  unfold implemented, run_operation.
  destruct (str_eqb opname (s "_version")); [eauto|].
  destruct (str_eqb opname (s "_get_pubkey")); [eauto|].
  destruct (str_eqb opname (s "_sign")); [eauto|].
  destruct m; [|discriminate].
  destruct (str_eqb opname (s "_advance_blockchain")); [eauto|].
  destruct (str_eqb opname (s "_reset_advance_blockchain")); [eauto|].
  destruct (str_eqb opname (s "_blockchain_state")); [eauto|].
  destruct (str_eqb opname (s "_update_ancestor_block")); [eauto|].
  destruct (str_eqb opname (s "_get_blockchain_parameters")); [eauto|].
  destruct (str_eqb opname (s "_signer_heartbeat")); [eauto|].
  destruct (str_eqb opname (s "_ui_heartbeat")); [eauto|].
  discriminate.
Qed.

Definition dispatch_table (m : pmode) := match m with V5 => DISPATCH_V5 | V1 => DISPATCH_V1 end.

Lemma every_command_dispatched m :
  forallb (fun cmd => match assoc_str cmd (dispatch_table m) with
                      | Some opname => implemented m opname | None => false end)
          (known_commands m) = true.
Proof. destruct m; vm_compute; reflexivity. Qed.

Section S.
Variable keccak : bytes -> bytes.
Variable kind : dongle_kind.

Lemma dispatch_total m r cmd req :
  gate_request m r = GAccept cmd req ->
  exists opname op, assoc_str cmd (dispatch_table m) = Some opname /\
                    run_operation keccak kind m opname req = Some op.
Proof.
  intro H. apply accept_runs_validated in H. destruct H as [_ [_ [_ [Hk _]]]].
  pose proof (every_command_dispatched m) as Hd. rewrite forallb_forall in Hd.
  specialize (Hd cmd Hk). destruct (assoc_str cmd (dispatch_table m)) as [opname|]; [|discriminate].
  destruct (implemented_runs keccak kind m opname req Hd) as [op Hop]. eauto.
Qed.

(* ======================================================================================= *)
(* B.2  Every reply of handle_request is an object with an integer errorcode               *)
(* ======================================================================================= *)
Lemma str_eqb_sym (a b : str) : str_eqb a b = str_eqb b a.
Proof.
  destruct (str_eqb a b) eqn:E1, (str_eqb b a) eqn:E2; try reflexivity.
  - apply str_eqb_eq in E1. subst. rewrite str_eqb_refl in E2. discriminate.
  - apply str_eqb_eq in E2. subst. rewrite str_eqb_refl in E1. discriminate.
Qed.

Lemma jget_filtered_append (k : str) (v : json) (fields : obj) :
  jget k (filter (fun kv => negb (str_eqb (fst kv) k)) fields ++ [(k, v)]) = Some v.
Proof.
  unfold jget. induction fields as [|[k' v'] fields IH]; cbn [filter app assoc_str fst].
  - rewrite str_eqb_refl. reflexivity.
  - destruct (str_eqb k' k) eqn:E; cbn [negb]; [exact IH|].
    cbn [app assoc_str]. rewrite str_eqb_sym, E. exact IH.
Qed.

(* the shape of a successful operation's reply *)
Definition op_reply (code : Z) (out : option obj) : option json :=
  if (code <? 0)%Z then Some (JObj [(KEY_ERRORCODE, JInt code)]) else
  match out with
  | None => None
  | Some fields =>
      Some (JObj (filter (fun kv => negb (str_eqb (fst kv) KEY_ERRORCODE)) fields
                  ++ [(KEY_ERRORCODE, JInt code)]))
  end.

(* handle_request as a case analysis *)
Lemma handle_request_cases m request w :
  (exists code, gate_request m request = GReject code /\
     handle_request keccak kind m request w = (Ok (JObj [(KEY_ERRORCODE, JInt code)]), w)) \/
  (exists cmd req opname op, gate_request m request = GAccept cmd req /\
     assoc_str cmd (dispatch_table m) = Some opname /\
     run_operation keccak kind m opname req = Some op /\
     handle_request keccak kind m request w =
       match op w with
       | (Ok (code, out), w') =>
           (match op_reply code out with Some j => Ok j | None => Exn (Py IndexError) end, w')
       | (Exn e, w') => (Exn e, w')
       end).
Proof.
  destruct (gate_total m request) as [[code Hg] | [cmd [req Hg]]].
  - left. exists code. split; [exact Hg|]. apply rejected_no_exchange. exact Hg.
  - right. destruct (dispatch_total m request cmd req Hg) as [opname [op [Hd Ho]]].
    exists cmd, req, opname, op. repeat split; auto.
    unfold handle_request. rewrite Hg. fold (dispatch_table m). rewrite Hd, Ho.
    unfold bind. destruct (op w) as [[[code out]|e] w']; [|reflexivity].
    unfold op_reply. destruct (code <? 0)%Z; [reflexivity|]. destruct out; reflexivity.
Qed.

Theorem reply_has_errorcode m request w reply w' :
  handle_request keccak kind m request w = (Ok reply, w') ->
  exists kv c, reply = JObj kv /\ jget KEY_ERRORCODE kv = Some (JInt c).
Proof.
  intro H.
  destruct (handle_request_cases m request w)
    as [[code [_ Hr]] | [cmd [req [opname [op [_ [_ [_ Hr]]]]]]]]; rewrite Hr in H.
  - inversion H; subst. exists [(KEY_ERRORCODE, JInt code)], code. split; reflexivity.
  - destruct (op w) as [[[code out]|e] w'']; [|discriminate].
    unfold op_reply in H. destruct (code <? 0)%Z.
    + inversion H; subst. exists [(KEY_ERRORCODE, JInt code)], code. split; reflexivity.
    + destruct out as [fields|]; [|discriminate]. inversion H; subst.
      eexists. exists code. split; [reflexivity|]. apply jget_filtered_append.
Qed.

(* the only exceptions handle_request itself adds to those of the operation: IndexError when
   an operation answers a non-negative code without a payload *)
Theorem handle_request_exn m request w e w' :
  handle_request keccak kind m request w = (Exn e, w') ->
  exists cmd req opname op, gate_request m request = GAccept cmd req /\
    assoc_str cmd (dispatch_table m) = Some opname /\
    run_operation keccak kind m opname req = Some op /\
    (op w = (Exn e, w') \/ exists code, op w = (Ok (code, None), w') /\ (0 <= code)%Z /\
                                        e = Py IndexError).
Proof.
  intro H.
  destruct (handle_request_cases m request w)
    as [[code [_ Hr]] | [cmd [req [opname [op [Hg [Hd [Ho Hr]]]]]]]]; rewrite Hr in H.
  - discriminate.
  - exists cmd, req, opname, op. repeat split; auto.
    destruct (op w) as [[[code out]|e'] w'']; [|left; inversion H; reflexivity].
    right. unfold op_reply in H. destruct (code <? 0)%Z eqn:Ec; [discriminate|].
    destruct out; [discriminate|]. inversion H; subst. exists code. repeat split. lia.
Qed.

(* ======================================================================================= *)
(* B.1  server_handle: one reply per request line, and exactly when it stops the server    *)
(* ======================================================================================= *)
Variable mode : pmode.

Definition stop_of (po : parse_outcome) (w : world) : bool :=
  snd (fst (server_handle keccak kind mode po w)).
Definition reply_of (po : parse_outcome) (w : world) : json :=
  fst (fst (server_handle keccak kind mode po w)).
Definition world_after (po : parse_outcome) (w : world) : world :=
  snd (server_handle keccak kind mode po w).

Theorem server_handle_total po w :
  server_handle keccak kind mode po w = ((reply_of po w, stop_of po w), world_after po w).
Proof.
  unfold reply_of, stop_of, world_after.
  destruct (server_handle keccak kind mode po w) as [[r b] w']. reflexivity.
Qed.

Theorem server_handle_stop_iff po w :
  stop_of po w = true <->
  (po = ParserRaised /\ SERVER_PARSER_RAISED_IS_FORMAT_ERROR = false) \/
  (exists j e w', po = Parsed j /\ handle_request keccak kind mode j w = (Exn e, w') /\
                  e <> Py NotImplementedErr).
Proof.
  unfold stop_of, server_handle. split.
  - destruct po as [| | |j]; intro H.
    + discriminate H.
    + discriminate H.
    + revert H. destruct SERVER_PARSER_RAISED_IS_FORMAT_ERROR; cbn [fst snd]; intro H;
        [discriminate H|]. auto.
    + revert H. destruct (handle_request keccak kind mode j w) as [[reply|e] w'] eqn:Eh;
        cbn [fst snd]; intro H; [discriminate H|].
      right. exists j, e, w'. split; [reflexivity|]. split; [exact Eh|].
      intro He. subst e. discriminate H.
  - intros [[-> Hc] | [j [e [w' [-> [Hh He]]]]]].
    + rewrite Hc. reflexivity.
    + rewrite Hh. destruct e as [| | | | | | | |[]]; try reflexivity. contradiction.
Qed.

(* closed check: this source answers a format error when json.loads raises anything *)
Lemma parser_raised_is_format_error : SERVER_PARSER_RAISED_IS_FORMAT_ERROR = true.
Proof. reflexivity. Qed.

Theorem server_handle_unparsed po w :
  (forall j, po <> Parsed j) ->
  server_handle keccak kind mode po w =
    ((JObj [(KEY_ERRORCODE, JInt (c_format (codes_of mode)))], false), w).
Proof.
  intro H. destruct po as [| | |j]; try reflexivity. exfalso. exact (H j eq_refl).
Qed.

(* what the client reads back in every case in which the server keeps going *)
Theorem server_handle_reply_shape po w :
  stop_of po w = false ->
  (exists kv c, reply_of po w = JObj kv /\ jget KEY_ERRORCODE kv = Some (JInt c)) \/
  (exists j w', po = Parsed j /\
                handle_request keccak kind mode j w = (Exn (Py NotImplementedErr), w') /\
                reply_of po w = JObj []).
Proof.
  unfold stop_of, reply_of. intro Hs.
  destruct po as [| | |j].
  - left. eexists. eexists. split; reflexivity.
  - left. eexists. eexists. split; reflexivity.
  - left. unfold server_handle. rewrite parser_raised_is_format_error.
    eexists. eexists. split; reflexivity.
  - unfold server_handle in *.
    destruct (handle_request keccak kind mode j w) as [[reply|e] w'] eqn:Eh; cbn [fst snd] in *.
    + left. apply reply_has_errorcode in Eh. destruct Eh as [kv [c [-> Hj]]]. eauto.
    + right. destruct e as [| | | | | | | |[]]; try discriminate.
      exists j, w'. split; [reflexivity|]. split; [exact Eh|reflexivity].
Qed.

(* NotImplementedError cannot come from the dispatcher: every accepted command is implemented;
   so under [stop = false] an empty-object reply can only come from an operation that itself
   raised NotImplementedError *)
Theorem rejected_request_answered j code w :
  gate_request mode j = GReject code ->
  server_handle keccak kind mode (Parsed j) w =
    ((JObj [(KEY_ERRORCODE, JInt code)], false), w).
Proof.
  intro H. unfold server_handle. rewrite (rejected_no_exchange keccak kind mode j code w H).
  reflexivity.
Qed.

(* ======================================================================================= *)
(* B.4  A manager lifetime                                                                 *)
(* ======================================================================================= *)
Fixpoint never_stops (reqs : list parse_outcome) (w : world) : Prop :=
  match reqs with
  | [] => True
  | po :: rest => stop_of po w = false /\ never_stops rest (world_after po w)
  end.

(* the replies, were every request served *)
Fixpoint run_all (reqs : list parse_outcome) (w : world) : list (json * bool) :=
  match reqs with
  | [] => []
  | po :: rest => (reply_of po w, stop_of po w) :: run_all rest (world_after po w)
  end.

Lemma run_all_length reqs : forall w, length (run_all reqs w) = length reqs.
Proof. induction reqs as [|po rest IH]; intro w; cbn [run_all length]; [|rewrite IH]; reflexivity. Qed.

Theorem lifetime reqs : forall w,
  never_stops reqs w ->
  let replies := fst (serve keccak kind mode reqs w) in
  replies = run_all reqs w /\
  length replies = length reqs /\
  Forall (fun rs => snd rs = false) replies.
Proof.
  induction reqs as [|po rest IH]; intros w Hn.
  - cbn. repeat split. constructor.
  - destruct Hn as [Hs Hn]. specialize (IH _ Hn). cbv zeta in IH.
    destruct IH as [IH1 [IH2 IH3]].
    cbn [serve run_all]. rewrite (server_handle_total po w). rewrite Hs.
    destruct (serve keccak kind mode rest (world_after po w)) as [more w''] eqn:Es.
    cbn [fst] in *. subst more. cbv zeta. cbn [fst length].
    split; [reflexivity|]. split; [rewrite IH2; reflexivity|].
    constructor; [reflexivity | exact IH3].
Qed.

(* in general: the server answers a prefix of the requests, and only the last answer can carry
   the stop flag *)
Theorem serve_prefix reqs : forall w,
  let replies := fst (serve keccak kind mode reqs w) in
  (length replies <= length reqs)%nat /\
  Forall (fun rs => snd rs = false) (removelast replies) /\
  ((length replies < length reqs)%nat -> exists r, last replies (JNull, false) = (r, true)).
Proof.
  induction reqs as [|po rest IH]; intro w.
  - cbn. split; [lia|]. split; [constructor | lia].
  - specialize (IH (world_after po w)). cbv zeta in IH. destruct IH as [IH1 [IH2 IH3]].
    cbn [serve]. rewrite (server_handle_total po w).
    destruct (stop_of po w) eqn:Hs.
    + cbn. split; [lia|]. split; [constructor | eauto].
    + destruct (serve keccak kind mode rest (world_after po w)) as [more w''] eqn:Es.
      cbn [fst] in *. cbv zeta. cbn [fst length]. split; [lia|]. split.
      * destruct more as [|x more]; [constructor|].
        change (removelast ((reply_of po w, false) :: x :: more))
          with ((reply_of po w, false) :: removelast (x :: more)).
        constructor; [reflexivity | exact IH2].
      * intro Hl. destruct more as [|x more].
        -- destruct rest; cbn [length] in *; [lia|]. destruct IH3 as [r Hr]; [lia|].
           cbn in Hr. inversion Hr.
        -- change (last ((reply_of po w, false) :: x :: more) (JNull, false))
             with (last (x :: more) (JNull, false)).
           apply IH3. cbn [length] in *. lia.
Qed.

(* requests that are rejected by the gate or do not parse never stop the server and never touch
   the device, in any number and any order *)
Definition harmless (po : parse_outcome) : Prop :=
  match po with Parsed j => exists code, gate_request mode j = GReject code | _ => True end.

Theorem harmless_lifetime reqs w :
  Forall harmless reqs ->
  snd (serve keccak kind mode reqs w) = w /\
  length (fst (serve keccak kind mode reqs w)) = length reqs /\
  Forall (fun rs => snd rs = false /\
            exists c, fst rs = JObj [(KEY_ERRORCODE, JInt c)]) (fst (serve keccak kind mode reqs w)).
Proof.
  induction 1 as [|po rest Hp Hr IH].
  - cbn. repeat split. constructor.
  - destruct IH as [IH1 [IH2 IH3]]. cbn [serve].
    assert (Hh : exists c, server_handle keccak kind mode po w
                           = ((JObj [(KEY_ERRORCODE, JInt c)], false), w)).
    { destruct po as [| | |j].
      - eexists. reflexivity.
      - eexists. reflexivity.
      - eexists. unfold server_handle. rewrite parser_raised_is_format_error. reflexivity.
      - destruct Hp as [code Hc]. exists code. apply rejected_request_answered. exact Hc. }
    destruct Hh as [c Hh]. rewrite Hh.
    destruct (serve keccak kind mode rest w) as [more w''] eqn:Es. cbn [fst snd] in *.
    split; [exact IH1|]. split; [cbn [length]; rewrite IH2; reflexivity|].
    constructor; [|exact IH3]. cbn [fst snd]. split; [reflexivity|]. eauto.
Qed.

End S.

(* ======================================================================================= *)
(* No operation answers a non-negative code without a payload: handle_request itself never *)
(* raises (the IndexError path is dead), so it raises only what the operation raised       *)
(* ======================================================================================= *)
Definition okres {A} (P : A -> Prop) (m : M A) : Prop :=
  forall w a w', m w = (Ok a, w') -> P a.

Lemma okres_ret {A} (P : A -> Prop) a : P a -> okres P (ret a).
Proof. intros H w a' w' E. inversion E; subst. exact H. Qed.

Lemma okres_raise {A} (P : A -> Prop) e : okres P (raise e).
Proof. intros w a' w' E. discriminate. Qed.

Lemma okres_bind {A B} (P : B -> Prop) (m : M A) (f : A -> M B) :
  (forall a, okres P (f a)) -> okres P (bind m f).
Proof.
  intros H w b w' E. unfold bind in E. destruct (m w) as [[a|e] wm]; [|discriminate].
  exact (H a wm b w' E).
Qed.

Lemma okres_try_catch {A} (P : A -> Prop) (m : M A) h :
  okres P m -> (forall e k, h e = Some k -> okres P k) -> okres P (try_catch m h).
Proof.
  intros Hm Hh w a w' E. unfold try_catch in E. destruct (m w) as [[a0|e] wm] eqn:Em.
  - inversion E; subst. exact (Hm w a w' Em).
  - destruct (h e) as [k|] eqn:Ek; [|discriminate]. exact (Hh e k Ek wm a w' E).
Qed.

(* "a bare code is negative" *)
Definition rt_ok (r : rtuple) : Prop := snd r = None -> (fst r < 0)%Z.

Definition ladder_ok (lad : list (list N * bool * ladder_action)) : bool :=
  forallb (fun x => match snd x with LadCode c => (c <? 0)%Z | LadError => true | LadPass => false end)
          lad.

Lemma apply_ladder_ok lad : ladder_ok lad = true ->
  forall e k, apply_ladder lad e = Some k -> okres rt_ok k.
Proof.
  induction lad as [|[[cs flag] act] rest IH]; intros Hl e k; cbn [apply_ladder]; [discriminate|].
  unfold ladder_ok in Hl. cbn [forallb snd] in Hl. apply andb_true_iff in Hl.
  destruct Hl as [Ha Hr].
  destruct (exn_matches e cs); [|apply IH; exact Hr].
  intro E. inversion E; subst k. apply okres_bind. intros _.
  destruct act.
  - apply okres_ret. intros _. cbn [fst]. lia.
  - apply okres_raise.
  - discriminate.
Qed.

Lemma with_ladder_ok lad body :
  ladder_ok lad = true -> okres rt_ok body -> okres rt_ok (with_ladder lad body).
Proof. intros Hl Hb. apply okres_try_catch; [exact Hb | apply apply_ladder_ok; exact Hl]. Qed.

Lemma lookup_Z_neg k tbl d :
  forallb (fun kv => (snd kv <? 0)%Z) tbl = true -> (d < 0)%Z -> (lookup_Z k tbl d < 0)%Z.
Proof.
  intros Ht Hd. unfold lookup_Z. induction tbl as [|[k' v] tbl IH]; cbn [assoc_Z]; [exact Hd|].
  cbn [forallb snd] in Ht. apply andb_true_iff in Ht. destruct Ht as [Hv Ht].
  destruct (k =? k')%Z; [lia | exact (IH Ht)].
Qed.

Lemma finish_sign_ok m r : rt_ok (finish_sign m r).
Proof.
  destruct r as [rs|c]; cbn [finish_sign]; intro H; [discriminate|]. cbn [fst].
  destruct m; apply lookup_Z_neg; reflexivity.
Qed.

Lemma with_ladder_sign_ok m lad body :
  ladder_ok lad = true -> okres rt_ok (with_ladder_sign m lad body).
Proof.
  intro Hl. apply okres_try_catch; [|apply apply_ladder_ok; exact Hl].
  apply okres_bind. intro r. apply okres_ret. apply finish_sign_ok.
Qed.

Ltac okres_step :=
  first [ apply okres_ret; let Hnone := fresh "Hnone" in intro Hnone; try discriminate Hnone
        | apply okres_raise
        | apply okres_bind; intro ].

Section NoIndexError.
Variable keccak : bytes -> bytes.
Variable kind : dongle_kind.

Lemma op_get_pubkey_ok m req : okres rt_ok (op_get_pubkey kind m req).
Proof.
  unfold op_get_pubkey. apply with_ladder_ok; [destruct m; reflexivity|].
  repeat okres_step.
Qed.

Lemma op_sign_v5_ok req : okres rt_ok (op_sign_v5 kind req).
Proof.
  unfold op_sign_v5.
  match goal with |- context [if ?b then _ else _] => destruct b end.
  - destruct (validate_message (codes_of V5) req WHash <? 0)%Z eqn:E.
    + apply okres_ret. intros _. cbn [fst]. lia.
    + apply with_ladder_sign_ok. reflexivity.
  - destruct (validate_auth (codes_of V5) req true <? 0)%Z eqn:E.
    { apply okres_ret. intros _. cbn [fst]. lia. }
    destruct (validate_message (codes_of V5) req WTx <? 0)%Z eqn:E2.
    { apply okres_ret. intros _. cbn [fst]. lia. }
    apply okres_bind; intro msg. apply okres_bind; intro txraw.
    destruct (unsign_tx txraw) as [utx|].
    2:{ apply okres_ret. intros _. reflexivity. }
    destruct (deserialize_tx utx).
    2:{ apply okres_ret. intros _. reflexivity. }
    apply with_ladder_sign_ok. reflexivity.
Qed.

Lemma op_sign_v1_ok req : okres rt_ok (op_sign_v1 kind req).
Proof. unfold op_sign_v1. apply with_ladder_sign_ok. reflexivity. Qed.

Lemma op_blockchain_state_ok req : okres rt_ok (op_blockchain_state kind req).
Proof.
  unfold op_blockchain_state. apply with_ladder_ok; [reflexivity|].
  do 9 (apply okres_bind; intro). destruct (st_flags _) as [[f0 f1] f2].
  apply okres_ret. intro H. discriminate H.
Qed.

Lemma op_reset_advance_ok req : okres rt_ok (op_reset_advance kind req).
Proof. unfold op_reset_advance. apply with_ladder_ok; [reflexivity|]. repeat okres_step. Qed.

Lemma op_advance_ok req : okres rt_ok (op_advance keccak kind req).
Proof.
  unfold op_advance. apply with_ladder_ok; [reflexivity|].
  do 4 (apply okres_bind; intro). apply okres_ret. intro H. discriminate H.
Qed.

Lemma op_update_ancestor_ok req : okres rt_ok (op_update_ancestor kind req).
Proof.
  unfold op_update_ancestor. apply with_ladder_ok; [reflexivity|].
  do 3 (apply okres_bind; intro). apply okres_ret. intro H. discriminate H.
Qed.

Lemma op_parameters_ok req : okres rt_ok (op_parameters kind req).
Proof.
  unfold op_parameters. apply with_ladder_ok; [reflexivity|].
  do 3 (apply okres_bind; intro). apply okres_ret. intro H. discriminate H.
Qed.

Lemma hb_reply_ok h : rt_ok (hb_reply (codes_of V5) h).
Proof. destruct h; cbn [hb_reply]; intro H; [discriminate H | reflexivity]. Qed.

Lemma op_signer_heartbeat_ok req : okres rt_ok (op_signer_heartbeat kind req).
Proof.
  unfold op_signer_heartbeat. apply with_ladder_ok; [reflexivity|].
  do 3 (apply okres_bind; intro). apply okres_ret. apply hb_reply_ok.
Qed.

Lemma op_ui_heartbeat_ok req : okres rt_ok (op_ui_heartbeat kind req).
Proof.
  unfold op_ui_heartbeat. apply with_ladder_ok; [reflexivity|].
  apply okres_bind; intro. apply okres_bind; intro m0.
  destruct (negb (mem_N m0 [MODE_SIGNER; MODE_UI_HEARTBEAT])).
  { apply okres_ret. intros _. reflexivity. }
  apply okres_bind; intro go1. destruct (negb go1).
  { apply okres_ret. intros _. reflexivity. }
  apply okres_bind; intro ud. apply okres_bind; intro h. apply okres_bind; intro go2.
  destruct (negb go2).
  { apply okres_ret. intros _. reflexivity. }
  apply okres_ret. apply hb_reply_ok.
Qed.

Lemma run_operation_ok m opname req op :
  run_operation keccak kind m opname req = Some op -> okres rt_ok op.
Proof.
  unfold run_operation.
  destruct (str_eqb opname (s "_version")).
  { intro H; inversion H. apply okres_ret. intro Hn. discriminate Hn. }
  destruct (str_eqb opname (s "_get_pubkey")).
  { intro H; inversion H. apply op_get_pubkey_ok. }
  destruct (str_eqb opname (s "_sign")).
  { intro H; inversion H. destruct m; [apply op_sign_v5_ok | apply op_sign_v1_ok]. }
  destruct m; [|discriminate].
  destruct (str_eqb opname (s "_advance_blockchain")).
  { intro H; inversion H. apply op_advance_ok. }
  destruct (str_eqb opname (s "_reset_advance_blockchain")).
  { intro H; inversion H. apply op_reset_advance_ok. }
  destruct (str_eqb opname (s "_blockchain_state")).
  { intro H; inversion H. apply op_blockchain_state_ok. }
  destruct (str_eqb opname (s "_update_ancestor_block")).
  { intro H; inversion H. apply op_update_ancestor_ok. }
  destruct (str_eqb opname (s "_get_blockchain_parameters")).
  { intro H; inversion H. apply op_parameters_ok. }
  destruct (str_eqb opname (s "_signer_heartbeat")).
  { intro H; inversion H. apply op_signer_heartbeat_ok. }
  destruct (str_eqb opname (s "_ui_heartbeat")).
  { intro H; inversion H. apply op_ui_heartbeat_ok. }
  discriminate.
Qed.

(* handle_request raises exactly when the accepted command's operation raises, and the same
   exception *)
Theorem handle_request_raises_only_from_operation m request w e w' :
  handle_request keccak kind m request w = (Exn e, w') ->
  exists cmd req opname op, gate_request m request = GAccept cmd req /\
    assoc_str cmd (dispatch_table m) = Some opname /\
    run_operation keccak kind m opname req = Some op /\ op w = (Exn e, w').
Proof.
  intro H. destruct (handle_request_exn keccak kind m request w e w' H)
    as [cmd [req [opname [op [Hg [Hd [Ho Hc]]]]]]].
  exists cmd, req, opname, op. repeat split; auto.
  destruct Hc as [Hc | [code [Hc [Hpos _]]]]; [exact Hc|].
  exfalso. pose proof (run_operation_ok m opname req op Ho w (code, None) w' Hc eq_refl) as Hneg.
  cbn [fst] in Hneg. lia.
Qed.

(* the server stops only if an operation on an accepted request raised *)
Corollary stop_only_from_operation mode po w :
  stop_of keccak kind mode po w = true ->
  exists j cmd req opname op e w', po = Parsed j /\ gate_request mode j = GAccept cmd req /\
    assoc_str cmd (dispatch_table mode) = Some opname /\
    run_operation keccak kind mode opname req = Some op /\ op w = (Exn e, w') /\
    e <> Py NotImplementedErr.
Proof.
  intro H. apply server_handle_stop_iff in H.
  destruct H as [[_ Hc] | [j [e [w' [-> [Hh He]]]]]].
  - rewrite parser_raised_is_format_error in Hc. discriminate.
  - destruct (handle_request_raises_only_from_operation mode j w e w' Hh)
      as [cmd [req [opname [op [Hg [Hd [Ho Hop]]]]]]].
    exists j, cmd, req, opname, op, e, w'. repeat split; auto.
Qed.

End NoIndexError.

(* ======================================================================================= *)
(* What validation buys the operations: the request-field readers they use cannot raise    *)
(* ======================================================================================= *)
Lemma bind_ok_l {A B} (m : M A) (f : A -> M B) a :
  (forall w, m w = (Ok a, w)) -> forall w, bind m f w = f a w.
Proof. intros H w. unfold bind. rewrite H. reflexivity. Qed.

Lemma bind_ext {A B} (m : M A) (f g : A -> M B) :
  (forall a w, f a w = g a w) -> forall w, bind m f w = bind m g w.
Proof. intros H w. unfold bind. destruct (m w) as [[a|e] w']; [apply H | reflexivity]. Qed.

Lemma try_catch_ext {A} (m m' : M A) h :
  (forall w, m w = m' w) -> forall w, try_catch m h w = try_catch m' h w.
Proof. intros H w. unfold try_catch. rewrite H. reflexivity. Qed.

Lemma key_path_ok c req :
  c_invalid_keyid c <> 0%Z -> validate_key_id c req = 0%Z ->
  exists x p, jget (s "keyId") req = Some (JStr x) /\ bip32_path x = Some p /\
              forall w, key_path req w = (Ok p, w).
Proof.
  intros Hc Hv. apply (validate_key_id_ok_iff c req Hc) in Hv. destruct Hv as [x [p [Hj Hp]]].
  exists x, p. split; [exact Hj|]. split; [exact Hp|]. intro w. unfold key_path. rewrite Hj, Hp.
  reflexivity.
Qed.

Lemma hex_field_ok o k P :
  hex_member o k P -> exists b, P b /\ forall w, hex_field o k w = (Ok b, w).
Proof.
  intros [x [b [Hj [Hf Hp]]]]. exists b. split; [exact Hp|]. intro w.
  unfold hex_field, bind, jstr_field. rewrite Hj. cbn [ret]. rewrite Hf. reflexivity.
Qed.

Lemma all_some_hex l :
  Forall nonempty_hex_json l ->
  exists bs, all_some (map (fun j => match j with JStr x => fromhex x | _ => None end) l) = Some bs.
Proof.
  induction 1 as [|j l [x [b [-> [Hf _]]]] _ [bs IH]]; cbn [map all_some]; [eauto|].
  rewrite Hf, IH. eauto.
Qed.

Lemma str_list_field_ok o k l :
  jget k o = Some (JArr l) -> Forall nonempty_hex_json l ->
  exists bs, forall w, str_list_field o k w = (Ok bs, w).
Proof.
  intros Hj Hf. destruct (all_some_hex l Hf) as [bs Hb]. exists bs. intro w.
  unfold str_list_field. rewrite Hj, Hb. reflexivity.
Qed.

(* a message of the legacy shape has exactly its three members *)
Lemma assoc_some_in {B} k (l : list (str * B)) v : assoc_str k l = Some v -> In k (map fst l).
Proof.
  induction l as [|[k' v'] l IH]; cbn [assoc_str map fst In]; [discriminate|].
  destruct (str_eqb k k') eqn:E; [|auto]. apply str_eqb_eq in E. auto.
Qed.

Lemma assoc_none_notin {B} k (l : list (str * B)) : ~ In k (map fst l) -> assoc_str k l = None.
Proof.
  induction l as [|[k' v'] l IH]; cbn [assoc_str map fst In]; [reflexivity|]. intro H.
  destruct (str_eqb k k') eqn:E; [|apply IH; tauto]. apply str_eqb_eq in E. subst. tauto.
Qed.

Lemma only_these_keys (m : obj) (keys : list str) k :
  NoDup keys -> length m = length keys -> (forall a, In a keys -> jget a m <> None) ->
  ~ In k keys -> jget k m = None.
Proof.
  intros Hnd Hl Hin Hk. apply assoc_none_notin. intro Hm. apply Hk.
  assert (Hincl : incl keys (map fst m)).
  { intros a Ha. specialize (Hin a Ha). unfold jget in Hin.
    destruct (assoc_str a m) eqn:E; [|contradiction]. eapply assoc_some_in. exact E. }
  assert (Hlen : (length (map fst m) <= length keys)%nat) by (rewrite map_length; lia).
  exact (NoDup_length_incl Hnd Hlen Hincl k Hm).
Qed.

Lemma str_neq (a b : str) : str_eqb a b = false -> a <> b.
Proof. intros H E. subst. rewrite str_eqb_refl in H. discriminate. Qed.

Lemma legacy_no_extras m :
  legacy_shape m ->
  jget (s "witnessScript") m = None /\ jget (s "outpointValue") m = None /\
  jget (s "hash") m = None.
Proof.
  intros [Hl [[x [b [Ht _]]] [[z [Hi _]] Hm]]].
  assert (Hnd : NoDup [s "tx"; s "input"; s "sighashComputationMode"]).
  { repeat (constructor; [cbn [In]; intros H;
      repeat (destruct H as [H|H]; [revert H; apply str_neq; reflexivity|]); exact H|]).
    constructor. }
  assert (Hin : forall a, In a [s "tx"; s "input"; s "sighashComputationMode"] -> jget a m <> None).
  { intros a [<-|[<-|[<-|[]]]]; congruence. }
  repeat split; apply (only_these_keys m _ _ Hnd Hl Hin); cbn [In]; intros H;
    repeat (destruct H as [H|H]; [revert H; apply str_neq; reflexivity|]); exact H.
Qed.

Lemma segwit_no_hash m : segwit_shape m -> jget (s "hash") m = None.
Proof.
  intros [Hl [[x [b [Ht _]]] [[z [Hi _]] [Hm [[x' [b' [Hw _]]] [v [Ho _]]]]]]].
  assert (Hnd : NoDup [s "tx"; s "input"; s "sighashComputationMode"; s "witnessScript";
                       s "outpointValue"]).
  { repeat (constructor; [cbn [In]; intros H;
      repeat (destruct H as [H|H]; [revert H; apply str_neq; reflexivity|]); exact H|]).
    constructor. }
  apply (only_these_keys m _ _ Hnd Hl).
  - intros a [<-|[<-|[<-|[<-|[<-|[]]]]]]; congruence.
  - cbn [In]; intros H;
      repeat (destruct H as [H|H]; [revert H; apply str_neq; reflexivity|]); exact H.
Qed.

(* the operation's own re-validation of a hash request is dead: whatever the gate accepted as
   a sign request carrying "hash" is exactly the hash shape *)
Theorem sign_hash_branch_never_rejects c req :
  c_invalid_message c <> 0%Z ->
  validate_message c req WAny = 0%Z -> sign_is_hash req = true ->
  validate_message c req WHash = 0%Z.
Proof.
  intros Hc Hv Hh. apply (validate_message_ok_iff c req WAny Hc) in Hv.
  destruct Hv as [m [Hm Hs]]. apply (validate_message_ok_iff c req WHash Hc).
  exists m. split; [exact Hm|]. left. split; [reflexivity|].
  unfold sign_is_hash in Hh. rewrite Hm in Hh. unfold jhas in Hh.
  destruct Hs as [[_ Hs] | [_ [Hs | Hs]]]; [exact Hs| |].
  - destruct (legacy_no_extras m Hs) as [_ [_ Hn]]. rewrite Hn in Hh. discriminate.
  - rewrite (segwit_no_hash m Hs) in Hh. discriminate.
Qed.

(* and the tx branch's re-validation can only object to a missing "auth" *)
Theorem sign_tx_branch_message_never_rejects c req :
  c_invalid_message c <> 0%Z ->
  validate_message c req WAny = 0%Z -> sign_is_hash req = false ->
  validate_message c req WTx = 0%Z.
Proof.
  intros Hc Hv Hh. apply (validate_message_ok_iff c req WAny Hc) in Hv.
  destruct Hv as [m [Hm Hs]]. apply (validate_message_ok_iff c req WTx Hc).
  exists m. split; [exact Hm|]. right. split; [reflexivity|].
  destruct Hs as [[_ [_ [x [b [Hs _]]]]] | [_ Hs]]; [|exact Hs].
  unfold sign_is_hash in Hh. rewrite Hm in Hh. unfold jhas in Hh. rewrite Hs in Hh. discriminate.
Qed.

(* the device-facing encodings of validated fields exist *)
Lemma input_encodes m : input_ok m ->
  exists z b, jget (s "input") m = Some (JInt z) /\ to_bytes_le 4 z = Some b.
Proof.
  intros [z [Hj Hr]]. specialize (Hr eq_refl). exists z. unfold to_bytes_le.
  replace (z <? 0)%Z with false by lia.
  replace (Z.to_N z <? 256 ^ N.of_nat 4) with true.
  - eexists. split; [exact Hj | reflexivity].
  - symmetry. apply N.ltb_lt. change (256 ^ N.of_nat 4) with 4294967296. lia.
Qed.

Lemma mode_known x : x = s "legacy" \/ x = s "segwit" -> exists nv, sighash_netvalue x = Some nv.
Proof. intros [->| ->]; eexists; reflexivity. Qed.

Section Validated.
Variable keccak : bytes -> bytes.
Variable kind : dongle_kind.

(* getPubKey on an accepted request: only device exchanges remain *)
Theorem op_get_pubkey_validated m req :
  validate_key_id (codes_of m) req = 0%Z ->
  exists x p, jget (s "keyId") req = Some (JStr x) /\ bip32_path x = Some p /\
  forall w, op_get_pubkey kind m req w =
    with_ladder (match m with V5 => LADDER_V5_get_pubkey | V1 => LADDER_V1_get_pubkey end)
      (ensure_connection kind ;;;
       pk <- get_public_key (path_to_binary p) ;;
       ret (0%Z, Some [(s "pubKey", JStr pk)])) w.
Proof.
  intro Hv. assert (Hc : c_invalid_keyid (codes_of m) <> 0%Z) by (destruct m; discriminate).
  destruct (key_path_ok _ req Hc Hv) as [x [p [Hj [Hp Hk]]]]. exists x, p.
  split; [exact Hj|]. split; [exact Hp|]. intro w.
  unfold op_get_pubkey, with_ladder. apply try_catch_ext. apply bind_ext. intros _ w1.
  unfold bind at 1. rewrite Hk. reflexivity.
Qed.

Theorem op_signer_heartbeat_validated req :
  validate_heartbeat (codes_of V5) req SIGNER_HBT_UD_VALUE_SIZE = 0%Z ->
  exists ud, nlen ud = SIGNER_HBT_UD_VALUE_SIZE /\
  forall w, op_signer_heartbeat kind req w =
    with_ladder LADDER_V5_signer_heartbeat
      (ensure_connection kind ;;;
       h <- get_signer_heartbeat ud ;; ret (hb_reply (codes_of V5) h)) w.
Proof.
  intro Hv. apply validate_heartbeat_ok_iff in Hv; [|discriminate].
  destruct (hex_field_ok _ _ _ Hv) as [ud [Hn Hf]]. exists ud. split; [exact Hn|]. intro w.
  unfold op_signer_heartbeat, with_ladder. apply try_catch_ext. apply bind_ext. intros _ w1.
  unfold bind at 1. rewrite Hf. reflexivity.
Qed.

Theorem op_sign_v1_validated req :
  validate_sign_v1 (codes_of V1) req = 0%Z ->
  exists p h hb, jget (s "message") req = Some (JStr h) /\ fromhex h = Some hb /\ nlen hb = 32 /\
  forall w, op_sign_v1 kind req w =
    with_ladder_sign V1 LADDER_V1_sign
      (ensure_connection kind ;;; sign_unauthorized (path_to_binary p) (Some hb)) w.
Proof.
  intro Hv. apply validate_sign_v1_ok_iff in Hv; [|reflexivity|reflexivity].
  destruct Hv as [Hk [h [hb [Hj [Hf Hn]]]]].
  destruct (key_path_ok (codes_of V1) req ltac:(discriminate) Hk) as [x [p [_ [_ Hp]]]].
  exists p, h, hb. repeat split; auto. intro w.
  unfold op_sign_v1, with_ladder_sign. apply try_catch_ext. intro w1.
  unfold bind at 1. unfold bind at 4.
  assert (Hb : forall w2, (ensure_connection kind;;; p0 <- key_path req;;
                           h0 <- jstr_field req (s "message");;
                           sign_unauthorized (path_to_binary p0) (fromhex h0)) w2 =
                          (ensure_connection kind;;;
                           sign_unauthorized (path_to_binary p) (Some hb)) w2).
  { apply bind_ext. intros _ w2. unfold bind at 1. rewrite Hp.
    unfold bind, jstr_field. rewrite Hj. cbn [ret]. rewrite Hf. reflexivity. }
  rewrite Hb. reflexivity.
Qed.

(* sign (v5), transaction branch: every reader used before and inside the device dialogue
   succeeds on a request that passed the gate and the operation's own auth check *)
Theorem op_sign_v5_tx_readers req :
  validate_sign_v5 (codes_of V5) req = 0%Z -> sign_is_hash req = false ->
  validate_auth (codes_of V5) req true = 0%Z ->
  exists p msg txraw auth receipt proof z inb mode nv ws,
    (forall w, key_path req w = (Ok p, w)) /\
    (forall w, jobj_field req (s "message") w = (Ok msg, w)) /\
    (forall w, hex_field msg (s "tx") w = (Ok txraw, w)) /\
    (forall w, jobj_field req (s "auth") w = (Ok auth, w)) /\
    (forall w, hex_field auth (s "receipt") w = (Ok receipt, w)) /\
    (forall w, str_list_field auth (s "receipt_merkle_proof") w = (Ok proof, w)) /\
    jget (s "input") msg = Some (JInt z) /\ to_bytes_le 4 z = Some inb /\
    (forall w, jstr_field msg (s "sighashComputationMode") w = (Ok mode, w)) /\
    sighash_netvalue mode = Some nv /\
    (forall w, match jget (s "witnessScript") msg with
               | Some (JStr x) => of_opt (fromhex x) ValueError
               | _ => ret [] end w = (Ok ws, w)) /\
    validate_message (codes_of V5) req WTx = 0%Z.
Proof.
  intros Hv Hh Ha.
  apply validate_sign_v5_ok_iff in Hv; [|reflexivity|reflexivity|reflexivity].
  destruct Hv as [Hk [_ Hm]].
  pose proof (sign_tx_branch_message_never_rejects (codes_of V5) req ltac:(discriminate) Hm Hh) as Hm'.
  destruct (key_path_ok (codes_of V5) req ltac:(discriminate) Hk) as [x [p [_ [_ Hp]]]].
  apply (validate_message_ok_iff (codes_of V5) req WTx ltac:(discriminate)) in Hm' as Hshape.
  destruct Hshape as [msg [Hmsg [[Hf _] | [_ Hshape]]]]; [discriminate|].
  apply (validate_auth_ok_iff (codes_of V5) req true ltac:(discriminate)) in Ha.
  destruct Ha as [[_ Hf] | [auth [Hauth [Hrec [l [Hl [_ Hfa]]]]]]]; [discriminate|].
  destruct (hex_field_ok _ _ _ Hrec) as [receipt [_ Hreceipt]].
  destruct (str_list_field_ok auth _ l Hl Hfa) as [proof Hproof].
  assert (Hcommon : hex_member msg (s "tx") (fun b => 0 < nlen b) /\ input_ok msg /\
                    exists mode, jget (s "sighashComputationMode") msg = Some (JStr mode) /\
                                 (mode = s "legacy" \/ mode = s "segwit")).
  { destruct Hshape as [[_ [H1 [H2 H3]]] | [_ [H1 [H2 [H3 _]]]]]; repeat split; eauto. }
  destruct Hcommon as [Htx [Hin [mode [Hmode Hmk]]]].
  destruct (hex_field_ok _ _ _ Htx) as [txraw [_ Htxraw]].
  destruct (input_encodes msg Hin) as [z [inb [Hz Hinb]]].
  destruct (mode_known mode Hmk) as [nv Hnv].
  assert (Hws : exists ws, forall w, match jget (s "witnessScript") msg with
                                     | Some (JStr x) => of_opt (fromhex x) ValueError
                                     | _ => ret [] end w = (Ok ws, w)).
  { destruct Hshape as [Hleg | [_ [_ [_ [_ [[x' [b' [Hw [Hfw _]]]] _]]]]]].
    - destruct (legacy_no_extras msg Hleg) as [Hn _]. rewrite Hn. exists []. reflexivity.
    - rewrite Hw, Hfw. exists b'. reflexivity. }
  destruct Hws as [ws Hws].
  exists p, msg, txraw, auth, receipt, proof, z, inb, mode, nv, ws.
  repeat split; auto.
  - intro w. unfold jobj_field. rewrite Hmsg. reflexivity.
  - intro w. unfold jobj_field. rewrite Hauth. reflexivity.
  - intro w. unfold jstr_field. rewrite Hmode. reflexivity.
Qed.

(* advanceBlockchain / updateAncestorBlock: the block and brother lists are always readable *)
Theorem op_advance_readers req :
  validate_advance_blockchain (codes_of V5) req = 0%Z ->
  exists bl bros,
    jget (s "blocks") req = Some (JArr bl) /\ jget (s "brothers") req = Some (JArr bros) /\
    (forall w, exists r, block_list (jget (s "blocks") req) w = (Ok r, w)) /\
    Forall (fun b => forall w, exists r, block_list (Some b) w = (Ok r, w)) bros.
Proof.
  intro Hv. apply validate_advance_blockchain_ok_iff in Hv; [|discriminate|discriminate].
  destruct Hv as [_ [bl [bros [Hb [Hr [_ Hf]]]]]]. exists bl, bros.
  split; [exact Hb|]. split; [exact Hr|]. split.
  - intro w. rewrite Hb. eexists. reflexivity.
  - eapply Forall_impl; [|exact Hf]. intros b [l [-> _]] w. eexists. reflexivity.
Qed.

Theorem op_ui_heartbeat_reader req :
  validate_heartbeat (codes_of V5) req UI_HBT_UD_VALUE_SIZE = 0%Z ->
  exists ud, nlen ud = UI_HBT_UD_VALUE_SIZE /\
             forall w, hex_field req (s "udValue") w = (Ok ud, w).
Proof.
  intro Hv. apply validate_heartbeat_ok_iff in Hv; [|discriminate].
  exact (hex_field_ok _ _ _ Hv).
Qed.

(* sign (v5), hash branch: no second-stage rejection, no reader failure *)
Theorem op_sign_v5_hash_validated req :
  validate_sign_v5 (codes_of V5) req = 0%Z -> sign_is_hash req = true ->
  exists p hb, nlen hb = 32 /\
  forall w, op_sign_v5 kind req w =
    with_ladder_sign V5 LADDER_V5_sign_unauth
      (ensure_connection kind ;;; sign_unauthorized (path_to_binary p) (Some hb)) w.
Proof.
  intros Hv Hh.
  apply validate_sign_v5_ok_iff in Hv; [|reflexivity|reflexivity|reflexivity].
  destruct Hv as [Hk [_ Hm]].
  pose proof (sign_hash_branch_never_rejects (codes_of V5) req ltac:(discriminate) Hm Hh) as Hm'.
  destruct (key_path_ok (codes_of V5) req ltac:(discriminate) Hk) as [x [p [_ [_ Hp]]]].
  apply (validate_message_ok_iff (codes_of V5) req WHash ltac:(discriminate)) in Hm' as Hshape.
  destruct Hshape as [msg [Hmsg [[_ [_ [h [hb [Hj [Hf Hn]]]]]] | [Hf _]]]]; [|discriminate].
  exists p, hb. split; [exact Hn|]. intro w.
  unfold op_sign_v5. fold (sign_is_hash req). rewrite Hh, Hm'.
  change (0 <? 0)%Z with false. cbv iota.
  unfold with_ladder_sign. apply try_catch_ext. intro w1.
  unfold bind at 1. unfold bind at 6.
  assert (Hb : forall w2,
            (ensure_connection kind;;; p0 <- key_path req;;
             msg0 <- jobj_field req (s "message");; h0 <- jstr_field msg0 (s "hash");;
             sign_unauthorized (path_to_binary p0) (fromhex h0)) w2 =
            (ensure_connection kind;;; sign_unauthorized (path_to_binary p) (Some hb)) w2).
  { apply bind_ext. intros _ w2. unfold bind at 1. rewrite Hp.
    unfold bind, jobj_field, jstr_field. rewrite Hmsg. cbn [ret]. rewrite Hj. cbn [ret].
    rewrite Hf. reflexivity. }
  rewrite Hb. reflexivity.
Qed.

End Validated.

(* ======================================================================================= *)
(* Non-vacuity                                                                             *)
(* ======================================================================================= *)
Definition w0 : world := mkWorld [] [] true [] false None [] [].

Example ex_serve_mixed :
  serve (fun b => b) KTcp V5
        [Undecodable; JsonError; ParserRaised; Parsed (JInt 1); Parsed (JObj []);
         Parsed (JObj [(KEY_COMMAND, JStr (s "version"))])] w0
  = ([(JObj [(KEY_ERRORCODE, JInt (-901))], false); (JObj [(KEY_ERRORCODE, JInt (-901))], false);
      (JObj [(KEY_ERRORCODE, JInt (-901))], false); (JObj [(KEY_ERRORCODE, JInt (-901))], false);
      (JObj [(KEY_ERRORCODE, JInt (-902))], false);
      (JObj [(KEY_VERSION, JInt 5); (KEY_ERRORCODE, JInt 0)], false)], w0).
Proof. vm_compute. reflexivity. Qed.

Example ex_never_stops :
  never_stops (fun b => b) KTcp V5
    [Undecodable; Parsed (JObj [(KEY_COMMAND, JStr (s "version"))]); Parsed (JArr [])] w0.
Proof. vm_compute. auto. Qed.

(* a device answering garbage to getPubKey (status 0x6a87 is user-defined -> -103), still a
   reply with errorcode and no stop *)
Example ex_device_error_answered :
  let req := JObj [(KEY_COMMAND, JStr (s "getPubKey")); (KEY_VERSION, JInt 5);
                   (s "keyId", JStr keyid_ok)] in
  fst (server_handle (fun b => b) KTcp V5 (Parsed req)
         (mkWorld [Status 27271] [] true [] false None [] []))
  = (JObj [(KEY_ERRORCODE, JInt (-103))], false).
Proof. vm_compute. reflexivity. Qed.

(* stop does happen: a device that breaks its protocol (non user-defined status -> DongleError ->
   HSM2ProtocolError) makes the manager answer -906 and shut down *)
Example ex_stop_happens :
  let req := JObj [(KEY_COMMAND, JStr (s "getPubKey")); (KEY_VERSION, JInt 5);
                   (s "keyId", JStr keyid_ok)] in
  fst (server_handle (fun b => b) KTcp V5 (Parsed req)
         (mkWorld [Status 1] [] true [] false None [] []))
  = (JObj [(KEY_ERRORCODE, JInt (-906))], true).
Proof. vm_compute. reflexivity. Qed.
