(* Helper lemmas for Proofs/SrcEquivStateM.v: dictionaries built by appending distinct keys, one exchange of
   the hash loop of get_blockchain_state (Model/Dongle.v get_hashes) as a computation of its own, and the
   `for key, hash_cmd in ...` loop of the translated source (a pfold over literal pairs) against get_hashes. *)
From PowHsm Require Import Gen.SrcM Model.Dongle.
From PowHsm Require Import Proofs.ValLemmas Proofs.SrcEquivDongleM.
From PowHsm Require Import Proofs.ValLemmasM Proofs.ValLemmasPinM.
From Coq Require Import Lia.
Import MV.

(* ---------- dictionaries ---------- *)

Lemma vassoc_set_append (k : str) (v : pv) (l : list (str * pv)) :
  vassoc k l = None -> vassoc_set k v l = l ++ [(k, v)].
Proof.
  induction l as [|[k' v'] r IH]; cbn [vassoc vassoc_set app]; [reflexivity|].
  destruct (str_eqb k k'); [discriminate|]. intros Hnone. rewrite IH by exact Hnone. reflexivity.
Qed.

Lemma vassoc_app_none (k : str) (l1 l2 : list (str * pv)) :
  vassoc k l1 = None -> vassoc k (l1 ++ l2) = vassoc k l2.
Proof.
  induction l1 as [|[k' v'] r IH]; cbn [vassoc app]; [reflexivity|].
  destruct (str_eqb k k'); [discriminate|]. exact IH.
Qed.

Lemma str_eqb_neq (a b : str) : a <> b -> str_eqb a b = false.
Proof.
  intros Hne. destruct (str_eqb a b) eqn:E; [|reflexivity].
  exfalso. apply Hne. apply str_eqb_eq. exact E.
Qed.

(* ---------- the items of the loop and the dictionary of hashes ---------- *)

Definition hitem (p : str * N) : pv := VList [VStr (fst p); VInt (Z.of_N (snd p))].

Definition emb (hs : list (str * str)) : list (str * pv) := map (fun p => (fst p, VStr (snd p))) hs.

(* one round of get_hashes: the exchange and the checks on the answer, which is returned whole *)
Definition hash_step (code : N) : M bytes :=
  r <- send_command CMD_GET_STATE [GST_OP_HASH; code] ;;
  op <- idxM r OFF_OPn ;;
  if negb (op =? GST_OP_HASH)%N then raise DongleError else
  c <- idxM r OFF_DATAn ;;
  if negb (c =? code)%N || negb (nlen (slice_from r (OFF_DATAn + 1)) =? HASH_SIZE)%N
  then raise DongleError else ret r.

Lemma get_hashes_cons (key : str) (code : N) (rest : list (str * N)) (w : world) :
  get_hashes ((key, code) :: rest) w =
  bind (hash_step code)
       (fun r => bind (get_hashes rest)
                      (fun more => ret ((key, hex (slice_from r (OFF_DATAn + 1))) :: more))) w.
Proof.
  cbn [get_hashes]. unfold hash_step, bind.
  destruct (send_command CMD_GET_STATE [GST_OP_HASH; code] w) as [[r|e] w1]; [|reflexivity].
  destruct (idxM r OFF_OPn w1) as [[op|e] w2]; [|reflexivity].
  destruct (negb (op =? GST_OP_HASH)%N); [reflexivity|].
  destruct (idxM r OFF_DATAn w2) as [[c|e] w3]; [|reflexivity].
  destruct (negb (c =? code)%N || negb (nlen (slice_from r (OFF_DATAn + 1)) =? HASH_SIZE)%N); reflexivity.
Qed.

Lemma get_hashes_keys (hv : list (str * N)) : forall (w w' : world) (hs : list (str * str)),
  get_hashes hv w = (Ok hs, w') -> map fst hs = map fst hv.
Proof.
  induction hv as [|[key code] rest IH]; intros w w' hs Hrun.
  - cbn in Hrun. inversion Hrun. reflexivity.
  - rewrite get_hashes_cons in Hrun. unfold bind in Hrun.
    destruct (hash_step code w) as [[r|e] w1]; [|discriminate].
    destruct (get_hashes rest w1) as [[more|e] w2] eqn:Hrest; [|discriminate].
    cbn in Hrun. inversion Hrun. cbn [map fst]. f_equal. exact (IH _ _ _ Hrest).
Qed.

(* ---------- the loop ---------- *)

Lemma hashes_pfold (body : pv -> pv -> pm pv) (K : pv -> pm pv) :
  (forall (r0 m : pv) (acc : list (str * pv)) (key : str) (code : N) (w : world), (code < 256)%N ->
     body (VList [r0; m; VDict acc]) (hitem (key, code)) w =
     mres (fun r => VList [VBytes r; m;
                           VDict (vassoc_set key (VStr (hex (slice_from r (OFF_DATAn + 1)))) acc)])
          (hash_step code w)) ->
  (forall (r m d : pv) (w : world), K (VList [r; m; d]) w = K (VList [VNone; VNone; d]) w) ->
  forall hv : list (str * N),
  Forall (fun p => (snd p < 256)%N) hv -> NoDup (map fst hv) ->
  forall (r0 m : pv) (acc : list (str * pv)) (w : world),
  (forall k, In k (map fst hv) -> vassoc k acc = None) ->
  mbind (pfold (map hitem hv) (VList [r0; m; VDict acc]) body) K w =
  match get_hashes hv w with
  | (Ok hs, w') => K (VList [VNone; VNone; VDict (acc ++ emb hs)]) w'
  | (Exn e, w') => (XRaise e, w')
  end.
Proof.
  intros Hstep HK hv. induction hv as [|[key code] rest IH]; intros Hlt Hnd r0 m acc w Hfresh.
  - cbn [map pfold get_hashes]. unfold mbind, mret, ret. cbn [emb map]. rewrite app_nil_r. apply HK.
  - inversion Hlt as [|p l Hcode Hlt']; subst p l. cbn [snd] in Hcode.
    cbn [map fst] in Hnd. inversion Hnd as [|x l Hnotin Hnd']; subst x l.
    cbn [map pfold]. rewrite ValLemmasPinM.mbind_assoc. unfold mbind at 1.
    rewrite (Hstep r0 m acc key code w Hcode). rewrite get_hashes_cons. unfold bind at 1. unfold mres.
    destruct (hash_step code w) as [[r|e] w1]; cbn [fst snd]; [|reflexivity].
    rewrite vassoc_set_append by (apply Hfresh; cbn [map fst]; left; reflexivity).
    rewrite (IH Hlt' Hnd').
    + unfold bind, ret. destruct (get_hashes rest w1) as [[more|e] w2]; [|reflexivity].
      cbn [emb map fst snd]. rewrite <- app_assoc. reflexivity.
    + intros k Hin. rewrite vassoc_app_none by (apply Hfresh; cbn [map fst]; right; exact Hin).
      cbn [vassoc]. rewrite str_eqb_neq; [reflexivity|].
      intros Heq. subst k. exact (Hnotin Hin).
Qed.

(* ---------- the keys of the state dictionary ---------- *)

Lemma hash_keys_nodup : NoDup (map fst GST_HASH_VALUES).
Proof.
  cbn [map fst GST_HASH_VALUES].
  repeat (constructor; [intros Hin; vm_compute in Hin; intuition discriminate|]).
  constructor.
Qed.

(* a list of hashes under the seven keys, in order *)
Lemma hash_keys_inv (hs : list (str * str)) :
  map fst hs = map fst GST_HASH_VALUES ->
  exists h1 h2 h3 h4 h5 h6 h7 : str,
    hs = [(s "best_block", h1); (s "newest_valid_block", h2); (s "ancestor_block", h3);
          (s "ancestor_receipts_root", h4); (s "updating.best_block", h5);
          (s "updating.newest_valid_block", h6); (s "updating.next_expected_block", h7)].
Proof.
  intros Hkeys.
  destruct hs as [|[k1 h1] [|[k2 h2] [|[k3 h3] [|[k4 h4] [|[k5 h5] [|[k6 h6] [|[k7 h7] [|p8 tl]]]]]]]];
    try discriminate Hkeys.
  cbn [map fst GST_HASH_VALUES] in Hkeys. injection Hkeys as E1 E2 E3 E4 E5 E6 E7. subst.
  exists h1, h2, h3, h4, h5, h6, h7. reflexivity.
Qed.

(* difficulty and flags are appended after the seven hashes *)
Lemma state_dict_append (hs : list (str * str)) (v1 v2 v3 v4 : pv) :
  map fst hs = map fst GST_HASH_VALUES ->
  vassoc_set (s "updating.found_best_block") v4
    (vassoc_set (s "updating.already_validated") v3
       (vassoc_set (s "updating.in_progress") v2
          (vassoc_set (s "updating.total_difficulty") v1 (emb hs)))) =
  emb hs ++ [(s "updating.total_difficulty", v1); (s "updating.in_progress", v2);
             (s "updating.already_validated", v3); (s "updating.found_best_block", v4)].
Proof.
  intros Hkeys. destruct (hash_keys_inv hs Hkeys) as (h1 & h2 & h3 & h4 & h5 & h6 & h7 & Hhs). subst hs.
  vm_compute. reflexivity.
Qed.

(* a state the model returns has exactly the seven hash keys, in order *)
Lemma get_blockchain_state_keys (w w' : world) (st : bc_state) :
  get_blockchain_state w = (Ok st, w') -> map fst (st_hashes st) = map fst GST_HASH_VALUES.
Proof.
  unfold get_blockchain_state, bind. intros Hrun.
  destruct (get_hashes GST_HASH_VALUES w) as [[hs|e] w1] eqn:Hhs; [|discriminate Hrun].
  destruct (send_command CMD_GET_STATE [GST_OP_DIFF] w1) as [[r|e] w2]; [|discriminate Hrun].
  destruct (idxM r OFF_OPn w2) as [[op|e] w3]; [|discriminate Hrun].
  destruct (negb (op =? GST_OP_DIFF)%N); [discriminate Hrun|].
  cbv zeta in Hrun.
  destruct (send_command CMD_GET_STATE [GST_OP_FLAGS] w3) as [[r2|e] w4]; [|discriminate Hrun].
  destruct (idxM r2 OFF_OPn w4) as [[op2|e] w5]; [|discriminate Hrun].
  destruct (negb (op2 =? GST_OP_FLAGS)%N || negb (nlen (slice_from r2 OFF_DATAn) =? 3)%N);
    [discriminate Hrun|].
  destruct (idxM r2 (OFF_DATAn + N.to_nat GST_FLAG_IN_PROGRESS) w5) as [[f0|e] w6]; [|discriminate Hrun].
  destruct (idxM r2 (OFF_DATAn + N.to_nat GST_FLAG_ALREADY_VALIDATED) w6) as [[f1|e] w7]; [|discriminate Hrun].
  destruct (idxM r2 (OFF_DATAn + N.to_nat GST_FLAG_FOUND_BEST_BLOCK) w7) as [[f2|e] w8]; [|discriminate Hrun].
  unfold ret in Hrun. inversion Hrun. cbn [st_hashes].
  exact (get_hashes_keys _ _ _ _ Hhs).
Qed.

(* running a pure value *)
Lemma mbind_lift_POk {A B} (a : A) (f : A -> pm B) (w : world) : mbind (lift (Val.POk a)) f w = f a w.
Proof. reflexivity. Qed.

(* ---------- the model's bind ---------- *)

Lemma bind_run {A B} (m : M A) (k : A -> M B) (w : world) :
  bind m k w = match m w with (Ok a, w') => k a w' | (Exn e, w') => (Exn e, w') end.
Proof. reflexivity. Qed.

Lemma bind_assoc_w {A B C} (m : M A) (f : A -> M B) (g : B -> M C) (w : world) :
  bind (bind m f) g w = bind m (fun a => bind (f a) g) w.
Proof. unfold bind. destruct (m w) as [[a|e] w1]; reflexivity. Qed.
