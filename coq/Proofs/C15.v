(* C15: attestations gathered from a genuine device verify end to end.
   1. paging loses nothing (ui_att_pages, patt_pages, get_ui_attestation, get_powhsm_attestation)
   2. envelope round trip (parse_envelope on mk_envelope), and its failure directions
   3. the PEM chain is split into its certificates (split_certs)
   4. SGX: gather, (save, load,) validate, verify -- for all crypto oracles
   5. Ledger: key responses, gather, (save, load,) validate, verify -- for all link oracles
   6. every gathered component feeds a link check on the quote's path (contrapositives)
   7. from the device's answers to the certificate in one piece; a closed run with toy oracles *)
From PowHsm Require Import Model.Dongle Model.Gather Model.Verify Proofs.BytesLemmas.
From PowHsm Require Import Proofs.CertProofs Proofs.C07 Proofs.C08.
From Coq Require Import ZifyBool ZifyNat ZifyN Lia.
Ltac Zify.zify_post_hook ::= Z.to_euclidean_division_equations.
Open Scope N_scope.

Ltac wsimpl :=
  unfold push, set_script, set_trace, set_comm_issue, set_pin, set_opened, set_connects,
         set_rand_pins, set_fs_ok;
  cbn [script classify trace connects opened comm_issue pin rand_pins fs_ok fst snd].

Lemma firstn_plus {A} (n m : nat) (l : list A) :
  firstn (n + m) l = firstn n l ++ firstn m (skipn n l).
Proof.
  revert l; induction n as [|n IH]; intro l; [reflexivity|].
  destruct l as [|x l]; cbn [Nat.add firstn skipn app].
  - destruct m; reflexivity.
  - f_equal. apply IH.
Qed.

Lemma skipn_add {A} (a b : nat) (l : list A) : skipn a (skipn b l) = skipn (b + a) l.
Proof.
  revert l. induction b as [|b IH]; intro l; [reflexivity|].
  destruct l as [|x l]; [rewrite !skipn_nil; reflexivity|]. cbn [skipn Nat.add]. apply IH.
Qed.

(* ====================================================================== *)
(* 1. Paging loses nothing                                                 *)
(* ====================================================================== *)

Section Paging.
Variables (cmd op : N) (p : nat) (msg : bytes) (n : nat).

(* page k of msg, pages of p bytes *)
Definition chunk (k : nat) : bytes := firstn p (skipn (k * p) msg).
Definition more (k : nat) : N := if Nat.eqb (S k) n then 0 else 1.
(* the honest answer to the request for page k (n pages in all) *)
Definition page_answer (k : nat) : resp := Data (CLA :: cmd :: op :: more k :: chunk k).
Definition page_request (k : nat) : bytes := [CLA; cmd; op; N.of_nat k].
Definition page_event (k : nat) : event := Apdu (page_request k) (page_answer k).
Definition page_answers : list resp := map page_answer (seq 0 n).

Lemma chunks_concat d : forall j,
  concat (map chunk (seq j d)) = firstn (d * p) (skipn (j * p) msg).
Proof.
  induction d as [|d IH]; intro j; [reflexivity|].
  cbn [seq map concat]. rewrite IH. unfold chunk.
  change (S d * p)%nat with (p + d * p)%nat.
  rewrite firstn_plus. f_equal. rewrite skipn_add.
  change (S j * p)%nat with (p + j * p)%nat. f_equal. f_equal. lia.
Qed.

Lemma chunks_all : (length msg <= n * p)%nat -> concat (map chunk (seq 0 n)) = msg.
Proof. intro H. rewrite chunks_concat. cbn [Nat.mul skipn]. apply firstn_all2. exact H. Qed.

End Paging.

(* ---------- ui_att_pages ---------- *)

Lemma ui_pages_gen (p : nat) (msg : bytes) (n : nat) : forall d j fuel acc sc cn opn tr ci pn rp fs,
  (j + d = n)%nat -> (1 <= d)%nat -> (d <= fuel)%nat ->
  ui_att_pages fuel (N.of_nat j) acc
    (mkWorld (map (page_answer CMD_UI_ATT UIATT_OP_OP_GET_MSG p msg n) (seq j d) ++ sc)
             cn opn tr ci pn rp fs)
  = (Ok (acc ++ concat (map (chunk p msg) (seq j d))),
     mkWorld sc cn opn
             (rev (map (page_event CMD_UI_ATT UIATT_OP_OP_GET_MSG p msg n) (seq j d)) ++ tr)
             ci pn rp fs).
Proof.
  induction d as [|d IH]; intros j fuel acc sc cn opn tr ci pn rp fs Hn Hd Hf; [lia|].
  destruct fuel as [|fuel]; [lia|].
  cbn [ui_att_pages seq map app concat].
  unfold bind at 1. unfold send_command. wsimpl.
  unfold page_answer at 1. cbn [classify].
  unfold bind at 1. unfold idxM, OFF_DATAn. change (N.to_nat OFF_DATA) with 3%nat.
  cbn [idx nth_error of_opt ret]. unfold slice_from. cbn [Nat.add skipn].
  unfold more. destruct (Nat.eqb (S j) n) eqn:E.
  - apply Nat.eqb_eq in E. assert (d = 0)%nat by lia. subst d.
    cbn [N.eqb seq map concat rev app]. rewrite app_nil_r.
    unfold ret, page_event, page_request, page_answer, more.
    rewrite (proj2 (Nat.eqb_eq _ _) E). reflexivity.
  - apply Nat.eqb_neq in E. cbn [N.eqb].
    replace (N.of_nat j + 1) with (N.of_nat (S j)) by lia.
    rewrite IH by lia. rewrite <- app_assoc. f_equal.
    cbn [rev]. rewrite <- app_assoc. cbn [app].
    unfold page_event at 3, page_request, page_answer, more.
    rewrite (proj2 (Nat.eqb_neq _ _) E). reflexivity.
Qed.

(* a device holding msg, serving it in n pages of p bytes (1 <= n <= 4): the client gets msg,
   having asked for pages 0 .. n-1 in order and nothing else *)
Theorem ui_att_pages_honest (p : nat) (msg : bytes) (n : nat) sc cn opn tr ci pn rp fs :
  (1 <= n <= N.to_nat MAX_PAGES_UI_ATT_MESSAGE)%nat -> (length msg <= n * p)%nat ->
  ui_att_pages (N.to_nat MAX_PAGES_UI_ATT_MESSAGE) 0 []
    (mkWorld (page_answers CMD_UI_ATT UIATT_OP_OP_GET_MSG p msg n ++ sc) cn opn tr ci pn rp fs)
  = (Ok msg,
     mkWorld sc cn opn
             (rev (map (page_event CMD_UI_ATT UIATT_OP_OP_GET_MSG p msg n) (seq 0 n)) ++ tr)
             ci pn rp fs).
Proof.
  intros Hn Hl. unfold page_answers.
  rewrite (ui_pages_gen p msg n n 0 _ [] sc cn opn tr ci pn rp fs) by lia.
  cbn [app]. rewrite chunks_all by exact Hl. reflexivity.
Qed.

(* ---------- patt_pages ---------- *)

Lemma not_legacy_page (b : bool) cmd op m (c : bytes) :
  m = 0 \/ m = 1 ->
  b && bytes_eqb (slice (CLA :: cmd :: op :: m :: c) OFF_DATAn (OFF_DATAn + length PATT_LEGACY_HEADER))
                 PATT_LEGACY_HEADER = false.
Proof.
  intro Hm. destruct b; [|reflexivity]. cbn [andb].
  unfold OFF_DATAn. change (N.to_nat OFF_DATA) with 3%nat.
  change (length PATT_LEGACY_HEADER) with 11%nat. unfold slice.
  cbn [Nat.add Nat.sub skipn firstn]. unfold PATT_LEGACY_HEADER, bytes_eqb. cbn [list_eqb].
  destruct Hm as [-> | ->]; reflexivity.
Qed.

Lemma patt_pages_gen (op : N) (ism : bool) (p : nat) (msg : bytes) (n : nat) :
  forall d j fuel acc sc cn opn tr ci pn rp fs,
  (j + d = n)%nat -> (1 <= d)%nat -> (d <= fuel)%nat ->
  patt_pages fuel op ism (N.of_nat j) acc
    (mkWorld (map (page_answer PATT_COMMAND op p msg n) (seq j d) ++ sc) cn opn tr ci pn rp fs)
  = (Ok (acc ++ concat (map (chunk p msg) (seq j d)), false),
     mkWorld sc cn opn (rev (map (page_event PATT_COMMAND op p msg n) (seq j d)) ++ tr)
             ci pn rp fs).
Proof.
  induction d as [|d IH]; intros j fuel acc sc cn opn tr ci pn rp fs Hn Hd Hf; [lia|].
  destruct fuel as [|fuel]; [lia|].
  cbn [patt_pages seq map app concat].
  unfold bind at 1. unfold send_command. wsimpl.
  unfold page_answer at 1. cbn [classify].
  unfold bind at 1. unfold idxM. unfold OFF_DATAn at 1. change (N.to_nat OFF_DATA) with 3%nat.
  cbn [idx nth_error of_opt ret]. cbv zeta.
  rewrite not_legacy_page by (unfold more; destruct (Nat.eqb (S j) n); auto).
  unfold OFF_DATAn. change (N.to_nat OFF_DATA) with 3%nat.
  unfold slice_from. cbn [Nat.add skipn].
  unfold more. destruct (Nat.eqb (S j) n) eqn:E.
  - apply Nat.eqb_eq in E. assert (d = 0)%nat by lia. subst d.
    cbn [N.eqb seq map concat rev app]. rewrite app_nil_r.
    unfold ret, page_event, page_request, page_answer, more.
    rewrite (proj2 (Nat.eqb_eq _ _) E). reflexivity.
  - apply Nat.eqb_neq in E. cbn [N.eqb Pos.eqb].
    replace (N.of_nat j + 1) with (N.of_nat (S j)) by lia.
    rewrite IH by lia. rewrite <- app_assoc. f_equal.
    cbn [rev]. rewrite <- app_assoc. cbn [app].
    unfold page_event at 3, page_request, page_answer, more.
    rewrite (proj2 (Nat.eqb_neq _ _) E). reflexivity.
Qed.

(* current framing: n >= 1 pages, any page size, message or envelope *)
Theorem patt_pages_honest (op : N) (ism : bool) (p : nat) (msg : bytes) (n fuel : nat)
        sc cn opn tr ci pn rp fs :
  (1 <= n <= fuel)%nat -> (length msg <= n * p)%nat ->
  patt_pages fuel op ism 0 []
    (mkWorld (page_answers PATT_COMMAND op p msg n ++ sc) cn opn tr ci pn rp fs)
  = (Ok (msg, false),
     mkWorld sc cn opn (rev (map (page_event PATT_COMMAND op p msg n) (seq 0 n)) ++ tr)
             ci pn rp fs).
Proof.
  intros Hn Hl. unfold page_answers.
  rewrite (patt_pages_gen op ism p msg n n 0 _ [] sc cn opn tr ci pn rp fs) by lia.
  cbn [app]. rewrite chunks_all by exact Hl. reflexivity.
Qed.

(* legacy framing: the single answer to the first message request carries the whole message,
   which starts with PATT_LEGACY_HEADER; it is returned whole, flagged legacy *)
Theorem patt_pages_legacy (rest : bytes) (fuel : nat) sc cn opn tr ci pn rp fs :
  let whole := PATT_LEGACY_HEADER ++ rest in
  let ans := Data (CLA :: PATT_COMMAND :: PATT_OP_OP_GET_MESSAGE :: whole) in
  patt_pages (S fuel) PATT_OP_OP_GET_MESSAGE true 0 []
    (mkWorld (ans :: sc) cn opn tr ci pn rp fs)
  = (Ok (whole, true),
     mkWorld sc cn opn (Apdu [CLA; PATT_COMMAND; PATT_OP_OP_GET_MESSAGE; 0] ans :: tr) ci pn rp fs).
Proof.
  cbv zeta. cbn [patt_pages]. unfold bind at 1. unfold send_command. wsimpl.
  unfold bind at 1. unfold idxM, OFF_DATAn. change (N.to_nat OFF_DATA) with 3%nat.
  unfold PATT_LEGACY_HEADER at 1 2. cbn [app idx nth_error of_opt ret].
  change (length PATT_LEGACY_HEADER) with 11%nat. unfold slice, slice_from.
  cbn [Nat.add Nat.sub skipn firstn]. reflexivity.
Qed.

(* ---------- the two attestation commands against a genuine device ---------- *)

(* UI attestation: the device holds app hash [hash], signed message [msg] (served in n <= 4
   pages of p bytes) and signature [sg]; [ud_ans] is whatever it answers to the UD value *)
Theorem get_ui_attestation_honest (ud hash msg sg ud_ans : bytes) (p n : nat)
        sc cn opn tr ci pn rp fs :
  (1 <= n <= N.to_nat MAX_PAGES_UI_ATT_MESSAGE)%nat -> (length msg <= n * p)%nat ->
  let a_hash := Data (CLA :: CMD_UI_ATT :: UIATT_OP_OP_APP_HASH :: hash) in
  let a_sig := Data (CLA :: CMD_UI_ATT :: UIATT_OP_OP_GET :: sg) in
  get_ui_attestation ud
    (mkWorld (a_hash :: Data ud_ans
              :: page_answers CMD_UI_ATT UIATT_OP_OP_GET_MSG p msg n ++ a_sig :: sc)
             cn opn tr ci pn rp fs)
  = (Ok (mkAtt (hex hash) (hex msg) [] (hex sg)),
     mkWorld sc cn opn
       (Apdu [CLA; CMD_UI_ATT; UIATT_OP_OP_GET] a_sig
        :: rev (map (page_event CMD_UI_ATT UIATT_OP_OP_GET_MSG p msg n) (seq 0 n))
        ++ Apdu (CLA :: CMD_UI_ATT :: UIATT_OP_OP_UD_VALUE :: ud) (Data ud_ans)
        :: Apdu [CLA; CMD_UI_ATT; UIATT_OP_OP_APP_HASH] a_hash :: tr)
       ci pn rp fs).
Proof.
  intros Hn Hl. cbv zeta. unfold get_ui_attestation.
  unfold bind at 1. unfold send_command at 1. wsimpl.
  unfold bind at 1. unfold send_command at 1. wsimpl.
  unfold bind at 1. rewrite ui_att_pages_honest by assumption.
  unfold bind at 1. unfold send_command at 1. wsimpl.
  unfold OFF_DATAn. change (N.to_nat OFF_DATA) with 3%nat. unfold slice_from. cbn [skipn].
  reflexivity.
Qed.

(* powHSM attestation, current framing: message in n pages of p bytes, envelope in n' pages
   of p' bytes *)
Theorem get_powhsm_attestation_honest (ud hash msg env sg : bytes) (p n p' n' : nat)
        sc cn opn tr ci pn rp fs :
  (1 <= n)%nat -> (length msg <= n * p)%nat -> (1 <= n')%nat -> (length env <= n' * p')%nat ->
  let a_sig := Data (CLA :: PATT_COMMAND :: PATT_OP_OP_GET :: sg) in
  let a_hash := Data (CLA :: PATT_COMMAND :: PATT_OP_OP_APP_HASH :: hash) in
  get_powhsm_attestation ud
    (mkWorld (a_sig :: page_answers PATT_COMMAND PATT_OP_OP_GET_MESSAGE p msg n
                    ++ page_answers PATT_COMMAND PATT_OP_OP_GET_ENVELOPE p' env n'
                    ++ a_hash :: sc)
             cn opn tr ci pn rp fs)
  = (Ok (mkAtt (hex hash) (hex msg) (hex env) (hex sg)),
     mkWorld sc cn opn
       (Apdu [CLA; PATT_COMMAND; PATT_OP_OP_APP_HASH] a_hash
        :: rev (map (page_event PATT_COMMAND PATT_OP_OP_GET_ENVELOPE p' env n') (seq 0 n'))
        ++ rev (map (page_event PATT_COMMAND PATT_OP_OP_GET_MESSAGE p msg n) (seq 0 n))
        ++ Apdu (CLA :: PATT_COMMAND :: PATT_OP_OP_GET :: ud) a_sig :: tr)
       ci pn rp fs).
Proof.
  intros Hn Hl Hn' Hl'. cbv zeta. unfold get_powhsm_attestation. cbn [script].
  set (fuel := S (length _)).
  assert (Hf : (n <= fuel /\ n' <= fuel)%nat).
  { unfold fuel. cbn [length]. rewrite !app_length. unfold page_answers.
    rewrite !map_length, !seq_length. lia. }
  clearbody fuel.
  unfold bind at 1. unfold send_command at 1. wsimpl.
  unfold bind at 1. rewrite patt_pages_honest by lia.
  unfold bind at 1. unfold bind at 1. rewrite patt_pages_honest by lia.
  cbn [ret fst].
  unfold bind at 1. unfold send_command at 1. wsimpl.
  unfold OFF_DATAn. change (N.to_nat OFF_DATA) with 3%nat. unfold slice_from. cbn [skipn].
  unfold ret. reflexivity.
Qed.

(* the device serves the same bytes as message and envelope: envelope = message *)
Corollary get_powhsm_attestation_same (ud hash msg sg : bytes) (p n : nat)
          sc cn opn tr ci pn rp fs :
  (1 <= n)%nat -> (length msg <= n * p)%nat ->
  exists tr',
  get_powhsm_attestation ud
    (mkWorld (Data (CLA :: PATT_COMMAND :: PATT_OP_OP_GET :: sg)
              :: page_answers PATT_COMMAND PATT_OP_OP_GET_MESSAGE p msg n
              ++ page_answers PATT_COMMAND PATT_OP_OP_GET_ENVELOPE p msg n
              ++ Data (CLA :: PATT_COMMAND :: PATT_OP_OP_APP_HASH :: hash) :: sc)
             cn opn tr ci pn rp fs)
  = (Ok (mkAtt (hex hash) (hex msg) (hex msg) (hex sg)), mkWorld sc cn opn tr' ci pn rp fs).
Proof.
  intros Hn Hl. eexists. apply get_powhsm_attestation_honest; assumption.
Qed.

(* powHSM attestation, legacy framing: one answer carries the whole message; no envelope is
   requested and the envelope reported is the message itself *)
Theorem get_powhsm_attestation_legacy (ud hash rest sg : bytes) sc cn opn tr ci pn rp fs :
  let whole := PATT_LEGACY_HEADER ++ rest in
  let a_sig := Data (CLA :: PATT_COMMAND :: PATT_OP_OP_GET :: sg) in
  let a_msg := Data (CLA :: PATT_COMMAND :: PATT_OP_OP_GET_MESSAGE :: whole) in
  let a_hash := Data (CLA :: PATT_COMMAND :: PATT_OP_OP_APP_HASH :: hash) in
  get_powhsm_attestation ud (mkWorld (a_sig :: a_msg :: a_hash :: sc) cn opn tr ci pn rp fs)
  = (Ok (mkAtt (hex hash) (hex whole) (hex whole) (hex sg)),
     mkWorld sc cn opn
       (Apdu [CLA; PATT_COMMAND; PATT_OP_OP_APP_HASH] a_hash
        :: Apdu [CLA; PATT_COMMAND; PATT_OP_OP_GET_MESSAGE; 0] a_msg
        :: Apdu (CLA :: PATT_COMMAND :: PATT_OP_OP_GET :: ud) a_sig :: tr)
       ci pn rp fs).
Proof.
  cbv zeta. unfold get_powhsm_attestation. cbn [script length].
  unfold bind at 1. unfold send_command at 1. wsimpl.
  unfold bind at 1. rewrite (patt_pages_legacy rest).
  unfold bind at 1. unfold ret at 1.
  unfold bind at 1. unfold send_command at 1. wsimpl.
  unfold OFF_DATAn. change (N.to_nat OFF_DATA) with 3%nat. unfold slice_from. cbn [skipn].
  reflexivity.
Qed.

(* non-vacuity: a 7-byte UI message in 3 pages of 3 bytes is reassembled *)
Example ui_three_pages :
  let msg := [10; 11; 12; 13; 14; 15; 16] in
  fst (get_ui_attestation [1; 2]
        (world0 (Data (CLA :: CMD_UI_ATT :: UIATT_OP_OP_APP_HASH :: [7; 7])
                 :: Data [CLA; CMD_UI_ATT; UIATT_OP_OP_UD_VALUE]
                 :: page_answers CMD_UI_ATT UIATT_OP_OP_GET_MSG 3 msg 3
                 ++ [Data (CLA :: CMD_UI_ATT :: UIATT_OP_OP_GET :: [9; 9; 9])]) []))
  = Ok (mkAtt (hex [7; 7]) (hex msg) [] (hex [9; 9; 9]))
  /\ page_answers CMD_UI_ATT UIATT_OP_OP_GET_MSG 3 msg 3
     = [Data [128; 80; 2; 1; 10; 11; 12]; Data [128; 80; 2; 1; 13; 14; 15]; Data [128; 80; 2; 0; 16]].
Proof. vm_compute. split; reflexivity. Qed.

(* five pages exceed the bound: the client fails (with the TypeError of its own message) *)
Example ui_five_pages_fail :
  fst (ui_att_pages (N.to_nat MAX_PAGES_UI_ATT_MESSAGE) 0 []
        (world0 (page_answers CMD_UI_ATT UIATT_OP_OP_GET_MSG 1 [1; 2; 3; 4; 5] 5) []))
  = Exn (Py TypeError).
Proof. vm_compute. reflexivity. Qed.


(* ====================================================================== *)
(* 2. Envelope round trip                                                  *)
(* ====================================================================== *)

(* parse_envelope with the offsets computed from the generated layouts *)
Lemma parse_envelope_unfold env custom :
  parse_envelope env custom =
  if nlen env <? 1012 then None else
  let r1 := skipn 1012 env in
  if nlen r1 <? 2 then None else
  let asz := from_bytes_le (firstn 2 r1) in
  let adata := firstn (N.to_nat asz) (skipn 2 r1) in
  if negb (nlen adata =? asz) then None else
  let r2 := skipn (2 + N.to_nat asz) r1 in
  if nlen r2 <? 6 then None else
  let csz := from_bytes_le (firstn 4 (skipn 2 r2)) in
  if nlen (skipn 6 r2) <? csz then None else
  let cdata := firstn (N.to_nat csz) (skipn 6 r2) in
  if negb (nlen cdata =? csz) then None else
  let tail := skipn (6 + N.to_nat csz) r2 in
  if negb (bytes_eqb tail custom) then None else
  Some (mkEnv (firstn 432 env) (firstn 64 (skipn 436 env)) (firstn 64 (skipn 500 env))
              (firstn 384 (skipn 564 env)) (firstn 64 (skipn 948 env))
              adata (split_certs cdata) custom).
Proof. reflexivity. Qed.

Lemma bytes_eqb_iff (a b : bytes) : bytes_eqb a b = true <-> a = b.
Proof.
  unfold bytes_eqb. revert b. induction a as [|x a IH]; intros [|y b]; cbn [list_eqb].
  - tauto.
  - split; discriminate.
  - split; discriminate.
  - rewrite Bool.andb_true_iff, IH, N.eqb_eq. split.
    + intros [-> ->]. reflexivity.
    + intro H. inversion H. tauto.
Qed.

Lemma bytes_eqb_refl (a : bytes) : bytes_eqb a a = true.
Proof. apply bytes_eqb_iff. reflexivity. Qed.

(* x sits in env at offset m *)
Lemma piece {A} (pre x post env : list A) m k :
  env = pre ++ x ++ post -> length pre = m -> length x = k -> firstn k (skipn m env) = x.
Proof. intros -> <- <-. rewrite skipn_app_exact. apply firstn_app_exact. Qed.

Lemma after_prefix {A} (pre post env : list A) m :
  env = pre ++ post -> length pre = m -> skipn m env = post.
Proof. intros -> <-. apply skipn_app_exact. Qed.

Lemma n2n_nlen {A} (l : list A) : N.to_nat (nlen l) = length l.
Proof. unfold nlen. lia. Qed.

Lemma from_le2 (v : N) : v < 2 ^ 16 -> from_bytes_le (le_bytes 2 v) = v.
Proof. intro H. rewrite from_bytes_le_le_bytes. apply N.mod_small. exact H. Qed.

Lemma from_le4 (v : N) : v < 2 ^ 32 -> from_bytes_le (le_bytes 4 v) = v.
Proof. intro H. rewrite from_bytes_le_le_bytes. apply N.mod_small. exact H. Qed.

(* sgx_quote_t || quote tail (signature_len) || sgx_quote_auth_data_t || sgx_qe_auth_data_t ||
   sgx_qe_cert_data_t || custom message *)
Definition mk_envelope (quote tail4 sig key qeb qes auth : bytes) (ty : N)
           (certdata custom : bytes) : bytes :=
  quote ++ tail4 ++ sig ++ key ++ qeb ++ qes
  ++ le_bytes 2 (nlen auth) ++ auth
  ++ le_bytes 2 ty ++ le_bytes 4 (nlen certdata) ++ certdata ++ custom.

Record env_shape (quote tail4 sig key qeb qes auth certdata : bytes) : Prop := {
  sh_quote : length quote = 432%nat; sh_tail : length tail4 = 4%nat;
  sh_sig : length sig = 64%nat; sh_key : length key = 64%nat;
  sh_qeb : length qeb = 384%nat; sh_qes : length qes = 64%nat;
  sh_auth : nlen auth < 2 ^ 16; sh_cd : nlen certdata < 2 ^ 32
}.

Lemma envelope_parse_gen quote tail4 sig key qeb qes auth ty certdata custom custom' :
  env_shape quote tail4 sig key qeb qes auth certdata ->
  parse_envelope (mk_envelope quote tail4 sig key qeb qes auth ty certdata custom) custom'
  = if bytes_eqb custom custom'
    then Some (mkEnv quote sig key qeb qes auth (split_certs certdata) custom') else None.
Proof.
  intros [Hq Ht Hs Hk Hb He Ha Hc].
  rewrite parse_envelope_unfold.
  set (env := mk_envelope _ _ _ _ _ _ _ _ _ _).
  set (R2 := le_bytes 2 ty ++ le_bytes 4 (nlen certdata) ++ certdata ++ custom).
  set (R1 := le_bytes 2 (nlen auth) ++ auth ++ R2).
  assert (F1 : firstn 432 env = quote).
  { apply (piece [] quote (tail4 ++ sig ++ key ++ qeb ++ qes ++ R1) env 0 432); auto. }
  assert (F2 : firstn 64 (skipn 436 env) = sig).
  { eapply (piece (quote ++ tail4) sig); [unfold env, mk_envelope; rewrite <- !app_assoc; reflexivity| |exact Hs].
    rewrite !app_length; lia. }
  assert (F3 : firstn 64 (skipn 500 env) = key).
  { eapply (piece (quote ++ tail4 ++ sig) key); [unfold env, mk_envelope; rewrite <- !app_assoc; reflexivity| |exact Hk].
    rewrite !app_length; lia. }
  assert (F4 : firstn 384 (skipn 564 env) = qeb).
  { eapply (piece (quote ++ tail4 ++ sig ++ key) qeb); [unfold env, mk_envelope; rewrite <- !app_assoc; reflexivity| |exact Hb].
    rewrite !app_length; lia. }
  assert (F5 : firstn 64 (skipn 948 env) = qes).
  { eapply (piece (quote ++ tail4 ++ sig ++ key ++ qeb) qes); [unfold env, mk_envelope; rewrite <- !app_assoc; reflexivity| |exact He].
    rewrite !app_length; lia. }
  assert (F6 : skipn 1012 env = R1).
  { apply (after_prefix (quote ++ tail4 ++ sig ++ key ++ qeb ++ qes)).
    - unfold env, mk_envelope. rewrite <- !app_assoc. reflexivity.
    - rewrite !app_length; lia. }
  assert (L0 : (nlen env <? 1012) = false).
  { unfold env, mk_envelope, nlen. rewrite !app_length. lia. }
  rewrite L0, F1, F2, F3, F4, F5, F6. cbv zeta.
  assert (L1 : (nlen R1 <? 2) = false).
  { unfold R1, nlen. rewrite !app_length, le_bytes_length. lia. }
  rewrite L1.
  assert (G1 : firstn 2 R1 = le_bytes 2 (nlen auth)).
  { apply (piece [] _ (auth ++ R2) R1 0 2); auto using le_bytes_length. }
  rewrite G1, from_le2 by exact Ha. rewrite n2n_nlen.
  assert (G2 : skipn 2 R1 = auth ++ R2).
  { apply (after_prefix (le_bytes 2 (nlen auth))); auto using le_bytes_length. }
  rewrite G2, firstn_app_exact, N.eqb_refl. cbn [negb].
  assert (G3 : skipn (2 + length auth) R1 = R2).
  { apply (after_prefix (le_bytes 2 (nlen auth) ++ auth)).
    - unfold R1. rewrite <- app_assoc. reflexivity.
    - rewrite app_length, le_bytes_length. reflexivity. }
  rewrite G3.
  assert (L2 : (nlen R2 <? 6) = false).
  { unfold R2, nlen. rewrite !app_length, !le_bytes_length. lia. }
  rewrite L2.
  assert (G4 : firstn 4 (skipn 2 R2) = le_bytes 4 (nlen certdata)).
  { eapply (piece (le_bytes 2 ty)); [reflexivity| |]; apply le_bytes_length. }
  rewrite G4, from_le4 by exact Hc. rewrite n2n_nlen.
  assert (G5 : skipn 6 R2 = certdata ++ custom).
  { apply (after_prefix (le_bytes 2 ty ++ le_bytes 4 (nlen certdata))).
    - unfold R2. rewrite <- app_assoc. reflexivity.
    - rewrite app_length, !le_bytes_length. reflexivity. }
  rewrite G5.
  assert (L3 : (nlen (certdata ++ custom) <? nlen certdata) = false).
  { unfold nlen. rewrite app_length. lia. }
  rewrite L3, firstn_app_exact, N.eqb_refl. cbn [negb].
  assert (G6 : skipn (6 + length certdata) R2 = custom).
  { apply (after_prefix (le_bytes 2 ty ++ le_bytes 4 (nlen certdata) ++ certdata)).
    - unfold R2. rewrite <- !app_assoc. reflexivity.
    - rewrite !app_length, !le_bytes_length. lia. }
  rewrite G6. destruct (bytes_eqb custom custom'); reflexivity.
Qed.

(* what was put in comes out: every field, and the certificates of the PEM chain *)
Theorem envelope_roundtrip quote tail4 sig key qeb qes auth ty certdata custom :
  env_shape quote tail4 sig key qeb qes auth certdata ->
  parse_envelope (mk_envelope quote tail4 sig key qeb qes auth ty certdata custom) custom
  = Some (mkEnv quote sig key qeb qes auth (split_certs certdata) custom).
Proof. intro H. rewrite envelope_parse_gen by exact H. rewrite bytes_eqb_refl. reflexivity. Qed.

(* the envelope is bound to the custom message: any other message is refused *)
Theorem envelope_other_custom quote tail4 sig key qeb qes auth ty certdata custom custom' :
  env_shape quote tail4 sig key qeb qes auth certdata -> custom' <> custom ->
  parse_envelope (mk_envelope quote tail4 sig key qeb qes auth ty certdata custom) custom' = None.
Proof.
  intros H Hne. rewrite envelope_parse_gen by exact H.
  destruct (bytes_eqb custom custom') eqn:E; [|reflexivity].
  apply bytes_eqb_iff in E. congruence.
Qed.


(* whatever parses has exactly the length its own size fields announce *)
Lemma parse_envelope_length env custom e :
  parse_envelope env custom = Some e ->
  let asz := from_bytes_le (firstn 2 (skipn 1012 env)) in
  let csz := from_bytes_le (firstn 4 (skipn (1016 + N.to_nat asz) env)) in
  length env = (1020 + N.to_nat asz + N.to_nat csz + length custom)%nat.
Proof.
  rewrite parse_envelope_unfold. cbv zeta.
  destruct (nlen env <? 1012) eqn:L0; [discriminate|].
  destruct (nlen (skipn 1012 env) <? 2) eqn:L1; [discriminate|].
  set (asz := from_bytes_le (firstn 2 (skipn 1012 env))).
  destruct (nlen (firstn (N.to_nat asz) (skipn 2 (skipn 1012 env))) =? asz) eqn:L2;
    cbn [negb]; [|discriminate].
  rewrite !skipn_add.
  replace (1012 + (2 + N.to_nat asz))%nat with (1014 + N.to_nat asz)%nat by lia.
  destruct (nlen (skipn (1014 + N.to_nat asz) env) <? 6) eqn:L3; [discriminate|].
  replace (1014 + N.to_nat asz + 2)%nat with (1016 + N.to_nat asz)%nat by lia.
  set (csz := from_bytes_le (firstn 4 (skipn (1016 + N.to_nat asz) env))).
  replace (1014 + N.to_nat asz + 6)%nat with (1020 + N.to_nat asz)%nat by lia.
  destruct (nlen (skipn (1020 + N.to_nat asz) env) <? csz) eqn:L3'; [discriminate|].
  destruct (nlen (firstn (N.to_nat csz) (skipn (1020 + N.to_nat asz) env)) =? csz) eqn:L4;
    cbn [negb]; [|discriminate].
  replace (1014 + N.to_nat asz + (6 + N.to_nat csz))%nat
    with (1020 + N.to_nat asz + N.to_nat csz)%nat by lia.
  destruct (bytes_eqb (skipn (1020 + N.to_nat asz + N.to_nat csz) env) custom) eqn:L5;
    cbn [negb]; [|discriminate].
  intros _. apply bytes_eqb_iff in L5. apply (f_equal (@length N)) in L5.
  rewrite skipn_length in L5.
  unfold nlen in L0, L1, L2, L3, L4. rewrite firstn_length in L2, L4.
  rewrite !skipn_length in L1, L2, L3, L4. clearbody asz csz. lia.
Qed.

Lemma envelope_layout quote tail4 sig key qeb qes auth ty certdata custom :
  env_shape quote tail4 sig key qeb qes auth certdata ->
  let env := mk_envelope quote tail4 sig key qeb qes auth ty certdata custom in
  length env = (1020 + length auth + length certdata + length custom)%nat /\
  firstn 2 (skipn 1012 env) = le_bytes 2 (nlen auth) /\
  firstn 4 (skipn (1016 + length auth) env) = le_bytes 4 (nlen certdata).
Proof.
  intros [Hq Ht Hs Hk Hb He Ha Hc]. cbv zeta. split; [|split].
  - unfold mk_envelope. rewrite !app_length, !le_bytes_length. lia.
  - eapply (piece (quote ++ tail4 ++ sig ++ key ++ qeb ++ qes));
      [unfold mk_envelope; rewrite <- !app_assoc; reflexivity| |apply le_bytes_length].
    rewrite !app_length. lia.
  - eapply (piece (quote ++ tail4 ++ sig ++ key ++ qeb ++ qes ++ le_bytes 2 (nlen auth) ++ auth
                   ++ le_bytes 2 ty));
      [unfold mk_envelope; rewrite <- !app_assoc; reflexivity| |apply le_bytes_length].
    rewrite !app_length, !le_bytes_length. lia.
Qed.

Lemma window_of_prefix {A} (k m w : nat) (l : list A) :
  (m + w <= k)%nat -> firstn w (skipn m (firstn k l)) = firstn w (skipn m l).
Proof.
  intro H. rewrite skipn_firstn_comm, firstn_firstn. f_equal. lia.
Qed.

(* a truncated envelope never parses (against the message it was made for) *)
Theorem envelope_truncated quote tail4 sig key qeb qes auth ty certdata custom k :
  env_shape quote tail4 sig key qeb qes auth certdata ->
  let env := mk_envelope quote tail4 sig key qeb qes auth ty certdata custom in
  (k < length env)%nat -> parse_envelope (firstn k env) custom = None.
Proof.
  intros Hs env Hk.
  destruct (envelope_layout quote tail4 sig key qeb qes auth ty certdata custom Hs)
    as (Hlen & Ha & Hc). fold env in Hlen, Ha, Hc.
  destruct Hs as [_ _ _ _ _ _ Hau Hcd].
  destruct (parse_envelope (firstn k env) custom) as [e|] eqn:E; [exfalso|reflexivity].
  apply parse_envelope_length in E. cbv zeta in E.
  rewrite firstn_length, Nat.min_l in E by lia.
  rewrite (window_of_prefix k 1012 2) in E by lia.
  rewrite Ha, from_le2, n2n_nlen in E by exact Hau.
  rewrite (window_of_prefix k (1016 + length auth) 4) in E by lia.
  rewrite Hc, from_le4, n2n_nlen in E by exact Hcd. lia.
Qed.

(* an extended envelope does not parse either *)
Theorem envelope_extended quote tail4 sig key qeb qes auth ty certdata custom extra :
  env_shape quote tail4 sig key qeb qes auth certdata -> extra <> [] ->
  parse_envelope (mk_envelope quote tail4 sig key qeb qes auth ty certdata custom ++ extra) custom
  = None.
Proof.
  intros Hs Hx.
  replace (mk_envelope quote tail4 sig key qeb qes auth ty certdata custom ++ extra)
    with (mk_envelope quote tail4 sig key qeb qes auth ty certdata (custom ++ extra))
    by (unfold mk_envelope; rewrite <- !app_assoc; reflexivity).
  rewrite envelope_parse_gen by exact Hs.
  destruct (bytes_eqb (custom ++ extra) custom) eqn:E; [|reflexivity].
  apply bytes_eqb_iff in E. apply (f_equal (@length N)) in E. rewrite app_length in E.
  destruct extra; [congruence|cbn [length] in E; lia].
Qed.


(* ====================================================================== *)
(* 3. The PEM chain is split into its certificates                         *)
(* ====================================================================== *)

Definition END_TAIL : bytes := s "-----END CERTIFICATE-----" ++ [10].
Lemma x509_end_eq : X509_END = 10 :: 45 :: tl END_TAIL. Proof. reflexivity. Qed.
Definition START_LIT : bytes := Eval vm_compute in X509_START.
Definition END_LIT : bytes := Eval vm_compute in X509_END.
Lemma start_lit : X509_START = START_LIT. Proof. vm_compute. reflexivity. Qed.
Lemma end_lit : X509_END = END_LIT. Proof. vm_compute. reflexivity. Qed.
Lemma starts_start b : starts X509_START (X509_START ++ b) = true.
Proof. rewrite start_lit. reflexivity. Qed.
Lemma starts_end b : starts X509_END (X509_END ++ b) = true.
Proof. rewrite end_lit. reflexivity. Qed.

Lemma split_match sep b f cur :
  b <> [] -> starts sep b = true ->
  split_bytes (S f) sep b cur = rev cur :: split_bytes f sep (skipn (length sep) b) [].
Proof. destruct b; [congruence|]. intros _ H. cbn [split_bytes]. rewrite H. reflexivity. Qed.

(* no newline is followed by a dash *)
Fixpoint safe (l : bytes) : Prop :=
  match l with
  | x :: (y :: _) as r => (x = 10 -> y <> 45) /\ safe r
  | _ => True
  end.

Lemma starts_end_safe x t : safe (x :: firstn 1 t) -> starts X509_END (x :: t) = false.
Proof.
  rewrite x509_end_eq. cbn [starts]. destruct (10 =? x) eqn:E; [|reflexivity].
  apply N.eqb_eq in E. destruct t as [|y t]; [reflexivity|].
  cbn [firstn safe starts]. intros [H _]. specialize (H (eq_sym E)).
  destruct (45 =? y) eqn:E2; [|reflexivity]. apply N.eqb_eq in E2. congruence.
Qed.

Lemma safe_tail x l : safe (x :: l) -> safe l.
Proof. destruct l as [|y l]; [intros; exact I|]. cbn [safe]. tauto. Qed.

(* scanning over a stretch that holds no "\n-" finds no end marker *)
Lemma scan_safe : forall pre rest cur fuel,
  safe (pre ++ firstn 1 rest) -> (length pre <= fuel)%nat ->
  split_bytes fuel X509_END (pre ++ rest) cur
  = split_bytes (fuel - length pre) X509_END rest (rev pre ++ cur).
Proof.
  induction pre as [|x pre IH]; intros rest cur fuel Hs Hf.
  - cbn [app length rev]. rewrite Nat.sub_0_r. reflexivity.
  - destruct fuel as [|fuel]; [cbn [length] in Hf; lia|].
    cbn [app split_bytes].
    rewrite starts_end_safe.
    + rewrite IH; [|eapply safe_tail; exact Hs|cbn [length] in Hf; lia].
      cbn [length Nat.sub rev]. rewrite <- app_assoc. reflexivity.
    + cbn [app] in Hs. destruct pre as [|y pre].
      * cbn [app] in *. exact Hs.
      * cbn [app firstn safe] in *. tauto.
Qed.

Definition nodash (b : bytes) : Prop := Forall (fun x => x <> 45) b.

Lemma safe_nodash b y : nodash b -> y <> 45 -> safe (b ++ [y]).
Proof.
  induction 1 as [|x b Hx Hb IH]; intro Hy; [exact I|].
  cbn [app]. destruct b as [|z b].
  - cbn [app safe]. auto.
  - cbn [app safe] in *. split; [|apply IH; exact Hy]. intros _. inversion Hb; assumption.
Qed.

Lemma safe_start b : nodash b -> safe (X509_START ++ b ++ [10]).
Proof.
  intro Hb. assert (H10 : 10 <> 45) by discriminate.
  pose proof (safe_nodash b 10 Hb H10) as Hs.
  assert (Hh : match b ++ [10] with y :: _ => y <> 45 | [] => True end).
  { destruct Hb; cbn [app]; [discriminate|assumption]. }
  destruct (b ++ [10]) as [|y t] eqn:E; [destruct b; discriminate E|]. clear E.
  unfold X509_START. cbn [s app N_of_ascii N.add N.mul safe].
  repeat (split; [intro Hx; try discriminate Hx; try exact Hh|]). exact Hs.
Qed.

Definition pem_block (body : bytes) : bytes := X509_START ++ body ++ X509_END.

Lemma bsplit_pems : forall bodies fuel,
  Forall nodash bodies -> (length (concat (map pem_block bodies)) < fuel)%nat ->
  split_bytes fuel X509_END (concat (map pem_block bodies)) []
  = map (fun b => X509_START ++ b) bodies ++ [[]].
Proof.
  induction bodies as [|b bodies IH]; intros fuel Hb Hf.
  - destruct fuel; [cbn in Hf; lia|]. reflexivity.
  - inversion Hb as [|? ? Hb1 Hb2]; subst.
    cbn [map concat] in *. unfold pem_block at 1. unfold pem_block at 1 in Hf.
    set (R := concat (map pem_block bodies)) in *.
    rewrite app_length in Hf. rewrite !app_length in Hf.
    replace ((X509_START ++ b ++ X509_END) ++ R) with ((X509_START ++ b) ++ X509_END ++ R)
      by (rewrite <- !app_assoc; reflexivity).
    rewrite scan_safe.
    + rewrite app_length.
      destruct (fuel - (length X509_START + length b))%nat as [|f] eqn:Ef; [lia|].
      rewrite split_match; [|discriminate|apply starts_end].
      rewrite app_nil_r, rev_involutive, skipn_app_exact.
      rewrite IH; [reflexivity|exact Hb2|].
      change (length X509_END) with 27%nat in Hf. lia.
    + change (firstn 1 (X509_END ++ R)) with [10]. rewrite <- app_assoc. apply safe_start. exact Hb1.
    + rewrite app_length. lia.
Qed.

Lemma nodash_no_start : forall b fuel cur, nodash b ->
  split_bytes fuel X509_START b cur = [rev cur ++ b].
Proof.
  induction b as [|x b IH]; intros fuel cur Hb.
  - destruct fuel; cbn [split_bytes]; rewrite ?app_nil_r; reflexivity.
  - destruct fuel as [|fuel]; [reflexivity|]. inversion Hb as [|? ? Hx Hb']; subst.
    cbn [split_bytes].
    assert (Hs : starts X509_START (x :: b) = false).
    { change X509_START with (45 :: tl X509_START). cbn [starts].
      destruct (45 =? x) eqn:E; [apply N.eqb_eq in E; congruence|reflexivity]. }
    rewrite Hs, IH by exact Hb'. cbn [rev]. rewrite <- app_assoc. reflexivity.
Qed.

Lemma remove_start b : nodash b -> remove_all X509_START (X509_START ++ b) = b.
Proof.
  intro Hb. unfold remove_all, bsplit.
  pose proof (starts_start b) as Hs.
  rewrite split_match; [|discriminate|exact Hs].
  rewrite skipn_app_exact, nodash_no_start by exact Hb.
  cbn [rev app concat]. apply app_nil_r.
Qed.

(* SgxQeCertData.certs on a chain of PEM blocks whose bodies hold no dash (base64 text and
   newlines): exactly the bodies, in order *)
Theorem split_certs_pems bodies :
  Forall nodash bodies -> split_certs (concat (map pem_block bodies)) = bodies.
Proof.
  intro Hb. unfold split_certs, bsplit. rewrite bsplit_pems by (auto; lia).
  rewrite filter_app. cbn [filter lstrip_b starts]. 
  assert (Hl : forall b, lstrip_b (X509_START ++ b) = X509_START ++ b) by reflexivity.
  pose proof starts_start as Hs.
  change (starts X509_START []) with false. cbv iota. rewrite app_nil_r.
  induction Hb as [|b bodies Hb1 Hb2 IH]; [reflexivity|].
  cbn [map filter]. rewrite Hl, Hs. cbn [map]. rewrite remove_start by exact Hb1.
  f_equal. exact IH.
Qed.

Corollary split_certs_two b0 b1 :
  nodash b0 -> nodash b1 -> split_certs (pem_block b0 ++ pem_block b1) = [b0; b1].
Proof.
  intros H0 H1. rewrite <- (split_certs_pems [b0; b1]) by (repeat constructor; assumption).
  cbn [map concat]. rewrite app_nil_r. reflexivity.
Qed.

Corollary split_certs_three b0 b1 b2 :
  nodash b0 -> nodash b1 -> nodash b2 ->
  split_certs (pem_block b0 ++ pem_block b1 ++ pem_block b2) = [b0; b1; b2].
Proof.
  intros H0 H1 H2. rewrite <- (split_certs_pems [b0; b1; b2]) by (repeat constructor; assumption).
  cbn [map concat]. rewrite app_nil_r. reflexivity.
Qed.

(* the two together: an envelope carrying a PEM chain parses to its fields and the chain's
   certificate bodies *)
Theorem envelope_roundtrip_pems quote tail4 sig key qeb qes auth ty bodies custom :
  env_shape quote tail4 sig key qeb qes auth (concat (map pem_block bodies)) ->
  Forall nodash bodies ->
  parse_envelope (mk_envelope quote tail4 sig key qeb qes auth ty
                              (concat (map pem_block bodies)) custom) custom
  = Some (mkEnv quote sig key qeb qes auth bodies custom).
Proof.
  intros Hs Hb. rewrite envelope_roundtrip by exact Hs. rewrite split_certs_pems by exact Hb.
  reflexivity.
Qed.

(* non-vacuity: 3 bytes of QE auth data, two tiny PEM blocks *)
Example envelope_example :
  let quote := repeat 1 432 in let sig := repeat 2 64 in let key := repeat 3 64 in
  let qeb := repeat 4 384 in let qes := repeat 5 64 in
  let auth := [7; 8; 9] in let custom := s "POWHSM:5.4::" in
  let cd := pem_block (s "QUJD") ++ pem_block (s "REVG" ++ [10] ++ s "Zw==") ++ [0] in
  parse_envelope (mk_envelope quote [64; 2; 0; 0] sig key qeb qes auth 5 cd custom) custom
  = Some (mkEnv quote sig key qeb qes auth [s "QUJD"; s "REVG" ++ [10] ++ s "Zw=="] custom)
  /\ parse_envelope (mk_envelope quote [64; 2; 0; 0] sig key qeb qes auth 5 cd custom)
                    (s "POWHSM:5.5::") = None
  /\ parse_envelope (removelast (mk_envelope quote [64; 2; 0; 0] sig key qeb qes auth 5 cd custom))
                    custom = None.
Proof. vm_compute. repeat split; reflexivity. Qed.


(* ====================================================================== *)
(* 4. SGX: what was gathered verifies, with the device's values            *)
(* ====================================================================== *)

(* HSMCertificateV2.add_element, in order *)
Definition table_of (els : list celem) : etable :=
  fold_left (fun t el => tbl_set (ce_name el) el t) els [].

Definition cert_of (version : Z) (targets : list str) (els : list celem) : cert :=
  mkCert version (map JStr targets) (table_of els).

(* validate_and_get_values for the quote target: (custom message, quote bytes) *)
Definition quote_value (v : option verdict) : option (bytes * bytes) :=
  match v with
  | Some (Valid q) =>
      match fromhex (ce_extra1 q), fromhex (ce_message q) with
      | Some c, Some m => Some (c, m)
      | _, _ => None
      end
  | _ => None
  end.

Lemma canonical_hex b : wf_bytes b -> b <> [] -> canonical (hex b).
Proof.
  intros Hw Hn. exists (hex b). unfold is_nonempty_hex_string, canon_hex.
  rewrite (c_fromhex_hex b Hw). split; [|reflexivity].
  destruct b; [congruence|]. unfold nlen. cbn [length]. lia.
Qed.

Lemma wf_strip b : wf_bytes b -> wf_bytes (strip_zeros b) /\ (length (strip_zeros b) <= length b)%nat.
Proof.
  induction 1 as [|x b Hx Hb IH]; [split; [constructor|cbn; lia]|].
  cbn [strip_zeros]. destruct x; [cbn [length]; split; [tauto|lia]|].
  split; [constructor; assumption|lia].
Qed.

Lemma wf_der_int b : wf_bytes b -> (length b <= 64)%nat ->
  wf_bytes (der_int b) /\ (length (der_int b) <= length b + 3)%nat.
Proof.
  intros Hw Hl. destruct (wf_strip b Hw) as [Hs Hsl]. unfold der_int.
  set (v := strip_zeros b) in *.
  assert (Hv' : forall v', wf_bytes v' -> (length v' <= S (length v))%nat ->
                wf_bytes (2 :: nlen v' :: v') /\
                (length (2%N :: nlen v' :: v') <= length b + 3)%nat).
  { intros v' H1 H2. split; [|cbn [length]; lia].
    constructor; [lia|]. constructor; [unfold nlen; lia|exact H1]. }
  destruct v as [|x v0] eqn:Ev.
  - apply Hv'; [constructor; [lia|constructor]|cbn [length]; lia].
  - destruct (128 <=? x).
    + apply Hv'; [constructor; [lia|exact Hs]|cbn [length]; lia].
    + apply Hv'; [exact Hs|cbn [length]; lia].
Qed.

Lemma wf_firstn n b : wf_bytes b -> wf_bytes (firstn n b).
Proof.
  intro H. apply Forall_forall. intros x Hx.
  unfold wf_bytes in H. rewrite Forall_forall in H. apply H.
  rewrite <- (firstn_skipn n b). apply in_or_app. left. exact Hx.
Qed.

Lemma wf_skipn n b : wf_bytes b -> wf_bytes (skipn n b).
Proof.
  intro H. apply Forall_forall. intros x Hx.
  unfold wf_bytes in H. rewrite Forall_forall in H. apply H.
  rewrite <- (firstn_skipn n b). apply in_or_app. right. exact Hx.
Qed.

Lemma wf_sigencode_der rs : wf_bytes rs -> (length rs <= 64)%nat ->
  wf_bytes (sigencode_der rs) /\ sigencode_der rs <> [].
Proof.
  intros Hw Hl. split; [|discriminate]. unfold sigencode_der.
  destruct (wf_der_int (firstn 32 rs)) as [H1 L1];
    [apply wf_firstn; exact Hw|rewrite firstn_length; lia|].
  destruct (wf_der_int (skipn 32 rs)) as [H2 L2];
    [apply wf_skipn; exact Hw|rewrite skipn_length; lia|].
  rewrite firstn_length in L1. rewrite skipn_length in L2.
  constructor; [lia|]. constructor.
  - unfold nlen. rewrite app_length. lia.
  - apply Forall_app. split; assumption.
Qed.

Section Sgx.
Variable hash : bytes -> bytes.
Variable p256_verify : bytes -> bytes -> bytes -> bool.
Variable p256_key : str -> option bytes.
Variable x509_parse : str -> option x509_info.
Variable x509_sig_ok : str -> str -> bool.
Variable now : Z.
Variable root_elem : celem.
Variable b64_of_pem : bytes -> str.
Variable b64_norm : str -> option str.

Notation Q := (quote_ok hash p256_verify p256_key x509_parse root_elem).
Notation A := (attkey_ok hash p256_verify p256_key x509_parse root_elem).
Notation X := (x509_ok x509_parse x509_sig_ok now root_elem).
Notation L := (link_v2 hash p256_verify p256_key x509_parse x509_sig_ok now root_elem).

(* the four elements of sgx_attestation.do_attestation *)
Definition el_quote (e : envelope) : celem :=
  mkElem (JStr (s "quote")) (JStr (s "attestation")) KQuote None
         (hex (en_quote e)) (hex (sigencode_der (en_sig e))) (hex (en_custom e)) [].
Definition el_att (e : envelope) : celem :=
  mkElem (JStr (s "attestation")) (JStr (s "quoting_enclave")) KAttKey None
         (hex (en_qe_body e)) (hex (sigencode_der (en_qe_sig e)))
         (hex (4 :: en_attkey e)) (hex (en_auth e)).
Definition el_qe (c0 : bytes) : celem :=
  mkElem (JStr (s "quoting_enclave")) (JStr (s "platform_ca")) KX509 None (b64_of_pem c0) [] [] [].
Definition el_pca (c1 : bytes) : celem :=
  mkElem (JStr (s "platform_ca")) (JStr (s "sgx_root")) KX509 None (b64_of_pem c1) [] [] [].

Lemma sgx_elements_iff e els :
  sgx_elements b64_of_pem e = Some els <->
  exists c0 c1 rest, en_certs e = c0 :: c1 :: rest /\
                     els = [el_quote e; el_att e; el_qe c0; el_pca c1].
Proof.
  unfold sgx_elements. destruct (en_certs e) as [|c0 [|c1 rest]].
  - split; [discriminate|]. intros (? & ? & ? & H & _). discriminate.
  - split; [discriminate|]. intros (? & ? & ? & H & _). discriminate.
  - split.
    + intro H. inversion H. exists c0, c1, rest. split; reflexivity.
    + intros (c0' & c1' & rest' & H & ->). inversion H; subst. reflexivity.
Qed.

Definition sgx_cert (els : list celem) : cert := cert_of 2 [s "quote"] els.

Lemma sgx_table e c0 c1 :
  table_of [el_quote e; el_att e; el_qe c0; el_pca c1]
  = [(JStr (s "quote"), el_quote e); (JStr (s "attestation"), el_att e);
     (JStr (s "quoting_enclave"), el_qe c0); (JStr (s "platform_ca"), el_pca c1)].
Proof.
  unfold el_quote, el_att, el_qe, el_pca.
  generalize (hex (en_quote e)), (hex (sigencode_der (en_sig e))), (hex (en_custom e)),
    (hex (en_qe_body e)), (hex (sigencode_der (en_qe_sig e))), (hex (4 :: en_attkey e)),
    (hex (en_auth e)), (b64_of_pem c0), (b64_of_pem c1).
  intros. reflexivity.
Qed.

Lemma sgx_path e c0 c1 :
  target_path (sgx_cert [el_quote e; el_att e; el_qe c0; el_pca c1]) (JStr (s "quote"))
  = Some [el_pca c1; el_qe c0; el_att e; el_quote e].
Proof.
  unfold sgx_cert, cert_of. rewrite sgx_table.
  unfold el_quote, el_att, el_qe, el_pca.
  generalize (hex (en_quote e)), (hex (sigencode_der (en_sig e))), (hex (en_custom e)),
    (hex (en_qe_body e)), (hex (sigencode_der (en_qe_sig e))), (hex (4 :: en_attkey e)),
    (hex (en_auth e)), (b64_of_pem c0), (b64_of_pem c1).
  intros. reflexivity.
Qed.

(* If the link checks accept what the genuine device signed, the quote target is Valid and
   carries exactly the device's custom message and quote. *)
Theorem gather_then_verify_sgx e els :
  sgx_elements b64_of_pem e = Some els ->
  exists q att qe pca, els = [q; att; qe; pca] /\
    ce_extra1 q = hex (en_custom e) /\ ce_message q = hex (en_quote e) /\
    (validate_target L (sgx_cert els) (JStr (s "quote")) = Some (Valid q) <->
     X pca ByRoot = true /\ X qe (ByElem pca) = true /\
     A att (ByElem qe) = true /\ Q q (ByElem att) = true).
Proof.
  intro H. apply sgx_elements_iff in H. destruct H as (c0 & c1 & rest & Hc & ->).
  exists (el_quote e), (el_att e), (el_qe c0), (el_pca c1).
  split; [reflexivity|]. split; [reflexivity|]. split; [reflexivity|].
  apply v2_valid_iff_q; [apply sgx_path|reflexivity..].
Qed.


(* "the oracle accepts what the genuine device signed" *)
Definition chain_accepted (els : list celem) : Prop :=
  match els with
  | [q; att; qe; pca] =>
      X pca ByRoot = true /\ X qe (ByElem pca) = true /\
      A att (ByElem qe) = true /\ Q q (ByElem att) = true
  | _ => False
  end.

Lemma gathered_value e els :
  sgx_elements b64_of_pem e = Some els -> chain_accepted els ->
  wf_bytes (en_custom e) -> wf_bytes (en_quote e) ->
  quote_value (validate_target L (sgx_cert els) (JStr (s "quote")))
  = Some (en_custom e, en_quote e).
Proof.
  intros He Hc Hw1 Hw2.
  destruct (gather_then_verify_sgx e els He) as (q & att & qe & pca & -> & H1 & H2 & Hv).
  cbn [chain_accepted] in Hc. apply Hv in Hc. rewrite Hc. unfold quote_value.
  rewrite H1, H2, !c_fromhex_hex by assumption. reflexivity.
Qed.

(* the verify command on the gathered certificate succeeds exactly under the message-level
   conditions of C08 on the device's own custom message and quote *)
Theorem gather_then_verify_sgx_iff e els rsv ks r :
  sgx_elements b64_of_pem e = Some els -> chain_accepted els ->
  wf_bytes (en_custom e) -> wf_bytes (en_quote e) ->
  (verify_sgx hash rsv ks (quote_value (validate_target L (sgx_cert els) (JStr (s "quote"))))
   = Some r
   <-> sgx_ok hash rsv ks (Some (en_custom e, en_quote e)) r).
Proof.
  intros He Hc Hw1 Hw2. rewrite (gathered_value e els He Hc Hw1 Hw2). apply sgx_ok_iff.
Qed.

(* and what it prints are slices of the device's custom message and quote *)
Theorem gather_then_verify_sgx_report e els ks pm :
  sgx_elements b64_of_pem e = Some els -> chain_accepted els ->
  wf_bytes (en_custom e) -> wf_bytes (en_quote e) ->
  parse_powhsm (en_custom e) = Some pm -> ks <> [] ->
  pm_keys_hash pm = keys_hash_of hash ks ->
  exists r,
    verify_sgx hash true ks (quote_value (validate_target L (sgx_cert els) (JStr (s "quote"))))
    = Some r /\
    sg_keys_hash r = keys_hash_of hash ks /\
    sg_keys_hash r = firstn 32 (skipn 47 (en_custom e)) /\
    sg_mrenclave r = firstn 32 (skipn 112 (en_quote e)) /\
    sg_mrsigner r = firstn 32 (skipn 176 (en_quote e)) /\
    sg_powhsm r = powhsm_of (en_custom e).
Proof.
  intros He Hc Hw1 Hw2 Hp Hk Hh.
  set (r := mkSg (keys_hash_of hash ks) (firstn 32 (skipn 112 (en_quote e)))
                 (firstn 32 (skipn 176 (en_quote e))) pm).
  assert (Hr : verify_sgx hash true ks
                 (quote_value (validate_target L (sgx_cert els) (JStr (s "quote")))) = Some r).
  { apply (gather_then_verify_sgx_iff e els true ks r He Hc Hw1 Hw2).
    exists (en_custom e), (en_quote e), pm. repeat split; assumption. }
  exists r. split; [exact Hr|].
  rewrite (gathered_value e els He Hc Hw1 Hw2) in Hr.
  apply (sgx_printed_are_slices hash true ks _ _ r Hr).
Qed.

(* the root of trust must validate against itself, the keys file must not be empty *)
Corollary gathered_sgx_needs_root els ks :
  verify_sgx hash false ks (quote_value (validate_target L (sgx_cert els) (JStr (s "quote"))))
  = None.
Proof. apply sgx_root_not_self_valid. Qed.

(* ---------- through the file ---------- *)

Record sgx_wf (e : envelope) : Prop := {
  w_quote : wf_bytes (en_quote e); w_quote_ne : en_quote e <> [];
  w_sig : wf_bytes (en_sig e); w_sig_len : (length (en_sig e) <= 64)%nat;
  w_custom : wf_bytes (en_custom e); w_custom_ne : en_custom e <> [];
  w_qeb : wf_bytes (en_qe_body e); w_qeb_ne : en_qe_body e <> [];
  w_qes : wf_bytes (en_qe_sig e); w_qes_len : (length (en_qe_sig e) <= 64)%nat;
  w_key : wf_bytes (en_attkey e);
  w_auth : wf_bytes (en_auth e)
}.

Lemma sgx_elems_v2 e c0 c1 :
  sgx_wf e ->
  b64_norm (b64_of_pem c0) = Some (b64_of_pem c0) ->
  b64_norm (b64_of_pem c1) = Some (b64_of_pem c1) ->
  Forall (fun x => v2_elem b64_norm x /\ v2_stable b64_norm x)
         [el_quote e; el_att e; el_qe c0; el_pca c1].
Proof using b64_of_pem b64_norm.
  intros [W1 N1 W2 L2 W3 N3 W4 N4 W5 L5 W6 W7] B0 B1.
  destruct (wf_sigencode_der _ W2 L2) as [S1 S1n].
  destruct (wf_sigencode_der _ W5 L5) as [S2 S2n].
  repeat (first [apply Forall_cons | apply Forall_nil | split]);
    cbn [ce_kind ce_message ce_signature ce_extra1 ce_extra2 ce_tweak
         el_quote el_att el_qe el_pca v2_stable].
  - apply canonical_hex; assumption.
  - apply canonical_hex; assumption.
  - apply canonical_hex; assumption.
  - apply canonical_hex; assumption.
  - apply canonical_hex; assumption.
  - apply canonical_hex; [|discriminate]. constructor; [reflexivity|assumption].
  - destruct (en_auth e) as [|x r] eqn:Ea; [right; reflexivity|].
    left. apply canonical_hex; [assumption|discriminate].
  - exists (b64_of_pem c0). exact B0.
  - exact B0.
  - exists (b64_of_pem c1). exact B1.
  - exact B1.
Qed.

Ltac gen_fields e c0 c1 :=
  unfold el_quote, el_att, el_qe, el_pca;
  generalize (hex (en_quote e)), (hex (sigencode_der (en_sig e))), (hex (en_custom e)),
    (hex (en_qe_body e)), (hex (sigencode_der (en_qe_sig e))), (hex (4 :: en_attkey e)),
    (hex (en_auth e)), (b64_of_pem c0), (b64_of_pem c1); intros.

Lemma sgx_table_facts e c0 c1 :
  let t := table_of [el_quote e; el_att e; el_qe c0; el_pca c1] in
  renamed t = t /\ keys_unique t /\
  check_targets (root_name 2) t [JStr (s "quote")] = true /\
  Forall (fun kv => CertProofs.keyed (fst kv) (ce_name (snd kv)) /\ hashable (ce_name (snd kv)) = true) t.
Proof.
  cbv zeta. rewrite sgx_table. split; [|split; [|split]].
  - reflexivity.
  - gen_fields e c0 c1. cbn [keys_unique].
    repeat split; try exact I; intros k' e' Hin; cbn [In] in Hin;
      repeat (destruct Hin as [Hin|Hin]; [inversion Hin; subst; reflexivity|]); destruct Hin.
  - gen_fields e c0 c1. reflexivity.
  - repeat constructor.
Qed.

(* The certificate written by the attestation command loads back to the very same
   certificate (same targets, same elements under the same names), hence validates
   identically for every oracle.  QE auth data may be empty (0..n bytes). *)
Theorem sgx_file_roundtrip e els :
  sgx_elements b64_of_pem e = Some els ->
  sgx_wf e ->
  (forall c, b64_norm (b64_of_pem c) = Some (b64_of_pem c)) ->
  exists j, cert_to_json (sgx_cert els) = Some j /\
            load_cert b64_norm j = LOk (sgx_cert els).
Proof using b64_of_pem b64_norm.
  intros He Hw Hb. apply sgx_elements_iff in He. destruct He as (c0 & c1 & rest & _ & ->).
  pose proof (sgx_elems_v2 e c0 c1 Hw (Hb c0) (Hb c1)) as Hel.
  destruct (sgx_table_facts e c0 c1) as (Hren & Huniq & Hct & Hkeyed).
  unfold sgx_cert, cert_of. cbn [map].
  set (t := table_of _) in *.
  assert (Hin : forall k x, In (k, x) t -> In x [el_quote e; el_att e; el_qe c0; el_pca c1]).
  { unfold t. rewrite sgx_table. intros k x H. cbn [In] in H |- *.
    repeat (destruct H as [H|H]; [inversion H; subst; auto 6|]). destruct H. }
  rewrite Forall_forall in Hel.
  assert (Hv : tbl_v2 b64_norm t).
  { apply Forall_forall. intros [k x] Hkx. rewrite Forall_forall in Hkeyed.
    destruct (Hkeyed _ Hkx) as [H1 H2]. split; [exact H1|]. split; [exact H2|].
    apply (Hel x). eapply Hin. exact Hkx. }
  assert (Hs : forall k x, In (k, x) t -> v2_stable b64_norm x).
  { intros k x Hkx. apply (Hel x). eapply Hin. exact Hkx. }
  unfold cert_to_json. cbn [c_elems c_version c_targets].
  destruct (all_some (map (fun kv => elem_to_json (snd kv)) t)) as [js|] eqn:Ejs.
  - eexists. split; [reflexivity|].
    assert (Hu' : keys_unique ([] ++ renamed t)) by (cbn [app]; rewrite Hren; exact Huniq).
    pose proof (rebuild_v2 b64_norm t [] js Hu' Hv Hs Ejs) as Hr.
    cbn [app] in Hr. rewrite Hren in Hr.
    unfold load_cert.
    change (jget (s "version") _) with (Some (JInt 2)).
    cbn [hashable negb py_eq_int Z.eqb Pos.eqb].
    apply parse_cert_intro with js; try assumption; reflexivity.
  - exfalso. apply all_some_none_iff in Ejs. apply in_map_iff in Ejs.
    destruct Ejs as ([k x] & Hx & Hkx). cbn [snd] in Hx.
    destruct (Hel x (Hin _ _ Hkx)) as [H1 H2].
    destruct (elem_v2_roundtrip b64_norm x H1 H2) as (j & Hj & _). congruence.
Qed.

Corollary sgx_file_validates_identically e els j c' :
  sgx_elements b64_of_pem e = Some els ->
  sgx_wf e ->
  (forall c, b64_norm (b64_of_pem c) = Some (b64_of_pem c)) ->
  cert_to_json (sgx_cert els) = Some j -> load_cert b64_norm j = LOk c' ->
  c' = sgx_cert els /\
  forall link tg, validate_target link c' tg = validate_target link (sgx_cert els) tg.
Proof.
  intros He Hw Hb Hj Hl.
  destruct (sgx_file_roundtrip e els He Hw Hb) as (j' & Hj' & Hl').
  rewrite Hj in Hj'. inversion Hj'; subst j'. rewrite Hl in Hl'. inversion Hl'; subst c'.
  split; reflexivity.
Qed.

(* Empty QE auth data (0 bytes, inside the property's range): the attestation-key element
   carries "auth_data": "", which the element factory accepts (since fix 36570d0; before it
   the saved certificate did not load); the certificate loads back unchanged. *)
Corollary sgx_empty_auth_loadable e els :
  sgx_elements b64_of_pem e = Some els -> en_auth e = [] ->
  sgx_wf e ->
  (forall c, b64_norm (b64_of_pem c) = Some (b64_of_pem c)) ->
  exists j, cert_to_json (sgx_cert els) = Some j /\
            load_cert b64_norm j = LOk (sgx_cert els) /\
            exists att, nth_error els 1 = Some att /\ ce_extra2 att = [].
Proof.
  intros He Ha Hw Hb.
  destruct (sgx_file_roundtrip e els He Hw Hb) as (j & Hj & Hl).
  exists j. split; [exact Hj|]. split; [exact Hl|].
  apply sgx_elements_iff in He. destruct He as (c0 & c1 & rest & _ & ->).
  exists (el_att e). split; [reflexivity|]. cbn [el_att ce_extra2]. rewrite Ha. reflexivity.
Qed.
End Sgx.


(* ====================================================================== *)
(* 5. Ledger                                                               *)
(* ====================================================================== *)

(* ---------- the key responses of the onboarding commands ---------- *)

(* get_device_key: len | header | len | key | len | signature (anything after is ignored) *)
Theorem device_key_info_honest (header key sg junk : bytes) :
  device_key_info ([nlen header] ++ header ++ [nlen key] ++ key ++ [nlen sg] ++ sg ++ junk)
  = Some (mkKi (DA_ROLE_DEVICE :: header ++ key) sg).
Proof.
  unfold device_key_info. cbn [app]. rewrite !n2n_nlen.
  rewrite skipn_app_exact. cbv iota beta. rewrite !n2n_nlen.
  rewrite skipn_app_exact. cbv iota beta. rewrite !n2n_nlen.
  rewrite !firstn_app_exact. reflexivity.
Qed.

(* a response cut before the signature length is refused *)
Theorem device_key_info_truncated (header key : bytes) :
  device_key_info ([nlen header] ++ header ++ [nlen key] ++ key) = None
  /\ device_key_info ([nlen header] ++ header) = None /\ device_key_info [] = None.
Proof.
  unfold device_key_info. cbn [app]. rewrite !n2n_nlen. split; [|split; [|reflexivity]].
  - rewrite skipn_app_exact. cbv iota beta. rewrite !n2n_nlen.
    rewrite skipn_all. reflexivity.
  - rewrite skipn_all. reflexivity.
Qed.

(* setup_endorsement_key: 65-byte key || signature *)
Theorem endorsement_key_info_honest (key sg : bytes) :
  length key = 65%nat ->
  endorsement_key_info (key ++ sg) = mkKi (DA_ROLE_ENDORSEMENT :: key) sg.
Proof.
  intro H. unfold endorsement_key_info. rewrite <- H.
  rewrite firstn_app_exact, skipn_app_exact. reflexivity.
Qed.

(* ---------- the certificate ---------- *)

(* validate_and_get_values for a version-1 target *)
Definition v1_tres (v : option verdict) : option tres :=
  match v with
  | Some (Valid e) =>
      match ce_name e, fromhex (ce_message e) with
      | JStr nm, Some m =>
          match ce_tweak e with
          | None => Some (TValid (v1_value nm m) None)
          | Some tw => match fromhex tw with
                       | Some t => Some (TValid (v1_value nm m) (Some t))
                       | None => None
                       end
          end
      | _, _ => None
      end
  | Some (Invalid _) => Some TInvalid
  | None => None
  end.

(* closed check of v1_value against the extractors of the Python source, evaluated there on
   the message 0,1,..,99: (offset, length) of what each extractor returns *)
Example v1_value_matches_extractors :
  let m := map N.of_nat (seq 0 100) in
  forallb (fun e : str * (N * N) =>
             bytes_eqb (v1_value (fst e) m) (sub m (snd e))) CERT_V1_EXTRACTORS_ON_100 = true.
Proof. vm_compute. reflexivity. Qed.

Definition l_att (att : key_info) : celem :=
  mkElem (JStr (s "attestation")) (JStr (s "device")) KV1 None (hex (ki_message att))
         (hex (ki_signature att)) [] [].
Definition l_dev (dev : key_info) : celem :=
  mkElem (JStr (s "device")) (JStr (s "root")) KV1 None (hex (ki_message dev))
         (hex (ki_signature dev)) [] [].
Definition l_app (name : string) (msg sg hsh : bytes) : celem :=
  mkElem (JStr (s name)) (JStr (s "attestation")) KV1 (Some (hex hsh)) (hex msg) (hex sg) [] [].

Lemma ledger_elements_eq dev att ui_msg ui_sig ui_hash sg_msg sg_sig sg_hash :
  ledger_elements dev att ui_msg ui_sig ui_hash sg_msg sg_sig sg_hash
  = [l_att att; l_dev dev; l_app "ui" ui_msg ui_sig ui_hash; l_app "signer" sg_msg sg_sig sg_hash].
Proof. reflexivity. Qed.

Definition ledger_cert (els : list celem) : cert := cert_of 1 [s "ui"; s "signer"] els.

Section Ledger.
Variable link : celem -> certifier -> bool.
Variable hash : bytes -> bytes.
Variables (dev att : key_info) (ui_msg ui_sig ui_hash sg_msg sg_sig sg_hash : bytes).

Let els := ledger_elements dev att ui_msg ui_sig ui_hash sg_msg sg_sig sg_hash.
Let a := l_att att.
Let d := l_dev dev.
Let u := l_app "ui" ui_msg ui_sig ui_hash.
Let g := l_app "signer" sg_msg sg_sig sg_hash.

Ltac gen_l :=
  unfold els, a, d, u, g; rewrite ?ledger_elements_eq; unfold l_att, l_dev, l_app;
  generalize (hex (ki_message att)), (hex (ki_signature att)), (hex (ki_message dev)),
    (hex (ki_signature dev)), (hex ui_msg), (hex ui_sig), (hex ui_hash), (hex sg_msg),
    (hex sg_sig), (hex sg_hash); intros.

Lemma ledger_table :
  table_of els = [(JStr (s "attestation"), a); (JStr (s "device"), d);
                  (JStr (s "ui"), u); (JStr (s "signer"), g)].
Proof. gen_l. reflexivity. Qed.

Lemma ledger_paths :
  target_path (ledger_cert els) (JStr (s "ui")) = Some [d; a; u] /\
  target_path (ledger_cert els) (JStr (s "signer")) = Some [d; a; g].
Proof. unfold ledger_cert, cert_of. rewrite ledger_table. gen_l. split; reflexivity. Qed.

(* both targets are Valid, carrying the device's own elements, exactly when the link checks
   accept device-by-root, attestation-by-device and the application-by-attestation *)
Theorem gather_then_verify_ledger :
  (validate_target link (ledger_cert els) (JStr (s "ui")) = Some (Valid u) <->
   link d ByRoot = true /\ link a (ByElem d) = true /\ link u (ByElem a) = true) /\
  (validate_target link (ledger_cert els) (JStr (s "signer")) = Some (Valid g) <->
   link d ByRoot = true /\ link a (ByElem d) = true /\ link g (ByElem a) = true).
Proof.
  destruct ledger_paths as [Pu Pg].
  assert (Gu : tbl_get (JStr (s "ui")) (c_elems (ledger_cert els)) = Some u).
  { unfold ledger_cert, cert_of. cbn [c_elems]. rewrite ledger_table. gen_l. reflexivity. }
  assert (Gg : tbl_get (JStr (s "signer")) (c_elems (ledger_cert els)) = Some g).
  { unfold ledger_cert, cert_of. cbn [c_elems]. rewrite ledger_table. gen_l. reflexivity. }
  split; rewrite target_valid_iff; split.
  - intros (p & Hp & _ & Hl). rewrite Pu in Hp. inversion Hp; subst p.
    cbn [links_hold] in Hl. tauto.
  - intros (H1 & H2 & H3). exists [d; a; u]. split; [exact Pu|]. split; [exact Gu|].
    cbn [links_hold]. tauto.
  - intros (p & Hp & _ & Hl). rewrite Pg in Hp. inversion Hp; subst p.
    cbn [links_hold] in Hl. tauto.
  - intros (H1 & H2 & H3). exists [d; a; g]. split; [exact Pg|]. split; [exact Gg|].
    cbn [links_hold]. tauto.
Qed.

Definition ledger_accepted : Prop :=
  link d ByRoot = true /\ link a (ByElem d) = true /\
  link u (ByElem a) = true /\ link g (ByElem a) = true.

Hypothesis Hw : wf_bytes ui_msg /\ wf_bytes ui_hash /\ wf_bytes sg_msg /\ wf_bytes sg_hash.

(* the values handed to the verify command are the device's messages and hashes *)
Lemma ledger_values :
  ledger_accepted ->
  v1_tres (validate_target link (ledger_cert els) (JStr (s "ui")))
  = Some (TValid ui_msg (Some ui_hash)) /\
  v1_tres (validate_target link (ledger_cert els) (JStr (s "signer")))
  = Some (TValid sg_msg (Some sg_hash)).
Proof.
  intros (H1 & H2 & H3 & H4). destruct Hw as (W1 & W2 & W3 & W4).
  destruct gather_then_verify_ledger as [Vu Vg].
  rewrite (proj2 Vu) by tauto. rewrite (proj2 Vg) by tauto.
  unfold v1_tres, u, g, l_app. cbn [ce_name ce_message ce_tweak].
  rewrite !c_fromhex_hex by assumption. split; reflexivity.
Qed.

(* the verify command succeeds exactly under the message-level conditions of C08 on the
   device's own UI and signer messages, with the app hashes as tweaks *)
Theorem gather_then_verify_ledger_iff ks ur sr :
  ledger_accepted ->
  (verify_ledger hash ks
     (v1_tres (validate_target link (ledger_cert els) (JStr (s "ui"))))
     (v1_tres (validate_target link (ledger_cert els) (JStr (s "signer")))) = Some (ur, sr)
   <-> ledger_ok hash ks (Some (TValid ui_msg (Some ui_hash))) (Some (TValid sg_msg (Some sg_hash)))
                 ur sr).
Proof.
  intro Ha. destruct (ledger_values Ha) as [-> ->]. apply ledger_ok_iff.
Qed.

(* and what it prints are slices of those messages *)
Theorem gather_then_verify_ledger_report ks ur sr :
  ledger_accepted ->
  verify_ledger hash ks
     (v1_tres (validate_target link (ledger_cert els) (JStr (s "ui"))))
     (v1_tres (validate_target link (ledger_cert els) (JStr (s "signer")))) = Some (ur, sr) ->
  ur_ud_value ur = slice ui_msg 10 42
  /\ ur_public_key ur = slice ui_msg 42 75
  /\ ur_signer_hash ur = slice ui_msg 75 107
  /\ ur_signer_iteration ur = from_bytes_be (slice ui_msg 107 109)
  /\ ur_ui_hash ur = ui_hash
  /\ ur_ui_version ur = firstn 3 (skipn 7 ui_msg)
  /\ sr_signer_hash sr = sg_hash
  /\ sr_keys_hash sr = keys_hash_of hash ks
  /\ (if is_legacy_signer_header sg_msg
      then sr_powhsm sr = None /\ sr_version sr = firstn 3 (skipn 11 sg_msg)
           /\ sr_keys_hash sr = skipn 14 sg_msg
      else sr_version sr = firstn 3 (skipn 7 sg_msg)
           /\ sr_keys_hash sr = firstn 32 (skipn 47 sg_msg)
           /\ exists pm, sr_powhsm sr = Some pm /\ pm = powhsm_of sg_msg).
Proof.
  intros Ha H. destruct (ledger_values Ha) as [E1 E2]. rewrite E1, E2 in H.
  pose proof (printed_are_slices hash ks _ _ _ _ _ _ H) as P.
  destruct P as (P1 & P2 & P3 & P4 & P5 & P6 & P7 & P8 & P9).
  repeat (split; [assumption|]).
  apply ledger_ok_iff in H.
  destruct H as (uik & um' & uih' & sm' & sh' & _ & _ & _ & _ & _ & H2 & _ & Hs).
  inversion H2; subst sm' sh'.
  destruct Hs as [(Lg & _ & Hk & ->)|(Lg & pm & Hp & Hk & ->)]; rewrite Lg in P9 |- *.
  - exact P9.
  - destruct P9 as (Q1 & Q2 & _). split; [exact Q1|]. split; [exact Q2|].
    exists pm. split; [reflexivity|]. apply parse_powhsm_iff in Hp. tauto.
Qed.


(* if any of the four link checks rejects (as it does when a signed byte, a signature, a key
   or the root is altered), the verify command fails *)
Lemma not_valid_tres tg x :
  tbl_get tg (c_elems (ledger_cert els)) = Some x ->
  validate_target link (ledger_cert els) tg <> Some (Valid x) ->
  v1_tres (validate_target link (ledger_cert els) tg) = None \/
  v1_tres (validate_target link (ledger_cert els) tg) = Some TInvalid.
Proof.
  intros Hg Hn. destruct (validate_target link (ledger_cert els) tg) as [[y|n]|] eqn:E.
  - exfalso. apply Hn. pose proof (valid_value_is_target_message _ _ _ _ E) as Hy. congruence.
  - right. reflexivity.
  - left. reflexivity.
Qed.

Corollary ledger_alteration_covered ks :
  link d ByRoot = false \/ link a (ByElem d) = false \/
  link u (ByElem a) = false \/ link g (ByElem a) = false ->
  verify_ledger hash ks
     (v1_tres (validate_target link (ledger_cert els) (JStr (s "ui"))))
     (v1_tres (validate_target link (ledger_cert els) (JStr (s "signer")))) = None.
Proof.
  intro H. destruct gather_then_verify_ledger as [Vu Vg].
  assert (Gu : tbl_get (JStr (s "ui")) (c_elems (ledger_cert els)) = Some u).
  { unfold ledger_cert, cert_of. cbn [c_elems]. rewrite ledger_table. gen_l. reflexivity. }
  assert (Gg : tbl_get (JStr (s "signer")) (c_elems (ledger_cert els)) = Some g).
  { unfold ledger_cert, cert_of. cbn [c_elems]. rewrite ledger_table. gen_l. reflexivity. }
  destruct (link g (ByElem a)) eqn:Eg.
  - assert (Hn : validate_target link (ledger_cert els) (JStr (s "ui")) <> Some (Valid u)).
    { intro Hv. apply Vu in Hv. destruct Hv as (H1 & H2 & H3).
      destruct H as [H|[H|[H|H]]]; congruence. }
    destruct (not_valid_tres _ _ Gu Hn) as [-> | ->];
      [apply ledger_ui_missing|apply ledger_ui_invalid].
  - assert (Hn : validate_target link (ledger_cert els) (JStr (s "signer")) <> Some (Valid g)).
    { intro Hv. apply Vg in Hv. destruct Hv as (H1 & H2 & H3). congruence. }
    destruct (not_valid_tres _ _ Gg Hn) as [-> | ->];
      [apply ledger_signer_missing|apply ledger_signer_invalid].
Qed.

(* ---------- through the file ---------- *)

Lemma nonempty_hex b : wf_bytes b -> b <> [] -> is_nonempty_hex_string (hex b) = true.
Proof.
  intros W Hn. unfold is_nonempty_hex_string. rewrite (c_fromhex_hex b W).
  destruct b; [congruence|]. reflexivity.
Qed.

Variable b64_norm : str -> option str.

Definition good (b : bytes) : Prop := wf_bytes b /\ b <> [].

(* the certificate written by onboarding + attestation loads back to the very same
   certificate *)
Theorem ledger_file_roundtrip :
  good (ki_message att) -> good (ki_signature att) ->
  good (ki_message dev) -> good (ki_signature dev) ->
  good ui_msg -> good ui_sig -> good ui_hash -> good sg_msg -> good sg_sig -> good sg_hash ->
  exists j, cert_to_json (ledger_cert els) = Some j /\
            load_cert b64_norm j = LOk (ledger_cert els).
Proof.
  intros [A1 A1'] [A2 A2'] [D1 D1'] [D2 D2'] [U1 U1'] [U2 U2'] [U3 U3'] [G1 G1'] [G2 G2'] [G3 G3'].
  assert (Va : v1_elem a).
  { constructor; cbn; try reflexivity; try exact I; try (apply nonempty_hex; assumption).
    exists (s "attestation"). split; reflexivity. }
  assert (Vd : v1_elem d).
  { constructor; cbn; try reflexivity; try exact I; try (apply nonempty_hex; assumption).
    exists (s "device"). split; reflexivity. }
  assert (Vu : v1_elem u).
  { constructor; cbn [u l_app ce_kind ce_name ce_tweak ce_message ce_signature ce_extra1 ce_extra2];
      try reflexivity; try (apply nonempty_hex; assumption).
    exists (s "ui"). split; reflexivity. }
  assert (Vg : v1_elem g).
  { constructor; cbn [g l_app ce_kind ce_name ce_tweak ce_message ce_signature ce_extra1 ce_extra2];
      try reflexivity; try (apply nonempty_hex; assumption).
    exists (s "signer"). split; reflexivity. }
  unfold ledger_cert, cert_of. cbn [map]. rewrite ledger_table.
  set (t := [(JStr (s "attestation"), a); (JStr (s "device"), d); (JStr (s "ui"), u);
             (JStr (s "signer"), g)]).
  assert (Hv : tbl_v1 t).
  { unfold tbl_v1, t. repeat (apply Forall_cons; [split; [reflexivity|assumption]|]).
    apply Forall_nil. }
  assert (Hu : keys_unique ([] ++ t)).
  { unfold t. cbn [app keys_unique].
    repeat split; try exact I; intros k' e' Hin; cbn [In] in Hin;
      repeat (destruct Hin as [Hin|Hin]; [inversion Hin; subst; reflexivity|]); destruct Hin. }
  destruct (all_some_v1 t Hv) as [js Hjs].
  unfold cert_to_json. cbn [c_elems c_version c_targets]. rewrite Hjs.
  eexists. split; [reflexivity|].
  pose proof (rebuild_v1 t [] js Hu Hv Hjs) as Hr. cbn [app] in Hr.
  unfold load_cert.
  change (jget (s "version") _) with (Some (JInt 1)). cbn [hashable negb py_eq_int Z.eqb Pos.eqb].
  apply parse_cert_intro with js; try assumption; reflexivity.
Qed.

End Ledger.


(* ====================================================================== *)
(* 6. Every gathered component feeds a link check on the quote's path      *)
(* ====================================================================== *)

Section Covered.
Variable hash : bytes -> bytes.
Variable p256_verify : bytes -> bytes -> bytes -> bool.
Variable p256_key : str -> option bytes.
Variable x509_parse : str -> option x509_info.
Variable x509_sig_ok : str -> str -> bool.
Variable now : Z.
Variable root_elem : celem.
Variable b64_of_pem : bytes -> str.

Notation L := (link_v2 hash p256_verify p256_key x509_parse x509_sig_ok now root_elem).
Notation validated els := (validate_target L (sgx_cert els) (JStr (s "quote"))).

Variables (e : envelope) (c0 c1 : bytes) (rest : list bytes).
Hypothesis Hcerts : en_certs e = c0 :: c1 :: rest.
Hypothesis Hwf : sgx_wf e.

Let els := [el_quote e; el_att e; el_qe b64_of_pem c0; el_pca b64_of_pem c1].

Lemma els_gathered : sgx_elements b64_of_pem e = Some els.
Proof. apply sgx_elements_iff. exists c0, c1, rest. split; [exact Hcerts|reflexivity]. Qed.

(* the accepted certificate, link by link, in terms of what was gathered: the quote bytes,
   the custom message, the quote signature, the attestation key, the QE auth data, the QE
   report body and its signature, the two certificates and the root *)
Theorem gathered_valid_expanded :
  validated els = Some (Valid (el_quote e)) <->
  ce_kind root_elem = KX509 /\
  exists ri pi qi kqe k64,
    x509_parse (ce_message root_elem) = Some ri /\
    x509_parse (b64_of_pem c1) = Some pi /\ x509_parse (b64_of_pem c0) = Some qi /\
    (x_not_before pi <= now <= x_not_after pi)%Z /\
    (x_not_before qi <= now <= x_not_after qi)%Z /\
    x509_sig_ok (b64_of_pem c1) (ce_message root_elem) = true /\
    x509_sig_ok (b64_of_pem c0) (b64_of_pem c1) = true /\
    x_p256_key qi = Some kqe /\
    p256_key (hex (4 :: en_attkey e)) = Some k64 /\
    (384 <= length (en_qe_body e))%nat /\
    begins_with (firstn 64 (skipn 320 (en_qe_body e))) (hash (k64 ++ en_auth e)) /\
    p256_verify kqe (hash (en_qe_body e)) (sigencode_der (en_qe_sig e)) = true /\
    (432 <= length (en_quote e))%nat /\
    begins_with (firstn 64 (skipn 368 (en_quote e))) (hash (en_custom e)) /\
    p256_verify k64 (hash (en_quote e)) (sigencode_der (en_sig e)) = true.
Proof.
  destruct Hwf as [W1 N1 W2 L2 W3 N3 W4 L4 W5 L5 W6 W7].
  destruct (wf_sigencode_der _ W2 L2) as [S1 _].
  destruct (wf_sigencode_der _ W5 L5) as [S2 _].
  unfold els.
  rewrite (standard_chain_expanded hash p256_verify p256_key x509_parse x509_sig_ok now root_elem
             _ _ _ _ _ _ (sgx_path b64_of_pem e c0 c1) eq_refl eq_refl eq_refl eq_refl).
  cbn [el_quote el_att el_qe el_pca ce_message ce_signature ce_extra1 ce_extra2].
  rewrite !c_fromhex_hex by assumption.
  split.
  - intros (Kr & ri & pi & qi & kqe & P1 & P2 & P3 & P4 & P5 & P6 & P7 & P8 &
            amsg & k64 & auth & asg & A1 & A2 & A3 & A4 & A5 & A6 & A7 &
            qmsg & custom & qsg & Q1 & Q2 & Q3 & Q4 & Q5 & Q6).
    inversion A1; inversion A3; inversion A4; inversion Q1; inversion Q2; inversion Q3; subst.
    split; [exact Kr|]. exists ri, pi, qi, kqe, k64. repeat split; try assumption; lia.
  - intros (Kr & ri & pi & qi & kqe & k64 & P1 & P2 & P3 & P4 & P5 & P6 & P7 & P8 &
            A2 & A5 & A6 & A7 & Q4 & Q5 & Q6).
    split; [exact Kr|]. exists ri, pi, qi, kqe. repeat split; try assumption; try lia.
    exists (en_qe_body e), k64, (en_auth e), (sigencode_der (en_qe_sig e)).
    repeat split; try assumption.
    exists (en_quote e), (en_custom e), (sigencode_der (en_sig e)). repeat split; assumption.
Qed.

(* not Valid means the verify command fails, whatever the keys file *)
Lemma not_valid_fails :
  validated els <> Some (Valid (el_quote e)) ->
  forall rsv ks, verify_sgx hash rsv ks (quote_value (validated els)) = None.
Proof.
  intros H rsv ks. destruct (validated els) as [[x|n]|] eqn:E.
  - exfalso. apply H. f_equal. f_equal.
    pose proof (valid_value_is_target_message _ _ _ _ E) as Hg.
    unfold sgx_cert, cert_of, els in Hg. cbn [c_elems] in Hg. rewrite sgx_table in Hg.
    cbn [tbl_get] in Hg.
    change (key_eqb (JStr (s "quote")) (JStr (s "quote"))) with true in Hg. congruence.
  - apply sgx_quote_missing.
  - apply sgx_quote_missing.
Qed.

Ltac covered :=
  apply not_valid_fails; let Hv := fresh "Hv" in intro Hv; apply gathered_valid_expanded in Hv;
  destruct Hv as (Kr & ri & pi & qi & kqe & k64 & P1 & P2 & P3 & P4 & P5 & P6 & P7 & P8 &
                  A2 & A5 & A6 & A7 & Q4 & Q5 & Q6).

(* one corollary per gathered component: if the check that consumes it rejects (as it does,
   cryptographically, when the component is altered), verification fails *)

(* quote bytes, quote signature, attestation key: ECDSA over the quote *)
Corollary alteration_covered_quote_signature :
  (forall k64, p256_key (hex (4 :: en_attkey e)) = Some k64 ->
               p256_verify k64 (hash (en_quote e)) (sigencode_der (en_sig e)) = false) ->
  forall rsv ks, verify_sgx hash rsv ks (quote_value (validated els)) = None.
Proof. intro H. covered. rewrite (H k64 A2) in Q6. discriminate. Qed.

(* custom message (and the quote's report data) *)
Corollary alteration_covered_custom_message :
  ~ begins_with (firstn 64 (skipn 368 (en_quote e))) (hash (en_custom e)) ->
  forall rsv ks, verify_sgx hash rsv ks (quote_value (validated els)) = None.
Proof. intro H. covered. exact (H Q5). Qed.

(* a quote shorter than sgx_quote_t *)
Corollary alteration_covered_quote_length :
  (length (en_quote e) < 432)%nat ->
  forall rsv ks, verify_sgx hash rsv ks (quote_value (validated els)) = None.
Proof. intro H. covered. lia. Qed.

(* attestation key and QE auth data: bound by the QE report data *)
Corollary alteration_covered_attkey_authdata :
  (forall k64, p256_key (hex (4 :: en_attkey e)) = Some k64 ->
     ~ begins_with (firstn 64 (skipn 320 (en_qe_body e))) (hash (k64 ++ en_auth e))) ->
  forall rsv ks, verify_sgx hash rsv ks (quote_value (validated els)) = None.
Proof. intro H. covered. exact (H k64 A2 A6). Qed.

(* an attestation key that is not a point of the curve *)
Corollary alteration_covered_attkey_point :
  p256_key (hex (4 :: en_attkey e)) = None ->
  forall rsv ks, verify_sgx hash rsv ks (quote_value (validated els)) = None.
Proof. intro H. covered. congruence. Qed.

(* QE report body and its signature: ECDSA by the key of the QE certificate *)
Corollary alteration_covered_qe_report :
  (forall qi kqe, x509_parse (b64_of_pem c0) = Some qi -> x_p256_key qi = Some kqe ->
     p256_verify kqe (hash (en_qe_body e)) (sigencode_der (en_qe_sig e)) = false) ->
  forall rsv ks, verify_sgx hash rsv ks (quote_value (validated els)) = None.
Proof. intro H. covered. rewrite (H qi kqe P3 P8) in A7. discriminate. Qed.

(* first certificate of the chain (quoting enclave): signed by the second *)
Corollary alteration_covered_cert0 :
  x509_sig_ok (b64_of_pem c0) (b64_of_pem c1) = false ->
  forall rsv ks, verify_sgx hash rsv ks (quote_value (validated els)) = None.
Proof. intro H. covered. congruence. Qed.

(* second certificate (platform CA) and the root of trust *)
Corollary alteration_covered_cert1_root :
  x509_sig_ok (b64_of_pem c1) (ce_message root_elem) = false ->
  forall rsv ks, verify_sgx hash rsv ks (quote_value (validated els)) = None.
Proof. intro H. covered. congruence. Qed.

(* a certificate, or the root, that does not parse, or is outside its validity period *)
Corollary alteration_covered_cert_parse :
  x509_parse (b64_of_pem c0) = None \/ x509_parse (b64_of_pem c1) = None \/
  x509_parse (ce_message root_elem) = None \/ ce_kind root_elem <> KX509 ->
  forall rsv ks, verify_sgx hash rsv ks (quote_value (validated els)) = None.
Proof. intro H. covered. destruct H as [H|[H|[H|H]]]; congruence. Qed.

End Covered.


(* ====================================================================== *)
(* 7. From the device's answers to the certificate, in one piece           *)
(* ====================================================================== *)

(* sgx_attestation.do_attestation up to the certificate: None = AdminError *)
Definition gather_sgx (b64_of_pem : bytes -> str) (ud : bytes) : M (option cert) :=
  a <- get_powhsm_attestation ud ;;
  match fromhex (att_envelope a), fromhex (att_message a) with
  | Some env, Some msg =>
      match parse_envelope env msg with
      | Some e => match sgx_elements b64_of_pem e with
                  | Some els => ret (Some (sgx_cert els))
                  | None => ret None
                  end
      | None => ret None
      end
  | _, _ => ret None
  end.

(* A genuine SGX device: it holds the custom message [custom], the quote envelope built from
   its quote, signatures, attestation key, QE data and a PEM chain of at least two
   certificates; it serves both in pages.  The attestation command produces the certificate
   whose elements carry exactly those values. *)
Theorem gather_sgx_honest (b64_of_pem : bytes -> str)
        ud hash sg quote tail4 sig key qeb qes auth ty b0 b1 bodies custom p n p' n'
        sc cn opn tr ci pn rp fs :
  let chain := b0 :: b1 :: bodies in
  let cd := concat (map pem_block chain) in
  let env := mk_envelope quote tail4 sig key qeb qes auth ty cd custom in
  env_shape quote tail4 sig key qeb qes auth cd -> Forall nodash chain ->
  wf_bytes env -> wf_bytes custom ->
  (1 <= n)%nat -> (length custom <= n * p)%nat -> (1 <= n')%nat -> (length env <= n' * p')%nat ->
  let e := mkEnv quote sig key qeb qes auth chain custom in
  fst (gather_sgx b64_of_pem ud
        (mkWorld (Data (CLA :: PATT_COMMAND :: PATT_OP_OP_GET :: sg)
                  :: page_answers PATT_COMMAND PATT_OP_OP_GET_MESSAGE p custom n
                  ++ page_answers PATT_COMMAND PATT_OP_OP_GET_ENVELOPE p' env n'
                  ++ Data (CLA :: PATT_COMMAND :: PATT_OP_OP_APP_HASH :: hash) :: sc)
                 cn opn tr ci pn rp fs))
  = Ok (Some (sgx_cert [el_quote e; el_att e; el_qe b64_of_pem b0; el_pca b64_of_pem b1])).
Proof.
  intros chain cd env Hs Hb We Wc Hn Hl Hn' Hl' e.
  unfold gather_sgx. unfold bind.
  rewrite get_powhsm_attestation_honest by assumption.
  cbn [att_envelope att_message]. rewrite !c_fromhex_hex by assumption.
  unfold env, cd. rewrite envelope_roundtrip_pems by assumption.
  reflexivity.
Qed.

(* the signer message is bound into the envelope: a device (or a wire) serving another
   message than the one the envelope was built for yields no certificate *)
Theorem gather_sgx_other_message (b64_of_pem : bytes -> str)
        ud hash sg quote tail4 sig key qeb qes auth ty cd custom custom' p n p' n'
        sc cn opn tr ci pn rp fs :
  let env := mk_envelope quote tail4 sig key qeb qes auth ty cd custom in
  env_shape quote tail4 sig key qeb qes auth cd -> custom' <> custom ->
  wf_bytes env -> wf_bytes custom' ->
  (1 <= n)%nat -> (length custom' <= n * p)%nat -> (1 <= n')%nat -> (length env <= n' * p')%nat ->
  fst (gather_sgx b64_of_pem ud
        (mkWorld (Data (CLA :: PATT_COMMAND :: PATT_OP_OP_GET :: sg)
                  :: page_answers PATT_COMMAND PATT_OP_OP_GET_MESSAGE p custom' n
                  ++ page_answers PATT_COMMAND PATT_OP_OP_GET_ENVELOPE p' env n'
                  ++ Data (CLA :: PATT_COMMAND :: PATT_OP_OP_APP_HASH :: hash) :: sc)
                 cn opn tr ci pn rp fs))
  = Ok None.
Proof.
  intros env Hs Hne We Wc Hn Hl Hn' Hl'.
  unfold gather_sgx. unfold bind.
  rewrite get_powhsm_attestation_honest by assumption.
  cbn [att_envelope att_message]. rewrite !c_fromhex_hex by assumption.
  unfold env. rewrite envelope_other_custom by assumption. reflexivity.
Qed.


(* ledger_attestation.do_attestation up to the elements added to the device certificate:
   None = AdminError (a command failed, or signer message and envelope differ) *)
Definition gather_ledger (dev att : key_info) (ud : bytes) (w_ui w_signer : world)
  : option (list celem) :=
  match fst (get_ui_attestation ud w_ui), fst (get_powhsm_attestation ud w_signer) with
  | Ok u, Ok g =>
      if negb (str_eqb (att_message g) (att_envelope g)) then None else
      Some [ mkElem (JStr (s "attestation")) (JStr (s "device")) KV1 None (hex (ki_message att))
                    (hex (ki_signature att)) [] [];
             mkElem (JStr (s "device")) (JStr (s "root")) KV1 None (hex (ki_message dev))
                    (hex (ki_signature dev)) [] [];
             mkElem (JStr (s "ui")) (JStr (s "attestation")) KV1 (Some (att_app_hash u))
                    (att_message u) (att_signature u) [] [];
             mkElem (JStr (s "signer")) (JStr (s "attestation")) KV1 (Some (att_app_hash g))
                    (att_message g) (att_signature g) [] [] ]
  | _, _ => None
  end.

Lemma str_eqb_refl (x : str) : str_eqb x x = true.
Proof. apply (bytes_eqb_refl x). Qed.

(* A genuine Ledger device: the UI app holds (ui_hash, ui_msg, ui_sig), the signer app
   (sg_hash, sg_msg, sg_sig) and serves the message also as envelope (current framing).  The
   elements gathered are those of Model.Gather.ledger_elements on exactly these values. *)
Theorem gather_ledger_honest dev att ud ui_hash ui_msg ui_sig ud_ans sg_hash sg_msg sg_sig
        (p n q m : nat) sc cn opn tr ci pn rp fs sc' cn' opn' tr' ci' pn' rp' fs' :
  (1 <= n <= N.to_nat MAX_PAGES_UI_ATT_MESSAGE)%nat -> (length ui_msg <= n * p)%nat ->
  (1 <= m)%nat -> (length sg_msg <= m * q)%nat ->
  gather_ledger dev att ud
    (mkWorld (Data (CLA :: CMD_UI_ATT :: UIATT_OP_OP_APP_HASH :: ui_hash) :: Data ud_ans
              :: page_answers CMD_UI_ATT UIATT_OP_OP_GET_MSG p ui_msg n
              ++ Data (CLA :: CMD_UI_ATT :: UIATT_OP_OP_GET :: ui_sig) :: sc)
             cn opn tr ci pn rp fs)
    (mkWorld (Data (CLA :: PATT_COMMAND :: PATT_OP_OP_GET :: sg_sig)
              :: page_answers PATT_COMMAND PATT_OP_OP_GET_MESSAGE q sg_msg m
              ++ page_answers PATT_COMMAND PATT_OP_OP_GET_ENVELOPE q sg_msg m
              ++ Data (CLA :: PATT_COMMAND :: PATT_OP_OP_APP_HASH :: sg_hash) :: sc')
             cn' opn' tr' ci' pn' rp' fs')
  = Some (ledger_elements dev att ui_msg ui_sig ui_hash sg_msg sg_sig sg_hash).
Proof.
  intros Hn Hl Hm Hl'. unfold gather_ledger.
  rewrite get_ui_attestation_honest by assumption.
  rewrite get_powhsm_attestation_honest by assumption.
  cbn [fst att_message att_envelope att_app_hash att_signature].
  rewrite str_eqb_refl. reflexivity.
Qed.

(* legacy signer framing: a single answer carries the whole "HSM:SIGNER:..." message *)
Theorem gather_ledger_honest_legacy dev att ud ui_hash ui_msg ui_sig ud_ans sg_hash rest sg_sig
        (p n : nat) sc cn opn tr ci pn rp fs sc' cn' opn' tr' ci' pn' rp' fs' :
  (1 <= n <= N.to_nat MAX_PAGES_UI_ATT_MESSAGE)%nat -> (length ui_msg <= n * p)%nat ->
  let sg_msg := PATT_LEGACY_HEADER ++ rest in
  gather_ledger dev att ud
    (mkWorld (Data (CLA :: CMD_UI_ATT :: UIATT_OP_OP_APP_HASH :: ui_hash) :: Data ud_ans
              :: page_answers CMD_UI_ATT UIATT_OP_OP_GET_MSG p ui_msg n
              ++ Data (CLA :: CMD_UI_ATT :: UIATT_OP_OP_GET :: ui_sig) :: sc)
             cn opn tr ci pn rp fs)
    (mkWorld (Data (CLA :: PATT_COMMAND :: PATT_OP_OP_GET :: sg_sig)
              :: Data (CLA :: PATT_COMMAND :: PATT_OP_OP_GET_MESSAGE :: sg_msg)
              :: Data (CLA :: PATT_COMMAND :: PATT_OP_OP_APP_HASH :: sg_hash) :: sc')
             cn' opn' tr' ci' pn' rp' fs')
  = Some (ledger_elements dev att ui_msg ui_sig ui_hash sg_msg sg_sig sg_hash).
Proof.
  intros Hn Hl sg_msg. unfold gather_ledger.
  rewrite get_ui_attestation_honest by assumption.
  unfold sg_msg. rewrite get_powhsm_attestation_legacy.
  cbn [fst att_message att_envelope att_app_hash att_signature].
  rewrite str_eqb_refl. reflexivity.
Qed.


(* ---------- a closed run with toy oracles: nothing above is vacuous ---------- *)

Module Toy.
Import C07.Examples.

Definition zeros32 : bytes := repeat 0 32.
(* a rolling checksum standing for SHA-256: every byte and the length count *)
Definition toy_hash (b : bytes) : bytes :=
  le_bytes 4 (fold_left (fun a x => (a * 31 + x + 1) mod 65521) b 7) ++ repeat 0 28.
(* the "signature" of digest d under key k: 64 bytes r || s *)
Definition toy_sign (k d : bytes) : bytes := firstn 32 (k ++ zeros32) ++ firstn 32 (d ++ zeros32).
Definition toy_verify (k d sg : bytes) : bool := bytes_eqb sg (sigencode_der (toy_sign k d)).
(* uncompressed point 04 || x || y -> x || y *)
Definition toy_key (x : str) : option bytes :=
  match fromhex x with Some (4 :: k) => Some k | _ => None end.
Definition toy_link := link_v2 toy_hash toy_verify toy_key t_parse t_sig t_now t_root.

Definition op_key : opkey := mkKey (s "m/44'/0'/0'/0/0") [4; 1; 2] [2; 1].
Definition kh : bytes := toy_hash [4; 1; 2].
Definition t_custom : bytes :=
  s "POWHSM:5.4::" ++ s "sgx" ++ repeat 17 32 ++ kh ++ repeat 34 32 ++ repeat 51 8
    ++ [0; 0; 0; 0; 0; 0; 1; 0].
Definition t_quote : bytes := repeat 1 112 ++ repeat 7 32 ++ repeat 1 32 ++ repeat 9 32
                              ++ repeat 1 160 ++ toy_hash t_custom ++ repeat 1 32.
Definition t_attkey : bytes := repeat 200 64.
Definition t_auth : bytes := [7; 8; 9].
Definition t_qeb : bytes := repeat 3 320 ++ toy_hash (t_attkey ++ t_auth) ++ repeat 3 32.
Definition t_sigq : bytes := toy_sign t_attkey (toy_hash t_quote).
Definition t_sigqe : bytes := toy_sign [2] (toy_hash t_qeb).          (* QE00's key is [2] *)
Definition t_cd : bytes := pem_block (s "QE00") ++ pem_block (s "PCA0") ++ [0].
Definition t_env : bytes :=
  mk_envelope t_quote [64; 2; 0; 0] t_sigq t_attkey t_qeb t_sigqe t_auth 5 t_cd t_custom.

Definition device (msg env : bytes) : list resp :=
  Data (CLA :: PATT_COMMAND :: PATT_OP_OP_GET :: [48; 0])
  :: page_answers PATT_COMMAND PATT_OP_OP_GET_MESSAGE 50 msg 3
  ++ page_answers PATT_COMMAND PATT_OP_OP_GET_ENVELOPE 255 env 6
  ++ [Data (CLA :: PATT_COMMAND :: PATT_OP_OP_APP_HASH :: repeat 5 32)].

(* gather, save, load, validate, verify *)
Definition run (msg env : bytes) : option sgx_report :=
  match fst (gather_sgx (fun c => c) [1; 2; 3] (world0 (device msg env) [])) with
  | Ok (Some c) =>
      match cert_to_json c with
      | Some j => match load_cert (fun x => Some x) j with
                  | LOk c' => verify_sgx toy_hash true [op_key]
                                (quote_value (validate_target toy_link c' (JStr (s "quote"))))
                  | LError => None
                  end
      | None => None
      end
  | _ => None
  end.

Example genuine_device_verifies :
  run t_custom t_env
  = Some (mkSg kh (repeat 7 32) (repeat 9 32) (powhsm_of t_custom))
  /\ pm_timestamp (powhsm_of t_custom) = 256 /\ pm_platform (powhsm_of t_custom) = s "sgx".
Proof. vm_compute. repeat split; reflexivity. Qed.

(* the same device with empty QE auth data (0 bytes): gathered, saved, loaded, verified *)
Definition t_qeb0 : bytes := repeat 3 320 ++ toy_hash (t_attkey ++ []) ++ repeat 3 32.
Definition t_env0 : bytes :=
  mk_envelope t_quote [64; 2; 0; 0] t_sigq t_attkey t_qeb0 (toy_sign [2] (toy_hash t_qeb0)) [] 5
              t_cd t_custom.
Example genuine_device_empty_auth_verifies :
  run t_custom t_env0 = Some (mkSg kh (repeat 7 32) (repeat 9 32) (powhsm_of t_custom)).
Proof. vm_compute. reflexivity. Qed.

Fixpoint set_nth (i : nat) (v : N) (l : bytes) : bytes :=
  match l, i with
  | [], _ => []
  | _ :: r, O => v :: r
  | x :: r, S i' => x :: set_nth i' v r
  end.

(* single-point alterations of the device's answers: a byte of the quote, of the custom
   message (in the message or in the envelope), of the quote signature, of the attestation
   key, of the QE report body, of its signature, of the auth data, of either certificate.
   (The two size fields are left alone here: an altered size can be ~2^31, which this
   executable model would expand into a unary number; envelope_truncated / envelope_extended /
   parse_envelope_length cover them.) *)
Example alterations_fail :
  forallb (fun i => match run t_custom (set_nth i 77 t_env) with None => true | Some _ => false end)
          [5; 120; 400; 440; 470; 510; 550; 600; 900; 940; 960; 1000; 1015; 1052; 1111;
           1200]%nat = true
  /\ run (set_nth 60 77 t_custom) t_env = None
  /\ run t_custom (removelast t_env) = None.
Proof. vm_compute. repeat split; reflexivity. Qed.

End Toy.

