(* C10 / C18 statements carried over to ledger/pin.py as translated from the source text. *)
From PowHsm Require Import Gen.Src Model.Pin Proofs.SrcEquivPin Proofs.C10.

Lemma pok_vbool_inj : forall a b : bool, @POk pv (VBool a) = POk (VBool b) <-> a = b.
Proof. intros a b; split; intro H; [inversion H; reflexivity | subst; reflexivity]. Qed.


(* ---------- C10 / C18: the PIN policy as written in ledger/pin.py ---------- *)

Theorem src_pin_policy_iff : forall (cls : pv) (p : bytes),
  wf_bytes p ->
  (src_BasePin__is_valid cls (VBytes p) (VBool false) = POk (VBool true) <->
   length p = 8%nat /\ Forall alnum p /\ Exists alpha p).
Proof.
  intros cls p Hwf. rewrite (src_pin_is_valid_ok cls p false Hwf), pok_vbool_inj.
  apply pin_is_valid_spec.
Qed.

Theorem src_pin_any_policy_iff : forall (cls : pv) (p : bytes),
  wf_bytes p ->
  (src_BasePin__is_valid cls (VBytes p) (VBool true) = POk (VBool true) <-> Forall alnum p).
Proof.
  intros cls p Hwf. rewrite (src_pin_is_valid_ok cls p true Hwf), pok_vbool_inj.
  apply pin_is_valid_any_spec.
Qed.
