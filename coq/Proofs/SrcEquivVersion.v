(* Refinement lemmas: ledger/version.py as translated from the source text. *)
From PowHsm Require Import Gen.Src Model.Bringup.
From PowHsm Require Import Proofs.ValLemmas.

(* ---------- ledger/version.py ---------- *)

Definition ver_obj (v : N * N * N) : pv :=
  let '(a, b, c) := v in
  VObj "HSM2FirmwareVersion" [("patch", VInt (Z.of_N c)); ("minor", VInt (Z.of_N b)); ("major", VInt (Z.of_N a))].

Lemma src_version_init_ok : forall a b c : N,
  src_HSM2FirmwareVersion____init__ (VObj "HSM2FirmwareVersion" []) (VInt (Z.of_N a)) (VInt (Z.of_N b)) (VInt (Z.of_N c)) =
  POk (ver_obj (a, b, c)).
Proof. intros a b c. reflexivity. Qed.

Lemma ver_major (a b c : N) : py_getattr (ver_obj (a, b, c)) "major" = POk (VInt (Z.of_N a)).
Proof. reflexivity. Qed.
Lemma ver_minor (a b c : N) : py_getattr (ver_obj (a, b, c)) "minor" = POk (VInt (Z.of_N b)).
Proof. reflexivity. Qed.
Lemma ver_patch (a b c : N) : py_getattr (ver_obj (a, b, c)) "patch" = POk (VInt (Z.of_N c)).
Proof. reflexivity. Qed.

Lemma src_version_supports_ok : forall mw fw : N * N * N,
  src_HSM2FirmwareVersion__supports (ver_obj mw) (ver_obj fw) = POk (VBool (supports mw fw)).
Proof.
  intros [[M1 m1] p1] [[M2 m2] p2]. unfold src_HSM2FirmwareVersion__supports, supports.
  rewrite !ver_major, !ver_minor, !ver_patch. cbn [pbind].
  rewrite py_eq_int, !py_cmp_int, Zeqb_N, Zleb_N, Zltb_N, Zleb_N.
  cbn [vbool pmap].
  destruct (M1 =? M2); cbn [py_and py_truth andb]; [|reflexivity].
  destruct (m2 <=? m1); cbn [py_and py_truth andb]; [|reflexivity].
  destruct (m2 <? m1); cbn [py_or py_truth orb]; reflexivity.
Qed.

Lemma src_version_ge_ok : forall mw fw : N * N * N,
  src_HSM2FirmwareVersion____ge__ (ver_obj mw) (ver_obj fw) = POk (VBool (supports mw fw)).
Proof. intros mw fw. exact (src_version_supports_ok mw fw). Qed.

Lemma src_version_eq_ok : forall a b : N * N * N,
  src_HSM2FirmwareVersion____eq__ (ver_obj a) (ver_obj b) =
  POk (VBool (let '(a1, a2, a3) := a in let '(b1, b2, b3) := b in (a1 =? b1) && (a2 =? b2) && (a3 =? b3))).
Proof.
  intros [[a1 a2] a3] [[b1 b2] b3]. unfold src_HSM2FirmwareVersion____eq__.
  rewrite !ver_major, !ver_minor, !ver_patch. cbn [pbind].
  rewrite !py_eq_int, !Zeqb_N. cbn [vbool pmap].
  destruct (a1 =? b1); cbn [py_and py_truth andb]; [|reflexivity].
  destruct (a2 =? b2); cbn [py_and py_truth andb]; reflexivity.
Qed.

