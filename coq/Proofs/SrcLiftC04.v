(* C04 "codes 0 and 1 are returned only when the device reported total or partial success", carried over to the
   handlers AS TRANSLATED from the source: if the translated _advance_blockchain (resp. _update_ancestor_block)
   answers 0 or 1, the device operation underneath returned (True, OK_TOTAL / OK_PARTIAL) - in the very world the
   handler ends in. *)
From PowHsm Require Import Gen.SrcM Model.Dongle Model.LedgerProtocol.
From PowHsm Require Import Proofs.ValLemmas Proofs.SrcEquivLedger Proofs.SrcEquivDongleM Proofs.SrcEquivProtoM
  Proofs.SrcEquivBlockM Proofs.SrcEquivBlockProtoM.
From PowHsm Require Proofs.C04.

Section WithEnv.
Variable keccak : bytes -> bytes.
Variable kind : dongle_kind.
Variable init : pm pv.
Variable cm : string -> pv -> list pv -> pr pv.

Lemma rtuple_pv_code : forall (r : rtuple) (c : Z) (rest : list pv),
  rtuple_pv r = VList (VInt c :: rest) -> fst r = c.
Proof. intros [c0 [o|]] c rest H; cbn in H; inversion H; reflexivity. Qed.

Theorem src_advance_ok_only_from_device_success :
  forall fuel self (req : obj) blocks brothers w c rest w',
  init_ok kind init -> block_oracles_ok keccak cm -> keccak_wf keccak ->
  jget (s "blocks") req = Some (jstrs blocks) ->
  jget (s "brothers") req = Some (JArr (map jstrs brothers)) ->
  fuel_ok kind fuel w ->
  srcm_HSM2ProtocolLedger___advance_blockchain fuel cm init self (of_obj req) w = (XOk (VList (VInt c :: rest)), w') ->
  c = V5_ERROR_CODE_OK \/ c = V5_ERROR_CODE_OK_PARTIAL ->
  exists bl br w1,
    advance_blockchain keccak bl br w1
    = (Ok (true, if (c =? V5_ERROR_CODE_OK)%Z then RESP_ADV_OK_TOTAL else RESP_ADV_OK_PARTIAL), w').
Proof.
  intros fuel self req blocks brothers w c rest w' Hi Hb Hk Hbl Hbr Hf H Hc.
  rewrite (srcm_advance_blockchain_handler_ok keccak kind init cm fuel self req blocks brothers w Hi Hb Hk Hbl Hbr Hf) in H.
  unfold mres in H. destruct (op_advance keccak kind req w) as [[[c0 out]|e] w1] eqn:E; cbn [fst snd] in H;
    [|discriminate H].
  inversion H as [[Hv Hw]]. subst w1.
  pose proof (rtuple_pv_code (c0, out) c rest Hv) as Hc0. cbn [fst] in Hc0. subst c0.
  exact (C04.advance_ok_only_from_device_success keccak kind req w c out w' E Hc).
Qed.

Theorem src_update_ancestor_ok_only_from_device_success :
  forall fuel self (req : obj) blocks w c rest w',
  init_ok kind init -> block_oracles_ok keccak cm ->
  jget (s "blocks") req = Some (jstrs blocks) ->
  fuel_ok kind fuel w ->
  srcm_HSM2ProtocolLedger___update_ancestor_block fuel cm init self (of_obj req) w = (XOk (VList (VInt c :: rest)), w') ->
  c = V5_ERROR_CODE_OK \/ c = V5_ERROR_CODE_OK_PARTIAL ->
  c = V5_ERROR_CODE_OK /\
  exists bl w1, update_ancestor bl w1 = (Ok (true, RESP_UPD_OK_TOTAL), w').
Proof.
  intros fuel self req blocks w c rest w' Hi Hb Hbl Hf H Hc.
  rewrite (srcm_update_ancestor_handler_ok keccak kind init cm fuel self req blocks w Hi Hb Hbl Hf) in H.
  unfold mres in H. destruct (op_update_ancestor kind req w) as [[[c0 out]|e] w1] eqn:E; cbn [fst snd] in H;
    [|discriminate H].
  inversion H as [[Hv Hw]]. subst w1.
  pose proof (rtuple_pv_code (c0, out) c rest Hv) as Hc0. cbn [fst] in Hc0. subst c0.
  exact (C04.update_ancestor_ok_only_from_device_success kind req w c out w' E Hc).
Qed.

End WithEnv.
