(* Refinement theorem for the whole request path of the legacy (version 1) protocol layer:
   __internal_handle_request of comm/protocol_v1.py, translated for the concrete class HSM1ProtocolLedger in the
   device monad (Gen/SrcM.v) - the gate's checks, the validation dispatch in its state-threading variant (the
   request as the validator left it, "keyId" replaced by the parsed path, is what the handler receives), the
   dispatch over the three handlers as translated and the assembly of the reply - runs on every JSON request and
   every world exactly as the model's handle_request in mode V1. *)
From PowHsm Require Import Gen.Src Gen.SrcM Model.Dongle Model.LedgerProtocol.
From PowHsm Require Import Proofs.ValLemmas Proofs.SrcEquivBase Proofs.SrcEquivProto Proofs.SrcEquivLedger
  Proofs.SrcEquivDongleM Proofs.SrcEquivProtoM Proofs.SrcEquivProtoV1M.
From PowHsm Require Proofs.C02.
From PowHsm Require Import Proofs.ValLemmasGateM Proofs.ValLemmasGateV1M.

Section WithEnv.
Variable keccak : bytes -> bytes.
Variable kind : dongle_kind.
Variable init : pm pv.
Variable cm : string -> pv -> list pv -> pr pv.

Definition path_oracle_ok_v1 : Prop :=
  forall els : list N, cm "to_binary" (path_obj els) [] = POk (VBytes (path_to_binary els)).

(* the model's table lookups for a literal command *)
Ltac pick opn op :=
  match goal with |- context [assoc_str ?c DISPATCH_V1] =>
    change (assoc_str c DISPATCH_V1) with (Some opn) end; cbv iota beta;
  match goal with |- context [run_operation ?k ?kd V1 ?o ?r] =>
    change (run_operation k kd V1 o r) with (Some op) end; cbv iota beta.

(* which validator ran, and its verdict *)
Ltac validator_is vname val :=
  match goal with
  | Hn : validator_name V1 ?c = Some ?vn, Hr : run_validator V1 ?vn ?req = Some ?v |- _ =>
      change (validator_name V1 c) with (Some vname) in Hn; injection Hn as <-;
      change (run_validator V1 vname req) with (Some val) in Hr; injection Hr as <-
  end.

Theorem srcm_handle_request_v1_ok : forall (self : pv) (request : json) (w : world),
  init_ok kind init -> path_oracle_ok_v1 ->
  srcm_HSM1ProtocolLedger____internal_handle_request cm init self (of_json request) w =
  mres of_json (handle_request keccak kind V1 request w).
Proof.
  intros self request w Hinit Hpath.
  rewrite srcm_gate_v1. unfold handle_request.
  destruct (gate_request V1 request) as [c|e|cmd req] eqn:G; [reflexivity|reflexivity|].
  destruct (C02.accept_runs_validated V1 request cmd req G) as (_ & _ & _ & Hin & vn & v & Hn & Hr & Hv).
  assert (Hv' : (v <? 0)%Z = false) by (apply Z.ltb_ge; exact Hv).
  clear Hv G.
  unfold known_commands, KNOWN_COMMANDS_V1 in Hin. cbn [In] in Hin.
  destruct Hin as [<-|[<-|[<-|[]]]].
  - (* version *)
    pick (s "_version") (@ret rtuple (0%Z, Some [(KEY_VERSION, JInt (c_version (codes_of V1)))])).
    apply gate_tail_m_ok; [reflexivity|]. apply noerr_ret_some. reflexivity.
  - (* sign *)
    pick (s "_sign") (op_sign_v1 kind req).
    validator_is (s "_validate_sign") (validate_sign_v1 (codes_of V1) req).
    apply gate_tail_m_ok; [|apply noerr_sign_v1].
    change (operation_dispatch_HSM1ProtocolLedger cm init self (VStr (s "sign")) (st_request (s "sign") req))
      with (srcm_HSM1ProtocolLedger___sign cm init self (req_after_keyid req)).
    destruct (req_after_keyid_ok_v1 req (sign_key_ok_v1 req Hv')) as (x & els & Hk & Hp & ->).
    destruct (sign_message_shape_v1 req Hv') as (h & Hm).
    exact (srcm_v1_sign_ok kind init cm self req x h els w Hinit Hk Hp Hm (Hpath els)).
  - (* getPubKey *)
    pick (s "_get_pubkey") (op_get_pubkey kind V1 req).
    validator_is (s "_validate_get_pubkey") (validate_key_id (codes_of V1) req).
    apply gate_tail_m_ok; [|apply noerr_get_pubkey_v1].
    change (operation_dispatch_HSM1ProtocolLedger cm init self (VStr (s "getPubKey")) (st_request (s "getPubKey") req))
      with (srcm_HSM1ProtocolLedger___get_pubkey cm init self (req_after_keyid req)).
    destruct (req_after_keyid_ok_v1 req Hv') as (x & els & Hk & Hp & ->).
    exact (srcm_v1_get_pubkey_ok kind init cm self req x els w Hinit Hk Hp (Hpath els)).
Qed.

End WithEnv.
