(* Facts about the monadic value kit (Model/ValM.v) used by Proofs/SrcEquivDongleM.v: how the combinators
   of pm run, what one device exchange of the translated code is in terms of the model's send_command,
   and the pure operations on bytes objects / small ints the translated HSM2Dongle methods use. *)
From PowHsm Require Import Gen.SrcM Model.Dongle Model.Sign.
From PowHsm Require Export Proofs.ValLemmas Proofs.ValLemmasAdmin Proofs.SrcEquivVersion.
From Coq Require Export Lia.
Open Scope N_scope.

(* ---------- running the combinators ---------- *)

Lemma mbind_ret {A B} (a : A) (k : A -> pm B) (w : world) : mbind (mret a) k w = k a w.
Proof. reflexivity. Qed.

Lemma mbind_assoc {A B C} (m : pm A) (k1 : A -> pm B) (k2 : B -> pm C) (w : world) :
  mbind (mbind m k1) k2 w = mbind m (fun a => mbind (k1 a) k2) w.
Proof. unfold mbind. destruct (m w) as [[a|e|] w']; reflexivity. Qed.

Lemma mbind_lift {A B} (p : pr A) (k : A -> pm B) (w : world) :
  mbind (lift p) k w =
  match p with POk a => k a w | PRaise e => (XRaise (Py e), w) | PStuck => (XStuck, w) end.
Proof. unfold mbind, lift. destruct p; reflexivity. Qed.

Lemma lift_run {A} (p : pr A) (w : world) :
  lift p w = (match p with POk a => XOk a | PRaise e => XRaise (Py e) | PStuck => XStuck end, w).
Proof. reflexivity. Qed.

(* ---------- one exchange ---------- *)

Lemma m_send_run (c : N) (d : bytes) (w : world) :
  MV.m_send_command (VInt (Z.of_N c)) (VBytes d) w =
  match send_command c d w with (Ok r, w') => (XOk (VBytes r), w') | (Exn e, w') => (XRaise e, w') end.
Proof.
  unfold MV.m_send_command. cbn [vint].
  destruct (Z.ltb_spec (Z.of_N c) 0) as [H|H]; [lia|].
  rewrite N2Z.id. unfold MV.pmap, of_M, mbind, mret.
  destruct (send_command c d w) as [[r|e] w']; reflexivity.
Qed.

Lemma mbind_send {B} (c : N) (d : bytes) (k : pv -> pm B) (w : world) :
  mbind (MV.m_send_command (VInt (Z.of_N c)) (VBytes d)) k w =
  match send_command c d w with (Ok r, w') => k (VBytes r) w' | (Exn e, w') => (XRaise e, w') end.
Proof.
  unfold mbind. rewrite m_send_run. destruct (send_command c d w) as [[r|e] w']; reflexivity.
Qed.

(* a successful exchange consumed one script item *)
Lemma send_ok_script (c : N) (d r : bytes) (w w' : world) :
  send_command c d w = (Ok r, w') -> length (script w) = S (length (script w')).
Proof.
  unfold send_command. destruct (script w) as [|x rest] eqn:E; intros H; inversion H. reflexivity.
Qed.

(* ---------- bytes(...) ---------- *)

Lemma py_bytes_one (op : N) : op < 256 -> MV.py_bytes (VList [VInt (Z.of_N op)]) = mret (VBytes [op]).
Proof.
  intros H. unfold MV.py_bytes. cbn [map vint all_some].
  destruct (Z.leb_spec 0 (Z.of_N op)) as [H1|H1]; [|lia].
  destruct (Z.ltb_spec (Z.of_N op) 256) as [H2|H2]; [|lia].
  cbn [andb all_some]. rewrite N2Z.id. reflexivity.
Qed.

(* ---------- indexing a bytes object ---------- *)

Lemma getitem_idx (r : bytes) (i : Z) :
  (0 <= i)%Z ->
  py_getitem (VBytes r) (VInt i) =
  match idx r (Z.to_nat i) with Some x => POk (VInt (Z.of_N x)) | None => PRaise IndexError end.
Proof. intros H. unfold idx. apply py_getitem_bytes. exact H. Qed.

(* ---------- membership in a list of small ints ---------- *)

Lemma py_in_N_list (x : N) (l : list N) :
  py_in (VInt (Z.of_N x)) (VList (map (fun n => VInt (Z.of_N n)) l)) = POk (mem_N x l).
Proof.
  unfold py_in. induction l as [|y l IH]; [reflexivity|].
  cbn [map mem_N]. rewrite py_eq_int, Zeqb_N. destruct (x =? y); [reflexivity|]. cbn [orb]. exact IH.
Qed.

Lemma py_not_in_N_list (x : N) (l : list N) :
  py_not_in (VInt (Z.of_N x)) (VList (map (fun n => VInt (Z.of_N n)) l)) = POk (negb (mem_N x l)).
Proof. unfold py_not_in. rewrite py_in_N_list. reflexivity. Qed.

(* ---------- slices data[o : o + req] against the model's remaining data ---------- *)

Lemma firstn_sat {A} (l : list A) (n : nat) : firstn n l = firstn (Nat.min n (length l)) l.
Proof.
  destruct (Nat.le_gt_cases n (length l)) as [H|H].
  - rewrite Nat.min_l by exact H. reflexivity.
  - rewrite Nat.min_r by lia. rewrite firstn_all, firstn_all2 by lia. reflexivity.
Qed.

Lemma chunk_take (req : N) (rem : bytes) :
  firstn (Z.to_nat (Z.of_N req)) rem = firstn (N.to_nat (N.min req (nlen rem))) rem.
Proof.
  rewrite (firstn_sat rem (Z.to_nat (Z.of_N req))). f_equal. unfold nlen. lia.
Qed.

Lemma chunk_take_length (req : N) (rem : bytes) :
  length (firstn (N.to_nat (N.min req (nlen rem))) rem) = N.to_nat (N.min req (nlen rem)).
Proof. rewrite firstn_length. unfold nlen. lia. Qed.

(* ---------- exception classes ---------- *)

Lemma isa_error_result (e : exn) :
  exn_isa e EXC_HSM2DongleErrorResult = match e with ErrorResult _ => true | _ => false end.
Proof. destruct e; reflexivity. Qed.

(* an exchange raises dongle errors only, never a Python built-in exception *)
Lemma send_exn_not_py (c : N) (d : bytes) (w w' : world) (x : pyexc) :
  send_command c d w <> (Exn (Py x), w').
Proof.
  unfold send_command. destruct (script w) as [|r rest]; [intros H; inversion H|].
  destruct r as [b|sw| | | |]; cbn [classify]; try (intros H; inversion H; fail).
  destruct (user_defined sw); intros H; inversion H.
Qed.

Lemma mret_run {A} (a : A) (w : world) : mret a w = (XOk a, w).
Proof. reflexivity. Qed.
Lemma mraise_run {A} (e : exn) (w : world) : @mraise A e w = (XRaise e, w).
Proof. reflexivity. Qed.
Lemma mstuck_run {A} (w : world) : @mstuck A w = (XStuck, w).
Proof. reflexivity. Qed.

(* ---------- + and len on bytes objects and lists ---------- *)

Lemma py_add_bytes (a b : bytes) : py_add (VBytes a) (VBytes b) = POk (VBytes (a ++ b)).
Proof. reflexivity. Qed.
Lemma py_add_list (a b : list pv) : py_add (VList a) (VList b) = POk (VList (a ++ b)).
Proof. reflexivity. Qed.
Lemma py_len_bytes (b : bytes) : py_len (VBytes b) = POk (VInt (Z.of_nat (length b))).
Proof. reflexivity. Qed.

(* ---------- symbolic execution of a translated method, head first ---------- *)

(* the monadic namesakes of module MV in terms of mbind / mret / lift *)
Ltac mv_unfold :=
  unfold MV.pbind, MV.POk, MV.PRaise, MV.PRaiseX, MV.PStuck, MV.vbool, MV.pmap, MV.pif, MV.py_and, MV.py_not,
         MV.py_eq, MV.py_ne, MV.py_cmp, MV.py_in, MV.py_not_in, MV.py_len, MV.py_getitem, MV.py_slice,
         MV.py_slice_v, MV.py_add, MV.py_enum_of, MV.py_fromhex, MV.py_hex;
  unfold MV.pmap.

(* right-nest the binds, run the returns *)
Ltac mnorm :=
  cbv beta iota;
  repeat (first [rewrite mbind_assoc | rewrite mbind_ret | rewrite mret_run | rewrite mraise_run ]; cbv beta iota).

Ltac mgo := repeat progress (mnorm; cbn [py_truth negb]).

(* expose the pure computation / the exchange at the head of the program *)
Ltac rw_lift := match goal with |- context [mbind (lift ?p) ?k ?w] => rewrite (mbind_lift p k w) end.
Ltac rw_send c := match goal with |- context [mbind (MV.m_send_command (VInt ?z) (VBytes ?d)) ?k ?w] =>
  rewrite (mbind_send c d k w : mbind (MV.m_send_command (VInt z) (VBytes d)) k w = _) end.
