(* Refinement theorems for the device-monad backend: the PIN, onboarding and signer-authorization commands of
   HSM2Dongle (ledger/hsm2dongle.py) as translated from the Python source text (Gen/SrcM.v) run on every world
   exactly as the hand-written models of Model/Dongle.v (Ledger flavour): same result or exception, same
   final world (the same APDUs in the same order). *)
From PowHsm Require Import Gen.SrcM Model.Dongle.
From PowHsm Require Import Proofs.ValLemmas Proofs.SrcEquivDongleM.
From PowHsm Require Import Proofs.ValLemmasPinM.
From Coq Require Import Lia.

(* a PIN / seed as the code receives it: a bytes object of at most 255 well-formed bytes *)
Definition small_bytes (b : bytes) : Prop := wf_bytes b /\ (length b < 256)%nat.

(* ---------- proof kit ---------- *)

Ltac munf := unfold MV.pbind, MV.pif, MV.vbool, MV.pmap, MV.POk, MV.PRaiseX, MV.PStuck, MV.py_or, MV.py_len,
  MV.py_getitem, MV.py_add, MV.py_range, MV.py_enumerate, MV.py_eq, MV.py_ne, MV.py_getattr, MV.py_fromhex,
  MV.py_to_bytes_be.

Lemma send_pin_false (self : pv) (l : bytes) (w : world) :
  wf_bytes l -> (length l <= 256)%nat ->
  srcm_HSM2Dongle___send_pin self (VBytes l) (VBool false) w = mres (fun _ => VNone) (send_pin_bytes 0 l w).
Proof.
  intros Hwf Hlen. unfold srcm_HSM2Dongle___send_pin. munf.
  rewrite mbind_ret. cbv beta. rewrite mbind_ret. cbn [py_truth].
  rewrite mbind_assoc.
  rewrite (mbind_lift_ok _ (VInt (Z.of_nat (length l)))) by reflexivity.
  rewrite (mbind_lift_ok _ _ _ _ (py_range_nat _)).
  apply mbind_mres_map with (g := fun _ : unit => VList []); [|intros a w1; reflexivity].
  rewrite py_for_list, range_items, send_pin_bytes_idx.
  apply (fun Hbody => pfold_send_idx CMD_SEND_PIN (fun i _ => VInt (Z.of_nat i)) _ l Hbody Hwf Hlen l [] w eq_refl).
  intros i b w0 Hi Hb Hnth. cbv beta iota.
  rewrite !mbind_assoc.
  rewrite (mbind_lift_ok _ (VInt (Z.of_N b))) by (rewrite py_getitem_bytes_nat, Hnth; reflexivity).
  rewrite mbind_ret. rewrite (py_bytes_nat_N i b Hi Hb). rewrite mbind_ret.
  apply mbind_mres_map with (g := VBytes); [|intros a w1; reflexivity].
  apply (m_send_spec CMD_SEND_PIN).
Qed.

Lemma send_pin_true (self : pv) (pin : bytes) (w : world) :
  (length pin < 256)%nat ->
  srcm_HSM2Dongle___send_pin self (VBytes pin) (VBool true) w =
  srcm_HSM2Dongle___send_pin self (VBytes (nlen pin :: pin)) (VBool false) w.
Proof.
  intros Hlen. unfold srcm_HSM2Dongle___send_pin at 1. munf.
  rewrite mbind_ret. cbv beta. rewrite mbind_ret. cbn [py_truth].
  rewrite !mbind_assoc.
  rewrite (mbind_lift_ok _ (VInt (Z.of_nat (length pin)))) by reflexivity.
  rewrite mbind_ret. rewrite (py_bytes_nat1 _ Hlen). rewrite mbind_ret.
  rewrite (mbind_lift_ok _ (VBytes (nlen pin :: pin))) by reflexivity.
  reflexivity.
Qed.

Ltac mstep := repeat (rewrite mbind_assoc || rewrite mbind_ret); cbv beta.

(* ---------- the theorems ---------- *)

Theorem srcm_send_pin_ok : forall (self : pv) (pin : bytes) (prepend : bool) (w : world),
  small_bytes pin ->
  srcm_HSM2Dongle___send_pin self (VBytes pin) (VBool prepend) w = mres (fun _ => VNone) (send_pin pin prepend w).
Proof.
  intros self pin prepend w [Hwf Hlen]. unfold send_pin. destruct prepend.
  - rewrite (send_pin_true self pin w Hlen). apply send_pin_false.
    + constructor; [unfold nlen; lia|exact Hwf].
    + cbn [length]. lia.
  - apply send_pin_false; [exact Hwf|lia].
Qed.

Theorem srcm_unlock_ok : forall (self : pv) (pin : bytes) (w : world),
  small_bytes pin ->
  srcm_HSM2Dongle__unlock self (VBytes pin) w = mres VBool (unlock KLedger pin w).
Proof.
  intros self pin w Hs. unfold srcm_HSM2Dongle__unlock, unlock. munf.
  apply mbind_sim with (g := fun _ : unit => VNone); [apply srcm_send_pin_ok; exact Hs|].
  intros _ w1. mstep.
  change (MV.py_bytes (VList [VInt 0%Z; VInt 0%Z])) with (mret (A:=pv) (VBytes [0; 0])). mstep.
  apply mbind_sim with (g := VBytes); [apply (m_send_spec CMD_UNLOCK)|].
  intros r w2. apply (m_getitem_idx r 2). intros b w3.
  rewrite (mbind_lift_ok _ _ _ _ (py_ne_N b 0)). reflexivity.
Qed.

Theorem srcm_new_pin_ok : forall (self : pv) (pin : bytes) (w : world),
  small_bytes pin ->
  srcm_HSM2Dongle__new_pin self (VBytes pin) w = mres VBool (new_pin KLedger pin w).
Proof.
  intros self pin w Hs. unfold srcm_HSM2Dongle__new_pin, new_pin. munf.
  apply ptry_k_sim with (g := fun a : bool => VList [VInt 2%Z; VBool a]).
  - apply mbind_sim with (g := fun _ : unit => VNone); [apply srcm_send_pin_ok; exact Hs|].
    intros _ w1.
    apply mbind_sim with (g := VBytes); [apply (m_send_spec CMD_CHANGE_PIN)|].
    intros _ w2. reflexivity.
  - intros a w1. reflexivity.
  - intros e w1. destruct e as [sw| | | | | | | |pe]; try reflexivity.
    change (existsb (xpat_matches (ErrorResult sw)) [XCls EXC_HSM2DongleErrorResult]) with true. cbv iota.
    cbn [MV.m_error_code]. mstep.
    change (VInt 27040%Z) with (VInt (Z.of_N ERR_UI_INVALID_PIN)).
    rewrite (mbind_lift_ok _ _ _ _ (py_eq_N sw ERR_UI_INVALID_PIN)). mstep. cbn [py_truth].
    destruct (sw =? ERR_UI_INVALID_PIN); reflexivity.
Qed.

Theorem srcm_onboard_ok : forall (self : pv) (seed pin : bytes) (w : world),
  small_bytes pin -> wf_bytes seed ->
  srcm_HSM2Dongle__onboard self (VBytes seed) (VBytes pin) w = mres VBool (onboard KLedger seed pin w).
Proof.
  intros self seed pin w Hs Hwf. unfold srcm_HSM2Dongle__onboard, onboard. munf.
  cbn [py_type]. mstep.
  rewrite (mbind_lift_ok _ false) by reflexivity. mstep. cbn [py_truth]. mstep.
  rewrite (mbind_lift_ok _ (VInt (Z.of_nat (length seed)))) by reflexivity.
  change (VInt 32%Z) with (VInt (Z.of_N ONB_SEED_LENGTH)).
  mstep. rewrite (mbind_lift_ok _ _ _ _ (py_ne_nat_N _ _)). mstep. cbn [py_truth]. unfold nlen.
  destruct (N.of_nat (length seed) =? ONB_SEED_LENGTH) eqn:El; cbn [negb]; [|reflexivity].
  assert (Hlen : (length seed <= 256)%nat).
  { apply N.eqb_eq in El. unfold ONB_SEED_LENGTH in El. lia. }
  rewrite (mbind_lift_ok _ _ _ _ (py_enumerate_bytes seed)).
  apply mbind_sim with (g := fun _ : unit => VList []).
  - rewrite py_for_list, send_seed_bytes_idx.
    apply (fun Hbody => pfold_send_idx CMD_SEED (fun i b => VList [VInt (Z.of_nat i); VInt (Z.of_N b)]) _ seed
                                       Hbody Hwf Hlen seed [] w eq_refl).
    intros i b w0 Hi Hb _. cbv beta iota. mstep.
    rewrite (py_bytes_nat_N i b Hi Hb). mstep.
    apply mbind_mres_map with (g := VBytes); [|intros a w1; reflexivity].
    apply (m_send_spec CMD_SEED).
  - intros _ w1. cbv iota.
    apply mbind_sim with (g := fun _ : unit => VNone); [apply srcm_send_pin_ok; exact Hs|].
    intros _ w2.
    apply mbind_sim with (g := VBytes); [apply (m_send_spec CMD_WIPE)|].
    intros r w3. rewrite mbind_assoc. apply (m_getitem_idx r 1). intros b w4. mstep.
    change (VInt 2%Z) with (VInt (Z.of_N 2)).
    rewrite (mbind_lift_ok _ _ _ _ (py_ne_N b 2)). mstep. cbn [py_truth].
    destruct (b =? 2); reflexivity.
Qed.

(* authorize_signer: the authorization object is seen through its three attributes *)
Definition sauth_obj (hash_hex : str) (iteration : Z) (sig_hexes : list str) : pv :=
  VObj "SignerAuthorization"
       [("signer_version", VObj "SignerVersion" [("hash", VStr hash_hex); ("iteration", VInt iteration)]);
        ("signatures", VList (map VStr sig_hexes))].

Theorem srcm_authorize_signer_ok : forall (self : pv) (hash_hex : str) (iteration : Z) (sig_hexes : list str)
                                          (hash : bytes) (sigs : list bytes) (w : world),
  fromhex hash_hex = Some hash -> all_some (map fromhex sig_hexes) = Some sigs ->
  srcm_HSM2Dongle__authorize_signer self (sauth_obj hash_hex iteration sig_hexes) w =
  mres VBool (authorize_signer hash iteration sigs w).
Proof.
  intros self hash_hex iteration sig_hexes hash sigs w Hh Hs.
  unfold srcm_HSM2Dongle__authorize_signer, authorize_signer. munf. mstep.
  change (MV.py_bytes (VList [VInt 1%Z])) with (mret (A:=pv) (VBytes [1])). mstep.
  rewrite (mbind_lift_ok _ (VObj "SignerVersion" [("hash", VStr hash_hex); ("iteration", VInt iteration)]))
    by reflexivity. cbv beta.
  rewrite (mbind_lift_ok _ (VStr hash_hex)) by reflexivity. cbv beta.
  rewrite (mbind_lift_ok _ (VBytes hash)) by (cbn [py_fromhex]; rewrite Hh; reflexivity). cbv beta.
  rewrite (mbind_lift_ok _ (VBytes (1 :: hash))) by reflexivity. cbv beta. mstep.
  rewrite (mbind_lift_ok _ (VObj "SignerVersion" [("hash", VStr hash_hex); ("iteration", VInt iteration)]))
    by reflexivity. cbv beta.
  rewrite (mbind_lift_ok _ (VInt iteration)) by reflexivity. cbv beta.
  mstep. rewrite mbind_lift, to_bytes_be_py.
  unfold bind at 1. change (N.to_nat SIGNER_AUTH_ITERATION_SIZE) with 2%nat.
  destruct (to_bytes_be 2 iteration) as [it|]; [|reflexivity].
  unfold of_opt, ret.
  rewrite (mbind_lift_ok _ (VBytes (SAUTH_OP_OP_SIGVER :: hash ++ it))) by reflexivity. cbv beta.
  apply mbind_sim with (g := VBytes); [apply (m_send_spec CMD_SIGNER_AUTH)|].
  intros _ w1. mstep.
  rewrite (mbind_lift_ok _ (VList (map VStr sig_hexes))) by reflexivity. cbv beta.
  rewrite py_for_t_list.
  apply (pfold_t_sigs _ _) with (last := None); [| | |exact Hs].
  - intros last hx sg w2 Ehx. cbv beta iota. mstep.
    change (MV.py_bytes (VList [VInt 2%Z])) with (mret (A:=pv) (VBytes [2])). mstep.
    rewrite (mbind_lift_ok _ (VBytes sg)) by (cbn [py_fromhex]; rewrite Ehx; reflexivity). cbv beta.
    rewrite (mbind_lift_ok _ (VBytes (SAUTH_OP_OP_SIGN :: sg))) by reflexivity. cbv beta.
    rewrite (mbind_mres _ _ _ _ _ (m_send_spec CMD_SIGNER_AUTH _ _)).
    destruct (send_command CMD_SIGNER_AUTH (SAUTH_OP_OP_SIGN :: sg) w2) as [[r|e] w3]; [|reflexivity].
    change (VInt 3%Z) with (VInt (Z.of_nat 3)). rewrite mbind_lift. rewrite (py_getitem_bytes_nat r 3).
    destruct (nth_error r 3) as [b|]; [|reflexivity].
    mstep. rewrite (mbind_lift_ok _ _ _ _ (py_eq_N b SAUTH_OP_OP_SIGN_RES_SUCCESS)). mstep. cbn [py_truth].
    destruct (b =? SAUTH_OP_OP_SIGN_RES_SUCCESS); reflexivity.
  - intros w2. reflexivity.
  - intros [r|] w2; cbn [optv send_signatures]; cbv iota; mstep.
    + rewrite (mbind_lift_ok _ _ _ _ (py_ne_N r SAUTH_OP_OP_SIGN_RES_SUCCESS)). mstep. cbn [py_truth].
      destruct (r =? SAUTH_OP_OP_SIGN_RES_SUCCESS); reflexivity.
    + reflexivity.
Qed.
