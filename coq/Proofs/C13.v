(* C13: query replies report the device's data verbatim. *)
From PowHsm Require Import Model.LedgerProtocol Proofs.BytesLemmas.
From Coq Require Import ZifyBool ZifyNat ZifyN.
Open Scope N_scope.

Ltac wsimpl :=
  unfold push, set_script, set_trace, set_comm_issue, set_pin, set_opened, set_connects,
         set_rand_pins, set_fs_ok;
  cbn [script classify trace connects opened comm_issue pin rand_pins fs_ok fst snd].

(* ---------- DER: the reply's r and s are exactly the integers of the device's signature ---------- *)
Definition der_encode (t : N) (r s_ : bytes) : bytes :=
  t :: (4 + nlen r + nlen s_) :: 2 :: nlen r :: r ++ 2 :: nlen s_ :: s_.

Lemma der_parse_encode t r s_ junk :
  t = 48 \/ t = 49 ->
  der_parse (der_encode t r s_ ++ junk) = Some (r, s_).
Proof.
  intros Ht. unfold der_encode, der_parse. cbn [app].
  replace (mem_N t [48; 49]) with true by (destruct Ht; subst; reflexivity).
  cbn [negb orb].
  assert (H1 : (nlen (2 :: nlen r :: (r ++ 2 :: nlen s_ :: s_) ++ junk) <? 4 + nlen r + nlen s_) = false).
  { rewrite !nlen_cons, !nlen_app, !nlen_cons. lia. }
  rewrite H1. rewrite N.eqb_refl. cbn [negb orb].
  assert (H2 : (nlen ((r ++ 2 :: nlen s_ :: s_) ++ junk) <? nlen r) = false).
  { rewrite !nlen_app, !nlen_cons. lia. }
  rewrite H2.
  assert (Hn : forall l : bytes, N.to_nat (nlen l) = length l) by (intro; unfold nlen; lia).
  rewrite !Hn.
  rewrite <- app_assoc. rewrite skipn_app_exact. cbn [app].
  rewrite N.eqb_refl. cbn [negb orb].
  assert (H3 : (nlen (s_ ++ junk) <? nlen s_) = false) by (rewrite nlen_app; lia).
  rewrite H3. rewrite !Hn. rewrite !firstn_app_exact. reflexivity.
Qed.

(* ---------- difficulty: "the same unsigned number" ---------- *)
(* whatever big-endian width the device uses (fixed 36 bytes or minimal), the number survives *)
Lemma difficulty_roundtrip k (d : N) :
  d < 256 ^ N.of_nat k -> from_bytes_be (rev (le_bytes k d)) = d.
Proof.
  intro H. pose proof (from_bytes_le_le_bytes k d) as Hr. unfold from_bytes_le in Hr.
  rewrite Hr. apply N.mod_small. exact H.
Qed.

Section S.
Variable keccak : bytes -> bytes.
Variable kind : dongle_kind.

(* ---------- getPubKey ---------- *)
Lemma pubkey_verbatim m (req : obj) path k sc cn op tr p rp fs :
  jget (s "keyId") req = Some (JStr path) ->
  forall els, bip32_path path = Some els ->
  op_get_pubkey kind m req (mkWorld (Data k :: sc) cn op tr false p rp fs)
  = (Ok (0%Z, Some [(s "pubKey", JStr (hex k))]),
     mkWorld sc cn op (Apdu (CLA :: CMD_GET_PUBLIC_KEY :: path_to_binary els) (Data k) :: tr)
             false p rp fs).
Proof.
  intros Hk els Hp.
  unfold op_get_pubkey, with_ladder, try_catch, bind, ensure_connection.
  cbn [comm_issue negb].
  unfold key_path. rewrite Hk. rewrite Hp. cbn [of_opt ret].
  unfold get_public_key, bind, send_command. wsimpl.
  destruct m; reflexivity.
Qed.

(* ---------- blockchainParameters ---------- *)
Lemma params_layout (cp mrd : bytes) (net : N) :
  length cp = 32%nat -> length mrd = 36%nat -> mem_N net NETWORK_VALUES = true ->
  params_from_dongle (cp ++ mrd ++ [net]) = Some (mkParams (hex cp) (from_bytes_be mrd) net).
Proof.
  intros Hc Hm Hn. unfold params_from_dongle.
  assert (Hl : nlen (cp ++ mrd ++ [net]) = 69).
  { unfold nlen. rewrite !app_length, Hc, Hm. reflexivity. }
  rewrite Hl. cbn [N.eqb Pos.eqb negb].
  assert (Hi : idx (cp ++ mrd ++ [net]) 68 = Some net).
  { transitivity (idx ((cp ++ mrd) ++ net :: []) (length (cp ++ mrd))).
    - rewrite app_length, Hc, Hm, <- app_assoc. reflexivity.
    - apply idx_after. }
  rewrite Hi, Hn.
  assert (S1 : slice (cp ++ mrd ++ [net]) 0 32 = cp).
  { transitivity (slice (cp ++ mrd ++ [net]) 0 (length cp)); [rewrite Hc; reflexivity|].
    apply slice_first. }
  assert (S2 : slice (cp ++ mrd ++ [net]) 32 68 = mrd).
  { transitivity (slice (cp ++ mrd ++ [net]) (length cp) (length cp + length mrd));
      [rewrite Hc, Hm; reflexivity|]. apply slice_mid. }
  rewrite S1, S2. reflexivity.
Qed.

Lemma parameters_verbatim (req : obj) (opb : N) cp mrd net sc cn op tr p rp fs name :
  length cp = 32%nat -> length mrd = 36%nat -> mem_N net NETWORK_VALUES = true ->
  assoc_N net NETWORK_NAMES = Some name ->
  op_parameters kind req
    (mkWorld (Data (CLA :: CMD_GET_PARAMETERS :: opb :: cp ++ mrd ++ [net]) :: sc) cn op tr false p rp fs)
  = (Ok (0%Z, Some [(s "parameters", JObj [(s "checkpoint", JStr (hex cp));
                                           (s "minimum_difficulty", JInt (Z.of_N (from_bytes_be mrd)));
                                           (s "network", JStr name)])]),
     mkWorld sc cn op (Apdu [CLA; CMD_GET_PARAMETERS]
                            (Data (CLA :: CMD_GET_PARAMETERS :: opb :: cp ++ mrd ++ [net])) :: tr)
             false p rp fs).
Proof.
  intros Hc Hm Hn Hname.
  unfold op_parameters, with_ladder, try_catch, bind, ensure_connection.
  cbn [comm_issue negb].
  unfold get_signer_parameters, bind, send_command. wsimpl.
  unfold OFF_DATAn. change (N.to_nat OFF_DATA) with 3%nat. unfold slice_from. cbn [skipn].
  rewrite (params_layout cp mrd net Hc Hm Hn). cbn [ret p_network p_checkpoint p_mrd].
  rewrite Hname. reflexivity.
Qed.

(* ---------- blockchainState ---------- *)
(* what an honest signer answers to the seven hash queries, the difficulty and the flags *)
Fixpoint hash_answers (hv : list (str * N)) (hs : list bytes) : list resp :=
  match hv, hs with
  | (_, code) :: hv', h :: hs' =>
      Data (CLA :: CMD_GET_STATE :: GST_OP_HASH :: code :: h) :: hash_answers hv' hs'
  | _, _ => []
  end.

Fixpoint hash_apdus (hv : list (str * N)) (hs : list bytes) : list event :=
  match hv, hs with
  | (_, code) :: hv', h :: hs' =>
      Apdu [CLA; CMD_GET_STATE; GST_OP_HASH; code]
           (Data (CLA :: CMD_GET_STATE :: GST_OP_HASH :: code :: h)) :: hash_apdus hv' hs'
  | _, _ => []
  end.

Fixpoint hash_fields (hv : list (str * N)) (hs : list bytes) : list (str * str) :=
  match hv, hs with
  | (key, _) :: hv', h :: hs' => (key, hex h) :: hash_fields hv' hs'
  | _, _ => []
  end.

Lemma get_hashes_honest hv : forall hs sc cn op tr ci p rp fs,
  length hs = length hv -> Forall (fun h => length h = 32%nat) hs ->
  get_hashes hv (mkWorld (hash_answers hv hs ++ sc) cn op tr ci p rp fs)
  = (Ok (hash_fields hv hs), mkWorld sc cn op (rev (hash_apdus hv hs) ++ tr) ci p rp fs).
Proof.
  induction hv as [|[key code] hv IH]; intros hs sc cn op tr ci p rp fs Hl Hf.
  - destruct hs; [reflexivity|discriminate].
  - destruct hs as [|h hs]; [discriminate|].
    inversion Hf as [|? ? Hh Hf']; subst.
    cbn [get_hashes hash_answers hash_apdus hash_fields app].
    unfold bind at 1. unfold send_command. wsimpl.
    unfold bind at 1. unfold idxM, OFF_OPn. change (N.to_nat OFF_OP) with 2%nat.
    cbn [idx nth_error of_opt ret]. rewrite N.eqb_refl. cbn [negb].
    unfold bind at 1. unfold OFF_DATAn. change (N.to_nat OFF_DATA) with 3%nat.
    cbn [idx nth_error of_opt ret]. rewrite N.eqb_refl. cbn [negb orb].
    unfold slice_from. cbn [Nat.add skipn].
    unfold nlen. rewrite Hh. change (N.of_nat 32 =? HASH_SIZE) with true. cbn [negb].
    unfold bind at 1. rewrite IH by (auto; cbn in Hl; lia).
    cbn [ret]. cbn [rev]. rewrite <- app_assoc. reflexivity.
Qed.

Definition state_reply (hs : list bytes) (d : bytes) (f0 f1 f2 : N) : option rtuple :=
  match hs with
  | [h1; h2; h3; h5; h81; h82; h84] =>
      Some (0%Z, Some [(s "state", JObj [
        (s "best_block", JStr (hex h1)); (s "newest_valid_block", JStr (hex h2));
        (s "ancestor_block", JStr (hex h3)); (s "ancestor_receipts_root", JStr (hex h5));
        (s "updating", JObj [
          (s "best_block", JStr (hex h81)); (s "newest_valid_block", JStr (hex h82));
          (s "next_expected_block", JStr (hex h84));
          (s "total_difficulty", JInt (Z.of_N (from_bytes_be d)));
          (s "in_progress", JBool (negb (f0 =? 0))); (s "already_validated", JBool (negb (f1 =? 0)));
          (s "found_best_block", JBool (negb (f2 =? 0)))])])])
  | _ => None
  end.

(* the device holds hs (under the selectors of GST_HASH_VALUES, in that order), difficulty bytes d
   and flags f0 f1 f2; the client gets exactly those *)
Lemma state_verbatim (req : obj) hs d f0 f1 f2 sc cn op tr p rp fs :
  length hs = 7%nat -> Forall (fun h => length h = 32%nat) hs ->
  exists tr',
  op_blockchain_state kind req
    (mkWorld (hash_answers GST_HASH_VALUES hs
              ++ Data (CLA :: CMD_GET_STATE :: GST_OP_DIFF :: d)
              :: Data [CLA; CMD_GET_STATE; GST_OP_FLAGS; f0; f1; f2] :: sc) cn op tr false p rp fs)
  = (match state_reply hs d f0 f1 f2 with Some r => Ok r | None => Exn (Py KeyError) end,
     mkWorld sc cn op tr' false p rp fs).
Proof.
  intros Hl Hf.
  destruct hs as [|h1 [|h2 [|h3 [|h5 [|h81 [|h82 [|h84 [|? ?]]]]]]]]; try discriminate.
  eexists.
  unfold op_blockchain_state, with_ladder, try_catch, bind at 1, ensure_connection.
  cbn [comm_issue negb].
  unfold get_blockchain_state. unfold bind at 1. unfold bind at 1.
  rewrite (get_hashes_honest GST_HASH_VALUES [h1; h2; h3; h5; h81; h82; h84]) by (auto).
  unfold bind at 1. unfold send_command at 1. wsimpl.
  unfold bind at 1. unfold idxM, OFF_OPn. change (N.to_nat OFF_OP) with 2%nat.
  cbn [idx nth_error of_opt ret]. rewrite N.eqb_refl. cbn [negb].
  unfold bind at 1. unfold send_command at 1. wsimpl.
  unfold bind at 1. cbn [idx nth_error of_opt ret]. rewrite N.eqb_refl. cbn [negb orb].
  unfold OFF_DATAn. change (N.to_nat OFF_DATA) with 3%nat. unfold slice_from.
  cbn [skipn nlen length]. change (N.of_nat 3 =? 3) with true. cbn [negb].
  change (N.to_nat GST_FLAG_IN_PROGRESS) with 0%nat.
  change (N.to_nat GST_FLAG_ALREADY_VALIDATED) with 1%nat.
  change (N.to_nat GST_FLAG_FOUND_BEST_BLOCK) with 2%nat.
  cbn [Nat.add]. unfold bind. cbn [idx nth_error of_opt ret].
  cbn. reflexivity.
Qed.

(* ---------- signer heartbeat ---------- *)
Lemma signer_heartbeat_verbatim (req : obj) udh ud t r s_ msg hsh pk sc cn op tr p rp fs o1 :
  jget (s "udValue") req = Some (JStr udh) -> fromhex udh = Some ud ->
  t = 48 \/ t = 49 ->
  exists tr',
  op_signer_heartbeat kind req
    (mkWorld (Data o1
              :: Data (CLA :: SHB_COMMAND :: SHB_OP_GET :: der_encode t r s_)
              :: Data (CLA :: SHB_COMMAND :: SHB_OP_GET_MESSAGE :: msg)
              :: Data (CLA :: SHB_COMMAND :: SHB_OP_APP_HASH :: hsh)
              :: Data (CLA :: SHB_COMMAND :: SHB_OP_PUBKEY :: pk) :: sc) cn op tr false p rp fs)
  = (Ok (0%Z, Some [(s "pubKey", JStr (hex pk)); (s "message", JStr (hex msg));
                    (s "tweak", JStr (hex hsh));
                    (s "signature", JObj [(s "r", JStr (hex r)); (s "s", JStr (hex s_))])]),
     mkWorld sc cn op tr' false p rp fs).
Proof.
  intros Hu Hx Ht. eexists.
  unfold op_signer_heartbeat, with_ladder, try_catch, bind at 1, ensure_connection.
  cbn [comm_issue negb].
  unfold bind at 1. unfold hex_field, jstr_field, bind at 1. rewrite Hu. cbn [ret]. rewrite Hx.
  cbn [of_opt ret].
  unfold bind at 1. unfold get_signer_heartbeat, run_heartbeat, try_catch.
  unfold bind at 1. unfold send_command at 1. wsimpl.
  unfold bind at 1. unfold send_command at 1. wsimpl.
  unfold bind at 1. unfold send_command at 1. wsimpl.
  unfold bind at 1. unfold send_command at 1. wsimpl.
  unfold bind at 1. unfold send_command at 1. wsimpl.
  unfold OFF_DATAn. change (N.to_nat OFF_DATA) with 3%nat. unfold slice_from. cbn [skipn].
  pose proof (der_parse_encode t r s_ [] Ht) as Hd. rewrite app_nil_r in Hd. rewrite Hd.
  cbn [ret hb_reply hb_pubkey hb_message hb_tweak hb_r hb_s].
  reflexivity.
Qed.

End S.
