(* Refinement lemmas for the device-monad backend: methods of HSM2Dongle (ledger/hsm2dongle.py) as translated
   from the Python source text (Gen/SrcM.v) run, on every world (any device script, any manager state),
   exactly as the hand-written models of Model/Dongle.v and Model/Sign.v: same result or exception, same
   final world (hence the same APDU trace). *)
From PowHsm Require Import Gen.SrcM Model.Dongle Model.Sign.
From PowHsm Require Import Proofs.ValLemmas Proofs.SrcEquivLedger.
From PowHsm Require Import Proofs.ValLemmasM.

(* a model computation's outcome seen through an embedding of its result *)
Definition mres {A} (f : A -> pv) (x : result A * world) : xr pv * world :=
  (match fst x with Ok a => XOk (f a) | Exn e => XRaise e end, snd x).

Definition vN (n : N) : pv := VInt (Z.of_N n).

Lemma srcm_get_current_mode_ok : forall (self : pv) (w : world),
  srcm_HSM2Dongle__get_current_mode self w = mres vN (get_current_mode w).
Proof.
  intros self w.
  unfold srcm_HSM2Dongle__get_current_mode, get_current_mode, mres, try_catch, bind, CMD_GET_MODE, vN. mv_unfold.
  mnorm. unfold MV.ptry_k. rewrite (mbind_send 67).
  destruct (send_command 67 [] w) as [[r|e] w'].
  - mnorm. rewrite mbind_lift, getitem_idx by lia. unfold idxM. change (Z.to_nat 1) with 1%nat.
    destruct (idx r 1) as [m|]; [|reflexivity].
    mnorm. rewrite mbind_lift. unfold py_enum_of. cbn [vnum].
    change [2%Z; 3%Z; 4%Z; 255%Z] with (map Z.of_N MODE_VALUES). rewrite mem_Z_of_N.
    unfold of_opt, ret, raise. cbv beta iota.
    destruct (mem_N m MODE_VALUES); reflexivity.
  - unfold exn_matches, GET_MODE_CATCHES. cbn [existsb xpat_matches orb].
    change EXC_HSM2DongleError with 1.
    destruct (exn_isa e 1); reflexivity.
Qed.

Lemma srcm_is_onboarded_ok : forall (self : pv) (w : world),
  srcm_HSM2Dongle__is_onboarded self w = mres VBool (is_onboarded w).
Proof.
  intros self w. unfold srcm_HSM2Dongle__is_onboarded, is_onboarded, mres, bind, CMD_IS_ONBOARD. mv_unfold.
  rewrite (mbind_send 6).
  destruct (send_command 6 [] w) as [[r|e] w']; [|reflexivity].
  mnorm. rewrite mbind_lift, getitem_idx by lia. unfold idxM. change (Z.to_nat 1) with 1%nat.
  destruct (idx r 1) as [b|]; [|reflexivity].
  mnorm. rewrite mbind_lift, py_eq_int. change 1%Z with (Z.of_N 1). rewrite Zeqb_N. reflexivity.
Qed.

Lemma srcm_echo_ok : forall (self : pv) (w : world),
  srcm_HSM2Dongle__echo self w = mres VBool (echo KLedger w).
Proof.
  intros self w. unfold srcm_HSM2Dongle__echo, echo, mres, bind, CMD_ECHO, echo_msg. mv_unfold.
  mnorm.
  change (MV.py_bytes (VList [VInt 65; VInt 66; VInt 67])) with (@mret pv (VBytes [65; 66; 67])).
  mnorm. rewrite (mbind_send 2).
  destruct (send_command 2 [65; 66; 67] w) as [[r|e] w']; [|reflexivity].
  unfold MV.py_bytes at 1. mnorm.
  change (MV.py_bytes (VList [VInt 128; VInt 2])) with (@mret pv (VBytes [128; 2])).
  mnorm. rewrite mbind_lift. cbn [py_add app]. mnorm. rewrite mbind_lift.
  cbn [py_eq]. reflexivity.
Qed.

Lemma srcm_get_version_ok : forall (self : pv) (w : world),
  srcm_HSM2Dongle__get_version self w =
  mres (fun v => let '(a, b, c) := v in
                 VObj "HSM2FirmwareVersion" [("patch", vN c); ("minor", vN b); ("major", vN a)])
       (get_version w).
Proof.
  intros self w. unfold srcm_HSM2Dongle__get_version, get_version, mres, bind, CMD_IS_ONBOARD, vN. mv_unfold.
  rewrite (mbind_send 6).
  destruct (send_command 6 [] w) as [[r|e] w']; [|reflexivity].
  unfold idxM.
  rewrite mbind_lift, getitem_idx by lia. change (Z.to_nat 2) with 2%nat.
  destruct (idx r 2) as [a|]; [|reflexivity].
  rewrite mbind_lift, getitem_idx by lia. change (Z.to_nat 3) with 3%nat.
  destruct (idx r 3) as [b|]; [|reflexivity].
  rewrite mbind_lift, getitem_idx by lia. change (Z.to_nat 4) with 4%nat.
  destruct (idx r 4) as [c|]; [|reflexivity].
  rewrite lift_run, src_version_init_ok. reflexivity.
Qed.

Lemma srcm_get_retries_ok : forall (self : pv) (w : world),
  srcm_HSM2Dongle__get_retries self w = mres vN (get_retries KLedger w).
Proof.
  intros self w. unfold srcm_HSM2Dongle__get_retries, get_retries, mres, vN, bind, CMD_RETRIES. mv_unfold.
  rewrite (mbind_send 69).
  destruct (send_command 69 [] w) as [[r|e] w']; [|reflexivity].
  rewrite lift_run, getitem_idx by lia. unfold idxM. change (Z.to_nat 2) with 2%nat.
  destruct (idx r 2); reflexivity.
Qed.

Lemma srcm_exit_menu_ok : forall (self : pv) (autoexec : bool) (w : world),
  srcm_HSM2Dongle__exit_menu self (VBool autoexec) w = mres (fun _ => VNone) (exit_menu autoexec w).
Proof.
  intros self autoexec w.
  unfold srcm_HSM2Dongle__exit_menu, exit_menu, mres, bind, CMD_EXIT_MENU, CMD_EXIT_MENU_NO_AUTOEXEC. mv_unfold.
  mnorm. cbn [py_truth].
  destruct autoexec; mnorm; change (MV.py_bytes (VList [VInt 0; VInt 0])) with (@mret pv (VBytes [0; 0])); mnorm.
  - rewrite (mbind_send 255). destruct (send_command 255 [0; 0] w) as [[r|e] w']; reflexivity.
  - rewrite (mbind_send 250). destruct (send_command 250 [0; 0] w) as [[r|e] w']; reflexivity.
Qed.

Lemma srcm_exit_app_ok : forall (self : pv) (w : world),
  srcm_HSM2Dongle__exit_app self w = mres (fun _ => VNone) (exit_app w).
Proof.
  intros self w. unfold srcm_HSM2Dongle__exit_app, exit_app, mres, bind, CMD_EXIT_MENU. mv_unfold.
  rewrite (mbind_send 255). destruct (send_command 255 [] w) as [[r|e] w']; reflexivity.
Qed.

(* key_id.to_binary() is a method of an object the translation does not look into: an oracle *)
Lemma srcm_get_public_key_ok : forall (cm : string -> pv -> list pv -> pr pv) (self key_id : pv)
                                      (path_bin : bytes) (w : world),
  cm "to_binary" key_id [] = POk (VBytes path_bin) ->
  srcm_HSM2Dongle__get_public_key cm self key_id w = mres VStr (get_public_key path_bin w).
Proof.
  intros cm self key_id path_bin w Hcm.
  unfold srcm_HSM2Dongle__get_public_key, get_public_key, mres, bind, CMD_GET_PUBLIC_KEY. mv_unfold.
  mnorm. rewrite mbind_lift, Hcm. rewrite (mbind_send 4).
  destruct (send_command 4 path_bin w) as [[r|e] w']; reflexivity.
Qed.

Lemma srcm_get_signer_parameters_ok : forall (self : pv) (w : world),
  srcm_HSM2Dongle__get_signer_parameters self w = mres params_obj (get_signer_parameters w).
Proof.
  intros self w.
  unfold srcm_HSM2Dongle__get_signer_parameters, get_signer_parameters, mres, bind, CMD_GET_PARAMETERS. mv_unfold.
  mnorm. unfold MV.ptry_k. rewrite (mbind_send 17).
  destruct (send_command 17 [] w) as [[r|e] w'] eqn:Es;
    [|destruct e; try reflexivity; exfalso; exact (send_exn_not_py _ _ _ _ _ Es)].
  mnorm. rewrite mbind_lift, py_slice_bytes_from by lia. mnorm.
  rewrite mbind_lift, src_params_from_dongle_ok.
  unfold slice_from, OFF_DATAn, OFF_DATA. change (Z.to_nat 3) with 3%nat. change (N.to_nat 3) with 3%nat.
  destruct (params_from_dongle (skipn 3 r)) as [p|]; reflexivity.
Qed.

(* _send_data_in_chunks: the chunking loop.  Fuel: one iteration per exchange; a silent device times out *)
Definition chunk_res (r : bool * bytes) : pv := VList [VBool (fst r); VBytes (snd r)].

Theorem srcm_send_data_in_chunks_ok : forall (fuel : nat) (self name desc : pv) (cmd op : N) (nexts : list N)
                                             (data : bytes) (full : bool) (initial : N) (w : world),
  op < 256 -> (S (length (script w)) <= fuel)%nat ->
  srcm_HSM2Dongle___send_data_in_chunks fuel self (vN cmd) (vN op) (VList (map vN nexts)) (VBytes data)
                                        (VBool full) (vN initial) name desc w =
  mres chunk_res (send_data_in_chunks cmd op nexts data full initial w).
Proof.
  intros fuel self name desc cmd op nexts data full initial w Hop Hfuel.
  unfold srcm_HSM2Dongle___send_data_in_chunks, send_data_in_chunks, vN. mv_unfold. unfold MV.pmap. mnorm.
  match goal with |- mbind (MV.py_while _ _ ?B) ?K _ = _ => set (body := B); set (kont := K) end.
  (* the iteration after `finished` became true leaves the loop *)
  assert (Hfin : forall (f : nat) (a b c d e : pv) (r : bytes) (w0 : world),
             mbind (MV.py_while (S f) (VList [a; b; VBytes r; c; d; VBool true; e]) body) kont w0 =
             (XOk (VList [VBool true; VBytes r]), w0)).
  { intros f a b c d e r w0. cbn [MV.py_while]. unfold body at 1. mnorm. cbn [py_truth negb]. mnorm.
    reflexivity. }
  assert (Hloop : forall (f : nat) (w0 : world) (ts tl rs : pv) (o : nat) (rem : bytes) (req : N),
             (o + length rem = length data)%nat -> rem = skipn o data ->
             (S (length (script w0)) <= f)%nat ->
             mbind (MV.py_while f (VList [ts; tl; rs; VInt (Z.of_nat o); VInt (Z.of_nat o); VBool false;
                                          VInt (Z.of_N req)]) body) kont w0 =
             mres chunk_res (chunks_loop (S (length (script w0))) cmd op nexts full rem req w0)).
  { induction f as [|f IH]; intros w0 ts tl rs o rem req Hlen Hrem Hf; [lia|].
    cbn [MV.py_while chunks_loop]. cbv zeta. unfold body at 1. mnorm. cbn [py_truth negb]. mnorm.
    rw_lift. rewrite py_add_int. mnorm. rw_lift.
    rewrite py_slice_v_bytes_range by lia. rewrite Nat2Z.id, <- Hrem, chunk_take.
    set (n := N.to_nat (N.min req (nlen rem))).
    assert (Hn : length (firstn n rem) = n) by (unfold n; apply chunk_take_length).
    mnorm. rw_lift. rewrite py_len_bytes, Hn. mnorm.
    rewrite (py_bytes_one op Hop). mnorm. rw_lift. rewrite py_add_bytes. cbn [app]. mnorm.
    rw_send cmd. unfold mres, bind.
    destruct (send_command cmd (op :: firstn n rem) w0) as [[r|e] w1] eqn:Es; [|reflexivity].
    pose proof (send_ok_script _ _ _ _ _ Es) as Hsc.
    mnorm. rw_lift. rewrite py_add_int. mnorm. rw_lift. rewrite ?py_add_int. mnorm.
    rw_lift. rewrite getitem_idx by lia.
    unfold idxM, OFF_OPn, OFF_OP, of_opt, ret, raise.
    change (Z.to_nat 2) with 2%nat. change (N.to_nat 2) with 2%nat.
    destruct (idx r 2) as [rop|]; cbv beta iota; [|reflexivity].
    mnorm. rw_lift. rewrite py_add_list. cbn [app].
    change (VList (VInt (Z.of_N op) :: map (fun n0 : N => VInt (Z.of_N n0)) nexts))
      with (VList (map (fun n0 : N => VInt (Z.of_N n0)) (op :: nexts))).
    mnorm. rw_lift. rewrite py_not_in_N_list. mnorm. cbn [py_truth].
    destruct (mem_N rop (op :: nexts)); cbn [negb]; [|reflexivity].
    mnorm. rw_lift. mnorm. rw_lift. rewrite py_ne_int, Zeqb_N. mnorm.
    unfold OFF_DATAn, OFF_DATA. change (N.to_nat 3) with 3%nat.
    destruct (rop =? op) eqn:Erop; cbn [negb andb].
    - (* the device asks for more *)
      rewrite andb_false_r. cbn [andb].
      destruct full; mgo; rw_lift; rewrite getitem_idx by lia; change (Z.to_nat 3) with 3%nat;
        (destruct (idx r 3) as [nreq|]; [|reflexivity]); mgo;
        rewrite <- Nat2Z.inj_add, Hsc;
        (apply (IH w1 _ _ _ (o + n)%nat (skipn n rem) nreq);
         [rewrite skipn_length; rewrite firstn_length in Hn; lia
         |rewrite (skipn_add o n data), <- Hrem; reflexivity
         |lia]).
    - (* the device moved on: finished *)
      destruct f as [|f']; [lia|]. clear IH.
      destruct full; cbn [andb]; mgo.
      + rw_lift. rewrite py_len_bytes. mgo. rw_lift. rewrite py_cmp_int.
        assert (Ecmp : (Z.of_nat o + Z.of_nat n <? Z.of_nat (length data))%Z = (0 <? nlen (skipn n rem))).
        { apply bool_eq_iff. rewrite Z.ltb_lt, N.ltb_lt. unfold nlen. rewrite skipn_length.
          rewrite firstn_length in Hn. lia. }
        rewrite Ecmp. mgo.
        destruct (0 <? nlen (skipn n rem)); mgo; [reflexivity|].
        apply Hfin.
      + apply Hfin. }
  exact (Hloop fuel w VNone VNone VNone 0%nat data initial (eq_refl _) (eq_refl _) Hfuel).
Qed.

(* sign_unauthorized: (True, signature object) | (False, code) *)
Definition sign_res (r : sign_result) : pv :=
  match r with
  | inl (rb, sb) => VList [VBool true; sig_obj rb sb]
  | inr c => VList [VBool false; VInt c]
  end.

Theorem srcm_sign_unauthorized_ok : forall (cm : string -> pv -> list pv -> pr pv) (self key_id : pv)
                                           (path_bin : bytes) (hash : str) (w : world),
  cm "to_binary" key_id [] = POk (VBytes path_bin) ->
  srcm_HSM2Dongle__sign_unauthorized cm self key_id (VStr hash) w =
  mres sign_res (sign_unauthorized path_bin (fromhex hash) w).
Proof.
  intros cm self key_id path_bin hash w Hcm.
  unfold srcm_HSM2Dongle__sign_unauthorized, sign_unauthorized, mres, on_error_result, try_catch, bind,
         CMD_SIGN, SIGN_OP_PATH.
  mv_unfold. mnorm. unfold MV.ptry_k. rw_lift. unfold py_fromhex.
  destruct (fromhex hash) as [h|]; [|reflexivity].
  mnorm. rw_lift; rewrite Hcm. mnorm.
  change (MV.py_bytes (VList [VInt 1])) with (@mret pv (VBytes [1])). mnorm.
  rw_lift. cbn [py_add app]. mnorm. rw_lift. cbn [py_add app]. mnorm.
  rw_send 2.
  destruct (send_command 2 (1 :: path_bin ++ h) w) as [[r|e] w'] eqn:Es.
  - mnorm. rw_lift. rewrite getitem_idx by lia.
    unfold idxM, OFF_OPn, OFF_OP, of_opt, ret, raise, SIGN_OP_BTC_TX, SIGN_OP_SUCCESS.
    change (Z.to_nat 2) with 2%nat. change (N.to_nat 2) with 2%nat.
    destruct (idx r 2) as [op|]; cbv beta iota; [|reflexivity].
    mnorm. rw_lift. rewrite py_eq_int.
    replace (Z.of_N op =? 2)%Z with (op =? 2) by (symmetry; apply (Zeqb_N op 2)).
    mnorm. cbn [py_truth].
    destruct (op =? 2); [reflexivity|].
    mnorm. rw_lift. mnorm. rw_lift. rewrite py_ne_int.
    replace (Z.of_N op =? 129)%Z with (op =? 129) by (symmetry; apply (Zeqb_N op 129)).
    mnorm. cbn [py_truth].
    destruct (op =? 129); cbn [negb]; [|reflexivity].
    mnorm. rw_lift. rewrite py_slice_bytes_from by lia. mnorm. rw_lift. rewrite src_der_parse_ok.
    unfold parse_sig, slice_from, OFF_DATAn, OFF_DATA.
    change (Z.to_nat 3) with 3%nat. change (N.to_nat 3) with 3%nat.
    destruct (der_parse (skipn 3 r)) as [[rb sb]|]; reflexivity.
  - cbn [existsb xpat_matches orb]. rewrite isa_error_result.
    destruct e as [sw| | | | | | | |x]; try reflexivity.
    unfold MV.m_error_code. mnorm. rw_lift.
    change (VList [VInt 27271; VInt 27281]) with (VList (map (fun n => VInt (Z.of_N n)) [27271; 27281]%N)).
    rewrite py_in_N_list. mnorm. cbn [py_truth].
    unfold SIGN_UNAUTH_ERRS, SIGN_UNAUTH_DEFAULT. cbn [lookup_err].
    destruct (mem_N sw [27271; 27281]); [reflexivity|].
    mnorm. rw_lift.
    change (VList [VInt 27279; VInt 27280]) with (VList (map (fun n => VInt (Z.of_N n)) [27279; 27280]%N)).
    rewrite py_in_N_list. mnorm. cbn [py_truth].
    destruct (mem_N sw [27279; 27280]); reflexivity.
Qed.
