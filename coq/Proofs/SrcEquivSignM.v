(* Refinement theorem for the device-monad backend: HSM2Dongle.sign_authorized of ledger/hsm2dongle.py, as
   translated from the Python source text (Gen/SrcM.v), runs on every world exactly as Model/Sign.v's
   sign_authorized: same (True, signature) | (False, code) | exception, same final world (hence the same
   APDUs in the same order).  key_id.to_binary() and comm.bitcoin.encode_varint (a wrapper around
   python-bitcoinlib) are oracles. *)
From PowHsm Require Import Gen.SrcM Model.Dongle Model.Sign.
From PowHsm Require Import Proofs.ValLemmas Proofs.SrcEquivLedger Proofs.SrcEquivDongleM.
From PowHsm Require Import Proofs.ValLemmasAdmin Proofs.ValLemmasSign.

(* ---------- proof tactics: evaluation of the translated text by rewriting ---------- *)

Local Ltac mnorm :=
  repeat (progress (rewrite ?pbind_POk, ?pbind_PRaise, ?mv_py_add_bytes, ?mv_py_add_int, ?lift_POk, ?lift_PRaise,
                            ?mv_py_len_bytes, ?pif_POk, ?py_not_POk, ?vbool_lift_POk, ?vbool_POk,
                            ?mv_getitem_pair0, ?mv_getitem_pair1; cbv beta)).
Local Ltac strip_binds :=
  repeat match goal with |- MV.pbind (MV.POk _) _ _ = _ => rewrite pbind_POk; cbv beta end.
Local Ltac set_k :=
  match goal with |- MV.ptry_k _ _ _ _ ?k _ = _ => let K := fresh "K" in set (K := k) end.
Local Ltac try_ok :=
  match goal with |- MV.ptry_k ?m _ _ _ _ ?w = _ => rewrite (ptry_k_ok m _ _ _ _ w w _ eq_refl) end.
Local Ltac try_raise e :=
  match goal with |- MV.ptry_k ?m _ _ _ _ ?w = _ => rewrite (ptry_k_raise m _ _ _ _ w w e eq_refl) end.
(* handler obligations of try_step for `except HSM2DongleErrorResult` *)
Local Ltac handler_only_er tbl :=
  let e := fresh "e" in let w' := fresh "w'" in
  intros e w'; destruct e; try (intros _; left; reflexivity);
  split; [reflexivity|]; apply tbl.

Definition mode_obj (segwit : bool) : pv :=
  VObj "SighashComputationMode"
       [("value", VStr (if segwit then s "segwit" else s "legacy")); ("netvalue", VInt (if segwit then 1 else 0))].

Definition mode_str (segwit : bool) : str := if segwit then s "segwit" else s "legacy".

Section WithOracles.
Variable cm : string -> pv -> list pv -> pr pv.

Definition oracles_ok (key_id : pv) (path_bin : bytes) : Prop :=
  cm "to_binary" key_id [] = POk (VBytes path_bin) /\
  (forall n : N, cm "encode_varint" VNone [VInt (Z.of_N n)] = POk (VStr (hex (varint n)))).

(* from the chunked send of step 2 (the payload is built) to the end *)
Ltac sign_tail Hrc Hproof proof :=
  eapply try_step with (tbl := fun sw => lookup_err sw SIGN_AUTH_STEP2_ERRS SIGN_AUTH_STEP2_DEFAULT);
  [ eapply (chunk_body _ _ _ _ _ _ 2 4); [reflexivity|lia|reflexivity]
  | let e := fresh "e" in let w' := fresh "w'" in let p := fresh "p" in let Hno := fresh "Hno" in
    intros e w'; destruct e as [?| | | | | | | |p]; try (intros _; right; reflexivity);
    [ split; [reflexivity|]; apply (handler_tbl [27272; 27271; 27277; 27278; 27287; 27288] (-2) (-10))
    | destruct p; try (intros _; right; reflexivity); intros Hno; exfalso; apply Hno; reflexivity ]
  | reflexivity
  | reflexivity
  | ];
  let v := fresh "v" in let a := fresh "a" in let w2 := fresh "w2" in let HE := fresh "HE" in
  let HL2 := fresh "HL2" in let q2 := fresh "q2" in let r2 := fresh "r2" in
  intros v a w2 HE HL2; destruct a as [q2|?]; [|subst v; reflexivity];
  destruct HE as [r2 ->];
  match goal with K := _ |- _ => subst K end; cbv beta iota;
  (* step 3 *)
  set_k; mnorm; rewrite (mv_py_fromhex _ _ Hrc); mnorm;
  eapply try_step with (tbl := fun sw => lookup_err sw SIGN_AUTH_STEP3_ERRS SIGN_AUTH_STEP3_DEFAULT);
  [ eapply (chunk_body _ _ _ _ _ _ 4 8); [reflexivity|lia|reflexivity]
  | handler_only_er (handler_tbl [27273; 27274; 27275; 27276; 27271] (-3) (-10))
  | reflexivity
  | reflexivity
  | ];
  let v := fresh "v" in let a := fresh "a" in let w3 := fresh "w3" in let HE := fresh "HE" in
  let HL3 := fresh "HL3" in let q3 := fresh "q3" in let r3 := fresh "r3" in
  intros v a w3 HE HL3; destruct a as [q3|?]; [|subst v; reflexivity];
  destruct HE as [r3 ->];
  match goal with K := _ |- _ => subst K end; cbv beta iota;
  strip_binds;
  (* merkle proof *)
  erewrite merkle_try_k;
  [ | exact Hproof
    | let nb := fresh "nb" in let acc := fresh "acc" in let x := fresh "x" in let b := fresh "b" in
      let Hx := fresh "Hx" in let E := fresh "E" in
      intros nb acc x b Hx; cbv beta iota; rewrite (mv_py_fromhex _ _ Hx); mnorm;
      change (VInt 255) with (VInt (Z.of_N 255)); unfold MV.py_cmp; rewrite py_cmp_int, Zltb_N; mnorm;
      cbn [py_truth]; destruct (255 <? nlen b) eqn:E; [reflexivity|];
      fold (vN (nlen b)); rewrite mv_py_bytes_single by (apply N.ltb_ge in E; lia); mnorm;
      rewrite <- app_assoc; reflexivity
    | intros; reflexivity ];
  let mp := fresh "mp" in
  destruct (merkle_proof_bytes proof) as [mp|]; [|reflexivity];
  (* step 4 *)
  match goal with |- _ = mres sign_res (?m ?w) => rewrite <- (bind_ret_r m w) end;
  set_k; mnorm;
  eapply try_step with (tbl := fun sw => lookup_err sw SIGN_AUTH_STEP4_ERRS SIGN_AUTH_STEP4_DEFAULT);
  [ eapply (chunk_body4 _ _ _ _ _ _ 8 129); [reflexivity|lia|reflexivity]
  | handler_only_er (handler_tbl [27271; 27273; 27282; 27283; 27284; 27285; 27286] (-4) (-10))
  | reflexivity
  | reflexivity
  | ];
  let v := fresh "v" in let a := fresh "a" in let w4 := fresh "w4" in let HE := fresh "HE" in
  let r4 := fresh "r4" in let rb := fresh "rb" in let sb := fresh "sb" in
  intros v a w4 HE _; destruct HE as [[r4 [-> ->]]|[-> ->]]; [|reflexivity];
  match goal with K := _ |- _ => subst K end; cbv beta iota; unfold chunk_res; cbn [fst snd]; mnorm;
  unfold MV.py_slice; rewrite py_slice_bytes_from by lia; mnorm;
  rewrite src_der_parse_ok; unfold parse_sig, slice_from;
  change (Z.to_nat 3) with OFF_DATAn;
  destruct (der_parse (skipn OFF_DATAn r4)) as [[rb sb]|];
  [ mnorm; try_ok; reflexivity
  | mnorm; try_raise (Py ValueError); reflexivity ].

Theorem srcm_sign_authorized_ok :
  forall (fuel : nat) (self key_id : pv) (path_bin : bytes)
         (receipt_hex tx_hex ws_hex : str) (proof_hex : list str)
         (receipt tx ws : bytes) (proof : list bytes) (input ov : Z) (segwit : bool) (w : world),
  oracles_ok key_id path_bin ->
  fromhex receipt_hex = Some receipt -> fromhex tx_hex = Some tx -> fromhex ws_hex = Some ws ->
  all_some (map fromhex proof_hex) = Some proof ->
  (S (length (script w)) <= fuel)%nat ->
  srcm_HSM2Dongle__sign_authorized fuel cm self key_id (VStr receipt_hex) (VList (map VStr proof_hex))
      (VStr tx_hex) (VInt input) (mode_obj segwit) (VStr ws_hex) (VInt ov) w =
  mres sign_res (sign_authorized path_bin receipt proof tx input (mode_str segwit) ws ov w).
Proof.
  intros fuel self key_id path_bin receipt_hex tx_hex ws_hex proof_hex receipt tx ws proof input ov segwit w
         [Hbin Hvar] Hrc Htx Hws Hproof Hfuel.
  unfold srcm_HSM2Dongle__sign_authorized, sign_authorized.
  rewrite Hbin, lift_POk, pbind_POk. cbv beta.
  rewrite mv_to_bytes_le_4.
  destruct (to_bytes_le 4 input) as [inb|] eqn:Einb; [clear Einb|reflexivity].
  mnorm. change (MV.py_bytes (VList [VInt 1])) with (MV.POk (VBytes [1])). mnorm. set_k.
  rewrite (bind_eq (of_opt (Some inb) OverflowError) _ w w inb eq_refl).
  (* step 1: path and input index *)
  eapply try_step with (tbl := fun sw => lookup_err sw SIGN_AUTH_STEP1_ERRS SIGN_AUTH_STEP1_DEFAULT).
  - apply step1_body. reflexivity.
  - handler_only_er (handler_tbl [27271; 27280; 27281] (-1) (-10)).
  - reflexivity.
  - reflexivity.
  - intros v a w1 HE HL1. destruct a as [q|c]; [|subst v; reflexivity].
    destruct HE as [r ->]. subst K. cbv beta iota.
    (* step 2: the payload *)
    strip_binds. set_k.
    destruct segwit.
    + mnorm. rewrite (mv_py_fromhex _ _ Htx). mnorm.
      change (MV.py_getattr (mode_obj true) "netvalue") with (MV.POk (VInt 1)). mnorm.
      change (MV.py_to_bytes_le (VInt 1) (VInt 1)) with (MV.POk (VBytes [1])). mnorm.
      change (MV.py_eq_obj (mode_obj true) _) with (lift (POk true)). mnorm. cbn [py_truth].
      change (sighash_netvalue (mode_str true)) with (Some 1).
      rewrite (bind_eq (of_opt (Some 1) ValueError) _ w1 w1 1 eq_refl).
      change (1 =? 1) with true. unfold extradata, btc_payload.
      change (to_bytes_le 1 (Z.of_N 1)) with (Some [1]).
      rewrite mv_to_bytes_le_8.
      destruct (to_bytes_le 8 ov) as [ovb|] eqn:Eov.
      2: { mnorm. try_raise (Py OverflowError). reflexivity. }
      mnorm. rewrite (mv_py_fromhex _ _ Hws). mnorm.
      rewrite Hvar. mnorm. rewrite (mv_py_fromhex _ _ (fromhex_hex_varint _)). mnorm.
      rewrite <- app_assoc. rewrite mv_to_bytes_le_2.
      destruct (to_bytes_le 2 _) as [edl|] eqn:Eedl.
      2: { mnorm. try_raise (Py OverflowError). reflexivity. }
      mnorm. rewrite mv_to_bytes_le_4.
      replace (4 + 1 + 2 + Z.of_N (nlen tx))%Z with (Z.of_N (4 + 1 + 2 + nlen tx)) by lia.
      destruct (to_bytes_le 4 _) as [pl|] eqn:Epl.
      2: { mnorm. try_raise (Py OverflowError). reflexivity. }
      mnorm. rewrite <- !app_assoc.
      sign_tail Hrc Hproof proof.
    + mnorm. rewrite (mv_py_fromhex _ _ Htx). mnorm.
      change (MV.py_getattr (mode_obj false) "netvalue") with (MV.POk (VInt 0)). mnorm.
      change (MV.py_to_bytes_le (VInt 0) (VInt 1)) with (MV.POk (VBytes [0])). mnorm.
      change (MV.py_eq_obj (mode_obj false) _) with (lift (POk false)). mnorm. cbn [py_truth].
      change (sighash_netvalue (mode_str false)) with (Some 0).
      rewrite (bind_eq (of_opt (Some 0) ValueError) _ w1 w1 0 eq_refl).
      change (0 =? 1) with false. unfold extradata, btc_payload.
      change (to_bytes_le 1 (Z.of_N 0)) with (Some [0]).
      change (to_bytes_le 2 (Z.of_N (nlen (@nil N)))) with (Some [0; 0]).
      change (MV.py_to_bytes_le (VInt (Z.of_N (nlen (@nil N)))) (VInt 2)) with (MV.POk (VBytes [0; 0])).
      mnorm. rewrite mv_to_bytes_le_4.
      replace (4 + 1 + 2 + Z.of_N (nlen tx))%Z with (Z.of_N (4 + 1 + 2 + nlen tx)) by lia.
      destruct (to_bytes_le 4 _) as [pl|] eqn:Epl.
      2: { mnorm. try_raise (Py OverflowError). reflexivity. }
      mnorm. rewrite <- !app_assoc.
      sign_tail Hrc Hproof proof.
Qed.

End WithOracles.
