(* SHA-256 model: streaming law for update, midstate resume, coinbase_tx_get_hash. *)
From PowHsm Require Import Model.Sha256 Proofs.BytesLemmas.
From Coq Require Import ZifyBool ZifyNat ZifyN Lia.
Ltac Zify.zify_post_hook ::= Z.to_euclidean_division_equations.
Open Scope N_scope.

(* ---------- facts that look inside compress: shape and word bounds ---------- *)

Lemma w32_lt x : w32 x < 2 ^ 32.
Proof.
  unfold w32, F32. change 4294967295 with (N.ones 32).
  rewrite N.land_ones. apply N.mod_lt. discriminate.
Qed.

Lemma round_length st kw : length (round st kw) = length st.
Proof.
  unfold round.
  destruct st as [|a [|b [|c [|d [|e [|f [|g [|h [|i r]]]]]]]]]; reflexivity.
Qed.

Lemma fold_round_length l st : length (fold_left round l st) = length st.
Proof.
  revert st. induction l as [|kw l IH]; intro st; cbn [fold_left]; [reflexivity|].
  rewrite IH. apply round_length.
Qed.

Lemma compress_length h blk : length (compress h blk) = length h.
Proof.
  unfold compress. rewrite map_length, combine_length, fold_round_length. lia.
Qed.

Definition words32 (l : list N) : Prop := Forall (fun x => x < 2 ^ 32) l.

Lemma compress_words32 h blk : words32 (compress h blk).
Proof.
  unfold compress, words32. apply Forall_forall. intros x Hx.
  apply in_map_iff in Hx. destruct Hx as [xy [<- _]]. apply w32_lt.
Qed.

Opaque compress.

(* ---------- compress_blocks ---------- *)

Lemma skipn_add {A} n m (l : list A) : skipn (n + m) l = skipn m (skipn n l).
Proof.
  revert l. induction n as [|n IH]; intro l; [reflexivity|].
  destruct l as [|x l]; cbn [Nat.add skipn]; [destruct m; reflexivity|apply IH].
Qed.

Lemma compress_blocks_add n m h l :
  compress_blocks (n + m) h l = compress_blocks m (compress_blocks n h l) (skipn (n * 64) l).
Proof.
  revert h l. induction n as [|n IH]; intros h l.
  - reflexivity.
  - cbn [Nat.add compress_blocks]. rewrite IH. rewrite <- skipn_add.
    replace (64 + n * 64)%nat with (S n * 64)%nat by lia. reflexivity.
Qed.

Lemma compress_blocks_prefix n h l r :
  (n * 64 <= length l)%nat -> compress_blocks n h (l ++ r) = compress_blocks n h l.
Proof.
  revert h l. induction n as [|n IH]; intros h l Hl; [reflexivity|].
  cbn [compress_blocks].
  rewrite firstn_app, skipn_app.
  replace (64 - length l)%nat with 0%nat by lia.
  change (firstn 0 r) with (@nil N). change (skipn 0 r) with r. rewrite app_nil_r.
  apply IH. rewrite skipn_length. lia.
Qed.

Lemma compress_blocks_length n h l : length (compress_blocks n h l) = length h.
Proof.
  revert h l. induction n as [|n IH]; intros h l; cbn [compress_blocks]; [reflexivity|].
  rewrite IH. apply compress_length.
Qed.

Lemma compress_blocks_words32 n h l : words32 h -> words32 (compress_blocks n h l).
Proof.
  revert h l. induction n as [|n IH]; intros h l Hh; cbn [compress_blocks]; [assumption|].
  apply IH. apply compress_words32.
Qed.

(* ---------- functional specification ---------- *)

(* fold compress over the 64-byte blocks of m (any incomplete last block is ignored) *)
Definition sha_blocks (h : list N) (m : bytes) : list N := compress_blocks (length m / 64) h m.

Lemma sha_blocks_nil h : sha_blocks h [] = h.
Proof. reflexivity. Qed.

Lemma sha_blocks_block h blk m :
  length blk = 64%nat -> sha_blocks h (blk ++ m) = sha_blocks (compress h blk) m.
Proof.
  intro Hb. unfold sha_blocks. rewrite app_length, Hb.
  replace ((64 + length m) / 64)%nat with (S (length m / 64)) by lia.
  cbn [compress_blocks]. rewrite <- Hb. rewrite firstn_app_exact, skipn_app_exact. reflexivity.
Qed.

Lemma sha_blocks_app h a b :
  (length a mod 64 = 0)%nat -> sha_blocks h (a ++ b) = sha_blocks (sha_blocks h a) b.
Proof.
  intro Ha. unfold sha_blocks. rewrite app_length.
  replace ((length a + length b) / 64)%nat with (length a / 64 + length b / 64)%nat by lia.
  rewrite compress_blocks_add. rewrite compress_blocks_prefix by lia.
  replace (length a / 64 * 64)%nat with (length a) by lia.
  rewrite skipn_app_exact. reflexivity.
Qed.

(* ---------- update ---------- *)

Definition cache_ok (st : sha_state) : Prop := (length (sh_cache st) < 64)%nat.

Lemma sha_update_nil st : sha_update st [] = st.
Proof. reflexivity. Qed.

Lemma sha_update_eq st m :
  m <> [] ->
  sha_update st m =
  mkSha (sh_counter st + nlen m)
        (skipn (length (sh_cache st ++ m) / 64 * 64) (sh_cache st ++ m))
        (sha_blocks (sh_h st) (sh_cache st ++ m)).
Proof. destruct m; [congruence|reflexivity]. Qed.

Lemma cache_ok_init : cache_ok sha_init.
Proof. unfold cache_ok. cbn. lia. Qed.

Lemma sha_update_cache_ok st m : cache_ok st -> cache_ok (sha_update st m).
Proof.
  intro H. destruct m as [|x m]; [exact H|].
  rewrite sha_update_eq by discriminate. unfold cache_ok. cbn [sh_cache].
  rewrite skipn_length. lia.
Qed.

(* after a non-empty update the cache is short whatever it was before *)
Lemma sha_update_cache_lt st m : m <> [] -> cache_ok (sha_update st m).
Proof.
  intro H. rewrite sha_update_eq by assumption. unfold cache_ok. cbn [sh_cache].
  rewrite skipn_length. lia.
Qed.

Lemma sha_update_counter st m : sh_counter (sha_update st m) = sh_counter st + nlen m.
Proof. destruct m; [unfold nlen; cbn; lia|reflexivity]. Qed.

(* the monoid action law; no hypothesis on the cache is needed *)
Theorem sha_update_app st a b : sha_update (sha_update st a) b = sha_update st (a ++ b).
Proof.
  destruct a as [|xa a]; [reflexivity|].
  destruct b as [|xb b]; [rewrite app_nil_r; reflexivity|].
  set (A := xa :: a). set (B := xb :: b).
  assert (HA : A <> []) by discriminate. assert (HB : B <> []) by discriminate.
  assert (HAB : A ++ B <> []) by discriminate.
  rewrite (sha_update_eq st A HA). rewrite (sha_update_eq _ B HB).
  rewrite (sha_update_eq st (A ++ B) HAB).
  cbn [sh_counter sh_cache sh_h].
  set (full := sh_cache st ++ A).
  rewrite (app_assoc (sh_cache st) A B). fold full.
  set (nb := (length full / 64)%nat).
  assert (Hnb : (nb * 64 <= length full)%nat) by (unfold nb; lia).
  assert (Hsk : skipn (nb * 64) (full ++ B) = skipn (nb * 64) full ++ B).
  { rewrite skipn_app. replace (nb * 64 - length full)%nat with 0%nat by lia. reflexivity. }
  assert (Hlen : length (skipn (nb * 64) full ++ B) = (length (full ++ B) - nb * 64)%nat).
  { rewrite <- Hsk. apply skipn_length. }
  assert (Hdiv : (length (full ++ B) / 64
                  = nb + length (skipn (nb * 64) full ++ B) / 64)%nat).
  { rewrite Hlen. rewrite app_length. unfold nb. lia. }
  f_equal.
  - rewrite nlen_app. lia.
  - rewrite Hdiv. rewrite Nat.mul_add_distr_r.
    rewrite skipn_add. rewrite Hsk. reflexivity.
  - unfold sha_blocks at 1 3. rewrite Hdiv. rewrite compress_blocks_add.
    rewrite (compress_blocks_prefix nb _ full B) by assumption. rewrite Hsk. reflexivity.
Qed.

Corollary sha_update_app_h st a b :
  sh_cache st = [] ->
  sh_h (sha_update (sha_update st a) b) = sh_h (sha_update st (a ++ b)) /\
  sh_counter (sha_update (sha_update st a) b) = sh_counter (sha_update st (a ++ b)).
Proof. intros _. rewrite sha_update_app. split; reflexivity. Qed.

(* general shape on an empty cache *)
Lemma sha_update_empty_cache st m :
  sh_cache st = [] ->
  sha_update st m = mkSha (sh_counter st + nlen m)
                          (skipn (length m / 64 * 64) m) (sha_blocks (sh_h st) m).
Proof.
  intros Hc. destruct m as [|x m].
  - rewrite sha_update_nil. destruct st as [c ca h]. cbn in Hc. subst ca.
    unfold nlen. cbn [length sh_counter sh_h]. rewrite sha_blocks_nil.
    rewrite N.add_0_r. reflexivity.
  - rewrite sha_update_eq by discriminate. rewrite Hc. reflexivity.
Qed.

(* block-aligned input on an empty cache: h is the fold of compress, cache stays empty *)
Lemma sha_update_aligned st m :
  sh_cache st = [] -> (length m mod 64 = 0)%nat ->
  sha_update st m = mkSha (sh_counter st + nlen m) [] (sha_blocks (sh_h st) m).
Proof.
  intros Hc Hm. rewrite sha_update_empty_cache by assumption. f_equal.
  replace (length m / 64 * 64)%nat with (length m) by lia.
  apply skipn_all.
Qed.

(* ---------- big-endian word codec ---------- *)

Lemma word_be_length x : length (word_be x) = 4%nat.
Proof. unfold word_be. rewrite rev_length. apply le_bytes_length. Qed.

Lemma from_bytes_be_rev_le_bytes k n :
  n < 256 ^ N.of_nat k -> from_bytes_be (rev (le_bytes k n)) = n.
Proof.
  intro H. pose proof (from_bytes_le_le_bytes k n) as E. unfold from_bytes_le in E.
  rewrite E. apply N.mod_small. assumption.
Qed.

Lemma from_bytes_be_word_be x : x < 2 ^ 32 -> from_bytes_be (word_be x) = x.
Proof. intro H. unfold word_be. apply from_bytes_be_rev_le_bytes. exact H. Qed.

Lemma concat_word_be_length ws : length (concat (map word_be ws)) = (4 * length ws)%nat.
Proof.
  induction ws as [|w ws IH]; [reflexivity|].
  cbn [map concat length]. rewrite app_length, word_be_length, IH. lia.
Qed.

Lemma firstn_app_len {A} (a b : list A) n : length a = n -> firstn n (a ++ b) = a.
Proof. intros <-. apply firstn_app_exact. Qed.
Lemma skipn_app_len {A} (a b : list A) n : length a = n -> skipn n (a ++ b) = b.
Proof. intros <-. apply skipn_app_exact. Qed.

Lemma words_be_concat ws r n :
  words32 ws -> length ws = n -> words_be (concat (map word_be ws) ++ r) n = ws.
Proof.
  intros Hw. revert n. induction Hw as [|w ws Hlt Hws IH]; intros n Hn; subst n.
  - reflexivity.
  - cbn [length words_be map concat]. rewrite <- app_assoc.
    rewrite (firstn_app_len _ _ 4 (word_be_length w)).
    rewrite (skipn_app_len _ _ 4 (word_be_length w)).
    rewrite from_bytes_be_word_be by exact Hlt. f_equal. apply IH. reflexivity.
Qed.

Lemma slice_mid' {A} (a b c : list A) i j :
  length a = i -> (i + length b = j)%nat -> slice (a ++ b ++ c) i j = b.
Proof. intros <- <-. apply slice_mid. Qed.

(* ---------- state reached from sha_init ---------- *)

Lemma H256_words32 : words32 H256.
Proof. unfold words32, H256. repeat constructor. Qed.

Lemma sha_init_update p :
  sha_update sha_init p
  = mkSha (nlen p) (skipn (length p / 64 * 64) p) (sha_blocks H256 p).
Proof. rewrite sha_update_empty_cache by reflexivity. reflexivity. Qed.

Lemma sha_init_update_aligned p :
  (length p mod 64 = 0)%nat -> sha_update sha_init p = mkSha (nlen p) [] (sha_blocks H256 p).
Proof. intro H. rewrite sha_update_aligned by (reflexivity || assumption). reflexivity. Qed.

Lemma sha_init_update_h_length p : length (sh_h (sha_update sha_init p)) = 8%nat.
Proof. rewrite sha_init_update. cbn [sh_h]. unfold sha_blocks. rewrite compress_blocks_length. reflexivity. Qed.

Lemma sha_init_update_h_words32 p : words32 (sh_h (sha_update sha_init p)).
Proof.
  rewrite sha_init_update. cbn [sh_h]. apply compress_blocks_words32. apply H256_words32.
Qed.

(* ---------- midstate ---------- *)

Definition be8 (n : N) : bytes := rev (le_bytes 8 n).

Lemma be8_length n : length (be8 n) = 8%nat.
Proof. unfold be8. rewrite rev_length. apply le_bytes_length. Qed.

(* the 40-byte trimmed midstate: 8-byte big-endian counter, then the eight words big-endian *)
Definition midstate40 (st : sha_state) : bytes :=
  be8 (sh_counter st) ++ concat (map word_be (sh_h st)).

(* set_midstate on a 52-byte string carrying the counter and words of the state reached after a
   block-aligned prefix p rebuilds exactly that state *)
Theorem set_midstate_prefix p mid :
  (length p mod 64 = 0)%nat -> nlen p < 2 ^ 64 ->
  length mid = 52%nat ->
  slice mid 8 16 = be8 (nlen p) ->
  slice mid 16 48 = concat (map word_be (sh_h (sha_update sha_init p))) ->
  sha_set_midstate sha_init mid = Some (sha_update sha_init p).
Proof.
  intros Hp Hlt Hlen Hc Hh. unfold sha_set_midstate.
  replace (nlen mid =? 52) with true by (unfold nlen; rewrite Hlen; reflexivity).
  cbn [negb]. f_equal.
  rewrite Hc. unfold be8. rewrite from_bytes_be_rev_le_bytes by exact Hlt.
  rewrite <- (firstn_skipn 32 (skipn 16 mid)).
  unfold slice in Hh. change (48 - 16)%nat with 32%nat in Hh. rewrite Hh.
  rewrite words_be_concat
    by (apply sha_init_update_h_words32 || apply sha_init_update_h_length).
  rewrite (sha_init_update_aligned p Hp). reflexivity.
Qed.

Corollary set_midstate_prefix_fields p mid :
  (length p mod 64 = 0)%nat -> nlen p < 2 ^ 64 ->
  length mid = 52%nat ->
  slice mid 8 16 = be8 (nlen p) ->
  slice mid 16 48 = concat (map word_be (sh_h (sha_update sha_init p))) ->
  exists st', sha_set_midstate sha_init mid = Some st' /\
              sh_counter st' = nlen p /\ sh_h st' = sh_h (sha_update sha_init p) /\
              sh_cache st' = [].
Proof.
  intros Hp Hlt Hlen Hc Hh. exists (sha_update sha_init p).
  split; [apply set_midstate_prefix; assumption|].
  rewrite (sha_init_update_aligned p Hp). repeat split.
Qed.

(* resuming from the midstate hashes exactly p ++ t *)
Theorem midstate_resume p mid t :
  (length p mod 64 = 0)%nat -> nlen p < 2 ^ 64 ->
  length mid = 52%nat ->
  slice mid 8 16 = be8 (nlen p) ->
  slice mid 16 48 = concat (map word_be (sh_h (sha_update sha_init p))) ->
  exists st', sha_set_midstate sha_init mid = Some st' /\
              sha_update st' t = sha_update sha_init (p ++ t) /\
              sha_digest (sha_update st' t) = sha_digest (sha_update sha_init (p ++ t)).
Proof.
  intros Hp Hlt Hlen Hc Hh. exists (sha_update sha_init p).
  split; [apply set_midstate_prefix; assumption|].
  rewrite sha_update_app. split; reflexivity.
Qed.

(* ---------- digest ---------- *)

Lemma sha_digest_some st :
  sh_counter st * 8 < 2 ^ 64 -> exists d, sha_digest st = Some d.
Proof.
  intro H. change (2 ^ 64) with 18446744073709551616 in H.
  unfold sha_digest, sha_pad.
  destruct (18446744073709551615 <? sh_counter st * 8) eqn:E; [lia|].
  eexists. reflexivity.
Qed.

Lemma sha256_digest m d : sha_digest (sha_update sha_init m) = Some d -> sha256 m = d.
Proof. intro H. unfold sha256. rewrite H. reflexivity. Qed.

(* ---------- coinbase_tx_get_hash ---------- *)

Lemma midstate40_length st : length (sh_h st) = 8%nat -> length (midstate40 st) = 40%nat.
Proof.
  intro H. unfold midstate40. rewrite app_length, be8_length, concat_word_be_length, H.
  reflexivity.
Qed.

Theorem coinbase_tx_get_hash_midstate p tail :
  (length p mod 64 = 0)%nat ->
  nlen (p ++ tail) * 8 < 2 ^ 64 ->
  coinbase_tx_get_hash (midstate40 (sha_update sha_init p) ++ tail)
  = Some (rev (sha256 (sha256 (p ++ tail)))).
Proof.
  intros Hp Hov. set (stp := sha_update sha_init p).
  assert (Hh8 : length (sh_h stp) = 8%nat) by apply sha_init_update_h_length.
  assert (H40 : length (midstate40 stp) = 40%nat) by (apply midstate40_length; exact Hh8).
  assert (Hcnt : sh_counter stp = nlen p) by (unfold stp; rewrite sha_init_update; reflexivity).
  assert (Hlt : nlen p < 2 ^ 64).
  { rewrite nlen_app in Hov. change (2 ^ 64) with 18446744073709551616 in *. lia. }
  unfold coinbase_tx_get_hash.
  rewrite (firstn_app_len _ _ 40 H40), (skipn_app_len _ _ 40 H40).
  assert (Hmid : sha_set_midstate sha_init (repeat 0 8 ++ midstate40 stp ++ repeat 0 4)
                 = Some stp).
  { apply set_midstate_prefix; try assumption.
    - rewrite !app_length, H40, !repeat_length. reflexivity.
    - unfold midstate40. rewrite Hcnt. rewrite <- app_assoc.
      apply slice_mid'; [apply repeat_length|rewrite be8_length; reflexivity].
    - unfold midstate40. rewrite <- app_assoc. rewrite (app_assoc (repeat 0 8)).
      apply slice_mid'.
      + rewrite app_length, repeat_length, be8_length. reflexivity.
      + rewrite concat_word_be_length. fold stp. rewrite Hh8. reflexivity. }
  rewrite Hmid. unfold stp. rewrite sha_update_app.
  destruct (sha_digest_some (sha_update sha_init (p ++ tail))) as [d Hd].
  { rewrite sha_update_counter. exact Hov. }
  rewrite Hd. rewrite (sha256_digest _ _ Hd). reflexivity.
Qed.

(* the same, stated on an arbitrary tx split as midstate ++ tail *)
Corollary coinbase_tx_get_hash_split tx p mid40 tail :
  (length p mod 64 = 0)%nat ->
  mid40 = be8 (nlen p) ++ concat (map word_be (sh_h (sha_update sha_init p))) ->
  tx = mid40 ++ tail ->
  nlen (p ++ tail) * 8 < 2 ^ 64 ->
  coinbase_tx_get_hash tx = Some (rev (sha256 (sha256 (p ++ tail)))).
Proof.
  intros Hp Hm -> Hov. rewrite <- (coinbase_tx_get_hash_midstate p tail Hp Hov).
  f_equal. f_equal. rewrite Hm. unfold midstate40. rewrite sha_init_update. reflexivity.
Qed.

(* ---------- sha256 as a fold over the padded message ---------- *)

Definition pad_of (msglen : N) : bytes :=
  let mdi := msglen mod 64 in
  128 :: repeat 0 (N.to_nat (if mdi <? 56 then 55 - mdi else 119 - mdi)) ++ be8 (msglen * 8).

Lemma sha_pad_eq n : n * 8 < 2 ^ 64 -> sha_pad n = Some (pad_of n).
Proof.
  intro H. change (2 ^ 64) with 18446744073709551616 in H. unfold sha_pad, pad_of.
  destruct (18446744073709551615 <? n * 8) eqn:E; [lia|].
  change 63 with (N.ones 6). rewrite N.land_ones. change (2 ^ 6) with 64. reflexivity.
Qed.

Lemma pad_of_aligned (m : bytes) : (length (m ++ pad_of (nlen m)) mod 64 = 0)%nat.
Proof.
  unfold pad_of. rewrite app_length. cbn [length]. rewrite app_length, repeat_length, be8_length.
  unfold nlen. destruct (N.of_nat (length m) mod 64 <? 56) eqn:E; lia.
Qed.

Theorem sha256_spec m :
  nlen m * 8 < 2 ^ 64 ->
  sha256 m = concat (map word_be (sha_blocks H256 (m ++ pad_of (nlen m)))).
Proof.
  intro H. apply sha256_digest. unfold sha_digest.
  rewrite sha_update_counter. change (sh_counter sha_init) with 0. rewrite N.add_0_l.
  rewrite (sha_pad_eq _ H). rewrite sha_update_app.
  rewrite (sha_init_update_aligned _ (pad_of_aligned m)). reflexivity.
Qed.

Lemma sha256_length m : nlen m * 8 < 2 ^ 64 -> length (sha256 m) = 32%nat.
Proof.
  intro H. rewrite (sha256_spec m H). rewrite concat_word_be_length.
  unfold sha_blocks. rewrite compress_blocks_length. reflexivity.
Qed.

(* ---------- examples ---------- *)

Example sha256_abc :
  hex (sha256 (s "abc")) = s "ba7816bf8f01cfea414140de5dae2223b00361a396177a9cb410ff61f20015ad".
Proof. vm_compute. reflexivity. Qed.

Example sha256_empty :
  hex (sha256 []) = s "e3b0c44298fc1c149afbf4c8996fb92427ae41e4649b934ca495991b7852b855".
Proof. vm_compute. reflexivity. Qed.

(* p = bytes(range(64)), tail = bytes(range(64, 74)) *)
Definition ex_p : bytes := map N.of_nat (seq 0 64).
Definition ex_tail : bytes := map N.of_nat (seq 64 10).

Example ex_midstate :
  hex (midstate40 (sha_update sha_init ex_p))
  = s "0000000000000040fc99a2df88f42a7a7bb9d18033cdc6a20256755f9d5b9a5044a9cc315abe84a7".
Proof. vm_compute. reflexivity. Qed.

Example ex_set_midstate :
  sha_set_midstate sha_init
    (hx "00000000000000000000000000000040fc99a2df88f42a7a7bb9d18033cdc6a20256755f9d5b9a5044a9cc315abe84a700000000")
  = Some (sha_update sha_init ex_p).
Proof. vm_compute. reflexivity. Qed.

Example ex_resume :
  coinbase_tx_get_hash
    (hx "0000000000000040fc99a2df88f42a7a7bb9d18033cdc6a20256755f9d5b9a5044a9cc315abe84a7" ++ ex_tail)
  = Some (rev (sha256 (sha256 (ex_p ++ ex_tail)))).
Proof. vm_compute. reflexivity. Qed.

Example ex_resume_hex :
  option_map hex
    (coinbase_tx_get_hash
       (hx "0000000000000040fc99a2df88f42a7a7bb9d18033cdc6a20256755f9d5b9a5044a9cc315abe84a7" ++ ex_tail))
  = Some (s "3c755d7bd88ca130b511f722e15a46258190d4da9d17b84c29a2ee77bebb6337").
Proof. vm_compute. reflexivity. Qed.
