(* C18, continued: on a Ledger, do_onboard goes on after the first dispose_hsm and unlocks the
   freshly onboarded device (onboard.py 135-152).  The PIN of that unlock step leaves under the
   same conditions as the PIN of a stand-alone do_unlock. *)
From PowHsm Require Import Model.Admin Proofs.TraceLogic Proofs.C09 Proofs.C10 Proofs.C18.
Open Scope N_scope.

(* ====================================================================== *)
(* 0. Forgetting the value an action returns                               *)
(* ====================================================================== *)

Definition result_to_unit {A} (x : result A * world) : result unit * world :=
  (match fst x with Ok _ => Ok tt | Exn e => Exn e end, snd x).

Definition to_unit {A} (m : M A) : M unit := fun w => result_to_unit (m w).

Lemma to_unit_bind {A B} (m : M A) (f : A -> M B) :
  meq (to_unit (bind m f)) (bind m (fun a => to_unit (f a))).
Proof. intro w. unfold to_unit, bind. destruct (m w) as [[a|e] w1]; reflexivity. Qed.

Lemma snd_result_to_unit {A} (x : result A * world) : snd (result_to_unit x) = snd x.
Proof. reflexivity. Qed.

Lemma disconnect_to_unit {A} (a : A) : meq disconnect (to_unit (disconnect ;;; ret a)).
Proof. intro w. unfold to_unit, bind, disconnect, ret. destruct (opened w); reflexivity. Qed.

(* ---------- (a) ---------- *)
Theorem do_onboard_keep_agrees k o stdin typed seed w :
  do_onboard k o stdin typed seed w = result_to_unit (do_onboard_keep k o stdin typed seed w).
Proof.
  revert w. change (meq (do_onboard k o stdin typed seed) (to_unit (do_onboard_keep k o stdin typed seed))).
  unfold do_onboard, do_onboard_keep.
  do 13 (eapply meq_trans; [|apply meq_sym, to_unit_bind]; apply meq_cong; intro).
  apply disconnect_to_unit.
Qed.

Lemma do_onboard_keep_world k o stdin typed seed w :
  snd (do_onboard_keep k o stdin typed seed w) = snd (do_onboard k o stdin typed seed w).
Proof. rewrite do_onboard_keep_agrees. reflexivity. Qed.

(* ====================================================================== *)
(* 1. Both halves only extend the trace                                    *)
(* ====================================================================== *)

Lemma ext_do_onboard_keep k o stdin typed seed : ext (do_onboard_keep k o stdin typed seed).
Proof.
  intro w. destruct (do_onboard_shape k o stdin typed seed w) as [n [Hn _]].
  exists n. rewrite do_onboard_keep_world. auto.
Qed.

Lemma ext_onboard_second_half k o stdin_rest typed_rest :
  ext (onboard_second_half k o stdin_rest typed_rest).
Proof.
  unfold onboard_second_half. destruct k; try apply ext_ret.
  apply ext_bind; [apply ext_ret|intro].
  apply ext_try.
  - apply ext_bind; [apply ext_do_unlock|intro; apply ext_ret].
  - intros e0 k0 H. injection H as <-. apply ext_raise.
Qed.

Lemma new_events_same w : new_events w w = [].
Proof. apply news_new_events, news_refl. Qed.

Lemma ext_news {A} (m : M A) w : ext m -> news w (snd (m w)) (new_events w (snd (m w))).
Proof. intro H. destruct (H w) as [n [Hn _]]. rewrite (news_new_events _ _ _ Hn). exact Hn. Qed.

(* ====================================================================== *)
(* 2. The unlock step: try/except and the stdin read add no events         *)
(* ====================================================================== *)

Lemma second_half_world_ledger o stdin_rest typed_rest w :
  snd (onboard_second_half KLedger o stdin_rest typed_rest w)
  = snd (do_unlock KLedger o true true typed_rest w).
Proof.
  unfold onboard_second_half, try_catch, bind, ret, raise.
  destruct (do_unlock KLedger o true true typed_rest w) as [[a|e] w1]; reflexivity.
Qed.

(* ---------- (b) ---------- *)
Theorem onboard_second_half_pin_only_when k o stdin_rest typed_rest w n1 u n2 :
  new_events w (snd (onboard_second_half k o stdin_rest typed_rest w)) = n1 ++ u :: n2 ->
  pin_bearing u = true ->
  InOrder (unlock_pre_events k) n1
  /\ (forall p, o_pin o = Some p -> pin_is_valid p (o_any_pin o) = true).
Proof.
  intros E Hu. destruct k.
  - rewrite second_half_world_ledger in E.
    exact (unlock_pin_only_when KLedger o true true typed_rest w n1 u n2 E Hu).
  - cbn [onboard_second_half ret snd] in E. rewrite new_events_same in E.
    destruct n1; discriminate E.
  - cbn [onboard_second_half ret snd] in E. rewrite new_events_same in E.
    destruct n1; discriminate E.
Qed.

(* ---------- (c) ---------- *)
Theorem onboard_through_unlock_split k o stdin typed seed w :
  match do_onboard_keep k o stdin typed seed w with
  | (Ok r, w1) =>
      do_onboard_through_unlock k o stdin typed seed w = onboard_second_half k o (fst r) (snd r) w1
      /\ new_events w (snd (do_onboard_through_unlock k o stdin typed seed w))
         = new_events w w1 ++ new_events w1 (snd (onboard_second_half k o (fst r) (snd r) w1))
  | (Exn e, w1) =>
      do_onboard_through_unlock k o stdin typed seed w = (Exn e, w1)
      /\ new_events w (snd (do_onboard_through_unlock k o stdin typed seed w)) = new_events w w1
  end.
Proof.
  pose proof (ext_news _ w (ext_do_onboard_keep k o stdin typed seed)) as H1.
  unfold do_onboard_through_unlock at 1 3. unfold bind.
  destruct (do_onboard_keep k o stdin typed seed w) as [[r|e] w1] eqn:E1; cbn [snd] in H1.
  - split; [reflexivity|].
    pose proof (ext_news _ w1 (ext_onboard_second_half k o (fst r) (snd r))) as H2.
    unfold do_onboard_through_unlock, bind. rewrite E1.
    apply news_new_events. eapply news_trans; eassumption.
  - split; [reflexivity|].
    unfold do_onboard_through_unlock, bind. rewrite E1. reflexivity.
Qed.

(* ---------- (d) ---------- *)
Theorem onboard_through_unlock_pin_after_onboarding k o stdin typed seed w r w1 n1 u n2 :
  do_onboard_keep k o stdin typed seed w = (Ok r, w1) ->
  new_events w1 (snd (do_onboard_through_unlock k o stdin typed seed w)) = n1 ++ u :: n2 ->
  pin_bearing u = true ->
  InOrder (unlock_pre_events k) n1
  /\ (forall p, o_pin o = Some p -> pin_is_valid p (o_any_pin o) = true).
Proof.
  intros E1 E Hu.
  pose proof (onboard_through_unlock_split k o stdin typed seed w) as Hs.
  rewrite E1 in Hs. destruct Hs as [Hrun _]. rewrite Hrun in E.
  exact (onboard_second_half_pin_only_when k o (fst r) (snd r) w1 n1 u n2 E Hu).
Qed.

(* the same, counted from the start of the command: a PIN-bearing event that comes after the
   events of the first half has the unlock preconditions between the two *)
Corollary onboard_through_unlock_pin_after_onboarding_whole k o stdin typed seed w r w1 n1 u n2 :
  do_onboard_keep k o stdin typed seed w = (Ok r, w1) ->
  new_events w (snd (do_onboard_through_unlock k o stdin typed seed w))
  = new_events w w1 ++ n1 ++ u :: n2 ->
  pin_bearing u = true ->
  InOrder (unlock_pre_events k) n1
  /\ (forall p, o_pin o = Some p -> pin_is_valid p (o_any_pin o) = true).
Proof.
  intros E1 E Hu.
  pose proof (onboard_through_unlock_split k o stdin typed seed w) as Hs.
  rewrite E1 in Hs. destruct Hs as [Hrun Hev]. rewrite Hev in E. apply app_inv_head in E.
  exact (onboard_second_half_pin_only_when k o (fst r) (snd r) w1 n1 u n2 E Hu).
Qed.

(* ====================================================================== *)
(* 3. Non-vacuity                                                          *)
(* ====================================================================== *)

(* the reconnected, now onboarded Ledger: bootloader, onboarded, echo, 8 PIN bytes, UNLOCK,
   and no answer to EXIT_MENU_NO_AUTOEXEC *)
Definition ex_unlock_script : list resp :=
  [Data [CLA; MODE_BOOTLOADER]; Data [CLA; 1; 5; 4; 1]; Data (CLA :: CMD_ECHO :: echo_msg)]
  ++ repeat (Data [CLA; CMD_SEND_PIN]) 8 ++ [Data [CLA; CMD_UNLOCK; 1]; TimeoutR].

Definition ex_run_w : world := ex_w (ex_ledger_script ++ ex_unlock_script).
Definition ex_stdin : list str := [s "yes"; s ""; s "left"].
Definition ex_typed : list bytes := [ex_pin8; ex_pin8; [1]].

(* the first half succeeds and keeps what the operator was not asked for; the second half
   consumes the [Enter] line, unlocks with the next typed PIN (8 SEND_PIN + UNLOCK) and ends well *)
Example ex_onboard_then_unlock :
  let m1 := do_onboard_keep KLedger ex_opts ex_stdin ex_typed ex_seed in
  let m := do_onboard_through_unlock KLedger ex_opts ex_stdin ex_typed ex_seed in
  let w1 := snd (m1 ex_run_w) in
  let n := new_events w1 (snd (m ex_run_w)) in
  fst (m1 ex_run_w) = Ok ([s ""; s "left"], [ex_pin8; [1]])
  /\ fst (m ex_run_w) = Ok tt
  /\ count destructive (new_events ex_run_w w1) = 42%nat
  /\ count pin_bearing n = 9%nat
  /\ firstn 4 n = [Connect true; Apdu [CLA; CMD_GET_MODE] (Data [CLA; MODE_BOOTLOADER]);
                   Apdu [CLA; CMD_IS_ONBOARD] (Data [CLA; 1; 5; 4; 1]);
                   Apdu (CLA :: CMD_ECHO :: echo_msg) (Data (CLA :: CMD_ECHO :: echo_msg))]
  /\ nth_error n 4 = Some (Apdu [CLA; CMD_SEND_PIN; 0; 49] (Data [CLA; CMD_SEND_PIN]))
  /\ nth_error n 12 = Some (Apdu [CLA; CMD_UNLOCK; 0; 0] (Data [CLA; CMD_UNLOCK; 1]))
  /\ nth_error n 13 = Some (Apdu [CLA; CMD_EXIT_MENU_NO_AUTOEXEC; 0; 0] TimeoutR)
  /\ nth_error n 14 = Some Close
  /\ length n = 15%nat
  /\ script (snd (m ex_run_w)) = [].
Proof. vm_compute. repeat split; reflexivity. Qed.

(* the hypotheses of onboard_through_unlock_pin_after_onboarding are satisfiable: this run,
   with u the UNLOCK APDU *)
Example ex_pin_after_onboarding_applies :
  exists r w1 n1 u n2,
    do_onboard_keep KLedger ex_opts ex_stdin ex_typed ex_seed ex_run_w = (Ok r, w1)
    /\ new_events w1 (snd (do_onboard_through_unlock KLedger ex_opts ex_stdin ex_typed ex_seed ex_run_w))
       = n1 ++ u :: n2
    /\ pin_bearing u = true
    /\ u = Apdu [CLA; CMD_UNLOCK; 0; 0] (Data [CLA; CMD_UNLOCK; 1])
    /\ length n1 = 12%nat.
Proof.
  pose (m1 := do_onboard_keep KLedger ex_opts ex_stdin ex_typed ex_seed).
  pose (m := do_onboard_through_unlock KLedger ex_opts ex_stdin ex_typed ex_seed).
  pose (n := new_events (snd (m1 ex_run_w)) (snd (m ex_run_w))).
  exists ([s ""; s "left"], [ex_pin8; [1]]), (snd (m1 ex_run_w)),
         (firstn 12 n), (Apdu [CLA; CMD_UNLOCK; 0; 0] (Data [CLA; CMD_UNLOCK; 1])), (skipn 13 n).
  split.
  { rewrite (surjective_pairing (do_onboard_keep _ _ _ _ _ _)). f_equal; vm_compute; reflexivity. }
  split; [vm_compute; reflexivity|].
  split; [vm_compute; reflexivity|].
  split; [reflexivity|vm_compute; reflexivity].
Qed.

(* SGX: onboarding ends at dispose_hsm, nothing is added *)
Example ex_sgx_no_second_half :
  let o := mkOpts (Some ex_pin8) None false false false false in
  let w := ex_w [Data [CLA; MODE_BOOTLOADER]; Data (CLA :: SGXCMD_SGX_ECHO :: echo_msg);
                 Data [CLA; 0; 5; 4; 1]; Data [CLA; SGXCMD_SGX_ONBOARD; 1]] in
  do_onboard_through_unlock KSgx o [s "yes"] [] ex_seed w = do_onboard KSgx o [s "yes"] [] ex_seed w.
Proof. vm_compute. reflexivity. Qed.

(* a failing unlock step surfaces as AdminError, whatever was raised inside *)
Example ex_unlock_step_fails :
  let m := do_onboard_through_unlock KLedger ex_opts ex_stdin ex_typed ex_seed in
  let w := ex_w (ex_ledger_script ++ [Raise]) in
  fst (m w) = Exn AdminError /\ count pin_bearing (skipn 46 (ex_events m w)) = 0%nat.
Proof. vm_compute. repeat split; reflexivity. Qed.
