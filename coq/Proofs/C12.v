(* C12: concurrent clients and the device.
   The sequential server (the kind read from the Python source) serialises whole requests:
   the device log is a concatenation of per-request blocks in connect order, each followed by the
   reply to the same client.  The threaded kind does not have this property. *)
From Coq Require Import Lia List Arith PeanoNat Bool.
From PowHsm Require Import Model.Conc.
Import ListNotations.
Local Open Scope nat_scope.
Local Open Scope list_scope.

(* ------------------------------------------------------------------ *)
(* 1. the generated constant *)

Theorem server_kind_is_sequential : SERVER_IS_SEQUENTIAL = true.
Proof. reflexivity. Qed.

(* ------------------------------------------------------------------ *)
(* vocabulary *)

Definition conn_of (a : action) : list nat :=
  match a with AConnect i => [i] | _ => [] end.

(* the clients that connect, in connect order *)
Definition connects (sched : list action) : list nat := flat_map conn_of sched.

(* the first k exchanges of client i, oldest first *)
Definition exs (i k : nat) : list obs := map (OExchange i) (seq 0 k).
Definition pairs (i k : nat) : list (nat * nat) := map (pair i) (seq 0 k).
Arguments exs : simpl never.
Arguments pairs : simpl never.

(* the observable events of a state, oldest first *)
Definition events (st : sstate) : list obs := rev (log st).

Definition exch_of (l : list obs) : list (nat * nat) :=
  flat_map (fun o => match o with OExchange i k => [(i, k)] | OReply _ => [] end) l.
Definition repl_of (l : list obs) : list nat :=
  flat_map (fun o => match o with OExchange _ _ => [] | OReply i => [i] end) l.

(* the clients that received a reply, in reply order *)
Definition replies (st : sstate) : list nat := repl_of (events st).

(* ------------------------------------------------------------------ *)
(* small list facts *)

Lemma NoDup_app_l {A} (a b : list A) : NoDup (a ++ b) -> NoDup a.
Proof.
  induction a as [|x a IH]; cbn; intros H; [constructor|].
  inversion H; subst. constructor; [|auto].
  intros Hin; apply H2, in_or_app; auto.
Qed.

Lemma existsb_eqb_false i l : ~ In i l -> existsb (Nat.eqb i) l = false.
Proof.
  induction l as [|x l IH]; cbn; intros H; [reflexivity|].
  destruct (Nat.eqb_spec i x); [exfalso; apply H; auto|].
  cbn. apply IH. intros Hin; apply H; auto.
Qed.

Lemma exchanges_events st : exchanges st = exch_of (events st).
Proof.
  unfold exchanges, events. generalize (log st); intros l.
  assert (G : forall acc,
    fold_left (fun acc o => match o with OExchange i k => (i, k) :: acc | OReply _ => acc end) l acc
    = exch_of (rev l) ++ acc).
  { induction l as [|o l IH]; intros acc; cbn; [reflexivity|].
    rewrite IH. unfold exch_of. rewrite flat_map_app. cbn.
    rewrite <- app_assoc. destruct o; reflexivity. }
  rewrite G, app_nil_r. reflexivity.
Qed.

Lemma exch_of_app a b : exch_of (a ++ b) = exch_of a ++ exch_of b.
Proof. apply flat_map_app. Qed.
Lemma repl_of_app a b : repl_of (a ++ b) = repl_of a ++ repl_of b.
Proof. apply flat_map_app. Qed.

Lemma exch_of_exs i k : exch_of (exs i k) = pairs i k.
Proof.
  unfold exs, pairs. generalize (seq 0 k); intros l.
  induction l; cbn; [reflexivity|]. f_equal; auto.
Qed.

Lemma repl_of_exs i k : repl_of (exs i k) = [].
Proof.
  unfold exs. generalize (seq 0 k); intros l. induction l; cbn; auto.
Qed.

Lemma exs_S i k : exs i (S k) = exs i k ++ [OExchange i k].
Proof. unfold exs. rewrite seq_S, map_app. reflexivity. Qed.

Lemma In_exs o i k : In o (exs i k) -> exists j, j < k /\ o = OExchange i j.
Proof.
  unfold exs. intros H. apply in_map_iff in H. destruct H as (j & <- & Hj).
  apply in_seq in Hj. exists j; split; [lia|reflexivity].
Qed.

(* ------------------------------------------------------------------ *)
(* 2. the sequential server *)

Section Seq.
Variable need : nat -> nat.

(* the complete block of one request: all its exchanges, then the reply to the same client *)
Definition block (i : nat) : list obs := exs i (need i) ++ [OReply i].
Definition blocks (l : list nat) : list obs := flat_map block l.
(* the exchanges done so far by the request being served *)
Definition partial (cur : list (nat * nat)) : list obs :=
  flat_map (fun p => exs (fst p) (snd p)) cur.

(* structural invariant, relative to the clients [conn] that have connected so far *)
Definition Inv (conn : list nat) (st : sstate) : Prop :=
  exists done,
    conn = done ++ map fst (serving st) ++ backlog st
    /\ length (serving st) <= 1
    /\ Forall (fun p => snd p <= need (fst p)) (serving st)
    /\ events st = blocks done ++ partial (serving st).

Lemma inv_s0 : Inv [] s0.
Proof. exists []. cbn. repeat split; auto. Qed.

Lemma inv_step conn st a :
  Inv conn st -> Inv (conn ++ conn_of a) (seq_step need a st).
Proof.
  intros (done & Hc & Hl & Hk & Hlog). unfold events in *.
  destruct st as [bl sv lg]; cbn in *.
  destruct a as [i| |i]; cbn [conn_of seq_step backlog serving log].
  - exists done. cbn. repeat split; auto.
    rewrite Hc, <- !app_assoc. reflexivity.
  - rewrite app_nil_r. destruct sv as [|[i k] rest].
    + destruct bl as [|i b].
      * exists done. cbn. repeat split; auto.
      * exists done. cbn. repeat split; auto.
        constructor; [cbn; lia|constructor].
    + destruct rest as [|p rest]; [|cbn in Hl; lia].
      unfold handler_step; cbn [backlog serving log].
      pose proof (Forall_inv Hk) as Hki; cbn in Hki.
      destruct (Nat.ltb_spec k (need i)) as [Hlt|Hge].
      * exists done. cbn. repeat split; auto.
        -- rewrite Hlog. unfold partial; cbn. rewrite !app_nil_r, exs_S, app_assoc. reflexivity.
      * assert (k = need i) by lia; subst k.
        exists (done ++ [i]). cbn. repeat split; auto.
        -- rewrite Hc. cbn. rewrite <- app_assoc. reflexivity.
        -- rewrite Hlog. unfold blocks, partial. rewrite flat_map_app. cbn.
           unfold block. rewrite !app_nil_r, <- !app_assoc. reflexivity.
  - rewrite app_nil_r. exists done. cbn. repeat split; auto.
Qed.

Lemma inv_fold sched : forall conn st,
  Inv conn st ->
  Inv (conn ++ connects sched) (fold_left (fun st a => seq_step need a st) sched st).
Proof.
  induction sched as [|a sched IH]; intros conn st H; cbn.
  - rewrite app_nil_r; exact H.
  - rewrite app_assoc. apply IH, inv_step, H.
Qed.

Lemma inv_run sched : Inv (connects sched) (run_seq need sched).
Proof. apply (inv_fold sched [] s0 inv_s0). Qed.

Lemma repl_of_blocks l : repl_of (blocks l) = l.
Proof.
  induction l as [|i l IH]; cbn; [reflexivity|].
  unfold block. rewrite !repl_of_app, repl_of_exs. cbn. f_equal. exact IH.
Qed.

Lemma repl_of_partial cur : repl_of (partial cur) = [].
Proof.
  induction cur as [|p cur IH]; cbn; [reflexivity|].
  rewrite repl_of_app, repl_of_exs. exact IH.
Qed.

Lemma exch_of_blocks l : exch_of (blocks l) = flat_map (fun i => pairs i (need i)) l.
Proof.
  induction l as [|i l IH]; [reflexivity|].
  change (blocks (i :: l)) with (block i ++ blocks l).
  unfold block. rewrite !exch_of_app, exch_of_exs, IH, <- app_assoc. reflexivity.
Qed.

Lemma exch_of_partial cur :
  exch_of (partial cur) = flat_map (fun p => pairs (fst p) (snd p)) cur.
Proof.
  induction cur as [|p cur IH]; [reflexivity|].
  change (partial (p :: cur)) with (exs (fst p) (snd p) ++ partial cur).
  rewrite exch_of_app, exch_of_exs, IH. reflexivity.
Qed.

(* The structure theorem: the events of a sequential run, oldest first, are the complete blocks
   of the clients already replied to -- which are exactly the first clients that connected, in
   connect order -- followed by a prefix of the block of the next one, if it has been accepted. *)
Theorem sequential_structure sched :
  let st := run_seq need sched in
  connects sched = replies st ++ map fst (serving st) ++ backlog st
  /\ length (serving st) <= 1
  /\ Forall (fun p => snd p <= need (fst p)) (serving st)
  /\ events st = blocks (replies st) ++ partial (serving st).
Proof.
  cbv zeta. destruct (inv_run sched) as (done & Hc & Hl & Hk & Hlog).
  assert (Hr : replies (run_seq need sched) = done).
  { unfold replies. rewrite Hlog, repl_of_app, repl_of_blocks, repl_of_partial, app_nil_r.
    reflexivity. }
  rewrite Hr. auto.
Qed.

Corollary sequential_serving_at_most_one sched :
  length (serving (run_seq need sched)) <= 1.
Proof. apply (sequential_structure sched). Qed.

(* (a) the device exchanges are the per-request runs in accept (= connect) order *)
Theorem sequential_blocks sched :
  let st := run_seq need sched in
  exchanges st =
    flat_map (fun i => pairs i (need i)) (replies st)
    ++ flat_map (fun p => pairs (fst p) (snd p)) (serving st).
Proof.
  cbv zeta. destruct (sequential_structure sched) as (_ & _ & _ & Hlog).
  rewrite exchanges_events, Hlog, exch_of_app, exch_of_blocks, exch_of_partial. reflexivity.
Qed.

(* ---- contiguity ---- *)

Lemma contig_same i js r closed :
  contiguous (map (pair i) js ++ r) closed (Some i) = contiguous r closed (Some i).
Proof.
  induction js as [|j js IH]; cbn; [reflexivity|]. rewrite Nat.eqb_refl. exact IH.
Qed.

(* runs of pairwise distinct clients, none of them already seen, are contiguous *)
Lemma contig_runs : forall (l : list (nat * nat)) closed cur,
  NoDup (map fst l) ->
  (forall x, In x (map fst l) -> ~ In x closed /\ cur <> Some x) ->
  contiguous (flat_map (fun p => pairs (fst p) (snd p)) l) closed cur = true.
Proof.
  induction l as [|[i c] l IH]; intros closed cur Hnd H; [reflexivity|].
  cbn [flat_map fst snd map] in *. inversion Hnd as [|? ? Hni Hnd']; subst.
  destruct c as [|c].
  - unfold pairs; cbn [seq map app]. apply IH; auto.
    intros x Hx; apply H; right; exact Hx.
  - unfold pairs; cbn [seq map app contiguous].
    destruct (H i (or_introl eq_refl)) as [Hnc Hcur].
    assert (Hrest : forall closed', (forall x, In x (map fst l) -> ~ In x closed') ->
              contiguous (map (pair i) (seq 1 c) ++
                          flat_map (fun p => pairs (fst p) (snd p)) l) closed' (Some i) = true).
    { intros closed' Hc'. rewrite contig_same. apply IH; auto.
      intros x Hx; split; [apply Hc'; exact Hx|]. intros E; inversion E; subst; auto. }
    destruct cur as [c0|].
    + destruct (Nat.eqb_spec c0 i) as [->|Hne]; [congruence|].
      rewrite existsb_eqb_false; [cbn [negb andb]|].
      * apply Hrest. intros x Hx [->|Hin].
        -- destruct (H x (or_intror Hx)) as [_ B]. congruence.
        -- destruct (H x (or_intror Hx)) as [A _]. auto.
      * intros [->|Hin]; auto.
    + rewrite existsb_eqb_false by exact Hnc. cbn [negb andb].
      apply Hrest. intros x Hx. apply (H x (or_intror Hx)).
Qed.

Lemma flat_map_pairs_map (l : list nat) :
  flat_map (fun i => pairs i (need i)) l
  = flat_map (fun p => pairs (fst p) (snd p)) (map (fun i => (i, need i)) l).
Proof. induction l as [|i l IH]; cbn; [reflexivity|]. rewrite IH. reflexivity. Qed.

(* (b) if every client connects at most once, the exchanges of one request form one block *)
Theorem sequential_atomic sched :
  NoDup (connects sched) -> atomic (run_seq need sched) = true.
Proof.
  intros Hnd. unfold atomic. rewrite sequential_blocks.
  destruct (sequential_structure sched) as (Hc & _ & _ & _).
  rewrite flat_map_pairs_map, <- flat_map_app.
  apply contig_runs.
  - rewrite map_app, map_map. cbn [fst]. rewrite map_id.
    rewrite Hc, app_assoc in Hnd. apply NoDup_app_l in Hnd. exact Hnd.
  - intros x _. split; [intros []|discriminate].
Qed.

(* ---- replies ---- *)

Lemma split_at_first_reply : forall e pre j i rest post,
  (forall x, ~ In (OReply x) e) ->
  e ++ OReply j :: rest = pre ++ OReply i :: post ->
  (pre = e /\ i = j /\ post = rest)
  \/ exists pre', pre = e ++ OReply j :: pre' /\ rest = pre' ++ OReply i :: post.
Proof.
  induction e as [|o e IH]; intros pre j i rest post He H.
  - destruct pre as [|o' pre]; cbn in H; inversion H; subst.
    + left; auto.
    + right. exists pre; auto.
  - destruct pre as [|o' pre]; cbn in H; inversion H; subst.
    + exfalso. apply (He i). left; reflexivity.
    + destruct (IH pre j i rest post) as [(-> & -> & ->)|(pre' & -> & ->)]; auto.
      * intros x Hx. apply (He x). right; exact Hx.
      * right. exists pre'. auto.
Qed.

Lemma no_reply_exs i k x : ~ In (OReply x) (exs i k).
Proof. intros H. apply In_exs in H. destruct H as (j & _ & E). discriminate. Qed.

Lemma no_reply_partial cur x : ~ In (OReply x) (partial cur).
Proof.
  unfold partial. intros H. apply in_flat_map in H. destruct H as (p & _ & H).
  exact (no_reply_exs _ _ _ H).
Qed.

Lemma reply_in_blocks : forall done tail pre post i,
  (forall x, ~ In (OReply x) tail) ->
  blocks done ++ tail = pre ++ OReply i :: post ->
  exists d1 d2, done = d1 ++ i :: d2
    /\ pre = blocks d1 ++ exs i (need i)
    /\ post = blocks d2 ++ tail.
Proof.
  induction done as [|d ds IH]; intros tail pre post i Ht H.
  - cbn in H. exfalso. apply (Ht i). rewrite H. apply in_or_app. right; left; reflexivity.
  - change (blocks (d :: ds)) with (block d ++ blocks ds) in H. unfold block in H.
    rewrite <- !app_assoc in H. cbn [app] in H.
    apply split_at_first_reply in H; [|intros x; apply no_reply_exs].
    destruct H as [(-> & -> & ->)|(pre' & -> & H)].
    + exists [], ds. cbn. auto.
    + apply IH in H; [|exact Ht].
      destruct H as (d1 & d2 & -> & -> & ->).
      exists (d :: d1), d2. repeat split.
      change (blocks (d :: d1)) with (block d ++ blocks d1). unfold block.
      rewrite <- !app_assoc. reflexivity.
Qed.

(* (c) every reply event is the reply to the request whose exchanges were just done: it comes
   immediately after the complete run of exchanges of the same client, whole blocks of other
   clients before it and after it. *)
Theorem every_reply_own_request sched pre post i :
  let st := run_seq need sched in
  events st = pre ++ OReply i :: post ->
  exists d1 d2,
    replies st = d1 ++ i :: d2
    /\ pre = blocks d1 ++ exs i (need i)
    /\ post = blocks d2 ++ partial (serving st).
Proof.
  cbv zeta. intros H.
  destruct (sequential_structure sched) as (_ & _ & _ & Hlog).
  rewrite Hlog in H. apply reply_in_blocks in H; [exact H|].
  intros x; apply no_reply_partial.
Qed.

Lemma In_repl_of i l : In i (repl_of l) <-> In (OReply i) l.
Proof.
  unfold repl_of. rewrite in_flat_map. split.
  - intros (o & Ho & Hi). destruct o; cbn in Hi; [tauto|]. destruct Hi as [->|[]]. exact Ho.
  - intros H. exists (OReply i). split; [exact H|left; reflexivity].
Qed.

(* 3. replies are given in connect order: the replied clients are a prefix of the connects *)
Theorem sequential_fifo sched :
  exists rest, connects sched = replies (run_seq need sched) ++ rest.
Proof.
  destruct (sequential_structure sched) as (Hc & _). eexists. exact Hc.
Qed.

(* a reply is only ever sent to a client that connected *)
Corollary reply_only_connected sched i :
  In (OReply i) (log (run_seq need sched)) -> In i (connects sched).
Proof.
  intros H. destruct (sequential_fifo sched) as (rest & ->).
  apply in_or_app. left. unfold replies. apply In_repl_of. unfold events.
  apply in_rev. rewrite rev_involutive. exact H.
Qed.

(* ... and at most once when it connected once *)
Corollary reply_at_most_once sched :
  NoDup (connects sched) -> NoDup (replies (run_seq need sched)).
Proof.
  intros H. destruct (sequential_fifo sched) as (rest & E). rewrite E in H.
  apply NoDup_app_l in H. exact H.
Qed.

(* ---- every client is eventually replied to ---- *)

Definition measure (st : sstate) : nat :=
  list_sum (map (fun p => need (fst p) - snd p + 1) (serving st))
  + list_sum (map (fun i => need i + 2) (backlog st)).

Lemma measure_step conn st :
  Inv conn st ->
  (measure st = 0 /\ seq_step need AStep st = st)
  \/ measure (seq_step need AStep st) < measure st.
Proof.
  intros (done & _ & Hl & Hk & _). destruct st as [bl sv lg]. unfold measure. cbn in *.
  destruct sv as [|[i k] rest].
  - destruct bl as [|i b]; cbn.
    + left; auto.
    + right. lia.
  - destruct rest as [|p rest]; [|cbn in Hl; lia].
    right. unfold handler_step. destruct (Nat.ltb_spec k (need i)); cbn; lia.
Qed.

Lemma measure_zero st : measure st = 0 -> serving st = [] /\ backlog st = [].
Proof.
  unfold measure. destruct st as [bl sv lg]; cbn.
  destruct sv as [|p sv]; destruct bl as [|i bl]; cbn; intros; try lia; auto.
Qed.

Lemma drain : forall m st conn,
  Inv conn st -> measure st <= m ->
  let st' := fold_left (fun st a => seq_step need a st) (repeat AStep m) st in
  serving st' = [] /\ backlog st' = [].
Proof.
  induction m as [|m IH]; intros st conn HI Hm; cbn [repeat fold_left].
  - apply measure_zero. lia.
  - destruct (measure_step conn st HI) as [(Hz & ->)|Hlt].
    + apply (IH st conn HI). lia.
    + apply (IH _ _ (inv_step conn st AStep HI)). lia.
Qed.

Lemma connects_app a b : connects (a ++ b) = connects a ++ connects b.
Proof. apply flat_map_app. Qed.

Lemma connects_repeat_step n : connects (repeat AStep n) = [].
Proof. induction n; cbn; auto. Qed.

(* whatever happened so far, letting the server run long enough replies to every connected
   client, in connect order *)
Theorem sequential_all_served sched :
  exists n,
    let st := run_seq need (sched ++ repeat AStep n) in
    replies st = connects sched /\ serving st = [] /\ backlog st = [].
Proof.
  exists (measure (run_seq need sched)). cbv zeta.
  destruct (drain _ _ _ (inv_run sched) (le_n _)) as (Hs & Hb).
  cbv zeta in Hs, Hb.
  destruct (sequential_structure (sched ++ repeat AStep (measure (run_seq need sched))))
    as (Hc & _).
  unfold run_seq in *. rewrite fold_left_app in *.
  rewrite Hs, Hb in Hc. cbn in Hc.
  rewrite connects_app, connects_repeat_step, !app_nil_r in Hc.
  auto.
Qed.

End Seq.

(* ------------------------------------------------------------------ *)
(* 4. the threaded server does not have the property *)

Definition thr_witness : list action :=
  [AConnect 0; AConnect 1; AStep; AStep; AStepThread 0; AStepThread 1; AStepThread 0].

Theorem threaded_interleaves (need : nat -> nat) :
  2 <= need 0 -> 1 <= need 1 ->
  exists sched, NoDup (connects sched) /\ atomic (run_thr need sched) = false.
Proof.
  intros H0 H1. exists thr_witness. split.
  - cbn. repeat constructor; cbn; intuition discriminate.
  - assert (E0 : Nat.ltb 0 (need 0) = true) by (apply Nat.ltb_lt; lia).
    assert (E1 : Nat.ltb 1 (need 0) = true) by (apply Nat.ltb_lt; lia).
    assert (E2 : Nat.ltb 0 (need 1) = true) by (apply Nat.ltb_lt; lia).
    unfold atomic, exchanges, run_thr, thr_witness, s0.
    cbn [fold_left thr_step step_thread backlog serving log app Nat.eqb].
    rewrite E0. cbn [fold_left thr_step step_thread backlog serving log app Nat.eqb].
    rewrite E2. cbn [fold_left thr_step step_thread backlog serving log app Nat.eqb].
    rewrite E1. reflexivity.
Qed.

(* ------------------------------------------------------------------ *)
(* 5. examples *)

Definition need_ex (i : nat) : nat := match i with 0 => 2 | 1 => 1 | 2 => 3 | _ => 0 end.

Definition seq_ex : list action :=
  [AConnect 0; AStep; AConnect 1; AStep; AStepThread 1; AConnect 2; AStep; AStep; AStep; AStep;
   AStep; AStep; AStep; AStep; AStep; AStep].

Example seq_ex_atomic : atomic (run_seq need_ex seq_ex) = true.
Proof. vm_compute. reflexivity. Qed.

Example seq_ex_exchanges :
  exchanges (run_seq need_ex seq_ex) = [(0, 0); (0, 1); (1, 0); (2, 0); (2, 1); (2, 2)].
Proof. vm_compute. reflexivity. Qed.

Example seq_ex_events :
  events (run_seq need_ex seq_ex) =
  [OExchange 0 0; OExchange 0 1; OReply 0; OExchange 1 0; OReply 1;
   OExchange 2 0; OExchange 2 1; OExchange 2 2; OReply 2].
Proof. vm_compute. reflexivity. Qed.

Example thr_ex_not_atomic : atomic (run_thr need_ex thr_witness) = false.
Proof. vm_compute. reflexivity. Qed.

Example thr_ex_exchanges :
  exchanges (run_thr need_ex thr_witness) = [(0, 0); (1, 0); (0, 1)].
Proof. vm_compute. reflexivity. Qed.

(* the NoDup hypothesis of [sequential_atomic] is needed only because [contiguous] identifies a
   request with its client id: a client id that connects twice yields two (whole) blocks with
   the same id, which [contiguous] reads as one split request. [sequential_structure] needs no
   such hypothesis. *)
Example seq_dup_id_not_atomic :
  atomic (run_seq need_ex ([AConnect 0; AConnect 1; AConnect 0] ++ repeat AStep 9)) = false.
Proof. vm_compute. reflexivity. Qed.
