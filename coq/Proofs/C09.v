(* C09: bring-up never endangers the device and never serves from an unsafe state. *)
From PowHsm Require Import Model.Bringup Proofs.TraceLogic.
From Coq Require Import ZifyBool ZifyNat ZifyN Lia.
Open Scope N_scope.

(* ====================================================================== *)
(* 1. HSM2FirmwareVersion.supports                                         *)
(* ====================================================================== *)

Lemma supports_spec M m p M' m' p' :
  supports (M, m, p) (M', m', p') = true <-> M' = M /\ (m' < m \/ (m' = m /\ p' <= p)).
Proof. unfold supports. lia. Qed.

(* the generated manager versions (closed terms: these break if the Python source changes) *)
Example app_version_is : APP_VERSION = (5, 4, 1).
Proof. reflexivity. Qed.
Example ui_version_is : UI_VERSION = (5, 4, 1).
Proof. reflexivity. Qed.

Lemma supports_app_version M' m' p' :
  supports APP_VERSION (M', m', p') = true <-> M' = 5 /\ (m' < 4 \/ (m' = 4 /\ p' <= 1)).
Proof. rewrite app_version_is. apply supports_spec. Qed.

Lemma supports_ui_version M' m' p' :
  supports UI_VERSION (M', m', p') = true <-> M' = 5 /\ (m' < 4 \/ (m' = 4 /\ p' <= 1)).
Proof. rewrite ui_version_is. apply supports_spec. Qed.

(* ====================================================================== *)
(* Vocabulary                                                              *)
(* ====================================================================== *)

Definition unlock_cmd (k : dongle_kind) : N :=
  match k with KSgx => SGXCMD_SGX_UNLOCK | _ => CMD_UNLOCK end.
Definition echo_cmd (k : dongle_kind) : N :=
  match k with KSgx => SGXCMD_SGX_ECHO | _ => CMD_ECHO end.
Definition retries_cmd (k : dongle_kind) : N :=
  match k with KSgx => SGXCMD_SGX_RETRIES | _ => CMD_RETRIES end.

(* "unlock APDU": CLA, then the platform's unlock command *)
Definition is_unlock (k : dongle_kind) (e : event) : bool :=
  match e with
  | Apdu (a :: c :: _) _ => (a =? CLA) && (c =? unlock_cmd k)
  | _ => false
  end.

Definition count_unlock (k : dongle_kind) (n : list event) : nat :=
  length (filter (is_unlock k) n).

Definition NoUnlock (k : dongle_kind) (n : list event) : Prop :=
  Forall (fun e => is_unlock k e = false) n.

Definition not_unlock (k : dongle_kind) (c : N) : bool := negb (c =? unlock_cmd k).

Ltac wsimpl :=
  unfold push, set_script, set_trace, set_comm_issue, set_pin, set_opened, set_connects,
         set_rand_pins, set_fs_ok;
  cbn [script classify trace connects opened comm_issue pin rand_pins fs_ok fst snd].

Lemma NoUnlock_nil k : NoUnlock k [].
Proof. constructor. Qed.

Lemma NoUnlock_app k a b : NoUnlock k a -> NoUnlock k b -> NoUnlock k (a ++ b).
Proof. intros; apply Forall_app; auto. Qed.

Lemma NoUnlock_count k n : NoUnlock k n -> count_unlock k n = 0%nat.
Proof.
  unfold count_unlock. induction 1 as [|e n He _ IH]; [reflexivity|].
  cbn [filter]. rewrite He. exact IH.
Qed.

Lemma count_unlock_app k a b : count_unlock k (a ++ b) = (count_unlock k a + count_unlock k b)%nat.
Proof. unfold count_unlock. rewrite filter_app, app_length. reflexivity. Qed.

Definition nspec {A} (k : dongle_kind) (m : M A) : Prop :=
  spec m (fun _ _ n _ => NoUnlock k n).

Lemma sends_only_nspec {A} k (m : M A) : sends_only (not_unlock k) m -> nspec k m.
Proof.
  intro H. eapply spec_conseq; [exact H|]. cbn beta. intros _ _ n _ Hf.
  unfold NoUnlock. eapply Forall_impl; [|exact Hf]. intros e He.
  destruct e as [b r| | |]; try reflexivity.
  destruct b as [|a [|c b]]; try reflexivity.
  cbn [apdu_cmd] in He. unfold not_unlock in He. cbn [is_unlock].
  destruct (c =? unlock_cmd k); [discriminate|]. apply andb_false_r.
Qed.

(* ====================================================================== *)
(* spec lemmas for the actions that read / write the world directly        *)
(* ====================================================================== *)

Lemma spec_connect :
  spec connect (fun w r n w' =>
    pin w' = pin w /\
    ((r = Ok tt /\ n = [Connect true]) \/ (r = Exn DongleComm /\ n = [Connect false]))).
Proof.
  intro w. unfold connect.
  destruct (match connects w with [] => true | b :: _ => b end) eqn:E.
  - exists [Connect true]. cbn [fst snd]. split; [reflexivity|]. split; [reflexivity|]. auto.
  - exists [Connect false]. cbn [fst snd]. split; [reflexivity|]. split; [reflexivity|]. auto.
Qed.

Lemma spec_disconnect :
  spec disconnect (fun w r n w' => pin w' = pin w /\ r = Ok tt /\ (n = [] \/ n = [Close])).
Proof.
  intro w. unfold disconnect. destruct (opened w).
  - exists [Close]. cbn [fst snd]. split; [reflexivity|]. auto.
  - exists []. cbn [fst snd]. split; [reflexivity|]. auto.
Qed.

Lemma spec_with_pin {A} (f : pin_obj -> M A) Q :
  (forall p, spec (f p) (Q p)) ->
  spec (with_pin f) (fun w r n w' =>
    (exists p, pin w = Some p /\ Q p w r n w')
    \/ (pin w = None /\ r = Exn (Py AttributeError) /\ n = [] /\ w' = w)).
Proof.
  intros H w. unfold with_pin. destruct (pin w) as [p|] eqn:E.
  - destruct (H p w) as [n [Hn Hq]]. exists n. split; [exact Hn|]. left. eauto.
  - exists []. cbn [fst snd]. split; [reflexivity|]. right. auto.
Qed.

Lemma spec_generate_pin :
  spec generate_pin (fun w r n w' => n = [] /\ pin w' = pin w).
Proof.
  intro w. unfold generate_pin. exists [].
  destruct (gen_pin_from (rand_pins w)) as [[p r]|]; cbn [fst snd]; (split; [reflexivity|auto]).
Qed.

Lemma spec_pin_commit_change :
  spec pin_commit_change (fun w r n w' =>
    (n = [] /\ w' = w) \/ (exists np ok, n = [PinFileWrite np ok])).
Proof.
  intro w. unfold pin_commit_change, with_pin.
  destruct (pin w) as [p|]; [|exists []; cbn [fst snd]; split; [reflexivity|left; auto]].
  destruct (pin_changing p); cbn [negb];
    [|exists []; cbn [fst snd ret]; split; [reflexivity|left; auto]].
  destruct (pin_new p) as [np|]; [|exists []; cbn [fst snd raise]; split; [reflexivity|left; auto]].
  destruct (match fs_ok w with [] => true | b :: _ => b end) eqn:E.
  - exists [PinFileWrite np true]. cbn [fst snd]. split; [reflexivity|]. right; eauto.
  - exists [PinFileWrite np false]. cbn [fst snd]. split; [reflexivity|]. right; eauto.
Qed.

Lemma spec_finally_raise {A} (m : M unit) (e : exn) Q :
  spec m Q ->
  spec (@finally_raise A m e) (fun w r n w' => r = Exn e /\ exists r0, Q w r0 n w').
Proof.
  intros H w. unfold finally_raise. destruct (H w) as [n [Hn Hq]].
  destruct (m w) as [r0 w'] eqn:E. cbn [fst snd] in *. exists n. split; [exact Hn|]. eauto.
Qed.

(* ---------- sends_only versions ---------- *)
Section SO.
Variable S : N -> bool.

Lemma sends_only_connect : sends_only S connect.
Proof.
  eapply spec_conseq; [apply spec_connect|]. cbn beta.
  intros w r n w' [_ [[_ ->]|[_ ->]]]; repeat constructor.
Qed.

Lemma sends_only_disconnect : sends_only S disconnect.
Proof.
  eapply spec_conseq; [apply spec_disconnect|]. cbn beta.
  intros w r n w' [_ [_ [->| ->]]]; repeat constructor.
Qed.

Lemma sends_only_with_pin {A} (f : pin_obj -> M A) :
  (forall p, sends_only S (f p)) -> sends_only S (with_pin f).
Proof.
  intro H.
  eapply spec_conseq;
    [apply (spec_with_pin f
              (fun _ _ _ n _ => Forall (fun e => match apdu_cmd e with
                                                  | Some c => S c = true | None => True end) n) H)|].
  cbn beta.
  intros w r n w' [[p [_ Hq]]|[_ [_ [-> _]]]]; [exact Hq|constructor].
Qed.

Lemma sends_only_generate_pin : sends_only S generate_pin.
Proof.
  eapply spec_conseq; [apply spec_generate_pin|]. cbn beta.
  intros w r n w' [-> _]. constructor.
Qed.

Lemma sends_only_pin_commit_change : sends_only S pin_commit_change.
Proof.
  eapply spec_conseq; [apply spec_pin_commit_change|]. cbn beta.
  intros w r n w' [[-> _]|[np [ok ->]]]; repeat constructor.
Qed.

Lemma sends_only_finally_raise {A} (m : M unit) e :
  sends_only S m -> sends_only S (@finally_raise A m e).
Proof.
  intro H. eapply spec_conseq; [apply (spec_finally_raise m e _ H)|]. cbn beta.
  intros w r n w' [_ [_ Hq]]. exact Hq.
Qed.

Lemma sends_only_if {A} (b : bool) (m1 m2 : M A) :
  sends_only S m1 -> sends_only S m2 -> sends_only S (if b then m1 else m2).
Proof. destruct b; auto. Qed.

Lemma sends_only_try_if {A} (m : M A) (c : exn -> bool) (k0 : M A) :
  sends_only S m -> sends_only S k0 ->
  sends_only S (try_catch m (fun e => if c e then Some k0 else None)).
Proof.
  intros Hm Hk. apply sends_only_try; [exact Hm|].
  intros e k' H. destruct (c e); [|discriminate]. inversion H; subst. exact Hk.
Qed.

Lemma sends_only_idxM {A} (l : list A) i : sends_only S (idxM l i).
Proof. apply sends_only_of_opt. Qed.

Lemma sends_only_put_pin p : sends_only S (put_pin p).
Proof. apply sends_only_modify. reflexivity. Qed.

End SO.

(* ====================================================================== *)
(* Every sub-action other than `unlock` never sends the unlock command     *)
(* ====================================================================== *)

Ltac so_step k :=
  first
    [ apply sends_only_ret | apply sends_only_raise | apply sends_only_idxM
    | apply sends_only_of_opt
    | apply sends_only_put_pin
    | apply sends_only_generate_pin
    | apply sends_only_pin_commit_change
    | apply sends_only_connect
    | apply sends_only_disconnect
    | apply sends_only_send; unfold not_unlock; destruct k; reflexivity
    | apply sends_only_bind; [|intro]
    | apply sends_only_if
    | apply sends_only_try_if
    | apply sends_only_with_pin; intro
    | apply sends_only_finally_raise ].
Ltac so k := repeat (so_step k).

Lemma so_is_onboarded k : sends_only (not_unlock k) is_onboarded.
Proof. unfold is_onboarded. so k. Qed.

Lemma so_get_current_mode k : sends_only (not_unlock k) get_current_mode.
Proof. unfold get_current_mode. so k. Qed.

Lemma so_get_version k : sends_only (not_unlock k) get_version.
Proof. unfold get_version. so k. Qed.

Lemma so_echo k : sends_only (not_unlock k) (echo k).
Proof. unfold echo. cbv zeta. so k. Qed.

Lemma so_get_retries k : sends_only (not_unlock k) (get_retries k).
Proof. unfold get_retries. so k. Qed.

Lemma so_send_pin_bytes k p : forall i, sends_only (not_unlock k) (send_pin_bytes i p).
Proof. induction p as [|b p IH]; intro i; cbn [send_pin_bytes]; so k. apply IH. Qed.

Lemma so_send_pin k p b : sends_only (not_unlock k) (send_pin p b).
Proof. unfold send_pin. apply so_send_pin_bytes. Qed.

Lemma so_new_pin k p : sends_only (not_unlock k) (new_pin k p).
Proof.
  unfold new_pin. destruct k.
  - apply sends_only_try; [apply sends_only_bind; [apply so_send_pin|intro]; so KLedger|].
    intros e k' H. destruct e; try discriminate.
    destruct (sw =? ERR_UI_INVALID_PIN); [|discriminate]. inversion H; subst. apply sends_only_ret.
  - so KSgx.
  - apply sends_only_try; [apply sends_only_bind; [apply so_send_pin|intro]; so KTcp|].
    intros e k' H. destruct e; try discriminate.
    destruct (sw =? ERR_UI_INVALID_PIN); [|discriminate]. inversion H; subst. apply sends_only_ret.
Qed.

Lemma so_exit_menu k b : sends_only (not_unlock k) (exit_menu b).
Proof. unfold exit_menu. destruct b; so k. Qed.

Lemma so_get_signer_parameters k : sends_only (not_unlock k) get_signer_parameters.
Proof.
  unfold get_signer_parameters. so k.
  destruct (params_from_dongle (slice_from a OFF_DATAn)); so k.
Qed.

Lemma so_wait_and_reconnect k : sends_only (not_unlock k) wait_and_reconnect.
Proof. unfold wait_and_reconnect. so k. Qed.

Lemma so_check_version k v mw : sends_only (not_unlock k) (check_version v mw).
Proof. unfold check_version. so k. Qed.

Lemma so_pin_get_pin k : sends_only (not_unlock k) pin_get_pin.
Proof. unfold pin_get_pin. so k. Qed.

Lemma so_pin_needs_change_m k : sends_only (not_unlock k) pin_needs_change_m.
Proof. unfold pin_needs_change_m. so k. Qed.

Lemma so_pin_get_new_pin k : sends_only (not_unlock k) pin_get_new_pin.
Proof. unfold pin_get_new_pin. so k. Qed.

Lemma so_pin_start_change k : sends_only (not_unlock k) pin_start_change.
Proof. unfold pin_start_change. so k. Qed.

Lemma so_pin_abort_change k : sends_only (not_unlock k) pin_abort_change.
Proof. unfold pin_abort_change. so k. Qed.

Lemma so_pin_change_block k : sends_only (not_unlock k) (pin_change_block k).
Proof.
  unfold pin_change_block. so k.
  all: try (destruct a0; [apply so_new_pin|apply sends_only_raise]).
Qed.

(* ====================================================================== *)
(* Named pieces of initialize_device / _handle_bootloader                  *)
(* ====================================================================== *)

Definition connect_checked : M unit :=
  try_catch connect
    (fun e => if exn_matches e (concat CATCH_initialize_device_0)
              then Some (raise ProtocolError) else None).

Definition onboard_checked : M unit :=
  try_catch
    (onb <- is_onboarded ;;
     if onb then ret tt else raise ProtocolError)
    (fun e => if exn_matches e (concat CATCH_initialize_device_1)
              then Some (raise ProtocolInterrupt) else None).

Definition retries_checked (k : dongle_kind) : M unit :=
  try_catch
    (r <- get_retries k ;;
     if r <? MIN_AVAILABLE_RETRIES then raise ProtocolInterrupt else ret tt)
    (fun e => if exn_matches e (concat CATCH_handle_bootloader_0)
              then Some (raise ProtocolInterrupt) else None).

Definition exit_menu_checked : M unit :=
  try_catch (exit_menu true)
            (fun e => if exn_matches e (concat CATCH_handle_bootloader_2) then Some (ret tt) else None).

Definition hb_tail (k : dongle_kind) : M unit :=
  nc <- pin_needs_change_m ;;
  (if nc then pin_change_block k else ret tt) ;;;
  exit_menu_checked ;;;
  wait_and_reconnect.

Definition init_tail (mode' : N) : M unit :=
  (if mode' =? MODE_SIGNER then ret tt else raise ProtocolInterrupt) ;;;
  v <- get_version ;;
  check_version v APP_VERSION ;;;
  get_signer_parameters ;;;
  ret tt.

Lemma handle_bootloader_eq k :
  handle_bootloader k =
  (v <- get_version ;;
   check_version v UI_VERSION ;;;
   ok <- echo k ;;
   (if ok then ret tt else raise ProtocolError) ;;;
   retries_checked k ;;;
   p <- pin_get_pin ;;
   ok <- unlock k p ;;
   (if ok then ret tt else raise ProtocolError) ;;;
   hb_tail k).
Proof. reflexivity. Qed.

Lemma initialize_device_eq k :
  initialize_device k =
  (connect_checked ;;;
   onboard_checked ;;;
   mode <- get_current_mode ;;
   mode' <- (if mode =? MODE_BOOTLOADER
             then handle_bootloader k ;;; get_current_mode
             else ret mode) ;;
   init_tail mode').
Proof. reflexivity. Qed.

(* ====================================================================== *)
(* Inversion specs of the single-exchange steps                            *)
(* ====================================================================== *)

Definition sent1 {A} (c : N) (data : bytes) (Good : A -> resp -> Prop)
  : world -> result A -> list event -> world -> Prop :=
  fun w r n w' => pin w' = pin w /\ n = [Apdu (CLA :: c :: data) (next_answer w)]
                  /\ forall a, r = Ok a -> Good a (next_answer w).

Lemma spec_connect_checked :
  spec connect_checked (fun w r n w' =>
    pin w' = pin w /\
    ((r = Ok tt /\ n = [Connect true]) \/ (r = Exn ProtocolError /\ n = [Connect false]))).
Proof.
  intro w. unfold connect_checked, try_catch, connect.
  destruct (match connects w with [] => true | b :: _ => b end) eqn:E.
  - exists [Connect true]. cbn [fst snd]. split; [reflexivity|]. split; [reflexivity|]. auto.
  - exists [Connect false].
    change (exn_matches DongleComm (concat CATCH_initialize_device_0)) with true.
    cbn [fst snd raise]. split; [reflexivity|]. split; [reflexivity|]. auto.
Qed.


(* the world after one exchange *)
Definition sent (c : N) (data : bytes) (w : world) : world :=
  push (Apdu (CLA :: c :: data) (next_answer w)) (set_script w (tl (script w))).
Arguments sent : simpl never.

Lemma send_command_run c data w :
  send_command c data w = (classify (next_answer w), sent c data w).
Proof.
  unfold send_command, sent, next_answer. destruct w as [sc cn op tr ci p rp fs].
  cbn [script]. destruct sc; reflexivity.
Qed.

Lemma spec_of_run {A} (m : M A) c data (Good : A -> resp -> Prop) :
  (forall w, exists r, m w = (r, sent c data w) /\ forall a, r = Ok a -> Good a (next_answer w)) ->
  spec m (sent1 c data Good).
Proof.
  intros H w. destruct (H w) as [r [E G]]. rewrite E. cbn [fst snd].
  exists [Apdu (CLA :: c :: data) (next_answer w)]. split; [reflexivity|].
  unfold sent1. auto.
Qed.


Ltac fin := cbn -[idx sent]; eexists; (split; [reflexivity | intros ? HH; try discriminate HH]).

Lemma spec_onboard_checked :
  spec onboard_checked
       (sent1 CMD_IS_ONBOARD [] (fun _ ans => exists d, ans = Data d /\ idx d 1 = Some 1)).
Proof.
  apply spec_of_run. intro w.
  unfold onboard_checked, try_catch, is_onboarded, bind. rewrite send_command_run.
  destruct (next_answer w) as [d|sw| | | |]; cbn [classify].
  - unfold idxM. destruct (idx d 1) as [b|] eqn:Ei; [|fin].
    cbn -[idx sent]. destruct (b =? 1) eqn:Eb; fin.
    apply N.eqb_eq in Eb. subst b. eauto.
  - destruct (user_defined sw); fin.
  - fin.
  - fin.
  - fin.
  - fin.
Qed.

Lemma spec_get_current_mode :
  spec get_current_mode
       (sent1 CMD_GET_MODE []
          (fun m ans => m <> MODE_UNKNOWN -> exists d, ans = Data d /\ idx d 1 = Some m)).
Proof.
  apply spec_of_run. intro w.
  unfold get_current_mode, try_catch, bind. rewrite send_command_run.
  destruct (next_answer w) as [d|sw| | | |]; cbn [classify].
  - unfold idxM. destruct (idx d 1) as [b|] eqn:Ei; [|fin].
    cbn -[idx sent mem_N]. destruct (mem_N b MODE_VALUES) eqn:Eb; fin.
    inversion HH; subst. eauto.
  - destruct (user_defined sw); fin.
    inversion HH; subst. intro C; exfalso; apply C; reflexivity.
  - fin.
  - fin.
  - fin.
  - fin. inversion HH; subst. intro C; exfalso; apply C; reflexivity.
Qed.

Lemma spec_get_version :
  spec get_version
       (sent1 CMD_IS_ONBOARD []
          (fun v ans => exists d a b c, ans = Data d /\ idx d 2 = Some a /\ idx d 3 = Some b
                                        /\ idx d 4 = Some c /\ v = (a, b, c))).
Proof.
  apply spec_of_run. intro w.
  unfold get_version, bind. rewrite send_command_run.
  destruct (next_answer w) as [d|sw| | | |]; cbn [classify].
  - unfold idxM.
    destruct (idx d 2) as [a|] eqn:E2; [|fin].
    destruct (idx d 3) as [b|] eqn:E3; [|fin].
    destruct (idx d 4) as [c|] eqn:E4; [|fin].
    fin. inversion HH; subst. exists d, a, b, c. auto.
  - destruct (user_defined sw); fin.
  - fin.
  - fin.
  - fin.
  - fin.
Qed.

Lemma list_eqb_N_eq (a b : bytes) : bytes_eqb a b = true -> a = b.
Proof.
  unfold bytes_eqb. revert b. induction a as [|x a IH]; intros [|y b] H; cbn in H; try discriminate.
  - reflexivity.
  - apply andb_true_iff in H. destruct H as [H1 H2]. apply N.eqb_eq in H1. subst.
    f_equal. auto.
Qed.

Lemma spec_echo k :
  spec (echo k)
       (sent1 (echo_cmd k) echo_msg
          (fun ok ans => ok = true -> ans = Data (CLA :: echo_cmd k :: echo_msg))).
Proof.
  apply spec_of_run. intro w.
  unfold echo. cbv zeta. fold (echo_cmd k). unfold bind. rewrite send_command_run.
  destruct (next_answer w) as [d|sw| | | |]; cbn [classify].
  - eexists. split; [reflexivity|]. cbn beta. intros a HH Ha. cbn [ret] in HH.
    injection HH as HH. rewrite <- HH in Ha.
    apply list_eqb_N_eq in Ha. subst. reflexivity.
  - destruct (user_defined sw); fin.
  - fin.
  - fin.
  - fin.
  - fin.
Qed.

Lemma spec_retries_checked k :
  spec (retries_checked k)
       (sent1 (retries_cmd k) []
          (fun _ ans => exists d r, ans = Data d /\ idx d 2 = Some r /\ MIN_AVAILABLE_RETRIES <= r)).
Proof.
  apply spec_of_run. intro w.
  unfold retries_checked, try_catch, get_retries. fold (retries_cmd k). unfold bind.
  rewrite send_command_run.
  destruct (next_answer w) as [d|sw| | | |]; cbn [classify].
  - unfold idxM. destruct (idx d 2) as [r|] eqn:E2; [|fin].
    cbn -[idx sent N.ltb]. destruct (r <? MIN_AVAILABLE_RETRIES) eqn:Er; fin.
    apply N.ltb_ge in Er. eauto.
  - destruct (user_defined sw); fin.
  - fin.
  - fin.
  - fin.
  - fin.
Qed.

Lemma spec_get_signer_parameters :
  spec get_signer_parameters
       (sent1 CMD_GET_PARAMETERS []
          (fun p ans => exists d, ans = Data d
                                  /\ params_from_dongle (slice_from d OFF_DATAn) = Some p)).
Proof.
  apply spec_of_run. intro w.
  unfold get_signer_parameters, bind. rewrite send_command_run.
  destruct (next_answer w) as [d|sw| | | |]; cbn [classify].
  - destruct (params_from_dongle (slice_from d OFF_DATAn)) as [p|] eqn:Ep.
    + eexists. split; [reflexivity|]. intros a HH. inversion HH; subst. eauto.
    + eexists. split; [reflexivity|]. intros a HH. discriminate HH.
  - destruct (user_defined sw); fin.
  - fin.
  - fin.
  - fin.
  - fin.
Qed.

(* every model exception is an Exception: the exit try/except swallows everything *)
Lemma exit_catches_all e : exn_matches e (concat CATCH_handle_bootloader_2) = true.
Proof. destruct e; reflexivity. Qed.

Lemma spec_exit_menu_checked :
  spec exit_menu_checked (sent1 CMD_EXIT_MENU [0; 0] (fun _ _ => True)).
Proof.
  apply spec_of_run. intro w.
  unfold exit_menu_checked, try_catch, exit_menu, bind. rewrite send_command_run.
  destruct (classify (next_answer w)) as [d|e].
  - eexists. split; [reflexivity|]. auto.
  - rewrite exit_catches_all. eexists. split; [reflexivity|]. auto.
Qed.

Lemma spec_wait_and_reconnect :
  spec wait_and_reconnect (fun w r n w' =>
    pin w' = pin w /\ exists cl b, n = cl ++ [Connect b] /\ (cl = [] \/ cl = [Close])
                                   /\ (r = Ok tt -> b = true)).
Proof.
  unfold wait_and_reconnect.
  eapply spec_conseq; [apply (spec_bind _ _ _ _ spec_disconnect (fun _ => spec_connect))|].
  cbn beta.
  intros w r n w' [[a [n1 [n2 [wm [[Hp1 [_ Hn1]] [[Hp2 Hc] ->]]]]]]|[e [_ [_ [C _]]]]]; [|discriminate].
  split; [congruence|].
  destruct Hc as [[-> ->]|[-> ->]].
  - exists n1, true. auto.
  - exists n1, false. split; [reflexivity|]. split; [exact Hn1|]. discriminate.
Qed.

(* ---------- PIN transmission and unlock ---------- *)

Definition is_send_pin (e : event) : Prop := exists i b a, e = Apdu [CLA; CMD_SEND_PIN; i; b] a.

Lemma spec_send_pin_bytes p : forall i,
  spec (send_pin_bytes i p) (fun w r n w' => pin w' = pin w /\ Forall is_send_pin n).
Proof.
  induction p as [|b p IH]; intro i; cbn [send_pin_bytes].
  - eapply spec_conseq; [apply spec_ret|]. cbn beta. intros w r n w' [_ [-> ->]]. auto.
  - eapply spec_conseq;
      [apply (spec_bind _ _ _ _ (spec_send CMD_SEND_PIN [i; b]) (fun _ => IH (i + 1)))|].
    cbn beta.
    intros w r n w' [[a [n1 [n2 [wm [[-> [_ [_ [_ [Hp _]]]]] [[Hp2 Hf] ->]]]]]]
                    |[e [_ [-> [_ [_ [_ [Hp _]]]]]]]].
    + split; [congruence|]. constructor; [|exact Hf]. red; eauto.
    + split; [exact Hp|]. constructor; [|constructor]. red; eauto.
Qed.

Definition unlock_core (c : N) (data : bytes) : M bool :=
  r <- send_command c data ;; b <- idxM r 2 ;; ret (negb (b =? 0)).

Definition unlock_ok (ans : resp) : Prop := exists d b, ans = Data d /\ idx d 2 = Some b /\ b <> 0.

Lemma spec_unlock_core c data :
  spec (unlock_core c data) (sent1 c data (fun ok ans => ok = true -> unlock_ok ans)).
Proof.
  apply spec_of_run. intro w.
  unfold unlock_core, bind. rewrite send_command_run.
  destruct (next_answer w) as [d|sw| | | |]; cbn [classify].
  - unfold idxM. destruct (idx d 2) as [b|] eqn:E2; [|fin].
    eexists. split; [reflexivity|]. cbn beta. intros a HH Ha. cbn [of_opt ret] in HH.
    injection HH as HH. rewrite <- HH in Ha. exists d, b. split; [reflexivity|]. split; [exact E2|].
    intro; subst b. discriminate Ha.
  - destruct (user_defined sw); fin.
  - fin.
  - fin.
  - fin.
  - fin.
Qed.

Definition unlock_data (k : dongle_kind) (p : bytes) : bytes :=
  match k with KSgx => 0 :: p | _ => [0; 0] end.

Lemma spec_unlock k p :
  spec (unlock k p) (fun w r n w' =>
    pin w' = pin w /\
    exists pins, Forall is_send_pin pins /\
      ((n = pins /\ exists e, r = Exn e)
       \/ exists ans, n = pins ++ [Apdu (CLA :: unlock_cmd k :: unlock_data k p) ans]
                      /\ (r = Ok true -> unlock_ok ans))).
Proof.
  assert (Hsgx : forall c d, spec (unlock_core c d) (fun w r n w' =>
            pin w' = pin w /\
            exists pins, Forall is_send_pin pins /\
              ((n = pins /\ exists e, r = Exn e)
               \/ exists ans, n = pins ++ [Apdu (CLA :: c :: d) ans]
                              /\ (r = Ok true -> unlock_ok ans)))).
  { intros c d. eapply spec_conseq; [apply spec_unlock_core|]. cbn beta.
    intros w r n w' [Hp [-> Hg]]. split; [exact Hp|]. exists []. split; [constructor|].
    right. eexists. split; [reflexivity|]. intro; subst. eapply Hg; reflexivity. }
  assert (Hled : spec (send_pin p false ;;; unlock_core CMD_UNLOCK [0; 0]) (fun w r n w' =>
            pin w' = pin w /\
            exists pins, Forall is_send_pin pins /\
              ((n = pins /\ exists e, r = Exn e)
               \/ exists ans, n = pins ++ [Apdu (CLA :: CMD_UNLOCK :: [0; 0]) ans]
                              /\ (r = Ok true -> unlock_ok ans)))).
  { eapply spec_conseq;
      [apply (spec_bind _ _ _ _ (spec_send_pin_bytes p 0)
                (fun _ => spec_unlock_core CMD_UNLOCK [0; 0]))|].
    cbn beta.
    intros w r n w' [[a [n1 [n2 [wm [[Hp1 Hf] [[Hp2 [-> Hg]] ->]]]]]]|[e [-> [Hp Hf]]]].
    - split; [congruence|]. exists n1. split; [exact Hf|]. right.
      eexists. split; [reflexivity|]. intro; subst. eapply Hg; reflexivity.
    - split; [exact Hp|]. exists n. split; [exact Hf|]. left. eauto. }
  destruct k; [exact Hled|apply Hsgx|exact Hled].
Qed.

Lemma spec_pin_get_pin :
  spec pin_get_pin (fun w r n w' =>
    n = [] /\ w' = w /\ forall p, r = Ok p -> exists po, pin w = Some po /\ p = pin_cur po).
Proof.
  intro w. exists []. unfold pin_get_pin, with_pin. destruct (pin w) as [po|]; cbn [ret fst snd].
  - split; [reflexivity|]. repeat split. intros p H. inversion H. eauto.
  - split; [reflexivity|]. repeat split. intros p H. discriminate.
Qed.

Lemma spec_pin_needs_change_m :
  spec pin_needs_change_m (fun w r n w' =>
    n = [] /\ w' = w /\ forall b, r = Ok b -> exists po, pin w = Some po /\ b = pin_needs_change po).
Proof.
  intro w. exists []. unfold pin_needs_change_m, with_pin. destruct (pin w) as [po|]; cbn [ret fst snd].
  - split; [reflexivity|]. repeat split. intros p H. inversion H. eauto.
  - split; [reflexivity|]. repeat split. intros p H. discriminate.
Qed.

(* ====================================================================== *)
(* Ordered-occurrence predicate and "guarded unlock" traces                *)
(* ====================================================================== *)

(* l contains, in this order (other events may be interleaved), events satisfying ps *)
Fixpoint InOrder (ps : list (event -> Prop)) (l : list event) : Prop :=
  match ps with
  | [] => True
  | p :: ps' => exists l1 e l2, l = l1 ++ e :: l2 /\ p e /\ InOrder ps' l2
  end.

Lemma InOrder_app_l ps l0 l : InOrder ps l -> InOrder ps (l0 ++ l).
Proof.
  destruct ps as [|p ps]; [auto|]. cbn [InOrder].
  intros [l1 [e [l2 [-> [Hp Hr]]]]]. exists (l0 ++ l1), e, l2. rewrite <- app_assoc. auto.
Qed.

Lemma InOrder_app_r ps : forall l l', InOrder ps l -> InOrder ps (l ++ l').
Proof.
  induction ps as [|p ps IH]; intros l l'; [auto|]. cbn [InOrder].
  intros [l1 [e [l2 [-> [Hp Hr]]]]]. exists l1, e, (l2 ++ l'). rewrite <- app_assoc. cbn [app].
  auto.
Qed.

Lemma InOrder_app ps0 : forall ps l0 l, InOrder ps0 l0 -> InOrder ps l -> InOrder (ps0 ++ ps) (l0 ++ l).
Proof.
  induction ps0 as [|p ps0 IH]; intros ps l0 l H0 H; cbn [app].
  - apply InOrder_app_l. exact H.
  - cbn [InOrder] in *. destruct H0 as [l1 [e [l2 [-> [Hp Hr]]]]].
    exists l1, e, (l2 ++ l). rewrite <- app_assoc. cbn [app]. auto.
Qed.

(* no unlock APDU at all, or exactly one, and everything in ps happened (in order) before it *)
Definition Guarded (k : dongle_kind) (ps : list (event -> Prop)) (n : list event) : Prop :=
  NoUnlock k n \/
  exists n1 u n2, n = n1 ++ u :: n2 /\ is_unlock k u = true /\ NoUnlock k n1 /\ NoUnlock k n2
                  /\ InOrder ps n1.

Lemma Guarded_app_r k ps n n' : Guarded k ps n -> NoUnlock k n' -> Guarded k ps (n ++ n').
Proof.
  intros [H|[n1 [u [n2 [-> [Hu [H1 [H2 Hi]]]]]]]] H'.
  - left. apply NoUnlock_app; auto.
  - right. exists n1, u, (n2 ++ n'). rewrite <- app_assoc. cbn [app].
    repeat split; auto. apply NoUnlock_app; auto.
Qed.

Lemma Guarded_step k ps0 ps n0 n :
  NoUnlock k n0 -> (InOrder ps0 n0) -> Guarded k ps n -> Guarded k (ps0 ++ ps) (n0 ++ n).
Proof.
  intros H0 Hi0 [H|[n1 [u [n2 [-> [Hu [H1 [H2 Hi]]]]]]]].
  - left. apply NoUnlock_app; auto.
  - right. exists (n0 ++ n1), u, n2. rewrite <- app_assoc.
    split; [reflexivity|]. split; [exact Hu|]. split; [apply NoUnlock_app; auto|].
    split; [exact H2|]. apply InOrder_app; auto.
Qed.

Lemma Guarded_app_l k ps n0 n : NoUnlock k n0 -> Guarded k ps n -> Guarded k ps (n0 ++ n).
Proof. intros H0 H. apply (Guarded_step k [] ps n0 n H0 I H). Qed.

Lemma Guarded_count k ps n : Guarded k ps n -> (count_unlock k n <= 1)%nat.
Proof.
  intros [H|[n1 [u [n2 [-> [Hu [H1 [H2 _]]]]]]]].
  - rewrite (NoUnlock_count _ _ H). lia.
  - rewrite count_unlock_app. rewrite (NoUnlock_count _ _ H1).
    change (u :: n2) with ([u] ++ n2). rewrite count_unlock_app, (NoUnlock_count _ _ H2).
    unfold count_unlock. cbn [filter]. rewrite Hu. cbn [length]. lia.
Qed.

Lemma unlock_position_unique k : forall n1 u n2 n1' u' n2',
  n1 ++ u :: n2 = n1' ++ u' :: n2' ->
  is_unlock k u = true -> is_unlock k u' = true -> NoUnlock k n1' -> NoUnlock k n2' ->
  n1 = n1'.
Proof.
  induction n1 as [|x n1 IH]; intros u n2 n1' u' n2' E Hu Hu' H1 H2.
  - destruct n1' as [|y n1']; [reflexivity|]. cbn [app] in E. inversion E; subst.
    inversion H1; subst. congruence.
  - destruct n1' as [|y n1'].
    + cbn [app] in E. inversion E; subst.
      assert (Hin : In u (n1 ++ u :: n2)) by (apply in_or_app; right; left; reflexivity).
      unfold NoUnlock in H2. rewrite Forall_forall in H2. specialize (H2 _ Hin). congruence.
    + cbn [app] in E. inversion E; subst. f_equal.
      inversion H1; subst. eapply IH; eauto.
Qed.

Lemma Guarded_before k ps n n1 u n2 :
  Guarded k ps n -> n = n1 ++ u :: n2 -> is_unlock k u = true -> InOrder ps n1.
Proof.
  intros [H|[n1' [u' [n2' [-> [Hu' [H1 [H2 Hi]]]]]]]] E Hu.
  - subst n. unfold NoUnlock in H. rewrite Forall_forall in H.
    assert (Hin : In u (n1 ++ u :: n2)) by (apply in_or_app; right; left; reflexivity).
    specialize (H _ Hin). congruence.
  - symmetry in E. rewrite (unlock_position_unique k _ _ _ _ _ _ E Hu Hu' H1 H2). exact Hi.
Qed.

(* ---------- the same at the level of specs ---------- *)
Definition gspec {A} (k : dongle_kind) (m : M A) (ps : list (event -> Prop)) : Prop :=
  spec m (fun _ _ n _ => Guarded k ps n).

Lemma nspec_gspec {A} k (m : M A) ps : nspec k m -> gspec k m ps.
Proof. intro H. eapply spec_conseq; [exact H|]. cbn beta. intros. left. assumption. Qed.

Lemma gspec_bind_step {A B} k (m : M A) (f : A -> M B) (G : A -> bool) ps0 ps :
  spec m (fun w r n w' => NoUnlock k n /\ forall a, r = Ok a -> G a = true -> InOrder ps0 n) ->
  (forall a, G a = true -> gspec k (f a) ps) ->
  (forall a, G a = false -> nspec k (f a)) ->
  gspec k (bind m f) (ps0 ++ ps).
Proof.
  intros Hm Ht Hf.
  assert (H2 : forall a, spec (f a) (fun _ _ n _ => if G a then Guarded k ps n else NoUnlock k n)).
  { intro a. destruct (G a) eqn:E; [apply Ht|apply Hf]; exact E. }
  eapply spec_conseq; [apply (spec_bind m f _ _ Hm H2)|]. cbn beta.
  intros w r n w' [[a [n1 [n2 [wm [[Hn1 Hi] [Hq ->]]]]]]|[e [_ [Hn _]]]].
  - destruct (G a) eqn:E.
    + apply Guarded_step; [exact Hn1|exact (Hi a eq_refl E)|exact Hq].
    + left. apply NoUnlock_app; auto.
  - left. exact Hn.
Qed.

Lemma gspec_bind_l {A B} k (m : M A) (f : A -> M B) ps :
  nspec k m -> (forall a, gspec k (f a) ps) -> gspec k (bind m f) ps.
Proof.
  intros Hm Hf.
  apply (gspec_bind_step k m f (fun _ => true) [] ps).
  - eapply spec_conseq; [exact Hm|]. cbn beta. intros. split; [assumption|]. intros; exact I.
  - intros a _. apply Hf.
  - intros a C. discriminate C.
Qed.

Lemma gspec_bind_r {A B} k (m : M A) (f : A -> M B) ps :
  gspec k m ps -> (forall a, nspec k (f a)) -> gspec k (bind m f) ps.
Proof.
  intros Hm Hf.
  eapply spec_conseq;
    [apply (spec_bind m f _ (fun _ _ _ n _ => NoUnlock k n) Hm Hf)|]. cbn beta.
  intros w r n w' [[a [n1 [n2 [wm [H1 [H2 ->]]]]]]|[e [_ H]]].
  - apply Guarded_app_r; auto.
  - exact H.
Qed.

Lemma nspec_raise_bind {A B} k e (f : A -> M B) : nspec k (bind (raise e) f).
Proof. intro w. exists []. split; [reflexivity|constructor]. Qed.

Lemma sent1_step {A} k (m : M A) c data Good (G : A -> bool) (p : event -> Prop) :
  spec m (sent1 c data Good) ->
  c <> unlock_cmd k ->
  (forall a ans, Good a ans -> G a = true -> p (Apdu (CLA :: c :: data) ans)) ->
  spec m (fun w r n w' => NoUnlock k n /\ forall a, r = Ok a -> G a = true -> InOrder [p] n).
Proof.
  intros Hm Hc Hp. eapply spec_conseq; [exact Hm|]. cbn beta.
  intros w r n w' [_ [-> Hg]]. split.
  - constructor; [|constructor]. cbn [is_unlock].
    destruct (c =? unlock_cmd k) eqn:E; [apply N.eqb_eq in E; contradiction|apply andb_false_r].
  - intros a Hr Ha. cbn [InOrder]. exists [], (Apdu (CLA :: c :: data) (next_answer w)), [].
    split; [reflexivity|]. split; [|exact I]. eapply Hp; eauto.
Qed.

(* ====================================================================== *)
(* 2 + 3. The unlock command: at most once, and only after the checks      *)
(* ====================================================================== *)

Definition ev_connect (e : event) : Prop := e = Connect true.
Definition ev_onboarded (e : event) : Prop :=
  exists d, e = Apdu [CLA; CMD_IS_ONBOARD] (Data d) /\ idx d 1 = Some 1.
Definition ev_mode (m : N) (e : event) : Prop :=
  exists d, e = Apdu [CLA; CMD_GET_MODE] (Data d) /\ idx d 1 = Some m.
Definition ev_version (mw : N * N * N) (e : event) : Prop :=
  exists d a b c, e = Apdu [CLA; CMD_IS_ONBOARD] (Data d)
                  /\ idx d 2 = Some a /\ idx d 3 = Some b /\ idx d 4 = Some c
                  /\ supports mw (a, b, c) = true.
Definition ev_echo (k : dongle_kind) (e : event) : Prop :=
  e = Apdu (CLA :: echo_cmd k :: echo_msg) (Data (CLA :: echo_cmd k :: echo_msg)).
Definition ev_retries (k : dongle_kind) (e : event) : Prop :=
  exists d r, e = Apdu [CLA; retries_cmd k] (Data d) /\ idx d 2 = Some r
              /\ MIN_AVAILABLE_RETRIES <= r.

Definition safe_pre (k : dongle_kind) : list (event -> Prop) :=
  [ev_connect; ev_onboarded; ev_mode MODE_BOOTLOADER; ev_version UI_VERSION; ev_echo k;
   ev_retries k].

Lemma so_exit_menu_checked k : sends_only (not_unlock k) exit_menu_checked.
Proof. unfold exit_menu_checked. so k. Qed.

Lemma so_hb_tail k : sends_only (not_unlock k) (hb_tail k).
Proof.
  unfold hb_tail. apply sends_only_bind; [apply so_pin_needs_change_m|intro nc].
  apply sends_only_bind; [destruct nc; [apply so_pin_change_block|apply sends_only_ret]|intro].
  apply sends_only_bind; [apply so_exit_menu_checked|intro]. apply so_wait_and_reconnect.
Qed.

Lemma so_init_tail k m : sends_only (not_unlock k) (init_tail m).
Proof.
  unfold init_tail. apply sends_only_bind; [so k|intro].
  apply sends_only_bind; [apply so_get_version|intro v].
  apply sends_only_bind; [apply so_check_version|intro].
  apply sends_only_bind; [apply so_get_signer_parameters|intro]. apply sends_only_ret.
Qed.

Lemma send_pin_NoUnlock k pins : Forall is_send_pin pins -> NoUnlock k pins.
Proof.
  intro H. unfold NoUnlock. eapply Forall_impl; [|exact H].
  intros e [i [b [a ->]]]. destruct k; reflexivity.
Qed.

Lemma gspec_unlock k p : gspec k (unlock k p) [].
Proof.
  eapply spec_conseq; [apply spec_unlock|]. cbn beta.
  intros w r n w' [_ [pins [Hf [[-> _]|[ans [-> _]]]]]].
  - left. apply send_pin_NoUnlock; exact Hf.
  - right. exists pins, (Apdu (CLA :: unlock_cmd k :: unlock_data k p) ans), [].
    split; [reflexivity|]. split.
    + cbn [is_unlock]. rewrite !N.eqb_refl. reflexivity.
    + split; [apply send_pin_NoUnlock; exact Hf|]. split; [constructor|exact I].
Qed.

Lemma cmd_ne_unlock k c : not_unlock k c = true -> c <> unlock_cmd k.
Proof. unfold not_unlock. intros H E. subst. rewrite N.eqb_refl in H. discriminate. Qed.

Lemma gspec_handle_bootloader k :
  gspec k (handle_bootloader k) [ev_version UI_VERSION; ev_echo k; ev_retries k].
Proof.
  rewrite handle_bootloader_eq.
  (* get_version + check_version *)
  apply (gspec_bind_step k get_version _ (fun v => supports UI_VERSION v)
                         [ev_version UI_VERSION] [ev_echo k; ev_retries k]).
  { eapply sent1_step; [apply spec_get_version| |].
    - apply cmd_ne_unlock. destruct k; reflexivity.
    - intros v ans [d [a [b [c [-> [H2 [H3 [H4 ->]]]]]]]] Hs. exists d, a, b, c. auto. }
  2:{ intros v Hv. unfold check_version. rewrite Hv. apply nspec_raise_bind. }
  intros v Hv. apply gspec_bind_l; [apply sends_only_nspec, so_check_version|intros _].
  (* echo *)
  apply (gspec_bind_step k (echo k) _ (fun ok => ok) [ev_echo k] [ev_retries k]).
  { eapply sent1_step; [apply spec_echo| |].
    - apply cmd_ne_unlock. destruct k; reflexivity.
    - intros ok ans Hg Hok. red. rewrite (Hg Hok). reflexivity. }
  2:{ intros ok ->. apply nspec_raise_bind. }
  intros ok ->. apply gspec_bind_l; [apply sends_only_nspec, sends_only_ret|intros _].
  (* retries *)
  apply (gspec_bind_step k (retries_checked k) _ (fun _ => true) [ev_retries k] []).
  { eapply sent1_step; [apply spec_retries_checked| |].
    - apply cmd_ne_unlock. destruct k; reflexivity.
    - intros _ ans [d [r [-> [H2 Hr]]]] _. exists d, r. auto. }
  2:{ intros a C; discriminate C. }
  intros _ _.
  apply gspec_bind_l; [apply sends_only_nspec, so_pin_get_pin|intro p].
  apply gspec_bind_r; [apply gspec_unlock|intro ok].
  apply sends_only_nspec.
  apply sends_only_bind; [destruct ok; [apply sends_only_ret|apply sends_only_raise]|intro].
  apply so_hb_tail.
Qed.

Theorem initialize_device_guarded k : gspec k (initialize_device k) (safe_pre k).
Proof.
  rewrite initialize_device_eq. unfold safe_pre.
  apply (gspec_bind_step k connect_checked _ (fun _ => true) [ev_connect]).
  { eapply spec_conseq; [apply spec_connect_checked|]. cbn beta.
    intros w r n w' [_ [[-> ->]|[-> ->]]].
    - split; [repeat constructor|]. intros _ _ _. exists [], (Connect true), [].
      split; [reflexivity|]. split; [reflexivity|exact I].
    - split; [repeat constructor|]. intros a C; discriminate C. }
  2:{ intros a C; discriminate C. }
  intros _ _.
  apply (gspec_bind_step k onboard_checked _ (fun _ => true) [ev_onboarded]).
  { eapply sent1_step; [apply spec_onboard_checked| |].
    - apply cmd_ne_unlock. destruct k; reflexivity.
    - intros _ ans [d [-> H1]] _. exists d. auto. }
  2:{ intros a C; discriminate C. }
  intros _ _.
  apply (gspec_bind_step k get_current_mode _ (fun m => m =? MODE_BOOTLOADER)
                         [ev_mode MODE_BOOTLOADER]).
  { eapply sent1_step; [apply spec_get_current_mode| |].
    - apply cmd_ne_unlock. destruct k; reflexivity.
    - intros m ans Hg Hm. apply N.eqb_eq in Hm. subst m.
      destruct Hg as [d [-> H1]]; [discriminate|]. exists d. auto. }
  - intros m Hm. rewrite Hm.
    apply gspec_bind_r; [|intro; apply sends_only_nspec, so_init_tail].
    apply gspec_bind_r; [apply gspec_handle_bootloader|].
    intro; apply sends_only_nspec, so_get_current_mode.
  - intros m Hm. rewrite Hm. apply sends_only_nspec.
    apply sends_only_bind; [apply sends_only_ret|intro; apply so_init_tail].
Qed.

(* the events added by a run (oldest first) *)
Definition new_events (w w' : world) : list event :=
  rev (firstn (length (trace w') - length (trace w)) (trace w')).

Lemma news_new_events w w' n : news w w' n -> new_events w w' = n.
Proof.
  unfold news, new_events. intro H. rewrite H, app_length, rev_length.
  replace (length n + length (trace w) - length (trace w))%nat with (length (rev n))
    by (rewrite rev_length; lia).
  rewrite firstn_app, Nat.sub_diag, firstn_all. cbn [firstn]. rewrite app_nil_r. apply rev_involutive.
Qed.

Theorem unlock_at_most_once k w :
  (count_unlock k (new_events w (snd (initialize_device k w))) <= 1)%nat.
Proof.
  destruct (initialize_device_guarded k w) as [n [Hn Hg]].
  rewrite (news_new_events _ _ _ Hn). eapply Guarded_count; exact Hg.
Qed.

Theorem unlock_only_when_safe k w n1 u n2 :
  new_events w (snd (initialize_device k w)) = n1 ++ u :: n2 ->
  is_unlock k u = true ->
  InOrder (safe_pre k) n1.
Proof.
  destruct (initialize_device_guarded k w) as [n [Hn Hg]].
  rewrite (news_new_events _ _ _ Hn). intros E Hu. eapply Guarded_before; eauto.
Qed.

(* ====================================================================== *)
(* 4. When does bring-up end in "serving"?                                 *)
(* ====================================================================== *)

(* the PIN-change path never completes normally *)
Theorem pin_change_block_interrupts k w : fst (pin_change_block k w) = Exn ProtocolInterrupt.
Proof. unfold pin_change_block, finally_raise. destruct (try_catch _ _ w). reflexivity. Qed.

(* specs that only speak about normal termination *)
Definition ospec {A} (m : M A) (Q : world -> A -> list event -> world -> Prop) : Prop :=
  spec m (fun w r n w' => forall b, r = Ok b -> Q w b n w').

Lemma ospec_of_spec {A} (m : M A) Q (Q' : world -> A -> list event -> world -> Prop) :
  spec m Q -> (forall w a n w', Q w (Ok a) n w' -> Q' w a n w') -> ospec m Q'.
Proof.
  intros H HQ. eapply spec_conseq; [exact H|]. cbn beta. intros w r n w' Hq b ->. auto.
Qed.

Lemma ospec_conseq {A} (m : M A) (Q Q' : world -> A -> list event -> world -> Prop) :
  ospec m Q -> (forall w a n w', Q w a n w' -> Q' w a n w') -> ospec m Q'.
Proof.
  intros H HQ. eapply spec_conseq; [exact H|]. cbn beta. intros w r n w' Hq b Hb. auto.
Qed.

Lemma ospec_bind {A B} (m : M A) (f : A -> M B) Q1 Q2 :
  ospec m Q1 -> (forall a, ospec (f a) (Q2 a)) ->
  ospec (bind m f)
        (fun w b n w' => exists a n1 n2 wm, Q1 w a n1 wm /\ Q2 a wm b n2 w' /\ n = n1 ++ n2).
Proof.
  intros Hm Hf. unfold ospec.
  eapply spec_conseq;
    [apply (spec_bind m f _ (fun a w r n w' => forall b, r = Ok b -> Q2 a w b n w') Hm Hf)|].
  cbn beta.
  intros w r n w' [[a [n1 [n2 [wm [H1 [H2 ->]]]]]]|[e [-> _]]] b Hb; [|discriminate].
  exists a, n1, n2, wm. auto.
Qed.

Lemma ospec_guard (b : bool) e :
  ospec (if b then ret tt else raise e) (fun w _ n w' => b = true /\ n = [] /\ w' = w).
Proof.
  destruct b.
  - eapply ospec_of_spec; [apply spec_ret|]. cbn beta. intros w a n w' [_ [-> ->]]. auto.
  - eapply ospec_of_spec; [apply spec_raise|]. cbn beta. intros w a n w' [C _]. discriminate.
Qed.

Lemma ospec_ret {A} (a : A) : ospec (ret a) (fun w b n w' => b = a /\ n = [] /\ w' = w).
Proof.
  eapply ospec_of_spec; [apply spec_ret|]. cbn beta. intros w b n w' [E [-> ->]].
  inversion E. auto.
Qed.

Lemma ospec_sent1 {A} (m : M A) c data Good :
  spec m (sent1 c data Good) ->
  ospec m (fun w a n w' => pin w' = pin w /\ exists ans, n = [Apdu (CLA :: c :: data) ans] /\ Good a ans).
Proof.
  intro H. eapply ospec_of_spec; [exact H|]. cbn beta. intros w a n w' [Hp [-> Hg]].
  split; [exact Hp|]. eexists. split; [reflexivity|]. apply Hg. reflexivity.
Qed.

Lemma ospec_check_version v mw :
  ospec (check_version v mw) (fun w _ n w' => supports mw v = true /\ n = [] /\ w' = w).
Proof. unfold check_version. apply ospec_guard. Qed.

Definition ev_params (e : event) : Prop :=
  exists d p, e = Apdu [CLA; CMD_GET_PARAMETERS] (Data d)
              /\ params_from_dongle (slice_from d OFF_DATAn) = Some p.

(* what the signer-side tail of initialize_device must have seen *)
Definition TailOk (n : list event) : Prop :=
  exists ev ep, n = [ev; ep] /\ ev_version APP_VERSION ev /\ ev_params ep.

Ltac dall :=
  repeat match goal with
         | H : exists _, _ |- _ => destruct H
         | H : _ /\ _ |- _ => destruct H
         end.

Lemma ospec_init_tail m :
  ospec (init_tail m) (fun w _ n w' => m = MODE_SIGNER /\ TailOk n).
Proof.
  unfold init_tail.
  eapply ospec_conseq.
  { eapply ospec_bind; [apply ospec_guard|intro].
    eapply ospec_bind; [apply (ospec_sent1 _ _ _ _ spec_get_version)|intro v].
    eapply ospec_bind; [apply ospec_check_version|intro].
    eapply ospec_bind; [apply (ospec_sent1 _ _ _ _ spec_get_signer_parameters)|intro].
    apply ospec_ret. }
  cbn beta. intros w a n w' H. dall. subst.
  split; [apply N.eqb_eq; assumption|].
  cbn [app]. eexists _, _. split; [reflexivity|]. split.
  - red. eauto 10.
  - red. eauto.
Qed.

Definition ev_unlock_ok (k : dongle_kind) (po : pin_obj) (e : event) : Prop :=
  exists ans, e = Apdu (CLA :: unlock_cmd k :: unlock_data k (pin_cur po)) ans /\ unlock_ok ans.
Definition ev_exit (e : event) : Prop := exists ans, e = Apdu [CLA; CMD_EXIT_MENU; 0; 0] ans.

(* what a normally terminating _handle_bootloader must have seen; pw = the PIN object on entry *)
Definition HbOk (k : dongle_kind) (pw : option pin_obj) (n : list event) : Prop :=
  exists ev ee er pins eu ex cl po,
    n = ev :: ee :: er :: pins ++ eu :: ex :: cl ++ [Connect true]
    /\ ev_version UI_VERSION ev /\ ev_echo k ee /\ ev_retries k er
    /\ Forall is_send_pin pins
    /\ ev_unlock_ok k po eu /\ ev_exit ex /\ (cl = [] \/ cl = [Close])
    /\ pw = Some po /\ pin_needs_change po = false.

Lemma ospec_pin_change_block k : ospec (pin_change_block k) (fun _ _ _ _ => False).
Proof.
  intro w. destruct (so_pin_change_block k w) as [n [Hn _]]. exists n. split; [exact Hn|].
  intros b Hb. rewrite pin_change_block_interrupts in Hb. discriminate.
Qed.

Lemma ospec_hb_tail k :
  ospec (hb_tail k) (fun w _ n w' =>
    exists ex cl po, n = ex :: cl ++ [Connect true] /\ ev_exit ex /\ (cl = [] \/ cl = [Close])
                     /\ pin w = Some po /\ pin_needs_change po = false).
Proof.
  unfold hb_tail.
  eapply ospec_conseq.
  { eapply ospec_bind; [apply (ospec_of_spec _ _ _ spec_pin_needs_change_m); intros w a n w' H; exact H|intro nc].
    eapply ospec_bind.
    { instantiate (1 := fun w _ n w' => nc = false /\ n = [] /\ w' = w).
      destruct nc.
      - eapply ospec_conseq; [apply ospec_pin_change_block|]. cbn beta. intros ? ? ? ? [].
      - eapply ospec_conseq; [apply ospec_ret|]. cbn beta. intros w a n w' [_ [-> ->]]. auto. }
    intro.
    eapply ospec_bind; [apply (ospec_sent1 _ _ _ _ spec_exit_menu_checked)|intro].
    apply (ospec_of_spec _ _ _ spec_wait_and_reconnect). intros w ? n w' H. exact H. }
  cbn beta. intros w a n w' H. dall. subst. cbn [app]. destruct a.
  match goal with H : forall b : bool, _ |- _ => destruct (H _ eq_refl) as [po [Hpo Hnc]] end.
  match goal with H : Ok tt = Ok tt -> _ |- _ => specialize (H eq_refl); subst end.
  eexists _, _, po. split; [reflexivity|]. split; [red; eauto|]. split; [assumption|].
  split; [assumption|]. symmetry. assumption.
Qed.

Lemma ospec_unlock k p :
  ospec (unlock k p) (fun w ok n w' =>
    pin w' = pin w /\
    exists pins ans, Forall is_send_pin pins
                     /\ n = pins ++ [Apdu (CLA :: unlock_cmd k :: unlock_data k p) ans]
                     /\ (ok = true -> unlock_ok ans)).
Proof.
  eapply ospec_of_spec; [apply spec_unlock|]. cbn beta.
  intros w ok n w' [Hp [pins [Hf [[_ [e C]]|[ans [-> Hg]]]]]]; [discriminate|].
  split; [exact Hp|]. exists pins, ans. split; [exact Hf|]. split; [reflexivity|].
  intro; subst. apply Hg. reflexivity.
Qed.

Lemma ospec_handle_bootloader k :
  ospec (handle_bootloader k) (fun w _ n w' => HbOk k (pin w) n).
Proof.
  rewrite handle_bootloader_eq.
  eapply ospec_conseq.
  { eapply ospec_bind; [apply (ospec_sent1 _ _ _ _ spec_get_version)|intro v].
    eapply ospec_bind; [apply ospec_check_version|intro].
    eapply ospec_bind; [apply (ospec_sent1 _ _ _ _ (spec_echo k))|intro ok].
    eapply ospec_bind; [apply ospec_guard|intro].
    eapply ospec_bind; [apply (ospec_sent1 _ _ _ _ (spec_retries_checked k))|intro].
    eapply ospec_bind;
      [apply (ospec_of_spec _ _ _ spec_pin_get_pin); intros w ? n w' H; exact H|intro p].
    eapply ospec_bind; [apply ospec_unlock|intro ok2].
    eapply ospec_bind; [apply ospec_guard|intro].
    apply ospec_hb_tail. }
  cbn beta. intros w a n w' H. dall. subst. cbn [app].
  match goal with H : forall p : bytes, _ |- _ => destruct (H _ eq_refl) as [po [Hpo ->]] end.
  repeat match goal with H : true = true -> _ |- _ => specialize (H eq_refl) end. subst.
  match goal with Hq : pin_needs_change ?q = false |- _ =>
    assert (Epo : po = q) by congruence; subst q end.
  rewrite <- app_assoc. cbn [app].
  red. eexists _, _, _, _, _, _, _, po. split; [reflexivity|].
  split; [red; eauto 10|]. split; [reflexivity|]. split; [red; eauto|].
  split; [assumption|]. split; [red; eauto|]. split; [assumption|]. split; [assumption|].
  split; [congruence|assumption].
Qed.

(* the only two ways initialize_device returns normally *)
Definition Serves (k : dongle_kind) (pw : option pin_obj) (n : list event) : Prop :=
  exists eo em rest,
    n = Connect true :: eo :: em :: rest /\ ev_onboarded eo /\
    ((ev_mode MODE_SIGNER em /\ TailOk rest)
     \/ (ev_mode MODE_BOOTLOADER em /\
         exists hb em' tl, rest = hb ++ em' :: tl /\ HbOk k pw hb /\ ev_mode MODE_SIGNER em'
                           /\ TailOk tl)).

Lemma ospec_initialize_device k :
  ospec (initialize_device k) (fun w _ n w' => Serves k (pin w) n).
Proof.
  rewrite initialize_device_eq.
  eapply ospec_conseq.
  { eapply ospec_bind;
      [apply (ospec_of_spec _ _ _ spec_connect_checked); intros w ? n w' H; exact H|intro].
    eapply ospec_bind; [apply (ospec_sent1 _ _ _ _ spec_onboard_checked)|intro].
    eapply ospec_bind; [apply (ospec_sent1 _ _ _ _ spec_get_current_mode)|intro mode].
    eapply ospec_bind; [|intro mode'; apply ospec_init_tail].
    instantiate (1 := fun w m' n w' =>
      if mode =? MODE_BOOTLOADER
      then exists hb em', n = hb ++ [em'] /\ HbOk k (pin w) hb
                          /\ (m' <> MODE_UNKNOWN -> ev_mode m' em')
      else n = [] /\ m' = mode).
    destruct (mode =? MODE_BOOTLOADER).
    - eapply ospec_conseq.
      { eapply ospec_bind; [apply ospec_handle_bootloader|intro].
        apply (ospec_sent1 _ _ _ _ spec_get_current_mode). }
      cbn beta. intros w m' n w' H. dall. subst.
      eexists _, _. split; [reflexivity|]. split; [assumption|].
      intro Hm. match goal with H : _ <> _ -> _ |- _ => destruct (H Hm) as [d [-> Hd]] end.
      red. eauto.
    - eapply ospec_conseq; [apply ospec_ret|]. cbn beta. intros w m' n w' [-> [-> _]]. auto. }
  cbn beta. intros w a n w' H. dall. subst.
  match goal with H : _ \/ _ |- _ => destruct H as [[_ ->]|[C _]]; [|discriminate C] end.
  cbn [app].
  assert (Hsu : MODE_SIGNER <> MODE_UNKNOWN) by discriminate.
  red. eexists _, _, _. split; [reflexivity|]. split; [red; eauto|].
  destruct (_ =? MODE_BOOTLOADER) eqn:Em.
  - right. apply N.eqb_eq in Em. dall. subst.
    match goal with H : MODE_BOOTLOADER <> MODE_UNKNOWN -> _ |- _ =>
      destruct H as [d [-> Hd]]; [discriminate|] end.
    match goal with H : MODE_SIGNER <> MODE_UNKNOWN -> ev_mode _ _ |- _ => specialize (H Hsu) end.
    split; [red; eauto|].
    eexists _, _, _. rewrite <- app_assoc. cbn [app]. split; [reflexivity|].
    split; [|split; assumption].
    match goal with H : HbOk _ _ _ |- _ => revert H end.
    repeat match goal with H : pin _ = pin _ |- _ => rewrite H; clear H end. auto.
  - left. dall. subst. cbn [app].
    match goal with H : MODE_SIGNER <> MODE_UNKNOWN -> _ |- _ => destruct (H Hsu) as [d [-> Hd]] end.
    split; [red; eauto|assumption].
Qed.

Theorem serves_implies k w w' :
  initialize_device k w = (Ok tt, w') ->
  Serves k (pin w) (new_events w w').
Proof.
  intro E. destruct (ospec_initialize_device k w) as [n [Hn Hq]].
  rewrite E in Hn, Hq. cbn [fst snd] in Hn, Hq.
  rewrite (news_new_events _ _ _ Hn). apply (Hq tt eq_refl).
Qed.

(* ====================================================================== *)
(* Non-vacuity: concrete runs                                              *)
(* ====================================================================== *)

Definition ex_pin : pin_obj := mkPin [49; 97] false false None.
Definition ex_params : bytes := CLA :: CMD_GET_PARAMETERS :: 0 :: repeat 17 32 ++ repeat 0 35 ++ [7; 1].

Definition ex_world (sc : list resp) : world := mkWorld sc [] true [] false (Some ex_pin) [] [].

(* Ledger in bootloader mode: every check passes, the PIN is sent, the device unlocks, the
   re-read mode is SIGNER: the manager ends up serving, having sent exactly one unlock APDU *)
Definition ex_script_unlock : list resp :=
  [ Data [CLA; 1; 5; 4; 1];                        (* onboarded *)
    Data [CLA; MODE_BOOTLOADER];                   (* mode *)
    Data [CLA; 1; 5; 3; 9];                        (* UI version 5.3.9 *)
    Data (CLA :: CMD_ECHO :: echo_msg);            (* echo *)
    Data [CLA; CMD_RETRIES; 3];                    (* retries *)
    Data [CLA; CMD_SEND_PIN]; Data [CLA; CMD_SEND_PIN];
    Data [CLA; CMD_UNLOCK; 1];                     (* unlocked *)
    TimeoutR;                                      (* exit menu: the device reboots *)
    Data [CLA; MODE_SIGNER];
    Data [CLA; 1; 5; 4; 0];                        (* signer version 5.4.0 *)
    Data ex_params ].

Example ex_unlock_serves :
  let r := initialize_device KLedger (ex_world ex_script_unlock) in
  fst r = Ok tt
  /\ count_unlock KLedger (new_events (ex_world ex_script_unlock) (snd r)) = 1%nat
  /\ script (snd r) = [].
Proof. vm_compute. auto. Qed.

(* the same device with one PIN retry left: the manager stops, no PIN / unlock APDU is sent *)
Definition ex_script_retries1 : list resp :=
  [ Data [CLA; 1; 5; 4; 1]; Data [CLA; MODE_BOOTLOADER]; Data [CLA; 1; 5; 3; 9];
    Data (CLA :: CMD_ECHO :: echo_msg); Data [CLA; CMD_RETRIES; 1];
    Data [CLA; CMD_SEND_PIN]; Data [CLA; CMD_SEND_PIN]; Data [CLA; CMD_UNLOCK; 1] ].

Example ex_retries1_stops :
  let r := initialize_device KLedger (ex_world ex_script_retries1) in
  fst r = Exn ProtocolInterrupt
  /\ count_unlock KLedger (new_events (ex_world ex_script_retries1) (snd r)) = 0%nat
  /\ length (new_events (ex_world ex_script_retries1) (snd r)) = 6%nat.
Proof. vm_compute. auto. Qed.

(* SGX: one SGX_UNLOCK APDU, serving *)
Definition ex_script_sgx : list resp :=
  [ Data [CLA; 1; 5; 4; 1]; Data [CLA; MODE_BOOTLOADER]; Data [CLA; 1; 5; 4; 1];
    Data (CLA :: SGXCMD_SGX_ECHO :: echo_msg); Data [CLA; SGXCMD_SGX_RETRIES; 2];
    Data [CLA; SGXCMD_SGX_UNLOCK; 1]; Data [CLA]; Data [CLA; MODE_SIGNER];
    Data [CLA; 1; 5; 4; 1]; Data ex_params ].

Example ex_sgx_serves :
  let r := initialize_device KSgx (ex_world ex_script_sgx) in
  fst r = Ok tt
  /\ count_unlock KSgx (new_events (ex_world ex_script_sgx) (snd r)) = 1%nat.
Proof. vm_compute. auto. Qed.

(* a device already in signer mode but with a newer firmware (5.4.2): not served *)
Example ex_newer_signer_refused :
  fst (initialize_device KLedger
         (ex_world [Data [CLA; 1; 5; 4; 2]; Data [CLA; MODE_SIGNER]; Data [CLA; 1; 5; 4; 2];
                    Data ex_params])) = Exn ProtocolError.
Proof. vm_compute. reflexivity. Qed.

(* unlock succeeded but the PIN must be changed: PIN is changed, then the manager stops *)
Example ex_pin_change_stops :
  let w := mkWorld ex_script_unlock [] true [] false
                   (Some (mkPin [49; 97] true false None)) [[49; 50; 51; 52; 53; 54; 55; 97]] [] in
  fst (initialize_device KLedger w) = Exn ProtocolInterrupt
  /\ count_unlock KLedger (new_events w (snd (initialize_device KLedger w))) = 1%nat.
Proof. vm_compute. auto. Qed.

(* ====================================================================== *)
(* 4 (converse). Devices that answer as described are served               *)
(* ====================================================================== *)

Definition connected (w : world) : world :=
  push (Connect true) (set_opened (set_connects w (tl (connects w))) true).
Definition conn_ok (w : world) : Prop :=
  match connects w with [] => true | b :: _ => b end = true.

Lemma script_sent c d w : script (sent c d w) = tl (script w).
Proof. reflexivity. Qed.
Lemma pin_sent c d w : pin (sent c d w) = pin w.
Proof. reflexivity. Qed.
Lemma connects_sent c d w : connects (sent c d w) = connects w.
Proof. reflexivity. Qed.
Lemma script_connected w : script (connected w) = script w.
Proof. reflexivity. Qed.
Lemma pin_connected w : pin (connected w) = pin w.
Proof. reflexivity. Qed.
Lemma connects_connected w : connects (connected w) = tl (connects w).
Proof. reflexivity. Qed.

Lemma next_answer_script w r rest : script w = r :: rest -> next_answer w = r.
Proof. unfold next_answer. intros ->. reflexivity. Qed.

Lemma bind_ok {A B} (m : M A) (f : A -> M B) w a w1 : m w = (Ok a, w1) -> bind m f w = f a w1.
Proof. unfold bind. intros ->. reflexivity. Qed.

Lemma connect_checked_run w : conn_ok w -> connect_checked w = (Ok tt, connected w).
Proof.
  unfold conn_ok, connect_checked, try_catch, connect, connected. intros ->. reflexivity.
Qed.

Lemma onboard_checked_run w d rest :
  script w = Data d :: rest -> idx d 1 = Some 1 ->
  onboard_checked w = (Ok tt, sent CMD_IS_ONBOARD [] w).
Proof.
  intros Hs Hd. unfold onboard_checked, try_catch, is_onboarded, bind.
  rewrite send_command_run, (next_answer_script _ _ _ Hs). cbn [classify].
  unfold idxM. rewrite Hd. reflexivity.
Qed.

Lemma get_current_mode_run w d m rest :
  script w = Data d :: rest -> idx d 1 = Some m -> mem_N m MODE_VALUES = true ->
  get_current_mode w = (Ok m, sent CMD_GET_MODE [] w).
Proof.
  intros Hs Hd Hm. unfold get_current_mode, try_catch, bind.
  rewrite send_command_run, (next_answer_script _ _ _ Hs). cbn [classify].
  unfold idxM. rewrite Hd. cbn [of_opt ret]. rewrite Hm. reflexivity.
Qed.

Lemma get_version_run w d a b c rest :
  script w = Data d :: rest -> idx d 2 = Some a -> idx d 3 = Some b -> idx d 4 = Some c ->
  get_version w = (Ok (a, b, c), sent CMD_IS_ONBOARD [] w).
Proof.
  intros Hs H2 H3 H4. unfold get_version, bind.
  rewrite send_command_run, (next_answer_script _ _ _ Hs). cbn [classify].
  unfold idxM. rewrite H2, H3, H4. reflexivity.
Qed.

Lemma get_signer_parameters_run w d p rest :
  script w = Data d :: rest -> params_from_dongle (slice_from d OFF_DATAn) = Some p ->
  get_signer_parameters w = (Ok p, sent CMD_GET_PARAMETERS [] w).
Proof.
  intros Hs Hp. unfold get_signer_parameters, bind.
  rewrite send_command_run, (next_answer_script _ _ _ Hs). cbn [classify].
  rewrite Hp. reflexivity.
Qed.

Lemma init_tail_run w dv a b c dp p rest :
  script w = Data dv :: Data dp :: rest ->
  idx dv 2 = Some a -> idx dv 3 = Some b -> idx dv 4 = Some c ->
  supports APP_VERSION (a, b, c) = true ->
  params_from_dongle (slice_from dp OFF_DATAn) = Some p ->
  fst (init_tail MODE_SIGNER w) = Ok tt.
Proof.
  intros Hs H2 H3 H4 Hv Hp. unfold init_tail. rewrite N.eqb_refl.
  rewrite (bind_ok _ _ w tt w eq_refl).
  rewrite (bind_ok _ _ _ _ _ (get_version_run w dv a b c _ Hs H2 H3 H4)).
  unfold check_version. rewrite Hv.
  rewrite (bind_ok _ _ _ tt _ eq_refl).
  erewrite bind_ok; [reflexivity|].
  eapply get_signer_parameters_run; [|exact Hp]. rewrite script_sent, Hs. reflexivity.
Qed.

(* a device in signer mode *)
Theorem serves_direct k w d1 d2 dv a b c dp p rest :
  conn_ok w ->
  script w = Data d1 :: Data d2 :: Data dv :: Data dp :: rest ->
  idx d1 1 = Some 1 ->
  idx d2 1 = Some MODE_SIGNER ->
  idx dv 2 = Some a -> idx dv 3 = Some b -> idx dv 4 = Some c ->
  supports APP_VERSION (a, b, c) = true ->
  params_from_dongle (slice_from dp OFF_DATAn) = Some p ->
  fst (initialize_device k w) = Ok tt.
Proof.
  intros Hc Hs H1 Hm H2 H3 H4 Hv Hp. rewrite initialize_device_eq.
  rewrite (bind_ok _ _ _ _ _ (connect_checked_run w Hc)).
  erewrite bind_ok; [|eapply onboard_checked_run; [rewrite script_connected; exact Hs|exact H1]].
  erewrite bind_ok;
    [|eapply get_current_mode_run;
      [rewrite script_sent, script_connected, Hs; reflexivity|exact Hm|reflexivity]].
  change (MODE_SIGNER =? MODE_BOOTLOADER) with false. cbv iota.
  rewrite (bind_ok _ _ _ MODE_SIGNER _ eq_refl).
  eapply init_tail_run; eauto.
  rewrite !script_sent, script_connected, Hs. reflexivity.
Qed.

Lemma echo_run k w rest :
  script w = Data (CLA :: echo_cmd k :: echo_msg) :: rest ->
  echo k w = (Ok true, sent (echo_cmd k) echo_msg w).
Proof.
  intros Hs. unfold echo. cbv zeta. fold (echo_cmd k). unfold bind.
  rewrite send_command_run, (next_answer_script _ _ _ Hs). cbn [classify ret].
  replace (bytes_eqb (CLA :: echo_cmd k :: echo_msg) (CLA :: echo_cmd k :: echo_msg)) with true
    by (destruct k; reflexivity).
  reflexivity.
Qed.

Lemma retries_checked_run k w d r rest :
  script w = Data d :: rest -> idx d 2 = Some r -> MIN_AVAILABLE_RETRIES <= r ->
  retries_checked k w = (Ok tt, sent (retries_cmd k) [] w).
Proof.
  intros Hs Hd Hr. unfold retries_checked, try_catch, get_retries. fold (retries_cmd k).
  unfold bind. rewrite send_command_run, (next_answer_script _ _ _ Hs). cbn [classify].
  unfold idxM. rewrite Hd. cbn [of_opt ret].
  replace (r <? MIN_AVAILABLE_RETRIES) with false by (symmetry; apply N.ltb_ge; exact Hr).
  reflexivity.
Qed.

Lemma send_pin_bytes_run p : forall i w pds rest,
  script w = map Data pds ++ rest -> length pds = length p ->
  exists w', send_pin_bytes i p w = (Ok tt, w') /\ script w' = rest /\ pin w' = pin w
             /\ connects w' = connects w.
Proof.
  induction p as [|x p IH]; intros i w pds rest Hs Hl.
  - destruct pds; [|discriminate]. exists w. cbn [send_pin_bytes ret]. auto.
  - destruct pds as [|pd pds]; [discriminate|]. cbn [map app] in Hs. cbn [send_pin_bytes].
    unfold bind at 1. rewrite send_command_run, (next_answer_script _ _ _ Hs). cbn [classify].
    destruct (IH (i + 1) (sent CMD_SEND_PIN [i; x] w) pds rest) as [w' [E [H1 [H2 H3]]]].
    + rewrite script_sent, Hs. reflexivity.
    + cbn [length] in Hl. lia.
    + exists w'. rewrite E. auto.
Qed.

Lemma unlock_core_run c data w d b rest :
  script w = Data d :: rest -> idx d 2 = Some b -> b <> 0 ->
  unlock_core c data w = (Ok true, sent c data w).
Proof.
  intros Hs Hd Hb. unfold unlock_core, bind.
  rewrite send_command_run, (next_answer_script _ _ _ Hs). cbn [classify].
  unfold idxM. rewrite Hd. cbn [of_opt ret].
  replace (b =? 0) with false by (symmetry; apply N.eqb_neq; exact Hb). reflexivity.
Qed.

Lemma unlock_run k p w pds d b rest :
  script w = map Data pds ++ Data d :: rest ->
  length pds = match k with KSgx => 0%nat | _ => length p end ->
  idx d 2 = Some b -> b <> 0 ->
  exists w', unlock k p w = (Ok true, w') /\ script w' = rest /\ pin w' = pin w
             /\ connects w' = connects w.
Proof.
  intros Hs Hl Hd Hb.
  assert (Hled : length pds = length p ->
            exists w', (send_pin p false ;;; unlock_core CMD_UNLOCK [0; 0]) w = (Ok true, w')
                       /\ script w' = rest /\ pin w' = pin w /\ connects w' = connects w).
  { intro Hl'. unfold send_pin.
    destruct (send_pin_bytes_run p 0 w pds _ Hs Hl') as [w1 [E [H1 [H2 H3]]]].
    rewrite (bind_ok _ _ _ _ _ E).
    rewrite (unlock_core_run _ _ _ _ _ _ H1 Hd Hb).
    eexists. split; [reflexivity|]. rewrite script_sent, pin_sent, connects_sent, H1. auto. }
  destruct k; [apply Hled; exact Hl| |apply Hled; exact Hl].
  destruct pds; [|discriminate]. cbn [map app] in Hs.
  change (unlock KSgx p) with (unlock_core SGXCMD_SGX_UNLOCK (0 :: p)).
  rewrite (unlock_core_run _ _ _ _ _ _ Hs Hd Hb).
  eexists. split; [reflexivity|]. rewrite script_sent, pin_sent, connects_sent, Hs. auto.
Qed.

Lemma exit_menu_checked_run w : exit_menu_checked w = (Ok tt, sent CMD_EXIT_MENU [0; 0] w).
Proof.
  unfold exit_menu_checked, try_catch, exit_menu, bind. rewrite send_command_run.
  destruct (classify (next_answer w)); [reflexivity|]. rewrite exit_catches_all. reflexivity.
Qed.

Lemma wait_and_reconnect_run w :
  conn_ok w ->
  exists w', wait_and_reconnect w = (Ok tt, w') /\ script w' = script w /\ pin w' = pin w.
Proof.
  unfold conn_ok, wait_and_reconnect, bind, disconnect, connect. intro Hc.
  destruct (opened w).
  - unfold push, set_opened, set_trace. cbn [connects]. rewrite Hc. eexists. split; [reflexivity|]. auto.
  - rewrite Hc. eexists. split; [reflexivity|]. auto.
Qed.

Lemma hb_tail_run k w po :
  pin w = Some po -> pin_needs_change po = false -> conn_ok w ->
  exists w', hb_tail k w = (Ok tt, w') /\ script w' = tl (script w).
Proof.
  intros Hp Hn Hc. unfold hb_tail.
  assert (E1 : pin_needs_change_m w = (Ok false, w)).
  { unfold pin_needs_change_m, with_pin. rewrite Hp, Hn. reflexivity. }
  rewrite (bind_ok _ _ _ _ _ E1). cbv iota.
  rewrite (bind_ok _ _ w tt w eq_refl).
  rewrite (bind_ok _ _ _ _ _ (exit_menu_checked_run w)).
  destruct (wait_and_reconnect_run (sent CMD_EXIT_MENU [0; 0] w)) as [w' [E [H1 H2]]].
  { unfold conn_ok. rewrite connects_sent. exact Hc. }
  exists w'. split; [exact E|]. rewrite H1. apply script_sent.
Qed.

Lemma handle_bootloader_run k w po dv a b c dr r pds du ub ax rest :
  script w = Data dv :: Data (CLA :: echo_cmd k :: echo_msg) :: Data dr
             :: map Data pds ++ Data du :: ax :: rest ->
  idx dv 2 = Some a -> idx dv 3 = Some b -> idx dv 4 = Some c ->
  supports UI_VERSION (a, b, c) = true ->
  idx dr 2 = Some r -> MIN_AVAILABLE_RETRIES <= r ->
  pin w = Some po -> pin_needs_change po = false ->
  length pds = match k with KSgx => 0%nat | _ => length (pin_cur po) end ->
  idx du 2 = Some ub -> ub <> 0 ->
  conn_ok w ->
  exists w', handle_bootloader k w = (Ok tt, w') /\ script w' = rest.
Proof.
  intros Hs H2 H3 H4 Hv Hr Hr2 Hp Hn Hl Hu Hub Hc. rewrite handle_bootloader_eq.
  rewrite (bind_ok _ _ _ _ _ (get_version_run w dv a b c _ Hs H2 H3 H4)).
  unfold check_version. rewrite Hv. rewrite (bind_ok _ _ _ tt _ eq_refl).
  erewrite bind_ok; [|eapply echo_run; rewrite script_sent, Hs; reflexivity].
  cbv iota. rewrite (bind_ok _ _ _ tt _ eq_refl).
  erewrite bind_ok;
    [|eapply retries_checked_run; [rewrite !script_sent, Hs; reflexivity|exact Hr|exact Hr2]].
  set (w3 := sent (retries_cmd k) [] _).
  assert (Hp3 : pin w3 = Some po) by (unfold w3; rewrite !pin_sent; exact Hp).
  assert (E1 : pin_get_pin w3 = (Ok (pin_cur po), w3)).
  { unfold pin_get_pin, with_pin. rewrite Hp3. reflexivity. }
  rewrite (bind_ok _ _ _ _ _ E1).
  destruct (unlock_run k (pin_cur po) w3 pds du ub (ax :: rest)) as [w4 [E [Hs4 [Hp4 Hc4]]]];
    [unfold w3; rewrite !script_sent, Hs; reflexivity|exact Hl|exact Hu|exact Hub|].
  rewrite (bind_ok _ _ _ _ _ E). cbv iota. rewrite (bind_ok _ _ _ tt _ eq_refl).
  destruct (hb_tail_run k w4 po) as [w5 [E5 Hs5]].
  - congruence.
  - exact Hn.
  - unfold conn_ok. rewrite Hc4. unfold w3. rewrite !connects_sent. exact Hc.
  - exists w5. split; [exact E5|]. rewrite Hs5, Hs4. reflexivity.
Qed.

(* a device in bootloader mode that passes every check, unlocks, needs no PIN change and
   comes back in signer mode *)
Theorem serves_after_unlock k w po d1 d2 dv a b c dr r pds du ub ax dm dv2 a2 b2 c2 dp p rest :
  conn_ok w -> conn_ok (connected w) ->
  script w = Data d1 :: Data d2 :: Data dv :: Data (CLA :: echo_cmd k :: echo_msg) :: Data dr
             :: map Data pds ++ Data du :: ax :: Data dm :: Data dv2 :: Data dp :: rest ->
  idx d1 1 = Some 1 ->
  idx d2 1 = Some MODE_BOOTLOADER ->
  idx dv 2 = Some a -> idx dv 3 = Some b -> idx dv 4 = Some c ->
  supports UI_VERSION (a, b, c) = true ->
  idx dr 2 = Some r -> MIN_AVAILABLE_RETRIES <= r ->
  pin w = Some po -> pin_needs_change po = false ->
  length pds = match k with KSgx => 0%nat | _ => length (pin_cur po) end ->
  idx du 2 = Some ub -> ub <> 0 ->
  idx dm 1 = Some MODE_SIGNER ->
  idx dv2 2 = Some a2 -> idx dv2 3 = Some b2 -> idx dv2 4 = Some c2 ->
  supports APP_VERSION (a2, b2, c2) = true ->
  params_from_dongle (slice_from dp OFF_DATAn) = Some p ->
  fst (initialize_device k w) = Ok tt.
Proof.
  intros Hc Hc2 Hs H1 Hm H2 H3 H4 Hv Hr Hr2 Hp Hn Hl Hu Hub Hm2 G2 G3 G4 Hv2 Hpar.
  rewrite initialize_device_eq.
  rewrite (bind_ok _ _ _ _ _ (connect_checked_run w Hc)).
  erewrite bind_ok; [|eapply onboard_checked_run; [rewrite script_connected; exact Hs|exact H1]].
  erewrite bind_ok;
    [|eapply get_current_mode_run;
      [rewrite script_sent, script_connected, Hs; reflexivity|exact Hm|reflexivity]].
  rewrite N.eqb_refl.
  set (w2 := sent CMD_GET_MODE [] _).
  assert (Hs2 : script w2 = Data dv :: Data (CLA :: echo_cmd k :: echo_msg) :: Data dr
             :: map Data pds ++ Data du :: ax :: Data dm :: Data dv2 :: Data dp :: rest).
  { unfold w2. rewrite !script_sent, script_connected, Hs. reflexivity. }
  assert (Hp2 : pin w2 = Some po).
  { unfold w2. rewrite !pin_sent, pin_connected. exact Hp. }
  assert (Hcc : conn_ok w2).
  { unfold conn_ok, w2. rewrite !connects_sent. exact Hc2. }
  destruct (handle_bootloader_run k w2 po dv a b c dr r pds du ub ax
              (Data dm :: Data dv2 :: Data dp :: rest)
              Hs2 H2 H3 H4 Hv Hr Hr2 Hp2 Hn Hl Hu Hub Hcc) as [w3 [E3 Hs3]].
  unfold bind at 1. unfold bind at 1. rewrite E3.
  rewrite (get_current_mode_run w3 dm MODE_SIGNER _ Hs3 Hm2 eq_refl).
  eapply init_tail_run; eauto. rewrite script_sent, Hs3. reflexivity.
Qed.

(* new_events really is the trace extension of a bring-up run *)
Lemma initialize_device_news k w :
  trace (snd (initialize_device k w))
  = rev (new_events w (snd (initialize_device k w))) ++ trace w.
Proof.
  destruct (initialize_device_guarded k w) as [n [Hn _]].
  rewrite (news_new_events _ _ _ Hn). exact Hn.
Qed.

(* served runs are a special case of 2/3: the unlock APDU (if any) was answered "unlocked" *)
Corollary serves_unlock_count k w w' :
  initialize_device k w = (Ok tt, w') -> (count_unlock k (new_events w w') <= 1)%nat.
Proof.
  intro E. pose proof (unlock_at_most_once k w) as H. rewrite E in H. exact H.
Qed.
